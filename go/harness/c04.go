package main

// C04 — PLY write/read round trip, three encodings.
//
// Streams: "c04".  Ops
//   c04.write  <cfg> <mesh>            → hex bytes MeshWriter.Write / ply.Write produced   (model: writeMesh)
//   c04.read   <hex>                   → canonical mesh ply.ReadMesh returned              (model: readMesh)
//   c04.header <hex>                   → ply.ReadHeader result + unread byte count         (model: parseHeader)
//   c04.holds.header_describes <hex> nv nf tri
//   c04.holds.roundtrip <cfg> <mesh> <read-back mesh>
//   c04.holds.encodings_agree <back ascii> <back le> <back be>
//   c04.holds.uchar_scalar_ascii_agrees …   (KNOWN FINDING witness: expected false)

import (
	"bytes"
	"fmt"
	"math"
	"os"
	"strconv"
	"strings"

	"github.com/EliCDavis/polyform/formats/ply"
	"github.com/EliCDavis/polyform/modeling"
	"github.com/EliCDavis/polyform/nodes"
	"github.com/EliCDavis/vector/vector2"
	"github.com/EliCDavis/vector/vector3"
	"github.com/EliCDavis/vector/vector4"
)

func init() { streams["c04"] = runC04 }

func plyFmtTok(f ply.Format) string {
	switch f {
	case ply.ASCII:
		return "ascii"
	case ply.BinaryLittleEndian:
		return "le"
	}
	return "be"
}

var plyFormats = []ply.Format{ply.ASCII, ply.BinaryLittleEndian, ply.BinaryBigEndian}

// a writer configuration: nil props = ply.Write (default writer)
type plyWProp struct {
	attr  string
	names []string
	ty    ply.ScalarPropertyType
}

type plyWCfg struct {
	isDefault   bool
	unspecified bool
	props       []plyWProp
}

func (w plyWCfg) tok(f ply.Format) string {
	if w.isDefault {
		return plyFmtTok(f) + " default"
	}
	sb := strings.Builder{}
	u := 0
	if w.unspecified {
		u = 1
	}
	fmt.Fprintf(&sb, "%s custom %d %d", plyFmtTok(f), u, len(w.props))
	for _, p := range w.props {
		fmt.Fprintf(&sb, " %s %d", plyHs(p.attr), len(p.names))
		for _, n := range p.names {
			sb.WriteString(" " + plyHs(n))
		}
		sb.WriteString(" " + string(p.ty))
	}
	return sb.String()
}

func (w plyWCfg) write(m modeling.Mesh, f ply.Format) ([]byte, error) {
	buf := &bytes.Buffer{}
	if w.isDefault {
		err := ply.Write(buf, m, f)
		return buf.Bytes(), err
	}
	mw := ply.MeshWriter{Format: f, WriteUnspecifiedProperties: w.unspecified}
	for i, p := range w.props {
		var pw ply.PropertyWriter
		ptr := i%2 == 1 // both the value and the pointer forms are accepted by the type switch
		switch len(p.names) {
		case 1:
			v := ply.Vector1PropertyWriter{ModelAttribute: p.attr, PlyProperty: p.names[0], Type: p.ty}
			if ptr {
				pw = &v
			} else {
				pw = v
			}
		case 2:
			v := ply.Vector2PropertyWriter{ModelAttribute: p.attr, PlyPropertyX: p.names[0], PlyPropertyY: p.names[1], Type: p.ty}
			if ptr {
				pw = &v
			} else {
				pw = v
			}
		case 3:
			v := ply.Vector3PropertyWriter{ModelAttribute: p.attr, PlyPropertyX: p.names[0], PlyPropertyY: p.names[1], PlyPropertyZ: p.names[2], Type: p.ty}
			if ptr {
				pw = &v
			} else {
				pw = v
			}
		default:
			v := ply.Vector4PropertyWriter{ModelAttribute: p.attr, PlyPropertyX: p.names[0], PlyPropertyY: p.names[1], PlyPropertyZ: p.names[2], PlyPropertyW: p.names[3], Type: p.ty}
			if ptr {
				pw = &v
			} else {
				pw = v
			}
		}
		mw.Properties = append(mw.Properties, pw)
	}
	err := mw.Write(m, buf)
	return buf.Bytes(), err
}

// ---- generators --------------------------------------------------------------

type plyValueClass int

const (
	plyVcNice plyValueClass = iota // dyadic k/8, exactly printable and float32-exact
	plyVcAny                    // arbitrary doubles (binary formats only)
	plyVcF32                    // float32-representable values with many significant digits and small magnitudes
	//                             (random float32 bit patterns, exponents −30..+10): all three encodings; "up to the
	//                             precision of the stored type" is then bit-exact equality
	plyVcHuge //                   float32-representable values of huge magnitude (2^31 … MaxFloat32: beyond int32 / int64,
	//                             whole numbers with 10 … 39 digits) mixed with plyVcF32 values; float / double writers only
)

// a float32-representable value of huge magnitude
func (c *Ctx) plyHuge() float64 {
	var v float64
	switch c.Rng.Intn(12) {
	case 0:
		v = math.Ldexp(1, 63) // 2^63: the first whole number beyond int64
	case 1:
		v = float64(float32(1e19))
	case 2:
		v = float64(float32(3e20))
	case 3:
		v = math.Ldexp(1, 64)
	case 4:
		v = float64(float32(2.5e30))
	case 5:
		v = math.MaxFloat32
	case 6:
		v = math.Ldexp(1, 100)
	case 7:
		v = float64(math.Float32frombits(0x5effffff)) // the largest float32 below 2^63
	case 8:
		v = math.Ldexp(1, 31) // beyond int32
	case 9:
		v = float64(float32(4e9))
	default:
		e := 31 + c.Rng.Intn(97) // 2^31 … 2^127
		mant := uint32(c.Rng.Intn(1 << 23))
		if c.Rng.Intn(2) == 0 {
			mant &= 0x7f0000
		}
		v = float64(math.Float32frombits(uint32(127+e)<<23 | mant))
	}
	if c.Rng.Intn(2) == 0 {
		v = -v
	}
	return v
}

// a float32-representable value: special small / many-digit values, else a random bit pattern
func (c *Ctx) plyF32(unit bool) float64 {
	if unit {
		switch c.Rng.Intn(4) {
		case 0:
			return float64(float32(0.1))
		case 1:
			return float64(float32(c.Rng.Intn(256)) / 255)
		}
		return float64(c.Rng.Float32())
	}
	switch c.Rng.Intn(8) {
	case 0:
		return math.Ldexp(1, -21) // 4.76837158203125e-07: below half a millionth
	case 1:
		return float64(float32(1.2207031e-4))
	case 2:
		return float64(float32(0.1))
	case 3:
		return -math.Ldexp(float64(1+c.Rng.Intn(7)), -20-c.Rng.Intn(10))
	}
	e := c.Rng.Intn(41) - 30
	mant := uint32(c.Rng.Intn(1 << 23))
	if c.Rng.Intn(3) == 0 {
		mant &= 0x7f0000 // few mantissa bits
	}
	bits := uint32(c.Rng.Intn(2))<<31 | uint32(127+e)<<23 | mant
	return float64(math.Float32frombits(bits))
}

func (c *Ctx) plyVal(vc plyValueClass, unit bool) float64 {
	if vc == plyVcHuge {
		if !unit && c.Rng.Intn(2) == 0 {
			return c.plyHuge()
		}
		return c.plyF32(unit)
	}
	if vc == plyVcF32 {
		return c.plyF32(unit)
	}
	if unit {
		// colour-like: mostly in [0,1], some out of range, .5 boundaries
		switch c.Rng.Intn(8) {
		case 0:
			return 1.5
		case 1:
			return -0.25
		case 2:
			if vc == plyVcAny {
				return float64(c.Rng.Intn(256)) / 255.
			}
			return 0.5
		case 3:
			if vc == plyVcAny {
				return c.Rng.Float64()
			}
			return float64(c.Rng.Intn(9)) / 8
		default:
			return float64(c.Rng.Intn(9)) / 8
		}
	}
	if vc == plyVcAny {
		switch c.Rng.Intn(4) {
		case 0:
			return (c.Rng.Float64()*2 - 1) * 1e6
		case 1:
			return (c.Rng.Float64()*2 - 1) * 1e-3
		case 2:
			return float64(c.Rng.Intn(1<<25) - (1 << 24))
		}
		return c.Rng.Float64()*20 - 10
	}
	k := c.Rng.Intn(1<<13) - (1 << 12)
	if k == 0 {
		k = 1 // no signed-zero subtleties in the decimal printer
	}
	switch c.Rng.Intn(4) {
	case 0:
		return float64(k)
	case 1:
		return float64(k) / 8
	case 2:
		// more than six decimals, still at most 13 significant digits (exactly printable): j/65536
		j := 1 + c.Rng.Intn(63)
		if k < 0 {
			j = -j
		}
		return float64(j) / 65536
	}
	return float64(k) / 64
}

type plyGenMesh struct {
	specialName string // a user scalar named like a recognised property (or not a single word)
	mesh     modeling.Mesh
	userV1   []string
	hasColor bool
}

// first-element special values: vertex 0 is the all-zero vector in every attribute; runs of equal consecutive vectors
var plyZeroFirst, plyRepeatRuns bool

func (c *Ctx) plyRunAt(i int) bool { return plyRepeatRuns && i > 0 && c.Rng.Intn(2) == 0 }

func (c *Ctx) plyV1s(n int, vc plyValueClass, unit bool) []float64 {
	out := make([]float64, n)
	for i := range out {
		out[i] = c.plyVal(vc, unit)
		if c.plyRunAt(i) {
			out[i] = out[i-1]
		}
		if plyZeroFirst && i == 0 {
			out[i] = 0
		}
	}
	return out
}
func (c *Ctx) plyV2s(n int, vc plyValueClass, unit bool) []vector2.Float64 {
	out := make([]vector2.Float64, n)
	for i := range out {
		out[i] = vector2.New(c.plyVal(vc, unit), c.plyVal(vc, unit))
		if c.plyRunAt(i) {
			out[i] = out[i-1]
		}
		if plyZeroFirst && i == 0 {
			out[i] = vector2.New(0., 0.)
		}
	}
	return out
}
func (c *Ctx) plyV3s(n int, vc plyValueClass, unit bool) []vector3.Float64 {
	out := make([]vector3.Float64, n)
	for i := range out {
		out[i] = vector3.New(c.plyVal(vc, unit), c.plyVal(vc, unit), c.plyVal(vc, unit))
		if c.plyRunAt(i) {
			out[i] = out[i-1]
		}
		if plyZeroFirst && i == 0 {
			out[i] = vector3.New(0., 0., 0.)
		}
	}
	return out
}
func (c *Ctx) plyV4s(n int, vc plyValueClass, unit bool) []vector4.Float64 {
	out := make([]vector4.Float64, n)
	for i := range out {
		out[i] = vector4.New(c.plyVal(vc, unit), c.plyVal(vc, unit), c.plyVal(vc, unit), c.plyVal(vc, unit))
		if c.plyRunAt(i) {
			out[i] = out[i-1]
		}
		if plyZeroFirst && i == 0 {
			out[i] = vector4.New(0., 0., 0., 0.)
		}
	}
	return out
}

// structured mesh: topology, size class, attribute subset, index pattern
func (c *Ctx) plyMesh(vc plyValueClass) plyGenMesh {
	plyZeroFirst, plyRepeatRuns = c.Rng.Intn(4) == 0, c.Rng.Intn(4) == 0
	defer func() { plyZeroFirst, plyRepeatRuns = false, false }()
	if plyZeroFirst {
		c.Note("values:vertex0-all-zero")
	}
	if plyRepeatRuns {
		c.Note("values:equal-consecutive-runs")
	}
	tri := c.Rng.Intn(2) == 0
	// "one vertex per corner, but the index buffer is not 0..n-1": reordered faces, flipped winding, shared +
	// unreferenced vertices with vertex count == corner count (a reader that takes this for an unwelded mesh and skips
	// the unweld puts per-corner data on the wrong corners)
	cornerClass := tri && c.Rng.Intn(4) == 0
	forceNF := -1
	var nv int
	switch c.Rng.Intn(10) {
	case 0:
		nv = 0
	case 1:
		nv = 1
	case 2:
		nv = 9 + c.Rng.Intn(30)
	default:
		nv = 2 + c.Rng.Intn(6)
	}
	if cornerClass {
		forceNF = 1 + c.Rng.Intn(3)
		nv = 3 * forceNF
		c.Note("mesh:vertex-count=corner-count")
	}
	g := plyGenMesh{}
	type setter func(m modeling.Mesh) modeling.Mesh
	sets := []setter{}
	if nv > 0 {
		if c.Rng.Intn(8) != 0 {
			d := c.plyV3s(nv, vc, false)
			sets = append(sets, func(m modeling.Mesh) modeling.Mesh { return m.SetFloat3Attribute(modeling.PositionAttribute, d) })
		}
		if c.Rng.Intn(2) == 0 {
			d := c.plyV3s(nv, vc, false)
			sets = append(sets, func(m modeling.Mesh) modeling.Mesh { return m.SetFloat3Attribute(modeling.NormalAttribute, d) })
		}
		switch c.Rng.Intn(5) {
		case 0, 1:
			d := c.plyV3s(nv, vc, true)
			g.hasColor = true
			sets = append(sets, func(m modeling.Mesh) modeling.Mesh { return m.SetFloat3Attribute(modeling.ColorAttribute, d) })
		case 2:
			if c.Rng.Intn(3) == 0 {
				d := c.plyV4s(nv, vc, true)
				sets = append(sets, func(m modeling.Mesh) modeling.Mesh { return m.SetFloat4Attribute(modeling.ColorAttribute, d) })
			}
		}
		if (tri && (cornerClass || c.Rng.Intn(2) == 0)) || (!tri && c.Rng.Intn(3) == 0) {
			if !tri {
				c.Note("mesh:point+texcoord")
			}
			d := plyTaggedUV(nv, c.Rng.Intn(16)) // distinct per vertex: a UV on the wrong corner is visible
			sets = append(sets, func(m modeling.Mesh) modeling.Mesh { return m.SetFloat2Attribute(modeling.TexCoordAttribute, d) })
		}
		if c.Rng.Intn(4) == 0 { // splat attributes
			if c.Rng.Intn(2) == 0 {
				d := c.plyV3s(nv, vc, false)
				sets = append(sets, func(m modeling.Mesh) modeling.Mesh { return m.SetFloat3Attribute(modeling.FDCAttribute, d) })
			}
			if c.Rng.Intn(2) == 0 {
				d := c.plyV1s(nv, vc, false)
				sets = append(sets, func(m modeling.Mesh) modeling.Mesh { return m.SetFloat1Attribute(modeling.OpacityAttribute, d) })
			}
			if c.Rng.Intn(2) == 0 {
				d := c.plyV3s(nv, vc, false)
				sets = append(sets, func(m modeling.Mesh) modeling.Mesh { return m.SetFloat3Attribute(modeling.ScaleAttribute, d) })
			}
			if c.Rng.Intn(2) == 0 {
				d := c.plyV4s(nv, vc, false)
				sets = append(sets, func(m modeling.Mesh) modeling.Mesh { return m.SetFloat4Attribute(modeling.RotationAttribute, d) })
			}
		}
		nUser := 0
		if c.Rng.Intn(2) == 0 {
			nUser = 1 + c.Rng.Intn(3)
		}
		for k := 0; k < nUser; k++ {
			name := c.plyUserName()
			if c.Rng.Intn(25) == 0 {
				// names the writer must reject (not a single word / duplicate of a written property) or that coincide
				// with a recognised property name
				name = []string{"my attr", "x", "red", "nx", " lead", "opacity", "s", "alpha", "a", "diffuse_alpha", "rot_3", "scale_2", "f_dc_0"}[c.Rng.Intn(13)]
				g.specialName = name
				c.Note("user-name:special")
			}
			d := c.plyV1s(nv, vc, false)
			g.userV1 = append(g.userV1, name)
			sets = append(sets, func(m modeling.Mesh) modeling.Mesh { return m.SetFloat1Attribute(name, d) })
		}
		if c.Rng.Intn(8) == 0 { // user vectors: written as name_k scalars
			name := c.plyUserName()
			switch c.Rng.Intn(3) {
			case 0:
				d := c.plyV2s(nv, vc, false)
				sets = append(sets, func(m modeling.Mesh) modeling.Mesh { return m.SetFloat2Attribute(name, d) })
			case 1:
				d := c.plyV3s(nv, vc, false)
				sets = append(sets, func(m modeling.Mesh) modeling.Mesh { return m.SetFloat3Attribute(name, d) })
			default:
				d := c.plyV4s(nv, vc, false)
				sets = append(sets, func(m modeling.Mesh) modeling.Mesh { return m.SetFloat4Attribute(name, d) })
			}
		}
		if len(sets) == 0 {
			d := c.plyV3s(nv, vc, false)
			sets = append(sets, func(m modeling.Mesh) modeling.Mesh { return m.SetFloat3Attribute(modeling.PositionAttribute, d) })
		}
		if c.Rng.Intn(6) == 0 {
			// the SAME attribute name in another arity (the mesh keeps one map per arity): Float1 Scale next to Float3 Scale,
			// Float4 Color next to Float3 Color, a Float4 / Float3 / Float2 named like a user scalar, …  Each is its own
			// attribute and is written (configured writer for one, name / name_k properties for the other).
			names := []string{modeling.ScaleAttribute, modeling.ColorAttribute, modeling.PositionAttribute, modeling.NormalAttribute,
				modeling.OpacityAttribute, modeling.RotationAttribute, modeling.FDCAttribute}
			names = append(names, g.userV1...)
			name := names[c.Rng.Intn(len(names))]
			unit := name == modeling.ColorAttribute
			for _, dim := range c.Rng.Perm(4)[:1+c.Rng.Intn(2)] {
				switch dim + 1 {
				case 1:
					isUser := false
					for _, u := range g.userV1 {
						isUser = isUser || u == name
					}
					if isUser {
						continue // already there as a scalar (and its values must stay the generated ones)
					}
					d := c.plyV1s(nv, vc, unit)
					if name != modeling.OpacityAttribute {
						// (Float1 Opacity already has its standard writer candidate; two configured writers for ONE attribute
						// land on one key when read back — outside the round-trip predicate)
						g.userV1 = append(g.userV1, name)
					}
					sets = append(sets, func(m modeling.Mesh) modeling.Mesh { return m.SetFloat1Attribute(name, d) })
				case 2:
					d := c.plyV2s(nv, vc, unit)
					sets = append(sets, func(m modeling.Mesh) modeling.Mesh { return m.SetFloat2Attribute(name, d) })
				case 3:
					d := c.plyV3s(nv, vc, unit)
					sets = append(sets, func(m modeling.Mesh) modeling.Mesh { return m.SetFloat3Attribute(name, d) })
				default:
					d := c.plyV4s(nv, vc, unit)
					sets = append(sets, func(m modeling.Mesh) modeling.Mesh { return m.SetFloat4Attribute(name, d) })
				}
			}
			c.Note("mesh:same-name-other-arity")
		}
	}
	var indices []int
	var topo modeling.Topology
	if tri {
		topo = modeling.TriangleTopology
		nf := 0
		if nv > 0 {
			switch c.Rng.Intn(6) {
			case 0:
				nf = 0
			case 1:
				nf = 1
			default:
				nf = 1 + c.Rng.Intn(7)
			}
		}
		if forceNF >= 0 {
			nf = forceNF
		}
		indices = make([]int, nf*3)
		pattern := c.Rng.Intn(4)
		if cornerClass {
			pattern = 4 + c.Rng.Intn(3)
		}
		switch pattern {
		case 4: // a permutation of 0..n-1
			copy(indices, c.Rng.Perm(nv))
			c.Note("indices:permutation")
		case 5: // faces stored in another order and / or with flipped winding
			for f := 0; f < nf; f++ {
				src := (f + 1) % nf
				indices[3*f], indices[3*f+1], indices[3*f+2] = 3*src, 3*src+2, 3*src+1
			}
			c.Note("indices:reordered-flipped")
		case 6: // shared and unreferenced vertices, still as many vertices as corners
			for i := range indices {
				indices[i] = c.Rng.Intn(nv)
			}
			c.Note("indices:shared+unreferenced")
		case 0: // identity-like (unwelded) where possible
			for i := range indices {
				indices[i] = i % nv
			}
			c.Note("indices:sequential")
		default: // shared, unreferenced, repeated vertices
			for i := range indices {
				indices[i] = c.Rng.Intn(nv)
			}
			c.Note("indices:random")
		}
	} else {
		topo = modeling.PointTopology
		indices = make([]int, nv)
		for i := range indices {
			indices[i] = i
		}
	}
	m := modeling.NewMesh(topo, indices)
	for _, s := range sets {
		m = s(m)
	}
	if tri && c.Rng.Intn(6) == 0 {
		uri := "tex_" + strconv.Itoa(c.Rng.Intn(100)) + ".png"
		m = m.SetMaterial(modeling.Material{Name: "m", ColorTextureURI: &uri})
		c.Note("mesh:texture-uri")
	}
	g.mesh = m
	if tri {
		c.Note("mesh:triangle")
	} else {
		c.Note("mesh:point")
	}
	if nv == 0 {
		c.Note("mesh:empty")
	}
	return g
}

// texture coordinates tagged by the vertex number (dyadic, exactly printable)
func plyTaggedUV(n, k int) []vector2.Float64 {
	out := make([]vector2.Float64, n)
	for i := range out {
		out[i] = vector2.New(float64(i+1)/8+float64(k), -float64(2*i+1)/64)
	}
	return out
}

// a large mesh whose values are tagged by the vertex number: sizes cross internal batch / buffer boundaries
func (c *Ctx) plyMeshLarge(nv int, tri bool, nf int) plyGenMesh {
	pos := make([]vector3.Float64, nv)
	col := make([]vector3.Float64, nv)
	tag := make([]float64, nv)
	for i := range pos {
		pos[i] = vector3.New(float64(i), float64(i)/8, -float64(i)-0.5)
		col[i] = vector3.New(float64(i%9)/8, float64((i/9)%9)/8, float64((i/81)%9)/8)
		tag[i] = float64(i + 1)
	}
	var indices []int
	topo := modeling.PointTopology
	if tri {
		topo = modeling.TriangleTopology
		indices = make([]int, 3*nf)
		for i := range indices {
			indices[i] = c.Rng.Intn(nv)
		}
	} else {
		indices = make([]int, nv)
		for i := range indices {
			indices[i] = i
		}
	}
	m := modeling.NewMesh(topo, indices).SetFloat3Attribute(modeling.PositionAttribute, pos).SetFloat1Attribute("tag", tag)
	if c.Rng.Intn(2) == 0 {
		m = m.SetFloat3Attribute(modeling.ColorAttribute, col)
	}
	if c.Rng.Intn(2) == 0 {
		m = m.SetFloat2Attribute(modeling.TexCoordAttribute, plyTaggedUV(nv, 0))
	}
	if c.Rng.Intn(3) == 0 {
		rot := make([]vector4.Float64, nv)
		for i := range rot {
			rot[i] = vector4.New(float64(i), float64(i)+0.25, float64(i)+0.5, float64(i)+0.75)
		}
		m = m.SetFloat4Attribute(modeling.RotationAttribute, rot)
	}
	c.Note(fmt.Sprintf("large:nv=%d:tri=%v:nf=%d", nv, tri, nf))
	return plyGenMesh{mesh: m, userV1: []string{"tag"}}
}

var plyScalarTypes = []ply.ScalarPropertyType{ply.Float, ply.Float, ply.Double, ply.UChar, ply.Int}

// custom configurations with float / double writers only (huge values: float → int conversions of values that do not fit
// are implementation-defined in Go, so integer-typed writers are not combined with them)
var plyFloatTypesOnly bool

// custom writer configuration: subset / permutation of the standard writers, alternative recognised names,
// other scalar types, writers for user attributes under another property name
func (c *Ctx) plyCfg(g plyGenMesh) plyWCfg {
	if c.Rng.Intn(3) == 0 {
		c.Note("cfg:default")
		return plyWCfg{isDefault: true}
	}
	w := plyWCfg{unspecified: c.Rng.Intn(2) == 0}
	ty := func(vec bool) ply.ScalarPropertyType {
		for {
			t := plyScalarTypes[c.Rng.Intn(len(plyScalarTypes))]
			if plyFloatTypesOnly && (t == ply.UChar || t == ply.Int) {
				continue
			}
			if !vec && t == ply.UChar {
				continue // 8-bit scalar properties: known finding, exercised by its own witness
			}
			return t
		}
	}
	pos := [][]string{{"x", "y", "z"}, {"px", "py", "pz"}, {"posx", "posy", "posz"}}
	nrm := [][]string{{"nx", "ny", "nz"}, {"normalx", "normaly", "normalz"}}
	col3 := [][]string{{"red", "green", "blue"}, {"r", "g", "b"}, {"diffuse_red", "diffuse_green", "diffuse_blue"}}
	col4 := [][]string{{"red", "green", "blue", "alpha"}, {"r", "g", "b", "a"}}
	cand := []plyWProp{
		{modeling.PositionAttribute, pos[c.Rng.Intn(3)], ty(true)},
		{modeling.NormalAttribute, nrm[c.Rng.Intn(2)], ty(true)},
		{modeling.ColorAttribute, col3[c.Rng.Intn(3)], []ply.ScalarPropertyType{ply.UChar, ply.UChar, ply.Float, ply.Double}[c.Rng.Intn(4)]},
		{modeling.ColorAttribute, col4[c.Rng.Intn(2)], []ply.ScalarPropertyType{ply.UChar, ply.Float}[c.Rng.Intn(2)]},
		{modeling.TexCoordAttribute, []string{"s", "t"}, ty(true)},
		{modeling.FDCAttribute, []string{"f_dc_0", "f_dc_1", "f_dc_2"}, ty(true)},
		{modeling.OpacityAttribute, []string{"opacity"}, ty(false)},
		{modeling.ScaleAttribute, []string{"scale_0", "scale_1", "scale_2"}, ty(true)},
		{modeling.RotationAttribute, []string{"rot_0", "rot_1", "rot_2", "rot_3"}, ty(true)},
	}
	for _, u := range g.userV1 {
		name := u
		if c.Rng.Intn(3) == 0 {
			name = c.plyUserName()
		}
		cand = append(cand, plyWProp{u, []string{name}, ty(false)})
	}
	c.Rng.Shuffle(len(cand), func(i, j int) { cand[i], cand[j] = cand[j], cand[i] })
	for _, p := range cand {
		if c.Rng.Intn(4) != 0 {
			w.props = append(w.props, p)
		}
	}
	if w.unspecified {
		c.Note("cfg:custom+unspecified")
	} else {
		c.Note("cfg:custom")
	}
	return w
}

func plyResBytes(b []byte, err error) string {
	if err != nil {
		return "err"
	}
	return plyHx(b)
}

var plySkipAsciiWriteLine bool

// the two proposed witness ops for the ASCII float text observations (ascii_float32_tie_witness,
// ascii_out_of_range_witness) are emitted only once they are listed as known findings
const plyEmitProposedWitnesses = false

// user scalar "alpha" / "a" / "diffuse_alpha" written with the SAME scalar type as a colour 3-writer with the matching
// names (by a custom scalar writer, or as float by WriteUnspecifiedProperties): claimed together as one 4-vector
func plyAlphaCaptured(g plyGenMesh, w plyWCfg) bool {
	want := map[string]string{"alpha": "red", "a": "r", "diffuse_alpha": "diffuse_red"}[g.specialName]
	if want == "" || w.isDefault {
		return false
	}
	var scalarTy ply.ScalarPropertyType
	for _, p := range w.props {
		if len(p.names) == 1 && p.attr == g.specialName && p.names[0] == g.specialName {
			scalarTy = p.ty
		}
	}
	if scalarTy == "" && w.unspecified {
		scalarTy = ply.Float
	}
	for _, p := range w.props {
		if len(p.names) == 3 && p.names[0] == want && scalarTy != "" && p.ty == scalarTy {
			return true
		}
	}
	return false
}

// user scalar "alpha" / "a" / "diffuse_alpha" written by a custom scalar writer that stands BEFORE a colour 3-writer with
// the matching names and ANOTHER scalar type: the group reader takes the group's type from the first member in header
// order (here the scalar), finds the other three "mixed" and claims nothing — the colour comes back as three scalars
// (root cause of the known finding C08 mixed-type-group, reached through the library's own writer)
func plyAlphaBreaksGroup(g plyGenMesh, w plyWCfg) bool {
	want := map[string]string{"alpha": "red", "a": "r", "diffuse_alpha": "diffuse_red"}[g.specialName]
	if want == "" || w.isDefault {
		return false
	}
	for i, p := range w.props {
		if len(p.names) == 1 && p.attr == g.specialName && p.names[0] == g.specialName {
			for _, q := range w.props[i+1:] {
				if len(q.names) == 3 && q.names[0] == want && q.ty != p.ty {
					return true
				}
			}
		}
	}
	return false
}

func plyWritesSomething(data []byte) bool {
	h, err := ply.ReadHeader(bytes.NewReader(data))
	if err != nil {
		return true
	}
	for _, e := range h.Elements {
		if e.Name == "vertex" {
			return len(e.Properties) > 0
		}
	}
	return true
}

// one mesh × one configuration × three encodings
func (c *Ctx) plyCase(g plyGenMesh, w plyWCfg, formats []ply.Format, agreeOp string) {
	c.plyCaseEP(g, w, formats, agreeOp, c.Rng.Intn(4) == 0)
}

func (c *Ctx) plyCaseEP(g plyGenMesh, w plyWCfg, formats []ply.Format, agreeOp string, fullEntries bool) {
	m := g.mesh
	backs := []string{}
	for _, f := range formats {
		var data []byte
		ans := Guard(func() string {
			b, err := w.write(m, f)
			data = b
			return plyResBytes(b, err)
		})
		if f == ply.ASCII && plySkipAsciiWriteLine {
			// the model prints exact decimal expansions; Go prints the shortest round-tripping decimal: for values
			// with more than ~15 significant digits the two texts differ, so the byte-for-byte write line is left out
			// (the file is still read back by the model and the implementation, and every oracle is evaluated)
			c.Note("ascii-write-line-skipped(long decimals)")
		} else {
			c.Emit("c04.write", w.tok(f)+" "+plyMeshTok(m), ans)
		}
		if ans == "err" || ans == "panic" {
			c.Note("write:" + ans)
			continue
		}
		tri := 0
		nf := 0
		if m.Topology() == modeling.TriangleTopology {
			tri = 1
			nf = m.PrimitiveCount()
		}
		c.Emit("c04.holds.header_describes", fmt.Sprintf("%s %d %d %d", plyHx(data), m.AttributeLength(), nf, tri), "true")
		c.Emit("c04.header", plyHx(data), plyImplReadHeader(data))
		// claim stage (round 2): on the header the REAL writer emitted, inside the header-level guard `claimGuard`, the
		// default reader's claim function builds exactly the readers predicted from the writer list (theorems
		// ply_reader_claims_predicted / ply_claim_stage); the driver also checks that the real header's vertex
		// properties are the ones the model writer lists.  Header bytes only; small meshes (the mesh token is re-parsed).
		if hl := strings.Index(string(data), "end_header\n"); hl >= 0 && m.AttributeLength() <= 64 {
			c.Emit("c04.holds.claim_ok", w.tok(f)+" "+plyMeshTok(m)+" "+plyHx(data[:hl+11]), "true")
		}
		rs, back := plyImplReadMesh(data)
		c.Emit("c04.read", plyHx(data), rs)
		if back == nil {
			c.Note("read:" + rs)
		}
		// the written file loads to the same mesh through every public entry point and reader type …
		c.Emit("c04.holds.entrypoints_agree", rs+" | "+plyEntryResults(data, fullEntries), "true")
		c.Emit("c04.holds.header_entrypoints_agree", plyHeaderEntryResults(data), "true")
		if fullEntries {
			c.plyHeaderCuts("c04.holds.header_cut_rejected", data)
		}
		if w.isDefault {
			// … and ply.Save (file) stores exactly the bytes ply.Write produces
			saved := Guard(func() string {
				p := plyTmpFile(nil)
				if err := ply.Save(p, m, f); err != nil {
					return "err"
				}
				b, err := os.ReadFile(p)
				if err != nil {
					return "err"
				}
				return plyHx(b)
			})
			c.Emit("c04.holds.save_agrees", plyHx(data)+" | "+saved, "true")
		}
		if m.AttributeLength() > 0 && !plyWritesSomething(data) {
			// the configuration selects no property writer for a non-empty mesh: "element vertex n" without
			// properties and without body lines; nothing is stored, so there is nothing to round-trip
			c.Note("cfg:writes-nothing")
			continue
		}
		if plyAlphaCaptured(g, w) {
			// observation (name-based recognition, like user scalars x y z without Position): a user scalar named like the
			// 4th member of a colour group, written with the SAME type as the group, is claimed with it as one 4-vector
			c.Note("observation:w-name-captured-by-group")
			continue
		}
		if plyAlphaBreaksGroup(g, w) {
			c.Note("observation:w-name-before-group-other-type")
			continue
		}
		// a file we wrote that does not load makes the oracle false ("err"/"panic" is not a mesh)
		c.Emit("c04.holds.roundtrip", w.tok(f)+" "+plyMeshTok(m)+" "+rs, "true")
		if back == nil {
			continue
		}
		backs = append(backs, rs)
	}
	if len(backs) == 3 {
		c.Emit(agreeOp, strings.Join(backs, " "), "true")
	}
}

// the writer configuration ply.SplatPly stands for
func plySplatCfg() plyWCfg {
	w := plyWCfg{props: []plyWProp{
		{modeling.PositionAttribute, []string{"x", "y", "z"}, ply.Float},
		{modeling.NormalAttribute, []string{"nx", "ny", "nz"}, ply.Float},
		{modeling.FDCAttribute, []string{"f_dc_0", "f_dc_1", "f_dc_2"}, ply.Float},
		{modeling.ScaleAttribute, []string{"scale_0", "scale_1", "scale_2"}, ply.Float},
		{modeling.RotationAttribute, []string{"rot_0", "rot_1", "rot_2", "rot_3"}, ply.Float},
		{modeling.OpacityAttribute, []string{"opacity"}, ply.Float},
	}}
	for i := 0; i < 45; i++ {
		n := fmt.Sprintf("f_rest_%d", i)
		w.props = append(w.props, plyWProp{n, []string{n}, ply.Float})
	}
	return w
}

func (c *Ctx) plySplatNodeCase(m modeling.Mesh) {
	if c.Rng.Intn(2) == 0 && m.AttributeLength() > 0 {
		d := make([]float64, m.AttributeLength())
		for i := range d {
			d[i] = float64(c.Rng.Intn(33)-16) / 8
		}
		m = m.SetFloat1Attribute(fmt.Sprintf("f_rest_%d", c.Rng.Intn(45)), d)
	}
	var data []byte
	ans := Guard(func() string {
		buf := &bytes.Buffer{}
		err := ply.NewPlyNode(nodes.Value(m).Out()).Value().Write(buf)
		data = buf.Bytes()
		return plyResBytes(data, err)
	})
	c.Emit("c04.write", plySplatCfg().tok(ply.BinaryLittleEndian)+" "+plyMeshTok(m), ans)
	c.Note("entry:NewPlyNode")
}

func runC04(c *Ctx) {
	// KNOWN-FINDING witness (every run): an 8-bit scalar property is divided by 255 by the binary reader and not by
	// the ASCII reader (reader_vector1.go:38-57 never assigns scalarType).
	{
		m := modeling.NewMesh(modeling.PointTopology, []int{0, 1}).
			SetFloat3Attribute(modeling.PositionAttribute, []vector3.Float64{vector3.New(1., 2., 3.), vector3.New(4., 5., 6.)}).
			SetFloat1Attribute("quality", []float64{0.5, 1})
		w := plyWCfg{props: []plyWProp{
			{modeling.PositionAttribute, []string{"x", "y", "z"}, ply.Float},
			{"quality", []string{"quality"}, ply.UChar}}}
		backs := []string{}
		for _, f := range plyFormats {
			data, err := w.write(m, f)
			c.Emit("c04.write", w.tok(f)+" "+plyMeshTok(m), plyResBytes(data, err))
			rs, _ := plyImplReadMesh(data)
			c.Emit("c04.read", plyHx(data), rs)
			backs = append(backs, rs)
		}
		c.Emit("c04.holds.uchar_scalar_ascii_agrees", strings.Join(backs, " "), "true")
	}
	defer plyTmpCleanup()
	// sizes that cross plausible internal boundaries (4096-record batches, 4096 / 65536-byte buffers), all encodings
	type large struct {
		nv  int
		tri bool
		nf  int
	}
	// … and that ARE exact multiples of them (a block that is exactly full)
	larges := []large{{4096, false, 0}, {8192, true, 2200}, {4097, false, 0}, {5000, true, 2200}}
	if c.Tier == "thorough" {
		larges = append(larges, large{4095, false, 0}, large{4096, true, 1400}, large{8193, false, 0}, large{10001, true, 3500},
			large{4100, true, 4100}, large{30000, false, 0}, large{8191, true, 1000}, large{8192, false, 0}, large{12288, true, 4096})
	}
	for i, l := range larges {
		g := c.plyMeshLarge(l.nv, l.tri, l.nf)
		if i%2 == 0 || i < 2 || c.Tier == "thorough" {
			c.plyCaseEP(g, plyWCfg{isDefault: true}, plyFormats, "c04.holds.encodings_agree", false)
		}
		if i%2 == 1 || (c.Tier == "thorough" && l.nv <= 20000) { // (the biggest ones: default writer only, for run time)
			c.plyCaseEP(g, c.plyCfg(g), plyFormats, "c04.holds.encodings_agree", false)
		}
	}
	{
		pos := []vector3.Float64{vector3.New(1., 2., 3.), vector3.New(4., 5., 6.), vector3.New(7., 8., 9.)}
		w := plyWCfg{isDefault: true}
		// KNOWN FINDING (a): a point cloud whose index buffer is not 0..n-1 — PLY stores no indices for point clouds, 3
		// primitives come back for 2 (theorem guard `hpoint`)
		{
			m := modeling.NewMesh(modeling.PointTopology, []int{2, 0}).SetFloat3Attribute(modeling.PositionAttribute, pos)
			for _, f := range []ply.Format{ply.ASCII, ply.BinaryLittleEndian} {
				data, err := w.write(m, f)
				c.Emit("c04.write", w.tok(f)+" "+plyMeshTok(m), plyResBytes(data, err))
				rs, _ := plyImplReadMesh(data)
				c.Emit("c04.read", plyHx(data), rs)
				c.Emit("c04.holds.pointcloud_index_buffer_witness", w.tok(f)+" "+plyMeshTok(m)+" "+rs, "true")
			}
		}
		// FIXED 8c2f8cb, kept as corpus case (must hold now): Color (float3, written as uchar red green blue) next to a user
		// scalar named "alpha" (written as float): the binary reader claims red green blue alpha as ONE 4-vector and forces
		// the W type on the group (reader_vector4.go:73) — Color comes back as a float4 of reinterpreted bytes, "alpha" is
		// gone; ASCII is fine.  Same root cause as the C08 mixed-type-group finding, reached through the library's own writer.
		{
			m := modeling.NewMesh(modeling.PointTopology, []int{0, 1}).
				SetFloat3Attribute(modeling.PositionAttribute, pos[:2]).
				SetFloat3Attribute(modeling.ColorAttribute, []vector3.Float64{vector3.New(1., 0.5, 0.), vector3.New(0., 1., 0.25)}).
				SetFloat1Attribute("alpha", []float64{0.5, 0.75})
			for _, f := range plyFormats {
				data, err := w.write(m, f)
				c.Emit("c04.write", w.tok(f)+" "+plyMeshTok(m), plyResBytes(data, err))
				rs, _ := plyImplReadMesh(data)
				c.Emit("c04.read", plyHx(data), rs)
				c.Emit("c04.holds.roundtrip", w.tok(f)+" "+plyMeshTok(m)+" "+rs, "true")
				// round 2: this configuration is INSIDE the header-level guard of the closed round-trip theorems (the fourth
				// name of the colour group stands after the group with another type: wHarmless), and the claim stage on the
				// real header builds Position, Color (3-vector fallback), then the scalar alpha
				c.Emit("c04.holds.claim_guard_inside", w.tok(f)+" "+plyMeshTok(m), "true")
				if hl := strings.Index(string(data), "end_header\n"); hl >= 0 {
					c.Emit("c04.holds.claim_ok", w.tok(f)+" "+plyMeshTok(m)+" "+plyHx(data[:hl+11]), "true")
				}
			}
		}
		// KNOWN FINDING C04-w-name-before-group-other-type (witness, expected false): a custom scalar writer for a user
		// attribute named like the 4th member of a colour group (a / alpha / diffuse_alpha) standing BEFORE the colour
		// 3-writer of ANOTHER scalar type.  The group reader takes the group's type from the first member in header order
		// (the scalar), finds r g b "mixed" and claims nothing: Color comes back as three scalars r, g, b.  Root cause of the
		// known finding C08 mixed-type-group, reached through the library's own writer.
		{
			m := modeling.NewMesh(modeling.PointTopology, []int{0, 1}).
				SetFloat3Attribute(modeling.PositionAttribute, pos[:2]).
				SetFloat3Attribute(modeling.ColorAttribute, []vector3.Float64{vector3.New(1., 0.5, 0.), vector3.New(0., 1., 0.25)}).
				SetFloat1Attribute("a", []float64{0.5, 0.75})
			wc := plyWCfg{props: []plyWProp{
				{"a", []string{"a"}, ply.Float},
				{modeling.ColorAttribute, []string{"r", "g", "b"}, ply.Double},
				{modeling.PositionAttribute, []string{"x", "y", "z"}, ply.Float}}}
			f := ply.BinaryLittleEndian
			data, err := wc.write(m, f)
			c.Emit("c04.write", wc.tok(f)+" "+plyMeshTok(m), plyResBytes(data, err))
			rs, _ := plyImplReadMesh(data)
			c.Emit("c04.read", plyHx(data), rs)
			c.Emit("c04.holds.w_name_before_group_witness", wc.tok(f)+" "+plyMeshTok(m)+" "+rs, "true")
		}
		// witness (expected false; reported): the same kind of scalar written with the SAME type as a custom float colour
		// 3-writer is claimed together with it as ONE 4-vector: Color comes back as a Float4 (w = the scalar), the Float3
		// Color and the scalar attribute are gone — the data moved to another arity.  (With the default writer the colour is
		// `uchar`, the scalar `float` and stands after it: the reader falls back to the 3-vector, corpus case above.)
		{
			m := modeling.NewMesh(modeling.PointTopology, []int{0, 1}).
				SetFloat3Attribute(modeling.PositionAttribute, pos[:2]).
				SetFloat3Attribute(modeling.ColorAttribute, []vector3.Float64{vector3.New(1., 0.5, 0.), vector3.New(0., 1., 0.25)}).
				SetFloat1Attribute("alpha", []float64{0.5, 0.75})
			wc := plyWCfg{unspecified: true, props: []plyWProp{
				{modeling.PositionAttribute, []string{"x", "y", "z"}, ply.Float},
				{modeling.ColorAttribute, []string{"red", "green", "blue"}, ply.Float}}}
			f := ply.BinaryLittleEndian
			data, err := wc.write(m, f)
			c.Emit("c04.write", wc.tok(f)+" "+plyMeshTok(m), plyResBytes(data, err))
			rs, _ := plyImplReadMesh(data)
			c.Emit("c04.read", plyHx(data), rs)
			c.Emit("c04.holds.w_name_captured_by_group_witness", wc.tok(f)+" "+plyMeshTok(m)+" "+rs, "true")
		}
		// OBSERVATIONS about the ASCII float text (reported; model and implementation are tied on them, the proposed
		// witness ops are emitted once the coordinator lists them — plyEmitProposedWitnesses):
		// (1) a `float` property whose value lies EXACTLY half-way between two adjacent float32 values: the shortest text
		//     lies on one side of the tie, ParseFloat(·, 32) rounds the TEXT: ASCII reads back 1+2^-23, binary float32(v) = 1;
		// (2) a finite value beyond float32 range: ASCII prints it in full, ParseFloat(·, 32) reports "value out of range"
		//     and the written file does not load; binary stores ±Inf.
		{
			wc := plyWCfg{props: []plyWProp{{modeling.PositionAttribute, []string{"x", "y", "z"}, ply.Float}}}
			for k, v := range []float64{1 + math.Ldexp(1, -24), 1e39} {
				m := modeling.NewMesh(modeling.PointTopology, []int{0}).
					SetFloat3Attribute(modeling.PositionAttribute, []vector3.Float64{vector3.New(v, 2., 3.)})
				backs := []string{}
				asciiRs := ""
				for _, f := range plyFormats {
					data, err := wc.write(m, f)
					if f != ply.ASCII { // (Go prints the shortest text, the model the exact expansion: no byte tie in ASCII)
						c.Emit("c04.write", wc.tok(f)+" "+plyMeshTok(m), plyResBytes(data, err))
					}
					rs, _ := plyImplReadMesh(data)
					c.Emit("c04.read", plyHx(data), rs)
					backs = append(backs, rs)
					if f == ply.ASCII {
						asciiRs = rs
					}
				}
				if k == 0 {
					c.Note("observation:ascii-float32-tie")
					if plyEmitProposedWitnesses {
						c.Emit("c04.holds.ascii_float32_tie_witness", strings.Join(backs, " "), "true")
					}
				} else {
					c.Note("observation:ascii-out-of-float32-range")
					if plyEmitProposedWitnesses {
						c.Emit("c04.holds.ascii_out_of_range_witness", wc.tok(ply.ASCII)+" "+plyMeshTok(m)+" "+asciiRs, "true")
					}
				}
			}
		}
		// fixed by 858df3c, kept as corpus cases: a property name that is not a single word, or used twice, makes Write
		// fail before anything is written (no unreadable / silently corrupted file is produced)
		bad := []modeling.Mesh{
			modeling.NewMesh(modeling.PointTopology, []int{0, 1, 2}).SetFloat3Attribute(modeling.PositionAttribute, pos).
				SetFloat1Attribute("my attr", []float64{10, 20, 30}),
			modeling.NewMesh(modeling.PointTopology, []int{0, 1, 2}).SetFloat3Attribute(modeling.PositionAttribute, pos).
				SetFloat1Attribute("x", []float64{10, 20, 30}),
			modeling.NewMesh(modeling.PointTopology, []int{0, 1, 2}).SetFloat3Attribute(modeling.PositionAttribute, pos).
				SetFloat1Attribute("", []float64{10, 20, 30}),
			modeling.NewMesh(modeling.PointTopology, []int{0, 1, 2}).SetFloat3Attribute(modeling.PositionAttribute, pos).
				SetFloat1Attribute("tab\tbed", []float64{10, 20, 30}),
		}
		for _, m := range bad {
			for _, f := range plyFormats {
				var n int
				ans := Guard(func() string {
					data, err := w.write(m, f)
					n = len(data)
					return plyResBytes(data, err)
				})
				c.Emit("c04.write", w.tok(f)+" "+plyMeshTok(m), ans)
				c.Emit("c04.holds.bad_name_write_rejected", fmt.Sprintf("%s %d", strings.Fields(ans)[0], n), "true")
			}
		}
	}
	for k := 0; k < c.N; k++ {
		g := c.plyMesh(plyVcNice)
		for r := 0; r < 2; r++ {
			c.plyCase(g, c.plyCfg(g), plyFormats, "c04.holds.encodings_agree")
		}
		if k%3 != 0 { // float32 values with many significant digits / small magnitudes, ALL THREE encodings
			g := c.plyMesh(plyVcF32)
			plySkipAsciiWriteLine = true
			c.plyCase(g, c.plyCfg(g), plyFormats, "c04.holds.encodings_agree")
			if k%3 == 1 {
				c.plyCase(g, plyWCfg{isDefault: true}, plyFormats, "c04.holds.encodings_agree")
			}
			plySkipAsciiWriteLine = false
			c.Note("values:float32-bit-patterns")
		}
		if k%4 == 1 { // huge magnitudes (float32-representable), float / double writers, ALL THREE encodings
			g := c.plyMesh(plyVcHuge)
			plySkipAsciiWriteLine = true
			plyFloatTypesOnly = true
			c.plyCase(g, plyWCfg{isDefault: true}, plyFormats, "c04.holds.encodings_agree")
			c.plyCase(g, c.plyCfg(g), plyFormats, "c04.holds.encodings_agree")
			plyFloatTypesOnly = false
			plySkipAsciiWriteLine = false
			c.Note("values:huge")
		}
		if k%8 == 3 {
			// the graph node wrapper of the writer (formats/ply/types.go: NewPlyNode → SplatPly.Write) stores exactly what
			// the MeshWriter it stands for stores: little-endian, the splat property writers, nothing unspecified
			c.plySplatNodeCase(c.plyMesh(plyVcNice).mesh)
		}
		if k%3 == 0 { // arbitrary doubles: binary encodings only (ASCII printing of arbitrary doubles is not modelled)
			g := c.plyMesh(plyVcAny)
			c.plyCase(g, c.plyCfg(g), plyFormats[1:], "c04.holds.encodings_agree")
			c.Note("values:arbitrary-binary")
		}
	}
}
