package main

// C11, multi-port family (called from the c11 stream, after every other family).
//
// An upstream nodes.Struct whose value is a PAIR and which hands it out through TWO output ports
// (NodeOutput values whose Port() is "P0" / "P1", not "Out"; Node() is the same struct for both).
// No built-in node has more than the port "Out"; the port type below is written against the public
// API only.  A consumer (an ordinary c11T20) is connected to port P0, read, re-wired to port P1 OF
// THE SAME NODE, read, re-wired back, ... interleaved with parameter sets, re-wirings to other nodes
// and disconnects; a further node sits downstream of the consumer.
//
// Model side: a dependency of the model is a node id, so the 2-port node is described as TWO model
// nodes (`S salt0 <wiring>` and `S salt1 <wiring>`, same inputs, per-port value function).  That is
// faithful for VALUES and for the consumer's freshness; the Go struct's own version / executions are
// shared between its ports and the model's are not.  Hence ONLY `c11.holds.fresh` and
// `c11.holds.no_spurious` are emitted (no c11.hist, no c11.holds.version), the executions of the
// multi-port node itself are left out of the x / y lists, and the columns of the two model nodes
// report the Go struct's State() / Version() and the port's component of its cached pair.

import (
	"fmt"
	"reflect"
	"strconv"
	"strings"

	"github.com/EliCDavis/polyform/nodes"
)

type c11PV struct{ P0, P1 int }

type c11PortsData struct {
	A, B         c11In
	id           int
	salt0, salt1 int
	rec          *c11Rec
}

func c11Mix2(salt, a, b int) int {
	h := int64(salt)
	h = (h*31 + 11 + int64(a)) % c11M
	h = (h*31 + 11 + int64(b)) % c11M
	return int(h)
}

func (d c11PortsData) Process() (c11PV, error) {
	a, b := d.A.Value(), d.B.Value()
	d.rec.log = append(d.rec.log, d.id)
	return c11PV{P0: c11Mix2(d.salt0, a, b), P1: c11Mix2(d.salt1, a, b)}, nil
}

type c11PortsNode = nodes.Struct[c11PV, c11PortsData]

// one output port of the 2-port node
type c11Port struct {
	n *c11PortsNode
	k int
}

func (p c11Port) Value() int {
	v := p.n.Value()
	if p.k == 0 {
		return v.P0
	}
	return v.P1
}
func (p c11Port) Node() nodes.Node { return p.n }
func (p c11Port) Port() string     { return "P" + strconv.Itoa(p.k) }

// model ids: 0 1 2 parameters a b k | 3 4 the two ports of the upstream node | 5 consumer (A <- port,
// B <- k) | 6 downstream of the consumer | 7 an ordinary single-port struct over a
func c11PortsHistory(c *Ctx) {
	r := c.Rng
	rec := &c11Rec{}
	pv := [3]int{r.Intn(50), r.Intn(50), r.Intn(50)}
	var par [3]*nodes.ValueNode[int]
	for i := range par {
		par[i] = nodes.Value(pv[i])
	}
	salt := func() int { return 1 + r.Intn(1000) }
	s0, s1, sC, sD, sO := salt(), salt(), salt(), salt(), salt()
	if s0 == s1 {
		s1++
	}
	up := &c11PortsNode{Data: c11PortsData{A: par[0], B: par[1], id: 3, salt0: s0, salt1: s1, rec: rec}}
	port := [2]c11Port{{up, 0}, {up, 1}}
	other := c11NewStruct(7, sO, rec, []c11In{par[0]}, nil, r.Intn(2) == 0)
	cons := c11NewStruct(5, sC, rec, []c11In{port[0], par[2]}, nil, r.Intn(2) == 0)
	down := c11NewStruct(6, sD, rec, []c11In{cons.outs[0]}, nil, r.Intn(2) == 0)
	header := fmt.Sprintf("8 P %d P %d P %d S %d 2 0 1 0 S %d 2 0 1 0 S %d 2 3 2 0 S %d 1 5 0 S %d 1 0 0",
		pv[0], pv[1], pv[2], s0, s1, sC, sD, sO)

	out := func(src int) c11In {
		switch src {
		case 0, 1, 2:
			return par[src]
		case 3, 4:
			return port[src-3]
		case 5:
			return cons.outs[0]
		case 7:
			return other.outs[0]
		}
		return nil
	}
	upCached := func(k int) int {
		return int(reflect.ValueOf(up).Elem().FieldByName("value").Field(k).Int())
	}
	var ans strings.Builder
	var ops []string
	observe := func() {
		fmt.Fprintf(&ans, " v %d %d %d %d %d %d %d %d", par[0].Value(), par[1].Value(), par[2].Value(),
			upCached(0), upCached(1), cons.cached(), down.cached(), other.cached())
		fmt.Fprintf(&ans, " n %d %d %d %d %d %d %d %d", par[0].Version(), par[1].Version(), par[2].Version(),
			up.Version(), up.Version(), cons.node.Version(), down.node.Version(), other.node.Version())
		fmt.Fprintf(&ans, " s %d %d %d %d %d %d %d %d", int(par[0].State()), int(par[1].State()), int(par[2].State()),
			int(up.State()), int(up.State()), int(cons.node.State()), int(down.node.State()), int(other.node.State()))
	}
	// executions of one read, without those of the multi-port node itself
	collect := func() []int {
		var l []int
		for _, id := range rec.log {
			if id != 3 {
				l = append(l, id)
			}
		}
		rec.log = rec.log[:0]
		return l
	}
	read := func(i int) {
		n := cons
		if i == 6 {
			n = down
		} else if i == 7 {
			n = other
		}
		rec.log = rec.log[:0]
		v1 := n.outs[0].Value()
		x := collect()
		v2 := n.outs[0].Value()
		y := collect()
		ops = append(ops, fmt.Sprintf("rd %d", i))
		fmt.Fprintf(&ans, " ok r %d %d", v1, v2)
		observe()
		c11Ids(&ans, "x", x)
		c11Ids(&ans, "y", y)
		ans.WriteString(" |")
	}
	quiet := func() {
		ans.WriteString(" ok")
		observe()
		ans.WriteString(" x 0 y 0 |")
	}
	setInput := func(i, k, src int) {
		n := cons
		if i == 6 {
			n = down
		}
		var o nodes.Output
		if src >= 0 {
			o = nodes.Output{NodeOutput: out(src)}
			ops = append(ops, fmt.Sprintf("si %d %d %d", i, k, src))
		} else {
			ops = append(ops, fmt.Sprintf("si %d %d -", i, k))
		}
		n.node.SetInput(c11PortName[k], o)
		quiet()
	}
	setParam := func(p, v int) {
		par[p].Set(v)
		ops = append(ops, fmt.Sprintf("sp %d %d", p, v))
		quiet()
	}

	// fixed core: read through P0, re-wire to P1 of the same node, read, and back
	if r.Intn(4) == 0 {
		setParam(r.Intn(3), r.Intn(50))
	}
	read(5 + r.Intn(2))
	setInput(5, 0, 4)
	read(5 + r.Intn(2))
	setInput(5, 0, 3)
	read(5 + r.Intn(2))
	// random tail
	for k, n := 0, 10+r.Intn(30); k < n; k++ {
		switch d := r.Intn(10); {
		case d < 4:
			read(5 + r.Intn(3))
		case d < 7:
			src := []int{3, 4, 3, 4, 3, 4, 7, 0, -1}[r.Intn(9)]
			setInput(5, 0, src)
		case d < 8:
			setInput(6, 0, []int{5, 5, 7, -1}[r.Intn(4)])
		case d < 9:
			setParam(r.Intn(3), r.Intn(50))
		default:
			setInput(5, 1, []int{2, 2, 4, 3, -1}[r.Intn(5)])
		}
	}
	read(5)
	read(6)

	q := header + " " + strconv.Itoa(len(ops)) + " " + strings.Join(ops, " ")
	a := strings.TrimPrefix(ans.String(), " ")
	c.Emit("c11.holds.fresh", q+" @ "+a, "true")
	c.Emit("c11.holds.no_spurious", q+" @ "+a, "true")
	c.Note("ports.history")
}

func c11PortsHistories(c *Ctx) {
	n := 60 + c.N/100
	for k := 0; k < n; k++ {
		c11PortsHistory(c)
	}
}
