// C03: every Transformer struct entry point of modeling/meshops next to its free function with the SAME arguments.
//
//	c03.op.<op> params mesh                 answered by the TRANSFORMER (`T{…}.Transform(m)`), compared with the model
//	c03.holds.same_mesh <free> <transformer>  oracle "transformer result = free-function result" (also through Mesh.Transform)
//
// Parameter values include the exact zero vector, -0.0 components, the identity (1,1,1), unit vectors, partially-zero
// vectors and struct fields left at their Go zero value (unset Attribute -> documented default, zero Amount / Origin /
// MinArea / Iterations / BoundingBox / quaternion). A status that differs between the two entry points (one rejects,
// the other returns a mesh) is emitted as an unparsable same_mesh line (answered false).
package main

import (
	"fmt"
	"math"

	"github.com/EliCDavis/polyform/math/geometry"
	"github.com/EliCDavis/polyform/math/quaternion"
	"github.com/EliCDavis/polyform/modeling"
	"github.com/EliCDavis/polyform/modeling/meshops"
	"github.com/EliCDavis/vector/vector2"
	"github.com/EliCDavis/vector/vector3"
)

func (c *Ctx) poolF() float64 {
	switch c.Rng.Intn(6) {
	case 0:
		return 0
	case 1:
		return math.Copysign(0, -1)
	case 2:
		return 1
	default:
		return c.mfl()
	}
}

func (c *Ctx) poolV3() vector3.Float64 {
	nz := math.Copysign(0, -1)
	switch c.Rng.Intn(9) {
	case 0:
		return vector3.Zero[float64]()
	case 1:
		return vector3.New(nz, nz, nz)
	case 2:
		return vector3.New(0, nz, 0)
	case 3:
		return vector3.One[float64]()
	case 4:
		return []vector3.Float64{vector3.Right[float64](), vector3.Up[float64](), vector3.Forward[float64](), vector3.Left[float64]()}[c.Rng.Intn(4)]
	case 5:
		return []vector3.Float64{vector3.New(0., 0., 2.), vector3.New(0., 1., 0.5), vector3.New(-1., 0., 0.)}[c.Rng.Intn(3)]
	default:
		return c.mv3()
	}
}

func (c *Ctx) poolV2() vector2.Float64 {
	nz := math.Copysign(0, -1)
	switch c.Rng.Intn(7) {
	case 0:
		return vector2.Zero[float64]()
	case 1:
		return vector2.New(nz, nz)
	case 2:
		return vector2.New(nz, 0)
	case 3:
		return vector2.One[float64]()
	case 4:
		return []vector2.Float64{vector2.New(1., 0.), vector2.New(0., 1.), vector2.New(0., 2.)}[c.Rng.Intn(3)]
	default:
		return vector2.New(c.mfl(), c.mfl())
	}
}

// trPair runs the free function, the transformer and Mesh.Transform on m and emits the model line + the agreement oracles.
func (c *Ctx) trPair(name, modelOp, args string, m modeling.Mesh, free func() modeling.Mesh, t modeling.Transformer) {
	rf := runOp(name, "", false, func() []modeling.Mesh { return one(free()) })
	rt := runOp(name, "", false, func() []modeling.Mesh { return tr(t, m) })
	rm := runOp(name, "", false, func() []modeling.Mesh { return one(m.Transform(t)) })
	if modelOp != "" {
		a := meshStr(m)
		if args != "" {
			a = args + " " + a
		}
		c.Emit("c03.op."+modelOp, a, rt.answer(meshStr))
	}
	show := func(r opRun) string {
		if r.status != "" {
			return "status:" + r.status
		}
		return meshStr(r.out[0])
	}
	st := func(r opRun) string {
		if r.status != "" {
			return r.status
		}
		return "ok"
	}
	c.Note("trpair:" + name + ":" + st(rf) + "/" + st(rt))
	if rf.status == "" || rt.status == "" {
		c.Emit("c03.holds.same_mesh", show(rf)+" "+show(rt), "true")
	}
	if rf.status == "" || rm.status == "" {
		c.Emit("c03.holds.same_mesh", show(rf)+" "+show(rm), "true")
	}
}

// attrOrUnset: the struct field ("" = left unset) and the name the free function is called with (the documented default)
func (c *Ctx) attrOrUnset(pick func() string, def string) (field, resolved string) {
	if c.Rng.Intn(4) == 0 {
		return "", def
	}
	a := pick()
	return a, a
}

func (c *Ctx) transformerPairs(n int) {
	for i := 0; i < n; i++ {
		c.guardSeq("c03.holds.harness_ok", func() {
			m := c.startMesh()
			if c.Rng.Intn(3) == 0 {
				m = c.genMesh(meshGen{topo: topoAll, needPos: true, maxVerts: 12, materials: true})
			}
			v3 := func() string { return c.pickV3Attr(m) }
			v2 := func() string { return c.pickV2Attr(m) }
			pos, nrm := modeling.PositionAttribute, modeling.NormalAttribute
			{ // ScaleAttribute3D
				f, a := c.attrOrUnset(v3, pos)
				o, amt := c.poolV3(), c.poolV3()
				c.trPair("scale3d", "scale", fmt.Sprintf("%s %s %s", a, mvF(o), mvF(amt)), m,
					func() modeling.Mesh { return meshops.ScaleAttribute3D(m, a, o, amt) },
					meshops.ScaleAttribute3DTransformer{Attribute: f, Origin: o, Amount: amt})
			}
			{ // ScaleAttribute2D
				f, a := c.attrOrUnset(v2, modeling.TexCoordAttribute)
				o, amt := c.poolV2(), c.poolV2()
				c.trPair("scale2d", "scale2d", fmt.Sprintf("%s %s %s", a, Fs(o.X(), o.Y()), Fs(amt.X(), amt.Y())), m,
					func() modeling.Mesh { return meshops.ScaleAttribute2D(m, a, o, amt) },
					meshops.ScaleAttribute2DTransformer{Attribute: f, Origin: o, Amount: amt})
			}
			{ // TranslateAttribute3D
				f, a := c.attrOrUnset(v3, pos)
				t := c.poolV3()
				c.trPair("translate", "translate", fmt.Sprintf("%s %s", a, mvF(t)), m,
					func() modeling.Mesh { return meshops.TranslateAttribute3D(m, a, t) },
					meshops.TranslateAttribute3DTransformer{Attribute: f, Amount: t})
			}
			{ // RotateAttribute3D: zero-valued quaternion, identity, axis quaternions, random
				f, a := c.attrOrUnset(v3, pos)
				var q quaternion.Quaternion
				switch c.Rng.Intn(4) {
				case 0: // the Go zero value
				case 1:
					q = quaternion.New(vector3.Zero[float64](), 1)
				case 2:
					q = quaternion.New(c.poolV3(), c.poolF())
				default:
					q = c.mquat()
				}
				c.trPair("rotate", "rotate", fmt.Sprintf("%s %s", a, mqF(q)), m,
					func() modeling.Mesh { return meshops.RotateAttribute3D(m, a, q) },
					meshops.RotateAttribute3DTransformer{Attribute: f, Amount: q})
			}
			{ // ScaleAttributeAlongNormal
				f1, a := c.attrOrUnset(v3, pos)
				f2, nn := c.attrOrUnset(v3, nrm)
				amt := c.poolF()
				c.trPair("scalealongnormal", "scalealongnormal", fmt.Sprintf("%s %s %s", a, nn, F(amt)), m,
					func() modeling.Mesh { return meshops.ScaleAttributeAlongNormal(m, a, nn, amt) },
					meshops.ScaleAttributeAlongNormalTransformer{AttributeToScale: f1, NormalAttribute: f2, Amount: amt})
			}
			{ // Center / Normalize 3D / Normalize 2D
				f, a := c.attrOrUnset(v3, pos)
				c.trPair("center", "center", a, m,
					func() modeling.Mesh { return meshops.CenterFloat3Attribute(m, a) }, meshops.CenterAttribute3DTransformer{Attribute: f})
				f, a = c.attrOrUnset(v3, pos)
				c.trPair("normalize", "normalize", a, m,
					func() modeling.Mesh { return meshops.NormalizeAttribute3D(m, a) }, meshops.NormalizeAttribute3DTransformer{Attribute: f})
				// NormalizeAttribute2DTransformer has NO default attribute (an unset Attribute is looked up as "" and rejected,
				// unlike its 3-D twin which falls back to Position): the field is always set here
				a = v2()
				f = a
				c.trPair("normalize2d", "normalize2d", a, m,
					func() modeling.Mesh { return meshops.NormalizeAttribute2D(m, a) }, meshops.NormalizeAttribute2DTransformer{Attribute: f})
			}
			{ // Crop: zero-valued box, boxes from the pool
				f, a := c.attrOrUnset(v3, pos)
				var box geometry.AABB
				if c.Rng.Intn(3) != 0 {
					box = geometry.NewAABB(c.poolV3(), vector3.New(float64(c.Rng.Intn(7)), float64(c.Rng.Intn(7)), float64(c.Rng.Intn(7))))
				}
				c.trPair("crop", "crop", fmt.Sprintf("%s %s", a, mbbF(box)), m,
					func() modeling.Mesh { return meshops.CropFloat3Attribute(m, a, box) },
					meshops.CropAttribute3DTransformer{Attribute: f, BoundingBox: box})
			}
			{ // RemoveNullFaces3D (keep decisions are not modelled: agreement oracle only), MinArea incl. the zero value
				f, a := c.attrOrUnset(v3, pos)
				minArea := []float64{0, math.Copysign(0, -1), 0.5, 2}[c.Rng.Intn(4)]
				c.trPair("removenull", "", "", m,
					func() modeling.Mesh { return meshops.RemoveNullFaces3D(m, a, minArea) },
					meshops.RemoveNullFaces3DTransformer{Attribute: f, MinArea: minArea})
			}
			{ // LaplacianSmooth with the zero-valued struct (0 iterations, factor 0): agreement oracle only
				f, a := c.attrOrUnset(v3, pos)
				if !(m.Topology() == modeling.LineLoopTopology && m.Indices().Len() == 0) { // documented runtime panic
					c.trPair("laplacian0", "", "", m,
						func() modeling.Mesh { return meshops.LaplacianSmooth(m, a, 0, 0) },
						meshops.LaplacianSmoothTransformer{Attribute: f})
				}
			}
			{ // VertexColorSpace: zero-valued Transformation
				f, a := c.attrOrUnset(v3, modeling.ColorAttribute)
				mode := meshops.VertexColorSpaceTransformation(c.Rng.Intn(2))
				c.trPair("vertexcolorspace", "", "", m,
					func() modeling.Mesh { return meshops.VertexColorSpace(m, a, mode) },
					meshops.VertexColorSpaceTransformer{Attribute: f, Transformation: mode})
			}
			// parameterless transformers
			c.trPair("flip", "flip", "", m, func() modeling.Mesh { return meshops.FlipTriangleWinding(m) }, meshops.FlipTriangleWindingTransformer{})
			c.trPair("unweld", "unweld", "", m, func() modeling.Mesh { return meshops.Unweld(m) }, meshops.UnweldTransformer{})
			c.trPair("removeunref", "removeunref", "", m, func() modeling.Mesh { return meshops.RemovedUnreferencedVertices(m) }, meshops.RemovedUnreferencedVerticesTransformer{})
			c.trPair("smoothnormals", "smoothnormals", "", m, func() modeling.Mesh { return meshops.SmoothNormals(m) }, meshops.SmoothNormalsTransformer{})
			c.trPair("flatnormals", "flatnormals", "", m, func() modeling.Mesh { return meshops.FlatNormals(m) }, meshops.FlatNormalsTransformer{})
			{ // FilterFloat3 / FilterFloat1 (threshold on the first component, as the model's filter)
				thr := float64(c.Rng.Intn(40)) + 100
				a := c.pickV3Attr(m)
				c.trPair("filter3", "filter", fmt.Sprintf("3 %s %s", a, F(thr)), m,
					func() modeling.Mesh {
						return meshops.FilterFloat3(m, a, func(v vector3.Float64) bool { return v.X() < thr })
					},
					meshops.FilterFloat3Transformer{Attribute: a, Filter: func(v vector3.Float64) bool { return v.X() < thr }})
			}
		})
	}
}
