// Entry points returning a modeling.Mesh that had neither theorem nor oracle: the node wrappers (Process) of
// primitives / meshops / repeat, the remaining marching entry points, and the small packages simplify, animation,
// pipeline, formats/{colmap,opensfm} point-cloud constructors.  All go through c02.holds.wf (table in notes/C02.md).
package main

import (
	"image/color"

	"github.com/EliCDavis/polyform/formats/colmap"
	"github.com/EliCDavis/polyform/formats/opensfm"
	"github.com/EliCDavis/polyform/math/geometry"
	"github.com/EliCDavis/polyform/math/quaternion"
	"github.com/EliCDavis/polyform/math/trs"
	"github.com/EliCDavis/polyform/modeling"
	"github.com/EliCDavis/polyform/modeling/animation"
	"github.com/EliCDavis/polyform/modeling/marching"
	"github.com/EliCDavis/polyform/modeling/meshops"
	"github.com/EliCDavis/polyform/modeling/pipeline"
	"github.com/EliCDavis/polyform/modeling/primitives"
	"github.com/EliCDavis/polyform/modeling/repeat"
	"github.com/EliCDavis/polyform/modeling/simplify"
	"github.com/EliCDavis/polyform/nodes"
	sfmcolmap "github.com/EliCDavis/sfm/colmap"
	sfmopensfm "github.com/EliCDavis/sfm/opensfm"
	"github.com/EliCDavis/vector/vector2"
	"github.com/EliCDavis/vector/vector3"
	"github.com/EliCDavis/vector/vector4"
)

func (c *Ctx) nodeEntryPoints(rounds int) {
	try := func(tag string, f func() (modeling.Mesh, error)) {
		var m modeling.Mesh
		st := guardMesh(func() string {
			var err error
			m, err = f()
			if err != nil {
				return "rejected"
			}
			return ""
		})
		switch st {
		case "rejected":
			c.Note("node-rejected:" + tag)
		case "panic":
			c.Note("node-panic:" + tag)
			c.Emit("c02.holds.wf", "entry-point-panicked "+tag, "panic")
		default:
			c.wf(tag, m)
		}
	}
	mesh := func(f func() modeling.Mesh) func() (modeling.Mesh, error) {
		return func() (modeling.Mesh, error) { return f(), nil }
	}
	iv := func(v int) nodes.NodeOutput[int] { return nodes.Value(v).Out() }
	fv := func(v float64) nodes.NodeOutput[float64] { return nodes.Value(v).Out() }
	bv := func(v bool) nodes.NodeOutput[bool] { return nodes.Value(v).Out() }
	sv := func(v string) nodes.NodeOutput[string] { return nodes.Value(v).Out() }
	mv := func(v modeling.Mesh) nodes.NodeOutput[modeling.Mesh] { return nodes.Value(v).Out() }
	v3v := func(v vector3.Float64) nodes.NodeOutput[vector3.Float64] { return nodes.Value(v).Out() }

	// ---- primitives nodes: defaults (no input) and swept integer inputs (clamped or rejected by the wrapped constructor)
	try("primitives.CircleNodeData{}", primitives.CircleNodeData{}.Process)
	try("primitives.ConeNodeData{}", primitives.ConeNodeData{}.Process)
	try("primitives.CubeNodeData{}", primitives.CubeNodeData{}.Process)
	try("primitives.CylinderNodeData{}", primitives.CylinderNodeData{}.Process)
	try("primitives.HemisphereNodeData{}", primitives.HemisphereNodeData{}.Process)
	try("primitives.QuadNodeData{}", primitives.QuadNodeData{}.Process)
	try("primitives.UvSphereNodeData{}", primitives.UvSphereNodeData{}.Process)
	for k := 0; k <= 7; k++ {
		k := k
		try("primitives.CircleNodeData", primitives.CircleNodeData{Sides: iv(k), Radius: fv(2),
			UVs: nodes.Value(primitives.CircleUVs{Center: vector2.New(0.5, 0.5), Radius: 0.5}).Out()}.Process)
		try("primitives.ConeNodeData", primitives.ConeNodeData{Sides: iv(k), Radius: fv(2), Height: fv(1)}.Process)
		try("primitives.CylinderNodeData", primitives.CylinderNodeData{Sides: iv(k), Top: bv(k%2 == 0), Bottom: bv(k%3 == 0), Height: fv(2), Radius: fv(1)}.Process)
		try("primitives.HemisphereNodeData", primitives.HemisphereNodeData{Rows: iv(k), Columns: iv(7 - k), Radius: fv(1), Capped: bv(k%2 == 0)}.Process)
		try("primitives.UvSphereNodeData", primitives.UvSphereNodeData{Rows: iv(k), Columns: iv(7 - k), Radius: fv(1), Weld: bv(k%2 == 0)}.Process)
	}
	try("primitives.CubeNodeData", primitives.CubeNodeData{Width: fv(2), Height: fv(1), Depth: fv(3)}.Process)
	try("primitives.QuadNodeData", primitives.QuadNodeData{Width: fv(2), Depth: fv(1),
		UVs: nodes.Value(primitives.StripUVs{Start: vector2.New(0., 0.5), End: vector2.New(1., 0.5), Width: 1}).Out()}.Process)

	// ---- meshops / repeat nodes on generated meshes
	for r := 0; r < rounds; r++ {
		m := c.startMesh()
		o := c.genMesh(meshGen{topo: []modeling.Topology{m.Topology()}, maxVerts: 8})
		try("meshops.CombineNodeData", meshops.CombineNodeData{A: mv(m), B: mv(o)}.Process)
		try("meshops.CombineNodeData{A}", meshops.CombineNodeData{A: mv(m)}.Process)
		try("meshops.CombineNodeData{}", meshops.CombineNodeData{}.Process)
		try("meshops.TranslateAttribute3DNodeData", meshops.TranslateAttribute3DNodeData{Mesh: mv(m), Amount: v3v(c.smallV3())}.Process)
		try("meshops.TranslateAttribute3DNodeData+attr", meshops.TranslateAttribute3DNodeData{Mesh: mv(m), Amount: v3v(c.smallV3()), Attribute: sv(c.pickV3Attr(m))}.Process)
		try("meshops.ScaleAttribute3DNodeData", meshops.ScaleAttribute3DNodeData{Mesh: mv(m), Amount: v3v(c.smallV3()), Origin: v3v(c.smallV3()), Attribute: sv(c.pickV3Attr(m))}.Process)
		try("meshops.ScaleAttributeAlongNormalNodeData", meshops.ScaleAttributeAlongNormalNodeData{Mesh: mv(m), Amount: fv(0.5)}.Process)
		try("meshops.ScaleAttributeAlongNormalNodeData{}", meshops.ScaleAttributeAlongNormalNodeData{}.Process)
		try("meshops.RotateAttribute3DNodeData", meshops.RotateAttribute3DNodeData{Mesh: mv(m), Amount: nodes.Value(quaternion.FromTheta(1, vector3.Up[float64]())).Out(), Attribute: sv(c.pickV3Attr(m))}.Process)
		try("meshops.RotateAttribute3DNodeData{}", meshops.RotateAttribute3DNodeData{}.Process)
		try("meshops.SmoothNormalsNodeData", meshops.SmoothNormalsNodeData{Mesh: mv(m)}.Process)
		try("meshops.SmoothNormalsNodeData{}", meshops.SmoothNormalsNodeData{}.Process)
		try("meshops.FlatNormalsNodeData", meshops.FlatNormalsNodeData{Mesh: mv(m)}.Process)
		try("meshops.FlatNormalsNodeData{}", meshops.FlatNormalsNodeData{}.Process)
		if !(m.Topology() == modeling.LineLoopTopology && m.Indices().Len() == 0) { // empty loop: documented runtime panic
			try("meshops.LaplacianSmoothNodeData", meshops.LaplacianSmoothNodeData{Mesh: mv(m), Attribute: sv(c.pickV3Attr(m)), Iterations: iv(c.Rng.Intn(3)), SmoothingFactor: fv(0.5)}.Process)
		}
		try("meshops.CropAttribute3DNodeData", meshops.CropAttribute3DNodeData{Mesh: mv(m), Attribute: sv(c.pickV3Attr(m)),
			AABB: nodes.Value(geometry.NewAABB(vector3.Zero[float64](), vector3.New(3., 3., 3.))).Out()}.Process)
		try("meshops.CropAttribute3DNodeData{noAABB}", meshops.CropAttribute3DNodeData{Mesh: mv(m)}.Process)
		ts := []trs.TRS{trs.Position(c.smallV3()), trs.New(c.smallV3(), quaternion.FromTheta(2, vector3.Up[float64]()), vector3.One[float64]())}
		try("repeat.MeshNodeData", repeat.MeshNodeData{Mesh: mv(m), Transforms: nodes.Value(ts[:c.Rng.Intn(3)]).Out()}.Process)
		try("repeat.MeshNodeData{noTransforms}", repeat.MeshNodeData{Mesh: mv(m)}.Process)
		try("repeat.MeshNodeData{}", repeat.MeshNodeData{}.Process)

		// ---- small packages
		try("simplify.QuadricDecimation", mesh(func() modeling.Mesh { return simplify.QuadricDecimation(m) }))
		try("pipeline.Pipeline{}.Run", mesh(func() modeling.Mesh { return pipeline.Pipeline{}.Run(m) }))
		try("pipeline.Pipeline{}.RunSynchronous", mesh(func() modeling.Mesh { return pipeline.Pipeline{}.RunSynchronous(m) }))
		if m.HasFloat3Attribute(modeling.PositionAttribute) {
			up, fw := vector3.Up[float64](), vector3.Forward[float64]()
			skel := animation.NewSkeleton(animation.NewJoint("root", 1, vector3.Zero[float64](), up, fw,
				animation.NewJoint("a", 1, vector3.New(1., 0., 0.), up, fw),
				animation.NewJoint("b", 1, vector3.New(0., 1., 0.), up, fw,
					animation.NewJoint("c", 1, vector3.New(0., 2., 0.), up, fw)),
				animation.NewJoint("d", 1, vector3.New(0., 0., 1.), up, fw)))
			vox := []vector3.Float64{vector3.Zero[float64](), vector3.New(1., 0., 0.), vector3.New(0., 1., 0.), vector3.New(0., 0., 1.)}
			try("animation.WeightMeshWithHeatDiffusion", mesh(func() modeling.Mesh {
				return animation.WeightMeshWithHeatDiffusion(m, skel, vox, 1, 2)
			}))
		}
	}

	// ---- formats: point-cloud constructors from parsed structures (the readers themselves belong to C04/C05/C07/C08/C14/C15)
	for n := 0; n <= 3; n++ {
		pts := make([]sfmcolmap.Point3D, n)
		imgs := make([]sfmcolmap.Image, n)
		rec := sfmopensfm.ReconstructionSchema{Points: map[string]sfmopensfm.PointSchema{}}
		for i := 0; i < n; i++ {
			pts[i] = sfmcolmap.Point3D{ID: uint64(i), Position: c.smallV3(), Color: color.RGBA{1, 2, 3, 255}, Error: 0.5}
			imgs[i].Translation = c.smallV3()
			imgs[i].Rotation = vector4.New(0., 0., 0., 1.)
			rec.Points[string(rune('a'+i))] = sfmopensfm.PointSchema{Coordinates: []float64{1, 2, float64(i)}, Color: []float64{10, 20, 30}}
		}
		try("colmap.PointDataToPointCloud", mesh(func() modeling.Mesh { return colmap.PointDataToPointCloud(pts) }))
		try("colmap.ImageDataToPointCloud", mesh(func() modeling.Mesh { return colmap.ImageDataToPointCloud(imgs) }))
		try("opensfm.ReconstructionToPointcloud", mesh(func() modeling.Mesh { return opensfm.ReconstructionToPointcloud(rec) }))
	}

	// ---- marching: the remaining entry points
	for i := 0; i < 2; i++ {
		f := marching.Sphere(c.smallV3().Scale(0.25), 0.5+c.Rng.Float64()*0.5, 1)
		cpu := 3 + float64(c.Rng.Intn(3))
		cv := marching.NewMarchingCanvas(cpu)
		cv.AddField(f)
		try("marching.Canvas.MarchParallel", mesh(func() modeling.Mesh { return cv.MarchParallel(0) }))
		try("marching.Canvas.MarchOnAttribute", mesh(func() modeling.Mesh { return cv.MarchOnAttribute(modeling.PositionAttribute, 0) }))
		try("marching.Canvas.MarchOnAttributeParallel", mesh(func() modeling.Mesh { return cv.MarchOnAttributeParallel(modeling.PositionAttribute, 0) }))
		cv2 := marching.NewMarchingCanvas(cpu)
		cv2.AddFieldParallel(f)
		try("marching.Canvas.AddFieldParallel+March", mesh(func() modeling.Mesh { return cv2.March(0) }))
	}
}
