package main

// C09 — marching cubes: closed, outward, on the isosurface; any resolution, any position
// relative to the 100³ storage blocks.
//
// Three kinds of lines:
//   c09.march.grid      model line.  A small box of integer-tagged samples (values ±1, ±3: every
//                       interpolation parameter is 1/4, 1/2 or 3/4, exact in float64) is written into a
//                       real canvas through AddField at cubesPerUnit = 1, placed on block seams (also
//                       negative, also across two seams), with ARBITRARY sign patterns (all 256 cases,
//                       including patterns that touch the box boundary).  The marched mesh, as a canonical
//                       sorted list of position triples ×4, must equal what the Lean model (block-fetch
//                       model + table + translated interpolateVerts) produces from the same samples.
//   c09.holds.*         oracle lines.  Whole pipeline on unions of spheres / boxes / capsules
//                       (marching.Sphere / Box / Line, combined by marching.CombineFields), surface
//                       straddling 0, 1 or 2 block seams per axis, negative coordinates, several resolutions,
//                       cutoffs ≤ 0; the resulting mesh is handed to the compiled predicates.
import (
	"fmt"
	"math"
	"runtime"
	"sort"
	"strconv"
	"strings"

	"github.com/EliCDavis/polyform/math/geometry"
	"github.com/EliCDavis/polyform/math/sample"
	"github.com/EliCDavis/polyform/modeling"
	"github.com/EliCDavis/polyform/modeling/marching"
	"github.com/EliCDavis/vector/vector3"
)

func init() { streams["c09"] = runC09 }

// ---------------------------------------------------------------- grid correspondence

type c09Grid struct {
	ox, oy, oz int
	nx, ny, nz int
	vals       []int
}

func (g c09Grid) field() marching.Field {
	min := vector3.New(float64(g.ox+1), float64(g.oy+1), float64(g.oz+1))
	max := vector3.New(float64(g.ox+g.nx-1), float64(g.oy+g.ny-1), float64(g.oz+g.nz-1))
	return marching.Field{
		Domain: geometry.NewAABBFromPoints(min, max),
		Float1Functions: map[string]sample.Vec3ToFloat{
			modeling.PositionAttribute: func(v vector3.Float64) float64 {
				i := int(math.Round(v.X())) - g.ox
				j := int(math.Round(v.Y())) - g.oy
				k := int(math.Round(v.Z())) - g.oz
				if i < 0 || j < 0 || k < 0 || i >= g.nx || j >= g.ny || k >= g.nz {
					panic(fmt.Sprintf("c09 harness: sample (%d,%d,%d) outside the declared box", i, j, k))
				}
				return float64(g.vals[(k*g.ny+j)*g.nx+i])
			},
		},
	}
}

func (g c09Grid) args() string {
	var b strings.Builder
	fmt.Fprintf(&b, "%d %d %d %d %d %d", g.ox, g.oy, g.oz, g.nx, g.ny, g.nz)
	for _, v := range g.vals {
		b.WriteByte(' ')
		b.WriteString(strconv.Itoa(v))
	}
	return b.String()
}

// canonical triangle list of a mesh: positions ×4 as integers, each triangle rotated so that its
// lexicographically smallest corner comes first (orientation kept), triangles sorted
func c09CanonTris(m modeling.Mesh) string {
	if m.PrimitiveCount() == 0 {
		return "empty"
	}
	idx := m.Indices()
	pos := m.Float3Attribute(modeling.PositionAttribute)
	q := func(i int) [3]int {
		p := pos.At(i)
		return [3]int{int(math.Round(p.X() * 4)), int(math.Round(p.Y() * 4)), int(math.Round(p.Z() * 4))}
	}
	less := func(a, b [3]int) bool {
		for k := 0; k < 3; k++ {
			if a[k] != b[k] {
				return a[k] < b[k]
			}
		}
		return false
	}
	tris := make([][9]int, 0, idx.Len()/3)
	for t := 0; t+2 < idx.Len(); t += 3 {
		a, b, c := q(idx.At(t)), q(idx.At(t+1)), q(idx.At(t+2))
		var r [9]int
		switch {
		case less(a, b) && less(a, c):
			copy(r[0:], a[:])
			copy(r[3:], b[:])
			copy(r[6:], c[:])
		case less(b, a) && less(b, c):
			copy(r[0:], b[:])
			copy(r[3:], c[:])
			copy(r[6:], a[:])
		default:
			copy(r[0:], c[:])
			copy(r[3:], a[:])
			copy(r[6:], b[:])
		}
		tris = append(tris, r)
	}
	sort.Slice(tris, func(i, j int) bool {
		for k := 0; k < 9; k++ {
			if tris[i][k] != tris[j][k] {
				return tris[i][k] < tris[j][k]
			}
		}
		return false
	})
	var b strings.Builder
	b.WriteString(strconv.Itoa(len(tris)))
	b.WriteByte(' ')
	for i, t := range tris {
		if i > 0 {
			b.WriteByte(' ')
		}
		for k := 0; k < 9; k++ {
			if k > 0 {
				b.WriteByte(' ')
			}
			b.WriteString(strconv.Itoa(t[k]))
		}
	}
	return b.String()
}

// runs f; a panic is the answer "panic" (since fix 0adf5e5 March returns the empty mesh when the canvas yields no
// triangle; before, the sequential path panicked in WeldByFloat3Attribute — a regression of that guard shows here)
func c09GuardMarch(f func() string) (s string) {
	defer func() {
		if r := recover(); r != nil {
			s = "panic"
		}
	}()
	return f()
}

// origin of a box of n samples on one axis, relative to the seam S = 100*(m+1) of the neighbourhood
func (c *Ctx) c09Origin(S, n int, long bool) int {
	if long {
		// longer than a block: covers the seams S and S+100
		c.Note("grid.axis.two-seams")
		return S - 1 - c.Rng.Intn(n-101)
	}
	switch c.Rng.Intn(8) {
	case 0:
		c.Note("grid.axis.inside-lower-block")
		return S - 70 + c.Rng.Intn(40)
	case 1:
		c.Note("grid.axis.inside-upper-block")
		return S + 20 + c.Rng.Intn(40)
	case 2: // last sample has block index 99
		c.Note("grid.axis.ends-at-99")
		return S - n
	case 3: // first sample has block index 0
		c.Note("grid.axis.starts-at-0")
		return S
	case 4: // first sample has block index 99
		c.Note("grid.axis.starts-at-99")
		return S - 1
	default:
		c.Note("grid.axis.straddles")
		return S - 1 - c.Rng.Intn(n-1)
	}
}

func c09Overlap(a, b c09Grid) bool {
	sep := func(ao, an, bo, bn int) bool { return ao+an+1 < bo || bo+bn+1 < ao }
	return !(sep(a.ox, a.nx, b.ox, b.nx) || sep(a.oy, a.ny, b.oy, b.ny) || sep(a.oz, a.nz, b.oz, b.nz))
}

// one canvas, several disjoint tagged boxes on the seams of one 2×2×2 block neighbourhood
// exact = every box padded and a share of the samples EQUAL to the cutoff (0): the hypothesis of the property holds,
// so the Balanced oracle is emitted on the marched mesh as well
func (c *Ctx) c09GridCase(boxes int, withLong bool, exact bool) {
	m := [3]int{c.Rng.Intn(5) - 3, c.Rng.Intn(5) - 3, c.Rng.Intn(5) - 3} // seams at 100*(m+1): -200 … 200
	if m[0] < -1 || m[1] < -1 || m[2] < -1 {
		c.Note("grid.negative-blocks")
	}
	gs := []c09Grid{}
	for tries := 0; len(gs) < boxes && tries < boxes*20; tries++ {
		dim := func() int { return 2 + c.Rng.Intn(4) }
		g := c09Grid{nx: dim(), ny: dim(), nz: dim()}
		long := -1
		if withLong && len(gs) == 0 {
			long = c.Rng.Intn(3)
			switch long {
			case 0:
				g.nx = 102 + c.Rng.Intn(3)
			case 1:
				g.ny = 102 + c.Rng.Intn(3)
			default:
				g.nz = 102 + c.Rng.Intn(3)
			}
			g.nx, g.ny, g.nz = min(g.nx, 104), min(g.ny, 104), min(g.nz, 104)
			if long != 0 {
				g.nx = min(g.nx, 3)
			}
			if long != 1 {
				g.ny = min(g.ny, 3)
			}
		}
		g.ox = c.c09Origin(100*(m[0]+1), g.nx, long == 0)
		g.oy = c.c09Origin(100*(m[1]+1), g.ny, long == 1)
		g.oz = c.c09Origin(100*(m[2]+1), g.nz, long == 2)
		clash := false
		for _, o := range gs {
			if c09Overlap(g, o) {
				clash = true
			}
		}
		if clash {
			continue
		}
		n := g.nx * g.ny * g.nz
		g.vals = make([]int, n)
		pIn := []float64{0.5, 0.2, 0.8, 0.35}[c.Rng.Intn(4)]
		for i := range g.vals {
			mag := 1 + 2*c.Rng.Intn(2)
			if c.Rng.Float64() < pIn {
				g.vals[i] = -mag
			} else {
				g.vals[i] = mag
			}
			if exact && c.Rng.Intn(4) == 0 {
				g.vals[i] = 0 // sample equal to the cutoff
			}
		}
		if exact && (g.nx <= 2 || g.ny <= 2 || g.nz <= 2) {
			g.nx, g.ny, g.nz = max(g.nx, 3), max(g.ny, 3), max(g.nz, 3)
			continue
		}
		if exact {
			c.Note("grid.box.exact-cutoff-samples")
		}
		if (exact || c.Rng.Intn(3) == 0) && g.nx > 2 && g.ny > 2 && g.nz > 2 {
			// padded variant (the hypothesis of the property holds): outermost layer outside
			c.Note("grid.box.padded")
			for k := 0; k < g.nz; k++ {
				for j := 0; j < g.ny; j++ {
					for i := 0; i < g.nx; i++ {
						if i == 0 || j == 0 || k == 0 || i == g.nx-1 || j == g.ny-1 || k == g.nz-1 {
							g.vals[(k*g.ny+j)*g.nx+i] = 1 + 2*c.Rng.Intn(2)
							if exact && c.Rng.Intn(4) == 0 {
								g.vals[(k*g.ny+j)*g.nx+i] = 0
							}
						}
					}
				}
			}
		} else {
			c.Note("grid.box.unpadded")
		}
		gs = append(gs, g)
	}
	args := strconv.Itoa(len(gs))
	for _, g := range gs {
		args += " " + g.args()
	}
	var gmesh modeling.Mesh
	ans := c09GuardMarch(func() string {
		canvas := marching.NewMarchingCanvas(1)
		for _, g := range gs {
			canvas.AddField(g.field())
		}
		gmesh = canvas.March(0)
		return c09CanonTris(gmesh)
	})
	if ans == "empty" {
		c.Note("grid.empty-mesh")
	}
	c.Note(fmt.Sprintf("grid.boxes=%d", len(gs)))
	c.Emit("c09.march.grid", args, ans)
	if exact && ans != "panic" && ans != "empty" {
		c.Note("grid.exact-cutoff-canvas")
		c.Emit("c09.holds.balanced", c09MeshTokens(gmesh, true, false), "true")
	}
}

// ---------------------------------------------------------------- whole pipeline

type c09Shape struct {
	kind     int // 0 sphere, 1 box, 2 capsule
	a, b     vector3.Float64
	r        float64
	strength float64
}

func (s c09Shape) field() marching.Field {
	switch s.kind {
	case 0:
		return marching.Sphere(s.a, s.r, s.strength)
	case 1:
		return marching.Box(s.a, s.b, s.strength)
	default:
		return marching.Line(s.a, s.b, s.r, s.strength)
	}
}

func c09V(v vector3.Float64) string { return Fs(v.X(), v.Y(), v.Z()) }

func (s c09Shape) tokens() string {
	switch s.kind {
	case 0:
		return "0 " + c09V(s.a) + " " + Fs(s.r, s.strength)
	case 1:
		return "1 " + c09V(s.a) + " " + c09V(s.b) + " " + Fs(s.strength)
	default:
		return "2 " + c09V(s.a) + " " + c09V(s.b) + " " + Fs(s.r, s.strength)
	}
}

func c09MeshTokens(m modeling.Mesh, withIdx, withPos bool) string {
	var b strings.Builder
	if m.PrimitiveCount() == 0 || !m.HasFloat3Attribute(modeling.PositionAttribute) {
		if withIdx {
			b.WriteString("0 0")
		} else {
			b.WriteString("0")
		}
		return b.String()
	}
	idx := m.Indices()
	pos := m.Float3Attribute(modeling.PositionAttribute)
	b.WriteString(strconv.Itoa(pos.Len()))
	if withIdx {
		b.WriteByte(' ')
		b.WriteString(strconv.Itoa(idx.Len() / 3))
		for i := 0; i < idx.Len(); i++ {
			b.WriteByte(' ')
			b.WriteString(strconv.Itoa(idx.At(i)))
		}
	}
	if withPos {
		for i := 0; i < pos.Len(); i++ {
			p := pos.At(i)
			b.WriteByte(' ')
			b.WriteString(c09V(p))
		}
	}
	return b.String()
}

// one group of 1–3 overlapping primitives around `ctr` (cells), fitting in ctr ± ~1.3·R cells
func (c *Ctx) c09Group(ctr vector3.Float64, R, cpu, strength float64) []c09Shape {
	w := func(v vector3.Float64) vector3.Float64 { return v.DivByConstant(cpu) }
	rv := func(s float64) vector3.Float64 {
		return vector3.New(c.Rng.Float64()*2-1, c.Rng.Float64()*2-1, c.Rng.Float64()*2-1).Scale(s)
	}
	shapes := []c09Shape{}
	add := func(center vector3.Float64, size float64) {
		switch c.Rng.Intn(3) {
		case 0:
			shapes = append(shapes, c09Shape{kind: 0, a: w(center), r: size / cpu, strength: strength})
			c.Note("pipe.shape.sphere")
		case 1:
			ext := vector3.New(size*(1+c.Rng.Float64()), size*(1+c.Rng.Float64()), size*(1+c.Rng.Float64()))
			shapes = append(shapes, c09Shape{kind: 1, a: w(center), b: w(ext), strength: strength})
			c.Note("pipe.shape.box")
		default:
			h := rv(size * 0.6)
			shapes = append(shapes, c09Shape{kind: 2, a: w(center.Sub(h)), b: w(center.Add(h)), r: size * 0.45 / cpu, strength: strength})
			c.Note("pipe.shape.capsule")
		}
	}
	add(ctr, R*(0.6+0.4*c.Rng.Float64()))
	extra := c.Rng.Intn(3)
	for k := 0; k < extra; k++ {
		add(ctr.Add(rv(R*0.6)), R*(0.3+0.25*c.Rng.Float64()))
	}
	c.Note(fmt.Sprintf("pipe.group.shapes=%d", len(shapes)))
	return shapes
}

// one canvas: several groups of primitives on the seams of one block neighbourhood.
// mode 0: 2×2×2 neighbourhood; 1: one long shape crossing two seams on one axis (+ groups); 2: one diagonal
// capsule crossing two seams on every axis (27 blocks, alone)
func (c *Ctx) c09PipelineCase(mode int, groups int) {
	cpu := []float64{3, 5, 7.5, 10, 13, 20, 37}[c.Rng.Intn(7)]
	m := [3]int{c.Rng.Intn(5) - 3, c.Rng.Intn(5) - 3, c.Rng.Intn(5) - 3}
	S := vector3.New(float64(100*(m[0]+1)), float64(100*(m[1]+1)), float64(100*(m[2]+1)))
	strength := 1.0
	if c.Rng.Intn(5) == 0 {
		strength = 2
		c.Note("pipe.strength=2")
	}
	R := 5 + c.Rng.Float64()*3
	type grp struct{ shapes []c09Shape }
	gl := []grp{}
	used := map[[3]int]bool{}
	frac := func() float64 { return c.Rng.Float64()*4 - 2 }
	siteCtr := func(site [3]int) vector3.Float64 {
		off := func(k int) float64 { return float64(site[k]-1)*50 + frac() }
		return S.Add(vector3.New(off(0), off(1), off(2)))
	}
	switch mode {
	case 2:
		r := 3 + c.Rng.Float64()*1.5
		a := S.Sub(vector3.New(4., 4., 4.))
		b := S.Add(vector3.New(104., 104., 104.))
		if c.Rng.Intn(2) == 0 {
			a, b = vector3.New(a.X(), b.Y(), a.Z()), vector3.New(b.X(), a.Y(), b.Z())
		}
		gl = append(gl, grp{[]c09Shape{{kind: 2, a: a.DivByConstant(cpu), b: b.DivByConstant(cpu), r: r / cpu, strength: strength}}})
		c.Note("pipe.long.diagonal-222")
		groups = 0
	case 1:
		k := c.Rng.Intn(3)
		site := [3]int{c.Rng.Intn(3), c.Rng.Intn(3), c.Rng.Intn(3)}
		for v := 0; v < 3; v++ {
			s2 := site
			s2[k] = v
			used[s2] = true
		}
		site[k] = 1
		ctr := siteCtr(site)
		lo, hi := ctr, ctr
		set := func(v vector3.Float64, k int, x float64) vector3.Float64 {
			switch k {
			case 0:
				return v.SetX(x)
			case 1:
				return v.SetY(x)
			}
			return v.SetZ(x)
		}
		comp := func(v vector3.Float64, k int) float64 { return []float64{v.X(), v.Y(), v.Z()}[k] }
		lo = set(lo, k, comp(S, k)-3-c.Rng.Float64()*4)
		hi = set(hi, k, comp(S, k)+103+c.Rng.Float64()*4)
		if c.Rng.Intn(2) == 0 {
			tilt := vector3.New(frac(), frac(), frac())
			tilt = set(tilt, k, 0)
			r := 3 + c.Rng.Float64()*2
			gl = append(gl, grp{[]c09Shape{{kind: 2, a: lo.Sub(tilt).DivByConstant(cpu), b: hi.Add(tilt).DivByConstant(cpu), r: r / cpu, strength: strength}}})
			c.Note("pipe.long.capsule")
		} else {
			ext := vector3.New(6+c.Rng.Float64()*4, 6+c.Rng.Float64()*4, 6+c.Rng.Float64()*4)
			ext = set(ext, k, comp(hi, k)-comp(lo, k))
			gl = append(gl, grp{[]c09Shape{{kind: 1, a: lo.Add(hi).Scale(0.5).DivByConstant(cpu), b: ext.DivByConstant(cpu), strength: strength}}})
			c.Note("pipe.long.box")
		}
	}
	for tries := 0; len(gl) < groups+min(mode, 1) && tries < 100; tries++ {
		site := [3]int{c.Rng.Intn(3), c.Rng.Intn(3), c.Rng.Intn(3)}
		if len(gl) == min(mode, 1) {
			// the first ordinary group always sits on a seam of at least two axes
			site = [3]int{1, 1, 1}
			site[c.Rng.Intn(3)] = c.Rng.Intn(3)
		}
		if used[site] {
			continue
		}
		used[site] = true
		seams := 0
		for k := 0; k < 3; k++ {
			if site[k] == 1 {
				seams++
			}
		}
		cand := c.c09Group(siteCtr(site), R, cpu, strength)
		// AddField adds (+=): the padded sample boxes of different groups must not overlap, or the canvas would hold
		// the SUM of two fields instead of their union (Box domains grow by strength/2 WORLD units = many cells at
		// a fine resolution)
		clash := false
		for _, g := range gl {
			if c09SampleBoxesOverlap(g.shapes, cand, cpu) {
				clash = true
			}
		}
		if clash {
			c.Note("pipe.group.rejected-overlapping-domain")
			continue
		}
		c.Note(fmt.Sprintf("pipe.group.on-%d-seams", seams))
		gl = append(gl, grp{cand})
	}
	c.Note(fmt.Sprintf("pipe.cpu=%g", cpu))
	if m[0] < -1 || m[1] < -1 || m[2] < -1 {
		c.Note("pipe.negative-coordinates")
	}
	cutoff := 0.0
	if c.Rng.Intn(4) == 0 {
		cutoff = -(R / cpu) * (0.02 + 0.08*c.Rng.Float64())
		c.Note("pipe.cutoff<0")
	} else {
		c.Note("pipe.cutoff=0")
	}
	grps := make([][]c09Shape, len(gl))
	for i, g := range gl {
		grps[i] = g.shapes
	}
	c.Note(fmt.Sprintf("pipe.groups=%d", len(gl)))
	c.c09RunShapes("pipe", grps, cpu, cutoff, "c09.holds.closed")
}

// builds one canvas (one AddField per group, a group = CombineFields of its primitives), marches it and emits the
// oracle lines: strictOp (closed: every directed edge exactly once, reverse exactly once, no degenerate face),
// balanced, outward, near_iso
// the three ways of filling a canvas: AddField, AddFieldParallel, AddFieldParallel2
func c09Add(canvas *marching.MarchingCanvas, how int, f marching.Field) {
	switch how {
	case 1:
		canvas.AddFieldParallel(f)
	case 2:
		canvas.AddFieldParallel2(f)
	default:
		canvas.AddField(f)
	}
}

func (c *Ctx) c09RunShapes(tag string, groups [][]c09Shape, cpu, cutoff float64, strictOp string) {
	// pipeline canvases: a third each through AddField, AddFieldParallel, AddFieldParallel2 (the property speaks of
	// marching the canvas, however it was filled); catalogue / aligned canvases through AddField
	how := 0
	if tag == "pipe" {
		how = c.Rng.Intn(3)
	}
	c.c09RunShapesVia(tag, groups, cpu, cutoff, strictOp, how)
}

func (c *Ctx) c09RunShapesVia(tag string, groups [][]c09Shape, cpu, cutoff float64, strictOp string, how int) {
	c.Note(fmt.Sprintf("%s.filled-by=%s", tag, []string{"AddField", "AddFieldParallel", "AddFieldParallel2"}[how]))
	toks := []string{}
	var mesh modeling.Mesh
	blocks := 0
	status := Guard(func() string {
		canvas := marching.NewMarchingCanvas(cpu)
		for _, g := range groups {
			fields := make([]marching.Field, len(g))
			for i, s := range g {
				fields[i] = s.field()
				toks = append(toks, s.tokens())
			}
			c09Add(canvas, how, marching.CombineFields(fields...))
		}
		mesh = canvas.March(cutoff)
		return "ok"
	})
	_ = blocks
	if status != "ok" {
		c.Emit(strictOp, "0 0", status)
		return
	}
	c.Note(fmt.Sprintf("%s.tris~%d", tag, c09Bucket(mesh.PrimitiveCount())))
	if tag == "pipe" {
		// random generic canvases: strict closed, or exactly the fine-resolution weld pinch (known finding class 3)
		c.Emit("c09.holds.closed_or_weld_pinch", F(cpu)+" "+c09MeshTokens(mesh, true, true), "true")
	} else {
		c.Emit(strictOp, c09MeshTokens(mesh, true, false), "true")
	}
	c.Emit("c09.holds.balanced", c09MeshTokens(mesh, true, false), "true")
	c.Emit("c09.holds.outward", c09MeshTokens(mesh, true, true), "true")
	c.Emit("c09.holds.near_iso", Fs(cpu, cutoff)+" "+strconv.Itoa(len(toks))+" "+strings.Join(toks, " ")+" "+c09MeshTokens(mesh, false, true), "true")
	// per-triangle orientation: normal vs the inside→outside directions of the lattice edges its corners lie on
	c.Emit("c09.holds.tri_outward", Fs(cpu, cutoff)+" "+strconv.Itoa(len(toks))+" "+strings.Join(toks, " ")+" "+c09MeshTokens(mesh, true, true), "true")
}

// ---------------------------------------------------------------- accumulated (overlapping) fields
//
// Several single-primitive fields whose padded sample boxes OVERLAP, added one after the other through AddField,
// AddFieldParallel or AddFieldParallel2: every call must ADD its samples onto what the canvas holds.  The canvas then
// holds the SUM of the fields (each only inside its own sample box), and the near-isosurface / per-triangle oracles are
// evaluated by the driver against exactly that accumulated field.  An adder that overwrites instead of accumulating
// yields the closed surface of the WRONG field: near_iso_accumulated sees it.

// padded lattice bounds [lo, hi) of the samples an AddField* call writes (MarchingCanvas.fieldBounds)
func c09FieldBounds(f marching.Field, cpu float64) (lo, hi [3]int) {
	mn, mx := f.Domain.Min(), f.Domain.Max()
	lo = [3]int{int(math.Floor(mn.X()*cpu)) - 1, int(math.Floor(mn.Y()*cpu)) - 1, int(math.Floor(mn.Z()*cpu)) - 1}
	hi = [3]int{int(math.Ceil(mx.X()*cpu)) + 1, int(math.Ceil(mx.Y()*cpu)) + 1, int(math.Ceil(mx.Z()*cpu)) + 1}
	return
}

func (c *Ctx) c09AccumulatedCase(name string, cpu, cutoff float64, shapes []c09Shape, hows []int) {
	c.Note("acc.case")
	toks := []string{}
	var mesh modeling.Mesh
	status := Guard(func() string {
		canvas := marching.NewMarchingCanvas(cpu)
		for i, s := range shapes {
			f := s.field()
			lo, hi := c09FieldBounds(f, cpu)
			toks = append(toks, fmt.Sprintf("%d %d %d %d %d %d 1 %s", lo[0], lo[1], lo[2], hi[0], hi[1], hi[2], s.tokens()))
			how := hows[i%len(hows)]
			c.Note(fmt.Sprintf("acc.filled-by=%s", []string{"AddField", "AddFieldParallel", "AddFieldParallel2"}[how]))
			c09Add(canvas, how, f)
		}
		mesh = canvas.March(cutoff)
		return "ok"
	})
	if status != "ok" {
		c.Emit("c09.holds.closed", "0 0", status)
		return
	}
	c.Note(fmt.Sprintf("acc.tris~%d", c09Bucket(mesh.PrimitiveCount())))
	head := Fs(cpu, cutoff) + " " + strconv.Itoa(len(toks)) + " " + strings.Join(toks, " ")
	if name == "random" {
		c.Emit("c09.holds.closed_or_weld_pinch", F(cpu)+" "+c09MeshTokens(mesh, true, true), "true")
	} else {
		c.Emit("c09.holds.closed", c09MeshTokens(mesh, true, false), "true")
	}
	c.Emit("c09.holds.balanced", c09MeshTokens(mesh, true, false), "true")
	c.Emit("c09.holds.outward", c09MeshTokens(mesh, true, true), "true")
	c.Emit("c09.holds.near_iso_accumulated", head+" "+c09MeshTokens(mesh, false, true), "true")
	c.Emit("c09.holds.tri_outward_accumulated", head+" "+c09MeshTokens(mesh, true, true), "true")
}

func (c *Ctx) c09AccumulatedCases(random int) {
	sph := func(cpu, x, y, z, r float64) c09Shape {
		return c09Shape{kind: 0, a: vector3.New(x/cpu, y/cpu, z/cpu), r: r / cpu, strength: 1}
	}
	box := func(cpu, x, y, z, sx, sy, sz float64) c09Shape {
		return c09Shape{kind: 1, a: vector3.New(x/cpu, y/cpu, z/cpu), b: vector3.New(sx/cpu, sy/cpu, sz/cpu), strength: 1}
	}
	// fixed: two overlapping spheres / sphere + box, one block and across seams, each adder for the second (and first) call
	for how := 0; how < 3; how++ {
		c.c09AccumulatedCase("two overlapping spheres, one block", 7.5, 0,
			[]c09Shape{sph(7.5, 40.3, 41.1, 39.6, 6.2), sph(7.5, 45.9, 43.2, 41.7, 5.4)}, []int{how})
		c.c09AccumulatedCase("sphere + box across a seam (negative)", 10, 0,
			[]c09Shape{sph(10, -2.4, 3.3, 1.7, 6.6), box(10, 3.1, 1.2, -1.4, 8.2, 7.4, 9.6)}, []int{0, how})
	}
	c.c09AccumulatedCase("three overlapping spheres, mixed adders, negative cutoff", 5, -0.15,
		[]c09Shape{sph(5, 98.7, 20.2, 30.9, 5.5), sph(5, 103.1, 22.4, 29.3, 5.1), sph(5, 100.6, 17.3, 32.8, 4.6)}, []int{2, 1, 0})
	for k := 0; k < random; k++ {
		cpu := []float64{5, 7.5, 10, 13}[c.Rng.Intn(4)]
		base := [3]float64{float64(100*(c.Rng.Intn(3)-1)) + c.Rng.Float64()*8 - 4, 40 + c.Rng.Float64()*10, float64(100*(c.Rng.Intn(3)-1)) + 30 + c.Rng.Float64()*8}
		n := 2 + c.Rng.Intn(2)
		shapes := []c09Shape{}
		hows := []int{}
		for i := 0; i < n; i++ {
			x, y, z := base[0]+c.Rng.Float64()*6-3, base[1]+c.Rng.Float64()*6-3, base[2]+c.Rng.Float64()*6-3
			if c.Rng.Intn(2) == 0 {
				shapes = append(shapes, sph(cpu, x, y, z, 4+c.Rng.Float64()*3))
			} else {
				shapes = append(shapes, box(cpu, x, y, z, 6+c.Rng.Float64()*4, 6+c.Rng.Float64()*4, 6+c.Rng.Float64()*4))
			}
			hows = append(hows, c.Rng.Intn(3))
		}
		c.Note("acc.random")
		c.c09AccumulatedCase("random", cpu, 0, shapes, hows)
	}
}

// ---------------------------------------------------------------- lattice-aligned / exact-cutoff inputs
//
// Shapes whose centres and sizes are whole numbers of cells (at cubesPerUnit 1, 2, 4, 5, 8, 10: integer, dyadic and
// decimal world coordinates), so that many samples are EXACTLY on the cutoff (interpolation parameter 0 or 1, several
// lattice edges producing one and the same corner position) or differ from it only by float noise.  Single block as
// well as across seams.  Every class must pass the strict closed oracle, except "two inside regions separated only
// by samples equal to the cutoff" (two boxes touching at a lattice face), which is the known finding
// C09-touching-at-cutoff: strict predicate under its own op, Balanced must still hold.

func c09Cells(cpu float64, x, y, z float64) vector3.Float64 {
	return vector3.New(x/cpu, y/cpu, z/cpu)
}

type c09AlignedCase struct {
	name   string
	cpu    float64
	cutoff float64
	shapes []c09Shape // one group (CombineFields)
	op     string
}

const c09Strict = "c09.holds.closed"
const c09Witness = "c09.holds.closed_touching_at_cutoff_witness"

// second known-finding class: an axis-aligned capsule with whole-cell radius whose axis is a lattice line, at a
// non-dyadic resolution (5, 10 cubes per unit): sdf.Line is -2.2e-16 instead of 0 on a whole lattice LINE of samples
const c09NoiseLine = "c09.holds.closed_cutoff_noise_line_witness"

func c09SphereC(cpu, x, y, z, r float64) c09Shape {
	return c09Shape{kind: 0, a: c09Cells(cpu, x, y, z), r: r / cpu, strength: 1}
}
func c09BoxC(cpu, x, y, z, sx, sy, sz float64) c09Shape {
	return c09Shape{kind: 1, a: c09Cells(cpu, x, y, z), b: c09Cells(cpu, sx, sy, sz), strength: 1}
}
func c09CapsuleC(cpu, ax, ay, az, bx, by, bz, r float64) c09Shape {
	return c09Shape{kind: 2, a: c09Cells(cpu, ax, ay, az), b: c09Cells(cpu, bx, by, bz), r: r / cpu, strength: 1}
}

// fixed catalogue, run in both tiers (all parameters in cells)
func c09AlignedCatalogue() []c09AlignedCase {
	one := func(s c09Shape) []c09Shape { return []c09Shape{s} }
	return []c09AlignedCase{
		// single block
		{"sphere r=1 @5cpu on a grid point (3-4-5 hits), one block", 5, 0, one(c09SphereC(5, 25, 25, 25, 5)), c09Strict},
		{"sphere r=1 @10cpu on a grid point (6-8-10 hits), one block", 10, 0, one(c09SphereC(10, 40, 40, 40, 10)), c09Strict},
		{"sphere r=1.3 @10cpu on a grid point (5-12-13 hits), one block", 10, 0, one(c09SphereC(10, 40, 40, 40, 13)), c09Strict},
		{"sphere r=5 @1cpu on a grid point, one block", 1, 0, one(c09SphereC(1, 30, 30, 30, 5)), c09Strict},
		{"sphere r=1.2 @5cpu, cutoff -0.2 (samples equal to a negative cutoff), one block", 5, -0.2, one(c09SphereC(5, 25, 25, 25, 6)), c09Strict},
		{"box on lattice planes @5cpu, one block", 5, 0, one(c09BoxC(5, 15, 15, 15, 10, 10, 10)), c09Strict},
		{"box on lattice planes at decimal coordinates @10cpu, one block", 10, 0, one(c09BoxC(10, 15, 17, 21, 6, 8, 10)), c09Strict},
		{"box on lattice planes @1cpu, one block (negative block)", 1, 0, one(c09BoxC(1, -50, -50, -50, 6, 4, 8)), c09Strict},
		{"axis capsule, radius 3 cells @5cpu, one block (float-noise class; this one happens to be closed)", 5, 0, one(c09CapsuleC(5, 10, 10, 10, 20, 10, 10, 3)), c09NoiseLine},
		{"axis capsule, radius 3 cells @2cpu, one block", 2, 0, one(c09CapsuleC(2, 10, 10, 10, 20, 10, 10, 3)), c09Strict},
		{"slanted capsule between grid points, radius 4 cells @10cpu, one block", 10, 0, one(c09CapsuleC(10, 20, 20, 20, 40, 30, 24, 4)), c09Strict},
		{"two spheres tangent at a grid point @5cpu, one block", 5, 0, []c09Shape{c09SphereC(5, 20, 25, 25, 5), c09SphereC(5, 30, 25, 25, 5)}, c09Strict},
		{"two boxes sharing a lattice edge @2cpu, one block", 2, 0, []c09Shape{c09BoxC(2, 4, 4, 6, 4, 4, 4), c09BoxC(2, 8, 8, 6, 4, 4, 4)}, c09Strict},
		{"two boxes sharing a lattice corner @2cpu, one block", 2, 0, []c09Shape{c09BoxC(2, 4, 4, 6, 4, 4, 4), c09BoxC(2, 8, 8, 10, 4, 4, 4)}, c09Strict},
		// across seams
		{"sphere r=1 @5cpu centred on the origin (8 blocks, negative)", 5, 0, one(c09SphereC(5, 0, 0, 0, 5)), c09Strict},
		{"sphere r=1.3 @10cpu centred on a seam of two axes", 10, 0, one(c09SphereC(10, 100, 100, 40, 13)), c09Strict},
		{"box on lattice planes @4cpu centred on the origin", 4, 0, one(c09BoxC(4, 0, 0, 0, 8, 8, 8)), c09Strict},
		{"box with a face ON the seam plane @5cpu", 5, 0, one(c09BoxC(5, 105, 15, 15, 10, 10, 10)), c09Strict},
		{"axis capsule across a seam, radius 3 cells @5cpu (float-noise class)", 5, 0, one(c09CapsuleC(5, 90, 15, 15, 110, 15, 15, 3)), c09NoiseLine},
		{"axis capsule across a seam, radius 3 cells @8cpu", 8, 0, one(c09CapsuleC(8, 90, 15, 15, 110, 15, 15, 3)), c09Strict},
		{"two spheres tangent at a seam grid point @5cpu", 5, 0, []c09Shape{c09SphereC(5, 95, 25, 25, 5), c09SphereC(5, 105, 25, 25, 5)}, c09Strict},
		// known finding: two inside regions separated only by samples equal to the cutoff
		{"WITNESS two boxes touching at the lattice plane x=0 @1cpu", 1, 0, []c09Shape{c09BoxC(1, -1.5, 0, 0, 3, 4, 4), c09BoxC(1, 1.5, 0, 0, 3, 4, 4)}, c09Witness},
		{"two boxes touching at a lattice face @1cpu, one block", 1, 0, []c09Shape{c09BoxC(1, 11.5, 12, 12, 3, 4, 4), c09BoxC(1, 14.5, 12, 12, 3, 4, 4)}, c09Witness},
		// known-finding class 2: lattice line of samples within float noise of the cutoff
		{"WITNESS axis capsule (20,20,40)-(30,20,40) r=3 cells @5cpu, one block", 5, 0, one(c09CapsuleC(5, 20, 20, 40, 30, 20, 40, 3)), c09NoiseLine},
		{"axis capsule r=4 cells @5cpu across two seams", 5, 0, one(c09CapsuleC(5, -5, 0, 39, 5, 0, 39, 4)), c09NoiseLine},
		// the same capsules at dyadic resolutions are exact (samples EQUAL to the cutoff) and must be closed
		{"axis capsule (20,20,40)-(30,20,40) r=3 cells @4cpu, one block", 4, 0, one(c09CapsuleC(4, 20, 20, 40, 30, 20, 40, 3)), c09Strict},
		{"axis capsule r=4 cells @1cpu across two seams", 1, 0, one(c09CapsuleC(1, -5, 0, 39, 5, 0, 39, 4)), c09Strict},
	}
}

func (c *Ctx) c09RunAligned(a c09AlignedCase) {
	c.Note("aligned.case")
	if a.op == c09Witness {
		c.Note("aligned.class.touching-at-face(known-finding)")
	}
	if a.op == c09NoiseLine {
		c.Note("aligned.class.cutoff-noise-line(known-finding class 2)")
	}
	c.c09RunShapes("aligned", [][]c09Shape{a.shapes}, a.cpu, a.cutoff, a.op)
}

// a random member of the lattice-aligned classes
func (c *Ctx) c09AlignedRandom() c09AlignedCase {
	cpu := []float64{1, 2, 4, 5, 8, 10}[c.Rng.Intn(6)]
	// centre: inside one block, or on a seam of 1–3 axes
	blk := [][3]int{{0, 0, 0}, {-1, -1, -1}, {1, 0, -2}, {0, -1, 0}}[c.Rng.Intn(4)]
	var ctr [3]float64
	seams := 0
	onSeam := c.Rng.Intn(3) == 0
	for k := 0; k < 3; k++ {
		ctr[k] = float64(blk[k]*100 + 35 + c.Rng.Intn(30))
		if onSeam && c.Rng.Intn(2) == 0 {
			ctr[k] = float64(blk[k] * 100)
			seams++
		}
	}
	if seams == 0 {
		c.Note("aligned.random.one-block")
	} else {
		c.Note(fmt.Sprintf("aligned.random.on-%d-seams", seams))
	}
	c.Note(fmt.Sprintf("aligned.random.cpu=%g", cpu))
	R := float64(3 + c.Rng.Intn(8))
	cutoff := 0.0
	a := c09AlignedCase{cpu: cpu, op: c09Strict}
	switch c.Rng.Intn(8) {
	case 0, 1:
		c.Note("aligned.random.sphere")
		if c.Rng.Intn(3) == 0 {
			R = []float64{5, 10, 13, 6.5, 2.5}[c.Rng.Intn(5)]
		}
		if c.Rng.Intn(4) == 0 {
			// a negative cutoff that is a whole number of cells
			cutoff = -1 / cpu
			c.Note("aligned.random.cutoff=-1cell")
		}
		a.shapes = []c09Shape{c09SphereC(cpu, ctr[0], ctr[1], ctr[2], R)}
	case 2, 3:
		c.Note("aligned.random.box")
		sx, sy, sz := float64(2*(2+c.Rng.Intn(5))), float64(2*(2+c.Rng.Intn(5))), float64(2*(2+c.Rng.Intn(5)))
		a.shapes = []c09Shape{c09BoxC(cpu, ctr[0], ctr[1], ctr[2], sx, sy, sz)}
	case 4:
		c.Note("aligned.random.capsule")
		d := [3]float64{float64(c.Rng.Intn(9) - 4), float64(c.Rng.Intn(9) - 4), float64(c.Rng.Intn(9) - 4)}
		if d[0] == 0 && d[1] == 0 && d[2] == 0 {
			d[0] = 5
		}
		r := float64(2 + c.Rng.Intn(4))
		a.shapes = []c09Shape{c09CapsuleC(cpu, ctr[0]-d[0], ctr[1]-d[1], ctr[2]-d[2], ctr[0]+d[0], ctr[1]+d[1], ctr[2]+d[2], r)}
		nz := 0
		for k := 0; k < 3; k++ {
			if d[k] != 0 {
				nz++
			}
		}
		if nz == 1 && (cpu == 5 || cpu == 10) {
			c.Note("aligned.random.axis-capsule-nondyadic(known-finding class 2)")
			a.op = c09NoiseLine
		}
	case 5:
		c.Note("aligned.random.spheres-tangent-at-grid-point")
		R = float64(3 + c.Rng.Intn(5))
		k := c.Rng.Intn(3)
		p, q := ctr, ctr
		p[k] -= R
		q[k] += R
		a.shapes = []c09Shape{c09SphereC(cpu, p[0], p[1], p[2], R), c09SphereC(cpu, q[0], q[1], q[2], R)}
	case 6:
		h := float64(2 + c.Rng.Intn(3)) // half size in cells
		p, q := ctr, ctr
		share := 2 + c.Rng.Intn(2) // number of axes on which the boxes are offset: 2 = common edge, 3 = common corner
		if share == 2 {
			c.Note("aligned.random.boxes-sharing-edge")
		} else {
			c.Note("aligned.random.boxes-sharing-corner")
		}
		skip := c.Rng.Intn(3)
		for k := 0; k < 3; k++ {
			if share == 3 || k != skip {
				p[k] -= h
				q[k] += h
			}
		}
		a.shapes = []c09Shape{c09BoxC(cpu, p[0], p[1], p[2], 2*h, 2*h, 2*h), c09BoxC(cpu, q[0], q[1], q[2], 2*h, 2*h, 2*h)}
	default:
		c.Note("aligned.random.boxes-touching-at-face(known-finding)")
		h := float64(2 + c.Rng.Intn(3))
		k := c.Rng.Intn(3)
		p, q := ctr, ctr
		p[k] -= h
		q[k] += h
		a.shapes = []c09Shape{c09BoxC(cpu, p[0], p[1], p[2], 2*h, 2*h, 2*h), c09BoxC(cpu, q[0], q[1], q[2], 2*h, 2*h, 2*h)}
		a.op = c09Witness
	}
	a.cutoff = cutoff
	return a
}

// padded lattice bounds [min, max] of the samples AddField writes for one group (CombineFields domain)
func c09SampleBox(shapes []c09Shape, cpu float64) (lo, hi [3]float64) {
	fields := make([]marching.Field, len(shapes))
	for i, s := range shapes {
		fields[i] = s.field()
	}
	d := marching.CombineFields(fields...).Domain
	mn, mx := d.Min(), d.Max()
	lo = [3]float64{math.Floor(mn.X()*cpu) - 2, math.Floor(mn.Y()*cpu) - 2, math.Floor(mn.Z()*cpu) - 2}
	hi = [3]float64{math.Ceil(mx.X()*cpu) + 2, math.Ceil(mx.Y()*cpu) + 2, math.Ceil(mx.Z()*cpu) + 2}
	return
}

func c09SampleBoxesOverlap(a, b []c09Shape, cpu float64) bool {
	alo, ahi := c09SampleBox(a, cpu)
	blo, bhi := c09SampleBox(b, cpu)
	for k := 0; k < 3; k++ {
		if ahi[k] < blo[k] || bhi[k] < alo[k] {
			return false
		}
	}
	return true
}

func c09Bucket(n int) int {
	b := 1
	for b < n {
		b *= 4
	}
	return b
}

// empty-surface classes: the below-threshold region is empty (the premise of the property holds vacuously); March must
// return the empty mesh (not panic), on which closed / balanced hold trivially.  The all-BELOW case (every sample inside)
// is excluded: the inside region then reaches the boundary of the declared domain, which violates the premise.
func (c *Ctx) c09EmptyCases() {
	type ec struct {
		name   string
		cpu    float64
		cutoff float64
		field  marching.Field
	}
	constField := func(v float64, ctr, size vector3.Float64) marching.Field {
		return marching.Field{
			Domain: geometry.NewAABB(ctr, size),
			Float1Functions: map[string]sample.Vec3ToFloat{
				modeling.PositionAttribute: func(vector3.Float64) float64 { return v },
			},
		}
	}
	cases := []ec{
		{"constant field 1 above cutoff 0, one block", 2, 0, constField(1, vector3.New(50.25, 20.25, 30.25), vector3.New(3., 3., 3.))},
		{"constant field 1 above cutoff 0, across seams (negative)", 5, 0, constField(1, vector3.New(0., 0., 0.), vector3.New(2., 2., 2.))},
		{"constant field equal to the cutoff (0 is not below 0)", 1, 0, constField(0, vector3.New(10., 10., 10.), vector3.New(4., 4., 4.))},
		{"sphere entirely above: cutoff below the field's minimum", 5, -3, marching.Sphere(vector3.New(5., 5., 5.), 1, 1)},
		{"box entirely above: cutoff below the field's minimum, across a seam", 4, -5, marching.Box(vector3.New(25., 3., 3.), vector3.New(2., 2., 2.), 1)},
		{"capsule entirely above at a negative cutoff", 10, -1, marching.Line(vector3.New(2., 2., 2.), vector3.New(3., 2., 2.), 0.4, 1)},
	}
	for _, e := range cases {
		c.Note("empty.case")
		var mesh modeling.Mesh
		status := Guard(func() string {
			canvas := marching.NewMarchingCanvas(e.cpu)
			canvas.AddField(e.field)
			mesh = canvas.March(e.cutoff)
			return "ok"
		})
		if status != "ok" {
			c.Emit("c09.holds.empty_surface", "0 0", status)
			continue
		}
		// the driver answers true iff the mesh has no triangle; closed and balanced are evaluated on it as well
		c.Emit("c09.holds.empty_surface", c09MeshTokens(mesh, true, false), "true")
		c.Emit("c09.holds.closed", c09MeshTokens(mesh, true, false), "true")
		c.Emit("c09.holds.balanced", c09MeshTokens(mesh, true, false), "true")
	}
	// grid stream: tagged boxes with every sample at or above the cutoff; model answer = empty
	for k := 0; k < 3; k++ {
		S := []int{0, 100, -100}[k]
		g := c09Grid{ox: S - 2, oy: 20 + k, oz: S - 1, nx: 4, ny: 3, nz: 4}
		g.vals = make([]int, g.nx*g.ny*g.nz)
		for i := range g.vals {
			g.vals[i] = []int{1, 3, 0}[(i+k)%3]
		}
		ans := c09GuardMarch(func() string {
			canvas := marching.NewMarchingCanvas(1)
			canvas.AddField(g.field())
			return c09CanonTris(canvas.March(0))
		})
		c.Note("empty.grid")
		c.Emit("c09.march.grid", "1 "+g.args(), ans)
	}
}

// known finding class 3: the weld tolerance (1e-3 world units) does not scale with the cell size; at 37 cubes per unit two
// neighbouring vertices that each fall into the weld cell of a lattice corner make one edge shared by four triangles
func (c *Ctx) c09WeldPinchWitness() {
	var mesh modeling.Mesh
	status := Guard(func() string {
		canvas := marching.NewMarchingCanvas(37)
		canvas.AddField(marching.Line(vector3.New(-2.7913185694398499, -0.051802064006358665, -4.0988080711193984),
			vector3.New(-2.6150462889414543, 0.11776715638423096, -3.9279864455842559), 0.08582541386874018, 2))
		mesh = canvas.March(-0.0051772346071287008)
		return "ok"
	})
	c.Note("weld-pinch.witness")
	if status != "ok" {
		c.Emit("c09.holds.closed_weld_pinch_witness", "0 0", status)
		return
	}
	c.Emit("c09.holds.closed_weld_pinch_witness", c09MeshTokens(mesh, true, false), "true")
	c.Emit("c09.holds.balanced", c09MeshTokens(mesh, true, false), "true")
	c.Emit("c09.holds.closed_or_weld_pinch", F(37)+" "+c09MeshTokens(mesh, true, true), "true")
}

// one field covering MORE blocks than there are CPUs (and not a multiple of their number): a long thin capsule along x
// through `blocks` storage blocks (one block wide in y and z), filled through a parallel adder.  A work split that forgets
// the remainder blocks (seed m14) leaves part of the capsule unsampled: not closed, not balanced.
func (c *Ctx) c09LongParallelCase(blocks int, how int) {
	cpu := 5.0
	r := 2.3
	x0 := 50.37
	x1 := 50.37 + 100*float64(blocks-1) + 0.41
	sh := c09Shape{kind: 2, a: vector3.New(x0/cpu, 50.21/cpu, 49.83/cpu), b: vector3.New(x1/cpu, 51.07/cpu, 50.49/cpu), r: r / cpu, strength: 1}
	c.Note(fmt.Sprintf("long.blocks=%d(NumCPU=%d)", blocks, runtime.NumCPU()))
	c.c09RunShapesVia("long", [][]c09Shape{{sh}}, cpu, 0, "c09.holds.closed", how)
}

func runC09(c *Ctx) {
	c.c09EmptyCases()
	// more blocks than CPUs: NumCPU+1 in both tiers, 2·NumCPU+3 in the thorough tier, through both parallel adders
	ncpu := min(runtime.NumCPU(), 32)
	for _, how := range []int{1, 2} {
		c.c09LongParallelCase(ncpu+1, how)
		if c.Tier == "thorough" {
			c.c09LongParallelCase(2*ncpu+3, how)
		}
	}
	c.c09WeldPinchWitness()
	c.c09AccumulatedCases(c.N / 2)
	// lattice-aligned / exact-cutoff classes: the fixed catalogue in both tiers, then N random members
	for _, a := range c09AlignedCatalogue() {
		c.c09RunAligned(a)
	}
	for k := 0; k < c.N; k++ {
		c.c09RunAligned(c.c09AlignedRandom())
	}
	// N = number of canvases of each kind (a canvas costs ~0.25 s per allocated block to march)
	for k := 0; k < c.N; k++ {
		c.c09GridCase(10+c.Rng.Intn(8), k%3 == 2, k%4 == 1)
	}
	for k := 0; k < c.N; k++ {
		mode := 0
		if k%3 == 1 {
			mode = 1
		}
		if c.Tier == "thorough" && k%25 == 24 {
			mode = 2
		}
		c.c09PipelineCase(mode, 4+c.Rng.Intn(4))
	}
}
