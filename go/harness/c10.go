package main

// C10 — parallel variants equal their sequential counterparts.
//
// Stream "c10": every *ParallelWithPoolSize entry point of modeling.Mesh is run with a recording callback
// (records (index, value) under a mutex) for element counts n ≤ 64 and pool sizes ≤ 17 (thorough: all pairs,
// quick: the fixed edge pairs plus a PRNG sample), on every topology the primitive scan supports, and is
// compared (a) with the Lean model's visit lists regenerated from the source (`c10.visits`, `c10.scan`,
// `c10.prims`, `c10.modify`), (b) with the sequential counterpart (`c10.holds.same_output`), and (c) with the
// property itself (`c10.holds.visits_exact`: every index 0..n-1 exactly once).
// Stream "c10m": marching canvas — AddFieldParallel / AddFieldParallel2 / MarchParallel against
// AddField / March on fields spanning 1..8 storage blocks.

import (
	"fmt"
	"sort"
	"strconv"
	"strings"
	"sync"

	"github.com/EliCDavis/polyform/modeling"
	"github.com/EliCDavis/vector/vector2"
	"github.com/EliCDavis/vector/vector3"
)

func init() {
	streams["c10"] = runC10
}

type c10Rec struct {
	mu    sync.Mutex
	items []c10Item
}

type c10Item struct {
	idx int
	val string
}

func (r *c10Rec) add(i int, v string) {
	r.mu.Lock()
	r.items = append(r.items, c10Item{i, v})
	r.mu.Unlock()
}

func (r *c10Rec) sorted() []c10Item {
	out := append([]c10Item(nil), r.items...)
	sort.Slice(out, func(a, b int) bool {
		if out[a].idx != out[b].idx {
			return out[a].idx < out[b].idx
		}
		return out[a].val < out[b].val
	})
	return out
}

func (r *c10Rec) tokens() []string {
	s := r.sorted()
	out := make([]string, len(s))
	for i, it := range s {
		out[i] = strconv.Itoa(it.idx) + ":" + it.val
	}
	return out
}

func (r *c10Rec) indices() []string {
	s := r.sorted()
	out := make([]string, len(s))
	for i, it := range s {
		out[i] = strconv.Itoa(it.idx)
	}
	return out
}

func c10Join(none string, xs []string) string {
	if len(xs) == 0 {
		return none
	}
	return strings.Join(xs, " ")
}

func c10SameOutput(c *Ctx, a, b []string) {
	if len(a) != len(b) {
		// lengths differ: pad the shorter one so that the oracle sees two lists of equal declared length that differ
		for len(a) < len(b) {
			a = append(a, "missing")
		}
		for len(b) < len(a) {
			b = append(b, "missing")
		}
	}
	c.Emit("c10.holds.same_output", strings.TrimSpace(fmt.Sprintf("%d %s %s", len(a), strings.Join(a, " "), strings.Join(b, " "))), "true")
}

func c10VisitsExact(c *Ctx, n int, idx []string) {
	c.Emit("c10.holds.visits_exact", strings.TrimSpace(fmt.Sprintf("%d %d %s", n, len(idx), strings.Join(idx, " "))), "true")
}

// distinct small integers stored in floats: only moved by the code under test
func (c *Ctx) c10Vals(n, d int) []float64 {
	out := make([]float64, n*d)
	perm := c.Rng.Perm(n*d + 7)
	for i := range out {
		out[i] = float64(perm[i] - 3)
	}
	return out
}

func c10Hex(vs []float64) []string {
	out := make([]string, len(vs))
	for i, v := range vs {
		out[i] = F(v)
	}
	return out
}

const c10Attr = "attr"

func c10AttrMesh(d int, vals []float64) modeling.Mesh {
	n := len(vals) / d
	idx := make([]int, n)
	for i := range idx {
		idx[i] = i
	}
	m := modeling.NewMesh(modeling.PointTopology, idx)
	switch d {
	case 1:
		return m.SetFloat1Data(map[string][]float64{c10Attr: append([]float64{}, vals...)})
	case 2:
		v := make([]vector2.Float64, n)
		for i := range v {
			v[i] = vector2.New(vals[2*i], vals[2*i+1])
		}
		return m.SetFloat2Data(map[string][]vector2.Float64{c10Attr: v})
	default:
		v := make([]vector3.Float64, n)
		for i := range v {
			v[i] = vector3.New(vals[3*i], vals[3*i+1], vals[3*i+2])
		}
		return m.SetFloat3Data(map[string][]vector3.Float64{c10Attr: v})
	}
}

// SetFloatKData keeps an empty array as a present attribute (SetFloatKAttribute deletes it), so n = 0 is a
// real "zero elements" case; a mesh without the attribute makes sequential and parallel variants panic alike.

func c10ScanAttr(m modeling.Mesh, d, size int, parallel bool) (rec *c10Rec, res string) {
	rec = &c10Rec{}
	res = Guard(func() string {
		switch d {
		case 1:
			f := func(i int, v float64) { rec.add(i, F(v)) }
			if parallel {
				m.ScanFloat1AttributeParallelWithPoolSize(c10Attr, size, f)
			} else {
				m.ScanFloat1Attribute(c10Attr, f)
			}
		case 2:
			f := func(i int, v vector2.Float64) { rec.add(i, F(v.X())+","+F(v.Y())) }
			if parallel {
				m.ScanFloat2AttributeParallelWithPoolSize(c10Attr, size, f)
			} else {
				m.ScanFloat2Attribute(c10Attr, f)
			}
		default:
			f := func(i int, v vector3.Float64) { rec.add(i, F(v.X())+","+F(v.Y())+","+F(v.Z())) }
			if parallel {
				m.ScanFloat3AttributeParallelWithPoolSize(c10Attr, size, f)
			} else {
				m.ScanFloat3Attribute(c10Attr, f)
			}
		}
		return "ok"
	})
	return
}

// f(i, v) = 2*v + i componentwise: exact on the small integers used here
func c10ModifyAttr(m modeling.Mesh, d, size int, parallel bool) (out []string, res string) {
	res = Guard(func() string {
		var r modeling.Mesh
		switch d {
		case 1:
			f := func(i int, v float64) float64 { return 2*v + float64(i) }
			if parallel {
				r = m.ModifyFloat1AttributeParallelWithPoolSize(c10Attr, size, f)
			} else {
				r = m.ModifyFloat1Attribute(c10Attr, f)
			}
			if !r.HasFloat1Attribute(c10Attr) {
				return "ok" // SetFloat1Attribute drops an empty array: output is the empty array
			}
			a := r.Float1Attribute(c10Attr)
			for i := 0; i < a.Len(); i++ {
				out = append(out, F(a.At(i)))
			}
		case 2:
			f := func(i int, v vector2.Float64) vector2.Float64 {
				return vector2.New(2*v.X()+float64(i), 2*v.Y()+float64(i))
			}
			if parallel {
				r = m.ModifyFloat2AttributeParallelWithPoolSize(c10Attr, size, f)
			} else {
				r = m.ModifyFloat2Attribute(c10Attr, f)
			}
			if !r.HasFloat2Attribute(c10Attr) {
				return "ok" // SetFloat2Attribute drops an empty array: output is the empty array
			}
			a := r.Float2Attribute(c10Attr)
			for i := 0; i < a.Len(); i++ {
				out = append(out, F(a.At(i).X()), F(a.At(i).Y()))
			}
		default:
			f := func(i int, v vector3.Float64) vector3.Float64 {
				return vector3.New(2*v.X()+float64(i), 2*v.Y()+float64(i), 2*v.Z()+float64(i))
			}
			if parallel {
				r = m.ModifyFloat3AttributeParallelWithPoolSize(c10Attr, size, f)
			} else {
				r = m.ModifyFloat3Attribute(c10Attr, f)
			}
			if !r.HasFloat3Attribute(c10Attr) {
				return "ok" // SetFloat3Attribute drops an empty array: output is the empty array
			}
			a := r.Float3Attribute(c10Attr)
			for i := 0; i < a.Len(); i++ {
				out = append(out, F(a.At(i).X()), F(a.At(i).Y()), F(a.At(i).Z()))
			}
		}
		return "ok"
	})
	return
}

var c10Topos = []struct {
	name string
	topo modeling.Topology
}{
	{"TriangleTopology", modeling.TriangleTopology},
	{"PointTopology", modeling.PointTopology},
	{"LineStripTopology", modeling.LineStripTopology},
}

// mesh with n primitives of the given topology; vertex v has position (v, 0, 0)
func (c *Ctx) c10PrimMesh(topo modeling.Topology, n int) (modeling.Mesh, []int) {
	var idx []int
	nv := 0
	switch topo {
	case modeling.TriangleTopology:
		nv = 3 + c.Rng.Intn(2*n+3)
		idx = make([]int, 3*n)
		for i := range idx {
			idx[i] = c.Rng.Intn(nv)
		}
	case modeling.PointTopology:
		nv = n
		idx = c.Rng.Perm(n)
	case modeling.LineStripTopology:
		nv = 2 + c.Rng.Intn(n+2)
		idx = make([]int, n+1)
		for i := range idx {
			idx[i] = c.Rng.Intn(nv)
		}
	}
	pos := make([]vector3.Float64, nv)
	for i := range pos {
		pos[i] = vector3.New(float64(i), 0, 0)
	}
	return modeling.NewMesh(topo, idx).SetFloat3Attribute(modeling.PositionAttribute, pos), idx
}

func c10ScanPrims(m modeling.Mesh, size int, parallel bool) (rec *c10Rec, res string) {
	rec = &c10Rec{}
	f := func(i int, p modeling.Primitive) {
		var v string
		func() {
			defer func() {
				if r := recover(); r != nil {
					v = "panic"
				}
			}()
			switch q := p.(type) {
			case modeling.Tri:
				v = fmt.Sprintf("%d,%d,%d", q.P1(), q.P2(), q.P3())
			case *modeling.Tri:
				v = fmt.Sprintf("%d,%d,%d", q.P1(), q.P2(), q.P3())
			case *modeling.Line:
				v = fmt.Sprintf("%d,%d", q.P1(), q.P2())
			case modeling.Line:
				v = fmt.Sprintf("%d,%d", q.P1(), q.P2())
			case *modeling.Point:
				v = fmt.Sprintf("%d", int(q.ClosestPoint(modeling.PositionAttribute, vector3.Zero[float64]()).X()))
			case modeling.Point:
				v = fmt.Sprintf("%d", int(q.ClosestPoint(modeling.PositionAttribute, vector3.Zero[float64]()).X()))
			default:
				v = fmt.Sprintf("unknown-%T", p)
			}
		}()
		rec.add(i, v)
	}
	res = Guard(func() string {
		if parallel {
			m.ScanPrimitivesParallelWithPoolSize(size, f)
		} else {
			m.ScanPrimitives(f)
		}
		return "ok"
	})
	return
}

func c10Ints(xs []int) []string {
	out := make([]string, len(xs))
	for i, x := range xs {
		out[i] = strconv.Itoa(x)
	}
	return out
}

func (c *Ctx) c10Pair(n, size int) {
	c.Note(fmt.Sprintf("pairs"))
	switch {
	case size < 1:
		c.Note("size<1")
	case size == 1:
		c.Note("size=1")
	case n == 0:
		c.Note("n=0")
	case n < size:
		c.Note("n<size")
	case n%size != 0:
		c.Note("size∤n")
	default:
		c.Note("size|n")
	}
	// attribute scans and modifies
	for d := 3; d >= 1; d-- {
		vals := c.c10Vals(n, d)
		m := c10AttrMesh(d, vals)
		hex := strings.Join(c10Hex(vals), " ")
		name := fmt.Sprintf("ScanFloat%dAttributeParallelWithPoolSize", d)
		par, res := c10ScanAttr(m, d, size, true)
		if res == "panic" {
			c.Emit("c10.visits", fmt.Sprintf("%s %d %d", name, n, size), "panic")
			c.Emit("c10.scan", strings.TrimSpace(fmt.Sprintf("%s %d %d %d %s", name, n, size, d, hex)), "panic")
		} else {
			c.Emit("c10.visits", fmt.Sprintf("%s %d %d", name, n, size), c10Join("none", par.indices()))
			c.Emit("c10.scan", strings.TrimSpace(fmt.Sprintf("%s %d %d %d %s", name, n, size, d, hex)), c10Join("none", par.tokens()))
			c10VisitsExact(c, n, par.indices())
			seq, _ := c10ScanAttr(m, d, size, false)
			c10SameOutput(c, seq.tokens(), par.tokens())
		}
		name = fmt.Sprintf("ModifyFloat%dAttributeParallelWithPoolSize", d)
		pout, res := c10ModifyAttr(m, d, size, true)
		if res == "panic" {
			c.Emit("c10.modify", strings.TrimSpace(fmt.Sprintf("%s %d %d %d %s", name, n, size, d, hex)), "panic")
		} else {
			c.Emit("c10.modify", strings.TrimSpace(fmt.Sprintf("%s %d %d %d %s", name, n, size, d, hex)), c10Join("none", pout))
			sout, _ := c10ModifyAttr(m, d, size, false)
			c10SameOutput(c, sout, pout)
		}
	}
	if n == 0 {
		// attribute absent: both variants must reject alike
		empty := modeling.NewMesh(modeling.PointTopology, []int{})
		for d := 3; d >= 1; d-- {
			_, rp := c10ScanAttr(empty, d, size, true)
			_, rs := c10ScanAttr(empty, d, size, false)
			c10SameOutput(c, []string{rs}, []string{rp})
			_, rp = c10ModifyAttr(empty, d, size, true)
			_, rs = c10ModifyAttr(empty, d, size, false)
			c10SameOutput(c, []string{rs}, []string{rp})
			c.Note("attribute-missing")
		}
	}
	// primitive scans on every supported topology
	for _, t := range c10Topos {
		m, idx := c.c10PrimMesh(t.topo, n)
		if got := m.PrimitiveCount(); got != n {
			panic(fmt.Sprintf("generator: %s mesh has %d primitives, wanted %d", t.name, got, n))
		}
		args := strings.TrimSpace(fmt.Sprintf("%s %d %d %d %s", t.name, n, size, len(idx), strings.Join(c10Ints(idx), " ")))
		par, res := c10ScanPrims(m, size, true)
		name := "ScanPrimitivesParallelWithPoolSize/" + t.name
		if res == "panic" {
			c.Emit("c10.visits", fmt.Sprintf("%s %d %d", name, n, size), "panic")
			c.Emit("c10.prims", args, "panic")
			continue
		}
		c.Emit("c10.visits", fmt.Sprintf("%s %d %d", name, n, size), c10Join("none", par.indices()))
		c.Emit("c10.prims", args, c10Join("none", par.tokens()))
		c10VisitsExact(c, n, par.indices())
		seq, _ := c10ScanPrims(m, size, false)
		c10SameOutput(c, seq.tokens(), par.tokens())
	}
}

// Corpus witness (runs first): an empty line strip.  Before /repo commit 9e6522a PrimitiveCount() reported -1 for it and the
// parallel scan with pool size s >= 3 called back with indices -(s-1) .. -2 while the sequential scan calls back zero times.
// It has zero primitives, so the ordinary oracle applies: the visit multiset must be {0..n-1} with n = 0, i.e. empty.
func (c *Ctx) c10EmptyStrip(size int) {
	c.Note("corpus:empty-linestrip")
	m := modeling.EmptyMesh(modeling.LineStripTopology)
	name := "ScanPrimitivesParallelWithPoolSize/LineStripTopology"
	n := m.PrimitiveCount()
	par, res := c10ScanPrims(m, size, true)
	if res == "panic" {
		c.Emit("c10.visits", fmt.Sprintf("%s %d %d", name, n, size), "panic")
		return
	}
	c.Emit("c10.visits", fmt.Sprintf("%s %d %d", name, n, size), c10Join("none", par.indices()))
	c10VisitsExact(c, 0, par.indices())
	seq, _ := c10ScanPrims(m, size, false)
	c10SameOutput(c, seq.tokens(), par.tokens())
}

func runC10(c *Ctx) {
	const maxN, maxSize = 64, 17
	for _, size := range []int{1, 2, 3, 4, 16} {
		c.c10EmptyStrip(size)
	}
	if c.Tier == "thorough" {
		for size := -1; size <= maxSize; size++ {
			for n := 0; n <= maxN; n++ {
				c.c10Pair(n, size)
			}
		}
		return
	}
	// quick: fixed edge pairs, then a sample
	fixed := [][2]int{{10, 3}, {0, 1}, {0, 4}, {1, 1}, {1, 2}, {3, 7}, {7, 7}, {8, 7}, {13, 7}, {64, 17}, {16, 17}, {17, 17},
		{18, 17}, {33, 16}, {5, 0}, {5, -1}, {2, 2}, {63, 2}, {64, 16}}
	for _, p := range fixed {
		c.c10Pair(p[0], p[1])
	}
	for k := 0; k < c.N; k++ {
		c.c10Pair(c.Rng.Intn(maxN+1), 1+c.Rng.Intn(maxSize))
	}
}
