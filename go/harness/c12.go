package main

// C12 — a saved graph reloads to the same graph, artifacts and bytes.
//
// Stream c12: random edit histories on a real generator.App / graph.Instance (repo parameter types,
// repo basics.TextNode, harness Struct types with several array inputs), then
// Schema() -> fresh App -> ApplySchema -> Schema().  Per history:
//   c12.edit    statuses of every op + canonical dump of the edited instance      (model: run)
//   c12.save    canonical dump of the saved file at schema level                  (model: encode)
//   c12.reload  canonical dump of the reloaded instance                           (model: decode∘encode)
//   c12.holds.same_graph / bytes_identical / same_artifacts / ports_distinct      (oracles)
// plus c12.less (dependencyNameLess on name pairs), c12.atoi, c12.holds.param_law,
// c12.holds.repo_file_* for every graph file shipped with the repository.

import (
	"bytes"
	"crypto/sha256"
	"encoding/base64"
	"encoding/hex"
	"encoding/json"
	"fmt"
	"image"
	"image/color"
	"image/jpeg"
	"image/png"
	"io"
	"log"
	"math"
	"os"
	"path/filepath"
	"reflect"
	"sort"
	"strconv"
	"strings"
	"unsafe"

	"github.com/EliCDavis/jbtf"
	"github.com/EliCDavis/polyform/drawing/coloring"
	"github.com/EliCDavis/polyform/generator"
	"github.com/EliCDavis/polyform/generator/artifact"
	"github.com/EliCDavis/polyform/generator/artifact/basics"
	"github.com/EliCDavis/polyform/generator/graph"
	"github.com/EliCDavis/polyform/generator/parameter"
	"github.com/EliCDavis/polyform/generator/schema"
	"github.com/EliCDavis/polyform/math/geometry"
	"github.com/EliCDavis/polyform/nodes"
	"github.com/EliCDavis/polyform/refutil"
	"github.com/EliCDavis/vector/vector2"
	"github.com/EliCDavis/vector/vector3"

	// node packages used by the graph files shipped with the repository
	_ "github.com/EliCDavis/polyform/formats/gltf"
	_ "github.com/EliCDavis/polyform/modeling/extrude"
	_ "github.com/EliCDavis/polyform/modeling/meshops"
	_ "github.com/EliCDavis/polyform/modeling/primitives"
	_ "github.com/EliCDavis/polyform/modeling/repeat"
	_ "github.com/EliCDavis/polyform/nodes/experimental"
)

//go:linkname c12DependencyNameLess github.com/EliCDavis/polyform/generator/graph.dependencyNameLess
func c12DependencyNameLess(a, b string) bool

// ---------------------------------------------------------------- harness node types

type c12SumData struct {
	A       nodes.NodeOutput[float64]
	Value   nodes.NodeOutput[float64]
	Values  []nodes.NodeOutput[float64]
	ValuesB []nodes.NodeOutput[float64]
}

func (d c12SumData) Process() (float64, error) {
	s := 0.0
	if d.A != nil {
		s += d.A.Value()
	}
	if d.Value != nil {
		s += 3 * d.Value.Value()
	}
	for i, v := range d.Values {
		s += float64(i+1) * v.Value()
	}
	for i, v := range d.ValuesB {
		s += float64(100*(i+1)) * v.Value()
	}
	return s, nil
}

type c12Sum = nodes.Struct[float64, c12SumData]

type c12MixData struct {
	Ab  []nodes.NodeOutput[float64]
	Abc []nodes.NodeOutput[float64]
	B   nodes.NodeOutput[float64]
	Ba  []nodes.NodeOutput[string]
	AB9 nodes.NodeOutput[string]
}

func (d c12MixData) Process() (string, error) {
	var sb strings.Builder
	for _, v := range d.Ab {
		fmt.Fprintf(&sb, "%g,", v.Value())
	}
	sb.WriteString(";")
	for _, v := range d.Abc {
		fmt.Fprintf(&sb, "%g,", v.Value())
	}
	sb.WriteString(";")
	if d.B != nil {
		fmt.Fprintf(&sb, "%g", d.B.Value())
	}
	sb.WriteString(";")
	for _, v := range d.Ba {
		sb.WriteString(v.Value() + ",")
	}
	sb.WriteString(";")
	if d.AB9 != nil {
		sb.WriteString(d.AB9.Value())
	}
	return sb.String(), nil
}

type c12Mix = nodes.Struct[string, c12MixData]

type c12AnyData struct {
	I nodes.NodeOutput[int]
	F nodes.NodeOutput[bool]
	S nodes.NodeOutput[string]
	X nodes.NodeOutput[float64]
	C nodes.NodeOutput[coloring.WebColor]
	V nodes.NodeOutput[vector3.Float64]
	W nodes.NodeOutput[vector2.Float64]
	B nodes.NodeOutput[geometry.AABB]
	L nodes.NodeOutput[[]vector3.Float64]
}

func (d c12AnyData) Process() (string, error) {
	var sb strings.Builder
	if d.I != nil {
		fmt.Fprintf(&sb, "I%d", d.I.Value())
	}
	if d.F != nil {
		fmt.Fprintf(&sb, "F%v", d.F.Value())
	}
	if d.S != nil {
		fmt.Fprintf(&sb, "S%q", d.S.Value())
	}
	if d.X != nil {
		fmt.Fprintf(&sb, "X%g", d.X.Value())
	}
	if d.C != nil {
		fmt.Fprintf(&sb, "C%v", d.C.Value())
	}
	if d.V != nil {
		fmt.Fprintf(&sb, "V%v", d.V.Value())
	}
	if d.W != nil {
		fmt.Fprintf(&sb, "W%v", d.W.Value())
	}
	if d.B != nil {
		fmt.Fprintf(&sb, "B%v", d.B.Value())
	}
	if d.L != nil {
		fmt.Fprintf(&sb, "L%v", d.L.Value())
	}
	return sb.String(), nil
}

type c12Any = nodes.Struct[string, c12AnyData]

// input names outside ASCII (Go identifiers may use any Unicode letter): Latin-1, Greek, Cyrillic
type c12UniData struct {
	Ärger nodes.NodeOutput[float64]
	Größe []nodes.NodeOutput[float64]
	Öl    []nodes.NodeOutput[float64]
	Δx    []nodes.NodeOutput[float64]
	Жук   nodes.NodeOutput[float64]
}

func (d c12UniData) Process() (float64, error) {
	s := 0.0
	if d.Ärger != nil {
		s += d.Ärger.Value()
	}
	if d.Жук != nil {
		s += 2 * d.Жук.Value()
	}
	for i, v := range d.Größe {
		s += float64(3*(i+1)) * v.Value()
	}
	for i, v := range d.Öl {
		s += float64(5*(i+1)) * v.Value()
	}
	for i, v := range d.Δx {
		s += float64(7*(i+1)) * v.Value()
	}
	return s, nil
}

type c12Uni = nodes.Struct[float64, c12UniData]

type c12TextData struct {
	Title nodes.NodeOutput[string]
	Parts []nodes.NodeOutput[string]
	Nums  []nodes.NodeOutput[float64]
}

func (d c12TextData) Process() (artifact.Artifact, error) {
	var sb strings.Builder
	if d.Title != nil {
		sb.WriteString(d.Title.Value())
	}
	sb.WriteString("|")
	for _, v := range d.Parts {
		sb.WriteString(v.Value() + "/")
	}
	sb.WriteString("|")
	for _, v := range d.Nums {
		fmt.Fprintf(&sb, "%g/", v.Value())
	}
	return basics.Text{Data: sb.String()}, nil
}

type c12Text = nodes.Struct[artifact.Artifact, c12TextData]

var (
	c12SumT  = refutil.GetTypeWithPackage(new(c12Sum))
	c12MixT  = refutil.GetTypeWithPackage(new(c12Mix))
	c12TextT = refutil.GetTypeWithPackage(new(c12Text))
	c12AnyT  = refutil.GetTypeWithPackage(new(c12Any))
	c12UniT  = refutil.GetTypeWithPackage(new(c12Uni))
)

func init() {
	streams["c12"] = runC12
	streams["c12file"] = runC12FileParams
	f := &refutil.TypeFactory{}
	refutil.RegisterType[c12Sum](f)
	refutil.RegisterType[c12Mix](f)
	refutil.RegisterType[c12Text](f)
	refutil.RegisterType[c12Any](f)
	refutil.RegisterType[c12Uni](f)
	generator.RegisterTypes(f)
}

const c12P = "github.com/EliCDavis/polyform/generator/parameter."

var (
	c12Float  = c12P + "Value[float64]"
	c12Int    = c12P + "Value[int]"
	c12String = c12P + "Value[string]"
	c12Bool   = c12P + "Value[bool]"
	c12V3     = c12P + "Value[github.com/EliCDavis/vector/vector3.Vector[float64]]"
	c12V2     = c12P + "Value[github.com/EliCDavis/vector/vector2.Vector[float64]]"
	c12V3Arr  = c12P + "Value[[]github.com/EliCDavis/vector/vector3.Vector[float64]]"
	c12AABB   = c12P + "Value[github.com/EliCDavis/polyform/math/geometry.AABB]"
	c12Color  = c12P + "Value[github.com/EliCDavis/polyform/drawing/coloring.WebColor]"
	c12File   = c12P + "File"
	c12RepoTx = "github.com/EliCDavis/polyform/nodes.Struct[github.com/EliCDavis/polyform/generator/artifact.Artifact,github.com/EliCDavis/polyform/generator/artifact/basics.TextNodeData]"
)

// ---------------------------------------------------------------- tokens

func hs(s string) string { return "s" + hex.EncodeToString([]byte(s)) }
func hb(b []byte) string { return "s" + hex.EncodeToString(b) }
func opt(s *string) string {
	if s == nil {
		return "-"
	}
	return hs(*s)
}

func c12Instance(a *generator.App) *graph.Instance {
	a.Schema() // initGraphInstance
	f := reflect.ValueOf(a).Elem().FieldByName("graphInstance")
	return *(**graph.Instance)(unsafe.Pointer(f.UnsafeAddr()))
}

// ---------------------------------------------------------------- type table (from reflection on factory-built nodes)

type c12TypeInfo struct {
	name  string
	out   int
	kind  int // 0 struct, 1 value parameter, 2 file parameter
	dflt  *string
	scal  [][2]string
	arrs  [][2]string
	scalT map[string]int
	arrT  map[string]int
}

type c12Types struct {
	vty   map[string]int
	infos map[string]*c12TypeInfo
	inst  *graph.Instance
}

func newC12Types() *c12Types {
	t := &c12Types{vty: map[string]int{"github.com/EliCDavis/polyform/generator/artifact.Artifact": 0}, infos: map[string]*c12TypeInfo{}}
	t.inst = c12Instance(&generator.App{})
	return t
}

func (t *c12Types) vt(s string) int {
	if v, ok := t.vty[s]; ok {
		return v
	}
	v := len(t.vty)
	t.vty[s] = v
	return v
}

func (t *c12Types) info(ty string) *c12TypeInfo {
	if in, ok := t.infos[ty]; ok {
		return in
	}
	node, _, err := t.inst.CreateNode(ty)
	if err != nil {
		return nil
	}
	ts := graph.BuildNodeTypeSchema(node)
	in := &c12TypeInfo{name: ty, scalT: map[string]int{}, arrT: map[string]int{}}
	if len(ts.Outputs) > 0 {
		in.out = t.vt(ts.Outputs[0].Type)
	}
	names := make([]string, 0)
	for k := range ts.Inputs {
		names = append(names, k)
	}
	sort.Strings(names)
	for _, k := range names {
		v := ts.Inputs[k]
		id := t.vt(v.Type)
		if v.IsArray {
			in.arrs = append(in.arrs, [2]string{k, strconv.Itoa(id)})
			in.arrT[k] = id
		} else {
			in.scal = append(in.scal, [2]string{k, strconv.Itoa(id)})
			in.scalT[k] = id
		}
	}
	if pv, ok := c12ParamView(node); ok {
		in.kind = pv.kind
		in.dflt = pv.dflt
	}
	t.infos[ty] = in
	return in
}

func (in *c12TypeInfo) tokens() string {
	var sb strings.Builder
	fmt.Fprintf(&sb, "%s %d %d %s %d", hs(in.name), in.out, in.kind, opt(in.dflt), len(in.scal))
	for _, p := range in.scal {
		fmt.Fprintf(&sb, " %s %s", hs(p[0]), p[1])
	}
	fmt.Fprintf(&sb, " %d", len(in.arrs))
	for _, p := range in.arrs {
		fmt.Fprintf(&sb, " %s %s", hs(p[0]), p[1])
	}
	return sb.String()
}

func (t *c12Types) table(tys []string) string {
	parts := []string{strconv.Itoa(len(tys))}
	for _, ty := range tys {
		parts = append(parts, t.info(ty).tokens())
	}
	return strings.Join(parts, " ")
}

// ---------------------------------------------------------------- parameter views

type c12PView struct {
	kind       int
	name, desc string
	value      *string
	dflt       *string
	cli        *[2]string
}

func c12J(v any) *string {
	b, err := json.Marshal(v)
	if err != nil {
		panic(err)
	}
	s := string(b)
	return &s
}

func c12ViewValue[T any](p *parameter.Value[T]) c12PView {
	pv := c12PView{kind: 1, name: p.Name, desc: p.Description, value: c12J(p.Value()), dflt: c12J(p.DefaultValue)}
	if p.CLI != nil {
		pv.cli = &[2]string{p.CLI.FlagName, p.CLI.Usage}
	}
	return pv
}

func c12ParamView(n nodes.Node) (c12PView, bool) {
	switch p := n.(type) {
	case *parameter.Value[float64]:
		return c12ViewValue(p), true
	case *parameter.Value[int]:
		return c12ViewValue(p), true
	case *parameter.Value[string]:
		return c12ViewValue(p), true
	case *parameter.Value[bool]:
		return c12ViewValue(p), true
	case *parameter.Value[vector3.Float64]:
		return c12ViewValue(p), true
	case *parameter.Value[vector2.Float64]:
		return c12ViewValue(p), true
	case *parameter.Value[[]vector3.Float64]:
		return c12ViewValue(p), true
	case *parameter.Value[geometry.AABB]:
		return c12ViewValue(p), true
	case *parameter.Value[coloring.WebColor]:
		return c12ViewValue(p), true
	case *parameter.File:
		pv := c12PView{kind: 2, name: p.Name, desc: p.Description}
		if v := p.Value(); v != nil {
			s := string(v)
			pv.value = &s
		}
		if p.DefaultValue != nil {
			s := string(p.DefaultValue)
			pv.dflt = &s
		}
		if p.CLI != nil {
			pv.cli = &[2]string{p.CLI.FlagName, p.CLI.Usage}
		}
		return pv, true
	}
	return c12PView{}, false
}

func cliTok(c *[2]string) string {
	if c == nil {
		return "-"
	}
	return "c " + hs(c[0]) + " " + hs(c[1])
}

// ---------------------------------------------------------------- dumps

func c12Meta(v any) string {
	if m, ok := v.(map[string]any); ok {
		return "O " + c12MetaKids(m)
	}
	b, err := json.Marshal(v)
	if err != nil {
		panic(err)
	}
	return "L " + hs(string(b))
}

func c12MetaKids(m map[string]any) string {
	keys := make([]string, 0, len(m))
	for k := range m {
		keys = append(keys, k)
	}
	sort.Strings(keys)
	parts := []string{strconv.Itoa(len(keys))}
	for _, k := range keys {
		parts = append(parts, hs(k), c12Meta(m[k]))
	}
	return strings.Join(parts, " ")
}

func c12Hdr(a *generator.App) string {
	var au, ws *string
	if a.Authors != nil {
		au = c12J(a.Authors)
	}
	if a.WebScene != nil {
		ws = c12J(a.WebScene)
	}
	return strings.Join([]string{hs(a.Name), hs(a.Version), hs(a.Description), opt(au), opt(ws)}, " ")
}

func c12HdrSchema(a schema.App) string {
	var au, ws *string
	if a.Authors != nil {
		au = c12J(a.Authors)
	}
	if a.WebScene != nil {
		ws = c12J(a.WebScene)
	}
	return strings.Join([]string{hs(a.Name), hs(a.Version), hs(a.Description), opt(au), opt(ws)}, " ")
}

// canonical one-line dump of a live instance: nodes/types/wiring/array order/parameters/producers/metadata
func c12DumpInstance(a *generator.App) string {
	inst := c12Instance(a)
	var app schema.App
	inst.EncodeToAppSchema(&app, &jbtf.Encoder{}) // node ids and the live metadata map (instance.Schema() is the UI view)
	ids := make([]string, 0, len(app.Nodes))
	for id := range app.Nodes {
		ids = append(ids, id)
	}
	sort.Strings(ids)
	parts := []string{"G", c12Hdr(a), strconv.Itoa(len(ids))}
	for _, id := range ids {
		n := inst.Node(id)
		parts = append(parts, hs(id), hs(refutil.GetTypeWithPackage(n)))
		type conn struct{ id, port string }
		scal := map[string]conn{}
		arrs := map[string][]conn{}
		for _, d := range n.Dependencies() {
			c := conn{inst.NodeId(d.Dependency()), d.DependencyPort()}
			if i := strings.Index(d.Name(), "."); i >= 0 {
				arrs[d.Name()[:i]] = append(arrs[d.Name()[:i]], c)
			} else {
				scal[d.Name()] = c
			}
		}
		sk := make([]string, 0)
		for k := range scal {
			sk = append(sk, k)
		}
		sort.Strings(sk)
		parts = append(parts, strconv.Itoa(len(sk)))
		for _, k := range sk {
			parts = append(parts, hs(k), hs(scal[k].id), hs(scal[k].port))
		}
		ak := make([]string, 0)
		for k := range arrs {
			ak = append(ak, k)
		}
		sort.Strings(ak)
		parts = append(parts, strconv.Itoa(len(ak)))
		for _, k := range ak {
			parts = append(parts, hs(k), strconv.Itoa(len(arrs[k])))
			for _, c := range arrs[k] {
				parts = append(parts, hs(c.id), hs(c.port))
			}
		}
		if pv, ok := c12ParamView(n); ok {
			parts = append(parts, "p", hs(pv.name), hs(pv.desc), opt(pv.value), opt(pv.dflt), cliTok(pv.cli))
		} else {
			parts = append(parts, "-")
		}
	}
	names := inst.ProducerNames()
	sort.Strings(names)
	parts = append(parts, strconv.Itoa(len(names)))
	for _, nm := range names {
		p := inst.Producer(nm)
		parts = append(parts, hs(nm), hs(inst.NodeId(p.Node())), hs(p.Port()))
	}
	parts = append(parts, c12MetaKids(app.Metadata))
	return strings.Join(parts, " ")
}

type c12Container struct {
	Buffers     []jbtf.Buffer     `json:"buffers"`
	BufferViews []jbtf.BufferView `json:"bufferViews"`
}

// canonical one-line dump of a saved file, at schema level (dependencies in FILE order)
func c12DumpFile(data []byte) string {
	app, err := jbtf.Unmarshal[schema.App](data)
	if err != nil {
		return "unparseable"
	}
	var cont c12Container
	json.Unmarshal(data, &cont)
	view := func(i int) []byte {
		bv := cont.BufferViews[i]
		uri := cont.Buffers[bv.Buffer].URI
		raw, err := base64.StdEncoding.DecodeString(uri[strings.Index(uri, ",")+1:])
		if err != nil {
			panic(err)
		}
		return raw[bv.ByteOffset : bv.ByteOffset+bv.ByteLength]
	}
	ids := make([]string, 0, len(app.Nodes))
	for id := range app.Nodes {
		ids = append(ids, id)
	}
	sort.Strings(ids)
	parts := []string{"S", c12HdrSchema(app), strconv.Itoa(len(ids))}
	for _, id := range ids {
		n := app.Nodes[id]
		parts = append(parts, hs(id), hs(n.Type), strconv.Itoa(len(n.Dependencies)))
		for _, d := range n.Dependencies {
			parts = append(parts, hs(d.Name), hs(d.DependencyID), hs(d.DependencyPort))
		}
		if n.Data == nil {
			parts = append(parts, "-")
			continue
		}
		var raw map[string]json.RawMessage
		if err := json.Unmarshal(n.Data, &raw); err != nil {
			parts = append(parts, "baddata")
			continue
		}
		str := func(k string) *string {
			r, ok := raw[k]
			if !ok {
				return nil
			}
			var s string
			if json.Unmarshal(r, &s) != nil {
				return nil
			}
			return &s
		}
		val := func(k string) *string {
			if r, ok := raw["$"+strings.ToUpper(k[:1])+k[1:]]; ok { // jbtf buffer view reference
				var idx int
				json.Unmarshal(r, &idx)
				s := string(view(idx))
				return &s
			}
			r, ok := raw[k]
			if !ok {
				return nil
			}
			if strings.HasSuffix(n.Type, "parameter.File") && string(r) == "null" {
				return nil
			}
			var buf bytes.Buffer
			json.Compact(&buf, r)
			s := buf.String()
			return &s
		}
		name := ""
		if s := str("name"); s != nil {
			name = *s
		}
		var cli *[2]string
		if r, ok := raw["cli"]; ok && string(r) != "null" {
			var c struct {
				FlagName string `json:"flagName"`
				Usage    string `json:"usage"`
			}
			json.Unmarshal(r, &c)
			cli = &[2]string{c.FlagName, c.Usage}
		}
		parts = append(parts, "d", hs(name), opt(str("description")), opt(val("currentValue")), opt(val("defaultValue")), cliTok(cli))
	}
	pn := make([]string, 0)
	for k := range app.Producers {
		pn = append(pn, k)
	}
	sort.Strings(pn)
	parts = append(parts, strconv.Itoa(len(pn)))
	for _, k := range pn {
		parts = append(parts, hs(k), hs(app.Producers[k].NodeID), hs(app.Producers[k].Port))
	}
	parts = append(parts, c12MetaKids(app.Metadata))
	return strings.Join(parts, " ")
}

func c12Artifacts(a *generator.App) map[string]string {
	inst := c12Instance(a)
	out := map[string]string{}
	for _, nm := range inst.ProducerNames() {
		nm := nm
		out[nm] = Guard(func() string {
			var buf bytes.Buffer
			if err := inst.Artifact(nm).Write(&buf); err != nil {
				return "err"
			}
			return hb(buf.Bytes())
		})
	}
	return out
}

// ---------------------------------------------------------------- history generation

type c12Gen struct {
	c     *Ctx
	t     *c12Types
	app   *generator.App
	inst  *graph.Instance
	ids   []string          // live node ids
	tyOf  map[string]string // id -> type
	used  map[string]bool   // types used (for the table)
	order []string
	ops   []string
	stat  []string
	files int
	big   bool

	snaps [][]byte // files saved earlier in this session (candidates for a mid-session load)
	loads int

	saver    *generator.GraphSaver // on-disk save path (generator/graph_saver.go), attached to a share of the histories
	savePath string
	saves    int
	maxFile  int
	shrunk   bool
}

// a GraphSaver as app_server.go builds it (`&GraphSaver{app: …, savePath: …}`); the fields are unexported
func c12NewSaver(app *generator.App, path string) *generator.GraphSaver {
	gs := &generator.GraphSaver{}
	v := reflect.ValueOf(gs).Elem()
	set := func(name string, val any) {
		f := v.FieldByName(name)
		reflect.NewAt(f.Type(), unsafe.Pointer(f.UnsafeAddr())).Elem().Set(reflect.ValueOf(val))
	}
	set("app", app)
	set("savePath", path)
	return gs
}

func c12Digest(b []byte) string {
	h := sha256.Sum256(b)
	return strconv.Itoa(len(b)) + " " + hex.EncodeToString(h[:])
}

// GraphSaver.Save() to the same path as every earlier save of this history, then read the file back:
// it must be exactly App.Schema() at this moment (also when this save is SMALLER than the previous one)
func (g *c12Gen) save(full bool) {
	if g.saver == nil {
		return
	}
	st := Guard(func() string { g.saver.Save(); return "ok" })
	onDisk, err := os.ReadFile(g.savePath)
	if err != nil {
		st = "unreadable"
	}
	want := Guard(func() string { return string(g.app.Schema()) })
	g.saves++
	if len(onDisk) < g.maxFile {
		g.shrunk = true
	}
	if len(onDisk) > g.maxFile {
		g.maxFile = len(onDisk)
	}
	if full || st != "ok" || want == "panic" {
		g.c.Emit("c12.holds.file_equals_schema", hs(st)+" full "+hb(onDisk)+" "+hs(want), "true")
	} else {
		g.c.Emit("c12.holds.file_equals_schema", hs(st)+" digest "+c12Digest(onDisk)+" "+c12Digest([]byte(want)), "true")
	}
}

func (g *c12Gen) afterEdit() {
	if g.saver != nil && g.c.Rng.Intn(4) != 0 {
		g.save(false)
	}
}

// files saved by earlier histories (other applications): candidates for "open another file in the running editor"
var c12FilePool [][]byte

// the node id table read both ways: every id the save would bind must resolve (Node(id)) to the node that carries
// that id (NodeId) - the id-based editing operations then reach exactly the nodes that get saved
func (g *c12Gen) idTable(when string) {
	g.c.Emit("c12.holds.id_table", Guard(func() string {
		var sa schema.App
		g.inst.EncodeToAppSchema(&sa, &jbtf.Encoder{})
		ids := make([]string, 0, len(sa.Nodes))
		for id := range sa.Nodes {
			ids = append(ids, id)
		}
		sort.Strings(ids)
		parts := []string{strconv.Itoa(len(ids))}
		for _, id := range ids {
			back := "<nil>"
			if n := g.inst.Node(id); n != nil {
				back = g.inst.NodeId(n)
			}
			parts = append(parts, hs(id), hs(back))
		}
		return strings.Join(parts, " ")
	}), "true")
	g.c.Note("id_table." + when)
}

// every id of the session is resolved through the id-based read accessors (what the editor does when it draws the graph)
func (g *c12Gen) readAllByID() {
	for _, id := range g.ids {
		id := id
		Guard(func() string {
			g.inst.Node(id)
			if g.isParam(id) {
				g.inst.ParameterData(id)
				g.inst.Parameter(id).DisplayName()
			}
			return ""
		})
	}
	g.c.Note("load.ids-read-before")
}

func (g *c12Gen) snapshot() {
	data := Guard(func() string { return string(g.app.Schema()) })
	if data != "panic" && len(data) < 40000 {
		g.snaps = append(g.snaps, []byte(data))
	}
}

// POST /graph of the editor: App.ApplySchema on the RUNNING application (not a fresh one).  Event `L <file>`;
// model: state := decode(current header, file).  kind: self (the graph as it is now - same ids), earlier (a file saved
// earlier in this session), other (a file another application saved: different ids / types under the same ids)
func (g *c12Gen) loadInPlace(kind string) {
	r := g.c.Rng
	var data []byte
	switch {
	case kind == "earlier" && len(g.snaps) > 0:
		data = g.snaps[r.Intn(len(g.snaps))]
	case kind == "other" && len(c12FilePool) > 0:
		data = c12FilePool[r.Intn(len(c12FilePool))]
	default:
		kind = "self"
		s := Guard(func() string { return string(g.app.Schema()) })
		if s == "panic" {
			return
		}
		data = []byte(s)
	}
	parsed, err := jbtf.Unmarshal[schema.App](data)
	if err != nil {
		return
	}
	ids := make([]string, 0, len(parsed.Nodes))
	for id := range parsed.Nodes {
		ids = append(ids, id)
	}
	sort.Strings(ids)
	for _, id := range ids {
		if g.t.info(parsed.Nodes[id].Type) == nil {
			g.c.Note("load.skipped-unknown-type")
			return
		}
	}
	for _, id := range ids {
		g.use(parsed.Nodes[id].Type)
	}
	same := 0
	for _, id := range ids {
		if g.tyOf[id] != "" {
			same++
		}
	}
	st := Guard(func() string {
		if err := g.app.ApplySchema(data); err != nil {
			return "err"
		}
		return "ok"
	})
	g.ops = append(g.ops, "L "+c12DumpFile(data))
	g.stat = append(g.stat, st)
	g.loads++
	g.c.Note("op.L." + kind + "." + st)
	switch {
	case len(ids) == 0:
		g.c.Note("load.file-empty")
	case same == len(ids):
		g.c.Note("load.file-binds-only-known-ids")
	case same == 0:
		g.c.Note("load.file-binds-only-new-ids")
	default:
		g.c.Note("load.file-binds-known-and-new-ids")
	}
	if st == "ok" {
		g.ids = ids
		g.tyOf = map[string]string{}
		g.files = 0
		for _, id := range ids {
			g.tyOf[id] = parsed.Nodes[id].Type
			if parsed.Nodes[id].Type == c12File {
				g.files++
			}
		}
	}
	g.idTable("after-load")
	g.afterEdit()
}

// id-based edits right after a load: value and name of some parameters, a producer, a connection
func (g *c12Gen) editAfterLoad() {
	r := g.c.Rng
	for k := 0; k < 3; k++ {
		id, ok := g.pick(func(id string) bool { return g.isParam(id) })
		if !ok {
			break
		}
		g.setValue(id, g.randMessageFor(id))
		if r.Intn(2) == 0 {
			s := g.randString()
			g.do("A "+hs(id)+" "+hs(s), func() string { g.inst.Parameter(id).SetName(s); return "ok" })
		}
	}
	if id, ok := g.pick(func(id string) bool { return g.t.info(g.tyOf[id]).out == 0 }); ok {
		g.do("P "+hs(id)+" "+hs("after-load.txt"), func() string { g.inst.SetNodeAsProducer(id, "after-load.txt"); return "ok" })
	}
	g.c.Note("load.id-edits-after")
}

// one mid-session load with what surrounds it
func (g *c12Gen) midLoad() {
	r := g.c.Rng
	if r.Intn(2) == 0 {
		g.readAllByID()
	}
	if r.Intn(4) == 0 {
		g.preview()
	}
	g.loadInPlace([]string{"self", "self", "earlier", "other"}[r.Intn(4)])
	if r.Intn(4) != 0 {
		g.editAfterLoad()
	}
}

var c12ParamPool = []string{c12Float, c12Float, c12Float, c12String, c12String, c12Int, c12Bool, c12V3, c12V2, c12V3Arr, c12AABB, c12Color, c12File}
var c12StructPool = []string{c12SumT, c12SumT, c12MixT, c12TextT, c12TextT, c12RepoTx, c12AnyT, c12UniT}

func (g *c12Gen) use(ty string) {
	if !g.used[ty] {
		g.used[ty] = true
		g.order = append(g.order, ty)
	}
}

func (g *c12Gen) do(tok string, f func() string) string {
	st := Guard(f)
	g.ops = append(g.ops, tok)
	g.stat = append(g.stat, st)
	g.c.Note("op." + strings.SplitN(tok, " ", 2)[0] + "." + st)
	g.afterEdit()
	return st
}

// UpdateParameter with an explicit message; the model receives the value as the implementation reports it afterwards
func (g *c12Gen) setValue(id string, msg []byte) {
	canon := ""
	st := Guard(func() string {
		if _, err := g.inst.UpdateParameter(id, msg); err != nil {
			return "err"
		}
		canon = string(g.inst.ParameterData(id))
		return "ok"
	})
	g.ops = append(g.ops, "V "+hs(id)+" "+hs(canon))
	g.stat = append(g.stat, st)
	g.c.Note("op.V." + st)
	g.afterEdit()
}

func (g *c12Gen) pick(pred func(id string) bool) (string, bool) {
	cands := make([]string, 0)
	for _, id := range g.ids {
		if pred(id) {
			cands = append(cands, id)
		}
	}
	if len(cands) == 0 {
		return "", false
	}
	return cands[g.c.Rng.Intn(len(cands))], true
}

func (g *c12Gen) create(ty string) string {
	if ty == c12File {
		if g.files >= 1 {
			ty = c12String
		} else {
			g.files++
		}
	}
	g.use(ty)
	newID := ""
	g.do("C "+hs(ty), func() string {
		_, id, err := g.inst.CreateNode(ty)
		if err != nil {
			return "err"
		}
		newID = id
		return "ok"
	})
	if newID != "" {
		g.ids = append(g.ids, newID)
		g.tyOf[newID] = ty
	}
	return newID
}

func (g *c12Gen) randString() string {
	r := g.c.Rng
	switch r.Intn(6) {
	case 0:
		return ""
	case 1:
		return "a b\tc \"q\" \\ é ☃ <&>"
	case 2:
		return "line1\nline2"
	}
	n := 1 + r.Intn(8)
	b := make([]byte, n)
	for i := range b {
		const al = "abcXYZ019 _-./"
		b[i] = al[r.Intn(len(al))]
	}
	return string(b)
}

func (g *c12Gen) randFloat() float64 {
	r := g.c.Rng
	switch r.Intn(6) {
	case 0:
		return float64(r.Intn(21) - 10)
	case 1:
		return r.NormFloat64() * 1e6
	case 2:
		return r.Float64() * 1e-9
	case 3:
		return []float64{0, math.Copysign(0, -1), 1e21, 1e-7, 123456789.125, -0.1, 5e-324, 1.7976931348623157e308}[r.Intn(8)]
	}
	return r.Float64()*200 - 100
}

// message body for UpdateParameter, by parameter type
// the zero value of each parameter type, as a message
func c12ZeroMessage(ty string) []byte {
	switch ty {
	case c12Float, c12Int:
		return []byte("0")
	case c12String:
		return []byte(`""`)
	case c12Bool:
		return []byte("false")
	case c12V3:
		return []byte(*c12J(vector3.Float64{}))
	case c12V2:
		return []byte(*c12J(vector2.Float64{}))
	case c12V3Arr:
		return []byte("[]")
	case c12AABB:
		return []byte(*c12J(geometry.AABB{}))
	case c12Color:
		return []byte(*c12J(coloring.WebColor{}))
	case c12File:
		return []byte{}
	}
	return []byte("0")
}

// message for UpdateParameter on node id: often a boundary value — the type's zero / empty value, the node's own
// default, or (for arrays) null — so that "set back to zero while the default is not zero" is exercised
func (g *c12Gen) randMessageFor(id string) []byte {
	ty := g.tyOf[id]
	r := g.c.Rng
	switch r.Intn(5) {
	case 0, 1:
		g.c.Note("value.zero")
		if ty == c12Float && r.Intn(2) == 0 {
			g.c.Note("value.negative-zero")
			return []byte("-0") // 0.0 == -0.0, but 1/x, %g and binary formats tell them apart
		}
		return c12ZeroMessage(ty)
	case 2:
		if pv, ok := c12ParamView(g.inst.Node(id)); ok && pv.dflt != nil && ty != c12File {
			g.c.Note("value.default")
			return []byte(*pv.dflt)
		}
	}
	return g.randMessage(ty)
}

func (g *c12Gen) randMessage(ty string) []byte {
	r := g.c.Rng
	switch ty {
	case c12Float:
		return []byte(strconv.FormatFloat(g.randFloat(), 'g', -1, 64))
	case c12Int:
		return []byte(strconv.Itoa(r.Intn(2001) - 1000))
	case c12String:
		return []byte(*c12J(g.randString()))
	case c12Bool:
		return []byte(B(r.Intn(2) == 0))
	case c12V3:
		return []byte(*c12J(vector3.New(g.randFloat(), g.randFloat(), g.randFloat())))
	case c12V2:
		return []byte(*c12J(vector2.New(g.randFloat(), g.randFloat())))
	case c12V3Arr:
		n := r.Intn(4)
		if r.Intn(5) == 0 {
			return []byte("null")
		}
		vs := make([]vector3.Float64, n)
		for i := range vs {
			vs[i] = vector3.New(g.randFloat(), g.randFloat(), g.randFloat())
		}
		return []byte(*c12J(vs))
	case c12AABB:
		return []byte(*c12J(geometry.NewAABB(vector3.New(g.randFloat(), g.randFloat(), g.randFloat()), vector3.New(r.Float64()*4, r.Float64()*4, r.Float64()*4))))
	case c12Color:
		return []byte(*c12J(coloring.WebColor{R: byte(r.Intn(256)), G: byte(r.Intn(256)), B: byte(r.Intn(256)), A: byte(r.Intn(256))}))
	case c12File:
		n := r.Intn(12)
		b := make([]byte, n)
		r.Read(b)
		return b
	}
	return []byte("0")
}

func (g *c12Gen) isParam(id string) bool { return g.t.info(g.tyOf[id]).kind != 0 }

func (g *c12Gen) dependedOn(id string) bool {
	for _, o := range g.ids {
		for _, d := range g.inst.Node(o).Dependencies() {
			if g.inst.NodeId(d.Dependency()) == id {
				return true
			}
		}
	}
	return false
}

func (g *c12Gen) randMetaValue(depth int) any {
	r := g.c.Rng
	switch k := r.Intn(8); {
	case k == 0 && depth < 2:
		m := map[string]any{}
		for i := r.Intn(3); i > 0; i-- {
			m[[]string{"x", "y", "position", "k 1", ""}[r.Intn(5)]] = g.randMetaValue(depth + 1)
		}
		return m
	case k == 1:
		return g.randString()
	case k == 2:
		return nil
	case k == 3:
		return r.Intn(2) == 0
	case k == 4:
		return []any{g.randFloat(), "s", map[string]any{"b": 1.0, "a": nil}}
	case k == 5:
		return []any{false, 0.0, "", nil, map[string]any{}, []any{}}[r.Intn(6)]
	default:
		return g.randFloat()
	}
}

func (g *c12Gen) randPath() []string {
	r := g.c.Rng
	keys := []string{"nodes", "notes", "a", "b", "position", "Node-0", "Node-1", "x"}
	n := 1 + r.Intn(3)
	p := make([]string, n)
	for i := range p {
		p[i] = keys[r.Intn(len(keys))]
	}
	return p
}

func pathTok(p []string) string {
	parts := []string{strconv.Itoa(len(p))}
	for _, k := range p {
		parts = append(parts, hs(k))
	}
	return strings.Join(parts, " ")
}

// src depends (transitively) on dst: connecting src into dst would close a cycle (the Go API has no cycle check;
// evaluating an artifact of a cyclic graph overflows the stack, so the harness keeps graphs acyclic)
func (g *c12Gen) reaches(src, dst string) bool {
	if src == dst {
		return true
	}
	// by node identity, not by id: the walk must terminate and be right also when the id table and the nodes the
	// id-based operations reach have come apart (then the oracles report it; the harness must not build a cycle)
	target := g.inst.Node(dst)
	seen := map[nodes.Node]bool{}
	var walk func(n nodes.Node) bool
	walk = func(n nodes.Node) bool {
		if n == nil {
			return false
		}
		if n == target || g.inst.NodeId(n) == dst {
			return true
		}
		if seen[n] {
			return false
		}
		seen[n] = true
		for _, d := range n.Dependencies() {
			if walk(d.Dependency()) {
				return true
			}
		}
		return false
	}
	return walk(g.inst.Node(src))
}

func (g *c12Gen) connect(src, dst, port string) {
	if g.reaches(src, dst) {
		g.c.Note("skip.cycle")
		return
	}
	g.do(strings.Join([]string{"N", hs(src), hs("Out"), hs(dst), hs(port)}, " "), func() string {
		g.inst.ConnectNodes(src, "Out", dst, port)
		return "ok"
	})
}

// somebody looks at the artifacts in the middle of the session (a preview): from now on the runtime has caches,
// versions and remembered dependency versions, and later edits must still show up — at the end the artifacts of the
// edited application are compared with those of the reloaded one
func (g *c12Gen) preview() {
	c12Artifacts(g.app)
	g.c.Note("mid.artifact-read")
}

func (g *c12Gen) step() {
	r := g.c.Rng
	if r.Intn(10) == 0 {
		g.preview()
	}
	k := r.Intn(100)
	switch {
	case k < 14 || len(g.ids) == 0:
		if r.Intn(20) == 0 {
			g.do("C "+hs("no.such.Type"), func() string {
				if _, _, err := g.inst.CreateNode("no.such.Type"); err != nil {
					return "err"
				}
				return "ok"
			})
			return
		}
		if r.Intn(2) == 0 {
			g.create(c12ParamPool[r.Intn(len(c12ParamPool))])
		} else {
			g.create(c12StructPool[r.Intn(len(c12StructPool))])
		}
	case k < 50: // connect (mostly type-correct)
		dst, ok := g.pick(func(id string) bool { return !g.isParam(id) })
		if !ok {
			g.create(c12StructPool[r.Intn(len(c12StructPool))])
			return
		}
		in := g.t.info(g.tyOf[dst])
		type port struct {
			name string
			ty   int
			arr  bool
		}
		ports := make([]port, 0)
		for _, p := range in.scal {
			ports = append(ports, port{p[0], in.scalT[p[0]], false})
		}
		for _, p := range in.arrs {
			ports = append(ports, port{p[0], in.arrT[p[0]], true}, port{p[0], in.arrT[p[0]], true}, port{p[0], in.arrT[p[0]], true})
		}
		p := ports[r.Intn(len(ports))]
		wrong := r.Intn(25) == 0
		src, ok := g.pick(func(id string) bool { return id != dst && (g.t.info(g.tyOf[id]).out == p.ty) != wrong })
		if !ok {
			// make a source of the right type
			for _, ty := range append(append([]string{}, c12ParamPool...), c12StructPool...) {
				if g.t.info(ty).out == p.ty && ty != c12File {
					src = g.create(ty)
					break
				}
			}
			if src == "" {
				return
			}
		}
		name := p.name
		if p.arr {
			switch r.Intn(6) {
			case 0:
				name += ".0"
			case 1:
				name += ".zzz"
			default:
				cur := 0
				for _, d := range g.inst.Node(dst).Dependencies() {
					if strings.HasPrefix(d.Name(), p.name+".") {
						cur++
					}
				}
				name += "." + strconv.Itoa(cur)
			}
			reps := 1
			if g.big && r.Intn(3) == 0 {
				reps = 2 + r.Intn(12)
			}
			for i := 0; i < reps; i++ {
				s2 := src
				if i > 0 {
					if o, ok := g.pick(func(id string) bool { return id != dst && g.t.info(g.tyOf[id]).out == p.ty }); ok {
						s2 = o
					}
				}
				g.connect(s2, dst, name)
			}
			return
		}
		if r.Intn(30) == 0 {
			name = "NoSuchPort"
		}
		g.connect(src, dst, name)
	case k < 60: // disconnect
		dst, ok := g.pick(func(id string) bool { return !g.isParam(id) || r.Intn(20) == 0 })
		if !ok {
			return
		}
		deps := g.inst.Node(dst).Dependencies()
		name := "A"
		if len(deps) > 0 && r.Intn(10) != 0 {
			name = deps[r.Intn(len(deps))].Name()
			if i := strings.Index(name, "."); i >= 0 {
				switch r.Intn(12) {
				case 0:
					name = name[:i] // zero the whole array field
				case 1:
					name = name[:i] + ".99"
				case 2:
					name = name[:i] + ".+0"
				case 3:
					name = name[:i] + ".-1"
				case 4:
					name = name[:i] + ".x"
				}
			}
		} else {
			name = []string{"A", "Values.0", "Values", "Nope", "Nope.1", "Title", "Parts.00"}[r.Intn(7)]
		}
		g.do("D "+hs(dst)+" "+hs(name), func() string {
			g.inst.DeleteNodeInputConnection(dst, name)
			return "ok"
		})
	case k < 72: // parameter value
		id, ok := g.pick(func(id string) bool { return g.isParam(id) || r.Intn(30) == 0 })
		if !ok {
			return
		}
		msg := g.randMessageFor(id)
		if pv, ok := c12ParamView(g.inst.Node(id)); ok && pv.dflt != nil && string(c12ZeroMessage(g.tyOf[id])) != *pv.dflt {
			g.c.Note("value.set-on-nonzero-default")
		}
		canon := ""
		st := Guard(func() string {
			if _, err := g.inst.UpdateParameter(id, msg); err != nil {
				return "err"
			}
			if g.tyOf[id] == c12File {
				canon = string(g.inst.ParameterData(id))
			} else {
				canon = string(g.inst.ParameterData(id))
			}
			return "ok"
		})
		// values are only moved by the model: it receives the value as the implementation reports it after the update
		g.ops = append(g.ops, "V "+hs(id)+" "+hs(canon))
		g.stat = append(g.stat, st)
		g.c.Note("op.V." + st)
		g.afterEdit()
	case k < 78:
		id, ok := g.pick(func(id string) bool { return g.isParam(id) || r.Intn(30) == 0 })
		if !ok {
			return
		}
		s := g.randString()
		g.do("A "+hs(id)+" "+hs(s), func() string { g.inst.Parameter(id).SetName(s); return "ok" })
	case k < 84:
		id, ok := g.pick(func(id string) bool { return g.isParam(id) || r.Intn(30) == 0 })
		if !ok {
			return
		}
		s := g.randString()
		g.do("E "+hs(id)+" "+hs(s), func() string { g.inst.Parameter(id).SetDescription(s); return "ok" })
	case k < 89: // producer
		id, ok := g.pick(func(id string) bool { return g.t.info(g.tyOf[id]).out == 0 || r.Intn(15) == 0 })
		if !ok {
			return
		}
		nm := []string{"a.txt", "b.txt", "out/c.txt", "", "x y.txt"}[r.Intn(5)]
		g.do("P "+hs(id)+" "+hs(nm), func() string { g.inst.SetNodeAsProducer(id, nm); return "ok" })
	case k < 95: // metadata set
		p := g.randPath()
		v := g.randMetaValue(0)
		// as the HTTP handler does: the value arrives as decoded JSON
		var decoded any
		json.Unmarshal([]byte(*c12J(v)), &decoded)
		g.do("M "+pathTok(p)+" "+c12Meta(decoded), func() string { g.inst.SetMetadata(strings.Join(p, "."), decoded); return "ok" })
	case k < 98:
		p := g.randPath()
		g.do("X "+pathTok(p), func() string { g.inst.DeleteMetadata(strings.Join(p, ".")); return "ok" })
	default: // delete a node nothing depends on
		id, ok := g.pick(func(id string) bool { return !g.dependedOn(id) })
		if !ok || r.Intn(10) == 0 {
			id = "Node-999" // not present: DeleteNode is a no-op
		}
		g.do("R "+hs(id), func() string { g.inst.DeleteNode(id); return "ok" })
		for i, o := range g.ids {
			if o == id {
				g.ids = append(g.ids[:i], g.ids[i+1:]...)
				if g.tyOf[id] == c12File {
					g.files--
				}
				break
			}
		}
	}
}

// a producer graph as an application defines it in code: every parameter has a non-zero default
func c12CodeDefinedGraph(r interface{ Intn(int) int }) map[string]nodes.NodeOutput[artifact.Artifact] {
	any := &c12Any{Data: c12AnyData{
		I: &parameter.Int{Name: "count", DefaultValue: 5},
		F: &parameter.Bool{Name: "flag", DefaultValue: true},
		S: &parameter.String{Name: "label", Description: "a label", DefaultValue: "yee"},
		X: &parameter.Float64{Name: "scale", DefaultValue: 1},
		C: &parameter.Color{Name: "tint", DefaultValue: coloring.WebColor{R: 255, G: 255, B: 255, A: 255}},
		V: &parameter.Vector3{Name: "up", DefaultValue: vector3.New(0., 1., 0.)},
		W: &parameter.Vector2{Name: "uv", DefaultValue: vector2.New(1., 1.)},
		B: &parameter.AABB{Name: "box", DefaultValue: geometry.NewAABB(vector3.Zero[float64](), vector3.One[float64]())},
		L: &parameter.Vector3Array{Name: "path", DefaultValue: []vector3.Float64{vector3.New(1., 2., 3.)}},
	}}
	title := &parameter.String{Name: "Welp", DefaultValue: "title"}
	nums := []nodes.NodeOutput[float64]{&parameter.Float64{Name: "a", DefaultValue: 1}, &parameter.Float64{Name: "b", DefaultValue: -2.5}}
	if r.Intn(2) == 0 {
		nums = append(nums, nums[0])
	}
	text := &c12Text{Data: c12TextData{Title: title, Parts: []nodes.NodeOutput[string]{any.Out()}, Nums: nums}}
	return map[string]nodes.NodeOutput[artifact.Artifact]{"init.txt": text.Out()}
}

// the property itself on the implementation's comparator: entries of one array input are ordered by index,
// across every digit-count boundary a slice index can cross, whatever the case of the prefix
func c12NaturalOrder(c *Ctx) {
	r := c.Rng
	emit := func(pa, pb string, i, j uint64) {
		a := pa + "." + strconv.FormatUint(i, 10)
		b := pb + "." + strconv.FormatUint(j, 10)
		c.Emit("c12.holds.natural_order", strings.Join([]string{hs(pa), hs(pb), strconv.FormatUint(i, 10), strconv.FormatUint(j, 10),
			B(c12DependencyNameLess(a, b)), B(c12DependencyNameLess(b, a))}, " "), "true")
		c.Emit("c12.less", hs(a)+" "+hs(b), B(c12DependencyNameLess(a, b)))
		c.Emit("c12.less", hs(b)+" "+hs(a), B(c12DependencyNameLess(b, a)))
	}
	prefixes := [][2]string{{"Values", "Values"}, {"Values", "values"}, {"VALUES", "Values"}, {"Ab", "Ab"}, {"Ab", "AB"}, {"Nums", "Nums"}, {"A", "a"}}
	const maxIdx = uint64(1)<<63 - 1
	pow := uint64(10)
	for d := 1; d <= 18; d++ { // pow = 10^d
		for _, pr := range prefixes[:3] {
			emit(pr[0], pr[1], pow-1, pow)
			emit(pr[0], pr[1], pow-2, pow+1)
			emit(pr[0], pr[1], pow/10, pow)
			emit(pr[0], pr[1], pow, pow+pow/10)
			emit(pr[0], pr[1], 2, pow)
			emit(pr[0], pr[1], pow, 2*pow)
		}
		pow *= 10
	}
	for _, pr := range prefixes {
		emit(pr[0], pr[1], 0, 1)
		emit(pr[0], pr[1], 2, 10)
		emit(pr[0], pr[1], 10, 11)
		emit(pr[0], pr[1], 10, 100)
		emit(pr[0], pr[1], 11, 100)
		emit(pr[0], pr[1], 100, 101)
		emit(pr[0], pr[1], maxIdx-1, maxIdx)
		emit(pr[0], pr[1], 1, maxIdx)
		emit(pr[0], pr[1], 999999999999999999, maxIdx)
	}
	n := 300
	if c.Tier == "thorough" {
		n = 20000
	}
	for k := 0; k < n; k++ {
		di, dj := 1+r.Intn(19), 1+r.Intn(19)
		rnd := func(d int) uint64 {
			lo := uint64(1)
			for x := 1; x < d; x++ {
				lo *= 10
			}
			v := lo + uint64(r.Int63n(int64(lo)*9))%(lo*9)
			if d == 1 {
				v = uint64(r.Intn(10))
			}
			if v > maxIdx {
				v = maxIdx
			}
			return v
		}
		i, j := rnd(di), rnd(dj)
		if i == j {
			continue
		}
		if i > j {
			i, j = j, i
		}
		pr := prefixes[r.Intn(len(prefixes))]
		emit(pr[0], pr[1], i, j)
	}
}

var c12TempDir string

// the JSON texts of parameter payloads: encoding/json's output for each of the nine Value[T] types (and vectors of
// int / string / bool) must be what the model's codec prints after parsing it (Model/Payload.lean)
func c12JSONTexts(c *Ctx) {
	r := c.Rng
	g := &c12Gen{c: c}
	emit := func(kind string, v any) {
		txt := *c12J(v)
		c.Emit("c12.json", kind+" "+hs(txt), hs(txt))
	}
	rstr := func() string {
		al := []rune("aZ09 \"\\/\n\r\t\b\f\x00\x01\x1f<>&\u2028\u2029\x7féß☃😀{}[],:")
		b := make([]rune, r.Intn(9))
		for i := range b {
			b[i] = al[r.Intn(len(al))]
		}
		return string(b)
	}
	v3 := func() vector3.Float64 { return vector3.New(g.randFloat(), g.randFloat(), g.randFloat()) }
	n := 60
	if c.Tier == "thorough" {
		n = 3000
	}
	emit("v3arr", []vector3.Float64(nil))
	emit("v3arr", []vector3.Float64{})
	emit("arrint", []int{})
	emit("str", "")
	emit("int", -9223372036854775808)
	emit("int", 9223372036854775807)
	for i := 0; i < n; i++ {
		emit("f64", g.randFloat())
		emit("int", r.Intn(2001)-1000)
		emit("int", int(r.Int63())-int(r.Int63()))
		emit("str", rstr())
		emit("str", g.randString())
		emit("bool", r.Intn(2) == 0)
		emit("v2", vector2.New(g.randFloat(), g.randFloat()))
		emit("v3", v3())
		vs := make([]vector3.Float64, r.Intn(4))
		for k := range vs {
			vs[k] = v3()
		}
		emit("v3arr", vs)
		emit("aabb", geometry.NewAABB(v3(), vector3.New(r.Float64(), r.Float64(), r.Float64())))
		emit("color", coloring.WebColor{R: byte(r.Intn(256)), G: byte(r.Intn(256)), B: byte(r.Intn(256)), A: byte(r.Intn(256))})
		is := make([]int, r.Intn(5))
		for k := range is {
			is[k] = r.Intn(201) - 100
		}
		emit("arrint", is)
		ss := make([]string, r.Intn(4))
		for k := range ss {
			ss[k] = rstr()
		}
		emit("arrstr", ss)
		emit("arrbool", []bool{r.Intn(2) == 0, r.Intn(2) == 0}[:r.Intn(3)])
	}
}

// Image parameter payloads (PNG through a jbtf buffer view): a single Image parameter is the last view, so it must
// reload with the same PIXELS AT FULL DEPTH (every image kind PNG can carry, and JPEG uploads), the same name and
// description, re-save byte for byte, and feed an image producer the same picture.

// every pixel as 16-bit RGBA (premultiplied, what image.Image guarantees) and as 16-bit NRGBA (exact for NRGBA64)
func c12Pixels(img image.Image) string {
	if img == nil {
		return "nil"
	}
	b := img.Bounds()
	var sb strings.Builder
	fmt.Fprintf(&sb, "%d,%d,%d,%d:", b.Min.X, b.Min.Y, b.Max.X, b.Max.Y)
	for y := b.Min.Y; y < b.Max.Y; y++ {
		for x := b.Min.X; x < b.Max.X; x++ {
			r, g, bl, a := img.At(x, y).RGBA()
			n := color.NRGBA64Model.Convert(img.At(x, y)).(color.NRGBA64)
			fmt.Fprintf(&sb, "%04x%04x%04x%04x%04x%04x%04x%04x", r, g, bl, a, n.R, n.G, n.B, n.A)
		}
	}
	return sb.String()
}

func c12RandomImage(r interface{ Intn(int) int }, kind string, w, h int) ([]byte, error) {
	rect := image.Rect(0, 0, w, h)
	u8 := func() uint8 { return uint8(r.Intn(256)) }
	u16 := func() uint16 { return uint16(r.Intn(65536)) }
	var img image.Image
	switch kind {
	case "gray":
		m := image.NewGray(rect)
		for i := range m.Pix {
			m.Pix[i] = u8()
		}
		img = m
	case "gray16":
		m := image.NewGray16(rect)
		for y := 0; y < h; y++ {
			for x := 0; x < w; x++ {
				m.SetGray16(x, y, color.Gray16{Y: u16()})
			}
		}
		img = m
	case "nrgba":
		m := image.NewNRGBA(rect)
		for i := range m.Pix {
			m.Pix[i] = u8()
		}
		img = m
	case "nrgba64":
		m := image.NewNRGBA64(rect)
		for y := 0; y < h; y++ {
			for x := 0; x < w; x++ {
				m.SetNRGBA64(x, y, color.NRGBA64{R: u16(), G: u16(), B: u16(), A: uint16(32768 + r.Intn(32768))})
			}
		}
		img = m
	case "rgba":
		m := image.NewRGBA(rect)
		for y := 0; y < h; y++ {
			for x := 0; x < w; x++ {
				a := 1 + r.Intn(255)
				m.SetRGBA(x, y, color.RGBA{R: uint8(r.Intn(a + 1)), G: uint8(r.Intn(a + 1)), B: uint8(r.Intn(a + 1)), A: uint8(a)})
			}
		}
		img = m
	case "rgba64":
		m := image.NewRGBA64(rect)
		for y := 0; y < h; y++ {
			for x := 0; x < w; x++ {
				a := 1 + r.Intn(65535)
				m.SetRGBA64(x, y, color.RGBA64{R: uint16(r.Intn(a + 1)), G: uint16(r.Intn(a + 1)), B: uint16(r.Intn(a + 1)), A: uint16(a)})
			}
		}
		img = m
	case "rgba64-opaque":
		m := image.NewRGBA64(rect)
		for y := 0; y < h; y++ {
			for x := 0; x < w; x++ {
				m.SetRGBA64(x, y, color.RGBA64{R: u16(), G: u16(), B: u16(), A: 0xffff})
			}
		}
		img = m
	case "paletted":
		pal := color.Palette{color.NRGBA{0, 0, 0, 255}, color.NRGBA{255, 0, 0, 255}, color.NRGBA{12, 200, 77, 255}, color.NRGBA{9, 9, 250, 128}}
		m := image.NewPaletted(rect, pal)
		for i := range m.Pix {
			m.Pix[i] = uint8(r.Intn(len(pal)))
		}
		img = m
	case "jpeg", "jpeg-gray":
		var src image.Image
		if kind == "jpeg" {
			m := image.NewRGBA(rect)
			for i := range m.Pix {
				m.Pix[i] = u8()
			}
			for i := 3; i < len(m.Pix); i += 4 {
				m.Pix[i] = 255
			}
			src = m
		} else {
			m := image.NewGray(rect)
			for i := range m.Pix {
				m.Pix[i] = u8()
			}
			src = m
		}
		var buf bytes.Buffer
		err := jpeg.Encode(&buf, src, &jpeg.Options{Quality: 90})
		return buf.Bytes(), err
	}
	var buf bytes.Buffer
	err := png.Encode(&buf, img)
	return buf.Bytes(), err
}

func c12ImagePayloads(c *Ctx) {
	r := c.Rng
	kinds := []string{"gray", "gray16", "nrgba", "nrgba64", "rgba", "rgba64", "rgba64-opaque", "paletted", "jpeg", "jpeg-gray"}
	rounds := 2
	if c.Tier == "thorough" {
		rounds = 30
	}
	imgT := c12P + "Image"
	imgNodeT := "github.com/EliCDavis/polyform/nodes.Struct[github.com/EliCDavis/polyform/generator/artifact.Artifact,github.com/EliCDavis/polyform/generator/artifact/basics.ImageNodeData]"
	for round := 0; round < rounds; round++ {
		for _, kind := range kinds {
			w, h := 1+r.Intn(9), 1+r.Intn(9)
			if round == 0 {
				w, h = 1, 1
			}
			if round == 1 {
				w, h = 3+2*r.Intn(3), 1+2*r.Intn(4) // odd sizes
			}
			payload, err := c12RandomImage(r, kind, w, h)
			if err != nil {
				continue
			}
			app := &generator.App{}
			inst := c12Instance(app)
			res := Guard(func() string {
				_, id, err := inst.CreateNode(imgT)
				if err != nil {
					return "err-create"
				}
				if _, err := inst.UpdateParameter(id, payload); err != nil {
					return "err-update"
				}
				inst.Parameter(id).SetName("picture")
				inst.Parameter(id).SetDescription("an image")
				_, pid, err := inst.CreateNode(imgNodeT)
				if err != nil {
					return "err-create-producer"
				}
				inst.ConnectNodes(id, "Out", pid, "In")
				inst.SetNodeAsProducer(pid, "img.png")
				live := c12Pixels(inst.Node(id).(*parameter.Image).Value())
				before := inst.ParameterData(id)
				s1 := app.Schema()
				fresh := &generator.App{}
				fi := c12Instance(fresh)
				if err := fresh.ApplySchema(s1); err != nil {
					return "err-apply"
				}
				p := fi.Node(id).(*parameter.Image)
				reloaded := c12Pixels(p.Value())
				after := fi.ParameterData(id)
				s2 := fresh.Schema()
				art := func(in *graph.Instance) string {
					var buf bytes.Buffer
					if err := in.Artifact("img.png").Write(&buf); err != nil {
						return "err-artifact"
					}
					im, err := png.Decode(&buf)
					if err != nil {
						return "err-artifact-decode"
					}
					return c12Pixels(im)
				}
				return strings.Join([]string{hs("ok"), hs(live), hs(reloaded), hs(art(inst)), hs(art(fi)), hb(before), hb(after), hs(string(s1)), hs(string(s2)),
					B(p.Name == "picture" && p.Description == "an image")}, " ")
			})
			if !strings.HasPrefix(res, "s") {
				res = hs(res) + " s s s s s s s s false"
			}
			c.Emit("c12.holds.image_payload_kept", hs(kind)+" "+res, "true")
			c.Note("image." + kind)
		}
	}
}

func runC12(c *Ctx) {
	log.SetOutput(io.Discard) // GraphSaver.Save logs every write
	dir, err := os.MkdirTemp("", "c12-save-")
	if err != nil {
		panic(err)
	}
	c12TempDir = dir
	defer os.RemoveAll(dir)
	t := newC12Types()
	c12Less(c)
	c12NaturalOrder(c)
	c12ParamLaw(c)
	c12JSONTexts(c)
	c12ImagePayloads(c)
	c12RepoTypes(c, t)
	c12RepoFiles(c, t)
	for i := 0; i < c.N; i++ {
		c12History(c, t, i)
	}
}

func c12History(c *Ctx, t *c12Types, i int) {
	r := c.Rng
	app := &generator.App{}
	if r.Intn(3) > 0 {
		app.Name = "graph " + strconv.Itoa(i)
	}
	if r.Intn(3) == 0 {
		app.Version = "1.0." + strconv.Itoa(r.Intn(9))
	}
	if r.Intn(3) == 0 {
		app.Description = "descr \"x\""
	}
	if r.Intn(4) == 0 {
		app.Authors = []schema.Author{{Name: "A. B", ContactInfo: []schema.AuthorContact{{Medium: "m", Value: "v"}}}, {Name: "C"}}
	}
	if r.Intn(5) == 0 {
		app.WebScene = &schema.WebScene{AntiAlias: true, Fog: schema.WebSceneFog{Near: 1.5, Far: 30}}
	}
	hdr0 := c12Hdr(app) // the header when the session starts (a mid-session load merges the file's header into it)
	initDump := "-"
	if i%4 == 1 {
		// a graph defined in code (App.Files), with parameters whose DEFAULTS are not the zero value
		app.Files = c12CodeDefinedGraph(r)
		c.Note("shape.code-defined-start")
	}
	g := &c12Gen{c: c, t: t, app: app, inst: c12Instance(app), tyOf: map[string]string{}, used: map[string]bool{}}
	if app.Files != nil {
		var sa schema.App
		g.inst.EncodeToAppSchema(&sa, &jbtf.Encoder{})
		ids := make([]string, 0)
		for id := range sa.Nodes {
			ids = append(ids, id)
		}
		sort.Strings(ids)
		for _, id := range ids {
			g.ids = append(g.ids, id)
			g.tyOf[id] = sa.Nodes[id].Type
			g.use(sa.Nodes[id].Type)
		}
		initDump = c12DumpInstance(app)
	}
	if i%2 == 0 {
		// the on-disk path: autosave after (most) edits, always to the same file
		g.savePath = filepath.Join(c12TempDir, "graph-"+strconv.Itoa(i)+".json")
		g.saver = c12NewSaver(app, g.savePath)
		g.save(false)
		c.Note("shape.autosave")
	}
	g.big = i%3 == 0
	n := []int{0, 1, 3, 8, 20, 40, 70}[r.Intn(7)]
	huge := 0
	if i%25 == 3 {
		huge = 101 + r.Intn(30) // crosses the 9/10 and 99/100 digit boundaries
	}
	if c.Tier == "thorough" && i%1000 == 5 {
		huge = 1001 + r.Intn(20)
	}
	if huge > 0 {
		dst := g.create([]string{c12SumT, c12TextT}[r.Intn(2)])
		in := t.info(g.tyOf[dst])
		p := map[string]string{c12SumT: "Values", c12TextT: "Nums"}[g.tyOf[dst]]
		if r.Intn(2) == 0 {
			p = map[string]string{c12SumT: "ValuesB", c12TextT: "Nums"}[g.tyOf[dst]]
		}
		_ = in
		srcs := make([]string, 13)
		for j := range srcs {
			srcs[j] = g.create(c12Float)
			g.inst.UpdateParameter(srcs[j], []byte(strconv.Itoa(j+1)))
			g.ops = append(g.ops, "V "+hs(srcs[j])+" "+hs(string(g.inst.ParameterData(srcs[j]))))
			g.stat = append(g.stat, "ok")
		}
		for j := 0; j < huge; j++ {
			g.connect(srcs[(j*j+3*j)%13], dst, p+"."+strconv.Itoa(j))
		}
		if t.info(g.tyOf[dst]).out == 0 {
			g.do("P "+hs(dst)+" "+hs("huge.txt"), func() string { g.inst.SetNodeAsProducer(dst, "huge.txt"); return "ok" })
		}
		if huge > 1000 {
			c.Note("shape.array>1000")
			n = 3
		} else {
			c.Note("shape.array>100")
		}
	}
	if i%7 == 0 {
		// the shape the property names: one array input with 10..25 connections
		dst := g.create([]string{c12SumT, c12TextT, c12MixT}[r.Intn(3)])
		in := t.info(g.tyOf[dst])
		p := in.arrs[r.Intn(len(in.arrs))][0]
		k := 10 + r.Intn(16)
		for j := 0; j < k; j++ {
			var ty string
			for _, cand := range c12ParamPool {
				if t.info(cand).out == in.arrT[p] {
					ty = cand
				}
			}
			if ty == "" {
				ty = c12SumT
			}
			src := g.create(ty)
			if t.info(ty).kind == 1 {
				msg := g.randMessageFor(src)
				g.inst.UpdateParameter(src, msg)
				g.ops = append(g.ops, "V "+hs(src)+" "+hs(string(g.inst.ParameterData(src))))
				g.stat = append(g.stat, "ok")
			}
			g.connect(src, dst, p+"."+strconv.Itoa(j))
		}
		if t.info(g.tyOf[dst]).out == 0 {
			g.do("P "+hs(dst)+" "+hs("big.txt"), func() string { g.inst.SetNodeAsProducer(dst, "big.txt"); return "ok" })
		}
		c.Note("shape.array>=10")
	}
	// a third of the histories load a saved graph into the RUNNING application (POST /graph) and go on editing
	withLoads := i%3 == 1
	if withLoads && r.Intn(4) == 0 {
		// load into the still unused application first (no id has been resolved yet), edit, and load again later
		g.loadInPlace([]string{"other", "self"}[r.Intn(2)])
		g.editAfterLoad()
		c.Note("shape.load-before-any-edit")
	}
	for j := 0; j < n; j++ {
		g.step()
		if withLoads {
			if r.Intn(6) == 0 {
				g.snapshot()
			}
			if r.Intn(n/2+1) == 0 && g.loads < 4 {
				g.midLoad()
			}
		}
	}
	if withLoads {
		if g.loads == 0 || r.Intn(3) == 0 {
			// the shape of the editor session: build, look at it, re-open a file, change values, save
			g.readAllByID()
			g.loadInPlace([]string{"self", "earlier", "other"}[r.Intn(3)])
			g.editAfterLoad()
			for j := r.Intn(6); j > 0; j-- {
				g.step()
			}
		}
		c.Note("shape.mid-session-load")
		c.Note(fmt.Sprintf("loads.%d", g.loads))
	}
	if i%5 == 2 {
		// preview, THEN the last edits: (a) a float flips between 0 and -0 under a producer that prints its sign,
		// (b) a producer loses its LAST input after it has been evaluated
		text := g.create(c12TextT)
		f := g.create(c12Float)
		first, second := "0", "-0"
		if r.Intn(2) == 0 {
			first, second = second, first
		}
		g.setValue(f, []byte(first))
		g.connect(f, text, "Nums.0")
		g.do("P "+hs(text)+" "+hs("sign.txt"), func() string { g.inst.SetNodeAsProducer(text, "sign.txt"); return "ok" })
		g.preview()
		g.setValue(f, []byte(second))
		text2 := g.create(c12TextT)
		sp := g.create(c12String)
		g.setValue(sp, []byte(`"shown in the preview"`))
		port := []string{"Title", "Parts.0"}[r.Intn(2)]
		g.connect(sp, text2, port)
		g.do("P "+hs(text2)+" "+hs("last.txt"), func() string { g.inst.SetNodeAsProducer(text2, "last.txt"); return "ok" })
		g.preview()
		g.do("D "+hs(text2)+" "+hs(port), func() string { g.inst.DeleteNodeInputConnection(text2, port); return "ok" })
		if r.Intn(2) == 0 {
			g.preview()
		}
		c.Note("shape.preview-then-edit")
	}
	if i%10 == 7 && g.files == 0 {
		// a File parameter whose payload is set but has length zero (it is the only binary payload, hence the last view)
		fid := g.create(c12File)
		if r.Intn(2) == 0 {
			g.setValue(fid, []byte("not empty"))
		}
		g.setValue(fid, []byte{})
		c.Note("shape.file-param-empty-payload")
	}
	if g.saver != nil {
		// make the document grow, save, then shrink it in each of the ways an editor can, saving after every step
		sid := g.create(c12String)
		g.setValue(sid, []byte(*c12J(strings.Repeat("long value ", 40))))
		g.do("A "+hs(sid)+" "+hs(strings.Repeat("N", 120)), func() string { g.inst.Parameter(sid).SetName(strings.Repeat("N", 120)); return "ok" })
		g.do("M 2 "+hs("notes")+" "+hs("big")+" L "+hs(*c12J(strings.Repeat("m", 300))), func() string {
			g.inst.SetMetadata("notes.big", strings.Repeat("m", 300))
			return "ok"
		})
		g.save(false)
		g.setValue(sid, []byte(`""`))
		g.save(false)
		g.do("A "+hs(sid)+" "+hs(""), func() string { g.inst.Parameter(sid).SetName(""); return "ok" })
		g.save(false)
		g.do("X 2 "+hs("notes")+" "+hs("big"), func() string { g.inst.DeleteMetadata("notes.big"); return "ok" })
		g.save(false)
		if dst, ok := g.pick(func(id string) bool { return len(g.inst.Node(id).Dependencies()) > 0 }); ok && r.Intn(2) == 0 {
			name := g.inst.Node(dst).Dependencies()[0].Name()
			g.do("D "+hs(dst)+" "+hs(name), func() string { g.inst.DeleteNodeInputConnection(dst, name); return "ok" })
			g.save(false)
		}
		if !g.dependedOn(sid) {
			g.do("R "+hs(sid), func() string { g.inst.DeleteNode(sid); return "ok" })
			for k, o := range g.ids {
				if o == sid {
					g.ids = append(g.ids[:k], g.ids[k+1:]...)
					break
				}
			}
		}
		g.save(true) // the final save of the history: compared byte for byte
		g.save(true) // and a repeated save of the unchanged graph
		if g.shrunk {
			c.Note("autosave.shrinking-save-seen")
		}
		c.Note(fmt.Sprintf("autosave.saves.%s", bucket(g.saves)))
	}
	maxArr := 0
	for _, id := range g.ids {
		cnt := map[string]int{}
		for _, d := range g.inst.Node(id).Dependencies() {
			if k := strings.Index(d.Name(), "."); k >= 0 {
				cnt[d.Name()[:k]]++
				if cnt[d.Name()[:k]] > maxArr {
					maxArr = cnt[d.Name()[:k]]
				}
			}
		}
	}
	switch {
	case maxArr > 100:
		c.Note("maxarray.101+")
	case maxArr >= 10:
		c.Note("maxarray.10-100")
	case maxArr >= 2:
		c.Note("maxarray.2-9")
	default:
		c.Note("maxarray.0-1")
	}
	c.Note(fmt.Sprintf("nodes.%s", bucket(len(g.ids))))

	table := t.table(g.order)
	req := hdr0 + " " + table + " " + initDump + " " + strconv.Itoa(len(g.ops))
	if len(g.ops) > 0 {
		req += " " + strings.Join(g.ops, " ")
	}
	dumpOrig := Guard(func() string { return c12DumpInstance(app) })
	if dumpOrig == "panic" {
		// the instance is in a state its own accessors reject (e.g. a producer or dependency without a node id)
		c.Emit("c12.edit", req, "panic")
		return
	}
	c.Emit("c12.edit", req, c12Stat(g.stat)+" "+dumpOrig)
	if g.loads > 0 {
		g.idTable("end-of-session")
	}

	saved := Guard(func() string { return string(app.Schema()) })
	if saved == "panic" {
		c.Emit("c12.holds.save_ok", "false", "true")
		return
	}
	if g.saver != nil {
		// what gets loaded is the FILE the saver wrote, not the in-memory schema
		onDisk, err := os.ReadFile(g.savePath)
		if err != nil {
			c.Emit("c12.holds.save_ok", "false", "true")
			return
		}
		saved = string(onDisk)
		os.Remove(g.savePath)
	}
	c.Emit("c12.save", req, c12DumpFile([]byte(saved)))

	fresh := &generator.App{}
	c12Instance(fresh)
	st := Guard(func() string {
		if err := fresh.ApplySchema([]byte(saved)); err != nil {
			return "err"
		}
		return "ok"
	})
	if st != "ok" {
		c.Emit("c12.holds.reload_ok", hs(st), "true")
		return
	}
	if len(saved) < 40000 {
		// a file that loads: later histories may open it in their running application
		c12FilePool = append(c12FilePool, []byte(saved))
		if len(c12FilePool) > 12 {
			c12FilePool = c12FilePool[1:]
		}
	}
	dumpReload := Guard(func() string { return c12DumpInstance(fresh) })
	c.Emit("c12.reload", req, dumpReload)
	if dumpReload == "panic" {
		return
	}
	c.Emit("c12.holds.same_graph", table+" "+dumpOrig+" "+dumpReload, "true")
	again := Guard(func() string { return string(fresh.Schema()) })
	c.Emit("c12.holds.bytes_identical", hs(saved)+" "+hs(again), "true")
	c.Emit("c12.holds.schema_fixpoint", c12DumpFile([]byte(saved))+" "+c12DumpFile([]byte(again)), "true")
	a1, a2 := c12Artifacts(app), c12Artifacts(fresh)
	names := make([]string, 0)
	for k := range a1 {
		names = append(names, k)
	}
	for k := range a2 {
		if _, ok := a1[k]; !ok {
			names = append(names, k)
		}
	}
	sort.Strings(names)
	parts := []string{strconv.Itoa(len(names))}
	for _, k := range names {
		x, y := a1[k], a2[k]
		if x == "" {
			x = "missing"
		}
		if y == "" {
			y = "missing"
		}
		parts = append(parts, hs(k), x, y)
		if strings.HasPrefix(x, "s") {
			c.Note("artifacts.compared")
		} else {
			c.Note("artifacts.unevaluable-" + x)
		}
	}
	c.Emit("c12.holds.same_artifacts", strings.Join(parts, " "), "true")
}

func bucket(n int) string {
	switch {
	case n == 0:
		return "0"
	case n <= 3:
		return "1-3"
	case n <= 10:
		return "4-10"
	default:
		return "11+"
	}
}

// ---------------------------------------------------------------- comparator

func c12Less(c *Ctx) {
	fixed := []string{"Values.10", "Values.2", "values.2", "VALUES.10", "Values", "Value", "Values.02", "Values.+1", "Values.-1", "Values.1",
		"Values.x", "Values.1x", "Values.", "A", "a", "B", "b.1", "B.1", "B.2", "Ab.1", "Abc.0", "AB9", "Ab.9", "Ab.10", "", ".", ".1", "1", "a.b.2", "a.b.10", "a.B.3",
		"Values.9223372036854775807", "Values.9223372036854775808", "Values.99999999999999999999", "Values.-9223372036854775808", "Values.-9223372036854775809",
		"Values.1_0", "Values.0x10", "Values. 1", "Values.١", "é.1", "Z", "_", "Values.0", "Values.00", "Values.-0", "Parts.3", "Nums.3", "Title"}
	for _, a := range fixed {
		for _, b := range fixed {
			c.Emit("c12.less", hs(a)+" "+hs(b), B(c12DependencyNameLess(a, b)))
		}
		c.Emit("c12.atoi", hs(a), c12Atoi(a))
		if i := strings.LastIndex(a, "."); i >= 0 {
			c.Emit("c12.atoi", hs(a[i+1:]), c12Atoi(a[i+1:]))
		}
	}
	r := c.Rng
	alpha := "aAbB.01289+-_xZ"
	rs := func() string {
		n := r.Intn(7)
		b := make([]byte, n)
		for i := range b {
			b[i] = alpha[r.Intn(len(alpha))]
		}
		return string(b)
	}
	n := 400
	if c.Tier == "thorough" {
		n = 20000
	}
	for i := 0; i < n; i++ {
		a, b := rs(), rs()
		if r.Intn(3) == 0 {
			p := []string{"Values", "values", "Ab", "Abc", "A"}[r.Intn(5)]
			a = p + "." + strconv.Itoa(r.Intn(130))
			b = []string{p, strings.ToUpper(p), "Ab"}[r.Intn(3)] + "." + strconv.Itoa(r.Intn(130))
		}
		c.Emit("c12.less", hs(a)+" "+hs(b), B(c12DependencyNameLess(a, b)))
		c.Emit("c12.atoi", hs(a), c12Atoi(a))
	}
	// names over the non-ASCII alphabet the model covers (Latin-1 letters, Greek without final sigma, Cyrillic)
	uni := []rune("aAzZ.019ÀàÄäÖöÜüßÞþÿ×÷ΑαΔδΣσΩωАаЯяЖжЀѐЏџ")
	ru := func() string {
		n := r.Intn(6)
		b := make([]rune, n)
		for i := range b {
			b[i] = uni[r.Intn(len(uni))]
		}
		return string(b)
	}
	uniFixed := []string{"Ärger", "ärger", "ÄRGER", "Größe.2", "GRÖßE.10", "größe.9", "Öl.1", "öl.1", "Δx.3", "δx.12", "ΔX.2", "Жук", "жук", "ЖУК", "ßa.1", "Ärger.1", "Þ", "þ.2", "Σ.1", "σ.1", "Ѐ.1", "ѐ.2", "×.1", "÷"}
	for _, a := range uniFixed {
		for _, b := range uniFixed {
			c.Emit("c12.less", hs(a)+" "+hs(b), B(c12DependencyNameLess(a, b)))
		}
	}
	for i := 0; i < n/2; i++ {
		a, b := ru(), ru()
		if r.Intn(3) == 0 {
			p := []string{"Größe", "Δx", "Öl", "Ж"}[r.Intn(4)]
			q := []string{p, strings.ToUpper(p), strings.ToLower(p)}[r.Intn(3)]
			a, b = p+"."+strconv.Itoa(r.Intn(130)), q+"."+strconv.Itoa(r.Intn(130))
		}
		c.Emit("c12.less", hs(a)+" "+hs(b), B(c12DependencyNameLess(a, b)))
	}
	c.Note("less.non-ascii-names")
	// the names the code generates: fmt.Sprintf("%s.%d")
	for _, i := range []int{0, 1, 9, 10, 11, 99, 100, 101, 12345, 1 << 40, 1<<63 - 1} {
		c.Emit("c12.arrname", hs("Values")+" "+strconv.Itoa(i), hs(fmt.Sprintf("%s.%d", "Values", i)))
	}
}

func c12Atoi(s string) string {
	v, err := strconv.Atoi(s)
	if err != nil {
		return "err"
	}
	return strconv.Itoa(v)
}

// ---------------------------------------------------------------- per-type parameter round-trip law (spot check, residue)

func c12LawOne[T any](c *Ctx, ty string, v T) {
	j1, err := json.Marshal(v)
	if err != nil {
		c.Emit("c12.holds.param_law", hs(ty)+" "+hs("marshal-error")+" "+hs(""), "true")
		return
	}
	var back T
	if err := json.Unmarshal(j1, &back); err != nil {
		c.Emit("c12.holds.param_law", hs(ty)+" "+hs(string(j1))+" "+hs("unmarshal-error"), "true")
		return
	}
	j2, _ := json.Marshal(back)
	// the parameter itself: FromJSON(ToJSON)
	p := &parameter.Value[T]{Name: "n", Description: "d", DefaultValue: v}
	body, _ := p.ToJSON(&jbtf.Encoder{})
	q := &parameter.Value[T]{}
	q.FromJSON(jbtf.Decoder{}, body)
	body2, _ := q.ToJSON(&jbtf.Encoder{})
	same := reflect.DeepEqual(p.Value(), q.Value()) || string(*c12J(p.Value())) == string(*c12J(q.Value()))
	c.Emit("c12.holds.param_law", hs(ty)+" "+hs(string(j1))+" "+hs(string(j2))+" "+hs(string(body))+" "+hs(string(body2))+" "+B(same)+" "+B(q.Name == "n" && q.Description == "d"), "true")
}

// the VALUE a parameter holds before the save is the value it holds after the reload, for every combination of
// default d and applied value v at the boundaries (zero value, the default itself, something else, nothing applied)
func c12ValueKept[T any](c *Ctx, ty string, d, v T, apply bool) {
	p := &parameter.Value[T]{Name: "n", Description: "d", DefaultValue: d}
	if apply {
		if _, err := p.ApplyMessage([]byte(*c12J(v))); err != nil {
			return
		}
	}
	before, dBefore := *c12J(p.Value()), *c12J(p.DefaultValue)
	body, err := p.ToJSON(&jbtf.Encoder{})
	if err != nil {
		return
	}
	for _, q := range []*parameter.Value[T]{{}, {DefaultValue: d}, {DefaultValue: v}} {
		st := "ok"
		if err := q.FromJSON(jbtf.Decoder{}, body); err != nil {
			st = "err"
		}
		c.Emit("c12.holds.param_value_kept", strings.Join([]string{hs(ty), hs(st), hs(before), hs(*c12J(q.Value())), hs(dBefore), hs(*c12J(q.DefaultValue)),
			B(q.Name == "n" && q.Description == "d")}, " "), "true")
	}
}

func c12ValueKeptAll[T any](c *Ctx, ty string, x, y T) {
	var zero T
	c12ValueKept(c, ty, x, zero, true)
	c12ValueKept(c, ty, x, x, true)
	c12ValueKept(c, ty, zero, x, true)
	c12ValueKept(c, ty, x, y, true)
	c12ValueKept(c, ty, zero, zero, true)
	c12ValueKept(c, ty, x, y, false)
	c12ValueKept(c, ty, zero, y, false)
}

func c12ParamLaw(c *Ctx) {
	c12ValueKeptAll(c, "float64", 1.0, -2.5)
	c12ValueKeptAll(c, "int", 5, -7)
	c12ValueKeptAll(c, "string", "yee", "other")
	c12ValueKeptAll(c, "bool", true, true)
	c12ValueKeptAll(c, "vector3", vector3.New(0., 1., 0.), vector3.New(1., 2., 3.))
	c12ValueKeptAll(c, "vector2", vector2.New(1., 1.), vector2.New(0., 2.))
	c12ValueKeptAll(c, "aabb", geometry.NewAABB(vector3.Zero[float64](), vector3.One[float64]()), geometry.NewAABB(vector3.New(1., 2., 3.), vector3.New(2., 2., 2.)))
	c12ValueKeptAll(c, "color", coloring.WebColor{R: 255, G: 255, B: 255, A: 255}, coloring.WebColor{R: 1, G: 2, B: 3, A: 4})
	c12ValueKeptAll(c, "vector3array", []vector3.Float64{vector3.New(1., 2., 3.)}, []vector3.Float64{})
	g := &c12Gen{c: c}
	n := 40
	if c.Tier == "thorough" {
		n = 2000
	}
	r := c.Rng
	for i := 0; i < n; i++ {
		c12LawOne(c, "float64", g.randFloat())
		c12LawOne(c, "int", r.Intn(1<<31)-(1<<30))
		c12LawOne(c, "string", g.randString())
		c12LawOne(c, "bool", r.Intn(2) == 0)
		c12LawOne(c, "vector3", vector3.New(g.randFloat(), g.randFloat(), g.randFloat()))
		c12LawOne(c, "vector2", vector2.New(g.randFloat(), g.randFloat()))
		c12LawOne(c, "aabb", geometry.NewAABB(vector3.New(g.randFloat(), g.randFloat(), g.randFloat()), vector3.New(r.Float64(), r.Float64(), r.Float64())))
		c12LawOne(c, "color", coloring.WebColor{R: byte(r.Intn(256)), G: byte(r.Intn(256)), B: byte(r.Intn(256)), A: byte(r.Intn(256))})
		vs := make([]vector3.Float64, r.Intn(4))
		for k := range vs {
			vs[k] = vector3.New(g.randFloat(), g.randFloat(), g.randFloat())
		}
		c12LawOne(c, "vector3array", vs)
		if i%8 == 0 {
			c12ValueKeptAll(c, "float64", g.randFloat(), g.randFloat())
			c12ValueKeptAll(c, "string", g.randString(), g.randString())
			c12ValueKeptAll(c, "int", r.Intn(100)-50, r.Intn(100)-50)
		}
	}
	c12LawOne[[]vector3.Float64](c, "vector3array", nil)
}

// ---------------------------------------------------------------- registered types: input names are what the model assumes

func c12RepoTypes(c *Ctx, t *c12Types) {
	gs := t.inst.Schema()
	for _, ty := range gs.Types {
		names := make([]string, 0, len(ty.Inputs))
		for k := range ty.Inputs {
			names = append(names, k)
		}
		sort.Strings(names)
		parts := []string{hs(ty.Type), strconv.Itoa(len(names))}
		for _, k := range names {
			parts = append(parts, hs(k))
		}
		c.Emit("c12.holds.ports_distinct", strings.Join(parts, " "), "true")
	}
	c.Note(fmt.Sprintf("registered-types.%d", len(gs.Types)))
}

// ---------------------------------------------------------------- graph files shipped with the repository

func c12RepoFiles(c *Ctx, t *c12Types) {
	repo := os.Getenv("VERIF_REPO")
	if repo == "" {
		repo = "/repo"
	}
	files := make([]string, 0)
	filepath.Walk(repo, func(p string, info os.FileInfo, err error) error {
		if err != nil {
			return nil
		}
		if info.IsDir() && (info.Name() == ".git" || info.Name() == "node_modules") {
			return filepath.SkipDir
		}
		if !info.IsDir() && strings.HasSuffix(p, ".json") {
			data, err := os.ReadFile(p)
			if err == nil && bytes.Contains(data, []byte("\"nodes\"")) && bytes.Contains(data, []byte("\"producers\"")) {
				files = append(files, p)
			}
		}
		return nil
	})
	sort.Strings(files)
	c.Note(fmt.Sprintf("repo-graph-files.%d", len(files)))
	for _, p := range files {
		rel, _ := filepath.Rel(repo, p)
		data, _ := os.ReadFile(p)
		a := &generator.App{}
		c12Instance(a)
		st := Guard(func() string {
			if err := a.ApplySchema(data); err != nil {
				return "err"
			}
			return "ok"
		})
		c.Emit("c12.holds.repo_file_loads", hs(rel)+" "+hs(st), "true")
		if st != "ok" {
			continue
		}
		s1 := a.Schema()
		b := &generator.App{}
		c12Instance(b)
		st = Guard(func() string {
			if err := b.ApplySchema(s1); err != nil {
				return "err"
			}
			return "ok"
		})
		if st != "ok" {
			c.Emit("c12.holds.repo_file_loads", hs(rel+" (re-saved)")+" "+hs(st), "true")
			continue
		}
		s2 := b.Schema()
		// save -> load -> save is byte identical; and the shipped file itself is reproduced at schema level
		c.Emit("c12.holds.repo_file_bytes_identical", hs(rel)+" "+hs(string(s1))+" "+hs(string(s2)), "true")
		c.Emit("c12.holds.repo_file_schema_reproduced", hs(rel)+" "+c12DumpFile(data)+" "+c12DumpFile(s1), "true")
		// the model decodes the shipped file and re-encodes it: must be the implementation's re-saved file
		app, _ := jbtf.Unmarshal[schema.App](data)
		tys := make([]string, 0)
		seen := map[string]bool{}
		ok := true
		ids := make([]string, 0)
		for id := range app.Nodes {
			ids = append(ids, id)
		}
		sort.Strings(ids)
		for _, id := range ids {
			ty := app.Nodes[id].Type
			if !seen[ty] {
				seen[ty] = true
				tys = append(tys, ty)
				if t.info(ty) == nil {
					ok = false
				}
			}
		}
		if ok {
			c.Emit("c12.file", t.table(tys)+" "+c12DumpFile(data), c12DumpInstance(a)+" "+c12DumpFile(s1))
		}
		c.Emit("c12.holds.same_graph", t.table(tys)+" "+c12DumpInstance(a)+" "+c12DumpInstance(b), "true")
		if c.Tier == "thorough" {
			// the property speaks about producers that are deterministic functions of their inputs: a producer whose
			// artifact differs between two loads of the SAME bytes (noise textures seeded from math/rand) is skipped
			twin := &generator.App{}
			c12Instance(twin)
			twin.ApplySchema(data)
			a1, a1twin, a2 := c12Artifacts(a), c12Artifacts(twin), c12Artifacts(b)
			names := make([]string, 0)
			for k := range a1 {
				if a1[k] == a1twin[k] {
					names = append(names, k)
					c.Note("repo-artifact.deterministic")
				} else {
					c.Note("repo-artifact.nondeterministic-skipped")
				}
			}
			sort.Strings(names)
			parts := []string{strconv.Itoa(len(names))}
			for _, k := range names {
				parts = append(parts, hs(k), a1[k], a2[k])
			}
			c.Emit("c12.holds.same_artifacts", strings.Join(parts, " "), "true")
		}
	}
}

// ---------------------------------------------------------------- File / Image parameter payloads (spot checks; residue of the proof)

// File parameters declared in CODE can have a DefaultValue (editor-created ones cannot).  The payload the parameter
// holds — the default while nothing is applied, else the applied bytes — must survive save -> load, also when the
// default is non-empty and differs from the applied value.  (On the pinned tree the default itself is never written:
// observation in notes; only the VALUE, the producer's artifact and the re-save are compared here.)
func c12CodeDefinedFiles(c *Ctx) {
	r := c.Rng
	n := 8
	if c.Tier == "thorough" {
		n = 200
	}
	for i := 0; i < n; i++ {
		dflt := make([]byte, 1+r.Intn(9))
		r.Read(dflt)
		fp := &parameter.File{Name: "blob", DefaultValue: dflt}
		app := &generator.App{Files: map[string]nodes.NodeOutput[artifact.Artifact]{"blob.bin": basics.NewBinaryNode(fp.Out())}}
		inst := c12Instance(app)
		applied := i%2 == 1
		if applied {
			cur := make([]byte, r.Intn(9))
			r.Read(cur)
			fp.ApplyMessage(cur)
		}
		res := Guard(func() string {
			live := append([]byte{}, fp.Value()...)
			art := func(in *graph.Instance) string {
				var buf bytes.Buffer
				if err := in.Artifact("blob.bin").Write(&buf); err != nil {
					return "err"
				}
				return hb(buf.Bytes())
			}
			a1 := art(inst)
			s1 := app.Schema()
			fresh := &generator.App{}
			fi := c12Instance(fresh)
			if err := fresh.ApplySchema(s1); err != nil {
				return "err-apply"
			}
			var reloaded []byte
			var sa schema.App
			fi.EncodeToAppSchema(&sa, &jbtf.Encoder{})
			for id, nd := range sa.Nodes {
				if strings.HasSuffix(nd.Type, "parameter.File") {
					reloaded = fi.Node(id).(*parameter.File).Value()
				}
			}
			s2 := fresh.Schema()
			return strings.Join([]string{hs("ok"), hb(live), hb(reloaded), a1, art(fi), hs(string(s1)), hs(string(s2))}, " ")
		})
		if !strings.HasPrefix(res, "s") {
			res = hs(res) + " s s s s s s"
		}
		c.Emit("c12.holds.codefile_value_kept", B(applied)+" "+res, "true")
		c.Note(fmt.Sprintf("codefile.applied-%v", applied))
	}
}

func runC12FileParams(c *Ctx) {
	c12CodeDefinedFiles(c)
	r := c.Rng
	for i := 0; i < c.N; i++ {
		app := &generator.App{}
		inst := c12Instance(app)
		k := 1 + r.Intn(3)
		if i == 0 {
			k = 2 // the fixed witness: 'AAAA', 'BB'
		}
		ids := make([]string, k)
		want := make([][]byte, k)
		for j := 0; j < k; j++ {
			_, ids[j], _ = inst.CreateNode(c12File)
			want[j] = make([]byte, r.Intn(9))
			r.Read(want[j])
			if i == 0 {
				want[j] = [][]byte{[]byte("AAAA"), []byte("BB")}[j]
			}
			inst.UpdateParameter(ids[j], want[j])
		}
		descr := ""
		if r.Intn(2) == 0 {
			descr = "what this file is"
			inst.Parameter(ids[0]).SetDescription(descr)
		}
		s1 := app.Schema()
		fresh := &generator.App{}
		fi := c12Instance(fresh)
		st := Guard(func() string {
			if err := fresh.ApplySchema(s1); err != nil {
				return "err"
			}
			return "ok"
		})
		parts := []string{hs(st), strconv.Itoa(k)}
		if st == "ok" {
			for j := 0; j < k; j++ {
				parts = append(parts, hb(want[j]), hb(fi.ParameterData(ids[j])))
			}
		}
		c.Emit("c12.holds.fileparam_content", strings.Join(parts, " "), "true")
		c.Note(fmt.Sprintf("fileparams.%d", k))
		if st == "ok" {
			got := fi.Node(ids[0]).(*parameter.File).Description
			c.Emit("c12.holds.fileparam_description", hs(descr)+" "+hs(got), "true")
			c.Emit("c12.holds.fileparam_bytes_identical", hs(string(s1))+" "+hs(string(fresh.Schema())), "true")
		}
	}
}

func c12Stat(st []string) string {
	if len(st) == 0 {
		return "-"
	}
	return strings.Join(st, ",")
}
