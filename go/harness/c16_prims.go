package main

// C16 (round 2), stream c16prims: bit-exact correspondence of the rendering primitives' Hit / BoundingBox
// with lean/PolyVerif/Model/RenderPrims.lean (the definitions Props/C16Prims.lean proves "hit only inside the box" about).
//
//   c16.prim.sphere cs ce ct r  o d time mn mx  ->  <box 6> <hit: true dist point | false> <one-object BVH: true dist | false>
//   c16.prim.rect   bl tr depth o d time mn mx  ->  same
//   c16.prim.tri    p1 p2 p3    o d time mn mx  ->  <node box 6> <BVHNode.Hit of NewBVHFromMesh(one triangle): true dist point | false>
//       (Triangle's fields are unexported: the triangle is reached through its one-triangle BVH node — box test on r.Ray(),
//        then left.Hit, then right.Hit on the shortened range — which the driver reproduces with the model's Bvh.hit.)
//   c16.holds.prim_in_box <kind> … : oracle, the reported point lies in the primitive's box (slack 1e-9 for rounding)

import (
	"fmt"
	"math"
	"strings"

	"github.com/EliCDavis/polyform/modeling"
	"github.com/EliCDavis/polyform/rendering"
	"github.com/EliCDavis/vector/vector2"
	"github.com/EliCDavis/vector/vector3"
)

func init() { streams["c16prims"] = runC16Prims }

func (c *Ctx) c16pv(scale float64) v3 {
	if c.Rng.Intn(4) == 0 { // integer grid: exact arithmetic, ties, on-boundary hits
		return vector3.New(float64(c.Rng.Intn(9)-4), float64(c.Rng.Intn(9)-4), float64(c.Rng.Intn(9)-4))
	}
	return vector3.New((c.Rng.Float64()*2-1)*scale, (c.Rng.Float64()*2-1)*scale, (c.Rng.Float64()*2-1)*scale)
}

// a range: usually [0, big]; sometimes positive / negative lower end, sometimes an upper end near `near`
func (c *Ctx) c16range(near float64) (float64, float64) {
	mn, mx := 0., 1e6
	switch c.Rng.Intn(6) {
	case 0:
		mn = c.Rng.Float64() * 3
		c.Note("prims.range.min>0")
	case 1:
		mn = -c.Rng.Float64() * 3
		c.Note("prims.range.min<0")
	}
	switch c.Rng.Intn(4) {
	case 0:
		mx = near * (0.5 + c.Rng.Float64())
		c.Note("prims.range.max-near")
	case 1:
		mx = near
		c.Note("prims.range.max-exact")
	}
	return mn, mx
}

func c16rayEnc(r *rendering.TemporalRay, time, mn, mx float64) string {
	return c16v(r.Origin()) + " " + c16v(r.Direction()) + " " + Fs(time, mn, mx)
}

func c16hitEnc(hit bool, rec *rendering.HitRecord) string {
	if !hit {
		return "false"
	}
	return "true " + F(rec.Distance) + " " + c16v(rec.Point)
}

func c16hitEncD(hit bool, rec *rendering.HitRecord) string {
	if !hit {
		return "false"
	}
	return "true " + F(rec.Distance)
}

// Known finding C16-bvh-point-range, replayed on the real code on every run: the slab test rejects every range of a single
// point (tMax <= tMin), so a BVH node misses a hit at exactly min = max that HitList.Hit reports.  The driver evaluates
// "BVH answer = HitList answer" on the two implementation answers (false on the pinned tree; theorem bvh_differs_on_point_range).
func (c *Ctx) c16pointRangeWitness() {
	sp := rendering.NewSphere(vector3.New(0., 0., 0.), 1, nil)
	ray := rendering.NewTemporalRay(vector3.New(0., 0., -5.), vector3.New(0., 0., 1.), 0)
	rL, rB := rendering.NewHitRecord(), rendering.NewHitRecord()
	hL := rendering.HitList{sp}.Hit(&ray, 4, 4, rL)
	hB := rendering.NewBVHTree([]rendering.Hittable{sp}, 0, 1, 0, 0).Hit(&ray, 4, 4, rB)
	c.Emit("c16.holds.bvh_point_range_witness", "unit-sphere-range-4-4 "+B(hB)+" "+F(rB.Distance)+" "+B(hL)+" "+F(rL.Distance), "true")
}

func runC16Prims(c *Ctx) {
	c.c16pointRangeWitness()
	for k := 0; k < c.N; k++ {
		c.c16primSphere()
		c.c16primRect()
		c.c16primTri()
		if k%2 == 0 {
			c.c16primMesh()
		}
		if k%2 == 1 {
			c.c16primTree()
		}
	}
}

// rendering.Mesh (octree of intersectingTri, automatic depth): Mesh.Hit (traverse + callback) and Mesh.Hit2 (collect + loop)
// against the model's meshHit / meshHit2 on the model's octree of the same triangles.
//   c16.mesh.hit auto tri <n> <9n floats> o d time mn mx -> <Hit: true dist | false> <Hit2: true dist | false>
func (c *Ctx) c16primMesh() {
	n := 1 + c.Rng.Intn(24)
	var m modeling.Mesh
	var verts []v3
	var idx []int
	switch c.Rng.Intn(3) {
	case 0:
		m, verts, idx = c.c16triGridMesh(n)
		c.Note("prims.mesh.intgrid")
	case 1:
		m, verts, idx = c.c16flatMesh()
		n = len(idx) / 3
		c.Note("prims.mesh.flat")
	default:
		m, verts, idx = c.c16triMesh(n)
		c.Note("prims.mesh.soup")
	}
	parts := make([]string, 0, n)
	for i := 0; i < n; i++ {
		parts = append(parts, c16v(verts[idx[3*i]])+" "+c16v(verts[idx[3*i+1]])+" "+c16v(verts[idx[3*i+2]]))
	}
	enc := "auto tri " + fmt.Sprint(n) + " " + strings.Join(parts, " ")
	mesh := rendering.NewMesh(m, nil)
	for q := 0; q < 3; q++ {
		ti := c.Rng.Intn(n)
		ta, tb, tc := verts[idx[3*ti]], verts[idx[3*ti+1]], verts[idx[3*ti+2]]
		w1, w2 := c.Rng.Float64(), c.Rng.Float64()
		if w1+w2 > 1 {
			w1, w2 = 1-w1, 1-w2
		}
		target := ta.Add(tb.Sub(ta).Scale(w1)).Add(tc.Sub(ta).Scale(w2))
		if c.Rng.Intn(6) == 0 {
			target = c.c16pv(15)
		}
		o, d, ok := c.c16aim(target, 30)
		if !ok {
			continue
		}
		ray := rendering.NewTemporalRay(o, d, 0)
		mn, mx := 0., 1e6
		if c.Rng.Intn(3) == 0 {
			mn, mx = c.c16range(target.Distance(ray.Origin()))
		}
		r1, r2 := rendering.NewHitRecord(), rendering.NewHitRecord()
		h1 := mesh.Hit(&ray, mn, mx, r1)
		h2 := mesh.Hit2(&ray, mn, mx, r2)
		if h1 {
			c.Note("prims.mesh.hit")
		} else {
			c.Note("prims.mesh.miss")
		}
		c.Emit("c16.mesh.hit", enc+" "+c16rayEnc(&ray, 0, mn, mx), c16hitEncD(h1, r1)+" "+c16hitEncD(h2, r2))
		c.Emit("c16.holds.bvh", "mesh-hit2-vs-hit "+B(h2)+" "+F(r2.Distance)+" "+B(h1)+" "+F(r1.Distance), "true")
	}
}

func (c *Ctx) c16aim(target v3, scale float64) (v3, v3, bool) {
	o := c.c16pv(scale)
	d := target.Sub(o)
	if c.Rng.Intn(4) == 0 {
		o, d = c.c16axisRay(target)
		c.Note("prims.ray.axis")
	}
	if d.Length() < 1e-9 {
		return o, d, false
	}
	return o, d, true
}

func (c *Ctx) c16primSphere() {
	a, b := c.c16pv(10), c.c16pv(10)
	r := 0.2 + c.Rng.Float64()*3
	if c.Rng.Intn(4) == 0 {
		r = float64(1 + c.Rng.Intn(3))
	}
	start, end := 0., 1.
	var sp *rendering.Sphere
	time := 0.
	anim := func(t float64) v3 { return a }
	if c.Rng.Intn(2) == 0 {
		sp = rendering.NewSphere(a, r, nil)
		c.Note("prims.sphere.static")
	} else {
		anim = func(t float64) v3 { return a.Add(b.Sub(a).Scale(t)) }
		sp = rendering.NewAnimatedSphere(r, nil, anim)
		time = c.Rng.Float64()
		if c.Rng.Intn(4) == 0 {
			time = float64(c.Rng.Intn(2))
		}
		c.Note("prims.sphere.animated")
	}
	cs, ce, ct := anim(start), anim(end), anim(time)
	off := vector3.New(c.Rng.NormFloat64(), c.Rng.NormFloat64(), c.Rng.NormFloat64())
	if off.Length() < 1e-9 {
		return
	}
	reach := c.Rng.Float64() * 1.3 // beyond the rim one time in four: misses
	target := ct.Add(off.Normalized().Scale(r * reach))
	o, d, ok := c.c16aim(target, 30)
	if c.Rng.Intn(3) == 0 { // origin inside the sphere: the nearer root is behind the origin, the farther one is reported
		in := vector3.New(c.Rng.NormFloat64(), c.Rng.NormFloat64(), c.Rng.NormFloat64())
		if in.Length() > 1e-9 {
			o = ct.Add(in.Normalized().Scale(r * 0.95 * c.Rng.Float64()))
			d = target.Sub(o)
			ok = d.Length() >= 1e-9
			c.Note("prims.sphere.origin-inside")
		}
	}
	if !ok {
		return
	}
	ray := rendering.NewTemporalRay(o, d, time)
	mn, mx := c.c16range(ct.Distance(ray.Origin()))
	box := sp.BoundingBox(start, end)
	rec := rendering.NewHitRecord()
	hit := sp.Hit(&ray, mn, mx, rec)
	recB := rendering.NewHitRecord()
	hitB := rendering.NewBVHTree([]rendering.Hittable{sp}, 0, 1, start, end).Hit(&ray, mn, mx, recB)
	if hit {
		c.Note("prims.sphere.hit")
	} else {
		c.Note("prims.sphere.miss")
	}
	args := c16v(cs) + " " + c16v(ce) + " " + c16v(ct) + " " + F(r) + " " + c16rayEnc(&ray, time, mn, mx)
	c.Emit("c16.prim.sphere", args, c16box(*box)+" "+c16hitEnc(hit, rec)+" "+c16hitEncD(hitB, recB))
	if hit {
		c.Emit("c16.holds.prim_in_box", "sphere "+c16box(*box)+" "+c16v(rec.Point), "true")
	}
}

func (c *Ctx) c16primRect() {
	p, q := c.c16pv(10), c.c16pv(10)
	bl := vector2.New(math.Min(p.X(), q.X()), math.Min(p.Y(), q.Y()))
	tr := vector2.New(math.Max(p.X(), q.X()), math.Max(p.Y(), q.Y()))
	depth := p.Z()
	rect := rendering.NewXYRectangle(bl, tr, depth, nil)
	w := 1.2 // aim a little beyond the rectangle: misses
	target := vector3.New(
		bl.X()+(tr.X()-bl.X())*(c.Rng.Float64()*w-(w-1)/2),
		bl.Y()+(tr.Y()-bl.Y())*(c.Rng.Float64()*w-(w-1)/2),
		depth)
	if c.Rng.Intn(5) == 0 { // exactly on an edge / corner
		target = vector3.New(bl.X(), bl.Y()+(tr.Y()-bl.Y())*c.Rng.Float64(), depth)
		c.Note("prims.rect.edge")
	}
	o, d, ok := c.c16aim(target, 30)
	if !ok {
		return
	}
	ray := rendering.NewTemporalRay(o, d, 0)
	if ray.Direction().Z() == 0 && ray.Origin().Z() == depth {
		return // 0/0: Go returns true with a NaN distance; NaN payloads are not compared
	}
	if ray.Direction().Z() == 0 {
		c.Note("prims.rect.parallel")
	}
	mn, mx := c.c16range(target.Distance(ray.Origin()))
	box := rect.BoundingBox(0, 0)
	rec := rendering.NewHitRecord()
	hit := rect.Hit(&ray, mn, mx, rec)
	recB := rendering.NewHitRecord()
	hitB := rendering.NewBVHTree([]rendering.Hittable{rect}, 0, 1, 0, 0).Hit(&ray, mn, mx, recB)
	if hit {
		c.Note("prims.rect.hit")
	} else {
		c.Note("prims.rect.miss")
	}
	args := Fs(bl.X(), bl.Y(), tr.X(), tr.Y(), depth) + " " + c16rayEnc(&ray, 0, mn, mx)
	c.Emit("c16.prim.rect", args, c16box(*box)+" "+c16hitEnc(hit, rec)+" "+c16hitEncD(hitB, recB))
	if hit {
		c.Emit("c16.holds.prim_in_box", "rect "+c16box(*box)+" "+c16v(rec.Point), "true")
	}
}

func (c *Ctx) c16primTri() {
	p1, p2, p3 := c.c16pv(10), c.c16pv(10), c.c16pv(10)
	if c.Rng.Intn(5) == 0 { // axis-aligned flat triangle: zero-volume box
		p2 = vector3.New(p2.X(), p2.Y(), p1.Z())
		p3 = vector3.New(p3.X(), p3.Y(), p1.Z())
		c.Note("prims.tri.flat")
	}
	tm := modeling.NewTriangleMesh([]int{0, 1, 2}).
		SetFloat3Attribute(modeling.PositionAttribute, []v3{p1, p2, p3}).
		SetFloat3Attribute(modeling.NormalAttribute, []v3{vector3.Up[float64](), vector3.Up[float64](), vector3.Up[float64]()})
	node := rendering.NewBVHFromMesh(tm, nil)
	w1, w2 := c.Rng.Float64()*1.2-0.1, c.Rng.Float64()*1.2-0.1
	target := p1.Add(p2.Sub(p1).Scale(w1)).Add(p3.Sub(p1).Scale(w2))
	if c.Rng.Intn(6) == 0 { // through a corner / along an edge
		target = p1.Add(p2.Sub(p1).Scale(float64(c.Rng.Intn(2))))
		c.Note("prims.tri.corner")
	}
	o, d, ok := c.c16aim(target, 30)
	if !ok {
		return
	}
	ray := rendering.NewTemporalRay(o, d, 0)
	mn, mx := c.c16range(target.Distance(ray.Origin()))
	box := node.BoundingBox(0, 0)
	rec := rendering.NewHitRecord()
	hit := node.Hit(&ray, mn, mx, rec)
	if hit {
		c.Note("prims.tri.hit")
	} else {
		c.Note("prims.tri.miss")
	}
	args := c16v(p1) + " " + c16v(p2) + " " + c16v(p3) + " " + c16rayEnc(&ray, 0, mn, mx)
	c.Emit("c16.prim.tri", args, c16box(*box)+" "+c16hitEnc(hit, rec))
	if hit {
		c.Emit("c16.holds.prim_in_box", "tri "+c16box(*box)+" "+c16v(rec.Point), "true")
	}
}

// rendering.Tree (NewBVH: an octree, automatic depth, over the items' boxes) — Tree.Hit against the model's treeHit on the
// model octree of the same boxes, and against HitList.Hit.
//   c16.tree.hit <n> (s cs ce ct r | r blx bly trx try depth)… o d time mn mx -> true dist | false
func (c *Ctx) c16primTree() {
	n := 1 + c.Rng.Intn(9)
	t0, t1 := c.c16interval()
	type item struct {
		an   *c16anim
		bl   [2]float64
		tr   [2]float64
		dep  float64
		rect bool
	}
	items := make([]item, n)
	list := make(rendering.HitList, n)
	for i := range items {
		if c.Rng.Intn(4) == 0 {
			p, q := c.c16pv(15), c.c16pv(15)
			it := item{rect: true, dep: p.Z()}
			it.bl = [2]float64{math.Min(p.X(), q.X()), math.Min(p.Y(), q.Y())}
			it.tr = [2]float64{math.Max(p.X(), q.X()), math.Max(p.Y(), q.Y())}
			items[i] = it
			list[i] = rendering.NewXYRectangle(vector2.New(it.bl[0], it.bl[1]), vector2.New(it.tr[0], it.tr[1]), it.dep, nil)
		} else {
			an := c.c16newAnim(c.Rng.Intn(2) == 0)
			items[i] = item{an: &an}
			list[i] = an.sp
		}
	}
	tree := rendering.NewBVH(append([]rendering.Hittable(nil), list...), t0, t1)
	for q := 0; q < 3; q++ {
		time := t0 + (t1-t0)*c.Rng.Float64()
		ti := c.Rng.Intn(n)
		var target v3
		if items[ti].rect {
			it := items[ti]
			target = vector3.New(it.bl[0]+(it.tr[0]-it.bl[0])*c.Rng.Float64(), it.bl[1]+(it.tr[1]-it.bl[1])*c.Rng.Float64(), it.dep)
		} else {
			off := vector3.New(c.Rng.NormFloat64(), c.Rng.NormFloat64(), c.Rng.NormFloat64())
			if off.Length() < 1e-9 {
				continue
			}
			target = items[ti].an.at(time).Add(off.Normalized().Scale(items[ti].an.r * c.Rng.Float64() * 1.2))
		}
		o, d, ok := c.c16aim(target, 40)
		if !ok {
			continue
		}
		ray := rendering.NewTemporalRay(o, d, time)
		bad := false
		for _, it := range items {
			if it.rect && ray.Direction().Z() == 0 && ray.Origin().Z() == it.dep {
				bad = true // 0/0 in XYRectangle.Hit: NaN payloads are not compared
			}
		}
		if bad {
			continue
		}
		mn, mx := 0., 1e6
		if c.Rng.Intn(3) == 0 {
			mn, mx = c.c16range(target.Distance(ray.Origin()))
		}
		parts := make([]string, n)
		for i, it := range items {
			if it.rect {
				parts[i] = "r " + Fs(it.bl[0], it.bl[1], it.tr[0], it.tr[1], it.dep)
			} else {
				parts[i] = "s " + c16v(it.an.at(t0)) + " " + c16v(it.an.at(t1)) + " " + c16v(it.an.at(time)) + " " + F(it.an.r)
			}
		}
		recT, recL := rendering.NewHitRecord(), rendering.NewHitRecord()
		hitT := tree.Hit(&ray, mn, mx, recT)
		hitL := list.Hit(&ray, mn, mx, recL)
		if hitT {
			c.Note("prims.tree.hit")
		} else {
			c.Note("prims.tree.miss")
		}
		c.Emit("c16.tree.hit", fmt.Sprint(n)+" "+strings.Join(parts, " ")+" "+c16rayEnc(&ray, time, mn, mx), c16hitEncD(hitT, recT))
		if mn < mx {
			c.Emit("c16.holds.bvh", "octtree-prims "+B(hitT)+" "+F(recT.Distance)+" "+B(hitL)+" "+F(recL.Distance), "true")
		}
	}
}
