package main

// C05 — OBJ writer / reader: text-exact writer correspondence, reader correspondence on writer output
// and on texts from an OBJ grammar generator, oracle lines for the round trip and for face
// preservation on load→save.  Protocol: see lean/Driver/C05.lean.

import (
	"bytes"
	"fmt"
	"image/color"
	"io"
	"math"
	"os"
	"path/filepath"
	"sort"
	"strconv"
	"strings"

	"github.com/EliCDavis/polyform/formats/obj"
	"github.com/EliCDavis/polyform/modeling"
	"github.com/EliCDavis/vector/vector2"
	"github.com/EliCDavis/vector/vector3"
)

func init() { streams["c05"] = runC05 }

func c05Hs(s string) string { return hx([]byte(s)) }

// ---- scenes -------------------------------------------------------------------------------------

type c05Mat struct {
	name  *string // nil = nil *Material
	count int
}

type c05Mesh struct {
	name string
	idx  []int
	pos  []vector3.Float64 // nil = attribute absent
	uv   []vector2.Float64
	nrm  []vector3.Float64
	mats []c05Mat
}

func (m c05Mesh) mesh(pool map[string]*modeling.Material) modeling.Mesh {
	out := modeling.NewTriangleMesh(m.idx)
	if m.pos != nil {
		out = out.SetFloat3Attribute(modeling.PositionAttribute, m.pos)
	}
	if m.nrm != nil {
		out = out.SetFloat3Attribute(modeling.NormalAttribute, m.nrm)
	}
	if m.uv != nil {
		out = out.SetFloat2Attribute(modeling.TexCoordAttribute, m.uv)
	}
	if len(m.mats) > 0 {
		mm := make([]modeling.MeshMaterial, len(m.mats))
		for i, x := range m.mats {
			mm[i].PrimitiveCount = x.count
			if x.name != nil {
				p, ok := pool[*x.name]
				if !ok {
					p = &modeling.Material{Name: *x.name}
					pool[*x.name] = p
				}
				mm[i].Material = p
			}
		}
		out = out.SetMaterials(mm)
	}
	return out
}

func c05MeshTok(m c05Mesh) string {
	var sb strings.Builder
	fmt.Fprintf(&sb, "%s %d", c05Hs(m.name), len(m.idx))
	for _, i := range m.idx {
		fmt.Fprintf(&sb, " %d", i)
	}
	if m.pos == nil {
		sb.WriteString(" -")
	} else {
		fmt.Fprintf(&sb, " %d", len(m.pos))
		for _, v := range m.pos {
			sb.WriteString(" " + Fs(v.X(), v.Y(), v.Z()))
		}
	}
	if m.uv == nil {
		sb.WriteString(" -")
	} else {
		fmt.Fprintf(&sb, " %d", len(m.uv))
		for _, v := range m.uv {
			sb.WriteString(" " + Fs(v.X(), v.Y()))
		}
	}
	if m.nrm == nil {
		sb.WriteString(" -")
	} else {
		fmt.Fprintf(&sb, " %d", len(m.nrm))
		for _, v := range m.nrm {
			sb.WriteString(" " + Fs(v.X(), v.Y(), v.Z()))
		}
	}
	fmt.Fprintf(&sb, " %d", len(m.mats))
	for _, x := range m.mats {
		if x.name == nil {
			fmt.Fprintf(&sb, " ~ %d", x.count)
		} else {
			fmt.Fprintf(&sb, " %s %d", c05Hs(*x.name), x.count)
		}
	}
	return sb.String()
}

func c05SceneTok(matFile string, ms []c05Mesh) string {
	parts := []string{c05Hs(matFile), fmt.Sprint(len(ms))}
	for _, m := range ms {
		parts = append(parts, c05MeshTok(m))
	}
	return strings.Join(parts, " ")
}

// a read-back ObjMesh in the same token form
func c05FromObj(g obj.ObjMesh) c05Mesh {
	m := g.Mesh
	out := c05Mesh{name: g.Name}
	ix := m.Indices()
	out.idx = make([]int, ix.Len())
	for i := range out.idx {
		out.idx[i] = ix.At(i)
	}
	if m.HasFloat3Attribute(modeling.PositionAttribute) {
		it := m.Float3Attribute(modeling.PositionAttribute)
		out.pos = make([]vector3.Float64, it.Len())
		for i := range out.pos {
			out.pos[i] = it.At(i)
		}
	}
	if m.HasFloat3Attribute(modeling.NormalAttribute) {
		it := m.Float3Attribute(modeling.NormalAttribute)
		out.nrm = make([]vector3.Float64, it.Len())
		for i := range out.nrm {
			out.nrm[i] = it.At(i)
		}
	}
	if m.HasFloat2Attribute(modeling.TexCoordAttribute) {
		it := m.Float2Attribute(modeling.TexCoordAttribute)
		out.uv = make([]vector2.Float64, it.Len())
		for i := range out.uv {
			out.uv[i] = it.At(i)
		}
	}
	for _, mm := range m.Materials() {
		x := c05Mat{count: mm.PrimitiveCount}
		if mm.Material != nil {
			n := mm.Material.Name
			x.name = &n
		}
		out.mats = append(out.mats, x)
	}
	return out
}

func c05ResultTok(gs []obj.ObjMesh, libs []string) string {
	parts := []string{fmt.Sprint(len(gs))}
	for _, g := range gs {
		parts = append(parts, c05MeshTok(c05FromObj(g)))
	}
	parts = append(parts, fmt.Sprint(len(libs)))
	for _, l := range libs {
		parts = append(parts, c05Hs(l))
	}
	return strings.Join(parts, " ")
}

// scalar payload: dyadic values (exactly float32, short decimals), decimal fractions and full-precision
// doubles (need float32 rounding when read back), float32 ties, very large / very small magnitudes
func (c *Ctx) c05F() float64 {
	switch c.Rng.Intn(12) {
	case 8:
		return float64(c.Rng.Intn(20001)-10000) / []float64{10, 100, 1000, 1e6}[c.Rng.Intn(4)]
	case 9:
		return c.Rng.NormFloat64() * []float64{1, 100, 1e-3, 1e6}[c.Rng.Intn(4)]
	case 10:
		return []float64{1 + 1.0/(1<<24), 16777217, 0.1, 1e21, 1e-7, 3.4028234e38, 1e-45, 5e-324, -2.5e-10, 1e23, 123456.789}[c.Rng.Intn(11)]
	case 11:
		return math.Copysign(0, -1)
	case 0:
		return 0
	case 1:
		return float64(c.Rng.Intn(21) - 10)
	case 2:
		return float64(c.Rng.Intn(1<<16)-(1<<15)) / float64(int(1)<<uint(c.Rng.Intn(7)))
	default:
		return float64(c.Rng.Intn(4001)-2000) / float64(int(1)<<uint(c.Rng.Intn(5)))
	}
}

var c05Names = []string{"A", "B", "cube", "mesh_1", "my mesh", "a b c", "x.y", "Default", "G#1"}
var c05MatNames = []string{"red", "blue", "green", "DefaultDiffuse", "Default", "m_1", "shiny.mat"}

func (c *Ctx) c05Partition(nt int) []int {
	k := 1 + c.Rng.Intn(4)
	out := make([]int, k)
	for i := 0; i < nt; i++ {
		out[c.Rng.Intn(k)]++
	}
	return out
}

type c05Opts struct {
	allowMatless   bool // a material-less mesh may follow a mesh with materials
	emptyNotLast   bool
	spacesInMats   bool
	breakStructure bool // not WF: ranges not a partition, index array not a multiple of 3
}

func (c *Ctx) c05Scene(o c05Opts) []c05Mesh {
	n := 1 + c.Rng.Intn(4)
	if c.Rng.Intn(4) == 0 {
		n = 1
	}
	ms := make([]c05Mesh, n)
	seenMat := false
	for k := range ms {
		m := &ms[k]
		m.name = c05Names[c.Rng.Intn(len(c05Names))]
		if (n == 1 && c.Rng.Intn(2) == 0) || c.Rng.Intn(10) == 0 {
			m.name = "" // several meshes with an unnamed one: written as a bare "g "
		}
		nv := 1 + c.Rng.Intn(8)
		nt := 1 + c.Rng.Intn(8)
		if c.Rng.Intn(6) == 0 {
			nt = 1
		}
		if c.Rng.Intn(25) == 0 {
			nt = 150 + c.Rng.Intn(300) // a run of faces long enough to cross a 4 KiB boundary of written text
			c.Note("scene.long-run")
		}
		if k == n-1 && c.Rng.Intn(10) == 0 {
			nt = 0 // an empty mesh in LAST position keeps its group
			c.Note("scene.empty-last")
		}
		m.idx = make([]int, 3*nt)
		identity := c.Rng.Intn(4) == 0
		if identity {
			nv = 3 * nt
			if nv == 0 {
				nv = 1
			}
		}
		for i := range m.idx {
			if identity {
				m.idx[i] = i
			} else {
				m.idx[i] = c.Rng.Intn(nv)
			}
		}
		m.pos = make([]vector3.Float64, nv)
		for i := range m.pos {
			m.pos[i] = vector3.New(c.c05F(), c.c05F(), c.c05F())
			if i > 0 && c.Rng.Intn(5) == 0 {
				m.pos[i] = m.pos[c.Rng.Intn(i)]
			}
		}
		attr := c.Rng.Intn(4)
		if attr&1 != 0 {
			m.uv = make([]vector2.Float64, nv)
			for i := range m.uv {
				m.uv[i] = vector2.New(c.c05F(), c.c05F())
			}
		}
		if attr&2 != 0 {
			m.nrm = make([]vector3.Float64, nv)
			for i := range m.nrm {
				m.nrm[i] = vector3.New(c.c05F(), c.c05F(), c.c05F())
			}
		}
		c.Note(fmt.Sprintf("scene.attrs-%d", attr))
		withMats := c.Rng.Intn(3) != 0
		if !withMats && seenMat && !o.allowMatless {
			withMats = true
		}
		if withMats {
			for _, cnt := range c.c05Partition(nt) {
				x := c05Mat{count: cnt}
				if c.Rng.Intn(8) != 0 {
					nm := c05MatNames[c.Rng.Intn(len(c05MatNames))]
					if o.spacesInMats && c.Rng.Intn(2) == 0 {
						nm = "my " + nm
					}
					x.name = &nm
				}
				if cnt == 0 {
					c.Note("scene.empty-range")
				}
				m.mats = append(m.mats, x)
			}
			seenMat = true
		}
	}
	if o.breakStructure {
		m := &ms[c.Rng.Intn(n)]
		switch c.Rng.Intn(3) {
		case 0:
			if len(m.mats) > 0 {
				m.mats[c.Rng.Intn(len(m.mats))].count += 1 + c.Rng.Intn(2)
				c.Note("scene.range-too-long")
			}
		case 1:
			if len(m.mats) > 0 && len(m.idx) > 0 {
				m.mats = m.mats[:len(m.mats)-1]
				c.Note("scene.range-short")
			}
		default:
			m.idx = append(m.idx, 0)
			c.Note("scene.idx-not-multiple-of-3")
		}
	}
	return ms
}

func c05Write(matFile string, ms []c05Mesh) (string, []byte) {
	var text []byte
	ans := Guard(func() string {
		pool := map[string]*modeling.Material{}
		in := make([]obj.ObjMesh, len(ms))
		for i, m := range ms {
			in[i] = obj.ObjMesh{Name: m.name, Mesh: m.mesh(pool)}
		}
		est := 4096 // a generous estimate of the legitimate text size; 4× that is the cap
		for _, m := range ms {
			est += 64 + 48*(len(m.pos)+len(m.uv)+len(m.nrm)) + 24*len(m.idx) + 40*len(m.mats)
		}
		buf := objstlCapBuffer{Cap: 4 * est}
		err := obj.WriteMeshes(in, matFile, &buf)
		if buf.Overflow {
			return "oversize-output"
		}
		if err != nil {
			return "err"
		}
		text = buf.Bytes()
		return "ok " + hx(text)
	})
	return ans, text
}

func c05Read(text []byte) (string, []obj.ObjMesh) { return c05ReadVia(bytes.NewReader(text)) }

// the same text through the reader family (see util_objstl.go): model line per reader, oracle readers_agree
func (c *Ctx) c05Readers(text []byte, all bool) {
	kinds := objstlReaders
	if !all {
		k := c.Rng.Intn(len(objstlReaders))
		kinds = objstlReaders[k : k+1]
	}
	var as []string
	for _, k := range kinds {
		a, _ := c05ReadVia(k.mk(text))
		c.Emit("c05.read", hx(text), a)
		c.Note("reader." + k.name)
		as = append(as, hx([]byte(a)))
	}
	if all {
		c.Emit("c05.holds.readers_agree", fmt.Sprintf("%d %s", len(as), strings.Join(as, " ")), "true")
	}
}

// the REAL writer on the other end of a pipe: obj.WriteMeshes → io.Pipe → obj.ReadMesh
func (c *Ctx) c05PipeFromWriter(matFile string, ms []c05Mesh, text []byte) {
	pool := map[string]*modeling.Material{}
	in := make([]obj.ObjMesh, len(ms))
	for i, m := range ms {
		in[i] = obj.ObjMesh{Name: m.name, Mesh: m.mesh(pool)}
	}
	pr, pw := io.Pipe()
	go func() {
		defer func() { recover(); pw.Close() }()
		obj.WriteMeshes(in, matFile, pw)
	}()
	a, _ := c05ReadVia(pr)
	c.Emit("c05.read", hx(text), a)
	c.Note("reader.pipe-from-WriteMeshes")
}

func c05ReadVia(in io.Reader) (string, []obj.ObjMesh) {
	defer objstlDrain(in)
	var gs []obj.ObjMesh
	ans := Guard(func() string {
		g, libs, err := obj.ReadMesh(in)
		if err != nil {
			return "err"
		}
		gs = g
		return "ok " + c05ResultTok(g, libs)
	})
	return ans, gs
}

// a read-back group whose normals / uvs are not aligned with its vertices: the text mixed corner shapes
// within one group (finding class, own oracle op)
func c05ResaveOp(gs []obj.ObjMesh) string {
	return "c05.holds.resave"
}

func c05Resave(gs []obj.ObjMesh) (string, []byte) {
	var text []byte
	ans := Guard(func() string {
		est := 4096
		for _, g := range gs {
			est += 64 + 3*48*g.Mesh.AttributeLength() + 24*g.Mesh.Indices().Len() + 40*len(g.Mesh.Materials())
		}
		buf := objstlCapBuffer{Cap: 4 * est}
		err := obj.WriteMeshes(gs, "", &buf)
		if buf.Overflow {
			return c05Hs("oversize-output")
		}
		if err != nil {
			return "err"
		}
		text = buf.Bytes()
		return hx(text)
	})
	return ans, text
}

func (c *Ctx) c05SceneCase(o c05Opts, holds string) {
	ms := c.c05Scene(o)
	matFile := ""
	if c.Rng.Intn(3) == 0 {
		matFile = "scene.mtl"
	}
	scene := c05SceneTok(matFile, ms)
	wans, text := c05Write(matFile, ms)
	c.Emit("c05.write", scene, wans)
	if text == nil {
		c.Note("write." + wans)
		if wans == "oversize-output" { // the writer ran away: nothing that could round-trip
			c.Emit("c05.holds.roundtrip", scene+" 0 0", "true")
		}
		return
	}
	rans, gs := c05Read(text)
	c.Emit("c05.read", hx(text), rans)
	c.c05PipeFromWriter(matFile, ms, text)
	c.c05Readers(text, c.Rng.Intn(8) == 0)
	if gs == nil {
		c.Note("read-of-write." + rans)
		return
	}
	if holds != "" {
		// scenes of the known deviation class (a material-less mesh with faces after a mesh with material
		// ranges) are reported under their own op
		seen := false
		for _, m := range ms {
			if len(m.mats) > 0 {
				seen = true
			} else if seen && len(m.idx) > 0 {
				holds = "c05.holds.roundtrip_matless_after_mat"
				c.Note("scene.matless-after-mat")
				break
			}
		}
		c.Emit(holds, scene+" "+strings.TrimPrefix(rans, "ok "), "true")
		// what the code does exactly (obj_roundtrip_carry): holds for every well-formed scene
		c.Emit("c05.holds.roundtrip_carry", scene+" "+strings.TrimPrefix(rans, "ok "), "true")
	}
	// load → save → load: no face lost or invented
	sans, text2 := c05Resave(gs)
	if text2 != nil {
		c.Emit("c05.holds.resave", hx(text)+" "+sans, "true")
	} else { // saving what was read failed (error, panic, runaway output): the predicate is false
		c.Emit("c05.holds.resave", hx(text)+" "+c05Hs("resave-failed"), "true")
	}
}

// ---- OBJ grammar generator ------------------------------------------------------------------------

func (c *Ctx) c05Num() string {
	switch c.Rng.Intn(10) {
	case 0:
		return fmt.Sprintf("%d", c.Rng.Intn(21)-10)
	case 1:
		return fmt.Sprintf("%d.%d", c.Rng.Intn(100), c.Rng.Intn(1000)) // rounds to float32
	case 2:
		return fmt.Sprintf("-%d.5", c.Rng.Intn(50))
	case 3:
		return fmt.Sprintf("%de%d", 1+c.Rng.Intn(9), c.Rng.Intn(5)-2)
	case 4:
		return []string{"+.5", "-0", "0.0", "1.", "1.0000000596046448", "16777217", "0.1", "1E2", "3.4028234e38", "1e-45"}[c.Rng.Intn(10)]
	default:
		return fmt.Sprintf("%.6f", c.Rng.NormFloat64()*10)
	}
}

func (c *Ctx) c05Sep() string {
	switch c.Rng.Intn(8) {
	case 0:
		return "  "
	case 1:
		return "\t"
	default:
		return " "
	}
}

type c05Gram struct {
	c           *Ctx
	sb          strings.Builder
	nv, nt, nn  int
	crlf        bool
	form        int
	mixForms    bool
	oobRate     int
	faces       int
	malformRate int
}

func (g *c05Gram) line(s string) {
	g.sb.WriteString(s)
	if g.c.Rng.Intn(12) == 0 {
		g.sb.WriteString(" ")
	}
	if g.crlf {
		g.sb.WriteString("\r")
	}
	g.sb.WriteString("\n")
}

func (g *c05Gram) data(k int) {
	c := g.c
	for i := 0; i < k; i++ {
		s := c.c05Sep()
		kind := c.Rng.Intn(3)
		// unless out-of-range indices are wanted, make sure every pool has an entry early on
		if g.oobRate == 0 && g.nv == 0 {
			kind = 0
		} else if g.oobRate == 0 && g.nt == 0 {
			kind = 1
		} else if g.oobRate == 0 && g.nn == 0 {
			kind = 2
		}
		switch kind {
		case 0:
			l := "v" + s + c.c05Num() + s + c.c05Num() + s + c.c05Num()
			if c.Rng.Intn(8) == 0 {
				l += " 1.0" // w component
			}
			g.line(l)
			g.nv++
		case 1:
			l := "vt" + s + c.c05Num() + s + c.c05Num()
			if c.Rng.Intn(8) == 0 {
				l += " 0"
			}
			g.line(l)
			g.nt++
		default:
			g.line("vn" + s + c.c05Num() + s + c.c05Num() + s + c.c05Num())
			g.nn++
		}
	}
}

func (g *c05Gram) idx(n int) int {
	c := g.c
	if g.oobRate > 0 && c.Rng.Intn(g.oobRate) == 0 {
		g.c.Note("text.index-out-of-range")
		return n + 1 + c.Rng.Intn(2)
	}
	if n == 0 {
		return 1 // out of range by construction
	}
	return 1 + c.Rng.Intn(n)
}

func (g *c05Gram) corner() string {
	form := g.form
	if g.mixForms && g.c.Rng.Intn(3) == 0 {
		form = g.c.Rng.Intn(4)
	}
	switch form {
	case 0:
		return fmt.Sprint(g.idx(g.nv))
	case 1:
		return fmt.Sprintf("%d/%d", g.idx(g.nv), g.idx(g.nt))
	case 2:
		return fmt.Sprintf("%d//%d", g.idx(g.nv), g.idx(g.nn))
	default:
		return fmt.Sprintf("%d/%d/%d", g.idx(g.nv), g.idx(g.nt), g.idx(g.nn))
	}
}

func (g *c05Gram) face() {
	s := g.c.c05Sep()
	l := "f" + s + g.corner() + s + g.corner() + s + g.corner()
	if g.c.Rng.Intn(10) == 0 {
		l += " " + g.corner() // a quad: the reader takes the first three corners
		g.c.Note("text.quad")
	}
	g.line(l)
	g.faces++
}

var c05Malformed = []string{"v 1 2", "v 1", "v", "vn 0 1", "vt 1", "f 1 2", "f 1", "f", "usemtl", "g", "mtllib", "v a 2 3", "v 1 2 z",
	"vt x 1", "f 1/x 2 3", "f 1/ 1 1", "f 0 1 1", "f 1 -1 1", "f 1/2/ 1 1", "f x", "v 1e40 0 0", "vn 1 2 0x10", "g  ", "usemtl\t"}

// face lines whose index tokens probe strconv.Atoi (sign, range, junk) and the "/" / "//" splitting
var c05IntFaceLines = []string{"f 9223372036854775807 2 3", "f 9223372036854775808 2 3", "f -9223372036854775808 2 3",
	"f -9223372036854775809 2 3", "f +1 +2 +3", "f 1//+1 2//1 3//1", "f 1_0 2 3", "f 0x1 2 3", "f 1/-9223372036854775808 2/1 3/1",
	"f 1//-9223372036854775808 2//1 3//1", "f 1/99999999999999999999 2 3", "f 001 002 003", "f 1///2 2 3", "f 1//1//x 2//1 3//1",
	"f 1/1/1/9 2/1 3/1", "f / 2 3", "f 1/ 2 3", "f /1 2 3", "f // 2 3", "f 1// 2// 3//", "f 1//1/ 2//1 3//1", "f 1/1// 2 3", "f -0 1 2",
	"f 1/-0/1 2/1/1 3/1/1", "f 1/+1/+1 2/1/1 3/1/1", "f 1/1/1 2/1/1 3/1/00000000000000000000001", "f 1/1/18446744073709551617 2 3",
	"f ١ 2 3", "f 1//1/1 2 3", "f 1/2//3 1 1", "f - 1 1", "f + 1 1", "f 1/+ 1 1", "f 1//- 1 1"}

// strconv.Itoa / strconv.Atoi against the model functions ObjText.showInt / ObjText.parseInt, directly
func (c *Ctx) c05IntOps() {
	ints := []int{0, 1, -1, 9, -9, 10, -10, 99, 100, -100, 4096, 65536, 1000000, 1<<31 - 1, -1 << 31, 1 << 32, 1<<63 - 1, -1 << 63, 1<<63 - 2, -1<<63 + 1,
		999999999999999999, 1000000000000000000, -999999999999999999}
	for k := 0; k < 40; k++ {
		ints = append(ints, int(int64(c.Rng.Uint64())>>uint(c.Rng.Intn(64))))
	}
	for _, n := range ints {
		s := strconv.Itoa(n)
		c.Emit("c05.itoa", fmt.Sprint(n), hx([]byte(s)))
		back, err := strconv.Atoi(s)
		if err != nil || back != n {
			c.Emit("c05.holds.itoa_atoi", hx([]byte(s)), "false")
		}
		c.Note("int.itoa")
	}
	strs := []string{"9223372036854775807", "9223372036854775808", "-9223372036854775808", "-9223372036854775809", "+9223372036854775807",
		"+9223372036854775808", "+1", "-0", "+0", "+", "-", "", "1_0", "0x1", "0b1", "0o7", " 1", "1 ", "１２", "12a", "a12", "1-2", "--1", "+-1", "-+1", "++1",
		"007", "-007", "00000000000000000000000000000000000012", "123456789012345678901234567890", "-123456789012345678901234567890", "1e3", "1.0", "1/2", "/"}
	for k := 0; k < 40; k++ {
		var b strings.Builder
		switch c.Rng.Intn(4) {
		case 0:
			b.WriteByte('-')
		case 1:
			b.WriteByte('+')
		}
		nd := 1 + c.Rng.Intn(24)
		if c.Rng.Intn(3) == 0 {
			nd = 17 + c.Rng.Intn(4) // around the int64 boundary (19 digits)
		}
		for i := 0; i < nd; i++ {
			b.WriteByte(byte('0' + c.Rng.Intn(10)))
		}
		if c.Rng.Intn(8) == 0 {
			b.WriteByte("_x/ +-"[c.Rng.Intn(6)])
		}
		strs = append(strs, b.String())
	}
	for _, s := range strs {
		n, err := strconv.Atoi(s)
		ans := "err"
		if err == nil {
			ans = "ok " + fmt.Sprint(n)
		}
		c.Emit("c05.atoi", hx([]byte(s)), ans)
		c.Note("int.atoi." + ans[:2])
	}
}

func (c *Ctx) c05Text() (string, bool) {
	g := &c05Gram{c: c, crlf: c.Rng.Intn(6) == 0, mixForms: c.Rng.Intn(10) == 0}
	if c.Rng.Intn(6) == 0 {
		g.oobRate = 12
	}
	malformed := c.Rng.Intn(6) == 0
	if c.Rng.Intn(3) == 0 {
		g.line("# a comment")
	}
	if c.Rng.Intn(4) == 0 {
		g.line("mtllib a.mtl" + []string{"", " b.mtl"}[c.Rng.Intn(2)])
	}
	g.data(3 + c.Rng.Intn(8))
	nblocks := 1 + c.Rng.Intn(5)
	g.form = c.Rng.Intn(4)
	for b := 0; b < nblocks; b++ {
		// every arrangement of g / usemtl around a run of faces; the corner form changes only where a new
		// group starts (unless mixForms), so that a group's normals / uvs stay aligned with its vertices
		arrangement := c.Rng.Intn(8)
		if arrangement != 0 && arrangement != 4 && arrangement != 5 {
			g.form = c.Rng.Intn(4)
		}
		switch arrangement {
		case 0: // faces before any g / usemtl
			c.Note("text.bare-faces")
		case 1:
			g.line("g " + c05Names[c.Rng.Intn(len(c05Names))])
		case 2:
			g.line("usemtl " + c05MatNames[c.Rng.Intn(len(c05MatNames))])
			g.line("g " + c05Names[c.Rng.Intn(len(c05Names))])
			c.Note("text.usemtl-before-g")
		case 3:
			g.line("g " + c05Names[c.Rng.Intn(len(c05Names))])
			g.line("usemtl " + c05MatNames[c.Rng.Intn(len(c05MatNames))])
			c.Note("text.usemtl-after-g")
		case 4:
			g.line("usemtl " + c05MatNames[c.Rng.Intn(len(c05MatNames))])
			c.Note("text.usemtl-only")
		case 5:
			g.line("usemtl " + c05MatNames[c.Rng.Intn(len(c05MatNames))])
			g.line("usemtl " + c05MatNames[c.Rng.Intn(len(c05MatNames))])
			c.Note("text.usemtl-twice")
		case 6:
			g.line("g " + c05Names[c.Rng.Intn(len(c05Names))])
			g.line("g " + c05Names[c.Rng.Intn(len(c05Names))])
			c.Note("text.g-twice")
		default:
			g.line("o object")
			g.line("s off")
			g.line("g " + c05Names[c.Rng.Intn(len(c05Names))] + "  extra")
		}
		nf := c.Rng.Intn(5)
		for i := 0; i < nf; i++ {
			switch c.Rng.Intn(12) {
			case 0:
				g.line("")
			case 1:
				g.line("   ")
			case 2:
				g.line("#comment f 1 2 3")
			case 3:
				g.data(1 + c.Rng.Intn(2)) // data interleaved with faces
			case 4:
				g.line("usemtl " + c05MatNames[c.Rng.Intn(len(c05MatNames))])
			}
			g.face()
			if malformed && c.Rng.Intn(6) == 0 {
				g.line(c05Malformed[c.Rng.Intn(len(c05Malformed))])
				c.Note("text.malformed-line")
				malformed = false
			}
		}
	}
	if c.Rng.Intn(5) == 0 {
		g.line("usemtl " + c05MatNames[c.Rng.Intn(len(c05MatNames))]) // trailing usemtl: an empty last range
		c.Note("text.trailing-usemtl")
	}
	if c.Rng.Intn(8) == 0 {
		g.line("g tail") // trailing g: an empty last group
		c.Note("text.trailing-g")
	}
	t := g.sb.String()
	if c.Rng.Intn(5) == 0 {
		t = strings.TrimSuffix(t, "\n") // no newline at end of file
	}
	return t, g.mixForms
}

func (c *Ctx) c05TextCase() {
	t, mixed := c.c05Text()
	text := []byte(t)
	rans, gs := c05Read(text)
	c.Emit("c05.read", hx(text), rans)
	c.c05Readers(text, c.Rng.Intn(8) == 0)
	c.Note("text-read." + strings.SplitN(rans, " ", 2)[0])
	if gs == nil {
		return
	}
	sans, text2 := c05Resave(gs)
	op := c05ResaveOp(gs)
	if mixed && op == "c05.holds.resave" {
		op = "c05.holds.resave_mixed_shapes"
	}
	c.Note("text." + strings.TrimPrefix(op, "c05.holds."))
	if text2 == nil {
		c.Emit(op, hx(text)+" "+c05Hs(sans), "true")
		return
	}
	c.Emit(op, hx(text)+" "+sans, "true")
	// and the second load sees the same faces again
	rans2, gs2 := c05Read(text2)
	c.Emit("c05.read", hx(text2), rans2)
	if gs2 != nil {
		// load → save → load returns the first load's scene (obj_reload: every group has a face)
		allFaces := true
		for _, g := range gs {
			if g.Mesh.PrimitiveCount() == 0 {
				allFaces = false
			}
		}
		if allFaces {
			c.Emit("c05.holds.reload", strings.TrimPrefix(rans, "ok ")+" "+strings.TrimPrefix(rans2, "ok "), "true")
		} else {
			c.Note("text.reload-skipped-empty-group")
		}
		if s3, t3 := c05Resave(gs2); t3 != nil {
			c.Emit(c05ResaveOp(gs2), hx(text2)+" "+s3, "true")
		}
	}
}

// ---- on-disk path: obj.Save / obj.SaveAll (+ .mtl) → obj.Load ------------------------------------------

func c05MatDesc(m *modeling.Material) string {
	if m == nil {
		return "<nil>"
	}
	kd := "-"
	if m.DiffuseColor != nil {
		r, g, b, _ := m.DiffuseColor.RGBA()
		kd = fmt.Sprintf("%d,%d,%d", r>>8, g>>8, b>>8)
	}
	tex := "-"
	if m.ColorTextureURI != nil {
		tex = *m.ColorTextureURI
	}
	return fmt.Sprintf("%s|%g|%s|%s", strings.ReplaceAll(m.Name, " ", ""), m.SpecularHighlight, kd, tex)
}

func c05MatGroups(names []string, meshes []modeling.Mesh, expectNil bool) string {
	parts := []string{fmt.Sprint(len(names))}
	for i, n := range names {
		mm := meshes[i].Materials()
		parts = append(parts, c05Hs(n), fmt.Sprint(meshes[i].PrimitiveCount()), fmt.Sprint(len(mm)))
		for _, x := range mm {
			d := c05MatDesc(x.Material)
			if x.Material == nil && expectNil {
				dm := modeling.DefaultMaterial() // what the writer puts in the .mtl for a nil material
				d = c05MatDesc(&dm)
			}
			parts = append(parts, c05Hs(d), fmt.Sprint(x.PrimitiveCount))
		}
	}
	return strings.Join(parts, " ")
}

// several models saved into ONE directory under base names that end in o, b, j, '.', digits (incl. pairs that
// would collide if the ".obj" suffix were stripped as a character set), ALL saved first, THEN each loaded again
var c05FsNames = []string{"panel_b.obj", "panel_o.obj", "lod0.obj", "lod0b.obj", "lod0j.obj", "a.j.obj", "a.obj", "ab.obj", "obj.obj",
	"bob.obj", "x.o.obj", "model.v2.obj", "job", "nob.obj", "7.obj", "70.obj"}

func (c *Ctx) c05FsDirCase(dir string, round int) {
	sub := filepath.Join(dir, fmt.Sprintf("set_%d", round))
	if err := os.MkdirAll(sub, 0o755); err != nil {
		return
	}
	perm := c.Rng.Perm(len(c05FsNames))
	n := 3 + c.Rng.Intn(4)
	type saved struct {
		path, want string
	}
	var all []saved
	for k := 0; k < n; k++ {
		base := c05FsNames[perm[k]]
		// one mesh, materials unique to THIS model (so that a shared / overwritten .mtl is visible)
		nt := 1 + c.Rng.Intn(5)
		idx := make([]int, 3*nt)
		for j := range idx {
			idx[j] = c.Rng.Intn(4)
		}
		pos := []vector3.Float64{vector3.New(0., 0., float64(k)), vector3.New(1., 0., float64(k)), vector3.New(0., 1., float64(k)), vector3.New(1., 1., float64(k))}
		var mm []modeling.MeshMaterial
		for r, cnt := range c.c05Partition(nt) {
			tex := fmt.Sprintf("t_%d_%d.png", k, r)
			mm = append(mm, modeling.MeshMaterial{PrimitiveCount: cnt, Material: &modeling.Material{
				Name: fmt.Sprintf("m_%s_%d", strings.ReplaceAll(base, ".", "_"), r), SpecularHighlight: float64(20 + 7*k + r),
				DiffuseColor: color.RGBA{R: uint8(255 * (k & 1)), G: uint8(255 * (r & 1)), B: 255, A: 255}, ColorTextureURI: &tex}})
		}
		mesh := modeling.NewTriangleMesh(idx).SetFloat3Attribute(modeling.PositionAttribute, pos).SetMaterials(mm)
		p := filepath.Join(sub, base)
		ok := Guard(func() string {
			if err := obj.Save(p, mesh); err != nil {
				return "save-err"
			}
			return "ok"
		})
		if ok != "ok" {
			c.Emit("c05.holds.fs_materials", c05MatGroups([]string{""}, []modeling.Mesh{mesh}, true)+" "+ok, "true")
			continue
		}
		all = append(all, saved{p, c05MatGroups([]string{""}, []modeling.Mesh{mesh}, true)})
	}
	for _, sv := range all { // only now: load every one of them again
		got := Guard(func() string {
			back, err := obj.Load(sv.path)
			if err != nil {
				return "load-err"
			}
			bn := make([]string, len(back))
			bm := make([]modeling.Mesh, len(back))
			for i, g := range back {
				bn[i], bm[i] = g.Name, g.Mesh
			}
			return c05MatGroups(bn, bm, false)
		})
		c.Emit("c05.holds.fs_materials", sv.want+" "+got, "true")
		c.Note("fs.shared-dir-load")
	}
}

func (c *Ctx) c05FsCase(dir string, k int) {
	// a pool of distinct materials (distinct name, Ns, Kd, texture)
	np := 2 + c.Rng.Intn(3)
	pool := make([]*modeling.Material, np)
	for i := range pool {
		tex := fmt.Sprintf("tex_%d.png", i)
		nm := fmt.Sprintf("mat_%d", i)
		if c.Rng.Intn(2) == 0 { // punctuation, leading digits, unicode: names are opaque to the codec
			nm = []string{"panel#2", "#ff8800", "a.b.c", "9lives", "say\"hi\"", "it's", "naïve-é", "漆", "x:y/z", "a#b#c", "mat(1)", "-dash", "50%", "tab_sep"}[c.Rng.Intn(14)] + fmt.Sprintf("_%d", i)
			c.Note("fs.punctuated-name")
		}
		m := &modeling.Material{Name: nm, SpecularHighlight: float64(10 + i),
			DiffuseColor: color.RGBA{R: uint8(255 * (i & 1)), G: uint8(255 * ((i >> 1) & 1)), B: uint8(255 * ((i >> 2) & 1)), A: 255}}
		if c.Rng.Intn(3) != 0 {
			m.ColorTextureURI = &tex
		}
		pool[i] = m
	}
	n := 1 + c.Rng.Intn(3)
	useSave := c.Rng.Intn(3) == 0
	if useSave {
		n = 1
	}
	names := make([]string, n)
	meshes := make([]modeling.Mesh, n)
	for i := range meshes {
		names[i] = fmt.Sprintf("m%d", i)
		if useSave {
			names[i] = ""
		}
		nt := 1 + c.Rng.Intn(6)
		idx := make([]int, 3*nt)
		for j := range idx {
			idx[j] = c.Rng.Intn(4)
		}
		pos := []vector3.Float64{vector3.New(0., 0., float64(i)), vector3.New(1., 0., float64(i)), vector3.New(0., 1., float64(i)), vector3.New(1., 1., float64(i))}
		var mm []modeling.MeshMaterial
		for _, cnt := range c.c05Partition(nt) {
			x := modeling.MeshMaterial{PrimitiveCount: cnt}
			if c.Rng.Intn(10) != 0 {
				x.Material = pool[c.Rng.Intn(np)]
			} else {
				c.Note("fs.nil-material")
			}
			mm = append(mm, x)
		}
		meshes[i] = modeling.NewTriangleMesh(idx).SetFloat3Attribute(modeling.PositionAttribute, pos).SetMaterials(mm)
	}
	want := c05MatGroups(names, meshes, true)
	objPath := filepath.Join(dir, fmt.Sprintf("scene_%d.obj", k))
	got := Guard(func() string {
		if useSave {
			if err := obj.Save(objPath, meshes[0]); err != nil {
				return "save-err"
			}
			c.Note("fs.save")
		} else {
			in := map[string]modeling.Mesh{}
			for i, nm := range names {
				in[nm] = meshes[i]
			}
			if err := obj.SaveAll(objPath, in); err != nil {
				return "save-err"
			}
			c.Note("fs.saveall")
		}
		back, err := obj.Load(objPath)
		if err != nil {
			return "load-err"
		}
		sort.Slice(back, func(a, b int) bool { return back[a].Name < back[b].Name })
		bn := make([]string, len(back))
		bm := make([]modeling.Mesh, len(back))
		for i, g := range back {
			bn[i], bm[i] = g.Name, g.Mesh
		}
		return c05MatGroups(bn, bm, false)
	})
	c.Emit("c05.holds.fs_materials", want+" "+got, "true")
}

// large scenes / texts with tagged (index-dependent, non-zero) values: thousands of v lines and faces per group,
// sizes around 4096 and (thorough) 65536
func (c *Ctx) c05BigCase(nv, nt int, attr int, ranges int, span int, resave bool) {
	c.Note(fmt.Sprintf("big.nv=%d.nt=%d", nv, nt))
	mk := func(name string, off float64) c05Mesh {
		m := c05Mesh{name: name, idx: make([]int, 3*nt), pos: make([]vector3.Float64, nv)}
		for i := 0; i < nt; i++ {
			m.idx[3*i], m.idx[3*i+1], m.idx[3*i+2] = i%span, (i*7+1)%span, (i*13+2)%span
		}
		for v := range m.pos {
			m.pos[v] = vector3.New(float64(v+1)+off, float64(v+1)*0.5, -float64(v+1)-0.25)
		}
		if attr&1 != 0 {
			m.uv = make([]vector2.Float64, nv)
			for v := range m.uv {
				m.uv[v] = vector2.New(float64(v+1)*0.25, float64(v%17)+off+1)
			}
		}
		if attr&2 != 0 {
			m.nrm = make([]vector3.Float64, nv)
			for v := range m.nrm {
				m.nrm[v] = vector3.New(float64(v%7+1), float64(v%5)-2.5, float64(v+1))
			}
		}
		if ranges > 0 {
			left := nt
			for r := 0; r < ranges; r++ {
				cnt := left / (ranges - r)
				nm := fmt.Sprintf("mat_%d", r%3)
				m.mats = append(m.mats, c05Mat{name: &nm, count: cnt})
				left -= cnt
			}
		}
		return m
	}
	small := c05Mesh{name: "first", idx: []int{0, 1, 2}, pos: []vector3.Float64{vector3.New(9., 9., 9.), vector3.New(8., 8., 8.), vector3.New(7., 7., 7.)}}
	if ranges > 0 {
		nm := "mat_0"
		small.mats = []c05Mat{{name: &nm, count: 1}}
	}
	ms := []c05Mesh{small, mk("big", 0), mk("big2", 0.5)}
	scene := c05SceneTok("", ms)
	wans, text := c05Write("", ms)
	c.Emit("c05.write", scene, wans)
	if text == nil {
		if wans == "oversize-output" {
			c.Emit("c05.holds.roundtrip", scene+" 0 0", "true")
		}
		return
	}
	rans, gs := c05Read(text)
	c.Emit("c05.read", hx(text), rans)
	if nt <= 5000 {
		c.c05PipeFromWriter("", ms, text)
		c.c05Readers(text, true)
	}
	if gs == nil {
		return
	}
	c.Emit("c05.holds.roundtrip", scene+" "+strings.TrimPrefix(rans, "ok "), "true")
	if !resave {
		return // the oracle's list-based pools make it quadratic on very long v sections
	}
	if sans, text2 := c05Resave(gs); text2 != nil {
		c.Emit("c05.holds.resave", hx(text)+" "+sans, "true")
	} else {
		c.Emit("c05.holds.resave", hx(text)+" "+c05Hs("resave-failed"), "true")
	}
}

func runC05(c *Ctx) {
	// every attribute combination with runs of 150–700 faces (whole mesh and per material range): written f text
	// crosses 4096-byte boundaries several times, the largest also 65536
	for attr := 0; attr < 4; attr++ {
		c.c05BigCase(40+c.Rng.Intn(60), 150+c.Rng.Intn(300), attr, 0, 40, true)
		c.c05BigCase(40+c.Rng.Intn(60), 500+c.Rng.Intn(250), attr, 2+c.Rng.Intn(2), 40, true)
	}
	c.c05BigCase(300, 3000, 1, 1, 300, true) // uv only, one range of 3000 faces (> 65536 bytes of f text)
	c.c05BigCase(1500, 5000, 3, 3, 1500, true) // quick and thorough: ~5000 faces per group, > 4096 v lines in the file
	if c.Tier == "thorough" {
		c.c05BigCase(4097, 4096, 0, 0, 4097, true)
		c.c05BigCase(4096, 4097, 1, 2, 4096, true)
		c.c05BigCase(5000, 8192, 2, 5, 5000, true)
		c.c05BigCase(70000, 66000, 3, 4, 2000, false) // > 65536 v lines per mesh and > 65536 faces per group
	}
	if dir, err := os.MkdirTemp("", "verif-c05-"); err == nil {
		nfs := c.N / 3
		if nfs > 600 {
			nfs = 600
		}
		for k := 0; k < nfs; k++ {
			c.c05FsCase(dir, k)
			if k%5 == 0 {
				c.c05FsDirCase(dir, k)
			}
		}
		os.RemoveAll(dir)
	} else {
		c.Note("fs.mkdirtemp-failed")
	}
	// fixed witnesses of the two known deviation classes, every run
	red := "red"
	tri := func(name string, off float64, mats []c05Mat) c05Mesh {
		return c05Mesh{name: name, idx: []int{0, 1, 2}, mats: mats,
			pos: []vector3.Float64{vector3.New(off, 0., 0.), vector3.New(off, 1., 0.), vector3.New(off, 0., 1.)}}
	}
	{
		ms := []c05Mesh{tri("A", 0, []c05Mat{{&red, 1}}), tri("B", 1, nil)}
		_, text := c05Write("", ms)
		rans, _ := c05Read(text)
		c.Emit("c05.holds.roundtrip_matless_after_mat", c05SceneTok("", ms)+" "+strings.TrimPrefix(rans, "ok "), "true")
		ms = []c05Mesh{tri("A", 0, nil), {name: "E", idx: []int{}}, tri("B", 1, nil)}
		_, text = c05Write("", ms)
		rans, _ = c05Read(text)
		c.Emit("c05.holds.roundtrip_empty_mesh_not_last", c05SceneTok("", ms)+" "+strings.TrimPrefix(rans, "ok "), "true")
	}
	{
		text := []byte("v 0 0 0\nv 1 0 0\nv 0 1 0\nvn 0 0 1\nf 1//1 2//1 3//1\nf 1 2 3\n")
		_, gs := c05Read(text)
		sans, _ := c05Resave(gs)
		c.Emit("c05.holds.resave_mixed_shapes", hx(text)+" "+sans, "true")
	}
	{
		// corpus: faces before the first g, then a named group — the unnamed group is saved as a bare "g "
		text := []byte("v 0 0 0\nv 1 0 0\nv 0 1 0\nf 1 2 3\ng a\nf 3 2 1\ng\nf 2 3 1\n")
		rans, gs := c05Read(text)
		c.Emit("c05.read", hx(text), rans)
		sans, text2 := c05Resave(gs)
		c.Emit("c05.holds.resave", hx(text)+" "+sans, "true")
		rans2, _ := c05Read(text2)
		c.Emit("c05.read", hx(text2), rans2)
	}
	for _, t := range c05Malformed {
		rans, _ := c05Read([]byte("v 0 0 0\nv 1 0 0\nv 0 1 0\nvt 0 0\nvn 0 0 1\nf 1 2 3\n" + t + "\nf 3 2 1\n"))
		c.Emit("c05.read", hx([]byte("v 0 0 0\nv 1 0 0\nv 0 1 0\nvt 0 0\nvn 0 0 1\nf 1 2 3\n"+t+"\nf 3 2 1\n")), rans)
	}
	// integer tokens at the int64 boundaries and in every sign / separator shape: ties ObjText.parseCorner / parseInt
	for _, t := range c05IntFaceLines {
		text := []byte("v 0 0 0\nv 1 0 0\nv 0 1 0\nvt 0 0\nvn 0 0 1\nf 1 2 3\n" + t + "\nf 3 2 1\n")
		rans, _ := c05Read(text)
		c.Emit("c05.read", hx(text), rans)
	}
	c.c05IntOps()
	for k := 0; k < c.N; k++ {
		c.c05SceneCase(c05Opts{}, "c05.holds.roundtrip")
		c.c05TextCase()
		switch k % 6 {
		case 0:
			c.c05SceneCase(c05Opts{allowMatless: true}, "c05.holds.roundtrip")
		case 1:
			c.c05SceneCase(c05Opts{spacesInMats: true}, "")
		case 2:
			c.c05SceneCase(c05Opts{breakStructure: true}, "")
		}
	}
}
