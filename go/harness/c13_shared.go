// Stream "c13", families added after the seeded changes C13-m16 / C13-m17 were missed.
//
// ERR family   graphs whose interior nodes are SHARED by >= 2 producers and whose Process() returns an ERROR
//              (next to another value) depending on the parameter values: model node
//              `E salt fail ns sc*ns na (len id*len)*na` (value h of an S node; if h % fail == 0 the processor
//              returns ((h*7+3) % M, error)).  nodes.Struct stores the value returned next to the error and bumps
//              its version all the same, so for the model a failing processor is just another function.
// STL family   the repo's real chain parameter.File -> stl.ReadNode (model node `R`) -> 2..3 stl.ArtifactNode
//              (model node `B`, identity).  Code 2k = the binary STL of one triangle of scale k, code 2k+1 = the
//              same file cut 20 bytes short (ReadMesh fails: the read node yields the empty mesh = code 0 and an error).
// TYPED family parameters of every Value type (int, float64, string, bool, vector3, []vector3 = Vector3Array),
//              each behind an adapter node (model `B`) that decodes the typed value into its code; every
//              Vector3Array parameter also feeds a KEEPER producer whose artifact keeps the slice it was given
//              (as basics.Binary keeps its bytes).  Updates include REJECTED messages of every kind (bad JSON,
//              wrong type in the first / middle / last element, wrong arity) after earlier accepted ones.
//
// Per graph a sequential run and a concurrent history:
//
//	c13.seqx <graph> K <call>*K                    model line; block per call: <resp> pv <Version() of every parameter>
//	                                               sv <Version() of every struct node> mv <ModelVersion()>
//	c13.holds.artifact_snapshot <graph> K (<call> <resp>)*K
//	                                               oracle: every artifact of the sequential run equals the from-scratch
//	                                               evaluation (Spec) of the ONE parameter valuation current at the call;
//	                                               ParameterData = the last accepted value; a rejected update changes nothing
//	c13.holds.rejected_message_noop M (<before> <after>)*M
//	                                               oracle: digests of the ParameterData bytes / written artifact bytes read
//	                                               last before and first after a rejected update (no accepted update between)
//	c13.holds.results_immutable K (<dRet> <dLater>)*K   results (ParameterData bytes, artifacts) KEPT across later updates, re-digested
//	c13.holds.linearizable <graph> E <event>*E     the concurrent history (clients read the producers one after another after updates)
//
// Owner: C13.
package main

import (
	"bytes"
	"encoding/json"
	"errors"
	"fmt"
	"io"
	"os"
	"runtime"
	"sort"
	"strconv"
	"strings"
	"sync"
	"sync/atomic"
	"time"

	"github.com/EliCDavis/polyform/formats/stl"
	"github.com/EliCDavis/polyform/generator/artifact"
	"github.com/EliCDavis/polyform/generator/parameter"
	"github.com/EliCDavis/polyform/modeling"
	"github.com/EliCDavis/polyform/nodes"
	"github.com/EliCDavis/vector/vector3"
)

const c13Bad = 999999999 // a value no code has: an inconsistent (mixed) typed value, unknown bytes

func c13Failing(h int, fail int) (int, error) {
	if fail > 0 && h%fail == 0 {
		return int((int64(h)*7 + 3) % c13M), errors.New("c13: processor failed on this input")
	}
	return h, nil
}

// ---- typed values ------------------------------------------------------------------------------------

const (
	c13TInt = iota // parameter.Value[int] (the families of c13.go)
	c13TFloat
	c13TString
	c13TBool
	c13TVec3
	c13TVec3Arr
	c13TFile // STL family
)

var c13TypNames = []string{"int", "float64", "string", "bool", "vector3", "vector3array", "file"}

func c13EncVec(n int) vector3.Float64 {
	return vector3.New(float64(n), float64(n+1), float64(2*n))
}
func c13DecVec(v vector3.Float64) int {
	n := int(v.X())
	if n < 0 || v.X() != float64(n) || v.Y() != float64(n+1) || v.Z() != float64(2*n) {
		return c13Bad
	}
	return n
}
func c13EncArr(n int) []vector3.Float64 {
	l := 1 + n%4
	out := make([]vector3.Float64, l)
	for i := range out {
		out[i] = vector3.New(float64(n), float64(i), float64(l))
	}
	return out
}
func c13DecArr(a []vector3.Float64) int {
	if len(a) == 0 {
		return c13Bad
	}
	n := int(a[0].X())
	if n < 0 || len(a) != 1+n%4 {
		return c13Bad
	}
	for i, e := range a {
		if e.X() != float64(n) || e.Y() != float64(i) || e.Z() != float64(len(a)) {
			return c13Bad
		}
	}
	return n
}
func c13DecString(s string) int {
	if !strings.HasPrefix(s, "s") {
		return c13Bad
	}
	n, err := strconv.Atoi(s[1:])
	if err != nil || n < 0 {
		return c13Bad
	}
	return n
}
func c13DecFloat(x float64) int {
	n := int(x - 0.5)
	if n < 0 || float64(n)+0.5 != x {
		return c13Bad
	}
	return n
}

// the typed value of code n, as the Go value a parameter of that type holds
func c13Enc(typ, n int) any {
	switch typ {
	case c13TFloat:
		return float64(n) + 0.5
	case c13TString:
		return "s" + itoa(n)
	case c13TBool:
		return n%2 == 1
	case c13TVec3:
		return c13EncVec(n)
	case c13TVec3Arr:
		return c13EncArr(n)
	}
	return n
}

func c13JSON(typ, n int) []byte {
	data, err := json.Marshal(c13Enc(typ, n))
	if err != nil {
		panic(err)
	}
	return data
}

// code of the JSON ParameterData returned
func c13DecJSON(typ int, data []byte) int {
	bad := func(err error) bool { return err != nil }
	switch typ {
	case c13TFloat:
		var x float64
		if bad(json.Unmarshal(data, &x)) {
			return c13Bad
		}
		return c13DecFloat(x)
	case c13TString:
		var x string
		if bad(json.Unmarshal(data, &x)) {
			return c13Bad
		}
		return c13DecString(x)
	case c13TBool:
		var x bool
		if bad(json.Unmarshal(data, &x)) {
			return c13Bad
		}
		if x {
			return 1
		}
		return 0
	case c13TVec3:
		var x vector3.Float64
		if bad(json.Unmarshal(data, &x)) {
			return c13Bad
		}
		return c13DecVec(x)
	case c13TVec3Arr:
		var x []vector3.Float64
		if bad(json.Unmarshal(data, &x)) {
			return c13Bad
		}
		return c13DecArr(x)
	}
	n, err := strconv.Atoi(string(data))
	if err != nil || n < 0 {
		return c13Bad
	}
	return n
}

// messages a parameter of the type must REJECT (UpdateParameter returns an error; nothing may change).
// `n` = a fresh code (what the message would have written had it been well typed).
func c13RejectPayloads(typ, n int) []string {
	generic := []string{"{", "[", "", "12x", `[{"x":1,"y":2,"z":3},`, `{"x":1,"y":2,"z":3`, `nul`}
	el := func(x, y, z string) string { return `{"x":` + x + `,"y":` + y + `,"z":` + z + `}` }
	switch typ {
	case c13TVec3Arr:
		n4 := n - n%4 + 3 // four elements
		e := func(i int) string { return el(itoa(n4), itoa(i), "4") }
		return append(generic,
			"["+el(`"oops"`, "0", "4")+","+e(1)+","+e(2)+","+e(3)+"]", // wrong type in the FIRST element
			"["+e(0)+","+el(`"oops"`, "1", "4")+","+e(2)+","+e(3)+"]", // second
			"["+e(0)+","+e(1)+","+el(itoa(n4), `"oops"`, "4")+","+e(3)+"]", // a middle one, second field
			"["+e(0)+","+e(1)+","+e(2)+","+el(itoa(n4), "3", `"oops"`)+"]", // the LAST element, last field
			"["+e(0)+","+e(1)+","+e(2)+",7]",                              // last element a number
			"["+e(0)+",["+itoa(n4)+",1,4],"+e(2)+","+e(3)+"]",             // wrong arity: an element given as an array
			"["+e(0)+","+e(1)+",true]",                                    // shorter, last element a bool
			"["+e(0)+`,"x"]`,
			e(0),  // one element, not an array
			"5",   // a number
			`"s"`, // a string
		)
	case c13TVec3:
		return append(generic, el(`"a"`, "1", "2"), el(itoa(n), `"b"`, "2"), el(itoa(n), itoa(n+1), `"c"`), "["+itoa(n)+",1,2]", "5", `"x"`, "true")
	case c13TFloat:
		return append(generic, `"x"`, "[1.5]", "{}", "true")
	case c13TString:
		return append(generic, "5", `["s1"]`, "{}", "true")
	case c13TBool:
		return append(generic, "1", `"true"`, "[true]", "{}")
	}
	return append(generic, "1.5", `"x"`, "[1]", "true")
}

// adapters: typed value -> its code (model: identity node `B`)
type c13AdFloat struct{ In nodes.NodeOutput[float64] }
type c13AdString struct{ In nodes.NodeOutput[string] }
type c13AdBool struct{ In nodes.NodeOutput[bool] }
type c13AdVec struct {
	In nodes.NodeOutput[vector3.Float64]
}
type c13AdArr struct {
	In nodes.NodeOutput[[]vector3.Float64]
}

func (a c13AdFloat) Process() (int, error)  { return c13DecFloat(a.In.Value()), nil }
func (a c13AdString) Process() (int, error) { return c13DecString(a.In.Value()), nil }
func (a c13AdBool) Process() (int, error) {
	if a.In.Value() {
		return 1, nil
	}
	return 0, nil
}
func (a c13AdVec) Process() (int, error) { return c13DecVec(a.In.Value()), nil }
func (a c13AdArr) Process() (int, error) { return c13DecArr(a.In.Value()), nil }

// the keeper: an artifact that KEEPS the points it was given and writes them on demand
type c13PathArt struct{ pts []vector3.Float64 }

func (pa c13PathArt) Write(w io.Writer) error {
	for _, p := range pa.pts {
		if _, err := fmt.Fprintf(w, "(%g %g %g)", p.X(), p.Y(), p.Z()); err != nil {
			return err
		}
	}
	return nil
}
func (c13PathArt) Mime() string { return "text/plain" }

type c13Keeper struct {
	Path nodes.NodeOutput[[]vector3.Float64]
}

func (k c13Keeper) Process() (artifact.Artifact, error) { return c13PathArt{pts: k.Path.Value()}, nil }

// ---- STL payloads -----------------------------------------------------------------------------------------

func c13StlGood(k int) []byte {
	s := float64(k)
	m := modeling.NewTriangleMesh([]int{0, 1, 2}).SetFloat3Attribute(modeling.PositionAttribute, []vector3.Float64{
		vector3.New(0., 0., 0.), vector3.New(s, 0., 0.), vector3.New(0., s, 0.)})
	buf := &bytes.Buffer{}
	if err := stl.WriteMesh(buf, m); err != nil {
		panic(err)
	}
	return buf.Bytes()
}

var c13StlEmpty = func() []byte {
	buf := &bytes.Buffer{}
	if err := stl.WriteMesh(buf, modeling.EmptyMesh(modeling.TriangleTopology)); err != nil {
		panic(err)
	}
	return buf.Bytes()
}()

// upload of code n: even = good STL of scale n/2, odd = the same cut 20 bytes short; registered for decoding
func (b *c13Built) stlUpload(n int) []byte {
	good := c13StlGood(n / 2)
	b.codes[string(good)] = n - n%2
	if n%2 == 0 {
		return good
	}
	cut := append([]byte{}, good[:len(good)-20]...)
	b.codes[string(cut)] = n
	return cut
}

func (b *c13Built) stlCode(data []byte) int {
	if n, ok := b.codes[string(data)]; ok {
		return n
	}
	return c13Bad
}

// ---- building the special nodes (called from c13BuildOpt) ---------------------------------------------------

func c13BuildSpecial(b *c13Built, i int, d c13Desc, addProducer func(string, nodes.NodeOutput[artifact.Artifact]), prodName func(int) string) bool {
	switch {
	case d.param && d.typ == c13TInt:
		return false
	case d.param:
		b.pars = append(b.pars, i)
		switch d.typ {
		case c13TFloat:
			p := &parameter.Float64{Name: "t" + itoa(i), DefaultValue: c13Enc(d.typ, d.def).(float64)}
			b.all[i], b.touts[i] = p, nodes.NodeOutput[float64](p)
		case c13TString:
			p := &parameter.String{Name: "t" + itoa(i), DefaultValue: c13Enc(d.typ, d.def).(string)}
			b.all[i], b.touts[i] = p, nodes.NodeOutput[string](p)
		case c13TBool:
			p := &parameter.Bool{Name: "t" + itoa(i), DefaultValue: c13Enc(d.typ, d.def).(bool)}
			b.all[i], b.touts[i] = p, nodes.NodeOutput[bool](p)
		case c13TVec3:
			p := &parameter.Vector3{Name: "t" + itoa(i), DefaultValue: c13EncVec(d.def)}
			b.all[i], b.touts[i] = p, nodes.NodeOutput[vector3.Float64](p)
		case c13TVec3Arr:
			p := &parameter.Vector3Array{Name: "t" + itoa(i), DefaultValue: c13EncArr(d.def)}
			b.all[i], b.touts[i] = p, nodes.NodeOutput[[]vector3.Float64](p)
		case c13TFile:
			b.codes[string(c13StlEmpty)] = 0
			p := &parameter.File{Name: "t" + itoa(i), DefaultValue: b.stlUpload(d.def)}
			b.all[i], b.touts[i] = p, p.Out()
		default:
			panic("c13: parameter type")
		}
		return true
	case d.stlrd:
		n := &stl.ReadNode{Data: stl.ReadNodeData{Data: b.touts[d.sc[0]].(nodes.NodeOutput[[]byte])}}
		b.all[i], b.touts[i] = n, n.Out()
		b.strs = append(b.strs, i)
		return true
	case d.ident && d.prod:
		var out nodes.NodeOutput[artifact.Artifact]
		switch src := b.touts[d.sc[0]].(type) {
		case nodes.NodeOutput[modeling.Mesh]:
			n := &stl.ArtifactNode{Data: stl.ArtifactNodeData{In: src}}
			b.all[i], out = n, n.Out()
		case nodes.NodeOutput[[]vector3.Float64]:
			n := &nodes.Struct[artifact.Artifact, c13Keeper]{Data: c13Keeper{Path: src}}
			b.all[i], out = n, n.Out()
		default:
			panic("c13: identity producer over an unsupported output")
		}
		b.names[i] = prodName(i)
		addProducer(b.names[i], out)
		b.prods = append(b.prods, i)
		return true
	case d.ident:
		switch src := b.touts[d.sc[0]].(type) {
		case nodes.NodeOutput[float64]:
			n := &nodes.Struct[int, c13AdFloat]{Data: c13AdFloat{In: src}}
			b.all[i], b.outs[i] = n, n.Out()
		case nodes.NodeOutput[string]:
			n := &nodes.Struct[int, c13AdString]{Data: c13AdString{In: src}}
			b.all[i], b.outs[i] = n, n.Out()
		case nodes.NodeOutput[bool]:
			n := &nodes.Struct[int, c13AdBool]{Data: c13AdBool{In: src}}
			b.all[i], b.outs[i] = n, n.Out()
		case nodes.NodeOutput[vector3.Float64]:
			n := &nodes.Struct[int, c13AdVec]{Data: c13AdVec{In: src}}
			b.all[i], b.outs[i] = n, n.Out()
		case nodes.NodeOutput[[]vector3.Float64]:
			n := &nodes.Struct[int, c13AdArr]{Data: c13AdArr{In: src}}
			b.all[i], b.outs[i] = n, n.Out()
		default:
			panic("c13: adapter over an unsupported output")
		}
		b.strs = append(b.strs, i)
		return true
	}
	return false
}

// ---- graphs ----------------------------------------------------------------------------------------------

// shared layer + producers: `shared` nodes each feed >= 2 of the 2..3 producers
func c13AddProducers(c *Ctx, g []c13Desc, shared []int, level int) []c13Desc {
	nprod := 2 + c.Rng.Intn(2)
	pool := []int{}
	for i, d := range g {
		if d.param && d.typ != c13TInt {
			continue // typed outputs are reachable through their adapters only
		}
		if d.stlrd || (d.ident && d.prod) {
			continue
		}
		pool = append(pool, i)
	}
	for j := 0; j < nprod; j++ {
		d := c13Desc{salt: 1 + c.Rng.Intn(1000), hasXs: c.Rng.Intn(2) == 0, yield: c.Rng.Intn(3) == 0, prod: true, level: level}
		k := 2 + c.Rng.Intn(3)
		if !d.hasXs && k > 2 {
			k = 2
		}
		// every producer reads a shared node; which one rotates so that each shared node has >= 2 consumers when possible
		c13Wire(c, &d, pool, shared[(j/2)%len(shared)], k)
		g = append(g, d)
	}
	return g
}

// unreachable nodes would get no id from AddProducer: hang them into the array port of a producer that has one
func c13Reach(g []c13Desc) []c13Desc {
	reach := make([]bool, len(g))
	var mark func(i int)
	mark = func(i int) {
		if reach[i] {
			return
		}
		reach[i] = true
		for _, d := range g[i].deps() {
			mark(d)
		}
	}
	sink := -1
	for i, d := range g {
		if d.prod {
			mark(i)
			if sink < 0 && !d.ident {
				sink = i
			}
		}
	}
	if sink >= 0 && !g[sink].hasXs {
		// a 2-port producer cannot take more: turn it into the 4-port + array shape (same ports A, B)
		g[sink].hasXs = true
		g[sink].sc = append(g[sink].sc, -1, -1)
	}
	for i := len(g) - 1; i >= 0; i-- {
		if !reach[i] && sink >= 0 && i < sink && !(g[i].param && g[i].typ != c13TInt) && !g[i].stlrd {
			g[sink].xs = append(g[sink].xs, i)
			mark(i)
		}
	}
	for i := range g {
		if !reach[i] {
			return nil
		}
	}
	return g
}

// ERR family: 1..3 int parameters; a first level of 1..3 FAILING nodes; sometimes a second level; 2..3 producers over shared nodes
func c13GenErrGraph(c *Ctx) []c13Desc {
	for {
		var g []c13Desc
		np := 1 + c.Rng.Intn(3)
		for i := 0; i < np; i++ {
			g = append(g, c13Desc{param: true, def: i*10 + c.Rng.Intn(10)})
		}
		prev := []int{}
		for i := 0; i < np; i++ {
			prev = append(prev, i)
		}
		levels := 1 + c.Rng.Intn(2)
		for l := 1; l <= levels; l++ {
			cnt := 1 + c.Rng.Intn(2)
			pool := make([]int, len(g))
			for i := range pool {
				pool[i] = i
			}
			var cur []int
			for j := 0; j < cnt; j++ {
				d := c13Desc{salt: 1 + c.Rng.Intn(1000), hasXs: c.Rng.Intn(2) == 0, yield: c.Rng.Intn(3) == 0, level: l}
				if c.Rng.Intn(4) > 0 {
					d.fail = 2 + c.Rng.Intn(2)
				}
				k := 1 + c.Rng.Intn(3)
				if !d.hasXs && k > 2 {
					k = 2
				}
				c13Wire(c, &d, pool, prev[c.Rng.Intn(len(prev))], k)
				cur = append(cur, len(g))
				g = append(g, d)
			}
			prev = cur
		}
		g = c13AddProducers(c, g, prev, levels+1)
		if g = c13Reach(g); g != nil {
			return g
		}
	}
}

// STL family: File -> stl.ReadNode -> 2..3 stl.ArtifactNode
func c13GenStlGraph(c *Ctx) []c13Desc {
	g := []c13Desc{
		{param: true, typ: c13TFile, def: 2*(1+c.Rng.Intn(9)) + c.Rng.Intn(2)},
		{stlrd: true, sc: []int{0}, level: 1},
	}
	for j := 0; j < 2+c.Rng.Intn(2); j++ {
		g = append(g, c13Desc{ident: true, prod: true, sc: []int{1}, level: 2})
	}
	return g
}

// TYPED family: one parameter of each of 2..6 types (always a Vector3Array), an adapter per typed parameter, a
// level of int nodes over the adapters, 2..3 producers over shared nodes, a keeper producer per Vector3Array
func c13GenTypedGraph(c *Ctx) []c13Desc {
	for {
		typs := []int{c13TVec3Arr}
		for _, t := range c.Rng.Perm(6) {
			if len(typs) < 2+c.Rng.Intn(4) {
				typs = append(typs, t) // a second Vector3Array is possible
			}
		}
		c.Rng.Shuffle(len(typs), func(i, j int) { typs[i], typs[j] = typs[j], typs[i] })
		var g []c13Desc
		for i, t := range typs {
			d := c13Desc{param: true, typ: t, def: i*10 + c.Rng.Intn(10)}
			if t == c13TBool {
				d.def = c.Rng.Intn(2)
			}
			g = append(g, d)
		}
		var ints []int // nodes with an int output
		for i, t := range typs {
			if t == c13TInt {
				ints = append(ints, i)
				continue
			}
			ints = append(ints, len(g))
			g = append(g, c13Desc{ident: true, sc: []int{i}, level: 1})
		}
		var shared []int
		for j := 0; j < 1+c.Rng.Intn(2); j++ {
			d := c13Desc{salt: 1 + c.Rng.Intn(1000), hasXs: c.Rng.Intn(2) == 0, yield: c.Rng.Intn(3) == 0, level: 2}
			if c.Rng.Intn(3) == 0 {
				d.fail = 2 + c.Rng.Intn(2)
			}
			k := 2 + c.Rng.Intn(2)
			if !d.hasXs && k > 2 {
				k = 2
			}
			c13Wire(c, &d, ints, ints[c.Rng.Intn(len(ints))], k)
			shared = append(shared, len(g))
			g = append(g, d)
		}
		g = c13AddProducers(c, g, shared, 3)
		for i, t := range typs {
			if t == c13TVec3Arr {
				g = append(g, c13Desc{ident: true, prod: true, sc: []int{i}, level: 3})
			}
		}
		if g = c13Reach(g); g != nil {
			return g
		}
	}
}

// ---- calls ----------------------------------------------------------------------------------------------

func (b *c13Built) payloadX(k c13Call) []byte {
	if k.p == c13Unknown || !b.g[k.p].param || b.g[k.p].typ == c13TInt {
		return k.payload()
	}
	typ := b.g[k.p].typ
	if k.kind == 'b' {
		ps := c13RejectPayloads(typ, k.v)
		return []byte(ps[k.w%len(ps)])
	}
	if typ == c13TFile {
		return b.stlUpload(k.v)
	}
	return c13JSON(typ, k.v)
}

// what a client keeps of a result
type c13Kept struct {
	redigest func() string
	tResp    int64
	dRet     string
	dLast    string
}

func (h *c13Kept) recheck() {
	if d := h.redigest(); d != h.dRet {
		h.dLast = d
	}
}

func c13Written(a artifact.Artifact) []byte {
	buf := &bytes.Buffer{}
	if a == nil {
		return []byte("nil-artifact")
	}
	if err := a.Write(buf); err != nil {
		return []byte("write-error:" + err.Error())
	}
	return buf.Bytes()
}

// respX: the response token of a call (decoded at return time) and what the client keeps of the result (nil = nothing)
func (b *c13Built) respX(k c13Call, r c13Raw) (string, *c13Kept) {
	if r.panicked {
		return "err", nil
	}
	switch k.kind {
	case 'u', 'b':
		if r.ok && r.err == nil {
			return "ok", nil
		}
		return "err", nil
	case 'd':
		data := r.data
		n := c13Bad
		if b.g[k.p].typ == c13TFile {
			n = b.stlCode(data)
		} else {
			n = c13DecJSON(b.g[k.p].typ, data)
		}
		kept := &c13Kept{redigest: func() string { return c13Digest(data) }}
		return "v " + itoa(n), kept
	}
	art := r.art
	n := c13Bad
	switch a := art.(type) {
	case c13Art:
		n = a.v
	case c13PathArt:
		n = c13DecArr(a.pts)
	case stl.Artifact:
		n = b.stlCode(c13Written(a))
	}
	if n < 0 {
		n = c13Bad
	}
	return "v " + itoa(n), &c13Kept{redigest: func() string { return c13Digest(c13Written(art)) }}
}

// a fresh value for parameter p
func (b *c13Built) freshValue(c *Ctx, p int, next *int) int {
	v := *next
	*next++
	switch b.g[p].typ {
	case c13TBool:
		return v % 2
	case c13TFile:
		return 2*v + c.Rng.Intn(2) // every other upload is cut short
	}
	return v
}

func (b *c13Built) genUpdate(c *Ctx, next *int, rejectPct int) c13Call {
	p := b.pars[c.Rng.Intn(len(b.pars))]
	// the Vector3Array / File parameters get more than their share
	for tries := 0; tries < 2 && b.g[p].typ != c13TVec3Arr && b.g[p].typ != c13TFile && b.g[p].typ != c13TInt; tries++ {
		p = b.pars[c.Rng.Intn(len(b.pars))]
	}
	k := c13Call{kind: 'u', p: p, v: b.freshValue(c, p, next)}
	if b.g[p].typ != c13TFile && c.Rng.Intn(100) < rejectPct {
		k.kind, k.w = 'b', c.Rng.Intn(1000)
	}
	return k
}

// ---- sequential run ----------------------------------------------------------------------------------------

func c13SeqX(c *Ctx, fam string, g []c13Desc) {
	b := c13Build(g)
	gstr := c13GraphString(g)
	K := 8 + c.Rng.Intn(28)
	next := 1000
	rejectPct := 0
	if fam == "typed" {
		rejectPct = 30
	}
	var queue []c13Call
	readAll := func() {
		for _, pi := range c.Rng.Perm(len(b.prods)) {
			queue = append(queue, c13Call{kind: 'a', p: b.prods[pi]})
		}
	}
	if c.Rng.Intn(5) > 0 {
		readAll() // every producer has a cached output before the first update
	}
	type rec struct {
		k    c13Call
		resp string
		dig  string // digest of the raw bytes at return time ("" for updates)
	}
	var recs []rec
	var calls, blocks, pairs []string
	var kept []*c13Kept
	accepted := 0
	for j := 0; j < K || len(queue) > 0; j++ {
		var k c13Call
		if len(queue) > 0 {
			k, queue = queue[0], queue[1:]
		} else {
			switch r := c.Rng.Intn(100); {
			case r < 45:
				k = b.genUpdate(c, &next, rejectPct)
				if accepted == 0 && k.kind == 'b' && c.Rng.Intn(3) > 0 {
					k.kind = 'u' // rejected messages mostly AFTER an accepted one
				}
				if k.kind == 'b' {
					// the parameter and every producer are read right before and right after the rejected message
					queue = append(queue, c13Call{kind: 'd', p: k.p})
					readAll()
					queue = append(queue, k, c13Call{kind: 'd', p: k.p})
					readAll()
					k, queue = queue[0], queue[1:]
				} else if c.Rng.Intn(10) < 7 {
					readAll() // the producers one after the other after the update
					if c.Rng.Intn(2) == 0 {
						queue = append(queue, c13Call{kind: 'd', p: k.p})
					}
				}
			case r < 55:
				k = c13Call{kind: 'd', p: b.pars[c.Rng.Intn(len(b.pars))]}
			default:
				k = c13Call{kind: 'a', p: b.prods[c.Rng.Intn(len(b.prods))]}
			}
		}
		raw := b.invoke(k, b.payloadX(k))
		resp, h := b.respX(k, raw)
		for _, old := range kept {
			old.recheck()
		}
		dig := ""
		if h != nil {
			h.dRet = h.redigest()
			h.dLast = h.dRet
			h.tResp = int64(j)
			kept = append(kept, h)
			dig = h.dRet
		}
		if k.kind == 'u' && resp == "ok" {
			accepted++
			c.Note(fam + ".seq.update-accepted." + c13TypNames[g[k.p].typ])
		}
		if k.kind == 'b' {
			c.Note(fam + ".seq.update-rejected." + c13TypNames[g[k.p].typ])
			if accepted > 0 {
				c.Note(fam + ".seq.update-rejected-after-an-accepted-one")
			}
		}
		recs = append(recs, rec{k, resp, dig})
		var blk strings.Builder
		blk.WriteString(resp + " pv")
		for _, p := range b.pars {
			blk.WriteString(" " + itoa(b.all[p].Version()))
		}
		blk.WriteString(" sv")
		for i, d := range g {
			if !d.param {
				blk.WriteString(" " + itoa(b.all[i].Version()))
			}
		}
		blk.WriteString(" mv " + strconv.FormatUint(uint64(b.inst.ModelVersion()), 10))
		calls = append(calls, k.String())
		blocks = append(blocks, blk.String())
		pairs = append(pairs, k.String()+" "+resp)
	}
	// one more accepted, SHORT update of every parameter, then look at everything kept once more
	for _, p := range b.pars {
		v := b.freshValue(c, p, &next)
		if g[p].typ == c13TVec3Arr {
			v -= v % 4 // one element
		}
		k := c13Call{kind: 'u', p: p, v: v}
		if r := b.invoke(k, b.payloadX(k)); !r.ok || r.err != nil {
			panic("c13: final update rejected")
		}
	}
	changed := 0
	for _, h := range kept {
		h.recheck()
		if h.dLast != h.dRet {
			changed++
		}
	}
	c.Note(fam + ".seq.lines")
	c.notes[fam+".seq.kept-results"] += len(kept)
	c.notes[fam+".seq.kept-results-that-changed"] += changed
	// failing nodes actually hit? (ERR: sv tells; here only the shape)
	c.Emit("c13.seqx", gstr+" "+itoa(len(calls))+" "+strings.Join(calls, " "), strings.Join(blocks, " "))
	c.Emit("c13.holds.artifact_snapshot", gstr+" "+itoa(len(pairs))+" "+strings.Join(pairs, " "), "true")
	var im []string
	for _, h := range kept {
		im = append(im, h.dRet, h.dLast)
	}
	c.Emit("c13.holds.results_immutable", strings.TrimSpace(itoa(len(kept))+" "+strings.Join(im, " ")), "true")
	// rejected messages: last read before / first read after, per observed object, with no accepted update in between
	var noop []string
	for j, r := range recs {
		if r.k.kind != 'b' || r.resp != "err" {
			continue
		}
		before := map[string]string{}
		for i := j - 1; i >= 0; i-- {
			q := recs[i]
			if q.k.kind == 'u' && q.resp == "ok" {
				break
			}
			key := q.k.String()
			if q.dig != "" && before[key] == "" {
				before[key] = q.dig
			}
		}
		seen := map[string]bool{}
		for i := j + 1; i < len(recs); i++ {
			q := recs[i]
			if q.k.kind == 'u' && q.resp == "ok" {
				break
			}
			key := q.k.String()
			if q.dig != "" && before[key] != "" && !seen[key] {
				seen[key] = true
				noop = append(noop, before[key], q.dig)
			}
		}
	}
	if len(noop) > 0 {
		c.notes[fam+".seq.observations-around-rejected-messages"] += len(noop) / 2
		c.Emit("c13.holds.rejected_message_noop", itoa(len(noop)/2)+" "+strings.Join(noop, " "), "true")
	}
}

// ---- concurrent history --------------------------------------------------------------------------------------

func c13HistoryX(c *Ctx, fam string, g []c13Desc, clients int, fixedProcs bool) {
	b := c13Build(g)
	gstr := c13GraphString(g)
	next := 1000
	rejectPct := 0
	if fam == "typed" {
		rejectPct = 20
	}
	plan := make([][]c13Call, clients)
	readAll := func(t int) {
		for _, pi := range c.Rng.Perm(len(b.prods)) {
			plan[t] = append(plan[t], c13Call{kind: 'a', p: b.prods[pi]})
		}
	}
	for t := range plan {
		if t == 0 || c.Rng.Intn(3) == 0 {
			readAll(t)
		}
		n := 1 + c.Rng.Intn(6)
		for j := 0; j < n; j++ {
			k := c13Call{yield: c.Rng.Intn(4) == 0}
			switch r := c.Rng.Intn(100); {
			case r < 35:
				k = b.genUpdate(c, &next, rejectPct)
			case r < 48:
				k.kind, k.p = 'd', b.pars[c.Rng.Intn(len(b.pars))]
			default:
				k.kind, k.p = 'a', b.prods[c.Rng.Intn(len(b.prods))]
			}
			plan[t] = append(plan[t], k)
		}
		if t == 0 || c.Rng.Intn(3) == 0 {
			// an update, then the producers one after another
			k := b.genUpdate(c, &next, 0)
			plan[t] = append(plan[t], k)
			readAll(t)
		}
	}
	payload := make([][][]byte, clients)
	total := 0
	for t := range plan {
		for _, k := range plan[t] {
			payload[t] = append(payload[t], b.payloadX(k))
		}
		total += len(plan[t])
	}
	if total > 60 {
		c.Note(fam + ".hist.ops>60")
	}
	if !fixedProcs {
		old := runtime.GOMAXPROCS(c13Procs[c.Rng.Intn(len(c13Procs))])
		defer runtime.GOMAXPROCS(old)
	}
	var ctr atomic.Int64
	recs := make([][]c13Rec, clients)
	kept := make([][]*c13Kept, clients)
	start := make(chan struct{})
	var wg sync.WaitGroup
	for t := 0; t < clients; t++ {
		wg.Add(1)
		go func(t int) {
			defer wg.Done()
			<-start
			for j, k := range plan[t] {
				if k.yield {
					runtime.Gosched()
				}
				tInv := ctr.Add(1)
				raw := b.invoke(k, payload[t][j])
				tResp := ctr.Add(1)
				resp, h := b.respX(k, raw)
				for _, old := range kept[t] {
					old.recheck()
				}
				if h != nil {
					h.dRet = h.redigest()
					h.dLast = h.dRet
					h.tResp = tResp
					kept[t] = append(kept[t], h)
				}
				recs[t] = append(recs[t], c13Rec{tInv: tInv, tResp: tResp, tid: t, call: k, resp: resp})
			}
		}(t)
	}
	done := make(chan struct{})
	go func() { wg.Wait(); close(done) }()
	close(start)
	select {
	case <-done:
	case <-time.After(120 * time.Second):
		fmt.Fprintln(os.Stderr, "c13: clients did not finish within 120 s (deadlock?) on graph", gstr)
		os.Exit(3)
	}
	for _, p := range b.pars {
		v := b.freshValue(c, p, &next)
		if g[p].typ == c13TVec3Arr {
			v -= v % 4
		}
		k := c13Call{kind: 'u', p: p, v: v}
		if r := b.invoke(k, b.payloadX(k)); !r.ok || r.err != nil {
			panic("c13: final update rejected")
		}
	}
	var allKept []*c13Kept
	for _, hs := range kept {
		for _, h := range hs {
			h.recheck()
			allKept = append(allKept, h)
		}
	}
	sort.Slice(allKept, func(i, j int) bool { return allKept[i].tResp < allKept[j].tResp })
	var ops []c13Rec
	for _, r := range recs {
		ops = append(ops, r...)
	}
	sort.Slice(ops, func(i, j int) bool { return ops[i].tInv < ops[j].tInv })
	type ev struct {
		t   int64
		txt string
	}
	var evs []ev
	for id, o := range ops {
		evs = append(evs, ev{o.tInv, "i " + itoa(id) + " " + itoa(o.tid) + " " + o.call.String()})
		evs = append(evs, ev{o.tResp, "r " + itoa(id) + " " + o.resp})
	}
	sort.Slice(evs, func(i, j int) bool { return evs[i].t < evs[j].t })
	parts := make([]string, len(evs))
	for i, e := range evs {
		parts[i] = e.txt
	}
	c.Note(fam + ".hist.lines")
	c.Note(fam + ".hist.clients=" + fmt.Sprintf("%02d", clients))
	c.notes[fam+".hist.ops"] += total
	c.notes[fam+".hist.kept-results"] += len(allKept)
	c.Emit("c13.holds.linearizable", gstr+" "+itoa(len(parts))+" "+strings.Join(parts, " "), "true")
	var im []string
	for _, h := range allKept {
		im = append(im, h.dRet, h.dLast)
	}
	c.Emit("c13.holds.results_immutable", strings.TrimSpace(itoa(len(allKept))+" "+strings.Join(im, " ")), "true")
}

var c13XClients = []int{1, 2, 2, 3, 4}

// n/10 graphs per family (at least 6), each with one sequential run and one concurrent history
func c13Shared(c *Ctx, fixedProcs bool) {
	n := c.N / 10
	if n < 6 {
		n = 6
	}
	for i := 0; i < n; i++ {
		for _, fam := range []string{"err", "stl", "typed"} {
			gen := map[string]func(*Ctx) []c13Desc{"err": c13GenErrGraph, "stl": c13GenStlGraph, "typed": c13GenTypedGraph}[fam]
			g := gen(c)
			c13SeqX(c, fam, g)
			c13HistoryX(c, fam, g, c13XClients[c.Rng.Intn(len(c13XClients))], fixedProcs)
		}
	}
}
