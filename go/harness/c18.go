// Engine H, property C18: solid primitives (UV sphere welded/unwelded, hemisphere, cylinder, box welded /
// six quads).  Calls the real constructors of modeling/primitives and emits, per case,
//
//	model lines   c18.tris / c18.nv / c18.pos / c18.nrm / c18.merge   (answered by PolyVerif.Solids)
//	oracle lines  c18.holds.{closed_mod_merge, closed_by_position, outward, volume, normals_outward}
//	              carrying the implementation's own mesh
//
// <kind> <params> ::= sphere R C | sphereu R C | hemi R C | cyl S noTop noBottom | cubew | cubeq
// Lists are length-prefixed (`n x1 ... xn`), float64 as 16 hex digits.
package main

import (
	"math"
	"sort"
	"strconv"
	"strings"

	"github.com/EliCDavis/polyform/modeling"
	"github.com/EliCDavis/polyform/modeling/primitives"
	"github.com/EliCDavis/polyform/nodes"
	"github.com/EliCDavis/vector/vector2"
	"github.com/EliCDavis/vector/vector3"
)

func init() { streams["c18"] = runC18 }

// vertices above which position-carrying model lines (pos, nrm, merge, normals_outward) are not sent
const c18PosLimit = 3000

type c18Mesh struct {
	panicked bool
	idx      []int
	pos      []vector3.Float64
	nrm      []vector3.Float64 // nil when the mesh carries no normals
}

// a constructed mesh kept alive for the history replay (c18ReplayHistory)
type c18Kept struct {
	cs   c18Case
	mesh modeling.Mesh
}

var c18History []c18Kept

func c18Build(f func() modeling.Mesh) (c18Mesh, *modeling.Mesh) {
	var mesh modeling.Mesh
	if Guard(func() string {
		mesh = f()
		return "ok"
	}) == "panic" {
		return c18Mesh{panicked: true}, nil
	}
	return c18Read(mesh), &mesh
}

// c18Read reads indices / positions / normals out of a mesh NOW (used right after construction and again, later, on kept meshes)
func c18Read(m modeling.Mesh) c18Mesh {
	var r c18Mesh
	if Guard(func() string {
		ix := m.Indices()
		r.idx = make([]int, ix.Len())
		for i := range r.idx {
			r.idx[i] = ix.At(i)
		}
		p := m.Float3Attribute(modeling.PositionAttribute)
		r.pos = make([]vector3.Float64, p.Len())
		for i := range r.pos {
			r.pos[i] = p.At(i)
		}
		if m.HasFloat3Attribute(modeling.NormalAttribute) {
			n := m.Float3Attribute(modeling.NormalAttribute)
			r.nrm = make([]vector3.Float64, n.Len())
			for i := range r.nrm {
				r.nrm[i] = n.At(i)
			}
		}
		return "ok"
	}) == "panic" {
		return c18Mesh{panicked: true}
	}
	return r
}

func c18Ints(xs []int) string {
	b := make([]byte, 0, 8+6*len(xs))
	b = strconv.AppendInt(b, int64(len(xs)), 10)
	for _, x := range xs {
		b = append(b, ' ')
		b = strconv.AppendInt(b, int64(x), 10)
	}
	return string(b)
}

func c18AppendF(b []byte, f float64) []byte {
	const hexd = "0123456789abcdef"
	u := math.Float64bits(f)
	for s := 60; s >= 0; s -= 4 {
		b = append(b, hexd[(u>>uint(s))&15])
	}
	return b
}

func c18V3s(vs []vector3.Float64) string {
	b := make([]byte, 0, 8+51*len(vs))
	b = strconv.AppendInt(b, int64(3*len(vs)), 10)
	for _, v := range vs {
		b = append(b, ' ')
		b = c18AppendF(b, v.X())
		b = append(b, ' ')
		b = c18AppendF(b, v.Y())
		b = append(b, ' ')
		b = c18AppendF(b, v.Z())
	}
	return string(b)
}

// class representatives by position: c_v = the smallest vertex id w with |pos[w]-pos[v]| <= 1e-9*size.
// Uniform grid of cell 1e-6*size, 27-cell neighbourhood, exact distance test.
func c18Classes(pos []vector3.Float64, size float64) []int {
	tol := 1e-9 * size
	cell := 1e-6 * size
	type key [3]int64
	grid := map[key][]int{}
	cls := make([]int, len(pos))
	for v, p := range pos {
		k := key{int64(math.Floor(p.X() / cell)), int64(math.Floor(p.Y() / cell)), int64(math.Floor(p.Z() / cell))}
		best := v
		for dx := int64(-1); dx <= 1; dx++ {
			for dy := int64(-1); dy <= 1; dy++ {
				for dz := int64(-1); dz <= 1; dz++ {
					for _, w := range grid[key{k[0] + dx, k[1] + dy, k[2] + dz}] {
						if w >= best {
							break // ids are inserted in increasing order
						}
						if pos[w].Distance(p) <= tol {
							best = w
							break
						}
					}
				}
			}
		}
		cls[v] = best
		grid[k] = append(grid[k], v)
	}
	return cls
}

type c18Case struct {
	kind    string    // sphere, sphereu, hemi, cyl, cubew, cubeq
	params  string    // "R C" | "S noTop noBottom" | ""
	scalars []float64 // radius | radius height | w h d
	size    float64   // length scale for the coincidence tolerance
	admit   bool      // the parameters are admissible (constructor expected to return)
	withPos bool      // the model has positions / a merge map for this variant
	withNrm bool      // the model has supplied normals for this variant
	solid   bool      // emit the closedness / outwardness / volume oracles
	huge    bool      // > 100000 vertices: sampled position / outward lines + the full volume oracle (quick), everything (thorough)
	node    string    // built through a node wrapper: "<sphere|hemi|cyl|cube> <port tokens>" ('-' = port not connected); the
	//                   model then ALSO derives constructor, parameters and scalars itself from the ports (c18.nodetris/nodenv/nodepos)
	build func() modeling.Mesh
}

// port tokens of the node lines: '-' when the port is not connected
func c18PortInt(set bool, v int) string {
	if !set {
		return "-"
	}
	return strconv.Itoa(v)
}
func c18PortFloat(set bool, v float64) string {
	if !set {
		return "-"
	}
	return F(v)
}
func c18PortBool(set bool, v bool) string {
	if !set {
		return "-"
	}
	return c18B01(v)
}

func c18Join(parts ...string) string {
	out := make([]string, 0, len(parts))
	for _, p := range parts {
		if p != "" {
			out = append(out, p)
		}
	}
	return strings.Join(out, " ")
}

func (c *Ctx) c18Emit(cs c18Case) {
	m, kept := c18Build(cs.build)
	if kept != nil && len(m.pos) <= 1200 && len(c18History) < 400 && c.count%7 == 0 {
		// keep every few small meshes alive; they are re-read and re-checked after all later constructor calls
		c18History = append(c18History, c18Kept{cs: cs, mesh: *kept})
	}
	c.c18EmitMesh(cs, m)
}

// c18ReplayHistory re-reads every kept mesh (built earlier, before many other constructor calls with other parameters)
// and emits all its lines again: a constructor that shares state between calls (pooled buffers, caches) shows up as a
// model mismatch / oracle failure on an EARLIER result
func (c *Ctx) c18ReplayHistory() {
	h := c18History
	c18History = nil
	for _, k := range h {
		c.Note("history.replayed")
		c.c18EmitMesh(k.cs, c18Read(k.mesh))
	}
}

func (c *Ctx) c18EmitMesh(cs c18Case, m c18Mesh) {
	kp := c18Join(cs.kind, cs.params)
	sc := Fs(cs.scalars...)
	if cs.node != "" {
		// the wrapper's defaults / clamps / choice of constructor are the MODEL's here (Model/SolidsNodes.lean, proved equal
		// to the Process() bodies regenerated from the source): the request carries only the connected ports
		nk, ports, _ := strings.Cut(cs.node, " ")
		c.Note("nodeline." + nk)
		if m.panicked {
			c.Emit("c18.nodetris."+nk, ports, "panic")
		} else {
			c.Emit("c18.nodetris."+nk, ports, c18Ints(m.idx))
			c.Emit("c18.nodenv."+nk, ports, strconv.Itoa(len(m.pos)))
			if cs.admit && cs.withPos && len(m.pos) <= c18PosLimit {
				c.Emit("c18.nodepos."+nk, ports, c18V3s(m.pos))
			}
		}
	}
	if m.panicked {
		c.Emit("c18.tris."+cs.kind, cs.params, "panic")
		c.Note(cs.kind + ".panic")
		return
	}
	c.Emit("c18.tris."+cs.kind, cs.params, c18Ints(m.idx))
	c.Emit("c18.nv."+cs.kind, cs.params, strconv.Itoa(len(m.pos)))
	if !cs.admit {
		// the model says `panic` but the implementation returned: the tris line above already differs
		c.Note(cs.kind + ".returned-on-inadmissible")
		return
	}
	c.Note(cs.kind + ".admissible")
	if cs.huge {
		c.c18EmitHuge(cs, m, kp, sc)
		if c.Tier != "thorough" {
			return
		}
	}
	small := len(m.pos) <= c18PosLimit
	if !small {
		c.Note("large")
	}
	var cls []int
	if cs.withPos {
		cls = c18Classes(m.pos, cs.size)
		merged := 0
		for v, w := range cls {
			if v != w {
				merged++
			}
		}
		if merged > 0 {
			c.Note(cs.kind + ".has-merged-vertices")
		}
	}
	if cs.withPos && small {
		c.Emit("c18.pos."+cs.kind, c18Join(cs.params, sc), c18V3s(m.pos))
		if cs.withNrm && m.nrm != nil {
			c.Emit("c18.nrm."+cs.kind, c18Join(cs.params, sc), c18V3s(m.nrm))
		}
		c.Emit("c18.merge."+cs.kind, cs.params, c18Ints(cls))
	}
	if !cs.solid {
		return
	}
	idx := c18Ints(m.idx)
	pos := c18V3s(m.pos)
	c.Emit("c18.holds.closed_mod_merge", c18Join(kp, idx), "true")
	if len(m.idx) <= 6000 {
		// one umbrella per merged vertex + connected (quadratic predicate: moderate sizes only)
		c.Emit("c18.holds.manifold", c18Join(kp, idx), "true")
	}
	c.Emit("c18.holds.closed_by_position", c18Join(c18Ints(cls), idx), "true")
	c.Emit("c18.holds.outward", c18Join(kp, sc, pos, idx), "true")
	c.Emit("c18.holds.volume", c18Join(kp, sc, pos, idx), "true")
	if cs.withNrm && m.nrm != nil && small {
		c.Emit("c18.holds.normals_outward", c18Join(kp, pos, c18V3s(m.nrm), idx), "true")
	}
}

// c18EmitHuge: for a mesh of > 100000 vertices: positions of SAMPLED vertices (several complete rings + random ones) against
// the model, the outward predicate on SAMPLED triangles (every 53rd + those touching the sampled rings' first vertices),
// and the full volume oracle
func (c *Ctx) c18EmitHuge(cs c18Case, m c18Mesh, kp, sc string) {
	c.Note("huge")
	nv := len(m.pos)
	seen := map[int]bool{}
	var ids []int
	add := func(v int) {
		if v >= 0 && v < nv && !seen[v] {
			seen[v] = true
			ids = append(ids, v)
		}
	}
	add(0)
	add(nv - 1)
	// complete stretches of 400 consecutive vertices at 12 places (a ring of a 363-column sphere has 363 vertices)
	for k := 0; k < 12; k++ {
		start := c.Rng.Intn(nv)
		if k < 4 {
			start = []int{1, nv / 2, nv - 401, nv / 3}[k]
		}
		for j := 0; j < 400; j++ {
			add(start + j)
		}
	}
	for k := 0; k < 800; k++ {
		add(c.Rng.Intn(nv))
	}
	sort.Ints(ids)
	ps := make([]vector3.Float64, len(ids))
	for i, v := range ids {
		ps[i] = m.pos[v]
	}
	c.Emit("c18.possample."+cs.kind, c18Join(cs.params, sc, c18Ints(ids)), c18V3s(ps))
	// sampled triangles with their positions
	var tri []vector3.Float64
	nt := len(m.idx) / 3
	for t := 0; t < nt; t++ {
		a, b, d := m.idx[3*t], m.idx[3*t+1], m.idx[3*t+2]
		if t%53 == 0 || seen[a] && seen[b] && seen[d] {
			if a < nv && b < nv && d < nv && a >= 0 && b >= 0 && d >= 0 {
				tri = append(tri, m.pos[a], m.pos[b], m.pos[d])
			}
		}
	}
	c.Emit("c18.holds.outward_sample", c18Join(kp, sc, c18V3s(tri)), "true")
	c.Emit("c18.holds.volume", c18Join(kp, sc, c18V3s(m.pos), c18Ints(m.idx)), "true")
}

// log-uniform in [0.01, 100]
func (c *Ctx) c18Len() float64 {
	return math.Exp(math.Log(0.01) + c.Rng.Float64()*(math.Log(100)-math.Log(0.01)))
}

func (c *Ctx) c18UV(rows, cols int, radius float64) {
	admit := rows >= 2 && cols >= 3
	p := strconv.Itoa(rows) + " " + strconv.Itoa(cols)
	sc := []float64{radius}
	c.c18Emit(c18Case{kind: "sphere", params: p, scalars: sc, size: radius, admit: admit, withPos: true, withNrm: true, solid: true,
		build: func() modeling.Mesh { return primitives.UVSphere(radius, rows, cols) }})
	c.c18Emit(c18Case{kind: "sphereu", params: p, scalars: sc, size: radius, admit: admit, withPos: true, solid: true,
		build: func() modeling.Mesh { return primitives.UVSphereUnwelded(radius, rows, cols) }})
	// Hemisphere.UV never reads the Capped field (the cap fan is always emitted): both settings must give the model's mesh
	capped := (rows+cols)%2 == 0
	if !capped {
		c.Note("hemi.capped-false")
	}
	c.c18Emit(c18Case{kind: "hemi", params: p, scalars: sc, size: radius, admit: admit, withPos: true, solid: true,
		build: func() modeling.Mesh { return primitives.Hemisphere{Radius: radius, Capped: capped}.UV(rows, cols) }})
}

func c18CylUVs() *primitives.CylinderUVs {
	return &primitives.CylinderUVs{
		Top:    &primitives.CircleUVs{Center: vector2.New(0.25, 0.25), Radius: 0.25},
		Bottom: &primitives.CircleUVs{Center: vector2.New(0.75, 0.25), Radius: 0.25},
		Side:   &primitives.StripUVs{Start: vector2.New(0., 0.75), End: vector2.New(1., 0.75), Width: 0.5},
	}
}

func c18B01(b bool) string {
	if b {
		return "1"
	}
	return "0"
}

func (c *Ctx) c18Cyl(sides int, noTop, noBottom, uvs bool, radius, height float64) {
	both := !noTop && !noBottom
	cyl := primitives.Cylinder{Sides: sides, Height: height, Radius: radius, NoTop: noTop, NoBottom: noBottom}
	if uvs {
		// UV options never influence indices / positions / normals: all parts, or (rotating) a single part only
		u := c18CylUVs()
		switch c.Rng.Intn(4) {
		case 1:
			u = &primitives.CylinderUVs{Top: u.Top}
			c.Note("uvs.top-only")
		case 2:
			u = &primitives.CylinderUVs{Bottom: u.Bottom}
			c.Note("uvs.bottom-only")
		case 3:
			u = &primitives.CylinderUVs{Side: u.Side}
			c.Note("uvs.side-only")
		}
		cyl.UVs = u
		c.Note("uvs")
	}
	if noTop {
		c.Note("cyl.notop")
	}
	if noBottom {
		c.Note("cyl.nobottom")
	}
	c.c18Emit(c18Case{kind: "cyl", params: strconv.Itoa(sides) + " " + c18B01(noTop) + " " + c18B01(noBottom),
		// Circle.ToMesh (one per cap present) panics below 3 sides; the side mesh alone (a pipe) is never rejected
		scalars: []float64{radius, height}, size: math.Max(radius, height), admit: sides >= 3 || (noTop && noBottom),
		withPos: both, withNrm: both, solid: both && sides >= 3,
		build: func() modeling.Mesh { return cyl.ToMesh() }})
}

func (c *Ctx) c18Box(w, h, d float64, uvs bool) {
	cube := primitives.Cube{Height: h, Width: w, Depth: d}
	if uvs {
		cube.UVs = primitives.DefaultCubeUVs()
		c.Note("uvs")
	}
	sc := []float64{w, h, d}
	size := math.Max(w, math.Max(h, d))
	c.c18Emit(c18Case{kind: "cubew", scalars: sc, size: size, admit: true, withPos: true, withNrm: true, solid: true,
		build: func() modeling.Mesh { return cube.Welded() }})
	c.c18Emit(c18Case{kind: "cubeq", scalars: sc, size: size, admit: true, withPos: true, withNrm: true, solid: true,
		build: func() modeling.Mesh { return cube.UnweldedQuads() }})
}

// the node wrappers with all inputs unset (their documented defaults) and UnitCube: same ops, default parameters
func (c *Ctx) c18Defaults() {
	c.Note("node-defaults")
	c.c18Emit(c18Case{kind: "sphere", params: "10 10", scalars: []float64{0.5}, size: 0.5, admit: true, withPos: true, withNrm: true, solid: true,
		node:  "sphere - - - -",
		build: func() modeling.Mesh { m, _ := primitives.UvSphereNodeData{}.Process(); return m }})
	c.c18Emit(c18Case{kind: "hemi", params: "20 20", scalars: []float64{0.5}, size: 0.5, admit: true, withPos: true, solid: true,
		node:  "hemi - - - -",
		build: func() modeling.Mesh { m, _ := primitives.HemisphereNodeData{}.Process(); return m }})
	c.c18Emit(c18Case{kind: "cyl", params: "20 0 0", scalars: []float64{0.5, 1}, size: 1, admit: true, withPos: true, withNrm: true, solid: true,
		node:  "cyl - - - - -",
		build: func() modeling.Mesh { m, _ := primitives.CylinderNodeData{}.Process(); return m }})
	c.c18Emit(c18Case{kind: "cubeq", scalars: []float64{1, 1, 1}, size: 1, admit: true, withPos: true, withNrm: true, solid: true,
		node:  "cube - - -",
		build: func() modeling.Mesh { m, _ := primitives.CubeNodeData{}.Process(); return m }})
	c.c18Emit(c18Case{kind: "cubew", scalars: []float64{1, 1, 1}, size: 1, admit: true, withPos: true, withNrm: true, solid: true,
		build: func() modeling.Mesh { return primitives.UnitCube() }})
}

// sizes just past / at / before powers of two (caches, pooled buffers and chunked code paths change behaviour there):
// one long direction, the other minimal, so the meshes stay moderate; they take the large-mesh path (tris, nv, closed,
// outward, volume)
func (c *Ctx) c18Pow2Edges(thorough bool) {
	sizes := []int{1024, 1025}
	if thorough {
		sizes = []int{255, 256, 257, 511, 513, 1023, 1024, 1025, 2047, 2049, 4095, 4097}
	} else {
		// quick: the 1024 boundary always, one more boundary per seed
		extra := []int{257, 513, 1023, 2049, 4097}
		sizes = append(sizes, extra[c.Rng.Intn(len(extra))])
	}
	for _, n := range sizes {
		c.Note("pow2-edge")
		r := c.c18Len()
		mk := func(kind string, rows, cols int, withNrm bool, build func() modeling.Mesh) {
			c.c18Emit(c18Case{kind: kind, params: strconv.Itoa(rows) + " " + strconv.Itoa(cols), scalars: []float64{r}, size: r,
				admit: true, withPos: true, withNrm: withNrm, solid: true, build: build})
		}
		mk("sphere", 3, n, true, func() modeling.Mesh { return primitives.UVSphere(r, 3, n) })
		mk("hemi", 3, n, false, func() modeling.Mesh { return primitives.Hemisphere{Radius: r}.UV(3, n) })
		mk("sphereu", 2, n, false, func() modeling.Mesh { return primitives.UVSphereUnwelded(r, 2, n) })
		if thorough || n == 1025 {
			mk("sphere", n, 3, true, func() modeling.Mesh { return primitives.UVSphere(r, n, 3) })
			mk("hemi", n, 3, false, func() modeling.Mesh { return primitives.Hemisphere{Radius: r}.UV(n, 3) })
		}
		c.c18Cyl(n, false, false, n%2 == 1, c.c18Len(), c.c18Len())
	}
	// the cylinder's caps have sides+1 vertices and go through Mesh.Translate / Transform: 4095 / 4096 / 4097 sides in every run
	for _, n := range []int{4095, 4096, 4097} {
		c.Note("pow2-edge.cyl-cap")
		c.c18Cyl(n, false, false, false, c.c18Len(), c.c18Len())
	}
	// one welded sphere with >= 131072 vertices (363 x 363: 131408) in every run
	{
		r := c.c18Len()
		c.c18Emit(c18Case{kind: "sphere", params: "363 363", scalars: []float64{r}, size: r, admit: true, withPos: true, withNrm: true,
			solid: true, huge: true, build: func() modeling.Mesh { return primitives.UVSphere(r, 363, 363) }})
	}
}

func c18Int(v int) nodes.NodeOutput[int]           { return nodes.Value(v).Out() }
func c18Float(v float64) nodes.NodeOutput[float64] { return nodes.Value(v).Out() }
func c18Bool(v bool) nodes.NodeOutput[bool]        { return nodes.Value(v).Out() }

// the node wrappers with CONNECTED inputs (tiny graphs: nodes.Value -> wrapper), at the minimum accepted values, below
// them and at ordinary values; the node's mesh is compared with the model of the constructor called on the parameters
// as the wrapper documents them (UvSphereNode clamps rows to >= 2 and columns to >= 3; the others pass them through)
func (c *Ctx) c18Nodes() {
	max := func(a, b int) int {
		if a > b {
			return a
		}
		return b
	}
	for _, rows := range []int{-3, 0, 1, 2, 3, 4, 7} {
		for _, cols := range []int{-1, 2, 3, 4, 9} {
			for w := 0; w < 3; w++ {
				c.Note("node.uvsphere")
				radius := []float64{0.5, 2, 0.25}[(rows+cols+w+9)%3]
				data := primitives.UvSphereNodeData{Rows: c18Int(rows), Columns: c18Int(cols)}
				if radius != 0.5 {
					data.Radius = c18Float(radius)
				}
				weld := true
				if w == 1 {
					data.Weld = c18Bool(true)
				} else if w == 2 {
					data.Weld = c18Bool(false)
					weld = false
				}
				kind := "sphere"
				if !weld {
					kind = "sphereu"
				}
				cr, cc := max(rows, 2), max(cols, 3)
				c.c18Emit(c18Case{kind: kind, params: strconv.Itoa(cr) + " " + strconv.Itoa(cc), scalars: []float64{radius}, size: radius,
					admit: true, withPos: true, withNrm: weld, solid: true,
					node:  c18Join("sphere", c18PortFloat(radius != 0.5, radius), strconv.Itoa(rows), strconv.Itoa(cols), c18PortBool(w != 0, weld)),
					build: func() modeling.Mesh { return (&primitives.UvSphereNode{Data: data}).Value() }})
			}
		}
	}
	for _, rows := range []int{1, 2, 3, 6} {
		for _, cols := range []int{2, 3, 4, 8} {
			c.Note("node.hemisphere")
			radius := 0.75
			data := primitives.HemisphereNodeData{Rows: c18Int(rows), Columns: c18Int(cols), Radius: c18Float(radius), Capped: c18Bool(rows%2 == 0)}
			c.c18Emit(c18Case{kind: "hemi", params: strconv.Itoa(rows) + " " + strconv.Itoa(cols), scalars: []float64{radius}, size: radius,
				admit: rows >= 2 && cols >= 3, withPos: true, solid: true,
				node:  c18Join("hemi", strconv.Itoa(rows), strconv.Itoa(cols), F(radius), c18B01(rows%2 == 0)),
				build: func() modeling.Mesh { m, _ := data.Process(); return m }})
		}
	}
	for _, sides := range []int{2, 3, 4, 9} {
		for caps := 0; caps < 4; caps++ {
			c.Note("node.cylinder")
			top, bottom := caps&1 == 0, caps&2 == 0
			radius, height := 0.3, 1.7
			data := primitives.CylinderNodeData{Sides: c18Int(sides), Height: c18Float(height), Radius: c18Float(radius), Top: c18Bool(top), Bottom: c18Bool(bottom)}
			both := top && bottom
			c.c18Emit(c18Case{kind: "cyl", params: strconv.Itoa(sides) + " " + c18B01(!top) + " " + c18B01(!bottom),
				scalars: []float64{radius, height}, size: height, admit: sides >= 3 || (!top && !bottom),
				withPos: both, withNrm: both, solid: both && sides >= 3,
				node:  c18Join("cyl", strconv.Itoa(sides), F(height), F(radius), c18B01(top), c18B01(bottom)),
				build: func() modeling.Mesh { m, _ := data.Process(); return m }})
		}
	}
	for _, d := range [][3]float64{{1, 1, 1}, {2, 0.5, 3}} {
		c.Note("node.cube")
		data := primitives.CubeNodeData{Width: c18Float(d[0]), Height: c18Float(d[1]), Depth: c18Float(d[2])}
		c.c18Emit(c18Case{kind: "cubeq", scalars: []float64{d[0], d[1], d[2]}, size: 3, admit: true, withPos: true, withNrm: true, solid: true,
			node:  c18Join("cube", F(d[0]), F(d[1]), F(d[2])),
			build: func() modeling.Mesh { return (&primitives.CubeNode{Data: data}).Value() }})
	}
}

// every SUBSET of connected ports of each node wrapper (unconnected ports take the documented defaults), non-default values
func (c *Ctx) c18NodeSubsets() {
	for mask := 0; mask < 16; mask++ {
		c.Note("node.subset.uvsphere")
		radius, rows, cols, weld := 0.5, 10, 10, true
		var data primitives.UvSphereNodeData
		if mask&1 != 0 {
			radius = 1.25
			data.Radius = c18Float(radius)
		}
		if mask&2 != 0 {
			rows = 6
			data.Rows = c18Int(rows)
		}
		if mask&4 != 0 {
			cols = 7
			data.Columns = c18Int(cols)
		}
		if mask&8 != 0 {
			weld = false
			data.Weld = c18Bool(false)
		}
		kind := "sphere"
		if !weld {
			kind = "sphereu"
		}
		c.c18Emit(c18Case{kind: kind, params: strconv.Itoa(rows) + " " + strconv.Itoa(cols), scalars: []float64{radius}, size: radius,
			admit: true, withPos: true, withNrm: weld, solid: true,
			node:  c18Join("sphere", c18PortFloat(mask&1 != 0, radius), c18PortInt(mask&2 != 0, rows), c18PortInt(mask&4 != 0, cols), c18PortBool(mask&8 != 0, weld)),
			build: func() modeling.Mesh { return (&primitives.UvSphereNode{Data: data}).Value() }})
	}
	for mask := 0; mask < 16; mask++ {
		c.Note("node.subset.hemisphere")
		radius, rows, cols := 0.5, 20, 20
		var data primitives.HemisphereNodeData
		if mask&1 != 0 {
			radius = 1.5
			data.Radius = c18Float(radius)
		}
		if mask&2 != 0 {
			rows = 5
			data.Rows = c18Int(rows)
		}
		if mask&4 != 0 {
			cols = 9
			data.Columns = c18Int(cols)
		}
		if mask&8 != 0 {
			data.Capped = c18Bool(false)
		}
		c.c18Emit(c18Case{kind: "hemi", params: strconv.Itoa(rows) + " " + strconv.Itoa(cols), scalars: []float64{radius}, size: radius,
			admit: true, withPos: true, solid: true,
			node:  c18Join("hemi", c18PortInt(mask&2 != 0, rows), c18PortInt(mask&4 != 0, cols), c18PortFloat(mask&1 != 0, radius), c18PortBool(mask&8 != 0, false)),
			build: func() modeling.Mesh { return (&primitives.HemisphereNode{Data: data}).Value() }})
	}
	for mask := 0; mask < 32; mask++ {
		c.Note("node.subset.cylinder")
		sides, height, radius, top, bottom := 20, 1.0, 0.5, true, true
		var data primitives.CylinderNodeData
		if mask&1 != 0 {
			sides = 7
			data.Sides = c18Int(sides)
		}
		if mask&2 != 0 {
			height = 2.5
			data.Height = c18Float(height)
		}
		if mask&4 != 0 {
			radius = 0.8
			data.Radius = c18Float(radius)
		}
		if mask&8 != 0 {
			top = false
			data.Top = c18Bool(false)
		}
		if mask&16 != 0 {
			bottom = false
			data.Bottom = c18Bool(false)
		}
		both := top && bottom
		c.c18Emit(c18Case{kind: "cyl", params: strconv.Itoa(sides) + " " + c18B01(!top) + " " + c18B01(!bottom),
			scalars: []float64{radius, height}, size: math.Max(radius, height), admit: true,
			withPos: both, withNrm: both, solid: both,
			node: c18Join("cyl", c18PortInt(mask&1 != 0, sides), c18PortFloat(mask&2 != 0, height), c18PortFloat(mask&4 != 0, radius),
				c18PortBool(mask&8 != 0, top), c18PortBool(mask&16 != 0, bottom)),
			build: func() modeling.Mesh { return (&primitives.CylinderNode{Data: data}).Value() }})
	}
	for mask := 0; mask < 8; mask++ {
		c.Note("node.subset.cube")
		w, h, d := 1.0, 1.0, 1.0
		var data primitives.CubeNodeData
		if mask&1 != 0 {
			w = 2
			data.Width = c18Float(w)
		}
		if mask&2 != 0 {
			h = 0.5
			data.Height = c18Float(h)
		}
		if mask&4 != 0 {
			d = 3
			data.Depth = c18Float(d)
		}
		c.c18Emit(c18Case{kind: "cubeq", scalars: []float64{w, h, d}, size: 3, admit: true, withPos: true, withNrm: true, solid: true,
			node:  c18Join("cube", c18PortFloat(mask&1 != 0, w), c18PortFloat(mask&2 != 0, h), c18PortFloat(mask&4 != 0, d)),
			build: func() modeling.Mesh { return (&primitives.CubeNode{Data: data}).Value() }})
	}
}

func runC18(c *Ctx) {
	thorough := c.Tier == "thorough"
	c18History = nil
	defer c.c18ReplayHistory()
	c.c18Defaults()
	c.c18Nodes()
	c.c18NodeSubsets()
	c.c18Pow2Edges(thorough)
	lim := 10
	if thorough {
		lim = 24
	}
	fixed := []float64{0.5, 1}

	// ---- UV sphere / unwelded / hemisphere: exhaustive small (rows, cols), inadmissible ones included ----
	k := 0
	for rows := 0; rows <= lim; rows++ {
		for cols := 0; cols <= lim; cols++ {
			if rows < 2 || cols < 3 {
				c.c18UV(rows, cols, fixed[k%2])
				k++
				continue
			}
			if rows <= 10 && cols <= 10 {
				c.c18UV(rows, cols, fixed[k%2])
				k++
			}
			c.c18UV(rows, cols, c.c18Len())
		}
	}

	// ---- cylinder: exhaustive small side counts, every cap combination, with and without UVs ----
	for sides := 0; sides <= lim; sides++ {
		for caps := 0; caps < 4; caps++ {
			noTop, noBottom := caps&1 != 0, caps&2 != 0
			for _, uvs := range []bool{false, true} {
				if uvs {
					c.c18Cyl(sides, noTop, noBottom, uvs, c.c18Len(), c.c18Len())
				} else {
					c.c18Cyl(sides, noTop, noBottom, uvs, fixed[k%2], fixed[(k/2)%2])
					k++
				}
			}
		}
	}

	// ---- boxes ----
	for _, dims := range [][3]float64{{1, 1, 1}, {0.5, 1, 2}, {2, 0.5, 1}, {1, 2, 0.5}} {
		c.c18Box(dims[0], dims[1], dims[2], false)
		c.c18Box(dims[0], dims[1], dims[2], true)
	}
	nb := 8
	if thorough {
		nb = 200
	}
	for i := 0; i < nb; i++ {
		c.c18Box(c.c18Len(), c.c18Len(), c.c18Len(), i%2 == 1)
	}

	// ---- sampled moderate sizes (both tiers): at most c18PosLimit welded vertices ----
	for i := 0; i < c.N; i++ {
		rows, cols := 2+c.Rng.Intn(63), 3+c.Rng.Intn(62)
		for (rows-1)*cols+2 > c18PosLimit/4 {
			if rows > cols {
				rows = 2 + c.Rng.Intn(rows-1)
			} else {
				cols = 3 + c.Rng.Intn(cols-2)
			}
		}
		c.Note("moderate")
		c.c18UV(rows, cols, c.c18Len())
		sides := 3 + c.Rng.Intn(200)
		caps := c.Rng.Intn(6) // mostly the solid variant
		if caps > 3 {
			caps = 0
		}
		c.c18Cyl(sides, caps&1 != 0, caps&2 != 0, c.Rng.Intn(3) == 0, c.c18Len(), c.c18Len())
	}

	// ---- sampled large sizes (thorough only): rows, cols up to 512 with rows*cols <= 40000; sides up to 512 ----
	if thorough {
		for i := 0; i < c.N; i++ {
			// log-uniform vertex budget in [3000, 40000], log-uniform aspect
			budget := math.Exp(math.Log(3000) + c.Rng.Float64()*(math.Log(40000)-math.Log(3000)))
			var rows, cols int
			for {
				rows = int(math.Exp(math.Log(6) + c.Rng.Float64()*(math.Log(512)-math.Log(6))))
				cols = int(budget / float64(rows))
				if cols >= 3 && cols <= 512 && rows >= 2 && rows <= 512 && rows*cols <= 40000 {
					break
				}
			}
			radius := c.c18Len()
			p := strconv.Itoa(rows) + " " + strconv.Itoa(cols)
			sc := []float64{radius}
			switch i % 3 {
			case 0:
				c.c18Emit(c18Case{kind: "sphere", params: p, scalars: sc, size: radius, admit: true, withPos: true, withNrm: true, solid: true,
					build: func() modeling.Mesh { return primitives.UVSphere(radius, rows, cols) }})
			case 1:
				c.c18Emit(c18Case{kind: "hemi", params: p, scalars: sc, size: radius, admit: true, withPos: true, solid: true,
					build: func() modeling.Mesh { return primitives.Hemisphere{Radius: radius, Capped: true}.UV(rows, cols) }})
			default:
				// the unwelded sphere has ~4 vertices per welded one: quarter the grid
				r2, c2 := rows, cols
				for r2*c2 > 10000 {
					if r2 > c2 {
						r2 /= 2
					} else {
						c2 /= 2
					}
				}
				if r2 < 2 {
					r2 = 2
				}
				if c2 < 3 {
					c2 = 3
				}
				p2 := strconv.Itoa(r2) + " " + strconv.Itoa(c2)
				c.c18Emit(c18Case{kind: "sphereu", params: p2, scalars: sc, size: radius, admit: true, withPos: true, solid: true,
					build: func() modeling.Mesh { return primitives.UVSphereUnwelded(radius, r2, c2) }})
			}
			c.c18Cyl(200+c.Rng.Intn(313), false, false, i%4 == 0, c.c18Len(), c.c18Len())
		}
	}
}
