package main

// helpers shared by the C05 (OBJ) and C07 (STL) streams

import "encoding/hex"

func hx(b []byte) string {
	if len(b) == 0 {
		return "-"
	}
	return hex.EncodeToString(b)
}

// canonical NaN for float64 values that pass through arithmetic / widening
func cF(f float64) string {
	if f != f {
		return "7ff8000000000000"
	}
	return F(f)
}

