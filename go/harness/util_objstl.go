package main

// helpers shared by the C05 (OBJ) and C07 (STL) streams

import (
	"bufio"
	"bytes"
	"encoding/hex"
	"io"
	"testing/iotest"
)

// a buffer that refuses to grow beyond a cap: a writer that runs away (quadratic output after a seeded change)
// gets an error from its io.Writer instead of taking the harness down with it
type objstlCapBuffer struct {
	bytes.Buffer
	Cap      int
	Overflow bool
}

func (b *objstlCapBuffer) Write(p []byte) (int, error) {
	if b.Len()+len(p) > b.Cap {
		b.Overflow = true
		return 0, io.ErrShortBuffer
	}
	return b.Buffer.Write(p)
}

// ---- reader variety: the same bytes through readers with different Read granularity ----------------------

type objstlChunkReader struct {
	data  []byte
	sizes []int
	k     int
}

func (r *objstlChunkReader) Read(p []byte) (int, error) {
	if len(r.data) == 0 {
		return 0, io.EOF
	}
	n := r.sizes[r.k%len(r.sizes)]
	r.k++
	if n > len(p) {
		n = len(p)
	}
	if n > len(r.data) {
		n = len(r.data)
	}
	copy(p, r.data[:n])
	r.data = r.data[n:]
	return n, nil
}

type objstlReaderKind struct {
	name string
	mk   func(bs []byte) io.Reader
}

var objstlChunkSizes = []int{1, 7, 49, 50, 51, 79, 80, 81, 83, 84, 85, 4096, 4097}

var objstlReaders = []objstlReaderKind{
	{"bytes.Reader", func(bs []byte) io.Reader { return bytes.NewReader(bs) }},
	{"bytes.Buffer", func(bs []byte) io.Reader { return bytes.NewBuffer(append([]byte(nil), bs...)) }},
	{"bufio-16", func(bs []byte) io.Reader { return bufio.NewReaderSize(bytes.NewReader(bs), 16) }},
	{"bufio-83", func(bs []byte) io.Reader { return bufio.NewReaderSize(iotest.OneByteReader(bytes.NewReader(bs)), 83) }},
	{"bufio-4096", func(bs []byte) io.Reader { return bufio.NewReaderSize(bytes.NewReader(bs), 4096) }},
	{"OneByteReader", func(bs []byte) io.Reader { return iotest.OneByteReader(bytes.NewReader(bs)) }},
	{"HalfReader", func(bs []byte) io.Reader { return iotest.HalfReader(bytes.NewReader(bs)) }},
	{"DataErrReader", func(bs []byte) io.Reader { return iotest.DataErrReader(bytes.NewReader(bs)) }},
	{"chunks", func(bs []byte) io.Reader { return &objstlChunkReader{data: bs, sizes: objstlChunkSizes} }},
	{"chunks-rev", func(bs []byte) io.Reader {
		return &objstlChunkReader{data: bs, sizes: []int{85, 84, 83, 81, 80, 79, 51, 50, 49, 7, 1}}
	}},
	{"pipe-3-writes", func(bs []byte) io.Reader { // a writer goroutine that delivers the bytes in uneven writes
		pr, pw := io.Pipe()
		go func() {
			cuts := []int{80, 4, 50, 1, 4095}
			rest := bs
			for i := 0; len(rest) > 0; i++ {
				n := cuts[i%len(cuts)]
				if n > len(rest) {
					n = len(rest)
				}
				if _, err := pw.Write(rest[:n]); err != nil {
					return
				}
				rest = rest[n:]
			}
			pw.Close()
		}()
		return pr
	}},
}

// drains what a decoder left unread in a pipe so that its writer goroutine can finish
func objstlDrain(r io.Reader) {
	if pr, ok := r.(*io.PipeReader); ok {
		pr.Close()
	}
}

func hx(b []byte) string {
	if len(b) == 0 {
		return "-"
	}
	return hex.EncodeToString(b)
}

// canonical NaN for float64 values that pass through arithmetic / widening
func cF(f float64) string {
	if f != f {
		return "7ff8000000000000"
	}
	return F(f)
}

