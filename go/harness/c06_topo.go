package main

// C06 round 2: every modeling.Topology value (quad, line, line-strip, line-loop and undeclared values) and nil texture
// literals (PolyformNormal{} / PolyformOcclusion{} with a nil embedded *PolyformTexture) are generated and corresponded:
// c06.doc answers "panic" / "err" / the document; c06.topo compares the theorem predicates topoCarried / modeIndexOK /
// docModeCountOK, evaluated by the driver on the IMPLEMENTATION's document and buffer, with what gltf_topo_carried_iff /
// gltf_mode_index_iff / gltf_doc_mode_count_iff predict from the scene (computed here).

import (
	"bytes"
	"strconv"
)

// the JSON text of a JSON chunk: everything up to the closing brace of the document (what follows must be blank padding;
// trimming blanks instead would accept a chunk padded with other bytes)
func c6JSONText(chunk []byte) []byte {
	i := bytes.LastIndexByte(chunk, '}')
	if i < 0 {
		return chunk
	}
	return chunk[:i+1]
}

// Mesh.PrimitiveCount() for the six declared topologies
func (m *c6Mesh) primCount() int {
	n := len(m.idx)
	switch m.topo {
	case 0:
		return n / 3
	case 2:
		return n / 4
	case 1, 5:
		return n
	default:
		if n == 0 {
			return 0
		}
		return n - 1
	}
}

// a model produces a node: mesh present, at least one primitive, at least one Float2/3/4 attribute
func (s *c6Scene) visibleMesh(md c6Model) (*c6Mesh, bool) {
	if md.mesh < 0 || md.mesh >= len(s.meshes) {
		return nil, false
	}
	m := &s.meshes[md.mesh]
	if m.primCount() == 0 {
		return nil, false
	}
	for _, a := range m.attrs {
		if a.dim >= 2 {
			return m, true
		}
	}
	return nil, false
}

// the mode AddMesh writes for a topology (repaired writer): -1 = omitted (TRIANGLES)
func c6ModeOf(topo int) int {
	switch topo {
	case 1:
		return 0
	case 3:
		return 1
	case 5:
		return 2
	case 4:
		return 3
	}
	return -1
}

func c6CountFits(mode, n int) bool {
	switch mode {
	case -1, 4:
		return n%3 == 0
	case 0:
		return true
	case 1:
		return n%2 == 0
	case 2, 3:
		return n >= 2
	case 5, 6:
		return n >= 3
	}
	return false
}

// what gltf_topo_full predicts for an ACCEPTED scene: the mode renders the topology of every visible model (always, quads
// and undeclared topologies are never accepted), and the index counts fit the written modes iff the models' own index
// counts fit their topologies (right-hand side of gltf_mode_index_iff / gltf_doc_mode_count_iff)
func (s *c6Scene) topoExpect() (faithful, countFits bool) {
	faithful, countFits = true, true
	for _, md := range s.models {
		m, ok := s.visibleMesh(md)
		if !ok {
			continue
		}
		if m.topo == 2 || m.topo > 5 {
			faithful = false
		}
		if !c6CountFits(c6ModeOf(m.topo), len(m.idx)) {
			countFits = false
		}
	}
	return
}

// every indexed primitive has a number of indices compatible with its drawing mode (absent = 4 TRIANGLES)
func (d *r6Doc) modeCountOK() bool {
	for _, m := range d.Meshes {
		for _, p := range m.Primitives {
			if p.Indices == nil {
				continue
			}
			if *p.Indices < 0 || *p.Indices >= len(d.Accessors) {
				return false
			}
			n := d.Accessors[*p.Indices].Count
			mode := 4
			if p.Mode != nil {
				mode = *p.Mode
			}
			ok := false
			switch mode {
			case 4:
				ok = n%3 == 0
			case 0:
				ok = true
			case 1:
				ok = n%2 == 0
			case 2, 3:
				ok = n >= 2
			case 5, 6:
				ok = n >= 3
			}
			if !ok {
				return false
			}
		}
	}
	return true
}

func c6TopoName(t int) string {
	if t >= 0 && t < 6 {
		return []string{"triangle", "point", "quad", "line", "linestrip", "lineloop"}[t]
	}
	return "undeclared"
}

// one mesh of topology t with ni indices over nv vertices, one model (plus a second model sharing the pointer)
func c6TopoFixed(t, ni, nv int, shared bool) *c6Scene {
	m := c6Mesh{topo: t, idx: make([]int, ni)}
	for i := range m.idx {
		m.idx[i] = (i * 3) % nv
	}
	pos := c6Attr{name: "Position", dim: 3, data: make([]float64, 3*nv)}
	for i := range pos.data {
		pos.data[i] = float64((i*5)%7) - 3
	}
	m.attrs = []c6Attr{pos}
	s := &c6Scene{meshes: []c6Mesh{m}, models: []c6Model{{name: c6TopoName(t), mesh: 0, mat: -1}}}
	if shared {
		s.models = append(s.models, c6Model{name: "again", mesh: 0, mat: -1, t: []float64{1, 2, 3}})
	}
	return s
}

func c6BlankMat(name string) c6Mat {
	return c6Mat{name: name, hasPbr: true, bct: -1, mrt: -1, normal: -1, occl: -1}
}

// nil texture literals: kind selects the shape
func c6NilTexFixed(kind int) *c6Scene {
	s := c6Witness()
	s.texs = []c6Tex{{uri: "t.png"}}
	nilID := len(s.texs) // id outside the heap = nil embedded pointer
	bad := c6BlankMat("nilnormal")
	bad.normal = nilID
	good := c6BlankMat("good")
	good.normal = 0
	switch kind {
	case 0: // PolyformNormal{} on the first model
		s.mats = []c6Mat{bad}
		s.models[0].mat = 0
	case 1: // PolyformOcclusion{} on the second model, after a model that was written
		occ := c6BlankMat("niloccl")
		occ.occl = nilID
		s.mats = []c6Mat{good, occ}
		s.models[0].mat, s.models[1].mat = 0, 1
	case 2: // alphaCutoff error comes BEFORE the nil dereference
		v := 0.5
		bad.cutoff = &v
		s.mats = []c6Mat{bad}
		s.models[0].mat = 0
	case 3: // the material of a skipped (empty) mesh is never looked at
		s.meshes = append(s.meshes, c6Mesh{topo: 0})
		s.mats = []c6Mat{bad}
		s.models = append(s.models, c6Model{name: "empty", mesh: 2, mat: 0})
	case 4: // a tracked material that differs only in having a texture: equal() handles the nil, then AddTexture(nil)
		bad.name, good.name = "same", "same"
		s.mats = []c6Mat{good, bad}
		s.models[0].mat, s.models[1].mat = 0, 1
	case 5: // both nil, normal first
		bad.occl = nilID
		s.mats = []c6Mat{bad}
		s.models[1].mat = 0
	case 6: // nil normal texture with a scale, material without pbr
		v := 2.0
		bad.hasPbr = false
		bad.normalSc = &v
		s.mats = []c6Mat{bad}
		s.models[0].mat = 0
	}
	return s
}

// random scene over all topology values, some with nil texture literals
func (c *Ctx) c6TopoScene() *c6Scene {
	s := &c6Scene{}
	nm := 1 + c.Rng.Intn(3)
	for k := 0; k < nm; k++ {
		nv := 2 + c.Rng.Intn(5)
		t := c.Rng.Intn(6)
		if c.Rng.Intn(3) > 0 {
			t = 2 + c.Rng.Intn(4)
		}
		if c.Rng.Intn(12) == 0 {
			t = 6 + c.Rng.Intn(3)
		}
		ni := c.Rng.Intn(10)
		m := c6Mesh{topo: t, idx: make([]int, ni)}
		for i := range m.idx {
			m.idx[i] = c.Rng.Intn(nv)
		}
		pos := c6Attr{name: "Position", dim: 3, data: make([]float64, 3*nv)}
		for i := range pos.data {
			pos.data[i] = float64(c.Rng.Intn(21) - 10)
		}
		m.attrs = []c6Attr{pos}
		if c.Rng.Intn(2) == 0 {
			uv := c6Attr{name: "TexCoord", dim: 2, data: make([]float64, 2*nv)}
			for i := range uv.data {
				uv.data[i] = float64(c.Rng.Intn(9)) / 8
			}
			m.attrs = append(m.attrs, uv)
		}
		s.meshes = append(s.meshes, m)
		c.Note("topo.mesh." + c6TopoName(t))
	}
	s.texs = []c6Tex{{uri: "a.png"}}
	s.mats = []c6Mat{c6BlankMat("plain")}
	if c.Rng.Intn(4) == 0 {
		bad := c6BlankMat("nil")
		if c.Rng.Intn(2) == 0 {
			bad.normal = len(s.texs)
		} else {
			bad.occl = len(s.texs)
		}
		s.mats = append(s.mats, bad)
		c.Note("topo.nil-texture-literal")
	}
	nmd := 1 + c.Rng.Intn(4)
	for k := 0; k < nmd; k++ {
		md := c6Model{name: "m" + strconv.Itoa(k), mesh: c.Rng.Intn(nm), mat: c.Rng.Intn(len(s.mats)+1) - 1}
		if c.Rng.Intn(3) == 0 {
			md.t = []float64{float64(k), 0, 1}
		}
		s.models = append(s.models, md)
	}
	return s
}

// fixed topology / nil-literal cases, run before the random scenes
func (c *Ctx) c6TopoFixedCases() {
	k := 0
	for t := 0; t <= 7; t++ {
		for ni := 0; ni <= 8; ni++ {
			c.c6Case(c6TopoFixed(t, ni, 3+ni%3, ni%4 == 3), k%2 == 0, "topo")
			k++
		}
	}
	for kind := 0; kind <= 6; kind++ {
		c.c6Case(c6NilTexFixed(kind), kind%2 == 0, "topo")
	}
	c.Note("topo.fixed")
}

// the c06.topo line (and the oracle c06.holds.topo where the theorems predict true)
func (c *Ctx) c6TopoLines(s *c6Scene, st string, o *c6Out, binTok string) {
	tp, cf := s.topoExpect()
	// third value: gltf_doc_mode_count_iff predicts docModeCountOK (document alone) = cf; the Go recomputation from the parsed
	// document is a cross-check of the harness itself
	if o.doc.modeCountOK() != cf {
		c.Note("topo.GO-DOC-CHECK-DISAGREES-WITH-PREDICTION")
	}
	c.Emit("c06.topo", st+" "+o.dtok+" "+binTok, b2s(tp)+" "+b2s(cf)+" "+b2s(cf))
	if tp && cf {
		c.Note("topo.mode-faithful-count-fits")
		if len(o.bin) < 4000 {
			c.Emit("c06.holds.topo", st+" "+o.dtok+" "+binTok, "true")
		}
	} else {
		c.Note("topo.index-count-unfit")
	}
}
