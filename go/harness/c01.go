package main

// C01 — mesh values are immutable.  Stream "c01": generated HISTORIES over a pool of live meshes.
//
// Per history the harness keeps every mesh it ever obtained, applies random public operations whose
// arguments are picked anywhere in the pool (biased to OLD members and to append chains followed by two
// derivations from one earlier value), and after EVERY operation
//   (1) value level: re-reads every live mesh through the public accessors and emits an oracle line
//       c01.holds.immutable <hist> <step> <mesh> <digest at entry> <digest now>     (driver: equal?)
//       and, at the end of the history, c01.holds.immutable_full with both complete snapshots, which the
//       driver parses into the model's `MeshObs` and compares with its decidable equality;
//   (2) heap-shape level: reads (data pointer, len, cap) of every slice and the identity of every map of the
//       argument and result meshes with reflect, numbers the distinct backing arrays, and emits
//       c01.shape <op class + parameters> ARGS <argument representations>
//       whose implementation answer is the observed SHARING GRAPH of the result (which slices alias which
//       argument arrays / are new, which maps are new); the driver runs the heap model's operation class on a
//       heap built from the argument representations and must predict the same graph.

import (
	"bytes"
	"crypto/sha256"
	"fmt"
	"image/color"
	"io"
	"math"
	"os"
	"path/filepath"
	"reflect"
	"sort"
	"strings"

	"github.com/EliCDavis/polyform/formats/gltf"
	"github.com/EliCDavis/polyform/formats/obj"
	"github.com/EliCDavis/polyform/formats/ply"
	"github.com/EliCDavis/polyform/formats/splat"
	"github.com/EliCDavis/polyform/formats/spz"
	"github.com/EliCDavis/polyform/formats/stl"
	"github.com/EliCDavis/polyform/math/geometry"
	"github.com/EliCDavis/polyform/math/quaternion"
	"github.com/EliCDavis/polyform/math/trs"
	"github.com/EliCDavis/polyform/modeling"
	"github.com/EliCDavis/polyform/modeling/extrude"
	"github.com/EliCDavis/polyform/modeling/meshops"
	"github.com/EliCDavis/polyform/modeling/primitives"
	"github.com/EliCDavis/polyform/modeling/repeat"
	"github.com/EliCDavis/vector/vector2"
	"github.com/EliCDavis/vector/vector3"
	"github.com/EliCDavis/vector/vector4"
)

func init() { streams["c01"] = runC01 }

var c01Debug = os.Getenv("C01_DEBUG") != ""

type c01Range struct {
	lo, hi uintptr
	id     int
}

type c01Hist struct {
	c        *Ctx
	id       int
	pool     []modeling.Mesh
	entry    []string // canonical snapshot when the mesh entered the pool
	digest   []string
	arrays   []c01Range
	maps     map[uintptr]int
	mats     map[*modeling.Material]int
	pal      []*modeling.Material
	next     float64
	step     int
	keep     []any // caller-owned slices/maps handed to the library (kept alive, never mutated)
	redo     []c01Redo
	usedB    []int
	palEntry []string
	lastOp   string
	reported map[int]bool
}

// ---------------------------------------------------------------------------------------------
// value level: what a mesh reports through its public accessors, as exact bit patterns

// everything a material reports, DEEP: through the pointer to the struct and through its *string / color fields down to
// the pointed-to strings and colour components (a writer that "normalises" a texture path writes into those strings)
func c01MatDeep(p *modeling.Material) string {
	col := func(c color.Color) string {
		if c == nil {
			return "nil"
		}
		r, g, b, a := c.RGBA()
		return fmt.Sprintf("%d,%d,%d,%d", r, g, b, a)
	}
	str := func(s *string) string {
		if s == nil {
			return "nil"
		}
		return fmt.Sprintf("%q", *s)
	}
	return fmt.Sprintf("name=%q amb=%s dif=%s spec=%s hl=%s od=%s tr=%s ct=%s nt=%s st=%s", p.Name, col(p.AmbientColor), col(p.DiffuseColor),
		col(p.SpecularColor), F(p.SpecularHighlight), F(p.OpticalDensity), F(p.Transparency),
		str(p.ColorTextureURI), str(p.NormalTextureURI), str(p.SpecularTextureURI))
}

func (h *c01Hist) matID(p *modeling.Material) string {
	if p == nil {
		return "nil"
	}
	id, ok := h.mats[p]
	if !ok {
		id = len(h.mats)
		h.mats[p] = id
	}
	return fmt.Sprintf("#%d:%x", id, c01MatDeep(p))
}

func (h *c01Hist) canon(m modeling.Mesh) string {
	var b strings.Builder
	fmt.Fprintf(&b, "T %d", int(m.Topology()))
	ind := m.Indices()
	fmt.Fprintf(&b, " I %d", ind.Len())
	for i := 0; i < ind.Len(); i++ {
		fmt.Fprintf(&b, " %d", ind.At(i))
	}
	mats := m.Materials()
	fmt.Fprintf(&b, " M %d", len(mats))
	for _, mm := range mats {
		fmt.Fprintf(&b, " %d:%s", mm.PrimitiveCount, h.matID(mm.Material))
	}
	for _, a := range m.Float1Attributes() {
		d := m.Float1Attribute(a)
		fmt.Fprintf(&b, " A 1 %s %d", a, d.Len())
		for i := 0; i < d.Len(); i++ {
			b.WriteString(" " + F(d.At(i)))
		}
	}
	for _, a := range m.Float2Attributes() {
		d := m.Float2Attribute(a)
		fmt.Fprintf(&b, " A 2 %s %d", a, d.Len())
		for i := 0; i < d.Len(); i++ {
			v := d.At(i)
			b.WriteString(" " + F(v.X()) + "," + F(v.Y()))
		}
	}
	for _, a := range m.Float3Attributes() {
		d := m.Float3Attribute(a)
		fmt.Fprintf(&b, " A 3 %s %d", a, d.Len())
		for i := 0; i < d.Len(); i++ {
			v := d.At(i)
			b.WriteString(" " + F(v.X()) + "," + F(v.Y()) + "," + F(v.Z()))
		}
	}
	for _, a := range m.Float4Attributes() {
		d := m.Float4Attribute(a)
		fmt.Fprintf(&b, " A 4 %s %d", a, d.Len())
		for i := 0; i < d.Len(); i++ {
			v := d.At(i)
			b.WriteString(" " + F(v.X()) + "," + F(v.Y()) + "," + F(v.Z()) + "," + F(v.W()))
		}
	}
	return b.String()
}

func c01Digest(s string) string {
	x := sha256.Sum256([]byte(s))
	return fmt.Sprintf("%x", x[:16])
}

// ---------------------------------------------------------------------------------------------
// heap-shape level: slices and maps of a Mesh as the runtime has them

type c01Slice struct {
	ptr    uintptr
	ln, cp int
	es     uintptr
	name   string
}

type c01Map struct {
	ptr     uintptr // 0 = nil map
	entries []c01Slice
}

type c01Rep struct {
	topo     int
	ind, mat c01Slice
	maps     [4]c01Map // v1..v4
}

func c01SliceOf(v reflect.Value, name string) c01Slice {
	return c01Slice{ptr: v.Pointer(), ln: v.Len(), cp: v.Cap(), es: v.Type().Elem().Size(), name: name}
}

func c01RepOf(m modeling.Mesh) c01Rep {
	v := reflect.ValueOf(m)
	r := c01Rep{topo: int(m.Topology())}
	r.ind = c01SliceOf(v.FieldByName("indices"), "")
	r.mat = c01SliceOf(v.FieldByName("materials"), "")
	for k, f := range []string{"v1Data", "v2Data", "v3Data", "v4Data"} {
		mv := v.FieldByName(f)
		if mv.IsNil() {
			continue
		}
		cm := c01Map{ptr: mv.Pointer()}
		it := mv.MapRange()
		for it.Next() {
			cm.entries = append(cm.entries, c01SliceOf(it.Value(), it.Key().String()))
		}
		sort.Slice(cm.entries, func(i, j int) bool { return cm.entries[i].name < cm.entries[j].name })
		r.maps[k] = cm
	}
	return r
}

func (r c01Rep) slices() []c01Slice {
	out := []c01Slice{r.ind, r.mat}
	for _, m := range r.maps {
		out = append(out, m.entries...)
	}
	return out
}

// find the registered array a slice lives in
func (h *c01Hist) find(s c01Slice) (id, off int, ok bool) {
	if s.cp == 0 {
		return -1, 0, false
	}
	lo, hi := s.ptr, s.ptr+uintptr(s.cp)*s.es
	for i := range h.arrays {
		a := &h.arrays[i]
		if lo < a.hi && a.lo < hi {
			if lo < a.lo {
				panic("c01 harness: slice starts below its registered array")
			}
			return a.id, int((lo - a.lo) / s.es), true
		}
	}
	return -1, 0, false
}

func (h *c01Hist) register(r c01Rep) {
	for _, s := range r.slices() {
		if s.cp == 0 {
			continue
		}
		lo, hi := s.ptr, s.ptr+uintptr(s.cp)*s.es
		found := false
		for i := range h.arrays {
			a := &h.arrays[i]
			if lo < a.hi && a.lo < hi {
				if hi > a.hi {
					a.hi = hi
				}
				found = true
				break
			}
		}
		if !found {
			h.arrays = append(h.arrays, c01Range{lo, hi, len(h.arrays)})
		}
	}
	for _, m := range r.maps {
		if m.ptr != 0 {
			if _, ok := h.maps[m.ptr]; !ok {
				h.maps[m.ptr] = len(h.maps)
			}
		}
	}
}

// argument encoding (all arrays registered): id off len cap, "x 0 0 0" for zero-capacity slices
func (h *c01Hist) argSlice(s c01Slice) string {
	id, off, ok := h.find(s)
	if !ok {
		return "x 0 0 0"
	}
	return fmt.Sprintf("%d %d %d %d", id, off, s.ln, s.cp)
}

func (h *c01Hist) argMesh(m modeling.Mesh) string {
	r := c01RepOf(m)
	var b strings.Builder
	fmt.Fprintf(&b, "%d %s %s", r.topo, h.argSlice(r.ind), h.argSlice(r.mat))
	for _, mp := range r.maps {
		if mp.ptr == 0 {
			b.WriteString(" x")
			continue
		}
		fmt.Fprintf(&b, " %d %d", h.maps[mp.ptr], len(mp.entries))
		for _, e := range mp.entries {
			fmt.Fprintf(&b, " %s %s", e.name, h.argSlice(e))
		}
	}
	return b.String()
}

// observed sharing graph of a result: arrays known before the operation by id, others n0, n1, … by first appearance
func (h *c01Hist) resultShape(m modeling.Mesh) string {
	r := c01RepOf(m)
	var fresh []c01Range
	sl := func(s c01Slice) string {
		if s.cp == 0 {
			return "z"
		}
		if id, off, ok := h.find(s); ok {
			return fmt.Sprintf("a%d+%d:%d", id, off, s.ln)
		}
		lo, hi := s.ptr, s.ptr+uintptr(s.cp)*s.es
		for i := range fresh {
			if lo < fresh[i].hi && fresh[i].lo < hi {
				return fmt.Sprintf("n%d+%d:%d", fresh[i].id, int((lo-fresh[i].lo)/s.es), s.ln)
			}
		}
		fresh = append(fresh, c01Range{lo, hi, len(fresh)})
		return fmt.Sprintf("n%d+0:%d", len(fresh)-1, s.ln)
	}
	var b strings.Builder
	fmt.Fprintf(&b, "T%d I=%s M=%s", r.topo, sl(r.ind), sl(r.mat))
	nf := 0
	freshMaps := map[uintptr]int{}
	for k, mp := range r.maps {
		if mp.ptr == 0 {
			fmt.Fprintf(&b, " K%d=nil", k)
			continue
		}
		if id, ok := h.maps[mp.ptr]; ok {
			fmt.Fprintf(&b, " K%d=m%d[", k, id)
		} else {
			if _, ok := freshMaps[mp.ptr]; !ok {
				freshMaps[mp.ptr] = nf
				nf++
			}
			fmt.Fprintf(&b, " K%d=f%d[", k, freshMaps[mp.ptr])
		}
		for i, e := range mp.entries {
			if i > 0 {
				b.WriteString(";")
			}
			b.WriteString(e.name + "=" + sl(e))
		}
		b.WriteString("]")
	}
	return b.String()
}

// structure of an observed result, as the parameters of the model's `rebuild` class
func c01RebuildParams(m modeling.Mesh, matMode int) string {
	r := c01RepOf(m)
	var b strings.Builder
	fmt.Fprintf(&b, "rebuild %d %d %d", r.topo, r.ind.ln, matMode)
	for _, mp := range r.maps {
		fmt.Fprintf(&b, " %d", len(mp.entries))
		for _, e := range mp.entries {
			fmt.Fprintf(&b, " %s %d", e.name, e.ln)
		}
	}
	return b.String()
}

// ---------------------------------------------------------------------------------------------
// pool

func (h *c01Hist) enter(m modeling.Mesh) int {
	h.register(c01RepOf(m))
	h.pool = append(h.pool, m)
	s := h.canon(m)
	h.entry = append(h.entry, s)
	h.digest = append(h.digest, c01Digest(s))
	return len(h.pool) - 1
}

// after every operation: every live mesh still reports what it reported when it entered
func (h *c01Hist) checkAll() {
	for i, m := range h.pool {
		now := Guard(func() string { return c01Digest(h.canon(m)) })
		h.c.Emit("c01.holds.immutable", fmt.Sprintf("%d %d %d %s %s %s", h.id, h.step, i, h.lastOp, h.digest[i], now), "true")
		if now != h.digest[i] && !h.reported[i] {
			// a mesh changed: give the replay both complete snapshots, once per mesh
			h.reported[i] = true
			full := Guard(func() string { return h.canon(m) })
			h.c.Emit("c01.holds.immutable_full", fmt.Sprintf("%d %d %s | %s", h.id, i, h.entry[i], full), "true")
		}
	}
	h.checkPalette()
}

// the materials themselves (reachable from every mesh that carries them or a SetMaterial copy of them)
func (h *c01Hist) checkPalette() {
	for i, p := range h.pal {
		h.c.Emit("c01.holds.immutable", fmt.Sprintf("%d %d %d %s %s %s", h.id, h.step, -2-i, h.lastOp, h.palEntry[i], c01Digest(c01MatDeep(p))), "true")
	}
}

func (h *c01Hist) checkFull() {
	for i, m := range h.pool {
		now := Guard(func() string { return h.canon(m) })
		h.c.Emit("c01.holds.immutable_full", fmt.Sprintf("%d %d %s | %s", h.id, i, h.entry[i], now), "true")
	}
}

// pick a pool member, biased towards old ones
func (h *c01Hist) pick() int {
	n := len(h.pool)
	switch h.c.Rng.Intn(3) {
	case 0:
		return h.c.Rng.Intn((n + 1) / 2)
	case 1:
		return h.c.Rng.Intn(n)
	default:
		a, b := h.c.Rng.Intn(n), h.c.Rng.Intn(n)
		if a < b {
			return a
		}
		return b
	}
}

func (h *c01Hist) pickWhere(ok func(modeling.Mesh) bool) int {
	for t := 0; t < 8; t++ {
		i := h.pick()
		if ok(h.pool[i]) {
			return i
		}
	}
	for i, m := range h.pool {
		if ok(m) {
			return i
		}
	}
	return -1
}

// ---------------------------------------------------------------------------------------------
// generators

// materials with texture paths a writer may want to "clean up": back slashes, spaces, upper case, dots, unicode, empty
func c01Palette(c *Ctx, id int) []*modeling.Material {
	uris := []string{"textures\\wood\\Oak Plank.PNG", "C:\\Users\\me\\tex.png", "a b/c d.jpg", "./rel/../UP.Tga", "", "tex/ünï.png", "plain.png"}
	sp := func() *string {
		if c.Rng.Intn(4) == 0 {
			return nil
		}
		s := uris[c.Rng.Intn(len(uris))]
		return &s
	}
	cl := func() color.Color {
		switch c.Rng.Intn(3) {
		case 0:
			return nil
		case 1:
			return color.RGBA{uint8(c.Rng.Intn(256)), uint8(c.Rng.Intn(256)), 7, 255}
		}
		return color.NRGBA{200, 100, 50, uint8(c.Rng.Intn(256))}
	}
	var out []*modeling.Material
	for i := 0; i < 3; i++ {
		out = append(out, &modeling.Material{Name: []string{"mat", "Mat With Space", "m\\b"}[c.Rng.Intn(3)] + fmt.Sprint(i),
			AmbientColor: cl(), DiffuseColor: cl(), SpecularColor: cl(), SpecularHighlight: float64(c.Rng.Intn(1000)),
			OpticalDensity: 1.5, Transparency: c.Rng.Float64(), ColorTextureURI: sp(), NormalTextureURI: sp(), SpecularTextureURI: sp()})
	}
	return out
}

func (h *c01Hist) tmp() string {
	d := filepath.Join(os.TempDir(), fmt.Sprintf("c01h-%d", os.Getpid()))
	os.MkdirAll(d, 0o755)
	return d
}

func (h *c01Hist) val() float64 { h.next++; return h.next }

// values a writer may be tempted to "clean up": non-unit / zero / huge / tiny / negative / NaN / Inf
func (h *c01Hist) awk() float64 {
	return []float64{0, 0, 1, -1, 0.5, 2, 7, 1e30, -1e30, 1e-30, 1.5, -0.25, 255, math.NaN(), math.Inf(1), math.Inf(-1)}[h.c.Rng.Intn(16)]
}

func (h *c01Hist) spare() int { return []int{0, 0, 0, 1, 3, 8}[h.c.Rng.Intn(6)] }

func (h *c01Hist) f1s(n int) []float64 {
	d := make([]float64, n, n+h.spare())
	for i := range d {
		d[i] = h.val()
	}
	h.keep = append(h.keep, d)
	return d
}
func (h *c01Hist) f2s(n int) []vector2.Float64 {
	d := make([]vector2.Float64, n, n+h.spare())
	for i := range d {
		d[i] = vector2.New(h.val(), h.val())
	}
	h.keep = append(h.keep, d)
	return d
}
func (h *c01Hist) f3s(n int, grid bool) []vector3.Float64 {
	d := make([]vector3.Float64, n, n+h.spare())
	for i := range d {
		if grid {
			d[i] = vector3.New(float64(h.c.Rng.Intn(3)), float64(h.c.Rng.Intn(3)), float64(h.c.Rng.Intn(2)))
		} else {
			d[i] = vector3.New(h.val(), h.val(), h.val())
		}
	}
	h.keep = append(h.keep, d)
	return d
}
func (h *c01Hist) f4s(n int) []vector4.Float64 {
	d := make([]vector4.Float64, n, n+h.spare())
	for i := range d {
		d[i] = vector4.New(h.val(), h.val(), h.val(), h.val())
	}
	h.keep = append(h.keep, d)
	return d
}

func c01IndexSize(t modeling.Topology) int {
	switch t {
	case modeling.TriangleTopology:
		return 3
	case modeling.QuadTopology:
		return 4
	case modeling.LineTopology:
		return 2
	}
	return 1
}

func (h *c01Hist) indicesFor(t modeling.Topology, n int) []int {
	if n == 0 {
		return make([]int, 0, h.spare())
	}
	prims := h.c.Rng.Intn(2*n + 1)
	if t == modeling.LineStripTopology && prims < 2 {
		prims = 2
	}
	k := prims * c01IndexSize(t)
	idx := make([]int, k, k+h.spare())
	ident := h.c.Rng.Intn(4) == 0
	for i := range idx {
		if ident {
			idx[i] = i % n
		} else {
			idx[i] = h.c.Rng.Intn(n)
		}
	}
	h.keep = append(h.keep, idx)
	return idx
}

func (h *c01Hist) materialsFor(prims int) []modeling.MeshMaterial {
	k := []int{0, 0, 1, 2, 3}[h.c.Rng.Intn(5)]
	if k == 0 {
		if h.c.Rng.Intn(2) == 0 {
			return nil
		}
		return make([]modeling.MeshMaterial, 0, h.spare())
	}
	ms := make([]modeling.MeshMaterial, k, k+h.spare())
	left := prims
	for i := range ms {
		cnt := left
		if i < k-1 {
			cnt = h.c.Rng.Intn(left + 1)
		}
		left -= cnt
		ms[i] = modeling.MeshMaterial{PrimitiveCount: cnt, Material: h.pal[h.c.Rng.Intn(len(h.pal))]}
	}
	h.keep = append(h.keep, ms)
	return ms
}

var c01Sizes = []int{0, 1, 2, 3, 3, 4, 4, 6, 8, 12, 20, 40}

func (h *c01Hist) randomMesh(topo modeling.Topology, n int) modeling.Mesh {
	idx := h.indicesFor(topo, n)
	m := modeling.NewMesh(topo, idx)
	if n > 0 {
		v3 := map[string][]vector3.Float64{}
		if h.c.Rng.Intn(100) < 88 {
			v3[modeling.PositionAttribute] = h.f3s(n, h.c.Rng.Intn(3) == 0)
		}
		if h.c.Rng.Intn(100) < 40 {
			v3[modeling.NormalAttribute] = h.f3s(n, false)
		}
		v2 := map[string][]vector2.Float64{}
		if h.c.Rng.Intn(100) < 40 {
			v2[modeling.TexCoordAttribute] = h.f2s(n)
		}
		v4 := map[string][]vector4.Float64{}
		if h.c.Rng.Intn(100) < 25 {
			v4[modeling.ColorAttribute] = h.f4s(n)
		}
		v1 := map[string][]float64{}
		if h.c.Rng.Intn(100) < 30 {
			v1["Weight"] = h.f1s(n)
		}
		h.keep = append(h.keep, v1, v2, v3, v4)
		m = m.SetFloat3Data(v3).SetFloat2Data(v2).SetFloat4Data(v4).SetFloat1Data(v1)
	}
	if ms := h.materialsFor(len(idx) / c01IndexSize(topo)); ms != nil || h.c.Rng.Intn(2) == 0 {
		m = m.SetMaterials(ms)
	}
	return m
}

func (h *c01Hist) topo() modeling.Topology {
	switch x := h.c.Rng.Intn(100); {
	case x < 60:
		return modeling.TriangleTopology
	case x < 78:
		return modeling.PointTopology
	case x < 86:
		return modeling.QuadTopology
	case x < 94:
		return modeling.LineTopology
	default:
		return modeling.LineStripTopology
	}
}

// signed / zero / unusual extents: primitives must not write through package-level tables or earlier instances
// whatever their parameters are (mirrored, degenerate, tiny, large)
func (h *c01Hist) ext() float64 {
	if h.c.Rng.Intn(2) == 0 {
		return []float64{0.5, 1}[h.c.Rng.Intn(2)] // the defaults: so that two constructions often share EXACT parameters (caches keyed by them)
	}
	return []float64{-3, -2, -1, -0.5, 0, 0.25, 1, 1, 2, 3, 1e-9, 1e6}[h.c.Rng.Intn(12)]
}

// transform arguments where fast paths sit: exactly uniform scales, identity, zero, axis-aligned, mirrored — and general ones
func (h *c01Hist) scaleArg() vector3.Float64 {
	return []vector3.Float64{vector3.New(2., 2., 2.), vector3.New(0.5, 0.5, 0.5), vector3.New(-1., -1., -1.), vector3.New(1., 1., 1.),
		vector3.New(0., 0., 0.), vector3.New(3., 3., 3.), vector3.New(2., 2., 0.5), vector3.New(1., -1., 1.), vector3.New(1., 1., 4.)}[h.c.Rng.Intn(9)]
}
func (h *c01Hist) translateArg() vector3.Float64 {
	return []vector3.Float64{vector3.New(0., 0., 0.), vector3.New(1., 0., 0.), vector3.New(0., -2., 0.), vector3.New(1., 2., 3.), vector3.New(5., 5., 5.)}[h.c.Rng.Intn(5)]
}
func (h *c01Hist) rotateArg() quaternion.Quaternion {
	return []quaternion.Quaternion{quaternion.Identity(), quaternion.FromTheta(0, vector3.Up[float64]()), quaternion.FromTheta(math.Pi, vector3.Up[float64]()),
		quaternion.FromTheta(math.Pi/2, vector3.Right[float64]()), quaternion.FromTheta(1.25, vector3.Up[float64]()),
		quaternion.FromTheta(0.3, vector3.New(1., 1., 1.).Normalized())}[h.c.Rng.Intn(6)]
}

func (h *c01Hist) pts3(n int) []vector3.Float64 {
	out := make([]vector3.Float64, n)
	for i := range out {
		out[i] = vector3.New(float64(i)*h.ext(), float64(i), h.ext())
	}
	return out
}

type c01Builder struct {
	name string
	f    func(h *c01Hist) modeling.Mesh
}

// every mesh builder of modeling/primitives, modeling/extrude and the repeat helpers, with drawn parameters
var c01Builders = []c01Builder{
	{"cube.welded", func(h *c01Hist) modeling.Mesh {
		c := primitives.Cube{Height: h.ext(), Width: h.ext(), Depth: h.ext()}
		if h.c.Rng.Intn(2) == 0 {
			c.UVs = primitives.DefaultCubeUVs()
		}
		if c.Height*c.Width*c.Depth < 0 {
			h.c.Note("gen.cube.welded.mirrored")
		}
		return c.Welded()
	}},
	{"cube.unit", func(h *c01Hist) modeling.Mesh { return primitives.UnitCube() }},
	{"cube.unwelded", func(h *c01Hist) modeling.Mesh {
		c := primitives.Cube{Height: h.ext(), Width: h.ext(), Depth: h.ext()}
		if h.c.Rng.Intn(2) == 0 {
			c.UVs = primitives.DefaultCubeUVs()
		}
		return c.UnweldedQuads()
	}},
	{"quad", func(h *c01Hist) modeling.Mesh {
		q := primitives.Quad{Width: h.ext(), Depth: h.ext()}
		if h.c.Rng.Intn(2) == 0 {
			q.UVs = primitives.DefaultCubeUVs().Top
		}
		return q.ToMesh()
	}},
	{"uvsphere", func(h *c01Hist) modeling.Mesh {
		return primitives.UVSphere(h.ext(), 1+h.c.Rng.Intn(5), 2+h.c.Rng.Intn(5))
	}},
	{"uvsphere.unwelded", func(h *c01Hist) modeling.Mesh {
		return primitives.UVSphereUnwelded(h.ext(), 1+h.c.Rng.Intn(5), 2+h.c.Rng.Intn(5))
	}},
	{"cylinder", func(h *c01Hist) modeling.Mesh {
		return primitives.Cylinder{Sides: 2 + h.c.Rng.Intn(7), Height: h.ext(), Radius: h.ext(),
			NoTop: h.c.Rng.Intn(3) == 0, NoBottom: h.c.Rng.Intn(3) == 0}.ToMesh()
	}},
	{"circle", func(h *c01Hist) modeling.Mesh {
		c := primitives.Circle{Sides: 2 + h.c.Rng.Intn(7), Radius: h.ext()}
		if h.c.Rng.Intn(2) == 0 {
			c.UVs = &primitives.CircleUVs{Center: vector2.New(0.5, 0.5), Radius: 0.5}
		}
		return c.ToMesh()
	}},
	{"cone", func(h *c01Hist) modeling.Mesh {
		return primitives.Cone{Height: h.ext(), Radius: h.ext(), Sides: 2 + h.c.Rng.Intn(6)}.ToMesh()
	}},
	{"hemisphere", func(h *c01Hist) modeling.Mesh {
		return primitives.Hemisphere{Radius: h.ext(), Capped: h.c.Rng.Intn(2) == 0}.UV(1+h.c.Rng.Intn(4), 2+h.c.Rng.Intn(5))
	}},
	{"extrude.polygon", func(h *c01Hist) modeling.Mesh {
		ps := make([]extrude.ExtrusionPoint, 1+h.c.Rng.Intn(4))
		for i := range ps {
			ps[i] = extrude.ExtrusionPoint{Point: vector3.New(0., float64(i), h.ext()), Thickness: h.ext()}
			if h.c.Rng.Intn(3) == 0 {
				ps[i].UV = &extrude.ExtrusionPointUV{Point: vector2.New(0.5, float64(i)), Thickness: 1}
			}
		}
		return extrude.Polygon(2+h.c.Rng.Intn(5), ps)
	}},
	{"extrude.circle", func(h *c01Hist) modeling.Mesh {
		return extrude.Circle{Resolution: 3 + h.c.Rng.Intn(4), Radius: h.ext(), Path: h.pts3(2 + h.c.Rng.Intn(3)), ClosePath: h.c.Rng.Intn(2) == 0}.Extrude()
	}},
	{"extrude.line", func(h *c01Hist) modeling.Mesh {
		ps := make([]extrude.LinePoint, 1+h.c.Rng.Intn(4))
		for i := range ps {
			ps[i] = extrude.LinePoint{Point: vector3.New(float64(i), 0., h.ext()), Up: vector3.Up[float64](), Width: h.ext(), Height: h.ext(), UvWidth: 1}
		}
		return extrude.Line(ps)
	}},
	{"extrude.shape", func(h *c01Hist) modeling.Mesh {
		shape := []vector2.Float64{vector2.New(h.ext(), 0.), vector2.New(0., h.ext()), vector2.New(-1., -1.), vector2.New(1., -1.)}[:2+h.c.Rng.Intn(3)]
		if h.c.Rng.Intn(2) == 0 {
			return extrude.ClosedShape(shape, h.pts3(2+h.c.Rng.Intn(3)))
		}
		return extrude.Shape(shape, h.pts3(2+h.c.Rng.Intn(3)))
	}},
	{"repeat.circle", func(h *c01Hist) modeling.Mesh {
		return repeat.Mesh(primitives.Cube{Height: h.ext(), Width: h.ext(), Depth: 1}.Welded(), repeat.Circle(h.c.Rng.Intn(4), h.ext()))
	}},
	{"repeat.line", func(h *c01Hist) modeling.Mesh {
		return repeat.Mesh(primitives.Quad{Width: h.ext(), Depth: 1}.ToMesh(), repeat.Line(vector3.Zero[float64](), vector3.New(h.ext(), 0., 1.), h.c.Rng.Intn(3)))
	}},
	{"repeat.fibonacci", func(h *c01Hist) modeling.Mesh {
		return repeat.Mesh(primitives.UnitCube(), repeat.FibonacciSphere(1+h.c.Rng.Intn(4), h.ext()))
	}},
	{"empty", func(h *c01Hist) modeling.Mesh { return modeling.EmptyMesh(h.topo()) }},
	// node defaults, ONE parameter varying: repeated constructions share exact keys (sides, radius, …) while earlier instances are live
	{"cone.default", func(h *c01Hist) modeling.Mesh {
		return primitives.Cone{Height: h.ext(), Radius: 0.5, Sides: 3}.ToMesh()
	}},
	{"cylinder.default", func(h *c01Hist) modeling.Mesh {
		return primitives.Cylinder{Sides: 16, Height: h.ext(), Radius: 0.5}.ToMesh()
	}},
	{"circle.default", func(h *c01Hist) modeling.Mesh { return primitives.Circle{Sides: 12, Radius: 0.5}.ToMesh() }},
	{"uvsphere.default", func(h *c01Hist) modeling.Mesh { return primitives.UVSphere(0.5, 3, 4) }},
	{"hemisphere.default", func(h *c01Hist) modeling.Mesh {
		return primitives.Hemisphere{Radius: 0.5, Capped: h.c.Rng.Intn(2) == 0}.UV(3, 4)
	}},
	{"quad.default", func(h *c01Hist) modeling.Mesh { return primitives.Quad{Width: 1, Depth: 1}.ToMesh() }},
	{"cube.default", func(h *c01Hist) modeling.Mesh { return primitives.Cube{Height: h.ext(), Width: 1, Depth: 1}.Welded() }},
	{"extrude.circle.default", func(h *c01Hist) modeling.Mesh {
		return extrude.Circle{Resolution: 6, Radius: 0.5, Path: []vector3.Float64{vector3.Zero[float64](), vector3.New(0., h.ext(), 0.)}}.Extrude()
	}},
	{"splatcloud", func(h *c01Hist) modeling.Mesh {
		n := 1 + h.c.Rng.Intn(5)
		rot := make([]vector4.Float64, n)
		for i := range rot {
			rot[i] = vector4.New(h.awk(), 1., 0., 0.5)
		}
		op := make([]float64, n)
		for i := range op {
			op[i] = h.awk()
		}
		h.keep = append(h.keep, rot, op)
		return modeling.NewPointCloud(
			map[string][]vector4.Float64{modeling.RotationAttribute: rot},
			map[string][]vector3.Float64{modeling.PositionAttribute: h.f3s(n, false), modeling.ScaleAttribute: h.f3s(n, true), modeling.FDCAttribute: h.f3s(n, true)},
			nil, map[string][]float64{modeling.OpacityAttribute: op}, nil)
	}},
}

// a library-built mesh: often a builder already used in this history (a SECOND instance while the first is live)
func (h *c01Hist) builtMesh() (m modeling.Mesh, ok bool) {
	k := h.c.Rng.Intn(len(c01Builders))
	if len(h.usedB) > 0 && h.c.Rng.Intn(2) == 0 {
		k = h.usedB[h.c.Rng.Intn(len(h.usedB))]
		h.c.Note("gen.again")
	}
	b := c01Builders[k]
	defer func() {
		if r := recover(); r != nil {
			if c01Debug {
				fmt.Fprintf(os.Stderr, "panic in builder %s: %v\n", b.name, r)
			}
			h.c.Note("gen.panic." + b.name)
			ok = false
		}
	}()
	m = b.f(h)
	h.usedB = append(h.usedB, k)
	h.c.Note("gen." + b.name)
	return m, true
}

func (h *c01Hist) newBase() modeling.Mesh {
	if h.c.Rng.Intn(100) < 45 {
		if m, ok := h.builtMesh(); ok {
			return m
		}
	}
	h.c.Note("gen.random")
	return h.randomMesh(h.topo(), c01Sizes[h.c.Rng.Intn(len(c01Sizes))])
}

// ---------------------------------------------------------------------------------------------
// operations

type c01Result struct {
	mesh modeling.Mesh
	req  string // model operation class + parameters ("" = no shape line)
	args []int  // pool positions of the argument meshes
	redo func() modeling.Mesh
}

type c01Redo struct {
	idx int
	f   func() modeling.Mesh
}

// value-level correspondence of Append: both arguments' values go to the driver, which runs the heap model's
// appendCopy on a heap holding them and reads the result back with `obs`
func (h *c01Hist) appendChecked(a, b modeling.Mesh) modeling.Mesh {
	ca, cb := h.canon(a), h.canon(b)
	var out modeling.Mesh
	ans := Guard(func() string { out = a.Append(b); return h.canon(out) })
	if c01Ragged(a) || c01Ragged(b) {
		// the result depends on the map order: it must be the pure Append for SOME resolution of the two AttributeLength() calls
		if ans != "panic" {
			h.c.Emit("c01.holds.append_in_set", ca+" | "+cb+" | "+ans, "true")
			h.c.Note("append.ragged")
		}
	} else {
		h.c.Emit("c01.append", fmt.Sprintf("%d %d %s | %s", c01AttrLen(a), c01AttrLen(b), ca, cb), ans)
	}
	if ans == "panic" {
		panic("append rejected")
	}
	return out
}

func hasPos(m modeling.Mesh) bool { return m.HasFloat3Attribute(modeling.PositionAttribute) }
func isTri(m modeling.Mesh) bool  { return m.Topology() == modeling.TriangleTopology }

// every attribute length of a mesh (sorted by kind, name)
func c01Lens(m modeling.Mesh) []int {
	var out []int
	for _, a := range m.Float1Attributes() {
		out = append(out, m.Float1Attribute(a).Len())
	}
	for _, a := range m.Float2Attributes() {
		out = append(out, m.Float2Attribute(a).Len())
	}
	for _, a := range m.Float3Attributes() {
		out = append(out, m.Float3Attribute(a).Len())
	}
	for _, a := range m.Float4Attributes() {
		out = append(out, m.Float4Attribute(a).Len())
	}
	return out
}

// ragged: attribute arrays of different lengths (SetFloatNAttribute does no length check). Mesh.AttributeLength() then
// depends on Go's randomised map iteration, so Append / ToPointCloud results vary from call to call.
func c01Ragged(m modeling.Mesh) bool {
	l := c01Lens(m)
	for _, x := range l {
		if x != l[0] {
			return true
		}
	}
	return false
}

// deterministic stand-in for AttributeLength(): the smallest attribute length (equal to AttributeLength() unless ragged)
func c01AttrLen(m modeling.Mesh) int {
	l := c01Lens(m)
	if len(l) == 0 {
		return 0
	}
	n := l[0]
	for _, x := range l {
		if x < n {
			n = x
		}
	}
	return n
}

func c01NoAttrs(m modeling.Mesh) bool {
	return len(m.Float1Attributes())+len(m.Float2Attributes())+len(m.Float3Attributes())+len(m.Float4Attributes()) == 0
}

// length of one named attribute (what the attribute-replacing operations size their result by)
func c01LenOf(m modeling.Mesh, kind int, at string) int {
	switch {
	case kind == 0 && m.HasFloat1Attribute(at):
		return m.Float1Attribute(at).Len()
	case kind == 1 && m.HasFloat2Attribute(at):
		return m.Float2Attribute(at).Len()
	case kind == 2 && m.HasFloat3Attribute(at):
		return m.Float3Attribute(at).Len()
	case kind == 3 && m.HasFloat4Attribute(at):
		return m.Float4Attribute(at).Len()
	}
	return 0
}

func (h *c01Hist) v3Attr(m modeling.Mesh) (string, bool) {
	a := m.Float3Attributes()
	if len(a) == 0 {
		return "", false
	}
	return a[h.c.Rng.Intn(len(a))], true
}

var c01OpNames = []string{
	"append", "append", "append", "append", "append", "append",
	"setindices", "flipwinding", "setmaterials", "setmaterial", "sharematerials", "topointcloud", "clearattrs",
	"setdata", "setattr", "setattr", "setattr.delete", "modify", "modify.parallel", "translate", "scale", "rotate", "applytrs",
	"copyattr", "weld", "unweld", "removeunreferenced", "filter", "crop", "removenullfaces", "split", "slice",
	"flatnormals", "smoothnormals", "smoothnormals.implicitweld", "laplacian", "center", "normalize", "meshops.translate", "meshops.scale",
	"meshops.rotate", "scalealongnormal", "vertexcolorspace", "transform.chain", "repeat",
	"write.ply", "write.obj", "write.gltf", "write.stl", "readonly",
	"write.ply", "write.ply.meshwriter", "write.ply.save", "write.obj.meshes", "write.obj.save", "write.stl.save",
	"write.gltf", "write.gltf", "write.gltf.text", "write.gltf.save", "write.splat", "write.spz", "awkward",
	"write.obj.materials", "write.obj.materials", "removenullfaces", "removenullfaces",
	"ragged", "ragged",
}

// one operation on the pool; results (possibly none) are returned; a panic of the library is reported as ok=false
func (h *c01Hist) apply(name string) (res []c01Result, ok bool) {
	defer func() {
		if r := recover(); r != nil {
			if c01Debug {
				fmt.Fprintf(os.Stderr, "panic in %s: %v\n", name, r)
			}
			h.c.Note("op.panic." + name)
			res, ok = nil, false
		}
	}()
	rng := h.c.Rng
	one := func(m modeling.Mesh, req string, args ...int) []c01Result { return []c01Result{{m, req, args, nil}} }
	re := func(f func() modeling.Mesh, req string, args ...int) []c01Result {
		return []c01Result{{f(), req, args, f}}
	}
	switch name {
	case "append":
		a := h.pick()
		b := h.pickWhere(func(m modeling.Mesh) bool { return m.Topology() == h.pool[a].Topology() })
		if rng.Intn(12) == 0 {
			b = h.pick() // possibly a topology mismatch: must panic without touching anything
		}
		ma, mb := h.pool[a], h.pool[b]
		if c01Ragged(ma) || c01Ragged(mb) {
			return one(h.appendChecked(ma, mb), "", a, b), true // value level: set of possible outcomes; immutability re-reads as always
		}
		return []c01Result{{h.appendChecked(ma, mb), fmt.Sprintf("append %d %d", c01AttrLen(ma), c01AttrLen(mb)), []int{a, b}, func() modeling.Mesh { return ma.Append(mb) }}}, true
	case "setindices":
		a := h.pick()
		m := h.pool[a]
		idx := h.indicesFor(m.Topology(), c01AttrLen(m))
		return one(m.SetIndices(idx), fmt.Sprintf("setindices %d %d", len(idx), cap(idx)-len(idx)), a), true
	case "flipwinding":
		a := h.pickWhere(isTri)
		if a < 0 {
			return nil, true
		}
		m := h.pool[a]
		return re(func() modeling.Mesh { return meshops.FlipTriangleWinding(m) }, fmt.Sprintf("setindices %d 0", m.Indices().Len()), a), true
	case "setmaterials":
		a := h.pick()
		ms := h.materialsFor(h.pool[a].Indices().Len() / c01IndexSize(h.pool[a].Topology()))
		return one(h.pool[a].SetMaterials(ms), fmt.Sprintf("setmaterials %d %d", len(ms), cap(ms)-len(ms)), a), true
	case "setmaterial":
		a := h.pick()
		return one(h.pool[a].SetMaterial(*h.pal[rng.Intn(len(h.pal))]), "setmaterials 1 0", a), true
	case "sharematerials":
		a, b := h.pick(), h.pick()
		return one(h.pool[a].SetMaterials(h.pool[b].Materials()), "sharematerials", a, b), true
	case "topointcloud":
		a := h.pick()
		m := h.pool[a]
		if c01Ragged(m) {
			h.c.Note("topointcloud.ragged")
			return one(m.ToPointCloud(), "", a), true
		}
		return re(func() modeling.Mesh { return m.ToPointCloud() }, fmt.Sprintf("topointcloud %d", c01AttrLen(m)), a), true
	case "clearattrs":
		a := h.pick()
		return one(h.pool[a].ClearAttributeData(), "clearattrs", a), true
	case "setdata":
		a := h.pick()
		m := h.pool[a]
		n := c01AttrLen(m)
		if c01NoAttrs(m) {
			n = rng.Intn(4)
		}
		names := []string{"Position", "Extra"}[:1+rng.Intn(2)]
		if rng.Intn(5) == 0 {
			names = nil
		}
		sort.Strings(names)
		kind := rng.Intn(4)
		var b strings.Builder
		fmt.Fprintf(&b, "setdata %d %d", kind, len(names))
		var out modeling.Mesh
		switch kind {
		case 0:
			d := map[string][]float64{}
			for _, nm := range names {
				d[nm] = h.f1s(n)
				fmt.Fprintf(&b, " %s %d %d", nm, n, cap(d[nm])-n)
			}
			h.keep = append(h.keep, d)
			out = m.SetFloat1Data(d)
		case 1:
			d := map[string][]vector2.Float64{}
			for _, nm := range names {
				d[nm] = h.f2s(n)
				fmt.Fprintf(&b, " %s %d %d", nm, n, cap(d[nm])-n)
			}
			h.keep = append(h.keep, d)
			out = m.SetFloat2Data(d)
		case 2:
			d := map[string][]vector3.Float64{}
			for _, nm := range names {
				d[nm] = h.f3s(n, false)
				fmt.Fprintf(&b, " %s %d %d", nm, n, cap(d[nm])-n)
			}
			h.keep = append(h.keep, d)
			out = m.SetFloat3Data(d)
		default:
			d := map[string][]vector4.Float64{}
			for _, nm := range names {
				d[nm] = h.f4s(n)
				fmt.Fprintf(&b, " %s %d %d", nm, n, cap(d[nm])-n)
			}
			h.keep = append(h.keep, d)
			out = m.SetFloat4Data(d)
		}
		return one(out, b.String(), a), true
	case "setattr", "setattr.delete":
		a := h.pick()
		m := h.pool[a]
		n := c01AttrLen(m)
		if c01NoAttrs(m) && name == "setattr" {
			n = rng.Intn(4)
		}
		if name == "setattr.delete" {
			n = 0
		}
		kind := rng.Intn(4)
		nm := [][]string{{"Weight", "Extra"}, {modeling.TexCoordAttribute, "Extra"}, {modeling.PositionAttribute, modeling.NormalAttribute, "Extra"}, {modeling.ColorAttribute, "Extra"}}[kind]
		at := nm[rng.Intn(len(nm))]
		var out modeling.Mesh
		var cp int
		switch kind {
		case 0:
			d := h.f1s(n)
			cp = cap(d)
			out = m.SetFloat1Attribute(at, d)
		case 1:
			d := h.f2s(n)
			cp = cap(d)
			out = m.SetFloat2Attribute(at, d)
		case 2:
			d := h.f3s(n, false)
			cp = cap(d)
			out = m.SetFloat3Attribute(at, d)
		default:
			d := h.f4s(n)
			cp = cap(d)
			out = m.SetFloat4Attribute(at, d)
		}
		return one(out, fmt.Sprintf("setattr %d %s %d %d", kind, at, n, cp-n), a), true
	case "ragged":
		// SetFloatNAttribute with a DIFFERENT length: accepted by the library; AttributeLength() of the result depends on map order
		a := h.pickWhere(func(m modeling.Mesh) bool { return !c01NoAttrs(m) })
		if a < 0 {
			return nil, true
		}
		m := h.pool[a]
		n := c01AttrLen(m) + []int{-1, 1, 2, 5}[rng.Intn(4)]
		if n < 1 {
			n = c01AttrLen(m) + 1
		}
		if rng.Intn(2) == 0 {
			d := h.f3s(n, false)
			return one(m.SetFloat3Attribute("Ragged", d), fmt.Sprintf("setattr 2 Ragged %d %d", n, cap(d)-n), a), true
		}
		d := h.f1s(n)
		return one(m.SetFloat1Attribute("Ragged", d), fmt.Sprintf("setattr 0 Ragged %d %d", n, cap(d)-n), a), true
	case "awkward":
		// normals / colours / texcoords / weights with awkward values (never positions: spatial structures need finite ones)
		a := h.pick()
		m := h.pool[a]
		n := c01AttrLen(m)
		if c01NoAttrs(m) {
			n = 1 + rng.Intn(4)
		}
		switch rng.Intn(4) {
		case 0:
			d := make([]vector3.Float64, n)
			for i := range d {
				d[i] = vector3.New(h.awk(), h.awk(), h.awk())
			}
			h.keep = append(h.keep, d)
			return one(m.SetFloat3Attribute(modeling.NormalAttribute, d), fmt.Sprintf("setattr 2 %s %d 0", modeling.NormalAttribute, n), a), true
		case 1:
			d := make([]vector4.Float64, n)
			for i := range d {
				d[i] = vector4.New(h.awk(), h.awk(), h.awk(), h.awk())
			}
			h.keep = append(h.keep, d)
			return one(m.SetFloat4Attribute(modeling.ColorAttribute, d), fmt.Sprintf("setattr 3 %s %d 0", modeling.ColorAttribute, n), a), true
		case 2:
			d := make([]vector2.Float64, n)
			for i := range d {
				d[i] = vector2.New(h.awk(), h.awk())
			}
			h.keep = append(h.keep, d)
			return one(m.SetFloat2Attribute(modeling.TexCoordAttribute, d), fmt.Sprintf("setattr 1 %s %d 0", modeling.TexCoordAttribute, n), a), true
		default:
			d := make([]vector3.Float64, n)
			for i := range d {
				d[i] = vector3.New(h.awk(), h.awk(), h.awk())
			}
			h.keep = append(h.keep, d)
			return one(m.SetFloat3Attribute(modeling.ColorAttribute, d), fmt.Sprintf("setattr 2 %s %d 0", modeling.ColorAttribute, n), a), true
		}
	case "modify", "modify.parallel":
		a := h.pick()
		m := h.pool[a]
		kind := rng.Intn(3)
		var names []string
		for t := 0; t < 3 && len(names) == 0; t++ {
			switch kind = (kind + 1) % 3; kind {
			case 0:
				names = m.Float1Attributes()
			case 1:
				names = m.Float2Attributes()
			default:
				names = m.Float3Attributes()
			}
		}
		at := "Missing" // a missing attribute must panic without touching anything
		if len(names) > 0 && rng.Intn(10) != 0 {
			at = names[rng.Intn(len(names))]
		}
		par := name == "modify.parallel"
		pool := 2 + rng.Intn(3)
		var out modeling.Mesh
		switch kind {
		case 0:
			f := func(i int, v float64) float64 { return v + 1000 }
			if par {
				out = m.ModifyFloat1AttributeParallelWithPoolSize(at, pool, f)
			} else {
				out = m.ModifyFloat1Attribute(at, f)
			}
		case 1:
			f := func(i int, v vector2.Float64) vector2.Float64 { return v.Scale(2) }
			if par {
				out = m.ModifyFloat2AttributeParallelWithPoolSize(at, pool, f)
			} else {
				out = m.ModifyFloat2Attribute(at, f)
			}
		default:
			f := func(i int, v vector3.Float64) vector3.Float64 { return v.Add(vector3.New(float64(i), 0, 1)) }
			if par {
				out = m.ModifyFloat3AttributeParallelWithPoolSize(at, pool, f)
			} else {
				out = m.ModifyFloat3Attribute(at, f)
			}
		}
		return one(out, fmt.Sprintf("setattr %d %s %d 0", kind, at, c01LenOf(m, kind, at)), a), true
	case "translate", "scale", "rotate", "applytrs":
		a := h.pickWhere(hasPos)
		if a < 0 || rng.Intn(15) == 0 {
			a = h.pick() // possibly no position: must panic without touching anything
		}
		m := h.pool[a]
		sa, ta, ra := h.scaleArg(), h.translateArg(), h.rotateArg()
		f := func() modeling.Mesh {
			switch name {
			case "translate":
				return m.Translate(ta)
			case "scale":
				return m.Scale(sa)
			case "rotate":
				return m.Rotate(ra)
			}
			return m.ApplyTRS(trs.New(ta, ra, sa))
		}
		return re(f, fmt.Sprintf("setattr 2 %s %d 0", modeling.PositionAttribute, c01LenOf(m, 2, modeling.PositionAttribute)), a), true
	case "copyattr":
		a := h.pick()
		// keep the pool well-formed (one attribute length per mesh): the source has the receiver's length
		b := h.pickWhere(func(m modeling.Mesh) bool {
			return c01AttrLen(m) == c01AttrLen(h.pool[a]) || len(h.pool[a].Float1Attributes())+len(h.pool[a].Float2Attributes())+len(h.pool[a].Float3Attributes())+len(h.pool[a].Float4Attributes()) == 0
		})
		if b < 0 {
			return nil, true
		}
		m, src := h.pool[a], h.pool[b]
		kind := rng.Intn(4)
		var names []string
		switch kind {
		case 0:
			names = src.Float1Attributes()
		case 1:
			names = src.Float2Attributes()
		case 2:
			names = src.Float3Attributes()
		default:
			names = src.Float4Attributes()
		}
		at := "Missing"
		if len(names) > 0 {
			at = names[rng.Intn(len(names))]
		}
		var out modeling.Mesh
		switch kind {
		case 0:
			out = m.CopyFloat1Attribute(src, at)
		case 1:
			out = m.CopyFloat2Attribute(src, at)
		case 2:
			out = m.CopyFloat3Attribute(src, at)
		default:
			out = m.CopyFloat4Attribute(src, at)
		}
		return one(out, fmt.Sprintf("copyattr %d %s", kind, at), a, b), true
	case "weld":
		a := h.pickWhere(func(m modeling.Mesh) bool { return isTri(m) && hasPos(m) })
		if a < 0 {
			return nil, true
		}
		m := h.pool[a]
		f := func() modeling.Mesh { return m.WeldByFloat3Attribute(modeling.PositionAttribute, 2) }
		out := f()
		return []c01Result{{out, c01RebuildParams(out, 1), []int{a}, f}}, true
	case "unweld":
		a := h.pick()
		m := h.pool[a]
		f := func() modeling.Mesh { return meshops.Unweld(m) }
		out := f()
		return []c01Result{{out, c01RebuildParams(out, 0), []int{a}, f}}, true
	case "removeunreferenced":
		a := h.pick()
		m := h.pool[a]
		f := func() modeling.Mesh { return m.Transform(meshops.RemovedUnreferencedVerticesTransformer{}) }
		out := f()
		return []c01Result{{out, c01RebuildParams(out, 0), []int{a}, f}}, true
	case "filter":
		a := h.pick()
		m := h.pool[a]
		var out modeling.Mesh
		switch {
		case len(m.Float3Attributes()) > 0 && rng.Intn(2) == 0:
			at := m.Float3Attributes()[0]
			out = meshops.FilterFloat3(m, at, func(v vector3.Float64) bool { return int(v.X())%2 == 0 })
		case len(m.Float1Attributes()) > 0:
			out = meshops.FilterFloat1(m, m.Float1Attributes()[0], func(v float64) bool { return int(v)%3 != 0 })
		case len(m.Float2Attributes()) > 0:
			out = meshops.FilterFloat2(m, m.Float2Attributes()[0], func(v vector2.Float64) bool { return int(v.X())%2 == 0 })
		case len(m.Float4Attributes()) > 0:
			out = meshops.FilterFloat4(m, m.Float4Attributes()[0], func(v vector4.Float64) bool { return int(v.X())%2 == 0 })
		default:
			return nil, true
		}
		return one(out, c01RebuildParams(out, 0), a), true
	case "crop":
		a := h.pickWhere(func(m modeling.Mesh) bool { return hasPos(m) && m.Topology() == modeling.PointTopology })
		if a < 0 {
			return nil, true
		}
		m := h.pool[a]
		box := m.BoundingBox(modeling.PositionAttribute)
		box = geometry.NewAABB(box.Center(), box.Size().Scale(0.6))
		out := meshops.CropFloat3Attribute(m, modeling.PositionAttribute, box)
		return one(out, c01RebuildParams(out, 0), a), true
	case "removenullfaces":
		a := h.pickWhere(func(m modeling.Mesh) bool { return isTri(m) && hasPos(m) })
		if a < 0 {
			return nil, true
		}
		out := meshops.RemoveNullFaces3D(h.pool[a], modeling.PositionAttribute, 0.1)
		if out.Indices().Len() == h.pool[a].Indices().Len() {
			return one(out, "identity", a), true // "nothing to remove, just return the mesh passed in"
		}
		return one(out, c01RebuildParams(out, 0), a), true
	case "split":
		a := h.pickWhere(func(m modeling.Mesh) bool { return isTri(m) && len(m.Materials()) > 1 })
		if a < 0 {
			a = h.pickWhere(isTri)
		}
		if a < 0 {
			return nil, true
		}
		parts := meshops.SplitOnUniqueMaterials(h.pool[a])
		if len(h.pool[a].Materials()) < 2 {
			return one(parts[0], "identity", a), true
		}
		for _, p := range parts {
			res = append(res, c01Result{p, "", []int{a}, nil}) // fresh arrays + a fresh one-element material slice: value level only
		}
		return res, true
	case "slice":
		a := h.pickWhere(func(m modeling.Mesh) bool { return isTri(m) && hasPos(m) })
		if a < 0 {
			return nil, true
		}
		m := h.pool[a]
		c := m.BoundingBox(modeling.PositionAttribute).Center()
		up, down := meshops.SliceByPlaneWithAttribute(m, geometry.NewPlaneFromPoints(c, c.Add(vector3.Right[float64]()), c.Add(vector3.Forward[float64]())), modeling.PositionAttribute)
		return []c01Result{{up, c01RebuildParams(up, 0), []int{a}, nil}, {down, c01RebuildParams(down, 0), []int{a}, nil}}, true
	case "flatnormals", "smoothnormals", "smoothnormals.implicitweld":
		a := h.pickWhere(func(m modeling.Mesh) bool { return isTri(m) && hasPos(m) })
		if a < 0 {
			return nil, true
		}
		m := h.pool[a]
		f := func() modeling.Mesh {
			switch name {
			case "flatnormals":
				return m.Transform(meshops.FlatNormalsTransformer{})
			case "smoothnormals":
				return meshops.SmoothNormals(m)
			}
			return meshops.SmoothNormalsImplicitWeld(m, 0.01)
		}
		return re(f, fmt.Sprintf("setattr 2 %s %d 0", modeling.NormalAttribute, c01LenOf(m, 2, modeling.PositionAttribute)), a), true
	case "laplacian", "center", "normalize", "meshops.translate", "meshops.scale", "meshops.rotate", "vertexcolorspace":
		a := h.pickWhere(func(m modeling.Mesh) bool { return len(m.Float3Attributes()) > 0 })
		if a < 0 {
			return nil, true
		}
		m := h.pool[a]
		at, _ := h.v3Attr(m)
		var out modeling.Mesh
		switch name {
		case "laplacian":
			if m.Topology() == modeling.PointTopology || m.Topology() == modeling.QuadTopology || m.Indices().Len() == 0 {
				return nil, true
			}
			out = meshops.LaplacianSmooth(m, at, 2, 0.5)
		case "center":
			out = m.Transform(meshops.CenterAttribute3DTransformer{Attribute: at})
		case "normalize":
			out = meshops.NormalizeAttribute3D(m, at)
		case "meshops.translate":
			out = m.Transform(meshops.TranslateAttribute3DTransformer{Attribute: at, Amount: h.translateArg()})
		case "meshops.scale":
			out = meshops.ScaleAttribute3D(m, at, h.translateArg(), h.scaleArg())
		case "meshops.rotate":
			out = meshops.RotateAttribute3D(m, at, h.rotateArg())
		default:
			out = meshops.VertexColorSpace(m, at, meshops.VertexColorSpaceSRGBToLinear)
		}
		return one(out, fmt.Sprintf("setattr 2 %s %d 0", at, c01LenOf(m, 2, at)), a), true
	case "scalealongnormal":
		a := h.pickWhere(func(m modeling.Mesh) bool { return hasPos(m) && m.HasFloat3Attribute(modeling.NormalAttribute) })
		if a < 0 {
			return nil, true
		}
		m := h.pool[a]
		out := meshops.ScaleAttributeAlongNormal(m, modeling.PositionAttribute, modeling.NormalAttribute, []float64{0, 0.5, 1, -1}[rng.Intn(4)])
		return one(out, fmt.Sprintf("setattr 2 %s %d 0", modeling.PositionAttribute, c01LenOf(m, 2, modeling.PositionAttribute)), a), true
	case "transform.chain":
		a := h.pickWhere(func(m modeling.Mesh) bool { return isTri(m) && hasPos(m) })
		if a < 0 {
			return nil, true
		}
		out := h.pool[a].Transform(
			meshops.UnweldTransformer{},
			meshops.FlatNormalsTransformer{},
			meshops.TranslateAttribute3DTransformer{Amount: vector3.New(0., 1., 0.)},
			meshops.FlipTriangleWindingTransformer{},
		)
		return one(out, "", a), true // composite: value level only
	case "repeat":
		a := h.pickWhere(hasPos)
		if a < 0 {
			return nil, true
		}
		k := rng.Intn(4)
		ts := make([]trs.TRS, k)
		for i := range ts {
			ts[i] = trs.Position(vector3.New(float64(i), 0., 0.))
		}
		if c01Ragged(h.pool[a]) {
			return one(repeat.Mesh(h.pool[a], ts), "", a), true
		}
		return one(repeat.Mesh(h.pool[a], ts), fmt.Sprintf("repeat %d %d", k, c01LenOf(h.pool[a], 2, modeling.PositionAttribute)), a), true
	case "write.ply":
		a := h.pick()
		f := []ply.Format{ply.ASCII, ply.BinaryLittleEndian, ply.BinaryBigEndian}[rng.Intn(3)]
		if err := ply.Write(io.Discard, h.pool[a], f); err != nil {
			h.c.Note("write.ply.err")
		}
		return nil, true
	case "write.ply.meshwriter":
		a := h.pick()
		mw := ply.MeshWriter{Format: []ply.Format{ply.ASCII, ply.BinaryLittleEndian}[rng.Intn(2)], WriteUnspecifiedProperties: true,
			Properties: []ply.PropertyWriter{
				ply.Vector3PropertyWriter{ModelAttribute: modeling.PositionAttribute, PlyPropertyX: "x", PlyPropertyY: "y", PlyPropertyZ: "z", Type: ply.Float},
				ply.Vector3PropertyWriter{ModelAttribute: modeling.NormalAttribute, PlyPropertyX: "nx", PlyPropertyY: "ny", PlyPropertyZ: "nz", Type: ply.Float},
				ply.Vector3PropertyWriter{ModelAttribute: modeling.ColorAttribute, PlyPropertyX: "red", PlyPropertyY: "green", PlyPropertyZ: "blue", Type: ply.UChar},
			}}
		if err := mw.Write(h.pool[a], io.Discard); err != nil {
			h.c.Note("write.ply.meshwriter.err")
		}
		return nil, true
	case "write.ply.save":
		a := h.pick()
		if err := ply.Save(filepath.Join(h.tmp(), "m.ply"), h.pool[a], ply.BinaryLittleEndian); err != nil {
			h.c.Note("write.ply.save.err")
		}
		return nil, true
	case "write.obj":
		a := h.pick()
		if err := obj.WriteMesh(h.pool[a], "m.mtl", io.Discard); err != nil {
			h.c.Note("write.obj.err")
		}
		_ = obj.WriteMaterialsFromMesh(h.pool[a], io.Discard)
		return nil, true
	case "write.obj.materials":
		a := h.pick()
		switch rng.Intn(3) {
		case 0:
			for _, p := range h.pal {
				if err := obj.WriteMaterial(*p, io.Discard); err != nil {
					h.c.Note("write.obj.materials.err")
				}
			}
		case 1:
			if err := obj.WriteMaterials(h.pool[a].Materials(), io.Discard); err != nil {
				h.c.Note("write.obj.materials.err")
			}
		default:
			if err := obj.WriteMaterialsFromMesh(h.pool[a].SetMaterial(*h.pal[rng.Intn(len(h.pal))]), io.Discard); err != nil {
				h.c.Note("write.obj.materials.err")
			}
		}
		return nil, true
	case "write.obj.meshes":
		a, b := h.pick(), h.pick()
		if err := obj.WriteMeshes([]obj.ObjMesh{{Name: "a", Mesh: h.pool[a]}, {Name: "b", Mesh: h.pool[b]}, {Name: "a2", Mesh: h.pool[a]}}, "", io.Discard); err != nil {
			h.c.Note("write.obj.meshes.err")
		}
		return nil, true
	case "write.obj.save":
		a, b := h.pick(), h.pick()
		if rng.Intn(2) == 0 {
			if err := obj.Save(filepath.Join(h.tmp(), "m.obj"), h.pool[a]); err != nil {
				h.c.Note("write.obj.save.err")
			}
		} else if err := obj.SaveAll(filepath.Join(h.tmp(), "all.obj"), map[string]modeling.Mesh{"a": h.pool[a], "b": h.pool[b]}); err != nil {
			h.c.Note("write.obj.save.err")
		}
		return nil, true
	case "write.gltf", "write.gltf.text", "write.gltf.save":
		// the glTF writer takes the mesh BY POINTER: hand out pointers to the pool's own struct values, one mesh shared by
		// two models plus a second mesh, so that anything assigned through the pointer shows in the re-read that follows
		a, b := h.pick(), h.pick()
		pa, pb := &h.pool[a], &h.pool[b]
		sc := vector3.New(2., 2., 2.)
		scene := gltf.PolyformScene{Models: []gltf.PolyformModel{
			{Name: "a", Mesh: pa}, {Name: "b", Mesh: pb}, {Name: "a-again", Mesh: pa, Scale: &sc},
			{Name: "a-mat", Mesh: pa, Material: &gltf.PolyformMaterial{Name: "m"}},
		}}
		var err error
		switch name {
		case "write.gltf":
			var buf bytes.Buffer
			err = gltf.WriteBinary(scene, &buf)
		case "write.gltf.text":
			var buf bytes.Buffer
			err = gltf.WriteText(scene, &buf)
		default:
			if rng.Intn(2) == 0 {
				err = gltf.SaveBinary(filepath.Join(h.tmp(), "m.glb"), scene)
			} else {
				err = gltf.SaveText(filepath.Join(h.tmp(), "m.gltf"), scene)
			}
		}
		if err != nil {
			h.c.Note(name + ".err")
		}
		return nil, true
	case "write.stl":
		a := h.pickWhere(func(m modeling.Mesh) bool { return isTri(m) && hasPos(m) })
		if a < 0 {
			return nil, true
		}
		if err := stl.WriteMesh(io.Discard, h.pool[a]); err != nil {
			h.c.Note("write.stl.err")
		}
		return nil, true
	case "write.stl.save":
		a := h.pickWhere(func(m modeling.Mesh) bool { return isTri(m) && hasPos(m) })
		if a < 0 {
			return nil, true
		}
		if err := stl.Save(filepath.Join(h.tmp(), "m.stl"), h.pool[a]); err != nil {
			h.c.Note("write.stl.save.err")
		}
		return nil, true
	case "write.splat", "write.spz":
		a := h.pickWhere(func(m modeling.Mesh) bool { return m.HasFloat4Attribute(modeling.RotationAttribute) })
		if a < 0 {
			a = h.pick()
		}
		var err error
		if name == "write.splat" {
			err = splat.Write(io.Discard, h.pool[a])
		} else {
			err = spz.Write(h.pool[a], io.Discard)
		}
		if err != nil {
			h.c.Note(name + ".err")
		}
		return nil, true
	case "readonly":
		a := h.pick()
		m := h.pool[a]
		it := m.Indices()
		for {
			if _, err := it.Next(); err != nil {
				break
			}
		}
		for _, at := range m.Float3Attributes() {
			m.ScanFloat3Attribute(at, func(i int, v vector3.Float64) {})
			m.ScanFloat3AttributeParallelWithPoolSize(at, 3, func(i int, v vector3.Float64) {})
			_ = m.BoundingBox(at)
		}
		if isTri(m) || m.Topology() == modeling.PointTopology {
			m.ScanPrimitives(func(i int, p modeling.Primitive) {})
		}
		if isTri(m) {
			_ = m.VertexNeighborTable()
		}
		_ = m.PrimitiveCount()
		return nil, true
	}
	panic("c01 harness: unknown op " + name)
}

// the function of package modeling a harness op calls (only ops that are exactly ONE call of an exported Mesh-returning
// function of modeling/mesh.go) and the model class of the request the harness sends next to that call
func c01GoFuncAndClass(name, req string) (fn, cls string) {
	t := strings.Fields(req)
	if len(t) == 0 {
		return "", ""
	}
	kind := func() string { // attribute kind 0..3 -> Float1..Float4
		if len(t) > 1 && len(t[1]) == 1 && t[1][0] >= '0' && t[1][0] <= '3' {
			return string(rune(t[1][0] + 1))
		}
		return "?"
	}
	cls = t[0]
	switch t[0] {
	case "setdata", "setattr", "copyattr":
		cls = t[0] + " " + t[1]
	case "rebuild":
		cls = "rebuild " + map[string]string{"0": "share", "1": "drop"}[t[3]]
	}
	switch name {
	case "append":
		fn = "Mesh.Append"
	case "setindices":
		fn = "Mesh.SetIndices"
	case "setmaterials":
		fn = "Mesh.SetMaterials"
	case "setmaterial":
		fn = "Mesh.SetMaterial"
	case "topointcloud":
		fn = "Mesh.ToPointCloud"
	case "clearattrs":
		fn = "Mesh.ClearAttributeData"
	case "setdata":
		fn = "Mesh.SetFloat" + kind() + "Data"
	case "setattr", "setattr.delete":
		fn = "Mesh.SetFloat" + kind() + "Attribute"
	case "modify":
		fn = "Mesh.ModifyFloat" + kind() + "Attribute"
	case "modify.parallel":
		fn = "Mesh.ModifyFloat" + kind() + "AttributeParallelWithPoolSize"
	case "translate":
		fn = "Mesh.Translate"
	case "scale":
		fn = "Mesh.Scale"
	case "rotate":
		fn = "Mesh.Rotate"
	case "applytrs":
		fn = "Mesh.ApplyTRS"
	case "copyattr":
		fn = "Mesh.CopyFloat" + kind() + "Attribute"
	case "weld":
		fn = "Mesh.WeldByFloat3Attribute"
	// modeling/meshops: the ops that are one direct call of an exported function (not through Mesh.Transform)
	case "flipwinding":
		fn = "meshops.FlipTriangleWinding"
	case "smoothnormals":
		fn = "meshops.SmoothNormals"
	case "smoothnormals.implicitweld":
		fn = "meshops.SmoothNormalsImplicitWeld"
	case "laplacian":
		fn = "meshops.LaplacianSmooth"
	case "normalize":
		fn = "meshops.NormalizeAttribute3D"
	case "meshops.scale":
		fn = "meshops.ScaleAttribute3D"
	case "meshops.rotate":
		fn = "meshops.RotateAttribute3D"
	case "vertexcolorspace":
		fn = "meshops.VertexColorSpace"
	case "scalealongnormal":
		fn = "meshops.ScaleAttributeAlongNormal"
	case "unweld":
		fn = "meshops.Unweld"
	// … and the ops that go through Mesh.Transform with exactly one transformer: the method it dispatches to
	case "flatnormals":
		fn = "meshops.FlatNormalsTransformer.Transform"
	case "center":
		fn = "meshops.CenterAttribute3DTransformer.Transform"
	case "meshops.translate":
		fn = "meshops.TranslateAttribute3DTransformer.Transform"
	case "removeunreferenced":
		fn = "meshops.RemovedUnreferencedVerticesTransformer.Transform"
	case "crop":
		fn = "meshops.CropFloat3Attribute"
	}
	return fn, cls
}

func (h *c01Hist) doOp(name string) {
	h.step++
	h.lastOp = name
	res, ok := h.apply(name)
	if ok {
		h.c.Note("op." + name)
	}
	for _, r := range res {
		if r.req != "" {
			var b strings.Builder
			fmt.Fprintf(&b, "%s ARGS %d", r.req, len(r.args))
			for _, a := range r.args {
				b.WriteString(" " + h.argMesh(h.pool[a]))
			}
			h.c.Emit("c01.shape", b.String(), h.resultShape(r.mesh))
			h.c.Note("shape." + strings.SplitN(r.req, " ", 2)[0])
			// the hand classification, tied: which model class THIS harness sends for which function of package modeling
			// (answered by the driver from MeshClasses.handClass, the table classification_from_source is about)
			if fn, cls := c01GoFuncAndClass(name, r.req); fn != "" {
				h.c.Emit("c01.class", fn, cls)
				h.c.Note("class." + fn)
			}
		}
		i := h.enter(r.mesh)
		if r.redo != nil {
			// re-derivation is only deterministic when no argument is ragged (AttributeLength() follows the map order)
			ragged := false
			for _, a := range r.args {
				ragged = ragged || c01Ragged(h.pool[a])
			}
			if !ragged {
				h.redo = append(h.redo, c01Redo{i, r.redo})
			} else {
				h.c.Note("rederive.skipped.ragged")
			}
		}
	}
	h.checkAll()
}

// derivations commute: deriving the same thing again, after everything else that happened in the history,
// gives the value the first derivation gave
func (h *c01Hist) checkRederive() {
	for _, r := range h.redo {
		now := Guard(func() string { return c01Digest(h.canon(r.f())) })
		h.c.Emit("c01.holds.rederive", fmt.Sprintf("%d %d %s %s", h.id, r.idx, h.digest[r.idx], now), "true")
	}
}

// the scenario of the repaired defect and its relatives: a chain of appends (which may leave spare capacity),
// then two or three derivations from the SAME earlier value, then re-reads
func (h *c01Hist) scriptedBranch() {
	rng := h.c.Rng
	topo := h.topo()
	n := 1 + rng.Intn(6)
	base := h.enter(h.randomMesh(topo, n))
	h.lastOp = "append"
	for k := rng.Intn(3); k > 0; k-- { // chain
		o := h.enter(h.randomMesh(topo, 1+rng.Intn(4)))
		h.step++
		func() {
			defer func() { recover() }()
			base = h.enter(h.appendChecked(h.pool[base], h.pool[o]))
		}()
		h.checkAll()
	}
	if rng.Intn(3) == 0 && !c01NoAttrs(h.pool[base]) {
		// a RAGGED base: its AttributeLength() — hence the index shift / padding of every Append below — follows Go's map order
		h.step++
		h.lastOp = "ragged"
		base = h.enter(h.pool[base].SetFloat3Attribute("Ragged", h.f3s(c01AttrLen(h.pool[base])+1+rng.Intn(3), false)))
		h.checkAll()
		h.step++
		h.lastOp = "topointcloud"
		h.enter(h.pool[base].ToPointCloud())
		h.checkAll()
		h.lastOp = "append"
		h.c.Note("scripted.ragged")
	}
	for k := 2 + rng.Intn(2); k > 0; k-- { // branches off `base`
		o := h.enter(h.randomMesh(topo, 1+rng.Intn(4)))
		h.step++
		func() {
			defer func() { recover() }()
			mb, mo := h.pool[base], h.pool[o]
			r := h.appendChecked(mb, mo)
			if c01Ragged(mb) || c01Ragged(mo) {
				h.enter(r) // value level: set oracle above; no sharing-graph line, no re-derivation (map order)
				return
			}
			defer func() {
				h.redo = append(h.redo, c01Redo{len(h.pool) - 1, func() modeling.Mesh { return mb.Append(mo) }})
			}()
			var b strings.Builder
			fmt.Fprintf(&b, "append %d %d ARGS 2 %s %s", c01AttrLen(mb), c01AttrLen(mo), h.argMesh(h.pool[base]), h.argMesh(h.pool[o]))
			h.c.Emit("c01.shape", b.String(), h.resultShape(r))
			h.enter(r)
		}()
		h.checkAll()
	}
	h.c.Note("scripted.branch")
}

// welded meshes with degenerate faces whose corners are ALL still referenced by other faces: RemoveNullFaces3D removes
// faces but no vertex; the result is kept, the same operation then runs on OTHER meshes, and everything is re-read
// (package-level state such as a recycled buffer shows up as a change of the first result)
func (h *c01Hist) scriptedNullFaces() {
	rng := h.c.Rng
	mk := func() modeling.Mesh {
		k := 2 + rng.Intn(3) // (k+1)^2 welded grid vertices
		pos := make([]vector3.Float64, 0, (k+1)*(k+1))
		for y := 0; y <= k; y++ {
			for x := 0; x <= k; x++ {
				pos = append(pos, vector3.New(float64(x), float64(y)*1.5, float64((x*y)%2)))
			}
		}
		var idx []int
		for y := 0; y < k; y++ {
			for x := 0; x < k; x++ {
				a, b, c, d := y*(k+1)+x, y*(k+1)+x+1, (y+1)*(k+1)+x, (y+1)*(k+1)+x+1
				idx = append(idx, a, b, c, b, d, c)
				if rng.Intn(2) == 0 {
					// degenerate: collapsed corner / repeated vertex / sliver on an edge — corners stay referenced above
					switch rng.Intn(3) {
					case 0:
						idx = append(idx, a, a, b)
					case 1:
						idx = append(idx, b, c, c)
					default:
						idx = append(idx, a, d, a)
					}
				}
			}
		}
		idx = append(idx, 0, 0, 1) // at least one
		h.keep = append(h.keep, pos, idx)
		m := modeling.NewTriangleMesh(idx).SetFloat3Attribute(modeling.PositionAttribute, pos)
		if rng.Intn(2) == 0 {
			m = m.SetFloat3Attribute(modeling.NormalAttribute, h.f3s(len(pos), false))
		}
		return m
	}
	for k := 2 + rng.Intn(3); k > 0; k-- {
		src := h.enter(mk())
		h.step++
		h.lastOp = "removenullfaces"
		func() {
			defer func() {
				if r := recover(); r != nil {
					h.c.Note("op.panic.removenullfaces.scripted")
				}
			}()
			var out modeling.Mesh
			if rng.Intn(2) == 0 {
				out = meshops.RemoveNullFaces3D(h.pool[src], modeling.PositionAttribute, 0.001)
			} else {
				out = h.pool[src].Transform(meshops.RemoveNullFaces3DTransformer{MinArea: 0.001})
			}
			if out.Indices().Len() != h.pool[src].Indices().Len() {
				var b strings.Builder
				fmt.Fprintf(&b, "%s ARGS 1 %s", c01RebuildParams(out, 0), h.argMesh(h.pool[src]))
				h.c.Emit("c01.shape", b.String(), h.resultShape(out))
			}
			h.enter(out)
		}()
		h.checkAll()
	}
	h.c.Note("scripted.nullfaces")
}

func runC01(c *Ctx) {
	defer os.RemoveAll(filepath.Join(os.TempDir(), fmt.Sprintf("c01h-%d", os.Getpid())))
	unit := c01Digest((&c01Hist{c: c, mats: map[*modeling.Material]int{}}).canon(primitives.UnitCube()))
	maxOps := 12
	if c.Tier == "thorough" {
		maxOps = 40
	}
	for id := 0; id < c.N; id++ {
		h := &c01Hist{c: c, id: id, maps: map[uintptr]int{}, mats: map[*modeling.Material]int{}, lastOp: "init", reported: map[int]bool{}}
		h.pal = c01Palette(c, id)
		for _, p := range h.pal {
			h.palEntry = append(h.palEntry, c01Digest(c01MatDeep(p)))
		}
		if c.Rng.Intn(3) == 0 {
			h.scriptedBranch()
		}
		if c.Rng.Intn(4) == 0 {
			h.scriptedNullFaces()
		}
		for k := 1 + c.Rng.Intn(3); k > 0; k-- {
			h.enter(h.newBase())
		}
		ops := 1 + c.Rng.Intn(maxOps)
		for k := 0; k < ops; k++ {
			if c.Rng.Intn(4) == 0 && len(h.pool) < 40 {
				h.step++
				h.lastOp = "construct"
				h.enter(h.newBase())
				h.checkAll() // building a new mesh must not disturb the live ones (package-level tables!)
			}
			h.doOp(c01OpNames[c.Rng.Intn(len(c01OpNames))])
		}
		h.checkRederive()
		full := c.Tier != "thorough" || id%8 == 0
		if full {
			h.checkFull()
		}
		// the package-level index table handed to every welded cube is still what it was
		c.Emit("c01.holds.immutable", fmt.Sprintf("%d %d %d unitcube %s %s", id, h.step+1, -1, unit,
			c01Digest((&c01Hist{c: c, mats: map[*modeling.Material]int{}}).canon(primitives.UnitCube()))), "true")
		c.Note(fmt.Sprintf("pool.size.%02d", (len(h.pool)/4)*4))
	}
}
