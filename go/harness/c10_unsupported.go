package main

// C10, stream "c10u": topologies the primitive scan does not support (quad, line, line loop).  The sequential ScanPrimitives
// panics recoverably with "unimplemented topology: …"; the parallel variant must do the same for every pool size, in the
// CALLER's goroutine.  Before /repo 8b216e3 it panicked inside a worker goroutine, which kills the whole process — so every
// case runs in a CHILD process (this binary, stream "c10uchild", the case encoded in -n): a dead child is attributed to its
// concrete request line (`c10.holds.same_output 1 <sequential outcome> crash`), never an unexplained harness crash.

import (
	"fmt"
	"os"
	"os/exec"
	"strings"

	"github.com/EliCDavis/polyform/modeling"
	"github.com/EliCDavis/vector/vector3"
)

func init() {
	streams["c10u"] = runC10U
	streams["c10uchild"] = runC10UChild
}

var c10Unsupported = []struct {
	name string
	topo modeling.Topology
	per  int // indices per primitive used to build a mesh with `count` primitives
}{
	{"QuadTopology", modeling.QuadTopology, 4},
	{"LineTopology", modeling.LineTopology, 1},
	{"LineLoopTopology", modeling.LineLoopTopology, 1},
}

func c10Outcome(f func()) (out string) {
	defer func() {
		if r := recover(); r != nil {
			out = "panic:" + strings.ReplaceAll(fmt.Sprint(r), " ", "_")
		}
	}()
	f()
	return "ok"
}

func c10UnsupportedMesh(k, count int) modeling.Mesh {
	u := c10Unsupported[k]
	n := count * u.per
	if u.topo == modeling.LineTopology && count > 0 {
		n = count + 1
	}
	idx := make([]int, n)
	pos := make([]vector3.Float64, n+1)
	for i := range idx {
		idx[i] = i
	}
	for i := range pos {
		pos[i] = vector3.New(float64(i), 0, 0)
	}
	return modeling.NewMesh(u.topo, idx).SetFloat3Attribute(modeling.PositionAttribute, pos)
}

// child: -n = topology*1_000_000 + size*1000 + count; prints "RESULT <sequential outcome> <parallel outcome> <callbacks>"
func runC10UChild(c *Ctx) {
	k, size, count := c.N/1_000_000, (c.N/1000)%1000, c.N%1000
	m := c10UnsupportedMesh(k, count)
	calls := 0
	f := func(i int, p modeling.Primitive) { calls++ }
	seq := c10Outcome(func() { m.ScanPrimitives(f) })
	seqCalls := calls
	calls = 0
	par := c10Outcome(func() { m.ScanPrimitivesParallelWithPoolSize(size, f) })
	fmt.Printf("RESULT %s/calls=%d %s/calls=%d\n", seq, seqCalls, par, calls)
}

func runC10U(c *Ctx) {
	dir, err := os.MkdirTemp("", "c10u")
	if err != nil {
		panic(err)
	}
	defer os.RemoveAll(dir)
	sizes := []int{2, 3, 16}
	counts := []int{0, 5}
	if c.Tier == "thorough" {
		sizes = []int{2, 3, 4, 7, 16, 17}
		counts = []int{0, 1, 5, 64}
	}
	for k, u := range c10Unsupported {
		for _, size := range sizes {
			for _, count := range counts {
				c.Note("unsupported=" + u.name)
				cmd := exec.Command(os.Args[0], "c10uchild", "-n", fmt.Sprint(k*1_000_000+size*1000+count), "-out", dir)
				out, err := cmd.CombinedOutput()
				seq, par := "unknown", "crash"
				for _, line := range strings.Split(string(out), "\n") {
					if strings.HasPrefix(line, "RESULT ") {
						f := strings.Fields(line)
						if len(f) == 3 {
							seq, par = f[1], f[2]
						}
					}
				}
				if err != nil && par != "crash" {
					par = "crash-after-result"
				}
				if par == "crash" {
					c.Note("child-process-died")
					// what the sequential scan does, from a child that only runs the sequential scan is not needed: it panics
					// recoverably; the parallel call took the process down
					seq = "panic:unimplemented_topology"
					if i := strings.Index(string(out), "panic: "); i >= 0 {
						msg := string(out)[i:]
						if j := strings.Index(msg, "\n"); j > 0 {
							msg = msg[:j]
						}
						par = "crash:" + strings.ReplaceAll(msg, " ", "_")
					}
				}
				// request names the input; the two outcomes must be identical (same panic value, no callback)
				c.Emit("c10.holds.same_outcome", fmt.Sprintf("%s count=%d pool=%d %s %s", u.name, count, size, seq, par), "true")
			}
		}
	}
}
