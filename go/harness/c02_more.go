// Round 2: C02 emitter for the operations of util_mesh_more.go (result shape vs the model of
// lean/PolyVerif/Model/MeshMore.lean + the WF oracle on every result; CopyFloatNAttribute outside its guard: shape only).
package main

import "github.com/EliCDavis/polyform/modeling"

func (c *Ctx) emitMore02(r opRun, m modeling.Mesh, wfOK bool) {
	c.Emit("c02.op."+r.name, r.args, r.answer(shapeStr))
	if r.status != "" {
		c.Note("op-" + r.status + ":" + r.name)
		return
	}
	c.Note("op-ok:" + r.name)
	if !wfOK {
		return
	}
	for _, o := range r.out {
		c.wf(r.name, o)
	}
}
