package main

// C17: box HISTORIES. One box receives a sequence of EncapsulatePoint / EncapsulateBounds / Expand / SetMinMax calls,
// starting from NewEmptyAABB(), a zero-extent (single-point) box, NewAABBFromPoints(p) or an ordinary box.
// After every step: the step itself is corresponded through the regenerated definition (existing c17.aabb.* ops, the
// receiver being the implementation's previous box), and ONE oracle line per history (c17.holds.aabb_history) carries
// the whole history plus the implementation's box after each step: the driver folds the theorems
// aabb_encapsulatePoint_contains/_mono, aabb_encapsulateBounds_contains/_mono, aabb_expand_contains over it —
// "the box contains every point / every box encapsulated so far (and what it started with)".
// Coordinates are small integers and halves: every operation is exact, so a miss is never a rounding artefact.

import (
	"strings"

	"github.com/EliCDavis/polyform/math/geometry"
	"github.com/EliCDavis/vector/vector3"
)

func (c *Ctx) iv3(r int) vector3.Float64 {
	f := func() float64 { return float64(c.Rng.Intn(2*r+1) - r) }
	return vector3.New(f(), f(), f())
}

// a box to encapsulate: ordinary, single-point (zero extents), or the empty box at the origin
func (c *Ctx) histBox() geometry.AABB {
	switch c.Rng.Intn(4) {
	case 0:
		return geometry.NewAABB(c.iv3(8), vector3.Zero[float64]())
	case 1:
		return geometry.NewEmptyAABB()
	default:
		return geometry.NewAABB(c.iv3(8), vector3.New(float64(c.Rng.Intn(5)), float64(c.Rng.Intn(5)), float64(c.Rng.Intn(5))))
	}
}

func c17History(c *Ctx) {
	var b geometry.AABB
	switch c.Rng.Intn(4) {
	case 0:
		b = geometry.NewEmptyAABB()
		c.Note("hist.start.empty")
	case 1:
		b = geometry.NewAABB(c.iv3(8), vector3.Zero[float64]())
		c.Note("hist.start.point-box")
	case 2:
		b = geometry.NewAABBFromPoints(c.iv3(8))
		c.Note("hist.start.frompoints1")
	default:
		b = c.histBox()
		c.Note("hist.start.any")
	}
	steps := 2 + c.Rng.Intn(5)
	enc := []string{bbF(b), Fs(float64(steps))}
	zero := vector3.Zero[float64]()
	for s := 0; s < steps; s++ {
		before := b
		kind := []int{0, 0, 1, 1, 1, 2, 3}[c.Rng.Intn(7)]
		var p1, p2 vector3.Float64
		switch kind {
		case 0: // EncapsulatePoint (often the origin or a point already on the box: the extents stay zero)
			switch c.Rng.Intn(4) {
			case 0:
				p1 = zero
			case 1:
				p1 = before.Center()
			default:
				p1 = c.iv3(8)
			}
			b.EncapsulatePoint(p1)
			c.Emit("c17.aabb.encpoint", bbF(before)+" "+vF(p1), bbF(b))
		case 1: // EncapsulateBounds
			o := c.histBox()
			p1, p2 = o.Center(), o.Size().Scale(0.5)
			b.EncapsulateBounds(o)
			c.Emit("c17.aabb.encbounds", bbF(before)+" "+bbF(o), bbF(b))
			if before.Size() == zero {
				c.Note("hist.encbounds.zero-extent-receiver")
			}
		case 2: // Expand by a non-negative amount
			p1 = vector3.New(float64(c.Rng.Intn(4)), 0, 0)
			b.Expand(p1.X())
			c.Emit("c17.aabb.expand", bbF(before)+" "+F(p1.X()), bbF(b))
		default: // SetMinMax: the box is REPLACED (contents start over with the two corners)
			lo := c.iv3(8)
			p1, p2 = lo, lo.Add(vector3.New(float64(c.Rng.Intn(5)), float64(c.Rng.Intn(5)), float64(c.Rng.Intn(5))))
			b.SetMinMax(p1, p2)
		}
		enc = append(enc, Fs(float64(kind)), vF(p1), vF(p2), bbF(b))
	}
	c.Emit("c17.holds.aabb_history", strings.Join(enc, " "), "true")
}
