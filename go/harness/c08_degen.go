package main

// C08 — generators added after the seeded changes C08-m16 / C08-m17 were missed.
//
// m16 (binary vertex records read in blocks of 1024, last block sized `Count % 1024`): reference-encoded files whose vertex
//   AND face counts sit on and around the internal block constants a reader may plausibly use — 255/256/257, 1023/1024/1025,
//   2048, 3072, 4095/4096/4097 — for every format (le, be, ascii); header family (LF / CRLF, property order, optional colour
//   group / double, alias spelling, list types, texcoord) drawn per file by plySpecLarge; values tagged by the vertex number.
// m17 (`obj_info` branch slices one byte too far: a bare `obj_info` line panics): the DEGENERATE forms of the keyword lines
//   the format allows — `comment` / `obj_info` with no text, with a trailing blank, a tab, runs of blanks, leading white space
//   — inserted at EVERY position of the header of fixed small files (all formats, LF and CRLF): after `ply`, after the format
//   line, before / between / after the properties of both elements, before `end_header`.  Every such file still denotes the
//   same mesh when the line sits after the format line, so besides c08.header / c08.read (model = implementation, incl. the
//   panic class) the oracle c08.holds.meaning and the entry-point oracles are demanded of it.

import (
	"bytes"
	"fmt"
	"strings"
)

var plyBlockSizes = []int{255, 256, 257, 1023, 1024, 1025, 2048, 3072, 4095, 4096, 4097}

func (c *Ctx) plyBlockBoundaryFiles() {
	for fi, format := range []string{"le", "be", "ascii"} {
		for i, nv := range plyBlockSizes {
			nf := 0
			switch (i + fi) % 3 {
			case 0:
				nf = plyBlockSizes[(i+3+c.Rng.Intn(5))%len(plyBlockSizes)]
			case 1:
				nf = nv
			}
			if c.Tier != "thorough" && format == "ascii" && nf > 1025 {
				nf = 1024 // quick tier: keep the ASCII face blocks moderate
			}
			c.Note(fmt.Sprintf("block-boundary:%s:nv=%d", format, nv))
			if nf > 0 {
				c.Note(fmt.Sprintf("block-boundary:faces:nf=%d", nf))
			}
			c.plySpecCaseEP(c.plySpecLarge(format, nv, nf), "c08.holds.meaning", false)
		}
	}
}

var plyDegenerateLines = []string{
	"comment", "obj_info", "comment ", "obj_info ", "comment\t", "obj_info\t", "comment   ", "obj_info \t ",
	" obj_info", "\tcomment", "  obj_info  ", "comment\t\t", "obj_info obj_info", "comment comment",
}

func (c *Ctx) plyDegenerateHeaderLines() {
	xyz := []plySpecProp{{"x", "float", false}, {"y", "float", true}, {"z", "float", false}}
	for _, format := range []string{"ascii", "le", "be"} {
		for _, crlf := range []bool{false, true} {
			s := plySpec{format: format, crlf: crlf, pre: []plyHItem{{false, "made by tool"}}, vprops: xyz,
				verts: [][]float64{{1, 2, 3}, {4, 5, 6}, {7, 8, 9.5}, {-1, 0.25, 10}},
				face: &plySpecFaceElem{cntTy: "uchar", idxTy: "int", extra: 2,
					faces: []plySpecFace{{verts: []int{0, 1, 2}, extra: []int{5}}, {verts: []int{3, 2, 1, 0}}}}}
			c.plyDegenerateInto(s, -1)
		}
	}
	// … and one degenerate line at a random position of generated files (every header family)
	n := c.N / 8
	for k := 0; k < n; k++ {
		c.plyDegenerateInto(c.plySpecGen(), c.Rng.Intn(len(plyDegenerateLines)))
	}
}

// insert degenerate keyword lines into the header of the reference encoding of s: every form at every position (form < 0)
// or the given form at one random position
func (c *Ctx) plyDegenerateInto(s plySpec, form int) {
	data := plyRefEncode(s)
	st := plySpecTok(s)
	eol := "\n"
	if s.crlf {
		eol = "\r\n"
	}
	end := bytes.Index(data, []byte("end_header"+eol))
	if end < 0 {
		return
	}
	lines := strings.SplitAfter(string(data[:end]), eol) // header lines before end_header (last entry is "")
	if lines[len(lines)-1] == "" {
		lines = lines[:len(lines)-1]
	}
	rest := data[end:]
	emit := func(pos int, d string) {
		var sb strings.Builder
		for i, l := range lines {
			if i == pos {
				sb.WriteString(d + eol)
			}
			sb.WriteString(l)
		}
		if pos == len(lines) {
			sb.WriteString(d + eol)
		}
		mut := append([]byte(sb.String()), rest...)
		c.Note("degenerate-line:" + strings.TrimSpace(strings.Fields(d)[0]))
		if pos >= 2 {
			// after the format line: comment / obj_info lines are skipped, the file denotes the same mesh
			c.plySpecFile(st, mut, "c08.holds.meaning", false)
		} else {
			c.Emit("c08.header", plyHx(mut), plyImplReadHeader(mut))
			rs, _ := plyImplReadMesh(mut)
			c.Emit("c08.read", plyHx(mut), rs)
			c.Note("degenerate-line:before-format")
		}
	}
	if form >= 0 {
		emit(2+c.Rng.Intn(len(lines)-1), plyDegenerateLines[form])
		return
	}
	for pos := 1; pos <= len(lines); pos++ {
		for _, d := range plyDegenerateLines {
			emit(pos, d)
		}
	}
}
