package main

// C16 — spatial index queries agree with exhaustive search.
//
// Per generated element set: build the real octree (trees.NewOctree[WithDepth] /
// Mesh.OctTree[Depth]) and run the five queries.  Every answer is
//   * compared with an exhaustive scan done here through the same trees.Element
//     interfaces (oracle lines c16.holds.*: the driver compares the two answers), and
//   * for points, segments (line strips), boxes and triangles, recomputed by the Lean model
//     (Model/Tree.lean run at Float on the same bit patterns): ids in visit order.
// Rendering: BVHNode.Hit and rendering.Mesh.Hit (octree traverse) vs HitList.Hit.

import (
	"fmt"
	"math"
	"sort"
	"strings"

	"github.com/EliCDavis/polyform/math/geometry"
	"github.com/EliCDavis/polyform/modeling"
	"github.com/EliCDavis/polyform/rendering"
	"github.com/EliCDavis/polyform/trees"
	"github.com/EliCDavis/vector/vector3"
)

func init() { streams["c16"] = runC16 }

type v3 = vector3.Float64

func c16v(v v3) string { return Fs(v.X(), v.Y(), v.Z()) }

func c16box(b geometry.AABB) string {
	return c16v(b.Center()) + " " + c16v(b.Size().Scale(0.5))
}

func c16ids(l []int) string {
	if len(l) == 0 {
		return "-"
	}
	p := make([]string, len(l))
	for i, x := range l {
		p[i] = fmt.Sprint(x)
	}
	return strings.Join(p, " ")
}

func c16cnt(l []int) string {
	if len(l) == 0 {
		return "0"
	}
	return fmt.Sprintf("%d %s", len(l), c16ids(l))
}

// ---------------------------------------------------------------- generators

func (c *Ctx) c16positions(n int) ([]v3, string) {
	out := make([]v3, n)
	switch c.Rng.Intn(6) {
	case 0: // uniform
		for i := range out {
			out[i] = vector3.New(c.Rng.Float64()*20-10, c.Rng.Float64()*20-10, c.Rng.Float64()*20-10)
		}
		return out, "uniform"
	case 1: // clustered
		k := 1 + c.Rng.Intn(4)
		cs := make([]v3, k)
		for i := range cs {
			cs[i] = vector3.New(c.Rng.Float64()*20-10, c.Rng.Float64()*20-10, c.Rng.Float64()*20-10)
		}
		s := math.Pow(10, -float64(c.Rng.Intn(4)))
		for i := range out {
			out[i] = cs[c.Rng.Intn(k)].Add(vector3.New(c.Rng.NormFloat64()*s, c.Rng.NormFloat64()*s, c.Rng.NormFloat64()*s))
		}
		return out, "clustered"
	case 2: // small integer grid: many elements exactly on centre planes, many coincident
		for i := range out {
			out[i] = vector3.New(float64(c.Rng.Intn(5)-2), float64(c.Rng.Intn(5)-2), float64(c.Rng.Intn(5)-2))
		}
		return out, "grid"
	case 3: // few distinct positions, duplicated
		k := 1 + c.Rng.Intn(3)
		cs := make([]v3, k)
		for i := range cs {
			cs[i] = vector3.New(c.Rng.Float64()*4-2, c.Rng.Float64()*4-2, c.Rng.Float64()*4-2)
		}
		for i := range out {
			out[i] = cs[c.Rng.Intn(k)]
		}
		return out, "coincident"
	case 4: // planar / axis aligned (degenerate extents of the bounds)
		for i := range out {
			out[i] = vector3.New(c.Rng.Float64()*20-10, 1.5, float64(c.Rng.Intn(7)-3))
		}
		return out, "planar"
	default: // offset far from the origin, small spread
		o := vector3.New(1000+c.Rng.Float64(), -2000, 512)
		for i := range out {
			out[i] = o.Add(vector3.New(c.Rng.Float64(), c.Rng.Float64(), c.Rng.Float64()))
		}
		return out, "offset"
	}
}

type c16set struct {
	kind    string          // pt seg box tri
	elems   []trees.Element // the elements, index = original index
	enc     string          // "<kind> <n> floats…" for the Lean model ("" = geometry not modelled)
	verts   []v3            // interesting positions for queries
	build   func(depth int) *trees.OctTree
	mesh    *modeling.Mesh
	intgrid bool // integer triangle vertices: queries are placed on integer points too
}

func c16scope(m modeling.Mesh) []trees.Element { return c16scopeAttr(m, modeling.PositionAttribute) }

func c16scopeAttr(m modeling.Mesh, attr string) []trees.Element {
	out := make([]trees.Element, m.PrimitiveCount())
	m.ScanPrimitives(func(i int, p modeling.Primitive) { out[i] = p.Scope(attr) })
	return out
}

const c16altAttr = "verif_alt"

// one time in three the geometry the tree is built over lives in ANOTHER Float3 attribute, and Position holds a decoy with
// different geometry (different planes, boxes, distances): Mesh.OctTreeWithAttributeAndDepth(attr, d) and p.Scope(attr)
func (c *Ctx) c16alt(m modeling.Mesh, real []v3) (modeling.Mesh, string) {
	if c.Rng.Intn(3) != 0 {
		return m, modeling.PositionAttribute
	}
	decoy := make([]v3, len(real))
	for i, v := range real {
		decoy[i] = vector3.New(v.Z()*0.5+3+c.Rng.Float64(), v.X()-1+c.Rng.Float64(), v.Y()*2+2+c.Rng.Float64())
	}
	c.Note("set.non-position-attribute")
	return m.SetFloat3Attribute(modeling.PositionAttribute, decoy).SetFloat3Attribute(c16altAttr, real), c16altAttr
}

func c16build(m modeling.Mesh, attr string) func(d int) *trees.OctTree {
	return func(d int) *trees.OctTree {
		if attr == modeling.PositionAttribute {
			if d < 0 {
				return m.OctTree()
			}
			return m.OctTreeDepth(d)
		}
		if d < 0 {
			d = trees.OctreeDepthFromCount(m.PrimitiveCount())
		}
		return m.OctTreeWithAttributeAndDepth(attr, d)
	}
}

func (c *Ctx) c16size() int {
	switch c.Rng.Intn(10) {
	case 0:
		return 1
	case 1:
		return 2
	case 2:
		return 3 + c.Rng.Intn(6)
	case 3:
		if c.Tier == "thorough" {
			return 60 + c.Rng.Intn(200)
		}
		return 30 + c.Rng.Intn(40)
	default:
		return 3 + c.Rng.Intn(28)
	}
}

func (c *Ctx) c16elements() c16set {
	n := c.c16size()
	switch c.Rng.Intn(4) {
	case 0: // point cloud
		ps, dist := c.c16positions(n)
		m := modeling.NewPointCloud(nil, map[string][]v3{modeling.PositionAttribute: ps}, nil, nil, nil)
		parts := make([]string, n)
		for i, p := range ps {
			parts[i] = c16v(p)
		}
		c.Note("set.pt." + dist)
		m, attr := c.c16alt(m, ps)
		return c16set{kind: "pt", elems: c16scopeAttr(m, attr), enc: fmt.Sprintf("pt %d %s", n, strings.Join(parts, " ")), verts: ps,
			build: c16build(m, attr)}
	case 1: // line strip: n segments over n+1 vertices, consecutive vertices distinct
		ps, dist := c.c16positions(n + 1)
		for i := 1; i < len(ps); i++ {
			for ps[i] == ps[i-1] {
				ps[i] = ps[i].Add(vector3.New(float64(c.Rng.Intn(3)-1), float64(1+c.Rng.Intn(2)), float64(c.Rng.Intn(3)-1)))
			}
		}
		// the strip's INDEX list: identity (NewLineStripMesh), a closed loop, the reversed strip, or a walk over a shared vertex
		// array that skips and revisits vertices — segment i joins ps[idx[i]] and ps[idx[i+1]]
		idx := make([]int, n+1)
		for i := range idx {
			idx[i] = i
		}
		var m modeling.Mesh
		switch c.Rng.Intn(5) {
		case 0, 1:
			m = modeling.NewLineStripMesh(map[string][]v3{modeling.PositionAttribute: ps}, nil, nil, nil)
			c.Note("seg.index.identity")
		case 2:
			if n >= 3 {
				idx[n] = 0 // closed loop 0,1,…,n-1,0 (vertex n unused)
			}
			m = modeling.NewMesh(modeling.LineStripTopology, idx).SetFloat3Attribute(modeling.PositionAttribute, ps)
			c.Note("seg.index.loop")
		case 3:
			for i := range idx {
				idx[i] = n - i
			}
			m = modeling.NewMesh(modeling.LineStripTopology, idx).SetFloat3Attribute(modeling.PositionAttribute, ps)
			c.Note("seg.index.reversed")
		default:
			for i := range idx {
				for tries := 0; ; tries++ {
					idx[i] = c.Rng.Intn(n + 1)
					if i == 0 || ps[idx[i]] != ps[idx[i-1]] || tries > 50 {
						break
					}
				}
			}
			m = modeling.NewMesh(modeling.LineStripTopology, idx).SetFloat3Attribute(modeling.PositionAttribute, ps)
			c.Note("seg.index.walk")
		}
		degenerate := false
		parts := make([]string, n)
		for i := 0; i < n; i++ {
			if ps[idx[i]] == ps[idx[i+1]] {
				degenerate = true
			}
			parts[i] = c16v(ps[idx[i]]) + " " + c16v(ps[idx[i+1]])
		}
		if degenerate { // a zero-length segment (NaN closest point): fall back to the identity strip
			for i := range idx {
				idx[i] = i
			}
			m = modeling.NewLineStripMesh(map[string][]v3{modeling.PositionAttribute: ps}, nil, nil, nil)
			for i := 0; i < n; i++ {
				parts[i] = c16v(ps[i]) + " " + c16v(ps[i+1])
			}
		}
		c.Note("set.seg." + dist)
		m, attr := c.c16alt(m, ps)
		return c16set{kind: "seg", elems: c16scopeAttr(m, attr), enc: fmt.Sprintf("seg %d %s", n, strings.Join(parts, " ")), verts: ps,
			build: c16build(m, attr)}
	case 2: // boxes (trees.BoundingBoxElement): overlapping, nested, flat
		ps, dist := c.c16positions(n)
		elems := make([]trees.Element, n)
		parts := make([]string, n)
		verts := make([]v3, 0, 3*n)
		for i, p := range ps {
			var size v3
			switch c.Rng.Intn(4) {
			case 0:
				size = vector3.New(float64(c.Rng.Intn(4)), float64(c.Rng.Intn(4)), float64(c.Rng.Intn(4)))
			case 1:
				size = vector3.New(c.Rng.Float64()*10, c.Rng.Float64()*10, c.Rng.Float64()*10)
			default:
				size = vector3.New(c.Rng.Float64(), c.Rng.Float64(), c.Rng.Float64())
			}
			b := geometry.NewAABB(p, size)
			elems[i] = trees.BoundingBoxElement(b)
			parts[i] = c16box(b)
			verts = append(verts, p, b.Min(), b.Max())
		}
		c.Note("set.box." + dist)
		return c16set{kind: "box", elems: elems, enc: fmt.Sprintf("box %d %s", n, strings.Join(parts, " ")), verts: verts,
			build: func(d int) *trees.OctTree {
				if d < 0 {
					return trees.NewOctree(elems)
				}
				return trees.NewOctreeWithDepth(elems, d)
			}}
	default: // triangle soup, some triangles repeated
		m, tv, ti := c.c16triMesh(n)
		grid := c.Rng.Intn(4) == 0
		if grid {
			if n > 12 {
				n = 12
			}
			m, tv, ti = c.c16triGridMesh(n)
			c.Note("set.tri.intgrid")
		} else {
			c.Note("set.tri")
		}
		parts := make([]string, n)
		for i := 0; i < n; i++ {
			parts[i] = c16v(tv[ti[3*i]]) + " " + c16v(tv[ti[3*i+1]]) + " " + c16v(tv[ti[3*i+2]])
		}
		m, attr := c.c16alt(m, tv)
		return c16set{kind: "tri", elems: c16scopeAttr(m, attr), enc: fmt.Sprintf("tri %d %s", n, strings.Join(parts, " ")), verts: tv, mesh: &m, intgrid: grid,
			build: c16build(m, attr)}
	}
}

// triangle mesh with n non-degenerate triangles; some triangles repeated, vertices shared
// triangles with small integer vertices: exact collinearities between query points and edge lines occur
func (c *Ctx) c16triGridMesh(n int) (modeling.Mesh, []v3, []int) {
	verts := make([]v3, 0, 3*n)
	idx := make([]int, 0, 3*n)
	g := func() v3 {
		return vector3.New(float64(c.Rng.Intn(7)-3), float64(c.Rng.Intn(7)-3), float64(c.Rng.Intn(3)-1))
	}
	for len(idx) < 3*n {
		a, b, d := g(), g(), g()
		if b.Sub(a).Cross(d.Sub(a)).Length() == 0 {
			continue
		}
		base := len(verts)
		verts = append(verts, a, b, d)
		idx = append(idx, base, base+1, base+2)
	}
	return modeling.NewTriangleMesh(idx).SetFloat3Attribute(modeling.PositionAttribute, verts), verts, idx
}

func (c *Ctx) c16triMesh(n int) (modeling.Mesh, []v3, []int) {
	ps, _ := c.c16positions(n + 2)
	verts := make([]v3, 0, 3*n)
	idx := make([]int, 0, 3*n)
	s := math.Pow(10, -float64(c.Rng.Intn(3)))
	for len(idx) < 3*n {
		if len(idx) >= 3 && c.Rng.Intn(8) == 0 { // repeat an earlier triangle
			k := c.Rng.Intn(len(idx) / 3)
			idx = append(idx, idx[3*k], idx[3*k+1], idx[3*k+2])
			continue
		}
		a := ps[c.Rng.Intn(len(ps))]
		b := a.Add(vector3.New(c.Rng.NormFloat64()*s*3, c.Rng.NormFloat64()*s*3, c.Rng.NormFloat64()*s*3))
		d := a.Add(vector3.New(c.Rng.NormFloat64()*s*3, c.Rng.NormFloat64()*s*3, c.Rng.NormFloat64()*s*3))
		if b.Sub(a).Cross(d.Sub(a)).Length() < 1e-6*s*s {
			continue
		}
		base := len(verts)
		verts = append(verts, a, b, d)
		idx = append(idx, base, base+1, base+2)
	}
	normals := make([]v3, len(verts))
	for i := range normals {
		normals[i] = vector3.New(0., 1., 0.)
	}
	return modeling.NewTriangleMesh(idx).
		SetFloat3Attribute(modeling.PositionAttribute, verts).
		SetFloat3Attribute(modeling.NormalAttribute, normals), verts, idx
}

func (c *Ctx) c16query(s c16set, bounds geometry.AABB) (v3, string) {
	ext := bounds.Size().Scale(0.5)
	switch c.Rng.Intn(6) {
	case 0: // far outside
		return bounds.Center().Add(vector3.New((c.Rng.Float64()*2-1)*(ext.X()*10+50), (c.Rng.Float64()*2-1)*(ext.Y()*10+50), (c.Rng.Float64()*2-1)*(ext.Z()*10+50))), "outside"
	case 1: // exactly an element vertex / box corner
		return s.verts[c.Rng.Intn(len(s.verts))], "vertex"
	case 2: // near an element vertex
		return s.verts[c.Rng.Intn(len(s.verts))].Add(vector3.New(c.Rng.NormFloat64()*0.01, c.Rng.NormFloat64()*0.01, c.Rng.NormFloat64()*0.01)), "nearvertex"
	default:
		return bounds.Center().Add(vector3.New((c.Rng.Float64()*2-1)*(ext.X()*1.3+0.1), (c.Rng.Float64()*2-1)*(ext.Y()*1.3+0.1), (c.Rng.Float64()*2-1)*(ext.Z()*1.3+0.1))), "inside"
	}
}

// +0 or -0: NewRay / NewTemporalRay keep the sign of a zero direction component (1/dir = +Inf or -Inf in the slab test)
func (c *Ctx) c16zero() float64 {
	if c.Rng.Intn(2) == 0 {
		return math.Copysign(0, -1)
	}
	return 0
}

// an axis-parallel direction (two zero components of random sign) and the origin 7 units before `through` on that axis
func (c *Ctx) c16axisRay(through v3) (v3, v3) {
	sgn := float64(1 - 2*c.Rng.Intn(2))
	switch c.Rng.Intn(3) {
	case 0:
		return vector3.New(through.X()-7*sgn, through.Y(), through.Z()), vector3.New(sgn, c.c16zero(), c.c16zero())
	case 1:
		return vector3.New(through.X(), through.Y()-7*sgn, through.Z()), vector3.New(c.c16zero(), sgn, c.c16zero())
	default:
		return vector3.New(through.X(), through.Y(), through.Z()-7*sgn), vector3.New(c.c16zero(), c.c16zero(), sgn)
	}
}

func c16sorted(l []int) []int {
	o := append([]int(nil), l...)
	sort.Ints(o)
	return o
}

// ---------------------------------------------------------------- the stream

func runC16(c *Ctx) {
	// the automatic depth for every count the generators can produce
	for n := 0; n <= 300; n++ {
		c.Emit("c16.depth", fmt.Sprint(n), fmt.Sprint(trees.OctreeDepthFromCount(n)))
	}
	c.c16corpus()
	for k := 0; k < c.N; k++ {
		c.c16octreeCase()
		if k%2 == 0 {
			c.c16slabCase()
		}
		if k%3 == 0 {
			c.c16bvhCase()
		}
		if k%6 == 1 {
			c.c16sphereCase()
		}
	}
}

// past failures, run first
func (c *Ctx) c16corpus() {
	// (1) node bounds one ulp short of an element (fixed by e42b03d): query every point of the cloud at its own position
	ps := []v3{
		vector3.New(0.37026753645051064, 0.10019940926941497, 0.6432040265702031),
		vector3.New(0.7698890899830834, 0.7911253356619845, 0.26238190747072776),
		vector3.New(0.34686388037925503, 0.21465371537694145, 0.8220928971765717),
	}
	m := modeling.NewPointCloud(nil, map[string][]v3{modeling.PositionAttribute: ps}, nil, nil, nil)
	tree := m.OctTreeDepth(3)
	enc := "3 pt 3 " + c16v(ps[0]) + " " + c16v(ps[1]) + " " + c16v(ps[2])
	c.Emit("c16.oct.bounds", enc, c16box(tree.BoundingBox()))
	for i, p := range ps {
		res := tree.ElementsContainingPoint(p)
		c.Emit("c16.holds.eq_scan", "containing@corpus "+c16cnt(res)+" "+c16cnt([]int{i}), "true")
		c.Emit("c16.oct.containing", enc+" "+c16v(p), c16ids(res))
		res = tree.ElementsWithinRange(p, 0)
		c.Emit("c16.holds.eq_scan", "within@corpus "+c16cnt(res)+" "+c16cnt([]int{i}), "true")
		c.Emit("c16.oct.within", enc+" "+c16v(p)+" "+F(0), c16ids(res))
	}
	// (3) PointInSide accepted points on the extension of edge BC (fixed by f8880ab): the triangle's "closest point"
	// was the query itself, outside the triangle and its box, and the octree answer depended on the depth
	tv := []v3{
		vector3.New(0., 0., 0.), vector3.New(1., 0., 0.), vector3.New(0., 1., 0.),
		vector3.New(2., -1.5, 0.), vector3.New(3., -1.5, 0.), vector3.New(2., -2.5, 0.),
	}
	tm := modeling.NewTriangleMesh([]int{0, 1, 2, 3, 4, 5}).SetFloat3Attribute(modeling.PositionAttribute, tv)
	q := vector3.New(2., -1., 0.)
	telems := c16scope(tm)
	tenc := "tri 2 " + c16v(tv[0]) + " " + c16v(tv[1]) + " " + c16v(tv[2]) + " " + c16v(tv[3]) + " " + c16v(tv[4]) + " " + c16v(tv[5])
	for d := 0; d <= 2; d++ {
		id, pt := tm.OctTreeDepth(d).ClosestPoint(q)
		d2s := []float64{telems[0].ClosestPoint(q).DistanceSquared(q), telems[1].ClosestPoint(q).DistanceSquared(q)}
		own := pt
		if id >= 0 && id < 2 {
			own = telems[id].ClosestPoint(q)
		}
		c.Emit("c16.holds.closest", "corpus "+fmt.Sprint(id)+" "+F(pt.DistanceSquared(q))+" "+c16v(pt)+" "+c16v(own)+" 2 "+Fs(d2s...), "true")
		c.Emit("c16.oct.closestu", fmt.Sprint(d)+" "+tenc+" "+c16v(q), fmt.Sprint(id)+" "+F(pt.DistanceSquared(q))+" "+c16v(pt))
	}
	// (2) sphere box of half the size (fixed by 26964ba): a ray that hits the sphere off-centre
	sp := rendering.NewSphere(vector3.New(0., 0., 0.), 1, nil)
	ray := rendering.NewTemporalRay(vector3.New(0.8, 0., -5.), vector3.New(0., 0., 1.), 0)
	r1, r2 := rendering.NewHitRecord(), rendering.NewHitRecord()
	h1 := rendering.HitList{sp}.Hit(&ray, 0, 1e6, r1)
	h2 := rendering.NewBVHTree([]rendering.Hittable{sp}, 0, 1, 0, 0).Hit(&ray, 0, 1e6, r2)
	c.Emit("c16.holds.bvh", "bvhnode-spheres "+B(h2)+" "+F(r2.Distance)+" "+B(h1)+" "+F(r1.Distance), "true")
	c.Emit("c16.holds.bvh_scan", "bvhnode-spheres "+B(h2)+" "+F(r2.Distance)+" 1 "+B(h1)+" "+F(r1.Distance), "true")
}

func (c *Ctx) c16octreeCase() {
	s := c.c16elements()
	n := len(s.elems)
	depth := c.Rng.Intn(8) - 1 // -1 = automatic
	dtok := fmt.Sprint(depth)
	if depth < 0 {
		dtok = "auto"
	}
	c.Note("depth." + dtok)
	tree := s.build(depth)
	if tree == nil {
		c.Note("tree.nil")
		return
	}
	bounds := tree.BoundingBox()
	modelled := s.enc != ""
	pre := dtok + " " + s.enc
	if modelled {
		c.Emit("c16.oct.bounds", pre, c16box(bounds))
	}
	boxes := make([]geometry.AABB, n)
	for i, e := range s.elems {
		boxes[i] = e.BoundingBox()
	}
	nq := 3
	for qi := 0; qi < nq; qi++ {
		v, where := c.c16query(s, bounds)
		if s.intgrid {
			// integer query points: exactly on edge lines / their extensions, on vertices, in triangle planes
			v = vector3.New(float64(c.Rng.Intn(9)-4), float64(c.Rng.Intn(9)-4), float64(c.Rng.Intn(3)-1))
			where = "intgrid"
		}
		c.Note("query." + where)

		// --- elements whose bounds contain the point
		got := Guard(func() string { return c16ids(tree.ElementsContainingPoint(v)) })
		scan := []int{}
		for i := range boxes {
			if boxes[i].Contains(v) {
				scan = append(scan, i)
			}
		}
		if got == "panic" {
			c.Emit("c16.holds.eq_scan", "containing@"+where+" 0 0", "panic")
		} else {
			res := tree.ElementsContainingPoint(v)
			c.Emit("c16.holds.eq_scan", "containing@"+where+" "+c16cnt(res)+" "+c16cnt(scan), "true")
			if modelled {
				c.Emit("c16.oct.containing", pre+" "+c16v(v), c16ids(res))
			}
			if len(scan) > 0 {
				c.Note("containing.nonempty")
			}
		}

		// --- elements within a radius (radius chosen strictly between two element distances)
		ds := make([]float64, n)
		for i := range boxes {
			ds[i] = boxes[i].ClosestPoint(v).Distance(v)
		}
		sd := append([]float64(nil), ds...)
		sort.Float64s(sd)
		var r float64
		j := c.Rng.Intn(n + 1)
		switch {
		case j == 0:
			r = sd[0] * 0.5
		case j == n:
			r = sd[n-1]*1.5 + 1
		default:
			r = (sd[j-1] + sd[j]) / 2
		}
		tie := false
		for _, d := range ds {
			if d == r {
				tie = true
			}
		}
		if !tie {
			res := tree.ElementsWithinRange(v, r)
			scan = scan[:0]
			for i, d := range ds {
				if d <= r {
					scan = append(scan, i)
				}
			}
			c.Emit("c16.holds.eq_scan", "within@"+where+" "+c16cnt(res)+" "+c16cnt(scan), "true")
			if modelled {
				c.Emit("c16.oct.within", pre+" "+c16v(v)+" "+F(r), c16ids(res))
			}
			if len(scan) > 0 && len(scan) < n {
				c.Note("within.partial")
			}
		} else {
			c.Note("within.tie-skipped")
		}

		// --- closest point
		id, pt := tree.ClosestPoint(v)
		d2s := make([]float64, n)
		cps := make([]v3, n)
		best, nbest := math.Inf(1), 0
		for i, e := range s.elems {
			cps[i] = e.ClosestPoint(v)
			d2s[i] = cps[i].DistanceSquared(v)
			if d2s[i] < best {
				best = d2s[i]
			}
		}
		// "ties aside": elements within 1e-9·max(1,d) of the nearest count as tied with it
		dBest := math.Sqrt(best)
		for i := range d2s {
			if math.Sqrt(d2s[i]) <= dBest+1e-9*math.Max(1, dBest) {
				nbest++
			}
		}
		if id < 0 || id >= n {
			c.Emit("c16.holds.closest", where+" "+fmt.Sprintf("%d", n+1)+" "+F(0)+" "+c16v(pt)+" "+c16v(pt)+" "+fmt.Sprint(n)+" "+Fs(d2s...), "true")
		} else {
			c.Emit("c16.holds.closest", where+" "+fmt.Sprint(id)+" "+F(pt.DistanceSquared(v))+" "+c16v(pt)+" "+c16v(cps[id])+" "+fmt.Sprint(n)+" "+Fs(d2s...), "true")
		}
		if modelled && id >= 0 && id < n {
			// independent truth: the driver computes every element's closest distance from the geometry with the Lean model (the
			// scan above goes through the library's own Scope / ClosestPoint, which would be wrong together with the tree)
			c.Emit("c16.holds.closest_scan", where+" "+fmt.Sprint(id)+" 0 "+s.enc+" "+c16v(v)+" "+F(pt.DistanceSquared(v)), "true")
		}
		if modelled {
			if nbest == 1 {
				c.Emit("c16.oct.closestu", pre+" "+c16v(v), fmt.Sprint(id)+" "+F(pt.DistanceSquared(v))+" "+c16v(pt))
				c.Note("closest.unique")
			} else {
				c.Emit("c16.oct.closest", pre+" "+c16v(v), F(pt.DistanceSquared(v)))
				c.Note("closest.tie")
			}
		}

		// --- ray queries
		o := v
		var target v3
		if c.Rng.Intn(3) == 0 {
			target = o.Add(vector3.New(c.Rng.NormFloat64(), c.Rng.NormFloat64(), c.Rng.NormFloat64()))
		} else {
			target = s.verts[c.Rng.Intn(len(s.verts))].Add(vector3.New(c.Rng.NormFloat64()*0.3, c.Rng.NormFloat64()*0.3, c.Rng.NormFloat64()*0.3))
		}
		if target.Distance(o) < 1e-9 {
			target = o.Add(vector3.New(1., 2., 3.))
		}
		dirv := target.Sub(o)
		switch c.Rng.Intn(6) {
		case 0: // axis-parallel (zero components of either sign), exactly through an element vertex / box corner
			target = s.verts[c.Rng.Intn(len(s.verts))]
			o, dirv = c.c16axisRay(target)
		case 1: // one zero component of either sign, origin level with an element vertex on that axis
			target = s.verts[c.Rng.Intn(len(s.verts))]
			switch c.Rng.Intn(3) {
			case 0:
				o = vector3.New(target.X(), o.Y(), o.Z())
			case 1:
				o = vector3.New(o.X(), target.Y(), o.Z())
			default:
				o = vector3.New(o.X(), o.Y(), target.Z())
			}
			dirv = target.Sub(o)
			if dirv.Length() < 1e-9 {
				dirv = vector3.New(1., 2., 3.)
			}
			if dirv.X() == 0 {
				dirv = vector3.New(c.c16zero(), dirv.Y(), dirv.Z())
			}
			if dirv.Y() == 0 {
				dirv = vector3.New(dirv.X(), c.c16zero(), dirv.Z())
			}
			if dirv.Z() == 0 {
				dirv = vector3.New(dirv.X(), dirv.Y(), c.c16zero())
			}
		}
		ray := geometry.NewRay(o, dirv)
		dir := ray.Direction()
		if dir.X() == 0 || dir.Y() == 0 || dir.Z() == 0 {
			c.Note("ray.axis-parallel")
		}
		if (dir.X() == 0 && math.Signbit(dir.X())) || (dir.Y() == 0 && math.Signbit(dir.Y())) || (dir.Z() == 0 && math.Signbit(dir.Z())) {
			c.Note("ray.negative-zero")
		}
		mn, mx := 0., 1e6
		switch c.Rng.Intn(4) {
		case 0:
			mx = target.Distance(o) * (0.2 + c.Rng.Float64()*1.5)
		case 1:
			mn = target.Distance(o) * c.Rng.Float64()
			mx = mn + c.Rng.Float64()*10
		}
		res := append([]int(nil), tree.ElementsIntersectingRay(ray, mn, mx)...)
		scan = scan[:0]
		for i := range boxes {
			if boxes[i].IntersectsRayInRange(ray, mn, mx) {
				scan = append(scan, i)
			}
		}
		c.Emit("c16.holds.eq_scan", "ray@"+where+" "+c16cnt(res)+" "+c16cnt(scan), "true")
		trav := []int{}
		tree.TraverseIntersectingRay(ray, mn, mx, func(i int, min, max *float64) { trav = append(trav, i) })
		c.Emit("c16.holds.eq_scan", "traverse@"+where+" "+c16cnt(trav)+" "+c16cnt(scan), "true")
		// independent truth: the driver evaluates the Lean slab model on every element box (the scan above uses the
		// library's own box test, so a defect in that test would be wrong on both sides)
		bx := make([]string, n)
		for i := range boxes {
			bx[i] = c16box(boxes[i])
		}
		rs := fmt.Sprint(n) + " " + strings.Join(bx, " ") + " " + c16v(ray.Origin()) + " " + c16v(dir) + " " + Fs(mn, mx)
		c.Emit("c16.holds.ray_scan", "ray@"+where+" "+rs+" "+c16cnt(res), "true")
		c.Emit("c16.holds.ray_scan", "traverse@"+where+" "+rs+" "+c16cnt(trav), "true")
		if modelled {
			rq := pre + " " + c16v(ray.Origin()) + " " + c16v(dir) + " " + Fs(mn, mx)
			c.Emit("c16.oct.ray", rq, c16ids(res))
			c.Emit("c16.oct.traverse", rq, c16ids(trav))
		}
		if len(scan) > 0 && len(scan) < n {
			c.Note("ray.partial")
		}
	}
}

// the hand-modelled slab test against the real one, including touching and degenerate boxes
func (c *Ctx) c16slabCase() {
	ps, _ := c.c16positions(2)
	size := vector3.New(c.Rng.Float64()*4, c.Rng.Float64()*4, c.Rng.Float64()*4)
	if c.Rng.Intn(4) == 0 {
		size = vector3.New(0., float64(c.Rng.Intn(3)), 0.)
	}
	b := geometry.NewAABB(ps[0], size)
	o := ps[1]
	var target v3
	switch c.Rng.Intn(3) {
	case 0:
		target = b.Center().Add(vector3.New((c.Rng.Float64()*2-1)*size.X(), (c.Rng.Float64()*2-1)*size.Y(), (c.Rng.Float64()*2-1)*size.Z()))
	case 1:
		target = b.Max()
	default:
		target = o.Add(vector3.New(float64(c.Rng.Intn(3)-1), float64(c.Rng.Intn(3)-1), float64(c.Rng.Intn(3)-1)))
	}
	if target.Distance(o) < 1e-12 {
		target = o.Add(vector3.New(0., 1., 0.))
	}
	ray := geometry.NewRay(o, target.Sub(o))
	mn, mx := c.Rng.Float64()*2-1, c.Rng.Float64()*30
	c.Emit("c16.aabb.ray", c16box(b)+" "+c16v(ray.Origin())+" "+c16v(ray.Direction())+" "+Fs(mn, mx), B(b.IntersectsRayInRange(ray, mn, mx)))

	// axis-parallel rays (two zero direction components, each +0 or -0): origin strictly inside the widened slabs,
	// outside, and EXACTLY on the widened face boxMin-kEpsilon / boxMax+kEpsilon (0*Inf = NaN in Go)
	const kEpsilon = 0.0000000001
	zero := func() float64 {
		if c.Rng.Intn(2) == 0 {
			return math.Copysign(0, -1)
		}
		return 0
	}
	coord := func(lo, hi float64) float64 {
		switch c.Rng.Intn(6) {
		case 0:
			return lo - kEpsilon
		case 1:
			return hi + kEpsilon
		case 2:
			return lo - 1 - c.Rng.Float64()
		case 3:
			return hi + 1 + c.Rng.Float64()
		case 4:
			return lo
		default:
			return lo + (hi-lo)*c.Rng.Float64()
		}
	}
	bmin, bmax := b.Min(), b.Max()
	sgn := float64(1 - 2*c.Rng.Intn(2))
	var ao, ad v3
	switch c.Rng.Intn(3) {
	case 0:
		ao = vector3.New(bmin.X()-5*sgn, coord(bmin.Y(), bmax.Y()), coord(bmin.Z(), bmax.Z()))
		ad = vector3.New(sgn, zero(), zero())
	case 1:
		ao = vector3.New(coord(bmin.X(), bmax.X()), bmin.Y()-5*sgn, coord(bmin.Z(), bmax.Z()))
		ad = vector3.New(zero(), sgn, zero())
	default:
		ao = vector3.New(coord(bmin.X(), bmax.X()), coord(bmin.Y(), bmax.Y()), bmin.Z()-5*sgn)
		ad = vector3.New(zero(), zero(), sgn)
	}
	aray := geometry.NewRay(ao, ad)
	c.Note("slab.axis-parallel")
	c.Emit("c16.aabb.ray", c16box(b)+" "+c16v(aray.Origin())+" "+c16v(aray.Direction())+" "+Fs(0, 100), B(b.IntersectsRayInRange(aray, 0, 100)))
}

// BVHNode.Hit / rendering.Mesh.Hit / rendering.Tree.Hit (octree) vs HitList.Hit over the same triangles
// BVHNode.Hit / rendering.Tree.Hit (octree) vs HitList.Hit over spheres
func (c *Ctx) c16sphereCase() {
	n := 1 + c.Rng.Intn(12)
	centres, _ := c.c16positions(n)
	spheres := make(rendering.HitList, n)
	radii := make([]float64, n)
	for i := range spheres {
		radii[i] = 0.2 + c.Rng.Float64()*2
		spheres[i] = rendering.NewSphere(centres[i], radii[i], nil)
	}
	for rep := 0; rep < 2; rep++ {
		bvh := rendering.NewBVHTree(append([]rendering.Hittable(nil), spheres...), 0, n, 0, 0)
		octBvh := rendering.NewBVH(append([]rendering.Hittable(nil), spheres...), 0, 0)
		for q := 0; q < 3; q++ {
			o := vector3.New(c.Rng.Float64()*60-30, c.Rng.Float64()*60-30, c.Rng.Float64()*60-30)
			ti := c.Rng.Intn(n)
			// aim anywhere inside the sphere's silhouette, the rim included
			off := vector3.New(c.Rng.NormFloat64(), c.Rng.NormFloat64(), c.Rng.NormFloat64())
			if off.Length() < 1e-9 {
				continue
			}
			target := centres[ti].Add(off.Normalized().Scale(radii[ti] * c.Rng.Float64()))
			if target.Distance(o) < 1e-9 {
				continue
			}
			mn, mx := 0., 1e6
			dirv := target.Sub(o)
			if c.Rng.Intn(3) == 0 {
				o, dirv = c.c16axisRay(target)
				c.Note("bvh.spheres.axis-ray")
			}
			ray := rendering.NewTemporalRay(o, dirv, 0)
			recL := rendering.NewHitRecord()
			hitL := spheres.Hit(&ray, mn, mx, recL)
			per := make([]string, 0, 2*n)
			for i := 0; i < n; i++ {
				r := rendering.NewHitRecord()
				h := spheres[i].Hit(&ray, mn, mx, r)
				per = append(per, B(h), F(r.Distance))
			}
			if hitL {
				c.Note("bvh.spheres.hit")
			} else {
				c.Note("bvh.spheres.miss")
			}
			recB := rendering.NewHitRecord()
			hitB := bvh.Hit(&ray, mn, mx, recB)
			c.Emit("c16.holds.bvh", "bvhnode-spheres "+B(hitB)+" "+F(recB.Distance)+" "+B(hitL)+" "+F(recL.Distance), "true")
			c.Emit("c16.holds.bvh_scan", "bvhnode-spheres "+B(hitB)+" "+F(recB.Distance)+" "+fmt.Sprint(n)+" "+strings.Join(per, " "), "true")
			recO := rendering.NewHitRecord()
			hitO := octBvh.Hit(&ray, mn, mx, recO)
			c.Emit("c16.holds.bvh", "octbvh-spheres "+B(hitO)+" "+F(recO.Distance)+" "+B(hitL)+" "+F(recL.Distance), "true")
		}
	}
}

// axis-aligned FLAT triangles (zero-volume boxes): a g×g grid of cells in a coordinate plane, or the six faces of a box
func (c *Ctx) c16flatMesh() (modeling.Mesh, []v3, []int) {
	var verts []v3
	var idx []int
	quad := func(a, b, d, e v3) {
		base := len(verts)
		verts = append(verts, a, b, d, e)
		idx = append(idx, base, base+1, base+2, base, base+2, base+3)
	}
	axis := c.Rng.Intn(3)
	mk := func(u, v, w float64) v3 {
		switch axis {
		case 0:
			return vector3.New(w, u, v)
		case 1:
			return vector3.New(u, w, v)
		default:
			return vector3.New(u, v, w)
		}
	}
	if c.Rng.Intn(3) == 0 { // cube faces
		lo, hi := float64(c.Rng.Intn(5)-4), float64(1+c.Rng.Intn(4))
		for ax := 0; ax < 3; ax++ {
			axis = ax
			for _, w := range []float64{lo, hi} {
				quad(mk(lo, lo, w), mk(hi, lo, w), mk(hi, hi, w), mk(lo, hi, w))
			}
		}
		c.Note("bvh.flat.cube")
	} else {
		g := 1 + c.Rng.Intn(4)
		cell := []float64{0.5, 1, 2.5}[c.Rng.Intn(3)]
		w := float64(c.Rng.Intn(7) - 3)
		o := float64(c.Rng.Intn(5) - 2)
		for i := 0; i < g; i++ {
			for j := 0; j < g; j++ {
				u0, v0 := o+float64(i)*cell, o+float64(j)*cell
				quad(mk(u0, v0, w), mk(u0+cell, v0, w), mk(u0+cell, v0+cell, w), mk(u0, v0+cell, w))
			}
		}
		c.Note("bvh.flat.grid")
	}
	normals := make([]v3, len(verts))
	for i := range normals {
		normals[i] = vector3.New(0., 1., 0.)
	}
	return modeling.NewTriangleMesh(idx).
		SetFloat3Attribute(modeling.PositionAttribute, verts).
		SetFloat3Attribute(modeling.NormalAttribute, normals), verts, idx
}

func (c *Ctx) c16bvhCase() {
	n := 1 + c.Rng.Intn(24)
	if c.Rng.Intn(5) == 0 {
		n = 1 + c.Rng.Intn(3)
	}
	m, verts, idx := c.c16triMesh(n)
	if c.Rng.Intn(3) == 0 {
		m, verts, idx = c.c16flatMesh()
		n = len(idx) / 3
	}
	// one Hittable per triangle (a one-triangle BVH node: box test, then the triangle)
	singles := make(rendering.HitList, n)
	pos := verts
	for i := 0; i < n; i++ {
		tm := modeling.NewTriangleMesh([]int{0, 1, 2}).
			SetFloat3Attribute(modeling.PositionAttribute, []v3{pos[idx[3*i]], pos[idx[3*i+1]], pos[idx[3*i+2]]}).
			SetFloat3Attribute(modeling.NormalAttribute, []v3{vector3.Up[float64](), vector3.Up[float64](), vector3.Up[float64]()})
		singles[i] = rendering.NewBVHFromMesh(tm, nil)
	}
	hittables := make([]rendering.Hittable, n)
	copy(hittables, singles)
	octMesh := rendering.NewMesh(m, nil)
	for rep := 0; rep < 3; rep++ {
		bvh := rendering.NewBVHFromMesh(m, nil) // random axes: a fresh tree every time
		octBvh := rendering.NewBVH(append([]rendering.Hittable(nil), hittables...), 0, 0)
		for q := 0; q < 3; q++ {
			o := vector3.New(c.Rng.Float64()*30-15, c.Rng.Float64()*30-15, c.Rng.Float64()*30-15)
			ti := c.Rng.Intn(n)
			w1, w2 := c.Rng.Float64(), c.Rng.Float64()
			if w1+w2 > 1 {
				w1, w2 = 1-w1, 1-w2
			}
			ta, tb, tc := pos[idx[3*ti]], pos[idx[3*ti+1]], pos[idx[3*ti+2]]
			target := ta.Add(tb.Sub(ta).Scale(w1)).Add(tc.Sub(ta).Scale(w2))
			if c.Rng.Intn(6) == 0 {
				target = vector3.New(c.Rng.Float64()*30-15, c.Rng.Float64()*30-15, c.Rng.Float64()*30-15)
			}
			if target.Distance(o) < 1e-9 {
				continue
			}
			mn, mx := 0., 1e6
			if c.Rng.Intn(3) == 0 {
				mx = target.Distance(o) * (0.5 + c.Rng.Float64())
			}
			dirv := target.Sub(o)
			if c.Rng.Intn(3) == 0 { // axis-parallel through the target, zero components of either sign
				o, dirv = c.c16axisRay(target)
				mx = 1e6
				c.Note("bvh.axis-ray")
			}
			ray := rendering.NewTemporalRay(o, dirv, 0)
			recL := rendering.NewHitRecord()
			hitL := singles.Hit(&ray, mn, mx, recL)
			// each triangle on its own: the exhaustive scan
			per := make([]string, 0, 2*n)
			for i := 0; i < n; i++ {
				r := rendering.NewHitRecord()
				h := singles[i].Hit(&ray, mn, mx, r)
				per = append(per, B(h), F(r.Distance))
			}
			if hitL {
				c.Note("bvh.hit")
			} else {
				c.Note("bvh.miss")
			}
			recB := rendering.NewHitRecord()
			hitB := bvh.Hit(&ray, mn, mx, recB)
			c.Emit("c16.holds.bvh", "bvhnode "+B(hitB)+" "+F(recB.Distance)+" "+B(hitL)+" "+F(recL.Distance), "true")
			c.Emit("c16.holds.bvh_scan", "bvhnode "+B(hitB)+" "+F(recB.Distance)+" "+fmt.Sprint(n)+" "+strings.Join(per, " "), "true")
			c.Emit("c16.holds.bvh_scan", "hitlist "+B(hitL)+" "+F(recL.Distance)+" "+fmt.Sprint(n)+" "+strings.Join(per, " "), "true")
			recM := rendering.NewHitRecord()
			hitM := octMesh.Hit(&ray, mn, mx, recM)
			c.Emit("c16.holds.bvh", "octmesh "+B(hitM)+" "+F(recM.Distance)+" "+B(hitL)+" "+F(recL.Distance), "true")
			recO := rendering.NewHitRecord()
			hitO := octBvh.Hit(&ray, mn, mx, recO)
			c.Emit("c16.holds.bvh", "octbvh "+B(hitO)+" "+F(recO.Distance)+" "+B(hitL)+" "+F(recL.Distance), "true")
		}
	}
}
