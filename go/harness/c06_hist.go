package main

// C06 round 2, histories and large payloads.
//
// c6FailThenWrite (seeded C06-m16: pooled payload buffer returned dirty by the error path): a write that is REJECTED after
// the data of at least one valid model was already written (nil mesh / bad alphaCutoff material / colliding attribute names
// in the LAST model) is followed, in the same process, by a valid write on which every oracle runs; the first output is
// written again afterwards and must come out byte for byte the same (c06.holds.rewrite).
//
// c6BigText (seeded C06-m17: data URI base64-encoded in 4 MiB blocks): one point cloud whose payload exceeds 4 MiB goes
// through the TEXT and the binary container; megabytes do not cross the pipe — the oracle c06.holds.bigtext gets the
// document summary (the driver evaluates shapeOK: views tile [0, byteLength), accessor k fills view k) and SUMMARIES of the
// payload: strict base64 verdict, declared / decoded / BIN-chunk / expected lengths and their FNV-64 hashes (expected = the
// little-endian float32 / uint32 image computed here from the scene), min/max/count verdict of this reader.

import (
	"encoding/base64"
	"encoding/binary"
	"fmt"
	"hash/fnv"
	"math"
	"strconv"
	"strings"
)

func fnv64(b []byte) string {
	h := fnv.New64a()
	h.Write(b)
	return fmt.Sprintf("%016x", h.Sum64())
}

// s with one more model that makes AddScene fail AFTER everything else was written
func c6FailingVariant(s *c6Scene, how int) *c6Scene {
	f := &c6Scene{meshes: s.meshes, texs: s.texs, lights: s.lights}
	f.mats = append([]c6Mat{}, s.mats...)
	f.models = append([]c6Model{}, s.models...)
	switch how % 3 {
	case 0:
		f.models = append(f.models, c6Model{name: "nilmesh", mesh: -1, mat: -1})
	case 1:
		v := 0.5
		bad := c6BlankMat("badcutoff")
		bad.cutoff = &v
		f.mats = append(f.mats, bad)
		mesh := -1
		for i := range f.meshes {
			if _, ok := f.visibleMesh(c6Model{mesh: i}); ok {
				mesh = i
			}
		}
		f.models = append(f.models, c6Model{name: "badmat", mesh: mesh, mat: len(f.mats) - 1})
	default:
		dup := c6Mesh{topo: 0, idx: []int{0, 1, 2}, attrs: []c6Attr{
			{name: "Color", dim: 3, data: []float64{0, 0, 0, 0, 1, 0, 1, 0, 0}},
			{name: "Color", dim: 4, data: []float64{0, 0, 0, 1, 0, 1, 0, 1, 1, 0, 0, 1}}}}
		f.meshes = append(append([]c6Mesh{}, s.meshes...), dup)
		f.models = append(f.models, c6Model{name: "dupattr", mesh: len(f.meshes) - 1, mat: -1})
	}
	return f
}

func (c *Ctx) c6FailThenWrite(s *c6Scene, how int, glbFail, glb bool, tag string) {
	c.c6Case(c6FailingVariant(s, how), glbFail, "history-fail")
	c.Note("history.fail-then-write")
	c.c6Case(s, glb, tag)
}

// fixed histories: valid, rejected (three ways, both containers), valid again with all oracles, first output again
func (c *Ctx) c6HistoryFixed() {
	k := 0
	for how := 0; how < 3; how++ {
		for _, glbFail := range []bool{true, false} {
			for _, glb := range []bool{true, false} {
				a := c6Witness()
				b := c6TopoFixed(0, 6, 4, true)
				first := c6Write(a.build(), glb)
				c.c6FailThenWrite(b, how, glbFail, glb, "")
				c.c6Case(c6FailingVariant(a, how+1), glbFail, "history-fail")
				again := c6Write(a.build(), glb)
				c.Emit("c06.holds.rewrite", strconv.Itoa(len(first.file))+" "+fnv64(first.file)+" "+strconv.Itoa(len(again.file))+" "+fnv64(again.file)+
					" "+strconv.Itoa(len(first.bin))+" "+fnv64(first.bin)+" "+strconv.Itoa(len(again.bin))+" "+fnv64(again.bin), "true")
				k++
			}
		}
	}
	c.Note("history.fixed")
}

// point cloud with nv positions and ni indices: payload 12·nv + 4·ni bytes (nv > 65535)
func (c *Ctx) c6BigText(nv, ni int) {
	m := c6Mesh{topo: 1, idx: make([]int, ni)}
	for i := range m.idx {
		m.idx[i] = (i*7 + 3) % nv
	}
	m.idx[ni-1] = nv - 1
	pos := c6Attr{name: "Position", dim: 3, data: make([]float64, 3*nv)}
	for i := range pos.data {
		pos.data[i] = float64((i*13)%2001-1000) / 8
	}
	m.attrs = []c6Attr{pos}
	s := &c6Scene{meshes: []c6Mesh{m}, models: []c6Model{{name: "cloud", mesh: 0, mat: -1}}}
	ps := s.build()
	exp := make([]byte, 0, 12*nv+4*ni)
	mn := []float64{math.Inf(1), math.Inf(1), math.Inf(1)}
	mx := []float64{math.Inf(-1), math.Inf(-1), math.Inf(-1)}
	for i, f := range pos.data {
		exp = binary.LittleEndian.AppendUint32(exp, math.Float32bits(float32(f)))
		v := float64(float32(f))
		mn[i%3], mx[i%3] = math.Min(mn[i%3], v), math.Max(mx[i%3], v)
	}
	for _, i := range m.idx {
		exp = binary.LittleEndian.AppendUint32(exp, uint32(i))
	}
	var ot, og c6Out
	if Guard(func() string { ot = c6Write(ps, false); og = c6Write(ps, true); return "" }) == "panic" || ot.err || og.err {
		c.Emit("c06.holds.bigtext", "write-failed", "true")
		return
	}
	declared := -1
	b64ok := false
	var text []byte
	if len(ot.doc.Buffers) == 1 {
		declared = ot.doc.Buffers[0].ByteLength
		const pre = "data:application/octet-stream;base64,"
		if uri := ot.doc.Buffers[0].URI; strings.HasPrefix(uri, pre) {
			if dec, err := base64.StdEncoding.Strict().DecodeString(uri[len(pre):]); err == nil {
				b64ok, text = true, dec
			}
		}
	}
	// this reader's own verdict on count / min / max of the two accessors against the decoded TEXT payload
	mm := b64ok && len(text) == len(exp) && len(ot.doc.Accessors) == 2 &&
		ot.doc.Accessors[0].Count == nv && ot.doc.Accessors[0].ComponentType == 5126 && ot.doc.Accessors[0].Type == "VEC3" &&
		ot.doc.Accessors[1].Count == ni && ot.doc.Accessors[1].ComponentType == 5125 && ot.doc.Accessors[1].Type == "SCALAR" &&
		len(ot.doc.Accessors[0].Min) == 3 && len(ot.doc.Accessors[0].Max) == 3
	if mm {
		for j := 0; j < 3; j++ {
			mm = mm && ot.doc.Accessors[0].Min[j] == mn[j] && ot.doc.Accessors[0].Max[j] == mx[j]
		}
	}
	c.Emit("c06.holds.bigtext", ot.dtok+" X "+b2s(b64ok)+" "+strconv.Itoa(declared)+" "+strconv.Itoa(len(text))+" "+fnv64(text)+
		" "+strconv.Itoa(len(og.bin))+" "+fnv64(og.bin)+" "+strconv.Itoa(len(exp))+" "+fnv64(exp)+" "+b2s(mm)+" "+b2s(ot.dtok == og.dtok), "true")
	c.Note("bigtext." + strconv.Itoa(len(exp)))
}
