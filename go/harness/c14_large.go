package main

// C14 — LARGE files (more than 65536 / 100000 records; megabytes) cut at the positions where a reader's internal
// batch size or allocation cap could end: 4096, 65536, 100000, 2*65536, 1<<20 — counted in RECORDS / LINES and in
// BYTES — and one byte either side.  The cut goes to the REAL reader through every entry point (in-memory readers over
// several io.Reader shapes, the on-disk Load helpers); only SIZES and the verdict class cross to the Lean driver:
//
//   c14.holds.large_cut_stl   <entry> <n> <len> <k> <class>
//   c14.holds.large_cut_splat <entry> <n> <len> <k> <class>
//   c14.holds.large_cut_ply   <entry> <hlen> <vcount> <vsize> <fcount> <fbytes> <len> <k> <class>
//   c14.holds.large_cut_pts   <entry> <n> <fpp> <clen> <tw> <len> <j> <t> <sp> <k> <class>
//
// The driver evaluates the size-only cut laws of Model/C14Large.lean, which Props/C14Large.lean proves to be the verdict
// of the full reader models on `take k file` for every valid file and every cut.

import (
	"bufio"
	"bytes"
	"encoding/binary"
	"fmt"
	"io"
	"math"
	"sort"
	"strconv"
	"strings"

	"github.com/EliCDavis/polyform/formats/ply"
	"github.com/EliCDavis/polyform/formats/pts"
	"github.com/EliCDavis/polyform/formats/splat"
	"github.com/EliCDavis/polyform/formats/stl"
	"github.com/EliCDavis/polyform/modeling"
)

// plausible internal batch sizes / allocation caps
var c14thresholds = []int{4096, 65536, 100000, 2 * 65536, 3 * 65536, 1 << 20}

type c14entry struct {
	name string
	read func(prefix []byte) string // verdict class
	all  bool                       // false: only at the exact boundary positions
}

func c14stlClassR(in io.Reader) string {
	m, err := stl.ReadMesh(in)
	if err != nil {
		return "err"
	}
	if m == nil {
		return "ok:nil-mesh"
	}
	return fmt.Sprintf("ok:%d", m.PrimitiveCount())
}

func c14plyClassR(in io.Reader) string {
	m, err := ply.ReadMesh(in)
	if err != nil {
		return "err"
	}
	if m == nil {
		return "ok:nil-mesh"
	}
	return fmt.Sprintf("ok:%d:%d", m.AttributeLength(), m.Indices().Len())
}

func c14ptsClassR(in io.Reader) string {
	m, err := pts.ReadPointCloud(in)
	if err != nil {
		return "err"
	}
	if m == nil {
		return "ok:nil-mesh"
	}
	return fmt.Sprintf("ok:%d:%s:%s", m.AttributeLength(), c14b(m.HasFloat1Attribute(modeling.IntensityAttribute)),
		c14b(m.HasFloat3Attribute(modeling.ColorAttribute)))
}

func c14splatClassR(in io.Reader) string {
	m, err := splat.Read(in)
	flag := 0
	if err != nil {
		if err != io.ErrUnexpectedEOF {
			return "err"
		}
		flag = 1
	}
	return fmt.Sprintf("ok:%d:%d", m.AttributeLength(), flag)
}

// the in-memory reader over several io.Reader shapes (plain, bufio of two sizes, fixed-size chunks), plus the
// format's on-disk helpers
func c14entries(format string, readR func(io.Reader) string) []c14entry {
	es := []c14entry{
		{"bytes", func(b []byte) string { return readR(bytes.NewReader(b)) }, true},
		{"bufio65536", func(b []byte) string { return readR(bufio.NewReaderSize(bytes.NewReader(b), 65536)) }, false},
		{"bufio4096", func(b []byte) string { return readR(bufio.NewReaderSize(bytes.NewReader(b), 4096)) }, false},
		{"chunk65536", func(b []byte) string { return readR(&c15chunkReader{data: b, sizes: []int{65536}}) }, false},
		{"chunk100000", func(b []byte) string { return readR(&c15chunkReader{data: b, sizes: []int{100000}}) }, false},
	}
	for _, d := range c14diskEntries(format) {
		d := d
		es = append(es, c14entry{d.name, func(b []byte) string {
			return c14withTempFile(b, "."+format, func(p string) c14out {
				o := d.load(p)
				if format == "ply" || format == "stl" {
					return c14out{o.class, ""}
				}
				return o
			}).class
		}, false})
	}
	return es
}

// cut positions of a record file: `hdr` bytes, then `n` records of `rec` bytes starting at `start`
// returns position -> exact (on a threshold itself, not one byte off)
func c14largeCuts(cuts map[int]bool, start, rec, n, total int) {
	add := func(p int, exact bool) {
		if p >= 0 && p <= total {
			cuts[p] = cuts[p] || exact
		}
	}
	for _, b := range c14thresholds {
		add(b-1, false)
		add(b, true)
		add(b+1, false)
		for _, r := range []int{b - 1, b, b + 1} {
			if r < 0 || r > n {
				continue
			}
			p := start + r*rec
			add(p-1, false)
			add(p, r == b)
			add(p+1, false)
		}
	}
	add(start-1, false)
	add(start, true)
	add(start+1, false)
	add(start+(n-1)*rec, true)
	add(start+n*rec-1, false)
	add(start+n*rec, true)
}

func (c *Ctx) c14largeRun(format string, data []byte, cuts map[int]bool, readR func(io.Reader) string, emit func(entry string, k int, class string)) {
	ks := make([]int, 0, len(cuts))
	for k := range cuts {
		ks = append(ks, k)
	}
	sort.Ints(ks)
	entries := c14entries(format, readR)
	for _, k := range ks {
		for _, e := range entries {
			if !e.all && !cuts[k] {
				continue
			}
			e := e
			prefix := data[:k]
			r := c14guard(func() c14out { return c14out{e.read(prefix), ""} })
			emit(e.name, k, r.class)
			c.Note("c14.large." + format + "." + r.class[:min(len(r.class), 2)])
			if r.class == "timeout" {
				c.c14flushExit()
			}
		}
	}
}

func (c *Ctx) c14largeStl(n int) {
	data := make([]byte, 84+50*n)
	copy(data, "large binary stl")
	binary.LittleEndian.PutUint32(data[80:], uint32(n))
	for i := 0; i < n; i++ {
		o := 84 + 50*i
		fs := []float32{0, 0, 1, float32(i + 1), 1, 2, float32(i + 2), 3, 4, float32(i + 3), 5, 6}
		for j, f := range fs {
			binary.LittleEndian.PutUint32(data[o+4*j:], math.Float32bits(f))
		}
	}
	cuts := map[int]bool{}
	c14largeCuts(cuts, 84, 50, n, len(data))
	c.Note(fmt.Sprintf("c14.large.file.stl.%d", n))
	c.c14largeRun("stl", data, cuts, c14stlClassR, func(entry string, k int, class string) {
		c.Emit("c14.holds.large_cut_stl", fmt.Sprintf("%s %d %d %d %s", entry, n, len(data), k, class), "true")
	})
}

func (c *Ctx) c14largeSplat(n int) {
	data := c.c15rnd(32 * n)
	cuts := map[int]bool{}
	c14largeCuts(cuts, 0, 32, n, len(data))
	c.Note(fmt.Sprintf("c14.large.file.splat.%d", n))
	c.c14largeRun("splat", data, cuts, c14splatClassR, func(entry string, k int, class string) {
		c.Emit("c14.holds.large_cut_splat", fmt.Sprintf("%s %d %d %d %s", entry, n, len(data), k, class), "true")
	})
}

// binary PLY written by the real writer: a point cloud (ntri < 0) or a triangle mesh
func (c *Ctx) c14largePly(nv, ntri int, pf ply.Format) {
	var b bytes.Buffer
	if err := ply.Write(&b, c.c14mesh(nv, ntri, false, false, false), pf); err != nil {
		c.Note("c14.large.ply.write-failed")
		return
	}
	data := b.Bytes()
	desc, ok := c14plyDesc(data)
	hlen := c14plyBodyStart(data)
	if !ok || hlen < 0 {
		c.Note("c14.large.ply.no-desc")
		return
	}
	// desc: fmt vcount vsize nprops hasface [fcount idx tex nlists (countSize elemSize)*] — from the real ply.ReadHeader
	fs := strings.Fields(desc)
	vcount, _ := strconv.Atoi(fs[1])
	vsize, _ := strconv.Atoi(fs[2])
	fcount, frec := 0, 0
	if fs[4] == "1" {
		fcount, _ = strconv.Atoi(fs[5])
		if fs[8] != "1" {
			c.Note("c14.large.ply.unexpected-lists")
			return
		}
		cs, _ := strconv.Atoi(fs[9])
		es, _ := strconv.Atoi(fs[10])
		frec = cs + 3*es // triangles
	}
	fbytes := fcount * frec
	cuts := map[int]bool{}
	c14largeCuts(cuts, hlen, vsize, vcount, len(data))
	if fcount > 0 {
		c14largeCuts(cuts, hlen+vcount*vsize, frec, fcount, len(data))
	}
	c.Note(fmt.Sprintf("c14.large.file.ply.%s.%d.%d", c14fmtName(pf), vcount, fcount))
	c.c14largeRun("ply", data, cuts, c14plyClassR, func(entry string, k int, class string) {
		c.Emit("c14.holds.large_cut_ply", fmt.Sprintf("%s %d %d %d %d %d %d %d %s", entry, hlen, vcount, vsize, fcount, fbytes, len(data), k, class), "true")
	})
}

// PTS text with fixed-width tokens (7 digits): count line, n lines of fpp tokens; cuts at token boundaries
func (c *Ctx) c14largePts(n, fpp int) {
	const tw = 7
	var sb strings.Builder
	sb.Grow(16 + n*fpp*(tw+1))
	fmt.Fprintf(&sb, "%d\n", n)
	clen := sb.Len()
	for i := 0; i < n; i++ {
		for f := 0; f < fpp; f++ {
			if f > 0 {
				sb.WriteByte(' ')
			}
			v := (f+1)*1000000 + i
			if f >= 3 {
				v = 1000000 + (i*7+f)%250 // intensity / colour
			}
			sb.WriteString(strconv.Itoa(v))
		}
		sb.WriteByte('\n')
	}
	data := []byte(sb.String())
	w := fpp * (tw + 1)
	type cut struct {
		j, t, sp int
		exact    bool
	}
	pos := func(x cut) int {
		p := clen + x.j*w + x.sp
		if x.t > 0 {
			p += x.t*(tw+1) - 1
		}
		return p
	}
	valid := func(x cut) bool { // = C14Large.ptsCutValid
		if x.t < 0 || x.t > fpp || x.j < 0 {
			return false
		}
		if x.j < n {
			return (x.t == 0 || x.j >= 1) && (x.sp == 0 || (x.t > 0 && x.t < fpp))
		}
		return x.j == n && x.t == 0 && x.sp == 0
	}
	seen := map[int]cut{}
	add := func(x cut) {
		if !valid(x) {
			return
		}
		p := pos(x)
		if old, ok := seen[p]; ok {
			x.exact = x.exact || old.exact
			if old.t == 0 && x.t != 0 { // same byte position: keep one description
				x = cut{old.j, old.t, old.sp, x.exact}
			}
		}
		seen[p] = x
	}
	for _, b := range c14thresholds {
		for _, r := range []int{b - 1, b, b + 1} {
			if r < 1 || r > n {
				continue
			}
			add(cut{r, 0, 0, r == b})         // r whole lines, with the last LF
			add(cut{r - 1, fpp, 0, r == b})   // r whole lines, without it
			add(cut{r, 1, 0, false})          // ... and one token of the next
			add(cut{r, 1, 1, false})          // ... and the separating space
			add(cut{r, fpp - 1, 0, false})    // ... all but the last token
		}
		for _, bb := range []int{b - 1, b, b + 1} { // byte positions snapped to the token boundaries either side
			if bb < clen+w || bb > len(data) {
				continue
			}
			j, off := (bb-clen)/w, (bb-clen)%w
			t := (off + 1) / (tw + 1)
			add(cut{j, t, 0, false})
			add(cut{j, t + 1, 0, false})
		}
	}
	add(cut{n, 0, 0, true})
	add(cut{n - 1, fpp, 0, true})
	add(cut{n - 1, 0, 0, true})
	add(cut{n - 1, fpp - 1, 0, false})
	add(cut{0, 0, 0, true})
	cuts := map[int]bool{}
	for p, x := range seen {
		cuts[p] = x.exact
	}
	c.Note(fmt.Sprintf("c14.large.file.pts.%d.%dfields", n, fpp))
	c.c14largeRun("pts", data, cuts, c14ptsClassR, func(entry string, k int, class string) {
		x := seen[k]
		c.Emit("c14.holds.large_cut_pts", fmt.Sprintf("%s %d %d %d %d %d %d %d %d %d %s", entry, n, fpp, clen, tw, len(data), x.j, x.t, x.sp, k, class), "true")
	})
}

// once per run: one large file per format (quick), several sizes (thorough)
func (c *Ctx) c14large() {
	r := func() int { return 3 + c.Rng.Intn(40) }
	fpp := []int{3, 4, 7}[c.Rng.Intn(3)]
	c.c14largeStl(2*65536 + r())
	c.c14largePts(2*65536+r(), fpp)
	c.c14largeSplat(2*65536 + r())
	c.c14largePly(2*65536+r(), -1, ply.BinaryLittleEndian)
	c.c14largePly(65536+r(), 65536+r(), ply.BinaryBigEndian)
	if c.Tier == "thorough" {
		c.c14largeStl(65536 + r())
		c.c14largeStl(3*65536 + r())
		c.c14largeStl(1<<20 + r())
		for _, f := range []int{3, 4, 7} {
			if f != fpp {
				c.c14largePts(100000+r(), f)
			}
		}
		c.c14largePts(3*65536+r(), fpp)
		c.c14largeSplat(65536 + r())
		c.c14largeSplat(1<<20 + r())
		c.c14largePly(1<<20+r(), -1, ply.BinaryBigEndian)
		c.c14largePly(100000+r(), 2*65536+r(), ply.BinaryLittleEndian)
	}
}
