// Stream c03: mesh operations do what they say and nothing else.
//
//	c03.op.<op> params meshes          full result (indices, materials, every attribute value, bit-exact) vs the Lean model
//	c03.holds.<op>_spec params in out  the contract predicate of the C03 theorems evaluated on the implementation's output
package main

import (
	"fmt"
	"io"
	"log"
	"math"
	"strconv"
	"strings"

	"github.com/EliCDavis/polyform/modeling"
	"github.com/EliCDavis/polyform/modeling/meshops"
	"github.com/EliCDavis/vector/vector3"
)

func init() { streams["c03"] = runC03 }

func isIdentity(m modeling.Mesh) bool {
	idx := m.Indices()
	if idx.Len() != m.AttributeLength() {
		return false
	}
	for i := 0; i < idx.Len(); i++ {
		if idx.At(i) != i {
			return false
		}
	}
	return true
}

// emitOp writes the correspondence line and the oracle line(s) of one applied operation
func (c *Ctx) emitOp03(r opRun, m modeling.Mesh) {
	if r.name == "laplacian" {
		// split: shape exact, smoothed attribute within tolerance; the other attributes exactly via frame_spec
		attr := strings.Fields(r.args)[0]
		c.Emit("c03.op.laplacian_shape", r.args, r.answer(shapeStr))
		c.Emit("c03.op.laplacian", r.args, r.answer(func(o modeling.Mesh) string {
			if !o.HasFloat3Attribute(attr) {
				return "A 0"
			}
			d := o.Float3Attribute(attr)
			parts := []string{"A", strconv.Itoa(d.Len())}
			for i := 0; i < d.Len(); i++ {
				v := d.At(i)
				parts = append(parts, fsN(v.X(), v.Y(), v.Z()))
			}
			return strings.Join(parts, " ")
		}))
	} else {
		c.Emit("c03.op."+r.name, r.args, r.answer(meshStr))
	}
	if r.status != "" {
		c.Note("op-" + r.status + ":" + r.name)
		return
	}
	c.Note("op-ok:" + r.name)
	if r.name == "split" {
		c.Emit("c03.holds.split_spec", r.args+" "+r.answer(meshStr), "true")
		return
	}
	if len(r.out) != 1 {
		return
	}
	in, out := meshStr(m), meshStr(r.out[0])
	f := strings.Fields(r.args)
	switch r.name {
	case "translate", "scale", "meshscale", "rotate", "applytrs", "center", "normalize", "smoothnormals", "flatnormals", "setattr":
		// the "stated map" clause: attribute k of the output is exactly the stated function of the old array
		c.Emit("c03.holds.changed_spec", r.name+" "+r.args+" "+out, "true")
	}
	switch r.name {
	case "translate", "scale", "meshscale", "rotate", "applytrs", "center", "normalize", "smoothnormals", "flatnormals", "laplacian":
		// algorithm-independent value post-conditions (Props/C03Values.lean) on the implementation's output
		c.Emit("c03.holds.post_spec", r.name+" "+r.args+" "+out, "true")
	}
	switch r.name {
	case "unweld", "removeunref", "flip", "topointcloud":
		c.Emit("c03.holds."+r.name+"_spec", in+" "+out, "true")
	case "append":
		c.Emit("c03.holds.append_spec", r.args+" "+out, "true")
	case "repeat":
		c.Emit("c03.holds.repeat_spec", r.args+" "+out, "true")
	case "setattr":
		c.Emit("c03.holds.frame_spec", f[0]+" "+f[1]+" "+in+" "+out, "true")
	case "scan":
		c.Emit("c03.holds.same_mesh", in+" "+out, "true")
		c.Emit("c03.holds.scan_visits", f[0]+" "+f[1]+" "+lastVisits+" "+in, "true")
	case "scanprims":
		c.Emit("c03.holds.same_mesh", in+" "+out, "true")
	case "modify":
		c.Emit("c03.holds.frame_spec", f[0]+" "+f[1]+" "+in+" "+out, "true")
	case "translate", "scale", "rotate", "center", "normalize", "laplacian":
		c.Emit("c03.holds.frame_spec", "3 "+f[0]+" "+in+" "+out, "true")
	case "smoothnormals", "flatnormals":
		c.Emit("c03.holds.frame_spec", "3 "+modeling.NormalAttribute+" "+in+" "+out, "true")
	case "meshscale", "applytrs":
		c.Emit("c03.holds.frame_spec", "3 "+modeling.PositionAttribute+" "+in+" "+out, "true")
	case "filter":
		c.Emit("c03.holds.filter_spec", r.args+" "+out, "true")
	case "removenull":
		c.Emit("c03.holds.removenull_spec", r.args+" "+out, "true")
	case "weld":
		c.Emit("c03.holds.weld_spec", r.args+" "+out, "true")
	case "crop":
		// the vertex-level contract (theorem crop_contract) holds whatever the incoming index buffer is
		c.Emit("c03.holds.crop_contract", r.args+" "+out, "true")
		if isIdentity(m) {
			c.Emit("c03.holds.crop_spec", r.args+" "+out, "true")
		} else {
			c.Note("crop:non-identity-input")
		}
	}
}

// corpusC03: the float-only branches that the value theorems over ℝ exclude, forced on every run
func (c *Ctx) corpusC03() {
	nan := math.NaN()
	pos := []vector3.Float64{vector3.New(0., 0., 0.), vector3.New(1., 0., 0.), vector3.New(0., 1., 0.), vector3.New(0., 0., 1.), vector3.New(2., 2., 2.)}
	// (1) SmoothNormals: a referenced triangle with a NaN vertex -> cross.X is NaN -> the triangle is skipped
	p1 := append([]vector3.Float64{}, pos...)
	p1[3] = vector3.New(0, nan, 1) // NaN must reach the X component of the cross product: only X is tested
	m1 := modeling.NewTriangleMesh([]int{0, 1, 2, 0, 1, 3}).SetFloat3Attribute(modeling.PositionAttribute, p1)
	c.emitOp03(c.applyOp("smoothnormals", m1), m1)
	// (2) FlatNormals: (a, a, b) is the LAST face of vertices 0 and 3 -> normalize(0) = NaN
	m2 := modeling.NewTriangleMesh([]int{0, 1, 2, 0, 0, 3}).SetFloat3Attribute(modeling.PositionAttribute, pos)
	c.emitOp03(c.applyOp("flatnormals", m2), m2)
	// (3) Laplacian: vertex 4 is referenced by no triangle -> sum / 0 = NaN, 2 iterations
	m3 := modeling.NewTriangleMesh([]int{0, 1, 2, 0, 2, 3}).SetFloat3Attribute(modeling.PositionAttribute, pos)
	r := runOp("laplacian", fmt.Sprintf("%s 2 %s %s", modeling.PositionAttribute, F(0.5), meshStr(m3)), false, func() []modeling.Mesh {
		return one(meshops.LaplacianSmooth(m3, modeling.PositionAttribute, 2, 0.5))
	})
	c.noteFloatOnly("laplacian", m3, modeling.PositionAttribute, 2)
	c.emitOp03(r, m3)
	// (4) Laplacian on the line topologies: closed loop (the closing edge last-first matters), open strip, segment list,
	// loops with 1 and 2 indices, and the EMPTY loop (clean tree: runtime panic in VertexNeighborTable, compared as "panic")
	lp := []vector3.Float64{vector3.New(0., 0., 0.), vector3.New(4., 0., 0.), vector3.New(4., 4., 0.), vector3.New(0., 4., 0.), vector3.New(8., 8., 8.)}
	for _, cs := range []struct {
		topo modeling.Topology
		idx  []int
	}{
		{modeling.LineLoopTopology, []int{0, 1, 2, 3}}, {modeling.LineLoopTopology, []int{2, 0, 3}}, {modeling.LineLoopTopology, []int{1, 3}},
		{modeling.LineLoopTopology, []int{2}}, {modeling.LineLoopTopology, []int{}},
		{modeling.LineStripTopology, []int{0, 1, 2, 3}}, {modeling.LineTopology, []int{0, 1, 2, 3}}, {modeling.LineTopology, []int{0, 1, 1, 2, 3, 0}},
	} {
		m := modeling.NewMesh(cs.topo, cs.idx).SetFloat3Attribute(modeling.PositionAttribute, lp)
		for _, it := range []int{1, 3} {
			it := it
			r := runOp("laplacian", fmt.Sprintf("%s %d %s %s", modeling.PositionAttribute, it, F(0.5), meshStr(m)), false, func() []modeling.Mesh {
				return one(meshops.LaplacianSmooth(m, modeling.PositionAttribute, it, 0.5))
			})
			c.Note("corpus:laplacian:" + strings.ReplaceAll(cs.topo.String(), " ", "") + ":" + r.status)
			c.emitOp03(r, m)
		}
	}
	// (5) the plain FilterFloatN functions and their Transformers on every topology: only point clouds are accepted
	c.filterTopologySweep(func(r opRun, m modeling.Mesh) { c.emitOp03(r, m) })
}

// branchingHistories03: every result keeps its snapshot from creation time; after later derivations from the same base the
// earlier results are read again and must still be the snapshot (same_mesh), still satisfy their contract (append_spec
// against the inputs' snapshots), and operations on them must agree with the model run on the SNAPSHOT.
func (c *Ctx) branchingHistories03(n int) {
	for i := 0; i < n; i++ {
		c.guardSeq("c03.holds.harness_ok", func() {
			b := c.genBranchCase()
			c.Emit("c03.op.append", b.baseS+" "+b.pS, b.xSnap)
			c.Emit("c03.op.append", b.baseS+" "+b.qS, b.ySnap)
			late := func(tag, snap string, m modeling.Mesh) {
				c.Note("branch:reread:" + tag)
				c.Emit("c03.holds.same_mesh", snap+" "+guardMesh(func() string { return meshStr(m) }), "true")
			}
			late("x-after-y", b.xSnap, b.x)
			late("base-after-y", b.baseS, b.base)
			c.Emit("c03.holds.append_spec", b.baseS+" "+b.pS+" "+guardMesh(func() string { return meshStr(b.x) }), "true")
			c.Emit("c03.holds.append_spec", b.baseS+" "+b.qS+" "+guardMesh(func() string { return meshStr(b.y) }), "true")
			z := b.base.Append(b.x)
			c.Emit("c03.op.append", b.baseS+" "+b.xSnap, guardMesh(func() string { return meshStr(z) }))
			late("x-after-z", b.xSnap, b.x)
			late("y-after-z", b.ySnap, b.y)
			// operations on the earlier result: the request carries the SNAPSHOT, the implementation runs on the live value
			for _, name := range []string{"split", "removeunref", "unweld", "flip"} {
				r := c.applyOp(name, b.x)
				r.args = strings.Replace(r.args, meshStr(b.x), b.xSnap, 1)
				c.Emit("c03.op."+r.name, r.args, r.answer(meshStr))
			}
		})
	}
}

func runC03(c *Ctx) {
	log.SetOutput(io.Discard)
	c.corpusC03()
	c.emptyAppends(func(r opRun, recv modeling.Mesh) { c.emitOp03(r, recv) })
	c.branchingHistories03(10 + c.N/8)
	all := append(append([]string{}, layoutOps...), transformOps...)
	for s := 0; s < c.N; s++ {
		c.guardSeq("c03.holds.harness_ok", func() { c.seq03(all) })
	}
	// round 2: the operations of Model/MeshMore.lean and crop on non-identity clouds (c03_more.go)
	c.moreOps(40+c.N/2, "c03.holds.harness_ok", c.emitMore03)
	// every Transformer struct entry point next to its free function (c03_transformers.go)
	c.transformerPairs(20 + c.N/8)
}

func (c *Ctx) seq03(all []string) {
	{
		m := c.startMesh()
		c.noteMesh("start", m)
		steps := 1 + c.Rng.Intn(4)
		for k := 0; k < steps; k++ {
			name := c.opsFor(m, all)
			r := c.applyOp(name, m)
			c.emitOp03(r, m)
			if r.status == "" && len(r.out) > 0 {
				m = r.out[c.Rng.Intn(len(r.out))]
			}
		}
		// the compositions the property names: flip twice, weld after unweld
		if m.Topology() == modeling.TriangleTopology {
			switch c.Rng.Intn(3) {
			case 0:
				r1 := c.applyOp("flip", m)
				c.emitOp03(r1, m)
				if r1.status == "" {
					r2 := c.applyOp("flip", r1.out[0])
					c.emitOp03(r2, r1.out[0])
					if r2.status == "" {
						c.Note("flipflip")
						c.Emit("c03.holds.same_mesh", meshStr(m)+" "+meshStr(r2.out[0]), "true")
					}
				}
			case 1:
				if m.HasFloat3Attribute(modeling.PositionAttribute) {
					r1 := c.applyOp("unweld", m)
					c.emitOp03(r1, m)
					if r1.status == "" {
						dec := c.Rng.Intn(3)
						args := fmt.Sprintf("%s %d ", modeling.PositionAttribute, dec)
						u := r1.out[0]
						w1 := runOp("weld", args+meshStr(u), false, func() []modeling.Mesh { return one(u.WeldByFloat3Attribute(modeling.PositionAttribute, dec)) })
						c.emitOp03(w1, u)
						w2 := runOp("weld", args+meshStr(m), false, func() []modeling.Mesh { return one(m.WeldByFloat3Attribute(modeling.PositionAttribute, dec)) })
						c.emitOp03(w2, m)
						c.Note("weld-after-unweld")
						if w1.status == "" && w2.status == "" {
							c.Emit("c03.holds.weld_unweld", fmt.Sprintf("%s %d %s %s", modeling.PositionAttribute, dec, meshStr(w2.out[0]), meshStr(w1.out[0])), "true")
						}
					}
				}
			}
		}
	}
}
