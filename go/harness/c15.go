package main

// C15 — gaussian splat codecs (.splat, SPZ, PLY splat export).
//
// Ops
//   c15.const.shc0                                     SH_C0 of the source vs the model's constant
//   c15.splat.write  pt att n <18 f64 per splat>       byte-exact splat.Write vs model (exp supplied as a table)
//   c15.splat.read   <hex>                             splat.Read on ARBITRARY bytes: flag, count, pos/fdc/rot (exact)
//   c15.splat.readlog <hex>                            ... scale/opacity (through math.Log: compared within ulps)
//   c15.holds.step_bounds ...                          oracle: implementation write -> read obeys the theorem statements

import (
	"bufio"
	"bytes"
	"compress/gzip"
	"encoding/binary"
	"encoding/hex"
	"errors"
	"fmt"
	"hash/fnv"
	"io"
	"math"
	"sort"
	"strings"
	"testing/iotest"

	"github.com/EliCDavis/polyform/formats/ply"
	"github.com/EliCDavis/polyform/formats/splat"
	"github.com/EliCDavis/polyform/formats/spz"
	"github.com/EliCDavis/polyform/modeling"
	"github.com/EliCDavis/vector/vector3"
	"github.com/EliCDavis/vector/vector4"
)

func init() { streams["c15"] = runC15 }

// FC prints a float64 with NaN canonicalised (payload/sign of NaN is not part of any contract here).
func c15FC(f float64) string {
	if f != f {
		return "7ff8000000000001"
	}
	return F(f)
}

func c15FCs(fs ...float64) string {
	parts := make([]string, len(fs))
	for i, f := range fs {
		parts[i] = c15FC(f)
	}
	return strings.Join(parts, " ")
}

func c15hex(b []byte) string {
	if len(b) == 0 {
		return "-"
	}
	return hex.EncodeToString(b)
}

type c15splatRec struct {
	pos, scale, fdc vector3.Float64
	op              float64
	rot             vector4.Float64
}

func (s c15splatRec) flat() []float64 {
	return []float64{s.pos.X(), s.pos.Y(), s.pos.Z(), s.scale.X(), s.scale.Y(), s.scale.Z(),
		s.fdc.X(), s.fdc.Y(), s.fdc.Z(), s.op, s.rot.X(), s.rot.Y(), s.rot.Z(), s.rot.W()}
}

// the 14 attributes followed by the implementation's own math.Exp values (exp is opaque in the model)
func (s c15splatRec) flatExp() []float64 {
	return append(s.flat(), math.Exp(s.scale.X()), math.Exp(s.scale.Y()), math.Exp(s.scale.Z()), math.Exp(-s.op))
}

func (c *Ctx) c15pos() float64 {
	switch c.Rng.Intn(5) {
	case 0:
		return float64(c.Rng.Intn(2001)-1000) / 8 // float32-representable
	case 1:
		return float64(float32(c.Rng.NormFloat64() * 100)) // float32-representable
	case 2:
		return 0
	default:
		return c.Rng.NormFloat64() * 50 // needs rounding
	}
}

func (c *Ctx) c15scale() float64 {
	switch c.Rng.Intn(6) {
	case 0:
		return 0
	case 1:
		return float64(c.Rng.Intn(17) - 12)
	default:
		return c.Rng.Float64()*9 - 7
	}
}

func (c *Ctx) c15fdc() float64 {
	switch c.Rng.Intn(8) {
	case 0:
		c.Note("c15.fdc.clamp-hi")
		return 0.5/splat.SH_C0 + c.Rng.Float64()*3
	case 1:
		c.Note("c15.fdc.clamp-lo")
		return -0.5/splat.SH_C0 - c.Rng.Float64()*3
	case 2:
		return 0.5 / splat.SH_C0
	case 3:
		return -0.5 / splat.SH_C0
	case 4:
		return 0
	default:
		return (c.Rng.Float64() - 0.5) / splat.SH_C0
	}
}

func (c *Ctx) c15opacity() float64 {
	switch c.Rng.Intn(6) {
	case 0:
		return 0
	case 1:
		return 40 // sigmoid rounds to 1
	case 2:
		return -40
	default:
		return c.Rng.NormFloat64() * 4
	}
}

func (c *Ctx) c15rot() float64 {
	switch c.Rng.Intn(10) {
	case 0:
		c.Note("c15.rot.one")
		return 1
	case 1:
		return -1
	case 2:
		return 0
	case 3:
		c.Note("c15.rot.out-of-range")
		return c.Rng.Float64()*4 - 2
	case 4:
		return float64(c.Rng.Intn(257)-128) / 128
	default:
		return c.Rng.Float64()*2 - 1
	}
}

func (c *Ctx) c15splat() c15splatRec {
	return c15splatRec{
		pos:   vector3.New(c.c15pos(), c.c15pos(), c.c15pos()),
		scale: vector3.New(c.c15scale(), c.c15scale(), c.c15scale()),
		fdc:   vector3.New(c.c15fdc(), c.c15fdc(), c.c15fdc()),
		op:    c.c15opacity(),
		rot:   vector4.New(c.c15rot(), c.c15rot(), c.c15rot(), c.c15rot()),
	}
}

func c15cloud(recs []c15splatRec, topo modeling.Topology, drop string) modeling.Mesh {
	n := len(recs)
	pos := make([]vector3.Float64, n)
	scale := make([]vector3.Float64, n)
	fdc := make([]vector3.Float64, n)
	op := make([]float64, n)
	rot := make([]vector4.Float64, n)
	for i, r := range recs {
		pos[i], scale[i], fdc[i], op[i], rot[i] = r.pos, r.scale, r.fdc, r.op, r.rot
	}
	v3 := map[string][]vector3.Float64{modeling.PositionAttribute: pos, modeling.ScaleAttribute: scale, modeling.FDCAttribute: fdc}
	v1 := map[string][]float64{modeling.OpacityAttribute: op}
	v4 := map[string][]vector4.Float64{modeling.RotationAttribute: rot}
	delete(v3, drop)
	delete(v1, drop)
	delete(v4, drop)
	if topo == modeling.PointTopology {
		return modeling.NewPointCloud(v4, v3, nil, v1, nil)
	}
	idx := make([]int, 0)
	for i := 0; i+2 < n; i += 3 {
		idx = append(idx, i, i+1, i+2)
	}
	m := modeling.NewMesh(topo, idx)
	for k, v := range v3 {
		m = m.SetFloat3Attribute(k, v)
	}
	for k, v := range v1 {
		m = m.SetFloat1Attribute(k, v)
	}
	for k, v := range v4 {
		m = m.SetFloat4Attribute(k, v)
	}
	return m
}

func c15readBack(m modeling.Mesh) []c15splatRec {
	n := m.AttributeLength()
	out := make([]c15splatRec, n)
	if n == 0 {
		return out
	}
	pos := m.Float3Attribute(modeling.PositionAttribute)
	scale := m.Float3Attribute(modeling.ScaleAttribute)
	fdc := m.Float3Attribute(modeling.FDCAttribute)
	op := m.Float1Attribute(modeling.OpacityAttribute)
	rot := m.Float4Attribute(modeling.RotationAttribute)
	for i := 0; i < n; i++ {
		out[i] = c15splatRec{pos: pos.At(i), scale: scale.At(i), fdc: fdc.At(i), op: op.At(i), rot: rot.At(i)}
	}
	return out
}

func c15flatAll(recs []c15splatRec, withExp bool) string {
	parts := make([]string, 0, len(recs))
	for _, r := range recs {
		if withExp {
			parts = append(parts, Fs(r.flatExp()...))
		} else {
			parts = append(parts, c15FCs(r.flat()...))
		}
	}
	return strings.Join(parts, " ")
}

func c15emitRead(c *Ctx, data []byte) {
	h := c15hex(data)
	exact := Guard(func() string {
		m, err := splat.Read(bytes.NewReader(data))
		flag := 0
		if err != nil {
			if err != io.ErrUnexpectedEOF {
				return "err"
			}
			flag = 1
		}
		back := c15readBack(m)
		fs := make([]float64, 0, 10*len(back))
		for _, s := range back {
			fs = append(fs, s.pos.X(), s.pos.Y(), s.pos.Z(), s.fdc.X(), s.fdc.Y(), s.fdc.Z(), s.rot.X(), s.rot.Y(), s.rot.Z(), s.rot.W())
		}
		return strings.TrimRight(fmt.Sprintf("%d %d %s", flag, len(back), c15FCs(fs...)), " ")
	})
	c.Emit("c15.splat.read", h, exact)
	logs := Guard(func() string {
		m, _ := splat.Read(bytes.NewReader(data))
		back := c15readBack(m)
		fs := make([]float64, 0, 4*len(back))
		for _, s := range back {
			fs = append(fs, s.scale.X(), s.scale.Y(), s.scale.Z(), s.op)
		}
		return strings.TrimRight(fmt.Sprintf("%d %s", len(back), c15FCs(fs...)), " ")
	})
	c.Emit("c15.splat.readlog", h, logs)
}

func runC15(c *Ctx) {
	c.runC15large()
	c.runC15spz()
	c.runC15spzPack() // after the older streams: their PRNG sequence is unchanged
	c.Emit("c15.const.shc0", "", F(splat.SH_C0))

	sizes := []int{0, 1, 1, 2, 3}
	for k := 0; k < c.N; k++ {
		n := 0
		if k < len(sizes) {
			n = sizes[k]
		} else {
			n = 1 + c.Rng.Intn(24)
			if c.Rng.Intn(10) == 0 {
				n = 60 + c.Rng.Intn(200)
			}
		}
		recs := make([]c15splatRec, n)
		for i := range recs {
			recs[i] = c.c15splat()
		}
		c.Note(fmt.Sprintf("c15.cloud.size.%s", c15sizeClass(n)))

		// --- write: byte-exact against the model -----------------------------------------
		cloud := c15cloud(recs, modeling.PointTopology, "")
		buf := &bytes.Buffer{}
		werr := splat.Write(buf, cloud)
		ans := "err"
		if werr == nil {
			ans = "ok " + c15hex(buf.Bytes())
		}
		c.Emit("c15.splat.write", fmt.Sprintf("1 1 %d %s", n, c15flatAll(recs, true)), ans)

		// --- oracle: implementation write -> implementation read ---------------------------
		if werr == nil {
			m, rerr := splat.Read(bytes.NewReader(buf.Bytes()))
			flag := 0
			if rerr != nil {
				flag = 1
			}
			back := c15readBack(m)
			c.Emit("c15.holds.step_bounds", strings.TrimRight(fmt.Sprintf("%d %s %d %d %s", n, c15flatAll(recs, true), flag, len(back), c15flatAll(back, false)), " "), "true")
		}

		// --- PLY splat export: SplatPly.Write + ply.ReadMesh at float32 precision ------------------------
		if n > 0 {
			ans := Guard(func() string {
				pb := &bytes.Buffer{}
				if err := (ply.SplatPly{Mesh: cloud}).Write(pb); err != nil {
					return "write-err"
				}
				back, err := ply.ReadMesh(bytes.NewReader(pb.Bytes()))
				if err != nil {
					return "read-err"
				}
				for _, a := range []string{modeling.PositionAttribute, modeling.ScaleAttribute, modeling.FDCAttribute} {
					if !back.HasFloat3Attribute(a) {
						return "missing-" + a
					}
				}
				if !back.HasFloat1Attribute(modeling.OpacityAttribute) || !back.HasFloat4Attribute(modeling.RotationAttribute) {
					return "missing-attribute"
				}
				rb := c15readBack(*back)
				return fmt.Sprintf("%d %s", len(rb), c15flatAll(rb, false))
			})
			c.Emit("c15.holds.splatply", strings.TrimSpace(fmt.Sprintf("%d %s %s", n, c15flatAll(recs, false), ans)), "true")
		}

		// --- PLY splat export of clouds carrying higher-order harmonics f_rest_0..cnt-1 (SH degree 1, 2, 3: 9, 24, 45
		// coefficients; also odd counts): every coefficient must survive SplatPly.Write -> ply.ReadMesh ------------------
		if n > 0 && k%2 == 0 {
			cnt := []int{9, 24, 45, 3, 10, 44}[(k/2)%6]
			c.Note(fmt.Sprintf("c15.splatply.f_rest.%d", cnt))
			withRest := cloud
			orig := make([]float64, 0, cnt*n)
			for kk := 0; kk < cnt; kk++ {
				vals := make([]float64, n)
				for i := range vals {
					// tagged per coefficient and splat; some float32-representable, some not
					vals[i] = float64(kk+1) + float64(i+1)/1024
					if (kk+i)%3 == 0 {
						vals[i] += c.Rng.Float64() / 4096
					}
				}
				orig = append(orig, vals...)
				withRest = withRest.SetFloat1Attribute(fmt.Sprintf("f_rest_%d", kk), vals)
			}
			ans := Guard(func() string {
				pb := &bytes.Buffer{}
				if err := (ply.SplatPly{Mesh: withRest}).Write(pb); err != nil {
					return "0 0"
				}
				back, err := ply.ReadMesh(bytes.NewReader(pb.Bytes()))
				if err != nil {
					return "0 0"
				}
				parts := []string{}
				p := 0
				for kk := 0; kk < 64; kk++ {
					name := fmt.Sprintf("f_rest_%d", kk)
					if !back.HasFloat1Attribute(name) {
						continue
					}
					a := back.Float1Attribute(name)
					vs := make([]float64, a.Len())
					for i := range vs {
						vs[i] = a.At(i)
					}
					parts = append(parts, fmt.Sprintf("%d %s", kk, c15FCs(vs...)))
					p++
				}
				return strings.TrimSpace(fmt.Sprintf("%d %d %s", back.AttributeLength(), p, strings.Join(parts, " ")))
			})
			c.Emit("c15.holds.splatply_rest", fmt.Sprintf("%d %d %s %s", n, cnt, Fs(orig...), ans), "true")
			// the five base attributes must survive alongside the harmonics as well
			ans2 := Guard(func() string {
				pb := &bytes.Buffer{}
				if err := (ply.SplatPly{Mesh: withRest}).Write(pb); err != nil {
					return "write-err"
				}
				back, err := ply.ReadMesh(bytes.NewReader(pb.Bytes()))
				if err != nil {
					return "read-err"
				}
				if !back.HasFloat3Attribute(modeling.PositionAttribute) || !back.HasFloat3Attribute(modeling.ScaleAttribute) ||
					!back.HasFloat3Attribute(modeling.FDCAttribute) || !back.HasFloat1Attribute(modeling.OpacityAttribute) ||
					!back.HasFloat4Attribute(modeling.RotationAttribute) {
					return "missing-attribute"
				}
				rb := c15readBack(*back)
				return fmt.Sprintf("%d %s", len(rb), c15flatAll(rb, false))
			})
			c.Emit("c15.holds.splatply", strings.TrimSpace(fmt.Sprintf("%d %s %s", n, c15flatAll(recs, false), ans2)), "true")
		}

		// --- histories with failing destinations: after a Write whose io.Writer returned an error (after k bytes), the next
		// ordinary Write must be byte-identical to what it was before the failure (= a fresh process's, = the model's) -----
		if n > 0 && k%3 == 0 {
			before := &bytes.Buffer{}
			if splat.Write(before, cloud) == nil {
				other := make([]c15splatRec, 1+c.Rng.Intn(4))
				for i := range other {
					other[i] = c.c15splat()
				}
				total := 32 * len(other)
				limits := []int{0, 1, 31, 32, 33, 32*len(other) - 1, c.Rng.Intn(total + 1), total}
				lim := limits[(k/3)%len(limits)]
				if lim < 0 {
					lim = 0
				}
				fw := &c15failWriter{limit: lim}
				ferr := splat.Write(fw, c15cloud(other, modeling.PointTopology, ""))
				after := &bytes.Buffer{}
				aerr := splat.Write(after, cloud)
				c.Note(fmt.Sprintf("c15.write.after-failure.limit-%s", map[bool]string{true: "short", false: "enough"}[lim < total]))
				ans := "err"
				if aerr == nil {
					ans = "ok " + c15hex(after.Bytes())
				}
				c.Emit("c15.splat.write", fmt.Sprintf("1 1 %d %s", n, c15flatAll(recs, true)), ans)
				c.Emit("c15.holds.write_after_failure", fmt.Sprintf("%d %d %s %s %s %s", lim, total, B(ferr != nil), B(aerr == nil),
					c15hex(before.Bytes()), c15hex(after.Bytes())), "true")
			}
		}

		// --- guards of Write ------------------------------------------------------------------
		if k%7 == 3 && n >= 3 {
			tri := c15cloud(recs, modeling.TriangleTopology, "")
			b2 := &bytes.Buffer{}
			a := "err"
			if splat.Write(b2, tri) == nil {
				a = "ok " + c15hex(b2.Bytes())
			}
			c.Note("c15.write.non-point-topology")
			c.Emit("c15.splat.write", fmt.Sprintf("0 1 %d %s", n, c15flatAll(recs, true)), a)
		}
		if k%7 == 5 && n >= 1 {
			drops := []string{modeling.ScaleAttribute, modeling.FDCAttribute, modeling.OpacityAttribute, modeling.RotationAttribute}
			miss := c15cloud(recs, modeling.PointTopology, drops[c.Rng.Intn(len(drops))])
			b2 := &bytes.Buffer{}
			a := "err"
			if splat.Write(b2, miss) == nil {
				a = "ok " + c15hex(b2.Bytes())
			}
			c.Note("c15.write.missing-attribute")
			c.Emit("c15.splat.write", fmt.Sprintf("1 0 %d %s", n, c15flatAll(recs, true)), a)
		}

		// --- read on arbitrary bytes ------------------------------------------------------------
		m := c.Rng.Intn(6)
		if k < 3 {
			m = k
		}
		data := make([]byte, 32*m)
		c.Rng.Read(data)
		// special bytes in the alpha and scale slots now and then
		for i := 0; i < m; i++ {
			switch c.Rng.Intn(6) {
			case 0:
				data[32*i+27] = 0
			case 1:
				data[32*i+27] = 255
			case 2: // a positive normal float32 scale
				bits := math.Float32bits(float32(math.Exp(c.c15scale())))
				data[32*i+12], data[32*i+13], data[32*i+14], data[32*i+15] = byte(bits), byte(bits>>8), byte(bits>>16), byte(bits>>24)
			}
		}
		if c.Rng.Intn(3) == 0 {
			tail := make([]byte, 1+c.Rng.Intn(31))
			c.Rng.Read(tail)
			data = append(data, tail...)
			c.Note("c15.read.partial-tail")
		}
		c15emitRead(c, data)
		c.c15readersAgree("c15.holds.readers_agree", "splat.small", data, c15splatDecode)
	}
}

func c15sizeClass(n int) string {
	switch {
	case n == 0:
		return "0"
	case n == 1:
		return "1"
	case n < 10:
		return "2-9"
	case n < 60:
		return "10-59"
	default:
		return "60+"
	}
}

// ---- SPZ ---------------------------------------------------------------------------------------------
//   c15.spz.read <hex decompressed stream>     spz.Read(gzip(stream)) vs the model's decoder, bit for bit
//   c15.holds.spz_dequant ver n deg fb <rec hex>* ok n dim <floats>
//        oracle: splat i of the implementation's cloud is the dequantisation of record i (theorem statement)

type c15packed struct {
	pos, color, scale, rot, sh []byte
	alpha                      byte
}

func (p c15packed) bytes() []byte {
	b := append([]byte{}, p.pos...)
	b = append(b, p.alpha)
	b = append(b, p.color...)
	b = append(b, p.scale...)
	b = append(b, p.rot...)
	return append(b, p.sh...)
}

var c15spzDims = []int{0, 3, 8, 15}

func (c *Ctx) c15rnd(n int) []byte {
	b := make([]byte, n)
	c.Rng.Read(b)
	return b
}

func (c *Ctx) c15spzRecord(version uint32, deg uint8) c15packed {
	pb := 9
	if version == 1 {
		pb = 6
	}
	p := c15packed{pos: c.c15rnd(pb), alpha: byte(c.Rng.Intn(256)), color: c.c15rnd(3), scale: c.c15rnd(3),
		rot: c.c15rnd(3), sh: c.c15rnd(3 * c15spzDims[deg])}
	// boundary patterns of the position encodings
	for k := 0; k < 3; k++ {
		if version == 1 {
			switch c.Rng.Intn(8) {
			case 0: // subnormal half
				p.pos[2*k+1] &= 0x83
			case 1: // inf / nan
				p.pos[2*k+1] |= 0x7c
				if c.Rng.Intn(2) == 0 {
					p.pos[2*k], p.pos[2*k+1] = 0, p.pos[2*k+1]&0xfc
				}
			case 2:
				p.pos[2*k], p.pos[2*k+1] = 0, byte(c.Rng.Intn(2))<<7
			}
		} else {
			switch c.Rng.Intn(8) {
			case 0:
				copy(p.pos[3*k:], []byte{0xff, 0xff, 0x7f})
			case 1:
				copy(p.pos[3*k:], []byte{0x00, 0x00, 0x80})
			case 2:
				copy(p.pos[3*k:], []byte{0xff, 0xff, 0xff})
			case 3:
				copy(p.pos[3*k:], []byte{0, 0, 0})
			}
		}
	}
	return p
}

// reference encoder written from the published layout (the same one as Spz.refEncode in the model)
func c15spzEncode(magic, version, n uint32, deg, fb, flags, reserved uint8, recs []c15packed) []byte {
	b := make([]byte, 0, 16+len(recs)*64)
	b = binary.LittleEndian.AppendUint32(b, magic)
	b = binary.LittleEndian.AppendUint32(b, version)
	b = binary.LittleEndian.AppendUint32(b, n)
	b = append(b, deg, fb, flags, reserved)
	for _, r := range recs {
		b = append(b, r.pos...)
	}
	for _, r := range recs {
		b = append(b, r.alpha)
	}
	for _, r := range recs {
		b = append(b, r.color...)
	}
	for _, r := range recs {
		b = append(b, r.scale...)
	}
	for _, r := range recs {
		b = append(b, r.rot...)
	}
	for _, r := range recs {
		b = append(b, r.sh...)
	}
	return b
}

func c15gzip(data []byte) []byte {
	var b bytes.Buffer
	zw := gzip.NewWriter(&b)
	zw.Write(data)
	zw.Close()
	return b.Bytes()
}

func c15spzRead(stream []byte) string {
	return Guard(func() string {
		cl, err := spz.Read(bytes.NewReader(c15gzip(stream)))
		if err != nil {
			return "err"
		}
		m := cl.Mesh
		n := int(cl.Header.NumPoints)
		dim, _ := cl.Header.ShDimensions()
		if n == 0 && m.AttributeLength() == 0 {
			// an empty cloud carries no attribute arrays at all: every array trivially has the declared length 0
			return fmt.Sprintf("ok 0 %d", dim)
		}
		fs := make([]float64, 0, n*(14+3*dim))
		v3 := func(name string) {
			a := m.Float3Attribute(name)
			for i := 0; i < a.Len(); i++ {
				fs = append(fs, a.At(i).X(), a.At(i).Y(), a.At(i).Z())
			}
		}
		v3(modeling.PositionAttribute)
		op := m.Float1Attribute(modeling.OpacityAttribute)
		for i := 0; i < op.Len(); i++ {
			fs = append(fs, op.At(i))
		}
		v3(modeling.FDCAttribute)
		v3(modeling.ScaleAttribute)
		rot := m.Float4Attribute(modeling.RotationAttribute)
		for i := 0; i < rot.Len(); i++ {
			fs = append(fs, rot.At(i).X(), rot.At(i).Y(), rot.At(i).Z(), rot.At(i).W())
		}
		nsh := 0
		for m.HasFloat3Attribute(fmt.Sprintf("SH_%d", nsh)) {
			v3(fmt.Sprintf("SH_%d", nsh))
			nsh++
		}
		return strings.TrimSpace(fmt.Sprintf("ok %d %d %s", m.AttributeLength(), nsh, c15FCs(fs...)))
	})
}

// Header.Validate alone and the error KIND of header-only streams, on the boundary of every guard
func (c *Ctx) runC15spzValidate() {
	magic := uint32(0x5053474e)
	type hv struct {
		magic, ver, np uint32
		deg            uint8
	}
	cases := []hv{}
	for _, np := range []uint32{0, 1, 9999999, 10000000, 10000001, 20000000, 4294967295} {
		for _, ver := range []uint32{0, 1, 2, 3} {
			for _, deg := range []uint8{0, 3, 4, 255} {
				cases = append(cases, hv{magic, ver, np, deg})
			}
		}
	}
	cases = append(cases, hv{magic - 1, 2, 1, 0}, hv{magic + 1, 2, 1, 0}, hv{0, 2, 1, 0})
	for _, h := range cases {
		ans := "ok"
		if (spz.Header{Magic: h.magic, Version: h.ver, NumPoints: h.np, ShDegree: h.deg}).Validate() != nil {
			ans = "err"
		}
		c.Emit("c15.spz.validate", fmt.Sprintf("%d %d %d %d", h.magic, h.ver, h.np, h.deg), ans)
		c.Emit("c15.holds.spz_validate", fmt.Sprintf("%d %d %d %d %s", h.magic, h.ver, h.np, h.deg, ans), "true")
	}
	// header-only streams through spz.Read: a header within the limit fails with a SHORT READ, one beyond it is INVALID
	for _, np := range []uint32{1, 9999999, 10000000, 10000001} {
		for _, ver := range []uint32{1, 2} {
			stream := c15spzEncode(magic, ver, np, 1, 12, 0, 0, nil)
			ans := Guard(func() string {
				_, err := spz.Read(bytes.NewReader(c15gzip(stream)))
				switch {
				case err == nil:
					return "ok"
				case errors.Is(err, io.EOF) || errors.Is(err, io.ErrUnexpectedEOF):
					return "short"
				default:
					return "invalid"
				}
			})
			c.Note(fmt.Sprintf("c15.spz.header-only.%d", np))
			c.Emit("c15.spz.errkind", c15hex(stream), ans)
			c.Emit("c15.holds.spz_errkind", c15hex(stream)+" "+ans, "true")
		}
	}
}

func (c *Ctx) runC15spz() {
	c.runC15spzValidate()
	c.runC15halfAll()
	fbs := []uint8{0, 1, 3, 8, 12, 16, 20, 23, 24, 31, 40, 62, 63, 64, 200}
	for k := 0; k < c.N; k++ {
		version := uint32(1 + k%2)
		deg := uint8((k / 2) % 4)
		n := []int{0, 1, 1, 2, 3, 5, 9, 17, 40}[c.Rng.Intn(9)]
		if k < 8 {
			n = []int{0, 1}[k%2]
		}
		fb := fbs[c.Rng.Intn(len(fbs))]
		if c.Rng.Intn(3) > 0 {
			fb = uint8(c.Rng.Intn(25))
		}
		recs := make([]c15packed, n)
		for i := range recs {
			recs[i] = c.c15spzRecord(version, deg)
		}
		flags := uint8(c.Rng.Intn(2))
		stream := c15spzEncode(0x5053474e, version, uint32(n), deg, fb, flags, 0, recs)
		c.Note(fmt.Sprintf("c15.spz.v%d.sh%d", version, deg))
		if fb >= 63 {
			c.Note("c15.spz.fractionalBits>=63")
		}
		ans := c15spzRead(stream)
		c.Emit("c15.spz.read", c15hex(stream), ans)
		hexes := make([]string, n)
		for i, r := range recs {
			hexes[i] = hex.EncodeToString(r.bytes())
		}
		c.Emit("c15.holds.spz_dequant", strings.TrimSpace(fmt.Sprintf("%d %d %d %d %s %s", version, n, deg, fb, strings.Join(hexes, " "), ans)), "true")
		if k%4 == 0 {
			c.c15readersAgree("c15.holds.readers_agree", "spz.small", c15gzip(stream), c15spzDecode)
		}

		// rejected / odd streams
		switch k % 6 {
		case 0: // truncated inside an array
			if len(stream) > 16 {
				cut := stream[:16+c.Rng.Intn(len(stream)-16)]
				c.Note("c15.spz.truncated")
				c.Emit("c15.spz.read", c15hex(cut), c15spzRead(cut))
			}
		case 1: // bad magic / version / degree
			bad := append([]byte{}, stream...)
			switch c.Rng.Intn(4) {
			case 0:
				bad[0] ^= 1
			case 1:
				bad[4] = 0
			case 2:
				bad[4] = 3
			case 3:
				bad[12] = 4
			}
			c.Note("c15.spz.invalid-header")
			c.Emit("c15.spz.read", c15hex(bad), c15spzRead(bad))
		case 2: // trailing bytes after the last array are ignored
			ext := append(append([]byte{}, stream...), c.c15rnd(1+c.Rng.Intn(5))...)
			c.Note("c15.spz.trailing")
			c.Emit("c15.spz.read", c15hex(ext), c15spzRead(ext))
		case 3: // too many points: rejected by the header alone
			big := c15spzEncode(0x5053474e, version, 10000001, deg, fb, 0, 0, nil)
			c.Note("c15.spz.too-many-points")
			c.Emit("c15.spz.read", c15hex(big), c15spzRead(big))
		case 4: // reserved byte non-zero: not checked by Validate
			rs := append([]byte{}, stream...)
			rs[15] = 7
			c.Note("c15.spz.reserved-nonzero")
			c.Emit("c15.spz.read", c15hex(rs), c15spzRead(rs))
		}
	}
}

// ---- reader family: a decoder must compute the same result whatever chunking the io.Reader delivers ---------------

type c15chunkReader struct {
	data  []byte
	sizes []int
	i     int
}

// returns exactly sizes[i] bytes per call (less only at the end of the data / for a smaller p)
func (r *c15chunkReader) Read(p []byte) (int, error) {
	if len(r.data) == 0 {
		return 0, io.EOF
	}
	n := r.sizes[r.i%len(r.sizes)]
	r.i++
	if n > len(p) {
		n = len(p)
	}
	if n > len(r.data) {
		n = len(r.data)
	}
	copy(p, r.data[:n])
	r.data = r.data[n:]
	return n, nil
}

var c15irregular = []int{1, 7, 31, 32, 33, 50, 100, 333, 4096, 4100, 16384, 16385}

type c15namedReader struct {
	name string
	mk   func([]byte) io.Reader
}

func c15pipe(data []byte, sizes []int) io.Reader {
	pr, pw := io.Pipe()
	go func() {
		i := 0
		for len(data) > 0 {
			n := sizes[i%len(sizes)]
			i++
			if n > len(data) {
				n = len(data)
			}
			if _, err := pw.Write(data[:n]); err != nil {
				return // reader gone
			}
			data = data[n:]
		}
		pw.Close()
	}()
	return pr
}

func c15readerFamily(seedShift int) []c15namedReader {
	rot := func(k int) []int {
		k = (k + seedShift) % len(c15irregular)
		return append(append([]int{}, c15irregular[k:]...), c15irregular[:k]...)
	}
	fam := []c15namedReader{
		{"bytes", func(b []byte) io.Reader { return bytes.NewReader(b) }},
		{"buffer", func(b []byte) io.Reader { return bytes.NewBuffer(append([]byte{}, b...)) }},
		{"bufio16", func(b []byte) io.Reader { return bufio.NewReaderSize(bytes.NewReader(b), 16) }},
		{"bufio37", func(b []byte) io.Reader { return bufio.NewReaderSize(bytes.NewReader(b), 37) }},
		{"bufio4096", func(b []byte) io.Reader { return bufio.NewReaderSize(bytes.NewReader(b), 4096) }},
		{"onebyte", func(b []byte) io.Reader { return iotest.OneByteReader(bytes.NewReader(b)) }},
		{"half", func(b []byte) io.Reader { return iotest.HalfReader(bytes.NewReader(b)) }},
		{"dataerr", func(b []byte) io.Reader { return iotest.DataErrReader(bytes.NewReader(b)) }},
		{"chunk-irregular", func(b []byte) io.Reader { return &c15chunkReader{data: b, sizes: rot(0)} }},
		{"chunk-irregular2", func(b []byte) io.Reader { return &c15chunkReader{data: b, sizes: rot(5)} }},
		{"pipe-irregular", func(b []byte) io.Reader { return c15pipe(b, rot(3)) }},
	}
	for _, n := range []int{7, 33, 50, 100, 333, 4100, 16385} {
		n := n
		fam = append(fam, c15namedReader{fmt.Sprintf("chunk%d", n), func(b []byte) io.Reader { return &c15chunkReader{data: b, sizes: []int{n}} }})
	}
	fam = append(fam, c15namedReader{"pipe50", func(b []byte) io.Reader { return c15pipe(b, []int{50}) }})
	return fam
}

// every attribute (sorted by kind and name) with every value, and the index buffer
func c15meshDump(m modeling.Mesh) string {
	var sb strings.Builder
	n := m.AttributeLength()
	names := m.Float1Attributes()
	sort.Strings(names)
	for _, a := range names {
		d := m.Float1Attribute(a)
		fmt.Fprintf(&sb, "f1.%s", a)
		for i := 0; i < n; i++ {
			sb.WriteString(" " + c15FC(d.At(i)))
		}
		sb.WriteString(";")
	}
	names = m.Float3Attributes()
	sort.Strings(names)
	for _, a := range names {
		d := m.Float3Attribute(a)
		fmt.Fprintf(&sb, "f3.%s", a)
		for i := 0; i < n; i++ {
			sb.WriteString(" " + c15FCs(d.At(i).X(), d.At(i).Y(), d.At(i).Z()))
		}
		sb.WriteString(";")
	}
	names = m.Float4Attributes()
	sort.Strings(names)
	for _, a := range names {
		d := m.Float4Attribute(a)
		fmt.Fprintf(&sb, "f4.%s", a)
		for i := 0; i < n; i++ {
			sb.WriteString(" " + c15FCs(d.At(i).X(), d.At(i).Y(), d.At(i).Z(), d.At(i).W()))
		}
		sb.WriteString(";")
	}
	return sb.String()
}

func c15digest(s string) string {
	h := fnv.New64a()
	h.Write([]byte(s))
	return fmt.Sprintf("%016x", h.Sum64())
}

// readersAgree runs decode through every reader of the family and emits the oracle line
func (c *Ctx) c15readersAgree(op, tag string, data []byte, decode func(io.Reader) string) {
	parts := []string{}
	for _, nr := range c15readerFamily(c.Rng.Intn(12)) {
		nr := nr
		d := Guard(func() string {
			r := nr.mk(data)
			out := decode(r)
			if pr, ok := r.(*io.PipeReader); ok {
				pr.Close() // release the writer goroutine if the decoder stopped early
			}
			return c15digest(out)
		})
		parts = append(parts, nr.name, d)
	}
	c.Emit(op, tag+" "+strings.Join(parts, " "), "true")
}

func c15splatDecode(r io.Reader) string {
	m, err := splat.Read(r)
	flag := "0"
	if err != nil {
		flag = "1:" + err.Error()
	}
	back := c15readBack(m)
	return flag + " " + c15flatAll(back, false)
}

func c15spzDecode(r io.Reader) string {
	cl, err := spz.Read(r)
	if err != nil {
		return "err"
	}
	return fmt.Sprintf("%d %s", cl.Header.NumPoints, c15meshDump(cl.Mesh))
}

// large inputs across the decoders' internal buffer boundaries (a handful in quick, all in thorough)
func (c *Ctx) runC15large() {
	// .splat: 32 KiB = 1024 records
	splatSizes := []int{1025, 2049}
	if c.Tier == "thorough" {
		splatSizes = []int{1023, 1024, 1025, 2047, 2049, 3000}
	}
	for _, n := range splatSizes {
		data := c.c15rnd(32 * n)
		if c.Rng.Intn(2) == 0 {
			data = append(data, c.c15rnd(1+c.Rng.Intn(31))...)
		}
		c.Note(fmt.Sprintf("c15.large.splat.%d", n))
		c15emitRead(c, data)
		c.c15readersAgree("c15.holds.readers_agree", fmt.Sprintf("splat.%d", n), data, c15splatDecode)
	}
	// SPZ: per-point SH stride 9/24/45 bytes against power-of-two scratch buffers: 16384/9 = 1820.4, /24 = 682.7, /45 = 364.1
	type lc struct {
		n   int
		deg uint8
	}
	cases := []lc{{364, 3}, {683, 2}, {1821, 1}, {4001, 3}}
	if c.Tier == "thorough" {
		cases = []lc{{363, 3}, {364, 3}, {365, 3}, {681, 2}, {682, 2}, {683, 2}, {1819, 1}, {1820, 1}, {1821, 1},
			{729, 3}, {1366, 2}, {3641, 1}, {4001, 1}, {4001, 2}, {4001, 3}}
	}
	for i, lcse := range cases {
		version := uint32(1 + (i+int(c.Rng.Int31n(2)))%2)
		recs := make([]c15packed, lcse.n)
		for j := range recs {
			recs[j] = c.c15spzRecord(version, lcse.deg)
		}
		fb := uint8(c.Rng.Intn(25))
		stream := c15spzEncode(0x5053474e, version, uint32(lcse.n), lcse.deg, fb, 0, 0, recs)
		c.Note(fmt.Sprintf("c15.large.spz.v%d.sh%d.%d", version, lcse.deg, lcse.n))
		ans := c15spzRead(stream)
		if lcse.n <= 2000 {
			c.Emit("c15.spz.read", c15hex(stream), ans) // the List-based model decoder is quadratic: mid sizes only
		}
		hexes := make([]string, lcse.n)
		for j, r := range recs {
			hexes[j] = hex.EncodeToString(r.bytes())
		}
		c.Emit("c15.holds.spz_dequant", strings.TrimSpace(fmt.Sprintf("%d %d %d %d %s %s", version, lcse.n, lcse.deg, fb, strings.Join(hexes, " "), ans)), "true")
		c.c15readersAgree("c15.holds.readers_agree", fmt.Sprintf("spz.%d.sh%d", lcse.n, lcse.deg), c15gzip(stream), c15spzDecode)
	}
}

// an io.Writer that accepts `limit` bytes in total and then fails
type c15failWriter struct{ limit, n int }

func (w *c15failWriter) Write(p []byte) (int, error) {
	if w.n+len(p) > w.limit {
		k := w.limit - w.n
		w.n = w.limit
		return k, errors.New("destination full")
	}
	w.n += len(p)
	return len(p), nil
}

// EVERY half-float pattern through spz.Read: version-1 streams whose position array holds the patterns
// base .. base+4097 (mod 65536; 1366 points x 3 coordinates), 16 chunks cover 0x0000..0xffff. The model line is
// answered with Half.halfToFloatBits (the source's operators on BitVec 16); the oracle evaluates the closed form of
// the theorems half_is_binary16 / half_step on the implementation's values.
func (c *Ctx) runC15halfAll() {
	const chunk = 4096
	const pts = 1366 // 3*1366 = 4098 >= chunk
	for base := 0; base < 65536; base += chunk {
		recs := make([]c15packed, pts)
		for i := range recs {
			pos := make([]byte, 6)
			for k := 0; k < 3; k++ {
				binary.LittleEndian.PutUint16(pos[2*k:], uint16((base+3*i+k)%65536))
			}
			recs[i] = c15packed{pos: pos, alpha: byte(i), color: []byte{1, 2, 3}, scale: []byte{4, 5, 6}, rot: []byte{7, 8, 9}}
		}
		stream := c15spzEncode(0x5053474e, 1, pts, 0, 12, 0, 0, recs)
		ans := Guard(func() string {
			cl, err := spz.Read(bytes.NewReader(c15gzip(stream)))
			if err != nil {
				return "err"
			}
			a := cl.Mesh.Float3Attribute(modeling.PositionAttribute)
			fs := make([]float64, 0, 3*a.Len())
			for i := 0; i < a.Len(); i++ {
				fs = append(fs, a.At(i).X(), a.At(i).Y(), a.At(i).Z())
			}
			if len(fs) < chunk {
				return "short"
			}
			return c15FCs(fs[:chunk]...)
		})
		c.Note("c15.spz.halfall.chunk")
		c.Emit("c15.spz.halfall", fmt.Sprintf("%d %d", base, chunk), ans)
		c.Emit("c15.holds.half_binary16", fmt.Sprintf("%d %d %s", base, chunk, ans), "true")
	}
}

// ---- reference SPZ packer (the same one as SpzRef.* / C15.pack in Lemmas/SpzQuant.lean, Props/C15SpzFile.lean;
// the repository has no SPZ writer beyond the header) -> layout -> gzip -> spz.Read, and the oracle
// c15.holds.spz_pack_step = the predicate PointWithinStep of theorem spz_write_read on the implementation's output.

func c15toU8(x float64) byte {
	f := math.Floor(x + 0.5)
	if !(f > 0) {
		return 0
	}
	if f > 255 {
		return 255
	}
	return byte(f)
}

func c15halfVal(h int) float64 {
	e, m := h>>10, h&0x3ff
	if e == 0 {
		return math.Ldexp(float64(m), -24)
	}
	return math.Ldexp(float64(1024+m), e-25)
}

// round to nearest, ties to the even pattern; saturates at the largest finite half
func c15halfEncode(x float64) uint16 {
	sign := 0
	if x < 0 {
		sign, x = 0x8000, -x
	}
	lo, hi := 0, 31743
	for lo < hi {
		mid := (lo + hi + 1) / 2
		if c15halfVal(mid) <= x {
			lo = mid
		} else {
			hi = mid - 1
		}
	}
	h := lo
	if h < 31743 {
		dl, dh := x-c15halfVal(h), c15halfVal(h+1)-x
		if dh < dl || (dh == dl && h%2 == 1) {
			h++
		}
	}
	return uint16(sign | h)
}

func (c *Ctx) c15pick(lo, hi float64, specials ...float64) float64 {
	switch c.Rng.Intn(6) {
	case 0:
		return specials[c.Rng.Intn(len(specials))]
	case 1: // outside the representable range: the guard of the step statement is false there
		if c.Rng.Intn(2) == 0 {
			return hi + (hi-lo)*(0.01+c.Rng.Float64())
		}
		return lo - (hi-lo)*(0.01+c.Rng.Float64())
	}
	return lo + (hi-lo)*c.Rng.Float64()
}

func (c *Ctx) runC15spzPack() {
	for k := 0; k < c.N/2+4; k++ {
		version := uint32(1 + k%2)
		deg := uint8((k / 2) % 4)
		dim := c15spzDims[deg]
		n := []int{0, 1, 1, 2, 3, 5, 9}[c.Rng.Intn(7)]
		if k < 4 {
			n = k % 2
		}
		fb := uint8(c.Rng.Intn(25))
		recs := make([]c15packed, n)
		orig := make([]float64, 0, n*(14+3*dim))
		for i := range recs {
			var pos [3]float64
			pb := []byte{}
			for j := range pos {
				if version == 1 {
					switch c.Rng.Intn(5) {
					case 0: // subnormal / tiny
						pos[j] = (c.Rng.Float64() - 0.5) * math.Ldexp(1, -13)
					case 1:
						pos[j] = c.c15pick(-65504, 65504, 0, 65504, -65504, 1, math.Ldexp(1, -14), math.Ldexp(1, -24), 2049, 2051, 65519.9)
					default:
						pos[j] = (c.Rng.Float64() - 0.5) * math.Ldexp(1, c.Rng.Intn(17))
					}
					pb = binary.LittleEndian.AppendUint16(pb, c15halfEncode(pos[j]))
				} else {
					lim := math.Ldexp(1, 23-int(fb))
					pos[j] = c.c15pick(-lim, lim, 0, lim, -lim, lim-math.Ldexp(1, -int(fb)), 0.5*math.Ldexp(1, -int(fb)), 1.5*math.Ldexp(1, -int(fb)))
					z := int64(math.Floor(pos[j]*math.Ldexp(1, int(fb)) + 0.5))
					v := uint32(z) & 0xffffff
					pb = append(pb, byte(v), byte(v>>8), byte(v>>16))
				}
			}
			alpha := c.c15pick(0, 1, 0, 1, 0.5, 1/255.0)
			var col, scl, rot [3]float64
			var cb, sb, rb []byte
			for j := 0; j < 3; j++ {
				col[j] = c.c15pick(-10.0/3, 10.0/3, 0, 10.0/3, -10.0/3, 0.5)
				scl[j] = c.c15pick(-10, 95.0/16, -10, 95.0/16, 0, -9.96875)
				rot[j] = c.c15pick(-1, 1, -1, 1, 0, 1/255.0)
				cb = append(cb, c15toU8(col[j]*(15.0/100*255)+0.5*255))
				sb = append(sb, c15toU8((scl[j]+10)*16))
				rb = append(rb, c15toU8(rot[j]*(255.0/2)+255.0/2))
			}
			shv := make([]float64, 3*dim)
			shb := make([]byte, 3*dim)
			for j := range shv {
				shv[j] = c.c15pick(-1, 127.0/128, -1, 127.0/128, 0, 1/256.0)
				shb[j] = c15toU8(shv[j]*128 + 128)
			}
			recs[i] = c15packed{pos: pb, alpha: c15toU8(alpha * 255), color: cb, scale: sb, rot: rb, sh: shb}
			orig = append(orig, pos[0], pos[1], pos[2], alpha, col[0], col[1], col[2], scl[0], scl[1], scl[2], rot[0], rot[1], rot[2], 0)
			orig = append(orig, shv...)
		}
		stream := c15spzEncode(0x5053474e, version, uint32(n), deg, fb, 0, 0, recs)
		ans := c15spzRead(stream)
		c.Note(fmt.Sprintf("c15.spz.pack.v%d", version))
		c.Emit("c15.holds.spz_pack_step", strings.TrimSpace(fmt.Sprintf("%d %d %d %d %s %s", version, n, deg, fb, Fs(orig...), ans)), "true")
	}
}
