// Stream c02: well-formedness is closed under generation and mesh operations.
//
//	c02.gen.<prim> params        exact index list + vertex count of a primitive constructor vs the Lean index generator
//	c02.op.<op> params meshes    shape (topology, indices, materials, attribute names+lengths) of an operation result vs the model
//	c02.holds.wf <mesh>          the theorem predicate WF on EVERY mesh the implementation returned
package main

import (
	"fmt"
	"io"
	"log"
	"math"
	"strconv"
	"strings"

	"github.com/EliCDavis/polyform/math/curves"
	"github.com/EliCDavis/polyform/math/geometry"
	"github.com/EliCDavis/polyform/math/quaternion"
	"github.com/EliCDavis/polyform/math/trs"
	"github.com/EliCDavis/polyform/modeling"
	"github.com/EliCDavis/polyform/modeling/extrude"
	"github.com/EliCDavis/polyform/modeling/marching"
	"github.com/EliCDavis/polyform/modeling/meshops"
	"github.com/EliCDavis/polyform/modeling/primitives"
	"github.com/EliCDavis/polyform/modeling/repeat"
	"github.com/EliCDavis/polyform/modeling/triangulation"
	"github.com/EliCDavis/polyform/nodes"
	"github.com/EliCDavis/vector/vector2"
	"github.com/EliCDavis/vector/vector3"
)

func init() { streams["c02"] = runC02 }

// wf emits the oracle line for one implementation output. Reading the mesh goes through the public
// accessors; a panic in there (an accessor reading out of range) is reported as the answer "panic".
func (c *Ctx) wf(tag string, m modeling.Mesh) {
	s := guardMesh(func() string { return shapeStr(m) })
	c.Note("wf:" + tag)
	if s == "panic" || s == "rejected" {
		c.Emit("c02.holds.wf", "unreadable "+tag, "panic")
		return
	}
	c.Emit("c02.holds.wf", s, "true")
}

func genAnswer(m modeling.Mesh) string {
	idx := m.Indices()
	parts := []string{strconv.Itoa(m.AttributeLength()), strconv.Itoa(idx.Len())}
	for i := 0; i < idx.Len(); i++ {
		parts = append(parts, strconv.Itoa(idx.At(i)))
	}
	return strings.Join(parts, " ")
}

// gen runs a primitive constructor: one correspondence line (indices exact) and one oracle line.
func (c *Ctx) gen(name, params string, f func() modeling.Mesh) {
	var m modeling.Mesh
	st := guardMesh(func() string { m = f(); return "" })
	if st != "" {
		c.Emit("c02.gen."+name, params, st)
		c.Note("gen:" + st)
		return
	}
	c.Emit("c02.gen."+name, params, guardMesh(func() string { return genAnswer(m) }))
	c.wf(name, m)
}

func (c *Ctx) primitiveSweep(maxP int) {
	for r := 0; r <= maxP; r++ {
		for cl := 0; cl <= maxP; cl++ {
			c.sphereFamily(r, cl)
		}
	}
	for s := 0; s <= maxP*2; s++ {
		c.sidesFamily(s)
	}
	// extrusion of a shape along a path: path lengths 0..6 (fewer than 2 are rejected), shape sizes 0..6, open and closed
	for pl := 0; pl <= 6; pl++ {
		for sd := 0; sd <= 6; sd++ {
			c.extrudeShapeCase(pl, sd, false)
			c.extrudeShapeCase(pl, sd, true)
		}
	}
	c.extrudeShapeCase(15, 3, true)
	c.extrudeShapeCase(3, 15, false)
	for n := 0; n <= 8; n++ {
		n := n
		lps := make([]extrude.LinePoint, n)
		p := vector3.Zero[float64]()
		for j := range lps {
			p = p.Add(vector3.New(float64(c.Rng.Intn(3)), 1+float64(c.Rng.Intn(3)), float64(c.Rng.Intn(3)-1)))
			lps[j] = extrude.LinePoint{Point: p, Up: vector3.Up[float64](), Width: float64(c.Rng.Intn(3)), Height: 1, Uv: vector2.New(0., float64(j)), UvWidth: 1}
		}
		c.gen("extrude_line", strconv.Itoa(n), func() modeling.Mesh { return extrude.Line(lps) })
		// Width exactly 0 on every point / on alternating points (the zero-width branch keeps the Up normal for both sides)
		for mode := 0; mode < 2; mode++ {
			lz := append([]extrude.LinePoint{}, lps...)
			for j := range lz {
				if mode == 0 || j%2 == 0 {
					lz[j].Width = 0
				} else {
					lz[j].Width = 2
				}
			}
			c.gen("extrude_line", strconv.Itoa(n), func() modeling.Mesh { return extrude.Line(lz) })
		}
	}
	// extrude.ScrewNodeData.Process: line lengths 0..5 x segments 0..5 (fewer than 2 of either: empty mesh)
	for ll := 0; ll <= 5; ll++ {
		for sg := 0; sg <= 5; sg++ {
			ll, sg := ll, sg
			line := make([]vector3.Float64, ll)
			for j := range line {
				line[j] = vector3.New(1+float64(j), float64(j)*0.5, 0)
			}
			c.gen("screw", fmt.Sprintf("%d %d", ll, sg), func() modeling.Mesh {
				nd := extrude.ScrewNodeData{Line: nodes.Value(line).Out(), Segments: nodes.Value(sg).Out(),
					Revolutions: nodes.Value(1.5).Out(), Distance: nodes.Value(2.).Out()}
				if c.Rng.Intn(2) == 0 {
					nd.UVs = nodes.Value(primitives.StripUVs{Start: vector2.New(0., 0.5), End: vector2.New(1., 0.5), Width: 1}).Out()
				}
				m, err := nd.Process()
				if err != nil {
					panic(err)
				}
				return m
			})
		}
	}
	// the screw node with its own DEFAULTS (20 segments, 1 revolution, distance 0: a closed lathe) and Distance exactly 0
	// with whole / fractional / zero revolutions
	for ll := 2; ll <= 4; ll++ {
		ll := ll
		line := make([]vector3.Float64, ll)
		for j := range line {
			line[j] = vector3.New(1+float64(j), float64(j)*0.5, 0)
		}
		c.gen("screw", fmt.Sprintf("%d 20", ll), func() modeling.Mesh {
			m, err := extrude.ScrewNodeData{Line: nodes.Value(line).Out()}.Process()
			if err != nil {
				panic(err)
			}
			return m
		})
		for _, rev := range []float64{1, 2, 3, 0.5, 0, -1} {
			for _, sg := range []int{2, 3, 5} {
				rev, sg := rev, sg
				c.gen("screw", fmt.Sprintf("%d %d", ll, sg), func() modeling.Mesh {
					m, err := extrude.ScrewNodeData{Line: nodes.Value(line).Out(), Segments: nodes.Value(sg).Out(),
						Revolutions: nodes.Value(rev).Out(), Distance: nodes.Value(0.).Out()}.Process()
					if err != nil {
						panic(err)
					}
					return m
				})
			}
		}
	}
	// extrude.polygon (Polygon / Circle.Extrude): the winding of each quad is a float decision, so the index list
	// is checked by an oracle line against the generator with the flags read off the output
	for pl := 0; pl <= 5; pl++ {
		for sd := 2; sd <= 6; sd++ {
			pl, sd := pl, sd
			pts := make([]extrude.ExtrusionPoint, pl)
			p := vector3.Zero[float64]()
			for j := range pts {
				p = p.Add(vector3.New(float64(c.Rng.Intn(3)), 1+float64(c.Rng.Intn(3)), float64(c.Rng.Intn(3)-1)))
				pts[j] = extrude.ExtrusionPoint{Point: p, Thickness: 0.5 + float64(c.Rng.Intn(3))}
				if c.Rng.Intn(2) == 0 {
					pts[j].UV = &extrude.ExtrusionPointUV{Point: vector2.New(0.5, float64(j)), Thickness: 1}
				}
			}
			var m modeling.Mesh
			st := guardMesh(func() string { m = extrude.Polygon(sd, pts); return "" })
			if st == "panic" {
				c.Emit("c02.holds.polygon_idx", fmt.Sprintf("%d %d 0 generator-panicked", pl, sd), "panic")
				continue
			}
			if st == "rejected" {
				if pl >= 2 && sd >= 3 {
					c.Emit("c02.holds.polygon_idx", fmt.Sprintf("%d %d 0 rejected-valid-parameters", pl, sd), "panic")
				}
				c.Note("polygon:rejected")
				continue
			}
			c.Emit("c02.holds.polygon_idx", fmt.Sprintf("%d %d 0 %s", pl, sd, guardMesh(func() string { return genAnswer(m) })), "true")
			c.wf("extrude.Polygon", m)
		}
	}
	c.gen("quad", "", func() modeling.Mesh { return primitives.Quad{Width: 2, Depth: 3}.ToMesh() })
	c.gen("quad", "", func() modeling.Mesh {
		return primitives.Quad{Width: 2, Depth: 3, UVs: &primitives.StripUVs{Start: vector2.New(0., 0.5), End: vector2.New(1., 0.5), Width: 1}}.ToMesh()
	})
	c.gen("cube", "", func() modeling.Mesh { return primitives.Cube{Height: 1, Width: 2, Depth: 3}.Welded() })
	c.gen("cube", "", func() modeling.Mesh {
		return primitives.Cube{Height: 1, Width: 2, Depth: 3, UVs: primitives.DefaultCubeUVs()}.Welded()
	})
	c.gen("cube", "", primitives.UnitCube)
	c.gen("cube_unwelded", "", func() modeling.Mesh { return primitives.Cube{Height: 1, Width: 2, Depth: 3}.UnweldedQuads() })
	c.gen("cube_unwelded", "", func() modeling.Mesh {
		return primitives.Cube{Height: 1, Width: 2, Depth: 3, UVs: primitives.DefaultCubeUVs()}.UnweldedQuads()
	})
	// partially specified UVs: Append zero-fills the texcoords of the faces without them
	c.gen("cube_unwelded", "", func() modeling.Mesh {
		uv := primitives.DefaultCubeUVs()
		uv.Top, uv.Left, uv.Back = nil, nil, nil
		return primitives.Cube{Height: 1, Width: 2, Depth: 3, UVs: uv}.UnweldedQuads()
	})
}

func (c *Ctx) extrudeShapeCase(pl, sd int, closed bool) {
	shape := make([]vector2.Float64, sd)
	for j := range shape {
		a := 2 * math.Pi * float64(j) / float64(sd)
		shape[j] = vector2.New(math.Cos(a), math.Sin(a))
	}
	path := make([]vector3.Float64, pl)
	p := vector3.Zero[float64]()
	for j := range path {
		p = p.Add(vector3.New(float64(c.Rng.Intn(3)), 1+float64(c.Rng.Intn(3)), float64(c.Rng.Intn(3)-1)))
		path[j] = p
	}
	cl := 0
	if closed {
		cl = 1
	}
	c.gen("extrude_shape", fmt.Sprintf("%d %d %d", pl, sd, cl), func() modeling.Mesh {
		if closed {
			return extrude.ClosedShape(shape, path)
		}
		return extrude.Shape(shape, path)
	})
}

func (c *Ctx) sphereFamily(r, cl int) {
	p := fmt.Sprintf("%d %d", r, cl)
	c.gen("uvsphere", p, func() modeling.Mesh { return primitives.UVSphere(1.5, r, cl) })
	c.gen("uvsphere_unwelded", p, func() modeling.Mesh { return primitives.UVSphereUnwelded(1.5, r, cl) })
	c.gen("hemisphere", p, func() modeling.Mesh { return primitives.Hemisphere{Radius: 2, Capped: c.Rng.Intn(2) == 0}.UV(r, cl) })
}

func (c *Ctx) sidesFamily(s int) {
	c.gen("circle", strconv.Itoa(s), func() modeling.Mesh { return primitives.Circle{Sides: s, Radius: 2}.ToMesh() })
	c.gen("circle", strconv.Itoa(s), func() modeling.Mesh {
		return primitives.Circle{Sides: s, Radius: 2, UVs: &primitives.CircleUVs{Center: vector2.New(0.5, 0.5), Radius: 0.5}}.ToMesh()
	})
	c.gen("cone", strconv.Itoa(s), func() modeling.Mesh { return primitives.Cone{Sides: s, Radius: 2, Height: 1}.ToMesh() })
	for _, top := range []int{0, 1} {
		for _, bot := range []int{0, 1} {
			top, bot := top, bot
			var uvs *primitives.CylinderUVs
			switch c.Rng.Intn(3) {
			case 1: // side UVs only: Append zero-fills the caps' texcoords
				uvs = &primitives.CylinderUVs{Side: &primitives.StripUVs{Start: vector2.New(0., 0.5), End: vector2.New(1., 0.5), Width: 1}}
			case 2:
				uvs = &primitives.CylinderUVs{Top: &primitives.CircleUVs{Center: vector2.New(0.5, 0.5), Radius: 0.5}}
			}
			c.gen("cylinder", fmt.Sprintf("%d %d %d", s, top, bot), func() modeling.Mesh {
				return primitives.Cylinder{Sides: s, Height: 2, Radius: 1, NoTop: top == 0, NoBottom: bot == 0, UVs: uvs}.ToMesh()
			})
		}
	}
}

// generators whose index arithmetic is not (yet) modelled: covered by the WF oracle on their output
func (c *Ctx) otherGenerators(k int) {
	path := func(n int) []vector3.Float64 {
		out := make([]vector3.Float64, n)
		p := vector3.Zero[float64]()
		for i := range out {
			p = p.Add(vector3.New(float64(c.Rng.Intn(3)), 1+float64(c.Rng.Intn(3)), float64(c.Rng.Intn(3)-1)))
			out[i] = p
		}
		return out
	}
	try := func(tag string, f func() modeling.Mesh) {
		var m modeling.Mesh
		st := guardMesh(func() string { m = f(); return "" })
		if st == "rejected" {
			c.Note("othergen-rejected:" + tag)
			return
		}
		if st == "panic" {
			c.Emit("c02.holds.wf", "generator-panicked "+tag, "panic")
			return
		}
		c.wf(tag, m)
	}
	for i := 0; i < k; i++ {
		n := 2 + c.Rng.Intn(6)
		sides := 3 + c.Rng.Intn(6)
		shape := make([]vector2.Float64, sides)
		for j := range shape {
			a := 2 * math.Pi * float64(j) / float64(sides)
			shape[j] = vector2.New(math.Cos(a), math.Sin(a))
		}
		p := path(n)
		try("extrude.Shape", func() modeling.Mesh { return extrude.Shape(shape, p) })
		try("extrude.ClosedShape", func() modeling.Mesh { return extrude.ClosedShape(shape, p) })
		pts := make([]extrude.ExtrusionPoint, n)
		for j := range pts {
			pts[j] = extrude.ExtrusionPoint{Point: p[j], Thickness: 0.5 + float64(c.Rng.Intn(3))}
			if c.Rng.Intn(2) == 0 {
				pts[j].UV = &extrude.ExtrusionPointUV{Point: vector2.New(0.5, float64(j)), Thickness: 1}
			}
		}
		polyIdx := func(tag string, f func() modeling.Mesh) {
			var m modeling.Mesh
			if guardMesh(func() string { m = f(); return "" }) == "" {
				c.Emit("c02.holds.polygon_idx", fmt.Sprintf("%d %d 0 %s", n, sides, guardMesh(func() string { return genAnswer(m) })), "true")
			}
			try(tag, f)
		}
		polyIdx("extrude.Polygon", func() modeling.Mesh { return extrude.Polygon(sides, pts) })
		closePath := c.Rng.Intn(2) == 0
		polyIdx("extrude.Circle", func() modeling.Mesh {
			return extrude.Circle{Resolution: sides, Radius: 1, Path: p, ClosePath: closePath}.Extrude()
		})
		lps := make([]extrude.LinePoint, n)
		for j := range lps {
			lps[j] = extrude.LinePoint{Point: p[j], Up: vector3.Up[float64](), Width: 1, Height: 1, Uv: vector2.New(0., float64(j)), UvWidth: 1}
		}
		try("extrude.Line", func() modeling.Mesh { return extrude.Line(lps) })

		// repeat
		base := c.genMesh(meshGen{topo: []modeling.Topology{modeling.TriangleTopology, modeling.PointTopology, modeling.LineTopology}, needPos: true, maxVerts: 6})
		ts := make([]trs.TRS, c.Rng.Intn(4))
		for j := range ts {
			ts[j] = trs.New(c.smallV3(), quaternion.FromTheta(float64(j), vector3.Up[float64]()), vector3.One[float64]())
		}
		try("repeat.Mesh", func() modeling.Mesh { return repeat.Mesh(base, ts) })

		// CircleAlongSpline.Extrude (polygon along a Catmull-Rom spline)
		if len(p) >= 4 {
			spl := curves.CatmullRomSplineParameters{Points: p, Alpha: 0.5}.Spline()
			res := 2 + c.Rng.Intn(6)
			polyIdxN := func(tag string, pl int, f func() modeling.Mesh) {
				var m modeling.Mesh
				if guardMesh(func() string { m = f(); return "" }) == "" {
					c.Emit("c02.holds.polygon_idx", fmt.Sprintf("%d %d 0 %s", pl, sides, guardMesh(func() string { return genAnswer(m) })), "true")
				}
				try(tag, f)
			}
			polyIdxN("extrude.CircleAlongSpline", res, func() modeling.Mesh {
				return extrude.CircleAlongSpline{CircleResolution: sides, Radius: 0.5, Spline: &spl, SplineResolution: res}.Extrude()
			})
		}

		// constrained triangulation: a constraint polygon that cuts through the point cloud, so triangles with one or
		// two corners inside are clipped and intersection points are appended
		{
			ncp := 6 + c.Rng.Intn(14)
			cp := make([]vector2.Float64, ncp)
			for j := range cp {
				cp[j] = vector2.New(c.Rng.Float64()*10, c.Rng.Float64()*10)
			}
			cx, cy, rad := 3+c.Rng.Float64()*4, 3+c.Rng.Float64()*4, 1.5+c.Rng.Float64()*2.5
			k := 3 + c.Rng.Intn(4)
			shape := make([]vector2.Float64, k)
			for j := range shape {
				a := 2 * math.Pi * float64(j) / float64(k)
				shape[j] = vector2.New(cx+rad*math.Cos(a), cy+rad*math.Sin(a))
			}
			var before int
			try("triangulation.ConstrainedBowyerWatson", func() modeling.Mesh {
				before = len(cp)
				m := triangulation.ConstrainedBowyerWatson(cp, []triangulation.Constraint{triangulation.NewConstraint(shape)})
				if m.AttributeLength() > before {
					c.Note("constrained-bw:points-added")
				}
				if m.Indices().Len() > 0 {
					c.Note("constrained-bw:non-empty")
				}
				c.Emit("c02.holds.cbw_shape", strconv.Itoa(before)+" "+guardMesh(func() string { return shapeStr(m) }), "true")
				return m
			})
		}

		// triangulation
		np := 3 + c.Rng.Intn(10)
		pp := make([]vector2.Float64, np)
		for j := range pp {
			pp[j] = vector2.New(c.Rng.Float64()*10, c.Rng.Float64()*10)
		}
		try("triangulation.BowyerWatson", func() modeling.Mesh { return triangulation.BowyerWatson(pp) })
	}
	// marching cubes: a few small fields
	nm := 1 + k/8
	if nm > 16 {
		nm = 16
	}
	for i := 0; i < nm; i++ {
		r := 0.4 + c.Rng.Float64()
		f := marching.Sphere(c.smallV3().Scale(0.25), r, 1)
		if c.Rng.Intn(2) == 0 {
			f = marching.CombineFields(f, marching.Box(c.smallV3().Scale(0.25), vector3.New(0.8, 0.6, 1.0), 1))
		}
		cpu := 3 + float64(c.Rng.Intn(4))
		try("marching.Field.March", func() modeling.Mesh { return f.March(modeling.PositionAttribute, cpu, 0) })
		try("marching.Canvas.March", func() modeling.Mesh {
			cv := marching.NewMarchingCanvas(cpu)
			cv.AddField(f)
			return cv.March(0)
		})
	}
}

func (c *Ctx) opSequences(n int) {
	all := append(append([]string{}, layoutOps...), transformOps...)
	for s := 0; s < n; s++ {
		c.guardSeq("c02.holds.wf", func() { c.seq02(all) })
	}
}

func (c *Ctx) seq02(all []string) {
	{
		m := c.startMesh()
		c.wf("start", m)
		steps := 1 + c.Rng.Intn(6)
		for k := 0; k < steps; k++ {
			name := c.opsFor(m, all)
			r := c.applyOp(name, m)
			c.Emit("c02.op."+r.name, r.args, r.answer(shapeStr))
			if r.status != "" {
				c.Note("op-" + r.status + ":" + name)
				continue
			}
			c.Note("op-ok:" + name)
			for _, o := range r.out {
				c.wf(name, o)
			}
			if len(r.out) > 0 {
				m = r.out[c.Rng.Intn(len(r.out))]
			}
			// un-modelled operations and raw setters on the current mesh (WF oracle on what they return)
			if c.Rng.Intn(3) == 0 {
				if o := c.extraOp(m); o != nil && c.Rng.Intn(2) == 0 {
					m = *o
				}
			}
		}
	}
}

// corpus: fixed past failures, run first on every seed
func (c *Ctx) corpusC02() {
	// (1) SliceByPlane on a quad mesh returned 3 indices under quad topology (fixed in /repo dbd042b: rejected now)
	pos := []vector3.Float64{vector3.New(0., 1., 0.), vector3.New(1., 1., 0.), vector3.New(1., 1., 1.), vector3.New(0., 1., 1.)}
	plane := geometry.NewPlaneFromPoints(vector3.New(0., 0., 0.), vector3.New(1., 0., 0.), vector3.New(0., 0., 1.))
	for _, topo := range []modeling.Topology{modeling.QuadTopology, modeling.LineTopology, modeling.PointTopology} {
		m := modeling.NewMesh(topo, []int{0, 1, 2, 3}).SetFloat3Attribute(modeling.PositionAttribute, pos)
		st := guardMesh(func() string {
			out, err := meshops.SliceByPlaneTransformer{Plane: plane, SliceToKeep: meshops.AbovePlane}.Transform(m)
			if err != nil {
				return "rejected"
			}
			return shapeStr(out)
		})
		c.Emit("c02.corpus.slice_non_triangle", strconv.Itoa(int(topo)), st)
		st = guardMesh(func() string {
			a, _ := meshops.SliceByPlaneWithAttribute(m, plane, modeling.PositionAttribute)
			return shapeStr(a)
		})
		c.Emit("c02.corpus.slice_non_triangle", strconv.Itoa(int(topo))+" func", st)
	}
	// (2) SplitOnUniqueMaterials with material ranges shorter than the triangle list: the skip loop indexes past the
	// last range (runtime panic, recovered by the harness and reported as a rejection; the model returns none)
	tri := modeling.NewTriangleMesh([]int{0, 1, 2, 2, 1, 3, 0, 2, 3}).
		SetFloat3Attribute(modeling.PositionAttribute, pos).
		SetMaterials([]modeling.MeshMaterial{{PrimitiveCount: 1, Material: sharedMaterials[0]}, {PrimitiveCount: 1, Material: sharedMaterials[1]}})
	r := c.applyOp("split", tri)
	c.Emit("c02.op.split", r.args, r.answer(shapeStr))
	c.Note("corpus:split-short-ranges:" + r.status)
}

// branchingHistories: results are validated when they are returned AND again after later derivations from the same base
func (c *Ctx) branchingHistories(n int) {
	for i := 0; i < n; i++ {
		c.guardSeq("c02.holds.wf", func() {
			b := c.genBranchCase()
			c.wf("branch:base", b.base)
			c.wf("branch:x", b.x)
			c.wf("branch:y", b.y)
			// re-evaluation after y was derived: the oracle on x and base again, and the model against the LATE read of x
			c.wf("branch:x-after-y", b.x)
			c.wf("branch:base-after-y", b.base)
			c.Emit("c02.op.append", b.baseS+" "+b.pS, guardMesh(func() string { return shapeStr(b.x) }))
			c.Emit("c02.op.append", b.baseS+" "+b.qS, guardMesh(func() string { return shapeStr(b.y) }))
			// a third derivation and operations on the earlier results
			z := b.base.Append(b.x)
			c.wf("branch:z", z)
			c.wf("branch:x-after-z", b.x)
			for _, name := range []string{"split", "removeunref", "unweld"} {
				r := c.applyOp(name, b.x)
				c.Emit("c02.op."+r.name, r.args, r.answer(shapeStr))
				for _, o := range r.out {
					c.wf("branch:"+name+"(x)", o)
				}
			}
		})
	}
}

func runC02(c *Ctx) {
	log.SetOutput(io.Discard)
	c.corpusC02()
	maxP := 8
	if c.Tier == "thorough" {
		maxP = 24
	}
	c.primitiveSweep(maxP)
	// non-square parameters beyond the exhaustive square: rows >> columns and columns >> rows (an index expression
	// that uses the wrong one of the two only shows when they differ, e.g. next-ring start `+ rows` for `+ columns`
	// needs rows >= columns + 2)
	for _, rc := range [][2]int{{20, 3}, {3, 20}, {12, 5}, {5, 12}, {9, 4}, {4, 9}, {33, 3}, {2, 40}} {
		c.sphereFamily(rc[0], rc[1])
	}
	if c.Tier == "thorough" {
		for i := 0; i < 120; i++ {
			// one parameter up to 512, the other bounded so that the index list stays below ~10 000 entries;
			// 3 of 4 draws are far from square, both directions
			a := 2 + c.Rng.Intn(511)
			lim := 1200 / a
			if lim < 4 {
				lim = 4
			}
			b := 3 + c.Rng.Intn(lim)
			switch i % 4 {
			case 0:
				c.sphereFamily(a, b) // rows large
			case 1:
				c.sphereFamily(b+2, a+1) // columns large
			case 2:
				bb := 3 + c.Rng.Intn(30)
				c.sphereFamily(bb+2+c.Rng.Intn(3), bb) // rows = columns + 2..4
			default:
				bb := 3 + c.Rng.Intn(30)
				c.sphereFamily(bb, bb+1+c.Rng.Intn(3))
			}
			c.sidesFamily(c.Rng.Intn(513))
		}
		for i := 0; i < 60; i++ {
			pl, sd := 2+c.Rng.Intn(511), 3+c.Rng.Intn(4)
			if i%2 == 0 {
				pl, sd = 2+c.Rng.Intn(4), 3+c.Rng.Intn(510)
			}
			c.extrudeShapeCase(pl, sd, i%3 == 0)
		}
	}
	c.emptyAppends(func(r opRun, recv modeling.Mesh) {
		c.Emit("c02.op.append", r.args, r.answer(shapeStr))
		for _, o := range r.out {
			c.wf("append-empty", o)
		}
	})
	c.filterTopologySweep(func(r opRun, m modeling.Mesh) {
		c.Emit("c02.op.filter", r.args, r.answer(shapeStr))
		for _, o := range r.out {
			c.wf("filter-sweep", o)
		}
	})
	c.branchingHistories(10 + c.N/8)
	c.extrudeEntryPoints(6 + c.N/20)
	c.nodeEntryPoints(4 + c.N/40)
	c.opSequences(c.N)
	c.otherGenerators(8 + c.N/10)
	// round 2: the operations of Model/MeshMore.lean (c03_more.go): shape vs model + WF on every result
	c.moreOps(40+c.N/2, "c02.holds.wf", c.emitMore02)
}
