package main

import (
	"math"

	"github.com/EliCDavis/polyform/math/sample"
	"github.com/EliCDavis/polyform/math/sdf"
	"github.com/EliCDavis/vector/vector3"
)

func init() { streams["c19"] = runC19 }

// float64 as hex bits with every NaN mapped to the canonical quiet NaN (Lean's Float.toBits does the same)
func c19CanonNaN(x float64) string {
	if math.IsNaN(x) {
		return "7ff8000000000000"
	}
	return F(x)
}

// positive size / radius
func (c *Ctx) pos() float64 {
	switch c.Rng.Intn(4) {
	case 0:
		return float64(c.Rng.Intn(4) + 1)
	case 1:
		return c.Rng.Float64()*0.2 + 0.01
	default:
		return c.Rng.Float64()*3 + 0.1
	}
}

func (c *Ctx) pt(scale float64) vector3.Float64 {
	return vector3.New((c.Rng.Float64()*2-1)*scale, (c.Rng.Float64()*2-1)*scale, (c.Rng.Float64()*2-1)*scale)
}

// sample points in and around a shape located near `centre` with size ~ `size`
func (c *Ctx) around(centre vector3.Float64, size float64) vector3.Float64 {
	switch c.Rng.Intn(5) {
	case 0:
		return centre.Add(c.pt(size * 0.3)) // deep inside
	case 1:
		return centre.Add(c.pt(size * 4)) // far
	case 2:
		return centre // exactly the centre
	default:
		return centre.Add(c.pt(size * 1.5))
	}
}

func runC19(c *Ctx) {
	lip := func(f sample.Vec3ToFloat, p, q vector3.Float64) {
		c.Emit("c19.holds.lipschitz", Fs(f(p), f(q))+" "+vF(p)+" "+vF(q), "true")
	}
	rcone := func(a, b vector3.Float64, r1, r2 float64, p vector3.Float64) {
		f := sdf.RoundedCone(a, b, r1, r2)
		c.Emit("c19.rcone", vF(a)+" "+vF(b)+" "+Fs(r1, r2)+" "+vF(p), F(f(p)))
		c.Emit("c19.holds.rcone_sign", vF(a)+" "+vF(b)+" "+Fs(r1, r2)+" "+vF(p)+" "+F(f(p)), "true")
		c.Emit("c19.holds.rcone_outside_exact", vF(a)+" "+vF(b)+" "+Fs(r1, r2)+" "+vF(p)+" "+F(f(p)), "true")
	}
	// fixed corpus, runs first: the two witnesses of Props/C19Cone.lean (roundedCone_guard_needed / _guard_sharp:
	// nested and internally tangent balls, where the formula without the early return has the wrong sign),
	// the nested case the other way round, and a = b
	{
		o, e := vector3.New(0., 0., 0.), vector3.New(1., 0., 0.)
		rcone(o, e, 3, 1, vector3.New(-2.5, 0., 0.))
		rcone(o, e, 2, 1, vector3.New(-3., 0., 0.))
		rcone(o, e, 2, 1, vector3.New(-1., 0., 0.))
		rcone(o, e, 1, 3, vector3.New(3.5, 0., 0.))
		rcone(o, e, 1, 2, vector3.New(4., 0., 0.))
		s := vector3.New(1., 2., 3.)
		rcone(s, s, 1, 2, vector3.New(1., 2., 6.))
		rcone(s, s, 2, 1, vector3.New(1., 2.5, 3.))
		lip(sdf.RoundedCone(o, e, 3, 1), vector3.New(-2.5, 0., 0.), vector3.New(-5., 0., 0.))
		c.Note("rcone.corpus")
	}
	for k := 0; k < c.N; k++ {
		ctr := c.pt(5)
		// sphere
		{
			r := c.pos()
			f := sdf.Sphere(ctr, r)
			p, q := c.around(ctr, r), c.around(ctr, r)
			c.Emit("c19.sphere", vF(ctr)+" "+F(r)+" "+vF(p), F(f(p)))
			c.Emit("c19.holds.sphere", vF(ctr)+" "+F(r)+" "+vF(p)+" "+F(f(p)), "true")
			lip(f, p, q)
		}
		// box / rounded box
		{
			b := vector3.New(c.pos(), c.pos(), c.pos())
			f := sdf.Box(ctr, b)
			p, q := c.around(ctr, b.Length()), c.around(ctr, b.Length())
			if c.Rng.Intn(4) == 0 { // a point on a face plane / edge / corner region
				p = ctr.Add(vector3.New(b.X()/2, (c.Rng.Float64()-0.5)*b.Y()*2, (c.Rng.Float64()-0.5)*b.Z()*2))
				c.Note("box.faceplane")
			}
			if c.Rng.Intn(4) == 0 {
				// exact TIES between the per-axis excesses |p-c| - b/2: cubes and square prisms with dyadic
				// centre and sizes, probed on diagonal planes, edge midpoints and at the centre
				ctr = vector3.New(math.Round(ctr.X()*2)/2, math.Round(ctr.Y()*2)/2, math.Round(ctr.Z()*2)/2)
				s1, s2 := float64(c.Rng.Intn(3)+1), float64(c.Rng.Intn(3)+1)
				switch c.Rng.Intn(3) {
				case 0:
					b = vector3.New(s1, s1, s1)
				case 1:
					b = vector3.New(s1, s1, s2)
				default:
					b = vector3.New(s1, s2, s1)
				}
				f = sdf.Box(ctr, b)
				e := float64(c.Rng.Intn(9)-2) / 4 // common excess, in or outside
				sg := func() float64 { return float64(c.Rng.Intn(2)*2 - 1) }
				w := (c.Rng.Float64() - 0.5) * 4
				if c.Rng.Intn(3) == 0 {
					w = 0
				}
				switch c.Rng.Intn(4) {
				case 0: // x/y tie
					p = ctr.Add(vector3.New(sg()*(b.X()/2+e), sg()*(b.Y()/2+e), w))
				case 1: // x/z tie
					p = ctr.Add(vector3.New(sg()*(b.X()/2+e), w, sg()*(b.Z()/2+e)))
				case 2: // y/z tie
					p = ctr.Add(vector3.New(w, sg()*(b.Y()/2+e), sg()*(b.Z()/2+e)))
				default: // all three
					p = ctr.Add(vector3.New(sg()*(b.X()/2+e), sg()*(b.Y()/2+e), sg()*(b.Z()/2+e)))
				}
				c.Note("box.exact_tie")
			}
			c.Emit("c19.box", vF(ctr)+" "+vF(b)+" "+vF(p), F(f(p)))
			c.Emit("c19.holds.box", vF(ctr)+" "+vF(b)+" "+vF(p)+" "+F(f(p)), "true")
			lip(f, p, q)
			r := c.pos() * 0.3
			g := sdf.RoundedBox(ctr, b, r)
			c.Emit("c19.rbox", vF(ctr)+" "+vF(b)+" "+F(r)+" "+vF(p), F(g(p)))
			c.Emit("c19.holds.rbox", vF(ctr)+" "+vF(b)+" "+F(r)+" "+vF(p)+" "+F(g(p)), "true")
			lip(g, p, q)
			t := c.pt(3)
			tf := sdf.Translate(f, t)
			c.Emit("c19.translate", vF(ctr)+" "+vF(b)+" "+vF(t)+" "+vF(p), F(tf(p)))
			c.Emit("c19.holds.box", vF(ctr.Add(t))+" "+vF(b)+" "+vF(p)+" "+F(tf(p)), "true")
		}
		// capsule
		{
			a, b := ctr, ctr.Add(c.pt(3))
			if a.Distance(b) < 1e-3 {
				b = a.Add(vector3.New(1., 0., 0.))
			}
			r := c.pos() * 0.5
			f := sdf.Line(a, b, r)
			mid := a.Add(b).Scale(0.5)
			p, q := c.around(mid, a.Distance(b)+r), c.around(mid, a.Distance(b)+r)
			switch c.Rng.Intn(6) {
			case 0:
				p = b.Add(b.Sub(a).Scale(c.Rng.Float64() * 2)) // beyond the end cap, on the axis
				c.Note("line.beyond_cap_axis")
			case 1:
				p = a.Sub(b.Sub(a).Scale(c.Rng.Float64()*2)).Add(c.pt(0.1))
				c.Note("line.before_start")
			case 2:
				p = a.Add(b.Sub(a).Scale(c.Rng.Float64())) // on the segment itself (true value -r)
				c.Note("line.on_segment")
			case 3:
				// a diagonal segment with dyadic ends and a point exactly on it: k/8 of the way
				a = vector3.New(math.Round(ctr.X()), math.Round(ctr.Y()), math.Round(ctr.Z()))
				d := float64(c.Rng.Intn(3) + 1)
				dir := [][3]float64{{1, 1, 1}, {1, 1, 0}, {1, -1, 1}, {0, 1, 1}, {1, 2, 3}}[c.Rng.Intn(5)]
				b = a.Add(vector3.New(dir[0]*d, dir[1]*d, dir[2]*d))
				f = sdf.Line(a, b, r)
				p = a.Add(b.Sub(a).Scale(float64(c.Rng.Intn(9)) / 8))
				c.Note("line.on_diagonal_exact")
			}
			c.Emit("c19.line", vF(a)+" "+vF(b)+" "+F(r)+" "+vF(p), F(f(p)))
			c.Emit("c19.holds.line", vF(a)+" "+vF(b)+" "+F(r)+" "+vF(p)+" "+F(f(p)), "true")
			lip(f, p, q)
			// the same at other SCALES: very short and very long segments (an absolute epsilon on a length or a
			// squared length shows only there), samples around the far end
			if k%4 == 0 {
				sc := []float64{1e-5, 3e-4, 8e-4, 1e-2, 1e3}[c.Rng.Intn(5)]
				ta := ctr
				tb := ctr.Add(c.unit3().Scale(sc))
				tr := sc * (0.1 + c.Rng.Float64()*0.5)
				tf := sdf.Line(ta, tb, tr)
				for _, tp := range []vector3.Float64{
					tb.Add(tb.Sub(ta).Scale(0.1 + c.Rng.Float64()*0.3)), // just beyond the far end, on the axis
					tb.Add(c.pt(sc * 0.4)),                               // around the far end
					ta.Add(tb).Scale(0.5).Add(c.pt(sc)),                  // around the middle
				} {
					c.Emit("c19.line", vF(ta)+" "+vF(tb)+" "+F(tr)+" "+vF(tp), F(tf(tp)))
					c.Emit("c19.holds.line_scaled", vF(ta)+" "+vF(tb)+" "+F(tr)+" "+vF(tp)+" "+F(tf(tp)), "true")
				}
				c.Note("line.scaled")
			}
			// degenerate capsule start == end (outside the property: it quantifies over sizes > 0, the theorems carry a ≠ b):
			// heading.Normalized() divides 0/0 and the closure returns NaN for EVERY sample. Pinned here as a correspondence
			// line (the regenerated definition at Float gives NaN as well; NaN payload/sign canonicalised as Lean's toBits does);
			// no PRNG draw, so the rest of the stream is unchanged.
			if k%8 == 0 {
				df := sdf.Line(ctr, ctr, r)
				for _, dp := range []vector3.Float64{ctr, ctr.Add(vector3.New(1., 2., 3.))} {
					c.Emit("c19.line", vF(ctr)+" "+vF(ctr)+" "+F(r)+" "+vF(dp), c19CanonNaN(df(dp)))
				}
				c.Note("line.degenerate_nan")
			}
		}
		// plane
		{
			n := c.unit3()
			h := c.Rng.Float64()*2 - 1
			f := sdf.Plane(ctr, n, h)
			p, q := c.around(ctr, 2), c.around(ctr, 2)
			c.Emit("c19.plane", vF(ctr)+" "+vF(n)+" "+F(h)+" "+vF(p), F(f(p)))
			c.Emit("c19.holds.plane", vF(ctr)+" "+vF(n)+" "+F(h)+" "+vF(p)+" "+F(f(p)), "true")
			lip(f, p, q)
		}
		// rounded cone: admissible cones (|r1-r2| < L), near-tangent, exactly tangent, nested, and a = b.
		// Outside |r1-r2| < L the source returns the larger ball (early return); the union-of-spheres
		// reference of the driver is valid for every parameter choice.
		{
			a, b := ctr, ctr.Add(c.pt(3))
			if a.Distance(b) < 0.2 {
				b = a.Add(vector3.New(0., 1., 0.))
			}
			r1 := c.pos() * 0.5
			r2 := c.pos() * 0.5
			switch c.Rng.Intn(10) {
			case 0: // nested, either way round
				L := a.Distance(b)
				if c.Rng.Intn(2) == 0 {
					r1 = r2 + L*(1+c.Rng.Float64())
				} else {
					r2 = r1 + L*(1+c.Rng.Float64())
				}
			case 1: // internally tangent, exactly: dyadic coordinates, axis-parallel, |r1-r2| = L in float64
				a = vector3.New(math.Round(ctr.X()*4)/4, math.Round(ctr.Y()*4)/4, math.Round(ctr.Z()*4)/4)
				L := float64(c.Rng.Intn(3)+1) / 2
				d := [3]float64{}
				d[c.Rng.Intn(3)] = L
				if c.Rng.Intn(2) == 0 {
					d[0], d[1], d[2] = -d[0], -d[1], -d[2]
				}
				b = a.Add(vector3.New(d[0], d[1], d[2]))
				small := float64(c.Rng.Intn(4)+1) / 4
				if c.Rng.Intn(2) == 0 {
					r2, r1 = small, small+L
				} else {
					r1, r2 = small, small+L
				}
				c.Note("rcone.tangent_exact")
			case 2: // both ends at the same point
				b = a
				c.Note("rcone.same_centre")
			case 3: // constant thickness: sign(r1-r2) = 0 branch
				r2 = r1
				c.Note("rcone.equal_radii")
			case 4: // a zero radius at one end or both
				switch c.Rng.Intn(3) {
				case 0:
					r1 = 0
				case 1:
					r2 = 0
				default:
					r1, r2 = 0, 0
				}
				c.Note("rcone.zero_radius")
			case 5: // a negative radius (the all-parameter theorems put no sign condition on the radii)
				if c.Rng.Intn(2) == 0 {
					r1 = -r1
				} else {
					r2 = -r2
				}
				c.Note("rcone.negative_radius")
			}
			L := a.Distance(b)
			switch {
			case math.Abs(r1-r2) >= L:
				c.Note("rcone.nested_or_tangent")
			case math.Abs(r1-r2) > 0.9*L:
				c.Note("rcone.near_tangent")
			default:
				c.Note("rcone.admissible")
			}
			f := sdf.RoundedCone(a, b, r1, r2)
			mid := a.Add(b).Scale(0.5)
			size := L + r1 + r2
			p, q := c.around(mid, size), c.around(mid, size)
			if L > 0 {
				switch c.Rng.Intn(6) {
				case 0:
					p = b.Add(b.Sub(a).Normalized().Scale(c.Rng.Float64() * (r2 + 1))) // beyond cap b on the axis
					c.Note("rcone.beyond_cap_b")
				case 1:
					p = a.Sub(b.Sub(a).Normalized().Scale(c.Rng.Float64() * (r1 + 1))).Add(c.pt(0.05))
					c.Note("rcone.beyond_cap_a")
				case 2:
					p = a.Add(b.Sub(a).Scale(c.Rng.Float64())) // on the axis
					c.Note("rcone.on_axis")
				}
			}
			rcone(a, b, r1, r2, p)
			lip(f, p, q)
			if k%3 == 0 {
				// samples EXACTLY in the planes through the ball centres perpendicular to the axis ((p-a)·(b-a) = 0 or |b-a|²),
				// off the axis: dyadic, axis-aligned and oblique cones (a lattice sampler hits these planes, random probes never do)
				da := vector3.New(math.Round(ctr.X()), math.Round(ctr.Y()), math.Round(ctr.Z()))
				ax := [][3]float64{{2, 0, 0}, {0, 2, 0}, {0, 0, 2}, {1, 1, 0}, {2, 2, 1}}[c.Rng.Intn(5)]
				db := da.Add(vector3.New(ax[0], ax[1], ax[2]))
				perp := [][3]float64{{0, 1, 0}, {0, 0, 1}, {1, 0, 0}, {1, -1, 0}, {1, -1, 0}}
				pi := 0
				for i, a2 := range [][3]float64{{2, 0, 0}, {0, 2, 0}, {0, 0, 2}, {1, 1, 0}, {2, 2, 1}} {
					if a2 == ax {
						pi = i
					}
				}
				pv := vector3.New(perp[pi][0], perp[pi][1], perp[pi][2])
				s1, s2 := []float64{1, 0.5, 0.25, 1.5}[c.Rng.Intn(4)], []float64{0.5, 1, 1.5, 0.25}[c.Rng.Intn(4)]
				for _, base := range []vector3.Float64{da, db} {
					for _, m := range []float64{0.25, 0.5, 1, 1.25, 1.75} {
						pp := base.Add(pv.Scale(m))
						rcone(da, db, s1, s2, pp)
						lip(sdf.RoundedCone(da, db, s1, s2), pp, pp.Add(vector3.New(ax[0], ax[1], ax[2]).Scale(0.015625)))
					}
				}
				c.Note("rcone.exact_cap_plane")
			}
		}
		// VarryingThicknessLine: 0..5 line points (fewer than two: panic), repeated points, nested radii
		{
			k := c.Rng.Intn(6)
			switch c.Rng.Intn(8) {
			case 0:
				k = c.Rng.Intn(2) // panics
			case 1:
				k = 2
			}
			pts := make([]sdf.LinePoint, k)
			args := ""
			cur := ctr
			for i := range pts {
				if i > 0 && c.Rng.Intn(6) != 0 { // 1 in 6: repeated point
					cur = cur.Add(c.pt(2))
				}
				r := c.pos() * 0.5
				switch c.Rng.Intn(10) {
				case 0:
					r = c.pos() * 3 // swallows its neighbours
				case 1:
					r = 0
				case 2, 3:
					if i > 0 {
						r = pts[i-1].Radius // constant thickness
					}
				}
				pts[i] = sdf.LinePoint{Point: cur, Radius: r}
				args += " " + vF(cur) + " " + F(r)
			}
			p, q := c.around(ctr, 4), c.around(ctr, 4)
			if k > 0 && c.Rng.Intn(3) == 0 {
				p = c.around(pts[c.Rng.Intn(k)].Point, 1)
			}
			if k >= 3 && c.Rng.Intn(3) == 0 {
				// a STRAIGHT stroke with dyadic, exactly collinear points and radii that are NOT the linear
				// interpolation of their neighbours (beads, waists): an interior vertex matters only through its radius
				base := vector3.New(math.Round(ctr.X()), math.Round(ctr.Y()), math.Round(ctr.Z()))
				dir := [][3]float64{{1, 0, 0}, {0, 1, 0}, {0, 0, 1}, {1, 1, 0}, {1, 2, -1}}[c.Rng.Intn(5)]
				args = ""
				for i := range pts {
					t := float64(i) * 0.5
					pts[i].Point = base.Add(vector3.New(dir[0]*t, dir[1]*t, dir[2]*t))
					pts[i].Radius = []float64{0.25, 1, 0.125, 0.75, 0.25}[(i+c.Rng.Intn(2))%5]
					args += " " + vF(pts[i].Point) + " " + F(pts[i].Radius)
				}
				// probe next to an interior vertex, at a distance between the radii a straightened stroke would have there
				j := 1 + c.Rng.Intn(k-2)
				off := c.unit3().Scale(pts[j].Radius * (0.6 + c.Rng.Float64()*0.6))
				p = pts[j].Point.Add(off)
				c.Note("varline.collinear_bead")
			}
			head := itoa(k) + args
			var f sample.Vec3ToFloat
			res := Guard(func() string { f = sdf.VarryingThicknessLine(pts); return F(f(p)) })
			c.Emit("c19.varline", head+" "+vF(p), res)
			if res != "panic" {
				c.Emit("c19.holds.varline_sign", head+" "+vF(p)+" "+F(f(p)), "true")
				lip(f, p, q)
				c.Note("varline.k" + itoa(k))
			} else {
				c.Note("varline.panic")
			}
		}
		// rounded cylinder
		{
			ra := c.pos()
			h := c.pos()
			rb := c.Rng.Float64() * math.Min(ra, h) * 0.9
			if c.Rng.Intn(5) == 0 {
				rb = 0
				c.Note("rcyl.sharp")
			}
			f := sdf.RoundedCylinder(ctr, ra, rb, h)
			size := 2*ra + h
			p, q := c.around(ctr, size), c.around(ctr, size)
			switch c.Rng.Intn(6) {
			case 0:
				p = ctr.Add(vector3.New(0, (c.Rng.Float64()*2-1)*(h+2), 0)) // on the axis
				c.Note("rcyl.on_axis")
			case 1:
				p = ctr.Add(vector3.New(c.Rng.Float64()*ra, h+rb+c.Rng.Float64(), c.Rng.Float64()*ra)) // beyond the cap
				c.Note("rcyl.beyond_cap")
			}
			c.Emit("c19.rcyl", vF(ctr)+" "+Fs(ra, rb, h)+" "+vF(p), F(f(p)))
			c.Emit("c19.holds.rcyl", vF(ctr)+" "+Fs(ra, rb, h)+" "+vF(p)+" "+F(f(p)), "true")
			lip(f, p, q)
		}
		// set operations over spheres
		{
			kk := 1 + c.Rng.Intn(5)
			var fields []sample.Vec3ToFloat
			args := ""
			var cs []vector3.Float64
			for i := 0; i < kk; i++ {
				cc, r := ctr.Add(c.pt(2)), c.pos()
				cs = append(cs, cc)
				fields = append(fields, sdf.Sphere(cc, r))
				args += vF(cc) + " " + F(r) + " "
			}
			p, q := c.around(ctr, 3), c.around(ctr, 3)
			u, in := sdf.Union(fields...), sdf.Intersect(fields...)
			c.Emit("c19.union", itoa(kk)+" "+args+vF(p), F(u(p)))
			c.Emit("c19.intersect", itoa(kk)+" "+args+vF(p), F(in(p)))
			vals := ""
			for _, f := range fields {
				vals += " " + F(f(p))
			}
			c.Emit("c19.holds.setop", Fs(0, u(p))+vals, "true")
			c.Emit("c19.holds.setop", Fs(1, in(p))+vals, "true")
			lip(u, p, q)
			lip(in, p, q)
			c.Note("setop.k=" + itoa(kk))
			c1, r1, c2, r2 := ctr, c.pos()+0.5, ctr.Add(c.pt(1)), c.pos()
			s := sdf.Subtract(sdf.Sphere(c1, r1), sdf.Sphere(c2, r2))
			c.Emit("c19.subtract", vF(c1)+" "+F(r1)+" "+vF(c2)+" "+F(r2)+" "+vF(p), F(s(p)))
			c.Emit("c19.holds.setop", Fs(2, s(p), sdf.Sphere(c1, r1)(p), sdf.Sphere(c2, r2)(p)), "true")
			lip(s, p, q)
		}
	}
	// no operands: both panic
	c.Emit("c19.union", "0 "+vF(vector3.Zero[float64]()), Guard(func() string { return F(sdf.Union()(vector3.Zero[float64]())) }))
	c.Emit("c19.intersect", "0 "+vF(vector3.Zero[float64]()), Guard(func() string { return F(sdf.Intersect()(vector3.Zero[float64]())) }))
}
