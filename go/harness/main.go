// Engine H: correspondence harness.  Calls the real polyform packages
// in-process on inputs derived from one PRNG (VERIF_SEED) and writes, per case,
// one request line (cases file) and the implementation's canonical answer
// (impl file).  The Lean driver answers the same request lines from the model;
// /verif/check diffs the two streams.
//
// usage: harness <stream> -seed N -n K -out DIR   (streams: c17, ...)
package main

import (
	"bufio"
	"flag"
	"fmt"
	"math"
	"math/rand"
	"os"
	"path/filepath"
	"sort"
	"strings"
)

type Ctx struct {
	Rng   *rand.Rand
	N     int
	Tier  string
	cases *bufio.Writer
	impl  *bufio.Writer
	count int
	ops   map[string]int
	notes map[string]int
}

// Emit records one request and the implementation's answer.
func (c *Ctx) Emit(op string, args string, impl string) {
	fmt.Fprintf(c.cases, "%s %s\n", op, args)
	fmt.Fprintf(c.impl, "%s\n", impl)
	c.count++
	c.ops[op]++
}

// Note counts a generator event for the input-distribution report.
func (c *Ctx) Note(k string) { c.notes[k]++ }

func F(f float64) string { return fmt.Sprintf("%016x", math.Float64bits(f)) }

func Fs(fs ...float64) string {
	parts := make([]string, len(fs))
	for i, f := range fs {
		parts[i] = F(f)
	}
	return strings.Join(parts, " ")
}

func B(b bool) string {
	if b {
		return "true"
	}
	return "false"
}

// Guard runs f and maps a panic to the answer "panic".
func Guard(f func() string) (s string) {
	defer func() {
		if r := recover(); r != nil {
			s = "panic"
		}
	}()
	return f()
}

var streams = map[string]func(*Ctx){}

func main() {
	if len(os.Args) < 2 {
		fmt.Fprintln(os.Stderr, "usage: harness <stream> -seed N -n K -out DIR")
		os.Exit(2)
	}
	name := os.Args[1]
	fs := flag.NewFlagSet(name, flag.ExitOnError)
	seed := fs.Int64("seed", 0, "PRNG seed")
	n := fs.Int("n", 100, "number of generated cases (stream-specific unit)")
	out := fs.String("out", ".", "output directory")
	tier := fs.String("tier", "quick", "tier")
	fs.Parse(os.Args[2:])
	run, ok := streams[name]
	if !ok {
		fmt.Fprintln(os.Stderr, "unknown stream", name)
		os.Exit(2)
	}
	cf, err := os.Create(filepath.Join(*out, name+".cases"))
	if err != nil {
		panic(err)
	}
	imf, err := os.Create(filepath.Join(*out, name+".impl"))
	if err != nil {
		panic(err)
	}
	c := &Ctx{Rng: rand.New(rand.NewSource(*seed*7919 + 17)), N: *n, Tier: *tier,
		cases: bufio.NewWriter(cf), impl: bufio.NewWriter(imf), ops: map[string]int{}, notes: map[string]int{}}
	run(c)
	c.cases.Flush()
	c.impl.Flush()
	cf.Close()
	imf.Close()
	// distribution report on stdout (json-ish, consumed by check)
	keys := make([]string, 0, len(c.ops))
	for k := range c.ops {
		keys = append(keys, k)
	}
	sort.Strings(keys)
	fmt.Printf("{\"lines\": %d, \"ops\": {", c.count)
	for i, k := range keys {
		if i > 0 {
			fmt.Print(", ")
		}
		fmt.Printf("%q: %d", k, c.ops[k])
	}
	fmt.Print("}, \"notes\": {")
	keys = keys[:0]
	for k := range c.notes {
		keys = append(keys, k)
	}
	sort.Strings(keys)
	for i, k := range keys {
		if i > 0 {
			fmt.Print(", ")
		}
		fmt.Printf("%q: %d", k, c.notes[k])
	}
	fmt.Println("}}")
}
