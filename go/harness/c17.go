package main

import (
	"math"
	"strconv"
	"strings"

	"github.com/EliCDavis/polyform/math/geometry"
	"github.com/EliCDavis/polyform/math/mat"
	"github.com/EliCDavis/polyform/math/quaternion"
	"github.com/EliCDavis/polyform/math/trs"
	"github.com/EliCDavis/polyform/modeling"
	"github.com/EliCDavis/polyform/modeling/meshops"
	"github.com/EliCDavis/vector/vector3"
)

func init() { streams["c17"] = runC17 }




func (c *Ctx) mat4() mat.Matrix4x4 {
	if c.Rng.Intn(6) == 0 {
		// STRUCTURED matrices: where a special-case shortcut would sit — identity, identity plus a few entries
		// (any row, incl. the bottom one), diagonal, permutation-like, sparse, symmetric, affine
		var a [16]float64
		for i := 0; i < 4; i++ {
			a[5*i] = 1
		}
		switch c.Rng.Intn(6) {
		case 0: // identity with 1..3 extra off-diagonal entries anywhere
			for n := 1 + c.Rng.Intn(3); n > 0; n-- {
				i := c.Rng.Intn(16)
				if i%5 != 0 {
					a[i] = c.fl()
				}
			}
		case 1: // identity except the bottom row
			a[12], a[13], a[14] = c.fl(), c.fl(), c.fl()
			if c.Rng.Intn(2) == 0 {
				a[13], a[14] = 0, 0
			}
		case 2: // diagonal
			for i := 0; i < 4; i++ {
				a[5*i] = c.fl()
			}
		case 3: // affine: bottom row 0 0 0 1
			for i := 0; i < 12; i++ {
				a[i] = c.fl()
			}
		case 4: // symmetric
			for i := 0; i < 4; i++ {
				for j := i; j < 4; j++ {
					v := c.fl()
					a[4*i+j], a[4*j+i] = v, v
				}
			}
		default: // exact identity
		}
		c.Note("mat.structured")
		return mat.Matrix4x4{a[0], a[1], a[2], a[3], a[4], a[5], a[6], a[7], a[8], a[9], a[10], a[11], a[12], a[13], a[14], a[15]}
	}
	return mat.Matrix4x4{c.fl(), c.fl(), c.fl(), c.fl(), c.fl(), c.fl(), c.fl(), c.fl(), c.fl(), c.fl(), c.fl(), c.fl(), c.fl(), c.fl(), c.fl(), c.fl()}
}

func basisMat(i int) mat.Matrix4x4 {
	var a [16]float64
	a[i] = 1
	return mat.Matrix4x4{a[0], a[1], a[2], a[3], a[4], a[5], a[6], a[7], a[8], a[9], a[10], a[11], a[12], a[13], a[14], a[15]}
}

// NaN results (singular structured matrices) are compared as "a NaN": the model prints the canonical quiet NaN
// whatever sign/payload the hardware produced, so the implementation side is canonicalised the same way
func cn(x float64) float64 {
	if x != x {
		return math.Float64frombits(0x7ff8000000000000)
	}
	return x
}

func mF(m mat.Matrix4x4) string {
	return Fs(cn(m.X00), cn(m.X01), cn(m.X02), cn(m.X03), cn(m.X10), cn(m.X11), cn(m.X12), cn(m.X13), cn(m.X20), cn(m.X21), cn(m.X22), cn(m.X23), cn(m.X30), cn(m.X31), cn(m.X32), cn(m.X33))
}
func qF(q quaternion.Quaternion) string { return Fs(q.Dir().X(), q.Dir().Y(), q.Dir().Z(), q.W()) }
func bbF(b geometry.AABB) string {
	return vF(b.Center()) + " " + vF(b.Size().Scale(0.5))
}

// bbClass: like bbF, but every component as nan | +inf | -inf | bit pattern (sign / payload of a NaN is not compared)
func bbClass(b geometry.AABB) string {
	ext := b.Size().Scale(0.5)
	var parts []string
	for _, x := range []float64{b.Center().X(), b.Center().Y(), b.Center().Z(), ext.X(), ext.Y(), ext.Z()} {
		switch {
		case math.IsNaN(x):
			parts = append(parts, "nan")
		case math.IsInf(x, 1):
			parts = append(parts, "+inf")
		case math.IsInf(x, -1):
			parts = append(parts, "-inf")
		default:
			parts = append(parts, F(x))
		}
	}
	return strings.Join(parts, " ")
}

func (c *Ctx) quat() quaternion.Quaternion {
	return quaternion.New(c.v3(), c.fl())
}
func (c *Ctx) unitQuat() quaternion.Quaternion {
	return quaternion.FromTheta(c.Rng.Float64()*2*math.Pi, c.unit3())
}

func (c *Ctx) aabb() geometry.AABB {
	return geometry.NewAABB(c.v3(), vector3.New(math.Abs(c.fl()), math.Abs(c.fl()), math.Abs(c.fl())))
}

func runC17(c *Ctx) {
	// basis pairs first: a (bi)linear law that fails anywhere fails on a basis pair
	for i := 0; i < 16; i++ {
		for _, j := range []int{i, (i + 5) % 16, (i*7 + 3) % 16} {
			a, b := basisMat(i), basisMat(j)
			c.Emit("c17.mat.add", mF(a)+" "+mF(b), mF(a.Add(b)))
			c.Emit("c17.holds.add_entrywise", mF(a)+" "+mF(b)+" "+mF(a.Add(b)), "true")
			c.Emit("c17.mat.mul", mF(a)+" "+mF(b), mF(a.Multiply(b)))
			c.Emit("c17.holds.mul_row_col", mF(a)+" "+mF(b)+" "+mF(a.Multiply(b)), "true")
		}
	}
	// corpus: opposite and equal directions along the coordinate axes (the x axis needs the fallback axis)
	for _, d := range []vector3.Float64{vector3.New(1., 0., 0.), vector3.New(-1., 0., 0.), vector3.New(0., 1., 0.), vector3.New(0., -1., 0.), vector3.New(0., 0., 1.), vector3.New(0., 0., -1.)} {
		for _, e := range []vector3.Float64{d.Scale(-1), d} {
			c.Emit("c17.quat.rotationto", vF(d)+" "+vF(e), qF(quaternion.RotationTo(d, e)))
			c.Emit("c17.holds.rotation_to", vF(d)+" "+vF(e)+" "+vF(quaternion.RotationTo(d, e).Rotate(d)), "true")
		}
	}
	for k := 0; k < c.N; k++ {
		a, b := c.mat4(), c.mat4()
		c.Emit("c17.mat.add", mF(a)+" "+mF(b), mF(a.Add(b)))
		c.Emit("c17.holds.add_entrywise", mF(a)+" "+mF(b)+" "+mF(a.Add(b)), "true")
		c.Emit("c17.mat.mul", mF(a)+" "+mF(b), mF(a.Multiply(b)))
		c.Emit("c17.holds.mul_row_col", mF(a)+" "+mF(b)+" "+mF(a.Multiply(b)), "true")
		c.Emit("c17.mat.det", mF(a), F(a.Determinant()))
		c.Emit("c17.mat.inv", mF(a), mF(a.Inverse()))
		p := c.v3()
		c.Emit("c17.mat.mulpos", mF(a)+" "+vF(p), vF(a.MulPosition(p)))
		c.Emit("c17.holds.mulpos", mF(a)+" "+vF(p)+" "+vF(a.MulPosition(p)), "true")
		// well-conditioned matrix for the inverse law: identity + small perturbation, scaled
		w := mat.Identity()
		pert := c.mat4()
		s := 0.02
		w = mat.Matrix4x4{
			w.X00 + s*math.Tanh(pert.X00), s * math.Tanh(pert.X01), s * math.Tanh(pert.X02), c.fl(),
			s * math.Tanh(pert.X10), w.X11 + s*math.Tanh(pert.X11), s * math.Tanh(pert.X12), c.fl(),
			s * math.Tanh(pert.X20), s * math.Tanh(pert.X21), w.X22 + s*math.Tanh(pert.X22), c.fl(),
			0, 0, 0, 1}
		c.Emit("c17.holds.mul_inv", mF(w)+" "+mF(w.Inverse()), "true")
		// the same at other SCALES (unit conversions mm↔m…): a well-conditioned matrix whose determinant is tiny or huge
		{
			g := []float64{1e-4, 1e-3, 5e-3, 1e-2, 0.1, 10, 100, 1e3}[c.Rng.Intn(8)]
			ws := mat.Matrix4x4{
				w.X00 * g, w.X01 * g, w.X02 * g, w.X03,
				w.X10 * g, w.X11 * g, w.X12 * g, w.X13,
				w.X20 * g, w.X21 * g, w.X22 * g, w.X23,
				0, 0, 0, 1}
			c.Emit("c17.mat.inv", mF(ws), mF(ws.Inverse()))
			c.Emit("c17.holds.mul_inv", mF(ws)+" "+mF(ws.Inverse()), "true")
			c.Note("mat.scaled_inverse")
		}

		q1, q2, v := c.quat(), c.quat(), c.v3()
		c.Emit("c17.quat.rotate", qF(q1)+" "+vF(v), vF(q1.Rotate(v)))
		c.Emit("c17.quat.mul", qF(q1)+" "+qF(q2), qF(q1.Multiply(q2)))
		c.Emit("c17.quat.normalize", qF(q1), qF(q1.Normalize()))
		u1, u2 := c.unitQuat(), c.unitQuat()
		sv := vector3.New(c.Rng.Float64()*4-2, c.Rng.Float64()*4-2, c.Rng.Float64()*4-2)
		c.Emit("c17.holds.rotate_norm", qF(u1)+" "+vF(sv)+" "+vF(u1.Rotate(sv)), "true")
		c.Emit("c17.holds.rotate_mul", vF(u1.Multiply(u2).Rotate(sv))+" "+vF(u1.Rotate(u2.Rotate(sv))), "true")
		theta, ax := c.Rng.Float64()*8-4, c.v3()
		if ax.Length() > 1e-6 {
			c.Emit("c17.quat.fromtheta", F(theta)+" "+vF(ax), qF(quaternion.FromTheta(theta, ax)))
		}
		da, db := c.unit3(), c.unit3()
		switch c.Rng.Intn(8) {
		case 0:
			db = da
			c.Note("rotationto.parallel")
		case 1:
			db = da.Scale(-1)
			c.Note("rotationto.antiparallel")
		case 2, 3:
			// nearly (anti)parallel: a small angle on a log scale from 1e-5 to 0.3 rad, either side of the snap threshold
			ang := math.Pow(10, -5+c.Rng.Float64()*4.5)
			perp := da.Cross(c.unit3())
			if perp.Length() > 1e-3 {
				perp = perp.Normalized()
				db = da.Scale(math.Cos(ang)).Add(perp.Scale(math.Sin(ang))).Normalized()
				if c.Rng.Intn(2) == 0 {
					db = db.Scale(-1)
					c.Note("rotationto.near_antiparallel")
				} else {
					c.Note("rotationto.near_parallel")
				}
			}
		default:
			c.Note("rotationto.generic")
		}
		c.Emit("c17.quat.rotationto", vF(da)+" "+vF(db), qF(quaternion.RotationTo(da, db)))
		c.Emit("c17.holds.rotation_to", vF(da)+" "+vF(db)+" "+vF(quaternion.RotationTo(da, db).Rotate(da)), "true")

		tp, ts := c.v3(), c.v3()
		t := trs.New(tp, u1, ts)
		c.Emit("c17.trs.transform", vF(tp)+" "+qF(u1)+" "+vF(ts)+" "+vF(v), vF(t.Transform(v)))
		c.Emit("c17.holds.trs", vF(tp)+" "+qF(u1)+" "+vF(ts)+" "+vF(v)+" "+vF(t.Transform(v)), "true")

		bb, bb2, pt := c.aabb(), c.aabb(), c.v3()
		e := bb
		e.EncapsulatePoint(pt)
		c.Emit("c17.aabb.encpoint", bbF(bb)+" "+vF(pt), bbF(e))
		c.Emit("c17.holds.aabb_contains", bbF(e)+" "+vF(pt), "true")
		e2 := bb
		e2.EncapsulateBounds(bb2)
		c.Emit("c17.aabb.encbounds", bbF(bb)+" "+bbF(bb2), bbF(e2))
		c.Emit("c17.holds.aabb_contains", bbF(e2)+" "+vF(bb2.Min()), "true")
		c.Emit("c17.holds.aabb_contains", bbF(e2)+" "+vF(bb2.Max()), "true")
		c.Emit("c17.holds.aabb_contains", bbF(e2)+" "+vF(bb.Max()), "true")
		c.Emit("c17.aabb.closest", bbF(bb)+" "+vF(pt), vF(bb.ClosestPoint(pt)))
		c.Emit("c17.holds.aabb_contains", bbF(bb)+" "+vF(bb.ClosestPoint(pt)), "true")
		c.Emit("c17.aabb.contains", bbF(bb)+" "+vF(pt), B(bb.Contains(pt)))
		c.Emit("c17.aabb.contains", bbF(e)+" "+vF(pt), B(e.Contains(pt)))
		c.Emit("c17.aabb.intersects", bbF(bb)+" "+bbF(bb2), B(bb.Intersects(bb2)))
		// Props/C17More.lean: Intersects iff a shared point; Expand; Volume; ClosestPoint is the NEAREST box point
		{
			r := 0.
			if bb.Intersects(bb2) {
				r = 1
			}
			c.Emit("c17.holds.intersects", bbF(bb)+" "+bbF(bb2)+" "+F(r), "true")
			// a box touching / just missing bb along one axis
			tb := geometry.NewAABB(bb.Center().Add(vector3.New(bb.Size().X(), 0., 0.)), bb.Size())
			if c.Rng.Intn(2) == 0 {
				tb = geometry.NewAABB(bb.Center().Add(vector3.New(bb.Size().X()*1.5, 0., 0.)), bb.Size().Scale(0.5))
			}
			r = 0
			if bb.Intersects(tb) {
				r = 1
			}
			c.Emit("c17.aabb.intersects", bbF(bb)+" "+bbF(tb), B(bb.Intersects(tb)))
			c.Emit("c17.holds.intersects", bbF(bb)+" "+bbF(tb)+" "+F(r), "true")
			amount := c.Rng.Float64() * 3
			ex := bb
			ex.Expand(amount)
			c.Emit("c17.aabb.expand", bbF(bb)+" "+F(amount), bbF(ex))
			c.Emit("c17.holds.aabb_contains", bbF(ex)+" "+vF(bb.Min()), "true")
			c.Emit("c17.holds.aabb_contains", bbF(ex)+" "+vF(bb.Max()), "true")
			c.Emit("c17.aabb.volume", bbF(bb), F(bb.Volume()))
			cp := bb.ClosestPoint(pt)
			for i := 0; i < 3; i++ {
				// a point of the box: convex combination of min and max per axis
				mn, mx := bb.Min(), bb.Max()
				q := vector3.New(mn.X()+(mx.X()-mn.X())*c.Rng.Float64(), mn.Y()+(mx.Y()-mn.Y())*c.Rng.Float64(), mn.Z()+(mx.Z()-mn.Z())*c.Rng.Float64())
				if i == 0 {
					q = vector3.New(mn.X(), mx.Y(), mn.Z()) // a corner
				}
				if bb.Contains(q) {
					c.Emit("c17.holds.closest_nearest", bbF(bb)+" "+vF(pt)+" "+vF(cp)+" "+vF(q), "true")
				}
			}
		}
		// Props/C17More.lean: FromTheta is the rotation by θ about the axis; TRS constructors; MatFromDirs
		if ax.Length() > 1e-6 {
			c.Emit("c17.holds.rodrigues", F(theta)+" "+vF(ax)+" "+vF(sv)+" "+vF(quaternion.FromTheta(theta, ax).Rotate(sv)), "true")
			c.Emit("c17.holds.rodrigues", F(theta)+" "+vF(ax)+" "+vF(ax)+" "+vF(quaternion.FromTheta(theta, ax).Rotate(ax)), "true")
		}
		{
			d := c.v3()
			c.Emit("c17.trs.ctor", F(0)+" "+vF(tp)+" "+vF(v), vF(trs.Position(tp).Transform(v)))
			c.Emit("c17.holds.trs_ctor", F(0)+" "+vF(tp)+" "+vF(v)+" "+vF(trs.Position(tp).Transform(v)), "true")
			c.Emit("c17.trs.ctor", F(1)+" "+vF(ts)+" "+vF(v), vF(trs.Scale(ts).Transform(v)))
			c.Emit("c17.holds.trs_ctor", F(1)+" "+vF(ts)+" "+vF(v)+" "+vF(trs.Scale(ts).Transform(v)), "true")
			c.Emit("c17.trs.ctor", F(2)+" "+qF(u1)+" "+vF(v), vF(trs.Rotation(u1).Transform(v)))
			c.Emit("c17.holds.trs_ctor", F(2)+" "+qF(u1)+" "+vF(v)+" "+vF(trs.Rotation(u1).Transform(v)), "true")
			c.Emit("c17.trs.ctor", F(3)+" "+vF(tp)+" "+qF(u1)+" "+vF(ts)+" "+vF(d)+" "+vF(v), vF(t.Translate(d).Transform(v)))
			c.Emit("c17.holds.trs_ctor", F(3)+" "+vF(tp)+" "+qF(u1)+" "+vF(ts)+" "+vF(d)+" "+vF(v)+" "+vF(t.Translate(d).Transform(v)), "true")
			up, fwd, off := c.unit3(), c.v3(), c.v3()
			c.Emit("c17.mat.fromdirs", vF(up)+" "+vF(fwd)+" "+vF(off), mF(mat.MatFromDirs(up, fwd, off)))
			if up.Cross(fwd).Length() > 1e-3 {
				c.Emit("c17.holds.fromdirs_frame", vF(up)+" "+vF(fwd)+" "+vF(off)+" "+mF(mat.MatFromDirs(up, fwd, off)), "true")
			}
		}
		// mesh level
		{
			n := 1 + c.Rng.Intn(6)
			if k%100 == 3 && k < 1000 {
				// sizes around internal batch sizes (a batched / parallel rewrite of a mesh-level loop shows only there)
				n = []int{4097, 256, 1025, 8193, 255, 4096, 257, 1023, 1024, 4095}[(k/100)%10]
				c.Note("mesh.large")
			}
			pts := make([]vector3.Float64, n)
			args := ""
			for i := range pts {
				pts[i] = c.v3()
				args += " " + vF(pts[i])
			}
			idx := make([]int, 0)
			for i := 0; i+2 < n; i++ {
				idx = append(idx, i, i+1, i+2)
			}
			m := modeling.NewTriangleMesh(idx).SetFloat3Attribute(modeling.PositionAttribute, pts)
			out := func(r modeling.Mesh) string {
				s := ""
				it := r.Float3Attribute(modeling.PositionAttribute)
				for i := 0; i < it.Len(); i++ {
					if i > 0 {
						s += " "
					}
					s += vF(it.At(i))
				}
				return s
			}
			outArr := func(a []vector3.Float64) string {
				s := ""
				for i, v := range a {
					if i > 0 {
						s += " "
					}
					s += vF(v)
				}
				return s
			}
			nS := F(float64(n))
			// every public path that maps a transform over positions must be the pointwise image
			c.Emit("c17.holds.pointwise", Fs(0)+" "+qF(u1)+" "+nS+args+" "+out(m.Rotate(u1)), "true")
			c.Emit("c17.holds.pointwise", Fs(0)+" "+qF(u1)+" "+nS+args+" "+outArr(u1.RotateArray(pts)), "true")
			c.Emit("c17.holds.pointwise", Fs(1)+" "+vF(tp)+" "+nS+args+" "+out(m.Translate(tp)), "true")
			c.Emit("c17.holds.pointwise", Fs(2)+" "+vF(ts)+" "+nS+args+" "+out(m.Scale(ts)), "true")
			trsArgs := vF(tp) + " " + qF(u1) + " " + vF(ts)
			c.Emit("c17.holds.pointwise", Fs(3)+" "+trsArgs+" "+nS+args+" "+out(m.ApplyTRS(t)), "true")
			c.Emit("c17.holds.pointwise", Fs(3)+" "+trsArgs+" "+nS+args+" "+outArr(t.TransformArray(pts)), "true")
			inPlace := append([]vector3.Float64{}, pts...)
			t.TransformInPlace(inPlace)
			c.Emit("c17.holds.pointwise", Fs(3)+" "+trsArgs+" "+nS+args+" "+outArr(inPlace), "true")
			// special TRS values: exactly-identity rotation with a non-unit scale, position only, rotation only,
			// unit scale — the places where a shortcut would go
			id := quaternion.Identity()
			one := vector3.New(1., 1., 1.)
			zero := vector3.New(0., 0., 0.)
			for _, sp := range []struct {
				t       trs.TRS
				p, s    vector3.Float64
				r       quaternion.Quaternion
				comment string
			}{
				{trs.Scale(ts), zero, ts, id, "scale-only"},
				{trs.New(tp, id, ts), tp, ts, id, "identity-rotation"},
				{trs.Position(tp), tp, one, id, "position-only"},
				{trs.Rotation(u1), zero, one, u1, "rotation-only"},
				{trs.New(tp, u1, one), tp, one, u1, "unit-scale"},
			} {
				a := vF(sp.p) + " " + qF(sp.r) + " " + vF(sp.s)
				c.Emit("c17.holds.pointwise", Fs(3)+" "+a+" "+nS+args+" "+out(m.ApplyTRS(sp.t)), "true")
				c.Emit("c17.holds.pointwise", Fs(3)+" "+a+" "+nS+args+" "+outArr(sp.t.TransformArray(pts)), "true")
				ip := append([]vector3.Float64{}, pts...)
				sp.t.TransformInPlace(ip)
				c.Emit("c17.holds.pointwise", Fs(3)+" "+a+" "+nS+args+" "+outArr(ip), "true")
				c.Emit("c17.mesh.applytrs", a+args, out(m.ApplyTRS(sp.t)))
				c.Note("trs." + sp.comment)
			}
			c.Emit("c17.trs.array", trsArgs+args, outArr(t.TransformArray(pts)))
			{
				ip2 := append([]vector3.Float64{}, pts...)
				t.TransformInPlace(ip2)
				c.Emit("c17.trs.inplace", trsArgs+args, outArr(ip2))
			}
			fp := geometry.NewAABBFromPoints(pts...)
			c.Emit("c17.aabb.frompoints", strings.TrimSpace(args), bbF(fp))
			c.Emit("c17.aabb.frompoints_class", strings.TrimSpace(args), bbClass(fp))
			if k%50 == 7 {
				// the empty list: the loop body never runs, the box is built from the ±Inf start values
				// (centre = -Inf*0.5 + +Inf = NaN, extents = -Inf); and a list with an infinite coordinate
				c.Emit("c17.aabb.frompoints_class", "", bbClass(geometry.NewAABBFromPoints()))
				ip := append([]vector3.Float64{}, pts...)
				ip[0] = vector3.New(math.Inf(1), pts[0].Y(), math.Inf(-1))
				ia := ""
				for _, v := range ip {
					ia += " " + vF(v)
				}
				c.Emit("c17.aabb.frompoints_class", strings.TrimSpace(ia), bbClass(geometry.NewAABBFromPoints(ip...)))
				c.Note("frompoints.empty+inf")
			}
			for _, q := range pts {
				c.Emit("c17.holds.aabb_contains", bbF(fp)+" "+vF(q), "true")
			}
			c.Emit("c17.mesh.rotate", qF(u1)+args, out(m.Rotate(u1)))
			c.Emit("c17.mesh.translate", vF(tp)+args, out(m.Translate(tp)))
			c.Emit("c17.mesh.scale", vF(ts)+args, out(m.Scale(ts)))
			c.Emit("c17.mesh.applytrs", vF(tp)+" "+qF(u1)+" "+vF(ts)+args, out(m.ApplyTRS(t)))
			c.Emit("c17.quat.rotatearray", qF(u1)+args, outArr(u1.RotateArray(pts)))
			// meshops transforms on a mesh with Position AND Normal, on either attribute or on one the mesh does not have:
			// the answer is the WHOLE result mesh (both attributes, indices, topology, number of other attributes) or panic
			{
				nrm := make([]vector3.Float64, n)
				nargs := ""
				for i := range nrm {
					nrm[i] = c.v3()
					nargs += " " + vF(nrm[i])
				}
				m2 := m.SetFloat3Attribute(modeling.NormalAttribute, nrm)
				meshOut := func(r modeling.Mesh) string {
					var sb []string
					for _, a := range []string{modeling.PositionAttribute, modeling.NormalAttribute} {
						if r.HasFloat3Attribute(a) {
							it := r.Float3Attribute(a)
							for i := 0; i < it.Len(); i++ {
								sb = append(sb, vF(it.At(i)))
							}
						} else {
							sb = append(sb, "-")
						}
						sb = append(sb, "|")
					}
					ix := r.Indices()
					for i := 0; i < ix.Len(); i++ {
						sb = append(sb, strconv.Itoa(ix.At(i)))
					}
					others := len(r.Float1Attributes()) + len(r.Float2Attributes()) + len(r.Float4Attributes())
					sb = append(sb, "|", strconv.Itoa(int(r.Topology())), strconv.Itoa(others))
					return strings.Join(sb, " ")
				}
				sels := []int{0, 1, 2}
				if n > 100 {
					sels = []int{1}
				}
				// the implementation's result in floats, for the oracle: panicked | hasPosition [values] hasNormal [values] #idx idx… topology #others
				meshEnc := func(f func() modeling.Mesh) string {
					var r modeling.Mesh
					panicked := false
					func() {
						defer func() {
							if recover() != nil {
								panicked = true
							}
						}()
						r = f()
					}()
					if panicked {
						return Fs(1)
					}
					sb := []string{Fs(0)}
					for _, a := range []string{modeling.PositionAttribute, modeling.NormalAttribute} {
						if r.HasFloat3Attribute(a) {
							sb = append(sb, Fs(1))
							it := r.Float3Attribute(a)
							if it.Len() != n {
								return Fs(2) // wrong length: malformed for the oracle -> false
							}
							for i := 0; i < it.Len(); i++ {
								sb = append(sb, vF(it.At(i)))
							}
						} else {
							sb = append(sb, Fs(0))
						}
					}
					ix := r.Indices()
					sb = append(sb, Fs(float64(ix.Len())))
					for i := 0; i < ix.Len(); i++ {
						sb = append(sb, Fs(float64(ix.At(i))))
					}
					others := len(r.Float1Attributes()) + len(r.Float2Attributes()) + len(r.Float4Attributes())
					sb = append(sb, Fs(float64(int(r.Topology())), float64(others)))
					return strings.Join(sb, " ")
				}
				for _, sel := range sels {
					attr := []string{modeling.PositionAttribute, modeling.NormalAttribute, "Missing"}[sel]
					tail := " " + nS + args + nargs
					ops := []struct {
						head string
						f    func() modeling.Mesh
					}{
						{Fs(0, float64(sel)) + " " + qF(u1), func() modeling.Mesh { return meshops.RotateAttribute3D(m2, attr, u1) }},
						{Fs(1, float64(sel)) + " " + vF(tp), func() modeling.Mesh { return meshops.TranslateAttribute3D(m2, attr, tp) }},
						{Fs(2, float64(sel)) + " " + vF(tp) + " " + vF(ts), func() modeling.Mesh { return meshops.ScaleAttribute3D(m2, attr, tp, ts) }},
					}
					for _, o := range ops {
						c.Emit("c17.meshop", o.head+tail, Guard(func() string { return meshOut(o.f()) }))
						// oracle: MovesPointwise / OnlyV3Changed (Props/C17Mesh.lean) evaluated on the implementation's own result
						c.Emit("c17.holds.meshop", o.head+tail+" "+meshEnc(o.f), "true")
					}
					c.Note("meshop." + attr)
				}
			}
		}
		la, lb := c.v3(), c.v3()
		if la.Distance(lb) > 1e-6 {
			c.Emit("c17.line.closest", vF(la)+" "+vF(lb)+" "+vF(pt), vF(geometry.NewLine3D(la, lb).ClosestPointOnLine(pt)))
		}
		c17History(c)
		c17History(c)
	}
}
