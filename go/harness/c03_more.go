// Round 2: C03 emitter for the operations of util_mesh_more.go (complete result mesh vs the model of
// lean/PolyVerif/Model/MeshMore.lean, frame oracle; crop goes through emitOp03: crop_contract on every cloud).
package main

import (
	"strings"

	"github.com/EliCDavis/polyform/modeling"
)

func (c *Ctx) emitMore03(r opRun, m modeling.Mesh, _ bool) {
	if r.name == "crop" {
		c.emitOp03(r, m) // op line, crop_spec on identity clouds, crop_contract always
		return
	}
	c.Emit("c03.op."+r.name, r.args, r.answer(meshStr))
	if r.status != "" {
		c.Note("op-" + r.status + ":" + r.name)
		return
	}
	c.Note("op-ok:" + r.name)
	in, out := meshStr(m), meshStr(r.out[0])
	f := strings.Fields(r.args)
	switch r.name {
	case "scalealongnormal":
		c.Emit("c03.holds.frame_spec", "3 "+f[0]+" "+in+" "+out, "true")
	case "scale2d", "normalize2d":
		c.Emit("c03.holds.frame_spec", "2 "+f[0]+" "+in+" "+out, "true")
	case "copyattr":
		c.Emit("c03.holds.frame_spec", f[0]+" "+f[1]+" "+in+" "+out, "true")
	case "cropnode":
		if f[1] == "-" { // no box wired: the mesh itself
			c.Emit("c03.holds.same_mesh", in+" "+out, "true")
		} else {
			a := f[0]
			if a == "-" {
				a = modeling.PositionAttribute
			}
			c.Emit("c03.holds.crop_contract", a+" "+strings.Join(f[1:7], " ")+" "+in+" "+out, "true")
		}
	case "vertexcolorspace", "vertexcolorspacet":
		c.Emit("c03.holds.frame_spec", "3 "+f[0]+" "+in+" "+out, "true")
	case "translatenode", "scalenode":
		a := f[0]
		if a == "-" {
			a = modeling.PositionAttribute
		}
		c.Emit("c03.holds.frame_spec", "3 "+a+" "+in+" "+out, "true")
	case "rotatenode": // args: attr|- qx qy qz qw mesh|-
		if f[5] != "-" {
			a := f[0]
			if a == "-" {
				a = modeling.PositionAttribute
			}
			c.Emit("c03.holds.frame_spec", "3 "+a+" "+in+" "+out, "true")
		}
	case "alongnormalnode":
		if f[3] != "-" && len(r.out[0].Float3Attributes()) > 0 {
			a := f[0]
			if a == "-" {
				a = modeling.PositionAttribute
			}
			c.Emit("c03.holds.frame_spec", "3 "+a+" "+in+" "+out, "true")
		}
	}
}
