package main

// C10, stream "c10m": marching canvas.  AddFieldParallel / AddFieldParallel2 against AddField, MarchParallel against
// March, on fields spanning 1..8 storage blocks (blocks are 100 cells wide), including negative block coordinates,
// several fields accumulated on one canvas, and asymmetric shapes (so that an axis swap is visible).
//
// Two families of fields:
//   "l1"   octahedra |x-cx|+|y-cy|+|z-cz| - r with dyadic centre/radius and power-of-two cubesPerUnit: every sample,
//          every interpolation and the final scaling are exact, welded vertices are bit-identical whatever the block
//          order, so triangles are compared as exact position triples (hex);
//   "sdf"  anisotropic ellipsoid-like smooth field (sqrt): triangles are compared as triples of weld cells
//          (modeling.Vector3ToInt(p, 3), the quantisation March itself welds with), which is what the output determines
//          independently of block completion order.
// Oracle lines: c10.holds.same_tri_multiset (theorem predicate: equal multisets), c10.holds.same_output (sample multisets).

import (
	"fmt"
	"math"
	"sort"
	"strings"
	"sync"

	"github.com/EliCDavis/polyform/math/geometry"
	"github.com/EliCDavis/polyform/math/sample"
	"github.com/EliCDavis/polyform/modeling"
	"github.com/EliCDavis/polyform/modeling/marching"
	"github.com/EliCDavis/vector/vector3"
)

func init() { streams["c10m"] = runC10M }

type c10Shape struct {
	kind       string // l1 | sdf
	cx, cy, cz float64
	r          float64
	ax, ay, az float64 // axis scales (asymmetry)
}

type c10Sampler struct {
	mu   sync.Mutex
	seen []string
	on   bool
}

func (s *c10Sampler) wrap(f sample.Vec3ToFloat) sample.Vec3ToFloat {
	return func(p vector3.Float64) float64 {
		if s.on {
			s.mu.Lock()
			s.seen = append(s.seen, F(p.X())+","+F(p.Y())+","+F(p.Z()))
			s.mu.Unlock()
		}
		return f(p)
	}
}

func (sh c10Shape) field(s *c10Sampler, h float64) marching.Field {
	var f sample.Vec3ToFloat
	switch sh.kind {
	case "l1":
		f = func(p vector3.Float64) float64 {
			return math.Abs(p.X()-sh.cx)*sh.ax + math.Abs(p.Y()-sh.cy)*sh.ay + math.Abs(p.Z()-sh.cz)*sh.az - sh.r
		}
	default:
		f = func(p vector3.Float64) float64 {
			dx, dy, dz := (p.X()-sh.cx)*sh.ax, (p.Y()-sh.cy)*sh.ay, (p.Z()-sh.cz)*sh.az
			return math.Sqrt(dx*dx+dy*dy+dz*dz) - sh.r
		}
	}
	// domain: the shape plus one cell of margin on each side
	ext := vector3.New((sh.r/sh.ax+h)*2, (sh.r/sh.ay+h)*2, (sh.r/sh.az+h)*2)
	return marching.Field{
		Domain:          geometry.NewAABB(vector3.New(sh.cx, sh.cy, sh.cz), ext),
		Float1Functions: map[string]sample.Vec3ToFloat{modeling.PositionAttribute: s.wrap(f)},
	}
}

// triangles of a mesh as tokens "x1,y1,z1,...,z3": exact hex positions, or weld cells
func c10Tris(m modeling.Mesh, exact bool) []string {
	if m.PrimitiveCount() == 0 || !m.HasFloat3Attribute(modeling.PositionAttribute) {
		return nil
	}
	pos := m.Float3Attribute(modeling.PositionAttribute)
	idx := m.Indices()
	out := make([]string, 0, idx.Len()/3)
	for t := 0; t+2 < idx.Len(); t += 3 {
		parts := make([]string, 0, 9)
		for k := 0; k < 3; k++ {
			p := pos.At(idx.At(t + k))
			if exact {
				parts = append(parts, F(p.X()), F(p.Y()), F(p.Z()))
			} else {
				q := modeling.Vector3ToInt(p, 3)
				parts = append(parts, fmt.Sprint(q.X), fmt.Sprint(q.Y), fmt.Sprint(q.Z))
			}
		}
		out = append(out, strings.Join(parts, ","))
	}
	sort.Strings(out)
	return out
}

func c10SameTris(c *Ctx, what string, a, b []string) {
	c.Emit("c10.holds.same_tri_multiset", strings.TrimSpace(fmt.Sprintf("%s %d %d %s %s", what, len(a), len(b), strings.Join(a, " "), strings.Join(b, " "))), "true")
}

func c10March(cv *marching.MarchingCanvas, cutoff float64, parallel bool) (m modeling.Mesh, res string) {
	res = Guard(func() string {
		if parallel {
			m = cv.MarchParallel(cutoff)
		} else {
			m = cv.March(cutoff)
		}
		return "ok"
	})
	return
}

// one canvas case: the shapes are added one after the other with each of the three AddField variants on three canvases
func (c *Ctx) c10Canvas(label string, cpu float64, shapes []c10Shape, cutoff float64) {
	h := 1 / cpu
	exact := true
	for _, sh := range shapes {
		if sh.kind != "l1" {
			exact = false
		}
	}
	type variant struct {
		name string
		add  func(cv *marching.MarchingCanvas, f marching.Field)
	}
	variants := []variant{
		{"AddField", func(cv *marching.MarchingCanvas, f marching.Field) { cv.AddField(f) }},
		{"AddFieldParallel", func(cv *marching.MarchingCanvas, f marching.Field) { cv.AddFieldParallel(f) }},
		{"AddFieldParallel2", func(cv *marching.MarchingCanvas, f marching.Field) { cv.AddFieldParallel2(f) }},
	}
	var seqTris []string
	var seqSamples []string
	var seqCanvas *marching.MarchingCanvas
	blocks := map[[3]int]bool{}
	for vi, v := range variants {
		cv := marching.NewMarchingCanvas(cpu)
		smp := &c10Sampler{on: true}
		res := Guard(func() string {
			for _, sh := range shapes {
				v.add(cv, sh.field(smp, h))
			}
			return "ok"
		})
		smp.on = false
		sort.Strings(smp.seen)
		if vi == 0 {
			if res != "ok" {
				panic("sequential AddField panicked on a generated case: " + label)
			}
			seqSamples = smp.seen
			seqCanvas = cv
			for _, s := range smp.seen {
				var bx [3]int
				for k, t := range strings.Split(s, ",") {
					var bits uint64
					fmt.Sscanf(t, "%x", &bits)
					bx[k] = int(math.Floor(math.Float64frombits(bits) * cpu / 100))
				}
				blocks[bx] = true
			}
			c.Note(fmt.Sprintf("blocks=%d", len(blocks)))
			c.Note("family=" + map[bool]string{true: "l1-exact", false: "sdf-cells"}[exact])
			m, r := c10March(cv, cutoff, false)
			if r != "ok" {
				panic("sequential March panicked on a generated case: " + label)
			}
			seqTris = c10Tris(m, exact)
			if len(seqTris) == 0 {
				c.Note("empty-surface")
			}
			c.Note(fmt.Sprintf("tris<=%d", 1<<bitsLen(len(seqTris))))
			continue
		}
		if res != "ok" {
			c.Emit("c10.holds.same_output", fmt.Sprintf("1 ok %s", res), "true") // parallel variant panicked: not the sequential result
			continue
		}
		// every sample of the padded domain taken exactly once, at the same position
		if len(seqSamples) <= 6000 {
			c10SameOutput(c, seqSamples, smp.seen)
		} else {
			// large domains: compare through the marched surface only (still sample-for-sample on what reaches the cells)
			c.Note("samples-not-listed")
		}
		m, r := c10March(cv, cutoff, false)
		if r != "ok" {
			c.Emit("c10.holds.same_output", "1 ok panic", "true")
			continue
		}
		c10SameTris(c, label+"/"+v.name+"+March", seqTris, c10Tris(m, exact))
	}
	// parallel marching of the sequentially built canvas
	m, r := c10March(seqCanvas, cutoff, true)
	if r != "ok" {
		c.Emit("c10.holds.same_output", "1 ok panic", "true")
	} else {
		c10SameTris(c, label+"/AddField+MarchParallel", seqTris, c10Tris(m, exact))
	}
}

func bitsLen(n int) int {
	k := 0
	for n > 0 {
		n >>= 1
		k++
	}
	return k
}

func runC10M(c *Ctx) {
	// centres in CELL coordinates; world = cell / cpu.  Blocks are [100k, 100k+100).
	type place struct {
		label   string
		x, y, z float64
	}
	places := []place{
		{"1block", 50, 40, 60},
		{"2blocks-x", 100, 40, 60},
		{"2blocks-z", 30, 40, 200},
		{"4blocks-xy", 100, 100, 50},
		{"8blocks-corner", 100, 100, 100},
		{"8blocks-origin", 0, 0, 0},
		{"4blocks-neg", -100, 30, -200},
		{"1block-neg", -150, -250, -50},
	}
	cpus := []float64{1, 2, 4}
	pick := func(i int) (place, float64) { return places[i%len(places)], cpus[c.Rng.Intn(len(cpus))] }
	mk := func(kind string, p place, cpu float64) c10Shape {
		r := float64(2+c.Rng.Intn(4)) + float64(c.Rng.Intn(4))/4 // radius in cells, multiple of 1/4
		off := func() float64 { return float64(c.Rng.Intn(5)-2) / 4 }
		sh := c10Shape{kind: kind, cx: (p.x + off()) / cpu, cy: (p.y + off()) / cpu, cz: (p.z + off()) / cpu, r: r / cpu, ax: 1, ay: 1, az: 1}
		// asymmetric: squash one axis by 2 (still exact)
		switch c.Rng.Intn(4) {
		case 0:
			sh.ax = 2
		case 1:
			sh.ay = 2
		case 2:
			sh.az = 2
		}
		if kind == "sdf" {
			sh.cx += 0.013
			sh.cy -= 0.007
			sh.r += 0.011
		}
		return sh
	}
	n := c.N
	for k := 0; k < n; k++ {
		p, cpu := pick(k + int(c.Rng.Int31n(2))*0)
		kind := "l1"
		if k%3 == 2 {
			kind = "sdf"
		}
		shapes := []c10Shape{mk(kind, p, cpu)}
		label := fmt.Sprintf("%s/cpu%g/%s", p.label, cpu, kind)
		if k%4 == 3 {
			// a second field on the same canvas: overlapping (accumulates) or in other blocks
			q := places[c.Rng.Intn(len(places))]
			if c.Rng.Intn(2) == 0 {
				q = p
			}
			shapes = append(shapes, mk(kind, q, cpu))
			label += "+" + q.label
			c.Note("two-fields")
		}
		// an elongated box-like octahedron so that x/y/z are not interchangeable is already ensured by ax/ay/az
		c.c10Canvas(label, cpu, shapes, 0)
	}
}

// Stream "c10r": the workload of the race-detector build (go/harness/race_c10.sh).  Every parallel entry point once more:
// the mesh scans / modifies on the fixed edge pairs, the three AddField variants on fields spanning 8, 4 and 2 blocks (block
// allocation under chunkMutex while other workers read the block list), and MarchParallel on the smallest of them.
// Only the race detector's report matters; lines are emitted as usual so the run can also be diffed by hand.
func runC10R(c *Ctx) {
	for _, p := range [][2]int{{10, 3}, {0, 4}, {3, 7}, {64, 17}, {33, 16}, {2, 2}, {63, 5}} {
		c.c10Pair(p[0], p[1])
	}
	for _, size := range []int{2, 4} {
		c.c10EmptyStrip(size)
	}
	type place struct{ x, y, z float64 }
	places := []place{{100, 100, 100}, {0, 0, 0}, {100, 100, 50}, {100, 40, 60}}
	for k := 0; k < c.N; k++ {
		for pi, p := range places {
			sh := c10Shape{kind: "l1", cx: p.x, cy: p.y, cz: p.z, r: 3, ax: 1, ay: 2, az: 1}
			smp := &c10Sampler{on: true}
			for _, par2 := range []bool{false, true} {
				cv := marching.NewMarchingCanvas(1)
				f := sh.field(smp, 1)
				res := Guard(func() string {
					if par2 {
						cv.AddFieldParallel2(f)
					} else {
						cv.AddFieldParallel(f)
					}
					return "ok"
				})
				c.Note("race-addfield-" + res)
				if pi == len(places)-1 && !par2 && k == 0 {
					smp.on = false
					_, r := c10March(cv, 0, true)
					c.Note("race-marchparallel-" + r)
				}
			}
		}
	}
}

func init() { streams["c10r"] = runC10R }
