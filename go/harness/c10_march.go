package main

// C10, stream "c10m": marching canvas.  AddFieldParallel / AddFieldParallel2 against AddField, MarchParallel against
// March, on fields spanning 1..8 storage blocks (blocks are 100 cells wide), including negative block coordinates,
// several fields accumulated on one canvas, and asymmetric shapes (so that an axis swap is visible).
//
// Two families of fields:
//   "l1"   octahedra |x-cx|+|y-cy|+|z-cz| - r with dyadic centre/radius and power-of-two cubesPerUnit: every sample,
//          every interpolation and the final scaling are exact, welded vertices are bit-identical whatever the block
//          order, so triangles are compared as exact position triples (hex);
//   "sdf"  anisotropic ellipsoid-like smooth field (sqrt): triangles are compared as triples of weld cells
//          (modeling.Vector3ToInt(p, 3), the quantisation March itself welds with), which is what the output determines
//          independently of block completion order.
// Case categories (all in both tiers, budgets from -n):
//   placement  one field (sometimes two) at 8 placements spanning 1..8 blocks, all three AddField variants, all marched;
//   seam       seam-hugging shapes: the surface crosses a block boundary by less than one cell, so that the block on one side
//              holds only values on ONE side of the cutoff and its triangles come from the seam cubes alone (cell 99 → the
//              neighbour's cell 0); per axis, at corners, both orientations, inverted fields (uniformly-inside block),
//              cubesPerUnit 1/2/4/10, cutoff 0 / ±¼ cell; MarchParallel vs March;
//   edge       field bounds exactly on / one before / one after a block boundary (exclusive upper and inclusive lower bound, per
//              axis, negative blocks), cutoffs ≠ 0: registered blocks (also all-zero ones), cells and surfaces of all variants;
//   history    2–4 AddField* calls on ONE canvas and attribute with OVERLAPPING domains (same shape twice, shifted
//              overlapping shapes, a small field inside a big one): after EACH call the canvas cells (read with
//              reflect/unsafe; all attributes) and the sample multisets of each parallel variant are compared with the
//              sequential canvas; also fields with TWO Float1 attributes (one job per (attribute, block)),
//              and the whole history is replayed by the Lean job model (`c10.accumulate`, read-modify-write `+=`).
// Oracle lines: c10.holds.same_tri_multiset (theorem predicate: equal multisets), c10.holds.same_output (sample multisets,
// canvas cells).

import (
	"fmt"
	"math"
	"reflect"
	"sort"
	"strings"
	"sync"
	"unsafe"

	"github.com/EliCDavis/polyform/math/geometry"
	"github.com/EliCDavis/polyform/math/sample"
	"github.com/EliCDavis/polyform/modeling"
	"github.com/EliCDavis/polyform/modeling/marching"
	"github.com/EliCDavis/vector/vector3"
)

func init() { streams["c10m"] = runC10M }

type c10Shape struct {
	kind       string // l1 | l1inv | sdf
	cx, cy, cz float64
	r          float64
	ax, ay, az float64 // axis scales (asymmetry)
	extra      bool    // the field carries a second Float1 attribute ("c10aux" = 2·f + 1) besides the position attribute
}

const c10Aux = "c10aux"

type c10Sample struct {
	pos string
	p   vector3.Float64
	v   float64
}

type c10Sampler struct {
	mu   sync.Mutex
	seen []c10Sample
	on   bool
}

func (s *c10Sampler) wrap(f sample.Vec3ToFloat) sample.Vec3ToFloat {
	return func(p vector3.Float64) float64 {
		v := f(p)
		if s.on {
			s.mu.Lock()
			s.seen = append(s.seen, c10Sample{F(p.X()) + "," + F(p.Y()) + "," + F(p.Z()), p, v})
			s.mu.Unlock()
		}
		return v
	}
}

// sorted position tokens of the samples taken since the last call of take()
func (s *c10Sampler) take() (toks []string, raw []c10Sample) {
	s.mu.Lock()
	raw = s.seen
	s.seen = nil
	s.mu.Unlock()
	toks = make([]string, len(raw))
	for i, e := range raw {
		toks[i] = e.pos
	}
	sort.Strings(toks)
	return
}

func (sh c10Shape) field(s *c10Sampler, h float64) marching.Field {
	var f sample.Vec3ToFloat
	switch sh.kind {
	case "l1":
		f = func(p vector3.Float64) float64 {
			return math.Abs(p.X()-sh.cx)*sh.ax + math.Abs(p.Y()-sh.cy)*sh.ay + math.Abs(p.Z()-sh.cz)*sh.az - sh.r
		}
	case "l1inv":
		f = func(p vector3.Float64) float64 {
			return sh.r - (math.Abs(p.X()-sh.cx)*sh.ax + math.Abs(p.Y()-sh.cy)*sh.ay + math.Abs(p.Z()-sh.cz)*sh.az)
		}
	default:
		f = func(p vector3.Float64) float64 {
			dx, dy, dz := (p.X()-sh.cx)*sh.ax, (p.Y()-sh.cy)*sh.ay, (p.Z()-sh.cz)*sh.az
			return math.Sqrt(dx*dx+dy*dy+dz*dz) - sh.r
		}
	}
	// domain: the shape plus one cell of margin on each side
	ext := vector3.New((sh.r/sh.ax+h)*2, (sh.r/sh.ay+h)*2, (sh.r/sh.az+h)*2)
	fns := map[string]sample.Vec3ToFloat{modeling.PositionAttribute: s.wrap(f)}
	if sh.extra {
		fns[c10Aux] = s.wrap(func(p vector3.Float64) float64 { return 2*f(p) + 1 })
	}
	return marching.Field{Domain: geometry.NewAABB(vector3.New(sh.cx, sh.cy, sh.cz), ext), Float1Functions: fns}
}

// c10Dump reads the canvas (unexported state, via reflect/unsafe): one token "B:cx,cy,cz" per registered block and one token
// "cx,cy,cz:index:value" per non-zero cell of the position attribute ("attr|cx,cy,cz:index:value" for any other attribute), sorted.
func c10Dump(cv *marching.MarchingCanvas) []string {
	v := reflect.ValueOf(cv).Elem()
	fd := v.FieldByName("float1Data")
	data := *(*[][]float64)(unsafe.Pointer(fd.UnsafeAddr()))
	var out []string
	it := v.FieldByName("sections").MapRange()
	for it.Next() {
		prefix := ""
		if it.Key().String() != modeling.PositionAttribute {
			prefix = it.Key().String() + "|"
		}
		pit := it.Value().Elem().FieldByName("positions").MapRange()
		for pit.Next() {
			k := pit.Key()
			cx, cy, cz := k.FieldByName("X").Int(), k.FieldByName("Y").Int(), k.FieldByName("Z").Int()
			// every REGISTERED block, also one that holds only zeros (March walks the seam cubes of a block only when the
			// neighbouring block is registered)
			out = append(out, fmt.Sprintf("%sB:%d,%d,%d", prefix, cx, cy, cz))
			for idx, val := range data[pit.Value().Int()] {
				if val != 0 {
					out = append(out, fmt.Sprintf("%s%d,%d,%d:%d:%s", prefix, cx, cy, cz, idx, F(val)))
				}
			}
		}
	}
	sort.Strings(out)
	return out
}

// triangles of a mesh as tokens "x1,y1,z1,...,z3": exact hex positions, or weld cells
func c10Tris(m modeling.Mesh, exact bool) []string {
	if m.PrimitiveCount() == 0 || !m.HasFloat3Attribute(modeling.PositionAttribute) {
		return nil
	}
	pos := m.Float3Attribute(modeling.PositionAttribute)
	idx := m.Indices()
	out := make([]string, 0, idx.Len()/3)
	for t := 0; t+2 < idx.Len(); t += 3 {
		parts := make([]string, 0, 9)
		for k := 0; k < 3; k++ {
			p := pos.At(idx.At(t + k))
			if exact {
				parts = append(parts, F(p.X()), F(p.Y()), F(p.Z()))
			} else {
				q := modeling.Vector3ToInt(p, 3)
				parts = append(parts, fmt.Sprint(q.X), fmt.Sprint(q.Y), fmt.Sprint(q.Z))
			}
		}
		out = append(out, strings.Join(parts, ","))
	}
	sort.Strings(out)
	return out
}

func c10SameTris(c *Ctx, what string, a, b []string) {
	c.Emit("c10.holds.same_tri_multiset", strings.TrimSpace(fmt.Sprintf("%s %d %d %s %s", what, len(a), len(b), strings.Join(a, " "), strings.Join(b, " "))), "true")
}

func c10March(cv *marching.MarchingCanvas, cutoff float64, parallel bool) (m modeling.Mesh, res string) {
	res = Guard(func() string {
		if parallel {
			m = cv.MarchParallel(cutoff)
		} else {
			m = cv.March(cutoff)
		}
		return "ok"
	})
	return
}

func c10MarchWhy(cv *marching.MarchingCanvas, cutoff float64) (m modeling.Mesh, res string) {
	defer func() {
		if r := recover(); r != nil {
			res = fmt.Sprint(r)
		}
	}()
	return cv.March(cutoff), "ok"
}

type c10Opts struct {
	marchVariants bool // also March the canvases built by the parallel AddField variants
	cells         bool // compare the canvas cells after each call and replay the history in the Lean job model
}

const c10MaxTokens = 7000

// one canvas case: the shapes are added one after the other (a history of calls on ONE canvas and attribute) with each of the
// three AddField variants on three canvases
func (c *Ctx) c10Canvas(label string, cpu float64, shapes []c10Shape, cutoff float64, opt c10Opts) {
	h := 1 / cpu
	// exact positions only for ONE exact field: accumulated fields interpolate at non-dyadic parameters, where two different
	// vertices can share a weld cell and the representative depends on block order (for the sequential March as well)
	exact := cutoff <= 0 && len(shapes) == 1
	twoAttr := false
	for _, sh := range shapes {
		if sh.kind != "l1" {
			exact = false
		}
		twoAttr = twoAttr || sh.extra
	}
	type variant struct {
		name string
		add  func(cv *marching.MarchingCanvas, f marching.Field)
	}
	variants := []variant{
		{"AddField", func(cv *marching.MarchingCanvas, f marching.Field) { cv.AddField(f) }},
		{"AddFieldParallel", func(cv *marching.MarchingCanvas, f marching.Field) { cv.AddFieldParallel(f) }},
		{"AddFieldParallel2", func(cv *marching.MarchingCanvas, f marching.Field) { cv.AddFieldParallel2(f) }},
	}
	var seqTris []string
	seqOutcome := "ok"
	seqSamples := make([][]string, len(shapes))
	seqDumps := make([][]string, len(shapes))
	var seqCanvas *marching.MarchingCanvas
	modelArgs := ""
	for vi, v := range variants {
		cv := marching.NewMarchingCanvas(cpu)
		smp := &c10Sampler{on: true}
		ok := true
		for si, sh := range shapes {
			res := Guard(func() string { v.add(cv, sh.field(smp, h)); return "ok" })
			toks, raw := smp.take()
			var dump []string
			if opt.cells {
				dump = c10Dump(cv)
			}
			if vi == 0 {
				if res != "ok" {
					panic("sequential AddField panicked on a generated case: " + label)
				}
				seqSamples[si], seqDumps[si] = toks, dump
				if opt.cells {
					// arguments of the model line: padded domain (from the samples taken) and the value of every sample
					lo, hi := [3]int{1 << 60, 1 << 60, 1 << 60}, [3]int{-(1 << 60), -(1 << 60), -(1 << 60)}
					parts := make([]string, 0, len(raw))
					for _, e := range raw {
						q := [3]int{int(math.Round(e.p.X() * cpu)), int(math.Round(e.p.Y() * cpu)), int(math.Round(e.p.Z() * cpu))}
						for k := 0; k < 3; k++ {
							if q[k] < lo[k] {
								lo[k] = q[k]
							}
							if q[k]+1 > hi[k] {
								hi[k] = q[k] + 1
							}
						}
						parts = append(parts, fmt.Sprintf("%d %d %d %s", q[0], q[1], q[2], F(e.v)))
					}
					modelArgs += fmt.Sprintf(" %d %d %d %d %d %d %d %s", lo[0], hi[0], lo[1], hi[1], lo[2], hi[2], len(raw), strings.Join(parts, " "))
				}
				continue
			}
			if res != "ok" {
				c.Emit("c10.holds.same_output", fmt.Sprintf("1 ok %s", res), "true") // the parallel variant panicked: not the sequential result
				ok = false
				break
			}
			// every sample of the padded domain taken exactly once, at the same position — after THIS call
			if len(seqSamples[si]) <= c10MaxTokens {
				c10SameOutput(c, seqSamples[si], toks)
			} else {
				c.Note("samples-not-listed")
			}
			// …and the canvas holds, cell for cell, what the sequential history holds after THIS call (accumulation)
			if opt.cells && len(seqDumps[si]) <= c10MaxTokens {
				c10SameOutput(c, seqDumps[si], dump)
				c.Note("cells-compared-after-call")
			}
		}
		if vi == 0 {
			seqCanvas = cv
			blocks := map[string]bool{}
			for _, s := range seqDumps[len(shapes)-1] {
				if strings.Contains(s, "B:") {
					blocks[s] = true
				}
			}
			if opt.cells {
				c.Note(fmt.Sprintf("registered-blocks=%d", len(blocks)))
			}
			c.Note("family=" + map[bool]string{true: "exact-positions", false: "weld-cells"}[exact])
			m, r := c10MarchWhy(cv, cutoff)
			if r != "ok" {
				// the sequential reference itself rejects this canvas (observed: an EMPTY surface makes March panic): the
				// parallel variants must then behave alike — compared as outcomes below, never a harness crash
				seqOutcome = "panic"
				c.Note("sequential-march-panics")
			} else {
				seqTris = c10Tris(m, exact)
			}
			if len(seqTris) == 0 {
				c.Note("empty-surface")
			}
			c.Note(fmt.Sprintf("tris<=%d", 1<<bitsLen(len(seqTris))))
		}
		if opt.cells && ok && !twoAttr && len(modelArgs) < 2_000_000 {
			// the Lean job model (Model/ParCanvas.lean, `+=` as read-modify-write) replays the whole history
			c.Emit("c10.accumulate", fmt.Sprintf("%s %d%s", v.name, len(shapes), modelArgs), c10Join("none", seqOrOwn(vi, seqDumps[len(shapes)-1], cv)))
		}
		if vi == 0 || !ok || !opt.marchVariants {
			continue
		}
		m, r := c10March(cv, cutoff, false)
		if r != "ok" || seqOutcome != "ok" {
			c.Emit("c10.holds.same_output", fmt.Sprintf("1 %s %s", seqOutcome, r), "true")
			continue
		}
		c10SameTris(c, label+"/"+v.name+"+March", seqTris, c10Tris(m, exact))
	}
	// parallel marching of the sequentially built canvas
	m, r := c10March(seqCanvas, cutoff, true)
	if r != "ok" || seqOutcome != "ok" {
		// outcome of March vs outcome of MarchParallel on the same canvas (label in the notes: sequential-march-panics)
		c.Emit("c10.holds.same_output", fmt.Sprintf("1 %s %s", seqOutcome, r), "true")
	} else {
		c10SameTris(c, label+"/AddField+MarchParallel", seqTris, c10Tris(m, exact))
	}
}

func seqOrOwn(vi int, seq []string, cv *marching.MarchingCanvas) []string {
	if vi == 0 {
		return seq
	}
	return c10Dump(cv)
}

func bitsLen(n int) int {
	k := 0
	for n > 0 {
		n >>= 1
		k++
	}
	return k
}

func runC10M(c *Ctx) {
	// centres in CELL coordinates; world = cell / cpu.  Blocks are [100k, 100k+100).
	type place struct {
		label   string
		x, y, z float64
	}
	places := []place{
		{"1block", 50, 40, 60},
		{"2blocks-x", 100, 40, 60},
		{"2blocks-z", 30, 40, 200},
		{"4blocks-xy", 100, 100, 50},
		{"8blocks-corner", 100, 100, 100},
		{"8blocks-origin", 0, 0, 0},
		{"4blocks-neg", -100, 30, -200},
		{"1block-neg", -150, -250, -50},
	}
	cpus := []float64{1, 2, 4}
	squash := func(sh *c10Shape, keep int) {
		// asymmetric: squash one axis by 2 (still exact); `keep` is an axis that must stay unscaled (-1: none)
		switch k := c.Rng.Intn(4); {
		case k == 0 && keep != 0:
			sh.ax = 2
		case k == 1 && keep != 1:
			sh.ay = 2
		case k == 2 && keep != 2:
			sh.az = 2
		}
	}
	mk := func(kind string, p place, cpu float64) c10Shape {
		r := float64(2+c.Rng.Intn(4)) + float64(c.Rng.Intn(4))/4 // radius in cells, multiple of 1/4
		off := func() float64 { return float64(c.Rng.Intn(5)-2) / 4 }
		sh := c10Shape{kind: kind, cx: (p.x + off()) / cpu, cy: (p.y + off()) / cpu, cz: (p.z + off()) / cpu, r: r / cpu, ax: 1, ay: 1, az: 1}
		squash(&sh, -1)
		if kind == "sdf" {
			sh.cx += 0.013
			sh.cy -= 0.007
			sh.r += 0.011
		}
		return sh
	}
	nPlace, nSeam, nHist, nEdge := (c.N+1)/2, c.N, (c.N+1)/2+1, c.N // every history kind in every run
	first := c.Rng.Intn(len(places))
	for k := 0; k < nPlace; k++ {
		p, cpu := places[(first+k)%len(places)], cpus[c.Rng.Intn(len(cpus))]
		kind := "l1"
		if k%3 == 2 {
			kind = "sdf"
		}
		shapes := []c10Shape{mk(kind, p, cpu)}
		label := fmt.Sprintf("place/%s/cpu%g/%s", p.label, cpu, kind)
		if k%4 == 3 {
			// a second field on the same canvas in other blocks
			q := places[c.Rng.Intn(len(places))]
			shapes = append(shapes, mk(kind, q, cpu))
			label += "+" + q.label
			c.Note("two-fields")
		}
		c.Note("category=placement")
		c.c10Canvas(label, cpu, shapes, 0, c10Opts{marchVariants: true, cells: false})
	}

	// seam-hugging shapes
	firstSeam := c.Rng.Intn(16)
	for j := 0; j < nSeam; j++ {
		jj := firstSeam + j
		axis := jj % 4              // 0 x, 1 y, 2 z, 3 corner (all three)
		orient := (jj / 4) % 2      // 0: shape in the upper block, its lowest inside cell is cell 0 of that block; 1: mirrored
		B := []float64{100, 0, -100, 200}[c.Rng.Intn(4)]
		kindSel := jj % 5
		kind, cpu := "l1", cpus[c.Rng.Intn(len(cpus))]
		cut := []float64{0, 0, -0.25, 0.25}[c.Rng.Intn(4)] // in cells
		switch kindSel {
		case 2:
			kind = "sdf"
			if c.Rng.Intn(2) == 0 {
				cpu = 10
			}
		case 4:
			kind, cut = "l1inv", 0.25 // positive inside the shape, cutoff > 0: the neighbouring block is uniformly INSIDE
		}
		k := float64(2 + c.Rng.Intn(3))
		r := k + 0.5
		if cut == 0 && kind != "sdf" {
			r = k + []float64{0.25, 0.5, 0.75}[c.Rng.Intn(3)]
		}
		seam := B + k // first inside cell is B, cell B-1 is outside
		if orient == 1 {
			seam = B - 1 - k // last inside cell is B-1, cell B is outside
		}
		ctr := [3]float64{40 + float64(c.Rng.Intn(20)), 40 + float64(c.Rng.Intn(20)), 40 + float64(c.Rng.Intn(20))}
		for a := 0; a < 3; a++ {
			if axis == a || axis == 3 {
				ctr[a] = seam
			}
		}
		sh := c10Shape{kind: kind, cx: ctr[0] / cpu, cy: ctr[1] / cpu, cz: ctr[2] / cpu, r: r / cpu, ax: 1, ay: 1, az: 1}
		if axis != 3 {
			squash(&sh, axis)
		}
		label := fmt.Sprintf("seam/%s/orient%d/B%g/cpu%g/%s/cut%g", []string{"x", "y", "z", "corner"}[axis], orient, B, cpu, kind, cut)
		c.Note("category=seam")
		c.Note("seam-axis=" + []string{"x", "y", "z", "corner"}[axis])
		c.Note(fmt.Sprintf("seam-orient=%d", orient))
		c.Note("seam-kind=" + kind)
		c.Note(fmt.Sprintf("cutoff=%g", cut))
		c.Note(fmt.Sprintf("cpu=%g", cpu))
		c.c10Canvas(label, cpu, []c10Shape{sh}, cut/cpu, c10Opts{marchVariants: false, cells: false})
	}

	// field bounds exactly on / one before / one after a block boundary: the padded domain of a field is
	// [floor(min·cpu)-1, ceil(max·cpu)+1) — the upper bound is EXCLUSIVE, so when it is a multiple of 100 the block that starts
	// there is enumerated with an empty sample range and still registered (all zeros) by AddField; marched at a cutoff that
	// puts zero on the other side of the edge samples, the seam cubes next to that block carry triangles.  Per axis, lower
	// and upper bound, negative blocks too; all three AddField variants, canvases compared block for block and as surfaces.
	firstEdge := c.Rng.Intn(18)
	for j := 0; j < nEdge; j++ {
		jj := firstEdge + j
		axis, upper, delta := jj%3, (jj/3)%2 == 0, float64((jj/6)%3-1) // delta -1, 0, +1 cells
		if j < 3 {
			axis, upper, delta = j, true, 0 // in every run: the exclusive upper bound EXACTLY on a block boundary, each axis
		}
		B := []float64{100, 0, -100, 200}[c.Rng.Intn(4)]
		cpu := cpus[c.Rng.Intn(len(cpus))]
		kind := []string{"sdf", "l1"}[jj%2]
		k := float64(2 + c.Rng.Intn(3))
		// domain in cells: [ctr - k - 1, ctr + k + 1]; padded: lower = ctr-k-2, exclusive upper = ctr+k+2 (integers)
		bound := B + delta
		at := bound - k - 2 // exclusive upper bound lands on `bound`
		if !upper {
			at = bound + k + 2 // inclusive lower bound lands on `bound`
		}
		ctr := [3]float64{40 + float64(c.Rng.Intn(20)), 40 + float64(c.Rng.Intn(20)), 40 + float64(c.Rng.Intn(20))}
		ctr[axis] = at
		sh := c10Shape{kind: kind, cx: ctr[0] / cpu, cy: ctr[1] / cpu, cz: ctr[2] / cpu, r: k / cpu, ax: 1, ay: 1, az: 1}
		cut := []float64{0.5, 0.5, -0.25, 0}[c.Rng.Intn(4)] // in cells; 0.5: untouched zeros are INSIDE, edge samples (≈ 1) outside
		label := fmt.Sprintf("edge/%s/%s/delta%+g/B%g/cpu%g/%s/cut%g", []string{"x", "y", "z"}[axis], map[bool]string{true: "upper", false: "lower"}[upper], delta, B, cpu, kind, cut)
		c.Note("category=edge")
		c.Note(fmt.Sprintf("edge-delta=%+g", delta))
		c.Note("edge-side=" + map[bool]string{true: "upper", false: "lower"}[upper])
		c.Note(fmt.Sprintf("cutoff=%g", cut))
		c.c10Canvas(label, cpu, []c10Shape{sh}, cut/cpu, c10Opts{marchVariants: true, cells: true})
	}

	// accumulation histories: overlapping domains on one canvas and attribute
	firstHist := c.Rng.Intn(4)
	for j := 0; j < nHist; j++ {
		p, cpu := places[c.Rng.Intn(len(places))], cpus[c.Rng.Intn(len(cpus))]
		kind := "l1"
		if j%3 == 2 {
			kind = "sdf"
		}
		base := mk(kind, p, cpu)
		if base.r*cpu > 3.5 {
			base.r = 3.5 / cpu // keep the domains small enough to list every cell
		}
		var shapes []c10Shape
		var how string
		switch (firstHist + j) % 4 {
		case 0: // the same shape two to four times
			how = "same-shape-repeated"
			for t := 0; t < 2+c.Rng.Intn(3); t++ {
				shapes = append(shapes, base)
			}
		case 1: // shifted, overlapping
			how = "shifted-overlapping"
			shapes = append(shapes, base)
			for t := 0; t < 1+c.Rng.Intn(3); t++ {
				s2 := base
				s2.cx += float64(c.Rng.Intn(5)-2) / cpu
				s2.cy += float64(c.Rng.Intn(5)-2) / cpu
				s2.cz += float64(c.Rng.Intn(3)-1) / cpu
				shapes = append(shapes, s2)
			}
		case 3: // fields with TWO Float1 attributes: one job per (attribute, block); overlapping second call
			how = "two-attributes"
			base.extra = true
			s2 := base
			s2.cx += 1 / cpu
			shapes = []c10Shape{base, s2}
		default: // a small field inside a big one, then the big one again
			how = "small-inside-big"
			small := base
			small.r = 1.5 / cpu
			shapes = []c10Shape{base, small}
			if c.Rng.Intn(2) == 0 {
				shapes = append(shapes, base)
			}
			if c.Rng.Intn(2) == 0 {
				shapes[0], shapes[1] = shapes[1], shapes[0]
			}
		}
		c.Note("category=history")
		c.Note("history=" + how)
		c.Note(fmt.Sprintf("history-calls=%d", len(shapes)))
		c.c10Canvas(fmt.Sprintf("hist/%s/%s/cpu%g/%s", how, p.label, cpu, kind), cpu, shapes, 0, c10Opts{marchVariants: false, cells: true})
	}

	// an EMPTY surface (no sample below the cutoff) over two blocks, in every run: before /repo 0adf5e5 the sequential March
	// panicked on it while MarchParallel returned the empty mesh; both must return the empty mesh
	{
		cpu := cpus[c.Rng.Intn(len(cpus))]
		sh := c10Shape{kind: "l1", cx: 100.5 / cpu, cy: 40.5 / cpu, cz: 60.5 / cpu, r: 0.25 / cpu, ax: 1, ay: 1, az: 1}
		c.Note("category=history")
		c.Note("history=empty-surface")
		c.c10Canvas(fmt.Sprintf("hist/empty-surface/2blocks-x/cpu%g/l1", cpu), cpu, []c10Shape{sh, sh}, 0, c10Opts{marchVariants: true, cells: true})
	}
}

// Stream "c10r": the workload of the race-detector build (go/harness/race_c10.sh).  Every parallel entry point once more:
// the mesh scans / modifies on the fixed edge pairs, the three AddField variants on fields spanning 8, 4 and 2 blocks (block
// allocation under chunkMutex while other workers read the block list), and MarchParallel on the smallest of them.
// Only the race detector's report matters; lines are emitted as usual so the run can also be diffed by hand.
func runC10R(c *Ctx) {
	for _, p := range [][2]int{{10, 3}, {0, 4}, {3, 7}, {64, 17}, {33, 16}, {2, 2}, {63, 5}} {
		c.c10Pair(p[0], p[1])
	}
	for _, size := range []int{2, 4} {
		c.c10EmptyStrip(size)
	}
	type place struct{ x, y, z float64 }
	places := []place{{100, 100, 100}, {0, 0, 0}, {100, 100, 50}, {100, 40, 60}}
	// a field with TWO Float1 attributes on a FRESH canvas (no block of either attribute allocated yet), 8 and 4 blocks, each
	// variant several times: block allocation of the later attribute runs while workers are busy with the first one
	for rep := 0; rep < 3*c.N; rep++ {
		for _, p := range places[:3] {
			sh := c10Shape{kind: "l1", cx: p.x, cy: p.y, cz: p.z, r: 3, ax: 1, ay: 1, az: 2, extra: true}
			for _, par2 := range []bool{false, true} {
				cv := marching.NewMarchingCanvas(1)
				f := sh.field(&c10Sampler{}, 1)
				res := Guard(func() string {
					if par2 {
						cv.AddFieldParallel2(f)
					} else {
						cv.AddFieldParallel(f)
					}
					return "ok"
				})
				c.Note("race-addfield-two-attributes-fresh-canvas-" + res)
			}
		}
	}
	for k := 0; k < c.N; k++ {
		for pi, p := range places {
			sh := c10Shape{kind: "l1", cx: p.x, cy: p.y, cz: p.z, r: 3, ax: 1, ay: 2, az: 1}
			smp := &c10Sampler{on: true}
			for _, par2 := range []bool{false, true} {
				cv := marching.NewMarchingCanvas(1)
				f := sh.field(smp, 1)
				res := Guard(func() string {
					if par2 {
						cv.AddFieldParallel2(f)
					} else {
						cv.AddFieldParallel(f)
					}
					return "ok"
				})
				c.Note("race-addfield-" + res)
				if pi == len(places)-1 && !par2 && k == 0 {
					smp.on = false
					_, r := c10March(cv, 0, true)
					c.Note("race-marchparallel-" + r)
				}
			}
		}
	}
}

func init() { streams["c10r"] = runC10R }
