// Every entry point of modeling/extrude that goes through polygon() (circle.go:50-194): Polygon, Circle.Extrude,
// CircleAlongSpline.Extrude and the two node wrappers CircleNodeData.Process / CircleAlongSplineNodeData.Process.
//
//	c02.gen.extrude_polygon_accepts pl sides      accepted / rejected (polygon panics for < 2 points or < 3 sides)
//	c02.holds.polygon_full pl sides closed path… M   vertex count and EXACT index list, winding flags recomputed by the
//	                                              driver from the output's own positions and the path points
//
// plus c02.holds.wf on every returned mesh.  Circle.Extrude / CircleAlongSpline.Extrude pass `false` for `closed`
// whatever ClosePath says (observation in notes/C02.md), so the expected index list is the open one.
package main

import (
	"fmt"
	"strings"

	"github.com/EliCDavis/polyform/math/curves"
	"github.com/EliCDavis/polyform/modeling"
	"github.com/EliCDavis/polyform/modeling/extrude"
	"github.com/EliCDavis/polyform/nodes"
	"github.com/EliCDavis/vector/vector2"
	"github.com/EliCDavis/vector/vector3"
)

func (c *Ctx) randPath(n int) []vector3.Float64 {
	out := make([]vector3.Float64, n)
	p := vector3.Zero[float64]()
	for i := range out {
		p = p.Add(vector3.New(float64(c.Rng.Intn(3)), 1+float64(c.Rng.Intn(3)), float64(c.Rng.Intn(3)-1)))
		out[i] = p
	}
	return out
}

func pathStr(path []vector3.Float64) string {
	parts := make([]string, len(path))
	for i, p := range path {
		parts[i] = mvF(p)
	}
	return strings.Join(parts, " ")
}

// polygonFull runs f, emits the full-tie oracle line and the WF line
func (c *Ctx) polygonFull(tag string, sides int, path []vector3.Float64, f func() modeling.Mesh) {
	var m modeling.Mesh
	st := guardMesh(func() string { m = f(); return "" })
	c.Note("polygon:" + tag + ":" + map[string]string{"": "ok", "rejected": "rejected", "panic": "panic"}[st])
	if st == "panic" {
		c.Emit("c02.holds.polygon_full", fmt.Sprintf("%d %d 0 generator-panicked %s", len(path), sides, tag), "panic")
		return
	}
	if st == "rejected" {
		return
	}
	args := fmt.Sprintf("%d %d 0", len(path), sides)
	if len(path) > 0 {
		args += " " + pathStr(path)
	}
	c.Emit("c02.holds.polygon_full", args+" "+guardMesh(func() string { return meshStr(m) }), "true")
	c.wf(tag, m)
}

func (c *Ctx) extrudeEntryPoints(rounds int) {
	// acceptance: polygon panics for fewer than 2 points or fewer than 3 sides
	for pl := 0; pl <= 4; pl++ {
		for sd := 0; sd <= 5; sd++ {
			pl, sd := pl, sd
			path := c.randPath(pl)
			pts := make([]extrude.ExtrusionPoint, pl)
			for j := range pts {
				pts[j] = extrude.ExtrusionPoint{Point: path[j], Thickness: 1}
			}
			st := guardMesh(func() string { extrude.Polygon(sd, pts); return "accepted" })
			c.Emit("c02.gen.extrude_polygon_accepts", fmt.Sprintf("%d %d", pl, sd), st)
		}
	}
	for r := 0; r < rounds; r++ {
		n := 2 + c.Rng.Intn(6)
		sides := 3 + c.Rng.Intn(6)
		path := c.randPath(n)
		// Polygon with per-point thickness, UVs on all / some points (TexCoord only when every point has one)
		pts := make([]extrude.ExtrusionPoint, n)
		allUV := c.Rng.Intn(2) == 0
		for j := range pts {
			pts[j] = extrude.ExtrusionPoint{Point: path[j], Thickness: 0.5 + float64(c.Rng.Intn(3))}
			if allUV || c.Rng.Intn(2) == 0 {
				pts[j].UV = &extrude.ExtrusionPointUV{Point: vector2.New(0.5, float64(j)), Thickness: 1}
			}
			if c.Rng.Intn(4) == 0 {
				pts[j].Direction = &extrude.ExtrusionPointDirection{Direction: vector3.New(0., 1., float64(c.Rng.Intn(2)))}
			}
		}
		c.polygonFull("Polygon", sides, path, func() modeling.Mesh { return extrude.Polygon(sides, pts) })

		// Circle.Extrude: constant radius / per-point radii / radii of the wrong length (ignored), ClosePath either way
		radii := []float64(nil)
		switch c.Rng.Intn(3) {
		case 1:
			radii = make([]float64, n)
			for j := range radii {
				radii[j] = 0.5 + float64(c.Rng.Intn(3))
			}
		case 2:
			radii = []float64{1, 2}
		}
		closePath := c.Rng.Intn(2) == 0
		c.polygonFull("Circle.Extrude", sides, path, func() modeling.Mesh {
			return extrude.Circle{Resolution: sides, Radius: 1, Radii: radii, Path: path, ClosePath: closePath}.Extrude()
		})

		// CircleNodeData.Process: nil path = empty mesh; Resolution clamped to >= 3
		res := 1 + c.Rng.Intn(6)
		eff := res
		if eff < 3 {
			eff = 3
		}
		c.polygonFull("CircleNodeData.Process", eff, path, func() modeling.Mesh {
			nd := extrude.CircleNodeData{Path: nodes.Value(path).Out(), Resolution: nodes.Value(res).Out(), Closed: nodes.Value(closePath).Out()}
			if radii != nil {
				nd.Radii = nodes.Value(radii).Out()
			}
			if c.Rng.Intn(2) == 0 {
				nd.Radius = nodes.Value(0.75).Out()
			}
			m, err := nd.Process()
			if err != nil {
				panic(err)
			}
			return m
		})

		// CircleAlongSpline.Extrude and its node: the path points are the spline samples
		if n >= 4 {
			spl := curves.CatmullRomSplineParameters{Points: path, Alpha: 0.5}.Spline()
			sres := 2 + c.Rng.Intn(6)
			samples := func(k int) []vector3.Float64 {
				out := make([]vector3.Float64, k)
				inc := spl.Length() / float64(k-1)
				for i := range out {
					out[i] = spl.At(inc * float64(i))
				}
				return out
			}
			c.polygonFull("CircleAlongSpline.Extrude", sides, samples(sres), func() modeling.Mesh {
				return extrude.CircleAlongSpline{CircleResolution: sides, Radius: 0.5, Spline: &spl, SplineResolution: sres, ClosePath: closePath}.Extrude()
			})
			nres := 1 + c.Rng.Intn(6)
			neff := nres
			if neff < 3 {
				neff = 3
			}
			c.polygonFull("CircleAlongSplineNodeData.Process", eff, samples(neff), func() modeling.Mesh {
				var s curves.Spline = &spl
				nd := extrude.CircleAlongSplineNodeData{Spline: nodes.Value(s).Out(), CircleResolution: nodes.Value(res).Out(),
					SplineResolution: nodes.Value(nres).Out(), Closed: nodes.Value(closePath).Out()}
				m, err := nd.Process()
				if err != nil {
					panic(err)
				}
				return m
			})
		}
	}
	// missing inputs: the node wrappers return the empty triangle mesh
	for _, f := range []func() (modeling.Mesh, error){
		func() (modeling.Mesh, error) { return extrude.CircleNodeData{}.Process() },
		func() (modeling.Mesh, error) { return extrude.CircleAlongSplineNodeData{}.Process() },
		func() (modeling.Mesh, error) { return extrude.ScrewNodeData{}.Process() },
	} {
		f := f
		var m modeling.Mesh
		if guardMesh(func() string { var err error; m, err = f(); _ = err; return "" }) == "" {
			c.wf("extrude.node-without-input", m)
		}
	}
}
