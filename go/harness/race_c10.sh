#!/bin/bash
# C10 runtime residue: the parallel entry points under the Go race detector.
#   race_c10.sh WORKDIR SEED TIER        (cwd = the Go module root, /verif/go or the VERIF_REPO copy of it)
# Builds the harness (main.go c10*.go only) with -race and runs stream c10r with GOMAXPROCS 1, 2 and 16.
# Any "DATA RACE" in the output, or a non-zero exit of the harness, makes this script print the report and exit 1.
set -u
WORK=${1:?work dir}; SEED=${2:-0}; TIER=${3:-quick}
export GOFLAGS=-mod=mod GOPROXY=off GOSUMDB=off GOTOOLCHAIN=local CGO_ENABLED=1
SRC=hrace_c10_$$
mkdir -p "$SRC" "$WORK"
trap 'rm -rf "$SRC"' EXIT
cp harness/main.go harness/c10*.go "$SRC"/ 2>/dev/null   # the C10 streams use nothing from util*.go
if ! go build -race -tags verif -o "$WORK/harness_race" "./$SRC" > "$WORK/race_build.log" 2>&1; then
  echo "race build failed"; tail -40 "$WORK/race_build.log"; exit 2
fi
N=1; [ "$TIER" = thorough ] && N=3
rc=0
for P in 1 2 16; do
  mkdir -p "$WORK/race_$P"
  GOMAXPROCS=$P GORACE="halt_on_error=0 exitcode=66" "$WORK/harness_race" c10r -seed "$SEED" -n $N -tier "$TIER" -out "$WORK/race_$P" > "$WORK/race_$P.log" 2>&1
  r=$?
  if grep -q "DATA RACE" "$WORK/race_$P.log" || [ $r -ne 0 ]; then
    echo "GOMAXPROCS=$P: harness exit $r; race detector report:"
    grep -n -A 28 -m 2 "DATA RACE" "$WORK/race_$P.log" | head -80
    [ $r -ne 0 ] && ! grep -q "DATA RACE" "$WORK/race_$P.log" && tail -20 "$WORK/race_$P.log"
    rc=1
  else
    echo "GOMAXPROCS=$P: no race reported; $(tail -1 "$WORK/race_$P.log" | cut -c1-160)"
  fi
done
exit $rc
