// Stream "c13": the three concurrent entry points of /repo/generator/graph/instance.go
// (UpdateParameter, ParameterData, Artifact) on a REAL graph.Instance, against the model
// lean/PolyVerif/Model/Linz.lean (sequential specification seqStep over the C11 node graph).
//
//	c13.seq <graph> K <call>*K                       model line: the K calls issued one after the other from one
//	                                                 goroutine; answer = the K responses
//	c13.holds.linearizable <graph> E <event>*E       oracle line: a complete concurrent history (invocation and
//	                                                 response events in timestamp order) recorded from 1..16 client
//	                                                 goroutines hammering one Instance; the driver searches a
//	                                                 linearization and validates it with the verified checkWitness
//
//	graph := N <node>*N        node := `Q v` (parameter.Value[int], DefaultValue v)
//	                                 | `S salt ns sc*ns na (len id*len)*na`   sc := `-` | id      (nodes.Struct; producers too)
//	call  := `u p v` | `d p` | `a i`          resp := `ok` | `v n` | `err`
//	c13.seq / c13.http.seq only: `ub p` = an update of p with a message that does not decode (response err,
//	parameter untouched, ModelVersion +1 all the same);  node id 999999 = a node id / producer name the instance does not have; the answer per
//	call is the block `<resp> pv <Version() of every parameter in node order> mv <ModelVersion()>`
//	event := `i opid tid <call>` | `r opid <resp>`
//
// Nodes are numbered in a topological order (every dependency has a smaller id).  Every update of a
// concurrent history writes a value that no other update of that history writes and that is no
// default value, so a state is recognisable from what a read returns.  Owner: C13.
//
// FILE family (c13FileHistory): 1..2 `*parameter.File` parameters, each feeding the repo's real binary
// producer basics.NewBinaryNode (node `B 0 1 p 0`: the artifact IS the file content).  A value v crosses
// as its decimal digits left-padded with zeros to a width that often shrinks from one update to the
// next; responses are parsed from the returned bytes AT RETURN TIME and the history goes through the
// same oracle c13.holds.linearizable.  In addition every client KEEPS the slices it was handed
// ([]byte of ParameterData, Binary.Data of the artifact — no copy) with a digest taken at return time,
// re-digests them after each of its own later operations and once more after the history has ended and
// one more (shorter) update was applied to every File parameter:
//
//	c13.holds.results_immutable K <dRet dLater>*K    oracle line: per held result the return-time digest and
//	                                                 the last digest that differed from it (or the same again)
package main

import (
	"fmt"
	"hash/fnv"
	"io"
	"os"
	"runtime"
	"sort"
	"strconv"
	"strings"
	"sync"
	"sync/atomic"
	"time"

	"github.com/EliCDavis/polyform/generator/artifact"
	"github.com/EliCDavis/polyform/generator/artifact/basics"
	"github.com/EliCDavis/polyform/generator/graph"
	"github.com/EliCDavis/polyform/generator/parameter"
	"github.com/EliCDavis/polyform/nodes"
	"github.com/EliCDavis/polyform/refutil"
)

func init() { streams["c13"] = runC13 }

const c13M = 2147483647

type c13In = nodes.NodeOutput[int]

// c13mix is the body of every Process(): reads ALL inputs in Dependencies() order (scalar ports
// A,B,C,D, nil ports are not read; then the array port by index).  A node built with yield=true
// gives up the processor after every input it has read (a slow user Process()).
func c13mix(salt int, yield bool, sc []c13In, ar [][]c13In) int {
	h := int64(salt)
	for _, p := range sc {
		if p == nil {
			h = (h*31 + 7) % c13M
		} else {
			h = (h*31 + 11 + int64(p.Value())) % c13M
			if yield {
				runtime.Gosched()
			}
		}
	}
	for _, a := range ar {
		h = (h*37 + 5 + int64(len(a))) % c13M
		for _, e := range a {
			h = (h*31 + 13 + int64(e.Value())) % c13M
			if yield {
				runtime.Gosched()
			}
		}
	}
	return int(h)
}

// the artifact of a producer: wraps the int its Process() computed
type c13Art struct {
	v    int
	gate *c13Gate // HTTP families only (c13_http.go): Write can be made to block; nil = writes at once
}

func (a c13Art) Write(w io.Writer) error {
	a.gate.pass(a.v)
	_, err := fmt.Fprintf(w, "%d", a.v)
	return err
}
func (a c13Art) Mime() string { return "text/plain" }

// processor structs: exported interface fields = scalar ports, exported slice field = array port;
// the unexported bookkeeping fields are of kinds refutil skips.  Field order scrambled on purpose.
type c13G41 struct {
	C, A  c13In
	salt  int
	Xs    []c13In
	D, B  c13In
	yield bool
	fail  int // > 0: Process() returns an ERROR (next to another value) whenever the mixed value is divisible by it (c13_shared.go)
}
type c13G20 struct {
	B     c13In
	yield bool
	A     c13In
	salt  int
	fail  int
}
type c13P41 struct {
	Xs    []c13In
	salt  int
	A, B  c13In
	yield bool
	D, C  c13In
	gate  *c13Gate
	pgate *c13Gate // HTTP schedule S5: Process() itself (i.e. under producerLock) can be made to block
}
type c13P20 struct {
	salt  int
	A, B  c13In
	yield bool
	gate  *c13Gate
	pgate *c13Gate
	mode  int
	rowsN int
}

func (t c13G41) Process() (int, error) {
	return c13Failing(c13mix(t.salt, t.yield, []c13In{t.A, t.B, t.C, t.D}, [][]c13In{t.Xs}), t.fail)
}
func (t c13G20) Process() (int, error) {
	return c13Failing(c13mix(t.salt, t.yield, []c13In{t.A, t.B}, nil), t.fail)
}
func (t c13P41) Process() (artifact.Artifact, error) {
	t.pgate.pass(0)
	return c13Art{v: c13mix(t.salt, t.yield, []c13In{t.A, t.B, t.C, t.D}, [][]c13In{t.Xs}), gate: t.gate}, nil
}
func (t c13P20) Process() (artifact.Artifact, error) {
	t.pgate.pass(0)
	v := c13mix(t.salt, t.yield, []c13In{t.A, t.B}, nil)
	switch t.mode {
	case c13ModeRows:
		return c13RowsArt{k: v, n: t.rowsN}, nil
	case c13ModeBroken:
		return c13BrokenArt{k: v}, nil
	case c13ModeImage:
		return basics.Image{Image: c13Render(v, t.rowsN)}, nil // the repo's REAL image artifact (png)
	}
	return c13Art{v: v, gate: t.gate}, nil
}

// ---- graph description -------------------------------------------------------------------------

type c13Desc struct {
	param bool
	def   int   // parameter: DefaultValue
	salt  int   // struct
	sc    []int // scalar ports (len 4 or 2), -1 = nil
	hasXs bool  // shape 41: one array port
	xs    []int
	prod  bool
	yield bool
	level int
	// HTTP families only (c13_http.go); the model sees an ordinary S node
	name  string // producer name ("" = p / p1 / p10 / art<i>.txt)
	mode  int    // 0 = c13Art; c13ModeRows = many-row artifact; c13ModeBroken = artifact whose Write fails; c13ModeImage = basics.Image
	rowsN int    // rows: number of rows; image: side length in pixels
	// families of c13_shared.go
	fail  int  // interior struct node: Process() returns an error when its mixed value is divisible by fail (model node `E salt fail ...`)
	typ   int  // parameter: 0 = parameter.Value[int]; c13T* = typed parameter (value = encoding of the code `def`)
	ident bool // struct over ONE input sc[0], model node `B` (identity): adapter typed value -> int code, keeper / stl artifact producer
	stlrd bool // the repo's stl.ReadNode over a parameter.File (model node `R`: odd codes = truncated uploads -> 0 = empty mesh)
}

func (d *c13Desc) deps() []int {
	var r []int
	for _, s := range d.sc {
		if s >= 0 {
			r = append(r, s)
		}
	}
	return append(r, d.xs...)
}

func c13GraphString(g []c13Desc) string {
	var b strings.Builder
	b.WriteString(itoa(len(g)))
	for _, d := range g {
		if d.param {
			b.WriteString(" Q " + itoa(d.def))
			continue
		}
		switch {
		case d.ident:
			b.WriteString(" B 0 1 " + itoa(d.sc[0]) + " 0")
			continue
		case d.stlrd:
			b.WriteString(" R 0 1 " + itoa(d.sc[0]) + " 0")
			continue
		case d.fail > 0:
			b.WriteString(" E " + itoa(d.salt) + " " + itoa(d.fail) + " " + itoa(len(d.sc)))
		default:
			b.WriteString(" S " + itoa(d.salt) + " " + itoa(len(d.sc)))
		}
		for _, s := range d.sc {
			if s < 0 {
				b.WriteString(" -")
			} else {
				b.WriteString(" " + itoa(s))
			}
		}
		if d.hasXs {
			b.WriteString(" 1 " + itoa(len(d.xs)))
			for _, x := range d.xs {
				b.WriteString(" " + itoa(x))
			}
		} else {
			b.WriteString(" 0")
		}
	}
	return b.String()
}

// c13Wire fills the ports of node d with `k` dependencies drawn from pool; `must` (if >= 0) is among them.
func c13Wire(c *Ctx, d *c13Desc, pool []int, must int, k int) {
	picks := []int{}
	if must >= 0 {
		picks = append(picks, must)
	}
	for len(picks) < k {
		picks = append(picks, pool[c.Rng.Intn(len(pool))]) // repeats allowed: the same node on two ports
	}
	c.Rng.Shuffle(len(picks), func(i, j int) { picks[i], picks[j] = picks[j], picks[i] })
	ns := 2
	if d.hasXs {
		ns = 4
	}
	d.sc = make([]int, ns)
	for i := range d.sc {
		d.sc[i] = -1
	}
	// scalar positions in random order; what does not fit (or by chance) goes to the array
	pos := c.Rng.Perm(ns)
	for _, p := range picks {
		if len(pos) > 0 && (!d.hasXs || c.Rng.Intn(3) > 0) {
			d.sc[pos[0]] = p
			pos = pos[1:]
		} else if d.hasXs {
			d.xs = append(d.xs, p)
		}
	}
}

// c13GenGraph: 2..4 parameters, 2..3 levels of shared interior nodes, 1..3 producers; every node is
// reachable from some producer (only such nodes get an id from AddProducer).
func c13GenGraph(c *Ctx) []c13Desc {
	var g []c13Desc
	np := 2 + c.Rng.Intn(3)
	for i := 0; i < np; i++ {
		g = append(g, c13Desc{param: true, def: i*10 + c.Rng.Intn(10)})
	}
	levels := 2 + c.Rng.Intn(2)
	prev := []int{} // ids of the previous level
	for i := 0; i < np; i++ {
		prev = append(prev, i)
	}
	for l := 1; l <= levels; l++ {
		cnt := 1 + c.Rng.Intn(3)
		if l == 1 && cnt < 2 {
			cnt = 2
		}
		var cur []int
		pool := make([]int, len(g)) // everything below this level: parameters feed nodes on different levels
		for i := range pool {
			pool[i] = i
		}
		for j := 0; j < cnt; j++ {
			d := c13Desc{salt: 1 + c.Rng.Intn(1000), hasXs: c.Rng.Intn(2) == 0, yield: c.Rng.Intn(3) == 0, level: l}
			k := 2 + c.Rng.Intn(3)
			if !d.hasXs && k > 2 {
				k = 2
			}
			c13Wire(c, &d, pool, prev[c.Rng.Intn(len(prev))], k)
			cur = append(cur, len(g))
			g = append(g, d)
		}
		prev = cur
	}
	nprod := 1 + c.Rng.Intn(3)
	pool := make([]int, len(g))
	for i := range pool {
		pool[i] = i
	}
	for j := 0; j < nprod; j++ {
		d := c13Desc{salt: 1 + c.Rng.Intn(1000), hasXs: j == 0 || c.Rng.Intn(2) == 0, yield: c.Rng.Intn(3) == 0, prod: true, level: levels + 1}
		k := 2 + c.Rng.Intn(3)
		if !d.hasXs && k > 2 {
			k = 2
		}
		c13Wire(c, &d, pool, prev[c.Rng.Intn(len(prev))], k)
		g = append(g, d)
	}
	// reachability: hang whatever no producer reaches into the array port of the first producer
	first := len(g) - nprod
	reach := make([]bool, len(g))
	var mark func(i int)
	mark = func(i int) {
		if reach[i] {
			return
		}
		reach[i] = true
		for _, d := range g[i].deps() {
			mark(d)
		}
	}
	for i := first; i < len(g); i++ {
		mark(i)
	}
	for i := first - 1; i >= 0; i-- {
		if !reach[i] {
			g[first].xs = append(g[first].xs, i)
			mark(i)
		}
	}
	return g
}

// number of distinct dependency paths from node i down to each parameter (diamond detection)
func c13Paths(g []c13Desc, i int, memo map[int]map[int]int) map[int]int {
	if m, ok := memo[i]; ok {
		return m
	}
	m := map[int]int{}
	if g[i].param {
		m[i] = 1
	} else {
		seen := map[int]bool{}
		for _, d := range g[i].deps() {
			if seen[d] {
				continue
			}
			seen[d] = true
			for p, k := range c13Paths(g, d, memo) {
				m[p] += k
			}
		}
	}
	memo[i] = m
	return m
}

// ---- the real objects ------------------------------------------------------------------------------

type c13Built struct {
	g     []c13Desc
	inst  *graph.Instance
	ids   []string // instance node id per node
	names []string // producer name per node ("" if not a producer)
	outs  []c13In
	prods []int
	pars  []int
	strs  []int // non-producer struct nodes
	all   []nodes.Node
	touts []any          // c13_shared.go: typed outputs (NodeOutput[T]) of typed parameters / the stl read node
	codes map[string]int // c13_shared.go, STL family: bytes (uploads, written artifacts) -> code
}

func c13Build(g []c13Desc) *c13Built { return c13BuildNamed(g, false) }

// producer names of the sequential family: prefixes of each other (the lookup is by exact name)
var c13PrefixNames = []string{"p", "p1", "p10"}

func c13BuildNamed(g []c13Desc, prefixNames bool) *c13Built {
	return c13BuildOpt(g, c13BuildOptions{prefixNames: prefixNames})
}

type c13BuildOptions struct {
	prefixNames bool
	// HTTP families: the producers are not registered with an Instance of the harness but collected
	// here (they become generator.App.Files); ids are looked up over HTTP afterwards
	files     map[string]nodes.NodeOutput[artifact.Artifact]
	gate      *c13Gate
	pgate     *c13Gate
	parPrefix string // parameter Name = parPrefix + node index (default "p")
}

func c13BuildOpt(g []c13Desc, opt c13BuildOptions) *c13Built {
	prefixNames := opt.prefixNames
	if opt.parPrefix == "" {
		opt.parPrefix = "p"
	}
	b := &c13Built{g: g, ids: make([]string, len(g)), names: make([]string, len(g)), outs: make([]c13In, len(g)), touts: make([]any, len(g)), codes: map[string]int{}}
	if opt.files == nil {
		b.inst = graph.New(&refutil.TypeFactory{})
	}
	addProducer := func(name string, out nodes.NodeOutput[artifact.Artifact]) {
		if opt.files != nil {
			opt.files[name] = out
		} else {
			b.inst.AddProducer(name, out)
		}
	}
	all := make([]nodes.Node, len(g))
	b.all = all
	prodName := func(i int) string {
		if g[i].name != "" {
			return g[i].name
		}
		if prefixNames && len(b.prods) < len(c13PrefixNames) {
			return c13PrefixNames[len(b.prods)]
		}
		return "art" + itoa(i) + ".txt"
	}
	in := func(i int) c13In {
		if i < 0 {
			return nil
		}
		return b.outs[i]
	}
	for i, d := range g {
		var xs []c13In
		for _, x := range d.xs {
			xs = append(xs, b.outs[x])
		}
		switch {
		case c13BuildSpecial(b, i, d, addProducer, prodName):
		case d.param:
			p := &parameter.Value[int]{Name: opt.parPrefix + itoa(i), DefaultValue: d.def}
			all[i], b.outs[i] = p, p
			b.pars = append(b.pars, i)
		case !d.prod && d.hasXs:
			n := &nodes.Struct[int, c13G41]{Data: c13G41{A: in(d.sc[0]), B: in(d.sc[1]), C: in(d.sc[2]), D: in(d.sc[3]), Xs: xs, salt: d.salt, yield: d.yield, fail: d.fail}}
			all[i], b.outs[i] = n, n.Out()
			b.strs = append(b.strs, i)
		case !d.prod:
			n := nodes.NewStruct[c13G20, int](c13G20{A: in(d.sc[0]), B: in(d.sc[1]), salt: d.salt, yield: d.yield, fail: d.fail})
			all[i], b.outs[i] = n, n
			b.strs = append(b.strs, i)
		case d.hasXs:
			n := &nodes.Struct[artifact.Artifact, c13P41]{Data: c13P41{A: in(d.sc[0]), B: in(d.sc[1]), C: in(d.sc[2]), D: in(d.sc[3]), Xs: xs, salt: d.salt, yield: d.yield, gate: opt.gate, pgate: opt.pgate}}
			all[i] = n
			b.names[i] = prodName(i)
			addProducer(b.names[i], n.Out())
			b.prods = append(b.prods, i)
		default:
			n := &nodes.Struct[artifact.Artifact, c13P20]{Data: c13P20{A: in(d.sc[0]), B: in(d.sc[1]), salt: d.salt, yield: d.yield, gate: opt.gate, pgate: opt.pgate, mode: d.mode, rowsN: d.rowsN}}
			all[i] = n
			b.names[i] = prodName(i)
			addProducer(b.names[i], n.Out())
			b.prods = append(b.prods, i)
		}
	}
	if b.inst == nil {
		return b
	}
	for i := range g {
		b.ids[i] = b.inst.NodeId(all[i])
		if b.ids[i] == "" {
			panic("c13: node " + itoa(i) + " got no id from the instance (not reachable from a producer)")
		}
	}
	return b
}

type c13Call struct {
	kind  byte // 'u' 'd' 'a'; 'b' = `ub p`: an update whose message does not decode (sequential families only; v selects the message)
	p, v  int
	yield bool // runtime.Gosched() before issuing it
	w     int  // FILE family only: width of the zero-padded payload of an update
}

// messages an int parameter.Value cannot decode: malformed JSON and wrong types.  ApplyMessage returns
// the error before writing anything; UpdateParameter still bumps the model version and returns the error.
var c13BadPayloads = []string{"{", "12x", `"x"`, "[1]", "1.5", "true", "", "1 2"}

func (k c13Call) payload() []byte {
	if k.kind == 'b' {
		return []byte(c13BadPayloads[k.v%len(c13BadPayloads)])
	}
	return []byte(itoa(k.v))
}

func (k c13Call) String() string {
	switch k.kind {
	case 'b':
		return "ub " + itoa(k.p)
	case 'u':
		return "u " + itoa(k.p) + " " + itoa(k.v)
	case 'd':
		return "d " + itoa(k.p)
	}
	return "a " + itoa(k.p)
}

// raw result of one call, decoded into a response token after the response timestamp was taken
type c13Raw struct {
	panicked bool
	ok       bool
	err      error
	data     []byte
	art      artifact.Artifact
}

func (b *c13Built) invoke(k c13Call, payload []byte) (r c13Raw) {
	defer func() {
		if e := recover(); e != nil {
			r = c13Raw{panicked: true}
		}
	}()
	// k.p == c13Unknown: a node id / producer name the instance does not have (never by accident: an
	// index outside the tables would be a panic of the HARNESS that the recover above would hide)
	id, name := "Node-"+itoa(c13Unknown), c13UnknownNames[k.v%len(c13UnknownNames)]
	if k.p != c13Unknown {
		id, name = b.ids[k.p], b.names[k.p]
	}
	switch k.kind {
	case 'u', 'b':
		r.ok, r.err = b.inst.UpdateParameter(id, payload)
	case 'd':
		r.data = b.inst.ParameterData(id)
	default:
		r.art = b.inst.Artifact(name)
	}
	return r
}

const c13Unknown = 999999

// near misses of the names p / p1 / p10 / art<i>.txt
var c13UnknownNames = []string{"p100", "", "P", "p2", "p1 ", "art", "p10.txt"}

func c13Resp(k c13Call, r c13Raw) string {
	if r.panicked {
		return "err"
	}
	switch k.kind {
	case 'u', 'b':
		if r.ok && r.err == nil {
			return "ok"
		}
		return "err"
	case 'd':
		n, err := strconv.Atoi(string(r.data))
		if err != nil || n < 0 {
			return "bad:" + fmt.Sprintf("%x", r.data)
		}
		return "v " + itoa(n)
	}
	a, ok := r.art.(c13Art)
	if !ok || a.v < 0 {
		return fmt.Sprintf("bad:%T", r.art)
	}
	return "v " + itoa(a.v)
}

// c13GenCall draws one call; *next is the counter of unique update values.
func c13GenCall(c *Ctx, b *c13Built, next *int) c13Call {
	k := c13Call{yield: c.Rng.Intn(4) == 0}
	switch r := c.Rng.Intn(100); {
	case r < 40:
		k.kind, k.p, k.v = 'u', b.pars[c.Rng.Intn(len(b.pars))], *next
		*next++
	case r < 55:
		k.kind, k.p = 'd', b.pars[c.Rng.Intn(len(b.pars))]
	case r < 95:
		k.kind, k.p = 'a', b.prods[c.Rng.Intn(len(b.prods))]
	case r < 98:
		// not a parameter: i.Parameter panics inside the critical section, the deferred Unlock runs
		all := append(append([]int{}, b.strs...), b.prods...)
		k.kind, k.p, k.v = 'u', all[c.Rng.Intn(len(all))], *next
		*next++
	default:
		all := append(append([]int{}, b.strs...), b.prods...)
		k.kind, k.p = 'd', all[c.Rng.Intn(len(all))]
	}
	return k
}

// ---- (a) sequential lines ------------------------------------------------------------------------

// c13.seq response block per call:  <ok | v n | err> pv <Version() of every parameter, node order> mv <ModelVersion()>
//
// The sequential family also sends: the value a parameter already holds (ApplyMessage still answers
// (true,nil) and bumps the version), small repeated values, unknown node ids (`u 999999 v`, `d 999999`:
// i.Node panics INSIDE the lock, the deferred Unlock must release it — the line goes on afterwards),
// unknown producer names (`a 999999`: Artifact panics before the lock), calls on nodes that are no
// parameters; reads of every producer right after an update (producers sharing interior nodes, of which
// only some depend on the updated parameter) and repeated reads with no update in between.  Producer
// names are prefixes of each other (p, p1, p10).
func c13Seq(c *Ctx) {
	g := c13GenGraph(c)
	nprod := func(g []c13Desc) (n int) {
		for _, d := range g {
			if d.prod {
				n++
			}
		}
		return n
	}
	for tries := 0; tries < 4 && nprod(g) < 2 && c.Rng.Intn(5) > 0; tries++ {
		g = c13GenGraph(c) // mostly 2..3 producers
	}
	b := c13BuildNamed(g, true)
	c.Note("seq.producers=" + itoa(len(b.prods)))
	memo := map[int]map[int]int{}
	rel := map[int]map[int]int{} // producer -> parameters it depends on
	for _, p := range b.prods {
		rel[p] = c13Paths(g, p, memo)
	}
	var partial []int // parameters that at least one producer does not depend on
	for _, q := range b.pars {
		for _, p := range b.prods {
			if rel[p][q] == 0 {
				partial = append(partial, q)
				break
			}
		}
	}
	if len(partial) > 0 {
		c.Note("seq.graph-with-a-producer-independent-of-some-parameter")
	}
	cur := map[int]int{} // current value per parameter
	for _, p := range b.pars {
		cur[p] = g[p].def
	}
	K := 1 + c.Rng.Intn(24)
	next := 1000
	var queue []c13Call // reads scheduled right after an update
	var calls, resps []string
	gotMsg := map[int]bool{} // parameter -> has been sent a message (of any kind) before
	// after a rejected message: the parameter itself and every producer depending on it are read
	afterRejected := func(p int) {
		queue = append(queue, c13Call{kind: 'd', p: p})
		for _, pi := range c.Rng.Perm(len(b.prods)) {
			if rel[b.prods[pi]][p] > 0 {
				queue = append(queue, c13Call{kind: 'a', p: b.prods[pi]})
			}
		}
	}
	if c.Rng.Intn(4) == 0 {
		// the FIRST message a parameter ever gets is one it cannot decode
		p := b.pars[c.Rng.Intn(len(b.pars))]
		queue = append(queue, c13Call{kind: 'b', p: p, v: c.Rng.Intn(1000)})
		afterRejected(p)
	}
	lastRead := map[int]bool{}    // producer -> read before
	updSince := map[int][]int{}   // producer -> parameters updated (ok) since its last read
	var readSinceUpd map[int]bool // producers read since the last ok update (nil before the first)
	others := append(append([]int{}, b.strs...), b.prods...)
	for j := 0; j < K; j++ {
		var k c13Call
		if len(queue) > 0 {
			k, queue = queue[0], queue[1:]
		} else {
			switch r := c.Rng.Intn(100); {
			case r < 36:
				k.kind, k.p = 'u', b.pars[c.Rng.Intn(len(b.pars))]
				if len(partial) > 0 && c.Rng.Intn(2) == 0 {
					k.p = partial[c.Rng.Intn(len(partial))] // a parameter some producer does not depend on
				}
				switch q := c.Rng.Intn(100); {
				case q < 6:
					k.kind, k.v = 'b', c.Rng.Intn(1000) // a message that does not decode
					if c.Rng.Intn(2) == 0 {
						afterRejected(k.p)
					}
				case q < 20:
					k.v = cur[k.p] // the value it already holds
					c.Note("seq.update-with-the-current-value")
				case q < 38:
					k.v = c.Rng.Intn(5) // small, repeated
				default:
					k.v = next
					next++
				}
				if k.kind == 'u' && c.Rng.Intn(3) == 0 {
					// every producer right after the update, in random order, one of them twice
					for _, pi := range c.Rng.Perm(len(b.prods)) {
						queue = append(queue, c13Call{kind: 'a', p: b.prods[pi]})
					}
					queue = append(queue, c13Call{kind: 'a', p: b.prods[c.Rng.Intn(len(b.prods))]})
				}
			case r < 48:
				k.kind, k.p = 'd', b.pars[c.Rng.Intn(len(b.pars))]
			case r < 90:
				k.kind, k.p = 'a', b.prods[c.Rng.Intn(len(b.prods))]
			case r < 92:
				k.kind, k.p, k.v = 'u', others[c.Rng.Intn(len(others))], next // not a parameter
				next++
				if c.Rng.Intn(4) == 0 {
					k.kind = 'b' // undecodable AND not a parameter: panics before decoding, model version NOT bumped
				}
			case r < 94:
				k.kind, k.p = 'd', others[c.Rng.Intn(len(others))]
			case r < 97:
				k.kind, k.p, k.v = 'a', c13Unknown, c.Rng.Intn(1000) // v only selects the unknown name
			case r < 99:
				k.kind, k.p, k.v = 'u', c13Unknown, next
				next++
			default:
				k.kind, k.p = 'd', c13Unknown
			}
		}
		resp := c13Resp(k, b.invoke(k, k.payload()))
		// distribution
		if k.kind == 'b' && k.p != c13Unknown {
			if g[k.p].param {
				c.Note("seq.update-rejected")
				if !gotMsg[k.p] {
					c.Note("seq.update-rejected-is-the-first-message-of-the-parameter")
				}
			} else {
				c.Note("seq.update-rejected-on-a-node-that-is-no-parameter")
			}
		}
		if (k.kind == 'u' || k.kind == 'b') && k.p != c13Unknown {
			gotMsg[k.p] = true
		}
		switch {
		case k.p == c13Unknown:
			c.Note("seq.unknown-" + string(k.kind))
		case k.kind == 'u' && g[k.p].param && resp == "ok":
			cur[k.p] = k.v
			for _, p := range b.prods {
				updSince[p] = append(updSince[p], k.p)
			}
			readSinceUpd = map[int]bool{}
		case k.kind == 'a':
			if lastRead[k.p] {
				related, unrelated := 0, 0
				for _, q := range updSince[k.p] {
					if rel[k.p][q] > 0 {
						related++
					} else {
						unrelated++
					}
				}
				switch {
				case related == 0 && unrelated == 0:
					c.Note("seq.a-repeated-with-no-update-between")
				case related == 0:
					c.Note("seq.a-again-after-updates-of-parameters-it-does-not-depend-on")
				default:
					c.Note("seq.a-again-after-update-of-a-parameter-it-depends-on")
				}
			} else {
				c.Note("seq.a-first-read-of-producer")
			}
			lastRead[k.p] = true
			updSince[k.p] = nil
			if readSinceUpd != nil {
				readSinceUpd[k.p] = true
				if len(readSinceUpd) == 2 {
					c.Note("seq.update-followed-by-reads-of-2+-different-producers")
				}
			}
		}
		if resp == "err" {
			c.Note("seq.err-response")
			if j+1 < K {
				c.Note("seq.calls-continue-after-err")
			}
		}
		// observable state after the call: Version() of every parameter, ModelVersion()
		var blk strings.Builder
		blk.WriteString(resp + " pv")
		for _, p := range b.pars {
			blk.WriteString(" " + itoa(b.all[p].Version()))
		}
		blk.WriteString(" mv " + strconv.FormatUint(uint64(b.inst.ModelVersion()), 10))
		calls = append(calls, k.String())
		resps = append(resps, blk.String())
	}
	c.Emit("c13.seq", c13GraphString(g)+" "+itoa(K)+" "+strings.Join(calls, " "), strings.Join(resps, " "))
}

// ---- (b) concurrent histories ------------------------------------------------------------------------

type c13Rec struct {
	tInv, tResp int64
	tid         int
	call        c13Call
	resp        string
}

var c13Clients = []int{2, 3, 4, 8, 16}
var c13Procs = []int{1, 2, 4, 16}

func c13History(c *Ctx, clients int, fixedProcs bool) {
	g := c13GenGraph(c)
	b := c13Build(g)
	memo := map[int]map[int]int{}
	for _, p := range b.prods {
		for _, k := range c13Paths(g, p, memo) {
			if k >= 2 {
				c.Note("graph.producer-reaches-parameter-on-2+-paths")
				break
			}
		}
	}
	c.Note("graph.params=" + itoa(len(b.pars)))
	c.Note("graph.producers=" + itoa(len(b.prods)))

	// the plan: per client its calls; update values unique over the whole history
	next := 1000
	plan := make([][]c13Call, clients)
	payload := make([][][]byte, clients)
	total := 0
	for t := range plan {
		n := 1 + c.Rng.Intn(8)
		if clients == 1 {
			n = 4 + c.Rng.Intn(20)
		}
		for j := 0; j < n; j++ {
			k := c13GenCall(c, b, &next)
			plan[t] = append(plan[t], k)
			payload[t] = append(payload[t], []byte(itoa(k.v)))
		}
		total += n
	}
	procs := 0
	if !fixedProcs {
		procs = c13Procs[c.Rng.Intn(len(c13Procs))]
		old := runtime.GOMAXPROCS(procs)
		defer runtime.GOMAXPROCS(old)
	} else {
		procs = runtime.GOMAXPROCS(0)
	}

	var ctr atomic.Int64
	recs := make([][]c13Rec, clients)
	start := make(chan struct{})
	var wg sync.WaitGroup
	for t := 0; t < clients; t++ {
		wg.Add(1)
		go func(t int) {
			defer wg.Done()
			<-start
			for j, k := range plan[t] {
				if k.yield {
					runtime.Gosched()
				}
				tInv := ctr.Add(1)
				raw := b.invoke(k, payload[t][j])
				tResp := ctr.Add(1)
				recs[t] = append(recs[t], c13Rec{tInv: tInv, tResp: tResp, tid: t, call: k, resp: c13Resp(k, raw)})
			}
		}(t)
	}
	done := make(chan struct{})
	go func() { wg.Wait(); close(done) }()
	close(start)
	select {
	case <-done:
	case <-time.After(120 * time.Second):
		fmt.Fprintln(os.Stderr, "c13: clients did not finish within 120 s (deadlock: a lock is never released?) on graph", c13GraphString(g))
		os.Exit(3)
	}

	var ops []c13Rec
	for _, r := range recs {
		ops = append(ops, r...)
	}
	sort.Slice(ops, func(i, j int) bool { return ops[i].tInv < ops[j].tInv })
	type ev struct {
		t   int64
		txt string
		inv bool
	}
	var evs []ev
	for id, o := range ops {
		evs = append(evs, ev{o.tInv, "i " + itoa(id) + " " + itoa(o.tid) + " " + o.call.String(), true})
		evs = append(evs, ev{o.tResp, "r " + itoa(id) + " " + o.resp, false})
	}
	sort.Slice(evs, func(i, j int) bool { return evs[i].t < evs[j].t })
	parts := make([]string, len(evs))
	open, maxOpen := 0, 0
	for i, e := range evs {
		parts[i] = e.txt
		if e.inv {
			open++
			if open > maxOpen {
				maxOpen = open
			}
		} else {
			open--
		}
	}
	// distribution: overlapping pairs
	anyOverlap, updArt, artArt := false, false, false
	for i := range ops {
		for j := i + 1; j < len(ops); j++ {
			if ops[j].tInv > ops[i].tResp { // ops sorted by invocation: no later op overlaps i either
				break
			}
			anyOverlap = true
			ki, kj := ops[i].call.kind, ops[j].call.kind
			if (ki == 'u' && kj == 'a') || (ki == 'a' && kj == 'u') {
				updArt = true
			}
			if ki == 'a' && kj == 'a' {
				artArt = true
			}
		}
	}
	c.Note("hist.clients=" + fmt.Sprintf("%02d", clients))
	c.Note("hist.gomaxprocs=" + fmt.Sprintf("%02d", procs))
	switch {
	case total <= 8:
		c.Note("hist.ops=01-08")
	case total <= 16:
		c.Note("hist.ops=09-16")
	case total <= 32:
		c.Note("hist.ops=17-32")
	case total <= 64:
		c.Note("hist.ops=33-64")
	default:
		c.Note("hist.ops=65-128")
	}
	c.Note("hist.max-simultaneously-open-ops=" + fmt.Sprintf("%02d", maxOpen))
	if anyOverlap {
		c.Note("hist.with-overlapping-ops")
	}
	if updArt {
		c.Note("hist.with-overlapping-update+artifact")
	}
	if artArt {
		c.Note("hist.with-overlapping-artifact+artifact")
	}
	for _, o := range ops {
		if o.resp == "err" {
			c.Note("hist.with-err-response")
			break
		}
	}
	c.Emit("c13.holds.linearizable", c13GraphString(g)+" "+itoa(len(parts))+" "+strings.Join(parts, " "), "true")
}

// c.N = number of concurrent histories; on top of it N/2 sequential model lines and N/8 one-client
// histories through the same oracle.
func runC13(c *Ctx) {
	fixedProcs := os.Getenv("GOMAXPROCS") != "" // the race extra pins GOMAXPROCS from outside
	if fixedProcs {
		c.Note("gomaxprocs-pinned-by-environment=" + itoa(runtime.GOMAXPROCS(0)))
	}
	if os.Getenv("C13_ONLY") == "shared" { // debugging aid: only the families of c13_shared.go
		c13Shared(c, fixedProcs)
		return
	}
	for i := 0; i < c.N; i++ {
		if i%2 == 0 {
			c13Seq(c)
		}
		if i%8 == 0 {
			c13History(c, 1, fixedProcs)
		}
		c13History(c, c13Clients[c.Rng.Intn(len(c13Clients))], fixedProcs)
	}
	// the FILE family comes after everything else, so the lines above are generated exactly as before
	for i := 0; i < c.N/5; i++ {
		c13FileHistory(c, c13FileClients[c.Rng.Intn(len(c13FileClients))], fixedProcs)
	}
	// the HTTP families (c13_http.go): the real edit-server handlers
	c13HTTP(c)
	// families with shared failing nodes, the real STL chain and typed parameters (c13_shared.go); last, so that
	// every line above is generated exactly as before
	c13Shared(c, fixedProcs)
}

// ---- (c) FILE family: parameter.File + basics.BinaryNode, results held after the call returned ----

var c13FileClients = []int{2, 3, 4, 8}

// c13Payload: the decimal digits of v left-padded with zeros to width w, in a FRESH slice that the
// harness never touches again (the unchanged File.ApplyMessage stores the caller's slice).
func c13Payload(v, w int) []byte {
	return []byte(fmt.Sprintf("%0*d", w, v))
}

// c13ParseDigits: the number the bytes encode (leading zeros ignored); 999999999 if they are not all digits.
func c13ParseDigits(b []byte) int {
	if len(b) == 0 {
		return 999999999
	}
	n := 0
	for _, ch := range b {
		if ch < '0' || ch > '9' {
			return 999999999
		}
		if n < 100000000 {
			n = n*10 + int(ch-'0')
		} else {
			return 999999999
		}
	}
	return n
}

// digest of a held result: FNV-64a of the bytes followed by the length, one lower-case hex token
func c13Digest(b []byte) string {
	h := fnv.New64a()
	h.Write(b)
	return fmt.Sprintf("%016x%06x", h.Sum64(), len(b))
}

type c13Held struct {
	data  []byte // the slice the call returned — NOT a copy
	p     int    // the File parameter it shows
	tResp int64
	dRet  string // digest when the call returned
	dLast string // last digest that differed from dRet (dRet if none did)
}

func (h *c13Held) recheck() {
	if d := c13Digest(h.data); d != h.dRet {
		h.dLast = d
	}
}

func c13FileHistory(c *Ctx, clients int, fixedProcs bool) {
	// graph: File parameters first, then one or two Binary producers per parameter
	inst := graph.New(&refutil.TypeFactory{})
	nf := 1 + c.Rng.Intn(2)
	next := 1000
	var desc []string
	files := make([]*parameter.File, nf)
	var all []nodes.Node
	for i := 0; i < nf; i++ {
		v := i*10 + c.Rng.Intn(10)
		files[i] = &parameter.File{Name: "f" + itoa(i), DefaultValue: c13Payload(v, 16)}
		all = append(all, files[i])
		desc = append(desc, "Q "+itoa(v))
	}
	var names []string // producer name per node ("" for parameters)
	for range files {
		names = append(names, "")
	}
	prodOf := []int{} // node ids of producers
	paramOf := map[int]int{}
	for i := 0; i < nf; i++ {
		for k := 0; k < 1+c.Rng.Intn(2); k++ {
			out := basics.NewBinaryNode(files[i].Out())
			id := len(all)
			all = append(all, out.Node())
			names = append(names, "bin"+itoa(id)+".bin")
			inst.AddProducer(names[id], out)
			desc = append(desc, "B 0 1 "+itoa(i)+" 0")
			prodOf = append(prodOf, id)
			paramOf[id] = i
		}
	}
	gstr := itoa(len(all)) + " " + strings.Join(desc, " ")
	ids := make([]string, len(all))
	for i, n := range all {
		ids[i] = inst.NodeId(n)
		if ids[i] == "" {
			panic("c13: file-family node without id")
		}
	}

	// plan; payload widths: the first update of a parameter is wide, later ones often narrower or equal
	plan := make([][]c13Call, clients)
	payload := make([][][]byte, clients)
	seenUpd := make([]bool, nf)
	total := 0
	for t := range plan {
		n := 2 + c.Rng.Intn(7)
		for j := 0; j < n; j++ {
			k := c13Call{yield: c.Rng.Intn(4) == 0}
			switch r := c.Rng.Intn(100); {
			case r < 40:
				k.kind, k.p, k.v = 'u', c.Rng.Intn(nf), next
				next++
				switch {
				case !seenUpd[k.p]:
					k.w = 16
				case c.Rng.Intn(12) == 0:
					k.w = 20 + 4*c.Rng.Intn(2) // sometimes growing again
				default:
					k.w = []int{16, 16, 12, 12, 8, 8}[c.Rng.Intn(6)]
				}
				seenUpd[k.p] = true
			case r < 70:
				k.kind, k.p = 'd', c.Rng.Intn(nf)
			default:
				k.kind, k.p = 'a', prodOf[c.Rng.Intn(len(prodOf))]
			}
			plan[t] = append(plan[t], k)
			if k.kind == 'u' {
				payload[t] = append(payload[t], c13Payload(k.v, k.w))
			} else {
				payload[t] = append(payload[t], nil)
			}
		}
		total += n
	}
	procs := 0
	if !fixedProcs {
		procs = c13Procs[c.Rng.Intn(len(c13Procs))]
		old := runtime.GOMAXPROCS(procs)
		defer runtime.GOMAXPROCS(old)
	} else {
		procs = runtime.GOMAXPROCS(0)
	}

	var ctr atomic.Int64
	recs := make([][]c13Rec, clients)
	held := make([][]*c13Held, clients)
	start := make(chan struct{})
	var wg sync.WaitGroup
	for t := 0; t < clients; t++ {
		wg.Add(1)
		go func(t int) {
			defer wg.Done()
			<-start
			for j, k := range plan[t] {
				if k.yield {
					runtime.Gosched()
				}
				var data []byte
				resp := "err"
				tInv := ctr.Add(1)
				func() {
					defer func() {
						if e := recover(); e != nil {
							resp = "err"
						}
					}()
					switch k.kind {
					case 'u':
						ok, err := inst.UpdateParameter(ids[k.p], payload[t][j])
						if ok && err == nil {
							resp = "ok"
						}
					case 'd':
						data = inst.ParameterData(ids[k.p])
						resp = ""
					default:
						art := inst.Artifact(names[k.p])
						if b, isBin := art.(basics.Binary); isBin {
							data = b.Data
							resp = ""
						}
					}
				}()
				tResp := ctr.Add(1)
				// what the client holds from earlier calls, looked at again now that a later call of its own completed
				for _, h := range held[t] {
					h.recheck()
				}
				if resp == "" {
					// return-time value and digest of the bytes just handed out; the slice itself is kept
					resp = "v " + itoa(c13ParseDigits(data))
					p := k.p
					if k.kind == 'a' {
						p = paramOf[k.p]
					}
					d := c13Digest(data)
					held[t] = append(held[t], &c13Held{data: data, p: p, tResp: tResp, dRet: d, dLast: d})
				}
				recs[t] = append(recs[t], c13Rec{tInv: tInv, tResp: tResp, tid: t, call: k, resp: resp})
			}
		}(t)
	}
	done := make(chan struct{})
	go func() { wg.Wait(); close(done) }()
	close(start)
	select {
	case <-done:
	case <-time.After(120 * time.Second):
		fmt.Fprintln(os.Stderr, "c13: file-family clients did not finish within 120 s (deadlock?) on graph", gstr)
		os.Exit(3)
	}
	// the history has ended: one more complete, shorter update of every File parameter, then look again
	for i := range files {
		if ok, err := inst.UpdateParameter(ids[i], c13Payload(next, 6)); !ok || err != nil {
			panic("c13: final file update rejected")
		}
		next++
	}
	var allHeld []*c13Held
	for _, hs := range held {
		for _, h := range hs {
			h.recheck()
			allHeld = append(allHeld, h)
		}
	}
	sort.Slice(allHeld, func(i, j int) bool { return allHeld[i].tResp < allHeld[j].tResp })

	// events, exactly as in c13History
	var ops []c13Rec
	for _, r := range recs {
		ops = append(ops, r...)
	}
	sort.Slice(ops, func(i, j int) bool { return ops[i].tInv < ops[j].tInv })
	type ev struct {
		t   int64
		txt string
	}
	var evs []ev
	for id, o := range ops {
		evs = append(evs, ev{o.tInv, "i " + itoa(id) + " " + itoa(o.tid) + " " + o.call.String()})
		evs = append(evs, ev{o.tResp, "r " + itoa(id) + " " + o.resp})
	}
	sort.Slice(evs, func(i, j int) bool { return evs[i].t < evs[j].t })
	parts := make([]string, len(evs))
	for i, e := range evs {
		parts[i] = e.txt
	}

	// distribution
	exposed := 0 // held results followed, inside the history, by a completed update of the same parameter with a payload not longer than the held bytes
	for _, h := range allHeld {
		for _, o := range ops {
			if o.call.kind == 'u' && o.call.p == h.p && o.tInv > h.tResp && o.call.w <= len(h.data) {
				exposed++
				break
			}
		}
	}
	maxHeld := 0
	for _, hs := range held {
		if len(hs) > maxHeld {
			maxHeld = len(hs)
		}
	}
	c.Note("file.histories")
	c.Note("file.clients=" + fmt.Sprintf("%02d", clients))
	c.Note("file.gomaxprocs=" + fmt.Sprintf("%02d", procs))
	c.Note("file.parameters=" + itoa(nf))
	c.notes["file.ops"] += total
	c.notes["file.held-results"] += len(allHeld)
	c.notes["file.held-results-followed-in-history-by-update-of-same-parameter-not-longer"] += exposed
	if len(allHeld) > c.notes["file.max-held-results-in-one-history"] {
		c.notes["file.max-held-results-in-one-history"] = len(allHeld)
	}
	if maxHeld > c.notes["file.max-held-results-by-one-client"] {
		c.notes["file.max-held-results-by-one-client"] = maxHeld
	}
	changed := 0
	for _, h := range allHeld {
		if h.dLast != h.dRet {
			changed++
		}
	}
	if changed > 0 {
		c.Note("file.histories-with-a-held-result-that-changed")
		c.notes["file.held-results-that-changed"] += changed
	}

	c.Emit("c13.holds.linearizable", gstr+" "+itoa(len(parts))+" "+strings.Join(parts, " "), "true")
	pairs := make([]string, 0, 2*len(allHeld))
	for _, h := range allHeld {
		pairs = append(pairs, h.dRet, h.dLast)
	}
	line := itoa(len(allHeld))
	if len(pairs) > 0 {
		line += " " + strings.Join(pairs, " ")
	}
	c.Emit("c13.holds.results_immutable", line, "true")
}
