// Stream "c13": the three concurrent entry points of /repo/generator/graph/instance.go
// (UpdateParameter, ParameterData, Artifact) on a REAL graph.Instance, against the model
// lean/PolyVerif/Model/Linz.lean (sequential specification seqStep over the C11 node graph).
//
//	c13.seq <graph> K <call>*K                       model line: the K calls issued one after the other from one
//	                                                 goroutine; answer = the K responses
//	c13.holds.linearizable <graph> E <event>*E       oracle line: a complete concurrent history (invocation and
//	                                                 response events in timestamp order) recorded from 1..16 client
//	                                                 goroutines hammering one Instance; the driver searches a
//	                                                 linearization and validates it with the verified checkWitness
//
//	graph := N <node>*N        node := `Q v` (parameter.Value[int], DefaultValue v)
//	                                 | `S salt ns sc*ns na (len id*len)*na`   sc := `-` | id      (nodes.Struct; producers too)
//	call  := `u p v` | `d p` | `a i`          resp := `ok` | `v n` | `err`
//	event := `i opid tid <call>` | `r opid <resp>`
//
// Nodes are numbered in a topological order (every dependency has a smaller id).  Every update of a
// concurrent history writes a value that no other update of that history writes and that is no
// default value, so a state is recognisable from what a read returns.  Owner: C13.
package main

import (
	"fmt"
	"io"
	"os"
	"runtime"
	"sort"
	"strconv"
	"strings"
	"sync"
	"sync/atomic"
	"time"

	"github.com/EliCDavis/polyform/generator/artifact"
	"github.com/EliCDavis/polyform/generator/graph"
	"github.com/EliCDavis/polyform/generator/parameter"
	"github.com/EliCDavis/polyform/nodes"
	"github.com/EliCDavis/polyform/refutil"
)

func init() { streams["c13"] = runC13 }

const c13M = 2147483647

type c13In = nodes.NodeOutput[int]

// c13mix is the body of every Process(): reads ALL inputs in Dependencies() order (scalar ports
// A,B,C,D, nil ports are not read; then the array port by index).  A node built with yield=true
// gives up the processor after every input it has read (a slow user Process()).
func c13mix(salt int, yield bool, sc []c13In, ar [][]c13In) int {
	h := int64(salt)
	for _, p := range sc {
		if p == nil {
			h = (h*31 + 7) % c13M
		} else {
			h = (h*31 + 11 + int64(p.Value())) % c13M
			if yield {
				runtime.Gosched()
			}
		}
	}
	for _, a := range ar {
		h = (h*37 + 5 + int64(len(a))) % c13M
		for _, e := range a {
			h = (h*31 + 13 + int64(e.Value())) % c13M
			if yield {
				runtime.Gosched()
			}
		}
	}
	return int(h)
}

// the artifact of a producer: wraps the int its Process() computed
type c13Art struct{ v int }

func (a c13Art) Write(w io.Writer) error { _, err := fmt.Fprintf(w, "%d", a.v); return err }
func (a c13Art) Mime() string            { return "text/plain" }

// processor structs: exported interface fields = scalar ports, exported slice field = array port;
// the unexported bookkeeping fields are of kinds refutil skips.  Field order scrambled on purpose.
type c13G41 struct {
	C, A  c13In
	salt  int
	Xs    []c13In
	D, B  c13In
	yield bool
}
type c13G20 struct {
	B     c13In
	yield bool
	A     c13In
	salt  int
}
type c13P41 struct {
	Xs    []c13In
	salt  int
	A, B  c13In
	yield bool
	D, C  c13In
}
type c13P20 struct {
	salt  int
	A, B  c13In
	yield bool
}

func (t c13G41) Process() (int, error) {
	return c13mix(t.salt, t.yield, []c13In{t.A, t.B, t.C, t.D}, [][]c13In{t.Xs}), nil
}
func (t c13G20) Process() (int, error) {
	return c13mix(t.salt, t.yield, []c13In{t.A, t.B}, nil), nil
}
func (t c13P41) Process() (artifact.Artifact, error) {
	return c13Art{c13mix(t.salt, t.yield, []c13In{t.A, t.B, t.C, t.D}, [][]c13In{t.Xs})}, nil
}
func (t c13P20) Process() (artifact.Artifact, error) {
	return c13Art{c13mix(t.salt, t.yield, []c13In{t.A, t.B}, nil)}, nil
}

// ---- graph description -------------------------------------------------------------------------

type c13Desc struct {
	param bool
	def   int   // parameter: DefaultValue
	salt  int   // struct
	sc    []int // scalar ports (len 4 or 2), -1 = nil
	hasXs bool  // shape 41: one array port
	xs    []int
	prod  bool
	yield bool
	level int
}

func (d *c13Desc) deps() []int {
	var r []int
	for _, s := range d.sc {
		if s >= 0 {
			r = append(r, s)
		}
	}
	return append(r, d.xs...)
}

func c13GraphString(g []c13Desc) string {
	var b strings.Builder
	b.WriteString(itoa(len(g)))
	for _, d := range g {
		if d.param {
			b.WriteString(" Q " + itoa(d.def))
			continue
		}
		b.WriteString(" S " + itoa(d.salt) + " " + itoa(len(d.sc)))
		for _, s := range d.sc {
			if s < 0 {
				b.WriteString(" -")
			} else {
				b.WriteString(" " + itoa(s))
			}
		}
		if d.hasXs {
			b.WriteString(" 1 " + itoa(len(d.xs)))
			for _, x := range d.xs {
				b.WriteString(" " + itoa(x))
			}
		} else {
			b.WriteString(" 0")
		}
	}
	return b.String()
}

// c13Wire fills the ports of node d with `k` dependencies drawn from pool; `must` (if >= 0) is among them.
func c13Wire(c *Ctx, d *c13Desc, pool []int, must int, k int) {
	picks := []int{}
	if must >= 0 {
		picks = append(picks, must)
	}
	for len(picks) < k {
		picks = append(picks, pool[c.Rng.Intn(len(pool))]) // repeats allowed: the same node on two ports
	}
	c.Rng.Shuffle(len(picks), func(i, j int) { picks[i], picks[j] = picks[j], picks[i] })
	ns := 2
	if d.hasXs {
		ns = 4
	}
	d.sc = make([]int, ns)
	for i := range d.sc {
		d.sc[i] = -1
	}
	// scalar positions in random order; what does not fit (or by chance) goes to the array
	pos := c.Rng.Perm(ns)
	for _, p := range picks {
		if len(pos) > 0 && (!d.hasXs || c.Rng.Intn(3) > 0) {
			d.sc[pos[0]] = p
			pos = pos[1:]
		} else if d.hasXs {
			d.xs = append(d.xs, p)
		}
	}
}

// c13GenGraph: 2..4 parameters, 2..3 levels of shared interior nodes, 1..3 producers; every node is
// reachable from some producer (only such nodes get an id from AddProducer).
func c13GenGraph(c *Ctx) []c13Desc {
	var g []c13Desc
	np := 2 + c.Rng.Intn(3)
	for i := 0; i < np; i++ {
		g = append(g, c13Desc{param: true, def: i*10 + c.Rng.Intn(10)})
	}
	levels := 2 + c.Rng.Intn(2)
	prev := []int{} // ids of the previous level
	for i := 0; i < np; i++ {
		prev = append(prev, i)
	}
	for l := 1; l <= levels; l++ {
		cnt := 1 + c.Rng.Intn(3)
		if l == 1 && cnt < 2 {
			cnt = 2
		}
		var cur []int
		pool := make([]int, len(g)) // everything below this level: parameters feed nodes on different levels
		for i := range pool {
			pool[i] = i
		}
		for j := 0; j < cnt; j++ {
			d := c13Desc{salt: 1 + c.Rng.Intn(1000), hasXs: c.Rng.Intn(2) == 0, yield: c.Rng.Intn(3) == 0, level: l}
			k := 2 + c.Rng.Intn(3)
			if !d.hasXs && k > 2 {
				k = 2
			}
			c13Wire(c, &d, pool, prev[c.Rng.Intn(len(prev))], k)
			cur = append(cur, len(g))
			g = append(g, d)
		}
		prev = cur
	}
	nprod := 1 + c.Rng.Intn(3)
	pool := make([]int, len(g))
	for i := range pool {
		pool[i] = i
	}
	for j := 0; j < nprod; j++ {
		d := c13Desc{salt: 1 + c.Rng.Intn(1000), hasXs: j == 0 || c.Rng.Intn(2) == 0, yield: c.Rng.Intn(3) == 0, prod: true, level: levels + 1}
		k := 2 + c.Rng.Intn(3)
		if !d.hasXs && k > 2 {
			k = 2
		}
		c13Wire(c, &d, pool, prev[c.Rng.Intn(len(prev))], k)
		g = append(g, d)
	}
	// reachability: hang whatever no producer reaches into the array port of the first producer
	first := len(g) - nprod
	reach := make([]bool, len(g))
	var mark func(i int)
	mark = func(i int) {
		if reach[i] {
			return
		}
		reach[i] = true
		for _, d := range g[i].deps() {
			mark(d)
		}
	}
	for i := first; i < len(g); i++ {
		mark(i)
	}
	for i := first - 1; i >= 0; i-- {
		if !reach[i] {
			g[first].xs = append(g[first].xs, i)
			mark(i)
		}
	}
	return g
}

// number of distinct dependency paths from node i down to each parameter (diamond detection)
func c13Paths(g []c13Desc, i int, memo map[int]map[int]int) map[int]int {
	if m, ok := memo[i]; ok {
		return m
	}
	m := map[int]int{}
	if g[i].param {
		m[i] = 1
	} else {
		seen := map[int]bool{}
		for _, d := range g[i].deps() {
			if seen[d] {
				continue
			}
			seen[d] = true
			for p, k := range c13Paths(g, d, memo) {
				m[p] += k
			}
		}
	}
	memo[i] = m
	return m
}

// ---- the real objects ------------------------------------------------------------------------------

type c13Built struct {
	g     []c13Desc
	inst  *graph.Instance
	ids   []string // instance node id per node
	names []string // producer name per node ("" if not a producer)
	outs  []c13In
	prods []int
	pars  []int
	strs  []int // non-producer struct nodes
}

func c13Build(g []c13Desc) *c13Built {
	b := &c13Built{g: g, inst: graph.New(&refutil.TypeFactory{}), ids: make([]string, len(g)), names: make([]string, len(g)), outs: make([]c13In, len(g))}
	all := make([]nodes.Node, len(g))
	in := func(i int) c13In {
		if i < 0 {
			return nil
		}
		return b.outs[i]
	}
	for i, d := range g {
		var xs []c13In
		for _, x := range d.xs {
			xs = append(xs, b.outs[x])
		}
		switch {
		case d.param:
			p := &parameter.Value[int]{Name: "p" + itoa(i), DefaultValue: d.def}
			all[i], b.outs[i] = p, p
			b.pars = append(b.pars, i)
		case !d.prod && d.hasXs:
			n := &nodes.Struct[int, c13G41]{Data: c13G41{A: in(d.sc[0]), B: in(d.sc[1]), C: in(d.sc[2]), D: in(d.sc[3]), Xs: xs, salt: d.salt, yield: d.yield}}
			all[i], b.outs[i] = n, n.Out()
			b.strs = append(b.strs, i)
		case !d.prod:
			n := nodes.NewStruct[c13G20, int](c13G20{A: in(d.sc[0]), B: in(d.sc[1]), salt: d.salt, yield: d.yield})
			all[i], b.outs[i] = n, n
			b.strs = append(b.strs, i)
		case d.hasXs:
			n := &nodes.Struct[artifact.Artifact, c13P41]{Data: c13P41{A: in(d.sc[0]), B: in(d.sc[1]), C: in(d.sc[2]), D: in(d.sc[3]), Xs: xs, salt: d.salt, yield: d.yield}}
			all[i] = n
			b.names[i] = "art" + itoa(i) + ".txt"
			b.inst.AddProducer(b.names[i], n.Out())
			b.prods = append(b.prods, i)
		default:
			n := &nodes.Struct[artifact.Artifact, c13P20]{Data: c13P20{A: in(d.sc[0]), B: in(d.sc[1]), salt: d.salt, yield: d.yield}}
			all[i] = n
			b.names[i] = "art" + itoa(i) + ".txt"
			b.inst.AddProducer(b.names[i], n.Out())
			b.prods = append(b.prods, i)
		}
	}
	for i := range g {
		b.ids[i] = b.inst.NodeId(all[i])
		if b.ids[i] == "" {
			panic("c13: node " + itoa(i) + " got no id from the instance (not reachable from a producer)")
		}
	}
	return b
}

type c13Call struct {
	kind  byte // 'u' 'd' 'a'
	p, v  int
	yield bool // runtime.Gosched() before issuing it
}

func (k c13Call) String() string {
	switch k.kind {
	case 'u':
		return "u " + itoa(k.p) + " " + itoa(k.v)
	case 'd':
		return "d " + itoa(k.p)
	}
	return "a " + itoa(k.p)
}

// raw result of one call, decoded into a response token after the response timestamp was taken
type c13Raw struct {
	panicked bool
	ok       bool
	err      error
	data     []byte
	art      artifact.Artifact
}

func (b *c13Built) invoke(k c13Call, payload []byte) (r c13Raw) {
	defer func() {
		if e := recover(); e != nil {
			r = c13Raw{panicked: true}
		}
	}()
	switch k.kind {
	case 'u':
		r.ok, r.err = b.inst.UpdateParameter(b.ids[k.p], payload)
	case 'd':
		r.data = b.inst.ParameterData(b.ids[k.p])
	default:
		r.art = b.inst.Artifact(b.names[k.p])
	}
	return r
}

func c13Resp(k c13Call, r c13Raw) string {
	if r.panicked {
		return "err"
	}
	switch k.kind {
	case 'u':
		if r.ok && r.err == nil {
			return "ok"
		}
		return "err"
	case 'd':
		n, err := strconv.Atoi(string(r.data))
		if err != nil || n < 0 {
			return "bad:" + fmt.Sprintf("%x", r.data)
		}
		return "v " + itoa(n)
	}
	a, ok := r.art.(c13Art)
	if !ok || a.v < 0 {
		return fmt.Sprintf("bad:%T", r.art)
	}
	return "v " + itoa(a.v)
}

// c13GenCall draws one call; *next is the counter of unique update values.
func c13GenCall(c *Ctx, b *c13Built, next *int) c13Call {
	k := c13Call{yield: c.Rng.Intn(4) == 0}
	switch r := c.Rng.Intn(100); {
	case r < 40:
		k.kind, k.p, k.v = 'u', b.pars[c.Rng.Intn(len(b.pars))], *next
		*next++
	case r < 55:
		k.kind, k.p = 'd', b.pars[c.Rng.Intn(len(b.pars))]
	case r < 95:
		k.kind, k.p = 'a', b.prods[c.Rng.Intn(len(b.prods))]
	case r < 98:
		// not a parameter: i.Parameter panics inside the critical section, the deferred Unlock runs
		all := append(append([]int{}, b.strs...), b.prods...)
		k.kind, k.p, k.v = 'u', all[c.Rng.Intn(len(all))], *next
		*next++
	default:
		all := append(append([]int{}, b.strs...), b.prods...)
		k.kind, k.p = 'd', all[c.Rng.Intn(len(all))]
	}
	return k
}

// ---- (a) sequential lines ------------------------------------------------------------------------

func c13Seq(c *Ctx) {
	g := c13GenGraph(c)
	b := c13Build(g)
	K := 1 + c.Rng.Intn(24)
	next := 1000
	var calls, resps []string
	for j := 0; j < K; j++ {
		k := c13GenCall(c, b, &next)
		if k.kind == 'u' && c.Rng.Intn(4) == 0 {
			k.v = c.Rng.Intn(5) // sequential lines also write repeated / small values
		}
		calls = append(calls, k.String())
		resps = append(resps, c13Resp(k, b.invoke(k, []byte(itoa(k.v)))))
	}
	c.Emit("c13.seq", c13GraphString(g)+" "+itoa(K)+" "+strings.Join(calls, " "), strings.Join(resps, " "))
}

// ---- (b) concurrent histories ------------------------------------------------------------------------

type c13Rec struct {
	tInv, tResp int64
	tid         int
	call        c13Call
	resp        string
}

var c13Clients = []int{2, 3, 4, 8, 16}
var c13Procs = []int{1, 2, 4, 16}

func c13History(c *Ctx, clients int, fixedProcs bool) {
	g := c13GenGraph(c)
	b := c13Build(g)
	memo := map[int]map[int]int{}
	for _, p := range b.prods {
		for _, k := range c13Paths(g, p, memo) {
			if k >= 2 {
				c.Note("graph.producer-reaches-parameter-on-2+-paths")
				break
			}
		}
	}
	c.Note("graph.params=" + itoa(len(b.pars)))
	c.Note("graph.producers=" + itoa(len(b.prods)))

	// the plan: per client its calls; update values unique over the whole history
	next := 1000
	plan := make([][]c13Call, clients)
	payload := make([][][]byte, clients)
	total := 0
	for t := range plan {
		n := 1 + c.Rng.Intn(8)
		if clients == 1 {
			n = 4 + c.Rng.Intn(20)
		}
		for j := 0; j < n; j++ {
			k := c13GenCall(c, b, &next)
			plan[t] = append(plan[t], k)
			payload[t] = append(payload[t], []byte(itoa(k.v)))
		}
		total += n
	}
	procs := 0
	if !fixedProcs {
		procs = c13Procs[c.Rng.Intn(len(c13Procs))]
		old := runtime.GOMAXPROCS(procs)
		defer runtime.GOMAXPROCS(old)
	} else {
		procs = runtime.GOMAXPROCS(0)
	}

	var ctr atomic.Int64
	recs := make([][]c13Rec, clients)
	start := make(chan struct{})
	var wg sync.WaitGroup
	for t := 0; t < clients; t++ {
		wg.Add(1)
		go func(t int) {
			defer wg.Done()
			<-start
			for j, k := range plan[t] {
				if k.yield {
					runtime.Gosched()
				}
				tInv := ctr.Add(1)
				raw := b.invoke(k, payload[t][j])
				tResp := ctr.Add(1)
				recs[t] = append(recs[t], c13Rec{tInv: tInv, tResp: tResp, tid: t, call: k, resp: c13Resp(k, raw)})
			}
		}(t)
	}
	done := make(chan struct{})
	go func() { wg.Wait(); close(done) }()
	close(start)
	select {
	case <-done:
	case <-time.After(120 * time.Second):
		fmt.Fprintln(os.Stderr, "c13: clients did not finish within 120 s (deadlock: a lock is never released?) on graph", c13GraphString(g))
		os.Exit(3)
	}

	var ops []c13Rec
	for _, r := range recs {
		ops = append(ops, r...)
	}
	sort.Slice(ops, func(i, j int) bool { return ops[i].tInv < ops[j].tInv })
	type ev struct {
		t   int64
		txt string
		inv bool
	}
	var evs []ev
	for id, o := range ops {
		evs = append(evs, ev{o.tInv, "i " + itoa(id) + " " + itoa(o.tid) + " " + o.call.String(), true})
		evs = append(evs, ev{o.tResp, "r " + itoa(id) + " " + o.resp, false})
	}
	sort.Slice(evs, func(i, j int) bool { return evs[i].t < evs[j].t })
	parts := make([]string, len(evs))
	open, maxOpen := 0, 0
	for i, e := range evs {
		parts[i] = e.txt
		if e.inv {
			open++
			if open > maxOpen {
				maxOpen = open
			}
		} else {
			open--
		}
	}
	// distribution: overlapping pairs
	anyOverlap, updArt, artArt := false, false, false
	for i := range ops {
		for j := i + 1; j < len(ops); j++ {
			if ops[j].tInv > ops[i].tResp { // ops sorted by invocation: no later op overlaps i either
				break
			}
			anyOverlap = true
			ki, kj := ops[i].call.kind, ops[j].call.kind
			if (ki == 'u' && kj == 'a') || (ki == 'a' && kj == 'u') {
				updArt = true
			}
			if ki == 'a' && kj == 'a' {
				artArt = true
			}
		}
	}
	c.Note("hist.clients=" + fmt.Sprintf("%02d", clients))
	c.Note("hist.gomaxprocs=" + fmt.Sprintf("%02d", procs))
	switch {
	case total <= 8:
		c.Note("hist.ops=01-08")
	case total <= 16:
		c.Note("hist.ops=09-16")
	case total <= 32:
		c.Note("hist.ops=17-32")
	case total <= 64:
		c.Note("hist.ops=33-64")
	default:
		c.Note("hist.ops=65-128")
	}
	c.Note("hist.max-simultaneously-open-ops=" + fmt.Sprintf("%02d", maxOpen))
	if anyOverlap {
		c.Note("hist.with-overlapping-ops")
	}
	if updArt {
		c.Note("hist.with-overlapping-update+artifact")
	}
	if artArt {
		c.Note("hist.with-overlapping-artifact+artifact")
	}
	for _, o := range ops {
		if o.resp == "err" {
			c.Note("hist.with-err-response")
			break
		}
	}
	c.Emit("c13.holds.linearizable", c13GraphString(g)+" "+itoa(len(parts))+" "+strings.Join(parts, " "), "true")
}

// c.N = number of concurrent histories; on top of it N/2 sequential model lines and N/8 one-client
// histories through the same oracle.
func runC13(c *Ctx) {
	fixedProcs := os.Getenv("GOMAXPROCS") != "" // the race extra pins GOMAXPROCS from outside
	if fixedProcs {
		c.Note("gomaxprocs-pinned-by-environment=" + itoa(runtime.GOMAXPROCS(0)))
	}
	for i := 0; i < c.N; i++ {
		if i%2 == 0 {
			c13Seq(c)
		}
		if i%8 == 0 {
			c13History(c, 1, fixedProcs)
		}
		c13History(c, c13Clients[c.Rng.Intn(len(c13Clients))], fixedProcs)
	}
}
