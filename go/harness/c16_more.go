package main

// C16, stream c16more — input classes added after two missed seeded changes:
//
//  (A) ElementsWithinRange with a radius that is EXACTLY the measured distance to some element ("everything at least as
//      close as element k"), its float neighbours, negative radii, radii whose square underflows (1e-200, 1e-170), 0 —
//      on every element kind / depth / position class of the main stream.  Oracle c16.holds.eq_scan (tree vs exhaustive
//      scan with the unchanged predicate Distance <= r) + model line c16.oct.within.
//  (B) time-dependent bounding boxes: NewAnimatedSphere with a moving centre inside BVHs over >= 2 objects built with a
//      non-trivial time interval, rays with random times aimed where the sphere is at that time: BVHNode.Hit and
//      rendering.Tree.Hit vs HitList.Hit (c16.holds.bvh / bvh_scan); and BoundingBox called REPEATEDLY with different
//      intervals on the same object, each answer compared with the model's sphereBox (c16.holds.box_history) —
//      history / caching class.

import (
	"fmt"
	"math"
	"strings"

	"github.com/EliCDavis/polyform/math/geometry"
	"github.com/EliCDavis/polyform/rendering"
	"github.com/EliCDavis/vector/vector3"
)

func init() { streams["c16more"] = runC16More }

func runC16More(c *Ctx) {
	for k := 0; k < c.N; k++ {
		c.c16rangeCase()
		c.c16animatedCase()
	}
}

func (c *Ctx) c16rangeCase() {
	s := c.c16elements()
	n := len(s.elems)
	depth := c.Rng.Intn(8) - 1
	dtok := fmt.Sprint(depth)
	if depth < 0 {
		dtok = "auto"
	}
	tree := s.build(depth)
	if tree == nil {
		return
	}
	bounds := tree.BoundingBox()
	modelled := s.enc != ""
	pre := dtok + " " + s.enc
	boxes := make([]geometry.AABB, n)
	for i, e := range s.elems {
		boxes[i] = e.BoundingBox()
	}
	for qi := 0; qi < 2; qi++ {
		v, _ := c.c16query(s, bounds)
		ds := make([]float64, n)
		for i := range boxes {
			ds[i] = boxes[i].ClosestPoint(v).Distance(v)
		}
		type rad struct {
			r     float64
			class string
		}
		k1, k2 := c.Rng.Intn(n), c.Rng.Intn(n)
		rs := []rad{
			{ds[k1], "exact"},
			{ds[k2], "exact"},
			{math.Nextafter(ds[k1], math.Inf(1)), "exact-up"},
			{math.Nextafter(ds[k1], math.Inf(-1)), "exact-down"},
			{-ds[k2], "negative"},
			{-0.5 - c.Rng.Float64()*20, "negative"},
			{1e-200, "tiny"},
			{1e-170, "tiny"},
			{0, "zero"},
		}
		for _, rr := range rs {
			r := rr.r
			res := tree.ElementsWithinRange(v, r)
			scan := []int{}
			for i, d := range ds {
				if d <= r {
					scan = append(scan, i)
				}
			}
			c.Note("within." + rr.class)
			if len(scan) > 0 && len(scan) < n {
				c.Note("within." + rr.class + ".partial")
			}
			c.Emit("c16.holds.eq_scan", "within@"+rr.class+"/"+s.kind+"/"+dtok+" "+c16cnt(res)+" "+c16cnt(scan), "true")
			if modelled {
				c.Emit("c16.oct.within", pre+" "+c16v(v)+" "+F(r), c16ids(res))
			}
		}
	}
}

type c16anim struct {
	a, b v3
	r    float64
	sp   *rendering.Sphere
}

func (s c16anim) at(t float64) v3 {
	if s.a == s.b {
		return s.a
	}
	return s.a.Add(s.b.Sub(s.a).Scale(t))
}

func (c *Ctx) c16interval() (float64, float64) {
	switch c.Rng.Intn(5) {
	case 0:
		return 0, 1
	case 1:
		return 0.25, 1
	case 2:
		t := c.Rng.Float64()
		return t, t
	case 3:
		return 0, 0
	default:
		t0 := c.Rng.Float64() * 0.6
		return t0, t0 + c.Rng.Float64()*(1-t0)
	}
}

func (c *Ctx) c16newAnim(moving bool) c16anim {
	a := vector3.New(c.Rng.Float64()*40-20, c.Rng.Float64()*40-20, c.Rng.Float64()*40-20)
	s := c16anim{a: a, b: a, r: 0.3 + c.Rng.Float64()*2}
	if moving {
		s.b = a.Add(vector3.New(c.Rng.Float64()*30-15, c.Rng.Float64()*30-15, c.Rng.Float64()*30-15))
		an := s
		s.sp = rendering.NewAnimatedSphere(s.r, nil, func(t float64) v3 { return an.at(t) })
	} else {
		s.sp = rendering.NewSphere(a, s.r, nil)
	}
	return s
}

func (c *Ctx) c16boxHistory(s c16anim, where string) {
	for i := 0; i < 3; i++ {
		t0, t1 := c.c16interval()
		b := s.sp.BoundingBox(t0, t1)
		c.Emit("c16.holds.box_history", where+" "+c16box(*b)+" "+c16v(s.at(t0))+" "+c16v(s.at(t1))+" "+F(s.r), "true")
	}
}

func (c *Ctx) c16animatedCase() {
	n := 2 + c.Rng.Intn(7)
	objs := make([]c16anim, n)
	list := make(rendering.HitList, n)
	nmov := 0
	for i := range objs {
		moving := c.Rng.Intn(2) == 0 || (i == n-1 && nmov == 0)
		if moving {
			nmov++
		}
		objs[i] = c.c16newAnim(moving)
		list[i] = objs[i].sp
	}
	// a fresh object asked repeatedly, before anything else touched it
	c.c16boxHistory(c.c16newAnim(true), "fresh")
	for rep := 0; rep < 2; rep++ {
		t0, t1 := c.c16interval()
		c.Note(fmt.Sprintf("animated.interval.%v", t0 != t1))
		bvh := rendering.NewBVHTree(append([]rendering.Hittable(nil), list...), 0, n, t0, t1)
		oct := rendering.NewBVH(append([]rendering.Hittable(nil), list...), t0, t1)
		for q := 0; q < 4; q++ {
			time := t0 + (t1-t0)*c.Rng.Float64()
			switch c.Rng.Intn(4) {
			case 0:
				time = t0
			case 1:
				time = t1
			}
			ti := c.Rng.Intn(n)
			centre := objs[ti].at(time)
			off := vector3.New(c.Rng.NormFloat64(), c.Rng.NormFloat64(), c.Rng.NormFloat64())
			if off.Length() < 1e-9 {
				continue
			}
			target := centre.Add(off.Normalized().Scale(objs[ti].r * c.Rng.Float64()))
			o := vector3.New(c.Rng.Float64()*80-40, c.Rng.Float64()*80-40, c.Rng.Float64()*80-40)
			if target.Distance(o) < 1e-9 {
				continue
			}
			ray := rendering.NewTemporalRay(o, target.Sub(o), time)
			mn, mx := 0., 1e6
			recL := rendering.NewHitRecord()
			hitL := list.Hit(&ray, mn, mx, recL)
			per := make([]string, 0, 2*n)
			for i := 0; i < n; i++ {
				r := rendering.NewHitRecord()
				h := list[i].Hit(&ray, mn, mx, r)
				per = append(per, B(h), F(r.Distance))
			}
			if hitL {
				c.Note("animated.hit")
			} else {
				c.Note("animated.miss")
			}
			if objs[ti].a != objs[ti].b && time != 0 {
				c.Note("animated.moving-target.time!=0")
			}
			recB := rendering.NewHitRecord()
			hitB := bvh.Hit(&ray, mn, mx, recB)
			c.Emit("c16.holds.bvh", "bvhnode-animated "+B(hitB)+" "+F(recB.Distance)+" "+B(hitL)+" "+F(recL.Distance), "true")
			c.Emit("c16.holds.bvh_scan", "bvhnode-animated "+B(hitB)+" "+F(recB.Distance)+" "+fmt.Sprint(n)+" "+strings.Join(per, " "), "true")
			recO := rendering.NewHitRecord()
			hitO := oct.Hit(&ray, mn, mx, recO)
			c.Emit("c16.holds.bvh", "octbvh-animated "+B(hitO)+" "+F(recO.Distance)+" "+B(hitL)+" "+F(recL.Distance), "true")
		}
		// the same objects, after a hierarchy was built over them, asked again with other intervals
		c.c16boxHistory(objs[c.Rng.Intn(n)], "after-build")
	}
}
