// Operations of modeling.Mesh / meshops that have no Lean model: they are called on generated
// well-formed meshes and the theorem predicate WF is evaluated on every mesh they return
// (`c02.holds.wf`).  Raw whole-attribute setters that take caller-supplied data without checking it
// (ClearAttributeData, SetFloatNData, CopyFloatNAttribute) go through `c02.holds.wf_raw_setter guard mesh`:
// the oracle is "guard → WF", where guard = the caller respected the setter's side condition (notes/C02.md);
// what happens when the guard is violated is counted in the notes ("rawsetter:...") and not judged.
package main

import (
	"fmt"
	"image"
	"image/color"
	"math"

	"github.com/EliCDavis/polyform/math/geometry"
	"github.com/EliCDavis/polyform/modeling"
	"github.com/EliCDavis/polyform/modeling/meshops"
	"github.com/EliCDavis/vector/vector2"
	"github.com/EliCDavis/vector/vector3"
	"github.com/EliCDavis/vector/vector4"
)

// goWF re-states the predicate in Go ONLY to count, in the distribution notes, how often a violated
// setter guard actually produced a non-well-formed mesh. It never decides a verdict.
func goWF(m modeling.Mesh) (ok bool) {
	defer func() {
		if recover() != nil {
			ok = false
		}
	}()
	n := -1
	chk := func(l int) bool {
		if n < 0 {
			n = l
		}
		return n == l
	}
	for _, a := range m.Float1Attributes() {
		if !chk(m.Float1Attribute(a).Len()) {
			return false
		}
	}
	for _, a := range m.Float2Attributes() {
		if !chk(m.Float2Attribute(a).Len()) {
			return false
		}
	}
	for _, a := range m.Float3Attributes() {
		if !chk(m.Float3Attribute(a).Len()) {
			return false
		}
	}
	for _, a := range m.Float4Attributes() {
		if !chk(m.Float4Attribute(a).Len()) {
			return false
		}
	}
	if n < 0 {
		n = 0
	}
	idx := m.Indices()
	for i := 0; i < idx.Len(); i++ {
		if idx.At(i) < 0 || idx.At(i) >= n {
			return false
		}
	}
	switch m.Topology() {
	case modeling.TriangleTopology:
		return idx.Len()%3 == 0
	case modeling.QuadTopology:
		return idx.Len()%4 == 0
	case modeling.LineTopology:
		return idx.Len()%2 == 0
	}
	return true
}

// rawSetter emits the guarded oracle line for one raw-setter result.
func (c *Ctx) rawSetter(kind string, guard bool, f func() modeling.Mesh) {
	var m modeling.Mesh
	st := guardMesh(func() string { m = f(); return "" })
	if st != "" {
		c.Note("rawsetter:" + kind + ":" + st)
		if st == "panic" {
			c.Emit("c02.holds.wf_raw_setter", "1 setter-panicked "+kind, "panic")
		}
		return
	}
	g := "0"
	if guard {
		g = "1"
	}
	s := guardMesh(func() string { return shapeStr(m) })
	wf := goWF(m)
	c.Note(fmt.Sprintf("rawsetter:%s:guard=%s:wf=%v", kind, g, wf))
	if s == "panic" || s == "rejected" {
		c.Emit("c02.holds.wf_raw_setter", g+" unreadable "+kind, B(!guard))
		return
	}
	c.Emit("c02.holds.wf_raw_setter", g+" "+s, "true")
}

// extra runs one un-modelled operation on the well-formed mesh m. Returns a result to continue the
// sequence with (only results of guarded / checked operations), or nil.
func (c *Ctx) extraOp(m modeling.Mesh) *modeling.Mesh {
	n := m.AttributeLength()
	nAttrs := len(m.Float1Attributes()) + len(m.Float2Attributes()) + len(m.Float3Attributes()) + len(m.Float4Attributes())
	checked := func(tag string, f func() []modeling.Mesh) *modeling.Mesh {
		var out []modeling.Mesh
		st := guardMesh(func() string { out = f(); return "" })
		if st == "rejected" {
			c.Note("extra-rejected:" + tag)
			return nil
		}
		if st == "panic" {
			c.Note("extra-panic:" + tag)
			c.Emit("c02.holds.wf", "operation-panicked "+tag+" "+meshStr(m), "panic")
			return nil
		}
		c.Note("extra-ok:" + tag)
		for _, o := range out {
			c.wf(tag, o)
		}
		if len(out) == 0 {
			return nil
		}
		return &out[c.Rng.Intn(len(out))]
	}
	mkV3 := func(k int) []vector3.Float64 {
		d := make([]vector3.Float64, k)
		for i := range d {
			d[i] = vector3.New(float64(7000+3*i), float64(7001+3*i), float64(7002+3*i))
		}
		return d
	}
	wrong := func() int { // a length different from the common one
		if n == 0 || c.Rng.Intn(2) == 0 {
			return n + 1 + c.Rng.Intn(3)
		}
		return c.Rng.Intn(n)
	}
	switch c.Rng.Intn(14) {
	case 0: // ClearAttributeData keeps the indices: guard = there is no index
		c.rawSetter("ClearAttributeData", m.Indices().Len() == 0, func() modeling.Mesh { return m.ClearAttributeData() })
	case 1: // SetFloat3Data with arrays of the common length (guard holds when every remaining array agrees: it does, m is WF)
		k := n
		if nAttrs-len(m.Float3Attributes()) == 0 && m.Indices().Len() == 0 {
			k = c.Rng.Intn(5)
		}
		data := map[string][]vector3.Float64{modeling.PositionAttribute: mkV3(k)}
		if c.Rng.Intn(2) == 0 {
			data["Other"] = mkV3(k)
		}
		if c.Rng.Intn(6) == 0 {
			data = map[string][]vector3.Float64{} // drops every Float3 array
		}
		guard := len(data) > 0 || nAttrs-len(m.Float3Attributes()) > 0 || m.Indices().Len() == 0
		c.rawSetter("SetFloat3Data:right-length", guard, func() modeling.Mesh { return m.SetFloat3Data(data) })
	case 2: // SetFloatNData with a wrong length: caller error
		k := wrong()
		switch c.Rng.Intn(4) {
		case 0:
			c.rawSetter("SetFloat1Data:wrong-length", false, func() modeling.Mesh {
				return m.SetFloat1Data(map[string][]float64{modeling.ClassAttribute: make([]float64, k)})
			})
		case 1:
			c.rawSetter("SetFloat2Data:wrong-length", false, func() modeling.Mesh {
				return m.SetFloat2Data(map[string][]vector2.Float64{modeling.TexCoordAttribute: make([]vector2.Float64, k)})
			})
		case 2:
			c.rawSetter("SetFloat3Data:wrong-length", false, func() modeling.Mesh {
				return m.SetFloat3Data(map[string][]vector3.Float64{modeling.PositionAttribute: mkV3(k)})
			})
		default:
			c.rawSetter("SetFloat4Data:wrong-length", false, func() modeling.Mesh {
				return m.SetFloat4Data(map[string][]vector4.Float64{modeling.ColorAttribute: make([]vector4.Float64, k)})
			})
		}
	case 3: // SetFloat1/2/4Data right length
		k := n
		others := func(own int) bool { return nAttrs-own > 0 || m.Indices().Len() == 0 }
		switch c.Rng.Intn(3) {
		case 0:
			c.rawSetter("SetFloat1Data:right-length", others(len(m.Float1Attributes())) || k > 0 || true && m.Indices().Len() == 0, func() modeling.Mesh {
				return m.SetFloat1Data(map[string][]float64{modeling.ClassAttribute: make([]float64, k)})
			})
		case 1:
			c.rawSetter("SetFloat2Data:right-length", true, func() modeling.Mesh {
				return m.SetFloat2Data(map[string][]vector2.Float64{modeling.TexCoordAttribute: make([]vector2.Float64, k)})
			})
		default:
			c.rawSetter("SetFloat4Data:right-length", true, func() modeling.Mesh {
				return m.SetFloat4Data(map[string][]vector4.Float64{modeling.ColorAttribute: make([]vector4.Float64, k)})
			})
		}
	case 4: // CopyFloatNAttribute from a source of the same / another vertex count / lacking the attribute
		src := m
		guard := true
		kind := "same-length"
		switch c.Rng.Intn(3) {
		case 1:
			src = c.genMesh(meshGen{topo: topoAll, needPos: true, maxVerts: 8})
			kind = "other-mesh"
			sl := src.AttributeLength()
			// copying Position from src: right when src has as many vertices, or m has no other array and no index beyond
			guard = sl == n && n > 0
			if !guard && sl == 0 {
				// src has no Position: the key is deleted from m
				guard = nAttrs > 1 || !m.HasFloat3Attribute(modeling.PositionAttribute) || m.Indices().Len() == 0
			}
			if !src.HasFloat3Attribute(modeling.PositionAttribute) {
				guard = nAttrs > 1 || !m.HasFloat3Attribute(modeling.PositionAttribute) || m.Indices().Len() == 0
			}
		case 2:
			src = modeling.EmptyMesh(m.Topology())
			kind = "missing-in-source"
			guard = nAttrs > 1 || !m.HasFloat3Attribute(modeling.PositionAttribute) || m.Indices().Len() == 0
		}
		if kind == "same-length" && !m.HasFloat3Attribute(modeling.PositionAttribute) {
			kind = "missing-in-source"
		}
		c.rawSetter("CopyFloat3Attribute:"+kind, guard, func() modeling.Mesh { return m.CopyFloat3Attribute(src, modeling.PositionAttribute) })
		switch c.Rng.Intn(3) {
		case 0:
			c.rawSetter("CopyFloat1Attribute:self", true, func() modeling.Mesh { return m.CopyFloat1Attribute(m, modeling.ClassAttribute) })
		case 1:
			c.rawSetter("CopyFloat2Attribute:self", true, func() modeling.Mesh { return m.CopyFloat2Attribute(m, modeling.TexCoordAttribute) })
		default:
			c.rawSetter("CopyFloat4Attribute:self", true, func() modeling.Mesh { return m.CopyFloat4Attribute(m, modeling.ColorAttribute) })
		}
	case 5, 6: // SliceByPlaneWithAttribute (both halves) and the transformer
		// since /repo dbd042b non-triangle meshes and missing attributes are rejected (require-panic / error)
		attr := c.pickV3Attr(m)
		if !m.HasFloat3Attribute(attr) && c.Rng.Intn(2) == 0 {
			attr = modeling.PositionAttribute
		}
		plane := geometry.NewPlaneFromPoints(c.smallV3().Scale(0.5), c.smallV3().Add(vector3.New(0.5, 0., 0.)), c.smallV3().Add(vector3.New(0., 0., 0.5)))
		if c.Rng.Intn(2) == 0 {
			return checked("SliceByPlaneWithAttribute", func() []modeling.Mesh {
				a, b := meshops.SliceByPlaneWithAttribute(m, plane, attr)
				return []modeling.Mesh{a, b}
			})
		}
		return checked("SliceByPlaneTransformer", func() []modeling.Mesh {
			return tr(meshops.SliceByPlaneTransformer{Attribute: attr, Plane: plane, SliceToKeep: meshops.SliceByPlaneTransformerSide(c.Rng.Intn(2))}, m)
		})
	case 7:
		attr := c.pickV3Attr(m)
		lut := image.NewRGBA(image.Rect(0, 0, 256, 16))
		for x := 0; x < 256; x++ {
			for y := 0; y < 16; y++ {
				lut.Set(x, y, color.RGBA{uint8(x), uint8(y * 16), uint8(255 - x), 255})
			}
		}
		return checked("ColorGradingLut", func() []modeling.Mesh { return tr(meshops.ColorGradingLutTransformer{Attribute: attr, LUT: lut}, m) })
	case 8:
		attr := c.pickV3Attr(m)
		t := meshops.VertexColorSpaceTransformation(c.Rng.Intn(2))
		return checked("VertexColorSpace", func() []modeling.Mesh { return one(meshops.VertexColorSpace(m, attr, t)) })
	case 9:
		dist := []float64{0, 0.1, 1, 5}[c.Rng.Intn(4)]
		finite := true
		if m.HasFloat3Attribute(modeling.PositionAttribute) {
			d := m.Float3Attribute(modeling.PositionAttribute)
			for i := 0; i < d.Len(); i++ {
				v := d.At(i)
				if math.IsNaN(v.X()+v.Y()+v.Z()) || math.IsInf(v.X()+v.Y()+v.Z(), 0) {
					finite = false
				}
			}
		}
		if !finite {
			c.Note("extra-skipped:SmoothNormalsImplicitWeld:non-finite")
			return nil
		}
		return checked("SmoothNormalsImplicitWeld", func() []modeling.Mesh {
			return tr(meshops.SmoothNormalsImplicitWeldTransformer{Distance: dist}, m)
		})
	case 10:
		if m.Topology() == modeling.LineLoopTopology && m.Indices().Len() == 0 {
			return nil // VertexNeighborTable indexes m.indices[0] (observation in notes/C02.md)
		}
		attr := c.pickV3Attr(m)
		return checked("LaplacianSmoothAlongAxis", func() []modeling.Mesh {
			return one(meshops.LaplacianSmoothAlongAxis(m, attr, c.Rng.Intn(3), 0.5, vector3.New(0., 1., 0.)))
		})
	case 11:
		a, b := c.pickV3Attr(m), c.pickV3Attr(m)
		return checked("ScaleAttributeAlongNormal", func() []modeling.Mesh {
			return one(meshops.ScaleAttributeAlongNormal(m, a, b, 0.5))
		})
	case 12:
		return checked("ScaleAttributeAlongNormalTransformer", func() []modeling.Mesh {
			return tr(meshops.ScaleAttributeAlongNormalTransformer{Amount: 2}, m)
		})
	case 13:
		return checked("ScaleAttribute2D+Normalize2D", func() []modeling.Mesh {
			o := tr(meshops.ScaleAttribute2DTransformer{Origin: vector2.New(1., 1.), Amount: vector2.New(2., 3.)}, m)
			return tr(meshops.NormalizeAttribute2DTransformer{Attribute: modeling.TexCoordAttribute}, o[0])
		})
	}
	return nil
}
