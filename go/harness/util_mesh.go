// Shared by the c02 and c03 streams: mesh serialisation (line protocol of lean/Driver/MeshIO.lean),
// structured generators of well-formed meshes, and the table of mesh operations with the request
// each one is written as.  Owner: C02/C03 builder.
package main

import (
	"fmt"
	"math"
	"runtime"
	"sort"
	"strconv"
	"strings"
	"sync"

	"github.com/EliCDavis/polyform/math/geometry"
	"github.com/EliCDavis/polyform/math/quaternion"
	"github.com/EliCDavis/polyform/math/trs"
	"github.com/EliCDavis/polyform/modeling"
	"github.com/EliCDavis/polyform/modeling/meshops"
	"github.com/EliCDavis/polyform/modeling/primitives"
	"github.com/EliCDavis/polyform/modeling/repeat"
	"github.com/EliCDavis/vector/vector2"
	"github.com/EliCDavis/vector/vector3"
	"github.com/EliCDavis/vector/vector4"
)

// ---- serialisation ---------------------------------------------------------------------------

func matID(mm modeling.MeshMaterial) int {
	if mm.Material == nil {
		return 999
	}
	id, err := strconv.Atoi(mm.Material.Name)
	if err != nil {
		return 998
	}
	return id
}

// meshTokens walks the mesh through its public accessors only (Indices, FloatNAttributes,
// FloatNAttribute(name).At(i)); full=false omits the values (shape only, prefix "S").
// fsN prints floats as IEEE bit patterns; every NaN becomes one canonical pattern (the driver does the same)
func fsN(fs ...float64) string {
	parts := make([]string, len(fs))
	for i, f := range fs {
		if math.IsNaN(f) {
			parts[i] = "7ff8000000000001"
		} else {
			parts[i] = F(f)
		}
	}
	return strings.Join(parts, " ")
}

func meshTokens(m modeling.Mesh, full bool) string {
	var sb strings.Builder
	if full {
		sb.WriteString("M ")
	} else {
		sb.WriteString("S ")
	}
	idx := m.Indices()
	fmt.Fprintf(&sb, "%d %d", int(m.Topology()), idx.Len())
	for i := 0; i < idx.Len(); i++ {
		fmt.Fprintf(&sb, " %d", idx.At(i))
	}
	mats := m.Materials()
	fmt.Fprintf(&sb, " %d", len(mats))
	for _, mm := range mats {
		fmt.Fprintf(&sb, " %d %d", mm.PrimitiveCount, matID(mm))
	}
	n1, n2, n3, n4 := m.Float1Attributes(), m.Float2Attributes(), m.Float3Attributes(), m.Float4Attributes()
	fmt.Fprintf(&sb, " %d", len(n1)+len(n2)+len(n3)+len(n4))
	for _, a := range n1 {
		d := m.Float1Attribute(a)
		fmt.Fprintf(&sb, " 1 %s %d", tok(a), d.Len())
		if full {
			for i := 0; i < d.Len(); i++ {
				sb.WriteString(" " + fsN(d.At(i)))
			}
		}
	}
	for _, a := range n2 {
		d := m.Float2Attribute(a)
		fmt.Fprintf(&sb, " 2 %s %d", tok(a), d.Len())
		if full {
			for i := 0; i < d.Len(); i++ {
				v := d.At(i)
				sb.WriteString(" " + fsN(v.X(), v.Y()))
			}
		}
	}
	for _, a := range n3 {
		d := m.Float3Attribute(a)
		fmt.Fprintf(&sb, " 3 %s %d", tok(a), d.Len())
		if full {
			for i := 0; i < d.Len(); i++ {
				v := d.At(i)
				sb.WriteString(" " + fsN(v.X(), v.Y(), v.Z()))
			}
		}
	}
	for _, a := range n4 {
		d := m.Float4Attribute(a)
		fmt.Fprintf(&sb, " 4 %s %d", tok(a), d.Len())
		if full {
			for i := 0; i < d.Len(); i++ {
				v := d.At(i)
				sb.WriteString(" " + fsN(v.X(), v.Y(), v.Z(), v.W()))
			}
		}
	}
	return sb.String()
}

// tok makes an attribute name one protocol token (names like "track count" contain blanks)
func tok(name string) string { return strings.ReplaceAll(name, " ", "_") }

func meshStr(m modeling.Mesh) string  { return meshTokens(m, true) }
func shapeStr(m modeling.Mesh) string { return meshTokens(m, false) }

// guardMesh maps a deliberate rejection (error return, panic(err) raised by a require* check)
// to "rejected" and a runtime error (index out of range, nil dereference: an accessor reading
// out of range) to "panic".
func guardMesh(f func() string) (s string) {
	defer func() {
		if r := recover(); r != nil {
			if _, ok := r.(runtime.Error); ok {
				s = "panic"
			} else {
				s = "rejected"
			}
		}
	}()
	return f()
}

// ---- generators ------------------------------------------------------------------------------

var sharedMaterials = func() []*modeling.Material {
	out := make([]*modeling.Material, 5)
	for i := range out {
		out[i] = &modeling.Material{Name: strconv.Itoa(i)}
	}
	return out
}()

type attrSpec struct {
	width int
	name  string
}

var attrPool = []attrSpec{
	{3, modeling.PositionAttribute}, {3, modeling.NormalAttribute}, {2, modeling.TexCoordAttribute},
	{1, modeling.ClassAttribute}, {4, modeling.ColorAttribute}, {3, "Extra"}, {1, modeling.IntensityAttribute},
	{4, modeling.JointAttribute}, {2, "Position"}, // same name in another width: a different map entry
}

var topoAll = []modeling.Topology{modeling.TriangleTopology, modeling.PointTopology, modeling.QuadTopology,
	modeling.LineTopology, modeling.LineStripTopology, modeling.LineLoopTopology}

type meshGen struct {
	topo      []modeling.Topology
	needPos   bool // always include the Float3 Position attribute
	maxVerts  int
	materials bool
}

// position values: a small integer grid (so vertices coincide and weld classes are non-trivial),
// sometimes displaced by fractions that round differently per decimal place.
func (c *Ctx) gridCoord() float64 {
	if c.Rng.Intn(400) == 0 {
		// non-finite coordinates: NaN / ±Inf keys of weld (Go's int(NaN)), NaN areas, NaN box tests
		c.Note("coord:non-finite")
		return []float64{math.NaN(), math.Inf(1), math.Inf(-1)}[c.Rng.Intn(3)]
	}
	x := float64(c.Rng.Intn(5) - 2)
	switch c.Rng.Intn(8) {
	case 0:
		x += 0.04
	case 1:
		x += 0.26
	case 2:
		x -= 0.5
	case 3:
		x += 0.004
	}
	return x
}

// genMesh builds a well-formed mesh from the repo's own constructors and setters.
// Every non-position component is a distinct small integer (exact in float64): a permutation,
// a dropped or a duplicated element is visible in the output.
func (c *Ctx) genMesh(g meshGen) modeling.Mesh {
	topo := g.topo[c.Rng.Intn(len(g.topo))]
	n := 0
	switch c.Rng.Intn(10) {
	case 0:
		n = 0
	case 1:
		n = 1 + c.Rng.Intn(2)
	case 2:
		n = 13 + c.Rng.Intn(g.maxVerts)
	default:
		n = 3 + c.Rng.Intn(10)
	}
	if n == 0 {
		c.Note("mesh:0-vertices")
	}
	// attribute mix
	var specs []attrSpec
	for _, s := range attrPool {
		if (s.width == 3 && s.name == modeling.PositionAttribute && g.needPos) || c.Rng.Intn(3) == 0 {
			specs = append(specs, s)
		}
	}
	if n == 0 {
		specs = nil
	}
	c.Note(fmt.Sprintf("mesh:attrs=%d", len(specs)))
	v1 := map[string][]float64{}
	v2 := map[string][]vector2.Float64{}
	v3 := map[string][]vector3.Float64{}
	v4 := map[string][]vector4.Float64{}
	tag := 100
	next := func() float64 { tag++; return float64(tag) }
	for _, s := range specs {
		switch s.width {
		case 1:
			d := make([]float64, n)
			for i := range d {
				d[i] = next()
			}
			v1[s.name] = d
		case 2:
			d := make([]vector2.Float64, n)
			for i := range d {
				d[i] = vector2.New(next(), next())
			}
			v2[s.name] = d
		case 3:
			d := make([]vector3.Float64, n)
			for i := range d {
				if s.name == modeling.PositionAttribute {
					d[i] = vector3.New(c.gridCoord(), c.gridCoord(), c.gridCoord())
				} else {
					d[i] = vector3.New(next(), next(), next())
				}
			}
			v3[s.name] = d
		case 4:
			d := make([]vector4.Float64, n)
			for i := range d {
				d[i] = vector4.New(next(), next(), next(), next())
			}
			v4[s.name] = d
		}
	}
	// index pattern
	nv := n
	if len(specs) == 0 {
		nv = 0
	}
	size := topo.IndexSize()
	if topo == modeling.PointTopology || topo == modeling.LineStripTopology || topo == modeling.LineLoopTopology {
		size = 1
	}
	var indices []int
	if nv > 0 {
		mode := c.Rng.Intn(6)
		switch mode {
		case 0: // identity (unwelded layout)
			c.Note("idx:identity")
			k := nv - nv%size
			for i := 0; i < k; i++ {
				indices = append(indices, i)
			}
		case 1: // empty
			c.Note("idx:empty")
		case 2: // only a subset of the vertices is referenced
			c.Note("idx:unreferenced")
			lim := 1 + c.Rng.Intn(nv)
			k := (1 + c.Rng.Intn(2*nv)) * size
			for i := 0; i < k; i++ {
				indices = append(indices, c.Rng.Intn(lim))
			}
		case 3: // reversed identity
			c.Note("idx:reversed")
			k := nv - nv%size
			for i := 0; i < k; i++ {
				indices = append(indices, nv-1-i)
			}
		default: // shared vertices, arbitrary order
			c.Note("idx:shared")
			k := c.Rng.Intn(2*nv+1) * size
			for i := 0; i < k; i++ {
				indices = append(indices, c.Rng.Intn(nv))
			}
		}
	}
	if indices == nil {
		indices = []int{}
	}
	m := modeling.NewMesh(topo, indices).SetFloat1Data(v1).SetFloat2Data(v2).SetFloat3Data(v3).SetFloat4Data(v4)
	if g.materials && c.Rng.Intn(2) == 0 {
		m = m.SetMaterials(c.genMaterials(m.PrimitiveCount()))
	}
	return m
}

// genHoleMesh builds a well-formed TRIANGLE mesh for the index-rewriting operations (weld, remove unreferenced,
// remove null faces, split, filters after ToPointCloud): 1..k vertices that no triangle references, placed at the
// front / in the middle / at the end / scattered; every position distinct after rounding to 0..3 decimals (integer
// coordinates, non-collinear), every triangle on three distinct referenced vertices — so a weld collapses NOTHING and
// only the compaction of the unreferenced vertices shifts indices. `mixed` additionally plants a duplicated position
// and a degenerate triangle, so collapse and pre-existing holes occur together.
func (c *Ctx) genHoleMesh() modeling.Mesh {
	n := 4 + c.Rng.Intn(11)
	k := 1 + c.Rng.Intn(3)
	if k > n-3 {
		k = n - 3
	}
	unref := map[int]bool{}
	place := c.Rng.Intn(4)
	switch place {
	case 0: // front
		c.Note("hole:front")
		for i := 0; i < k; i++ {
			unref[i] = true
		}
	case 1: // middle
		c.Note("hole:middle")
		st := 1 + c.Rng.Intn(n-k-1)
		for i := 0; i < k; i++ {
			unref[st+i] = true
		}
	case 2: // end
		c.Note("hole:end")
		for i := 0; i < k; i++ {
			unref[n-1-i] = true
		}
	default: // scattered
		c.Note("hole:scattered")
		for len(unref) < k {
			unref[c.Rng.Intn(n)] = true
		}
	}
	var refd []int
	for i := 0; i < n; i++ {
		if !unref[i] {
			refd = append(refd, i)
		}
	}
	pos := make([]vector3.Float64, n)
	for i := range pos {
		pos[i] = vector3.New(float64(2*i), float64((i*i)%7), float64((i*5)%3))
	}
	nt := 1 + c.Rng.Intn(2*len(refd))
	var idx []int
	for t := 0; t < nt; t++ {
		p := c.Rng.Perm(len(refd))
		idx = append(idx, refd[p[0]], refd[p[1]], refd[p[2]])
	}
	mixed := c.Rng.Intn(4) == 0
	if mixed {
		c.Note("hole:mixed-with-collapse")
		// a referenced vertex coincides with another one, and one triangle is degenerate
		pos[refd[0]] = pos[refd[1]]
		idx = append(idx, refd[2], refd[2], refd[0])
	}
	v3 := map[string][]vector3.Float64{modeling.PositionAttribute: pos}
	v1 := map[string][]float64{}
	v2 := map[string][]vector2.Float64{}
	tag := 500
	if c.Rng.Intn(2) == 0 {
		d := make([]vector3.Float64, n)
		for i := range d {
			d[i] = vector3.New(float64(tag), float64(tag+1), float64(tag+2))
			tag += 3
		}
		v3[modeling.NormalAttribute] = d
	}
	if c.Rng.Intn(2) == 0 {
		d := make([]float64, n)
		for i := range d {
			d[i] = float64(tag)
			tag++
		}
		v1[modeling.ClassAttribute] = d
	}
	if c.Rng.Intn(3) == 0 {
		d := make([]vector2.Float64, n)
		for i := range d {
			d[i] = vector2.New(float64(tag), float64(tag+1))
			tag += 2
		}
		v2[modeling.TexCoordAttribute] = d
	}
	m := modeling.NewTriangleMesh(idx).SetFloat3Data(v3).SetFloat2Data(v2).SetFloat1Data(v1)
	if c.Rng.Intn(3) == 0 {
		m = m.SetMaterials(c.genMaterials(m.PrimitiveCount()))
	}
	return m
}

// material ranges: mostly summing to the primitive count, with empty ranges and a material
// that comes back later; sometimes too long, rarely too short (the split loop then runs out).
func (c *Ctx) genMaterials(prims int) []modeling.MeshMaterial {
	if prims < 0 {
		prims = 0
	}
	var out []modeling.MeshMaterial
	left := prims
	k := 1 + c.Rng.Intn(5)
	for i := 0; i < k; i++ {
		cnt := 0
		if i == k-1 {
			cnt = left
		} else if c.Rng.Intn(4) != 0 && left > 0 {
			cnt = c.Rng.Intn(left + 1)
		}
		left -= cnt
		out = append(out, modeling.MeshMaterial{PrimitiveCount: cnt, Material: sharedMaterials[c.Rng.Intn(len(sharedMaterials))]})
	}
	switch c.Rng.Intn(12) {
	case 0:
		c.Note("mat:too-long")
		out[len(out)-1].PrimitiveCount += 1 + c.Rng.Intn(3)
	case 1:
		if prims > 0 {
			c.Note("mat:too-short")
			for i := len(out) - 1; i >= 0; i-- {
				if out[i].PrimitiveCount > 0 {
					out[i].PrimitiveCount--
					break
				}
			}
		}
	}
	return out
}

// ---- operations ------------------------------------------------------------------------------

// one applied operation: the request text (op name + parameters + input meshes) and the results
type opRun struct {
	name   string // op name without stream prefix
	args   string // parameters and input meshes
	out    []modeling.Mesh
	status string // "" = returned meshes, else "rejected" / "panic"
	multi  bool   // result is a list (split)
}

func runOp(name, args string, multi bool, f func() []modeling.Mesh) opRun {
	r := opRun{name: name, args: args, multi: multi}
	r.status = guardMesh(func() string { r.out = f(); return "" })
	return r
}

func (r opRun) answer(show func(modeling.Mesh) string) string {
	if r.status != "" {
		return r.status
	}
	parts := make([]string, 0, len(r.out)+1)
	if r.multi {
		parts = append(parts, strconv.Itoa(len(r.out)))
	}
	for _, m := range r.out {
		parts = append(parts, show(m))
	}
	return strings.Join(parts, " ")
}

func one(m modeling.Mesh) []modeling.Mesh { return []modeling.Mesh{m} }

func tr(t modeling.Transformer, m modeling.Mesh) []modeling.Mesh {
	out, err := t.Transform(m)
	if err != nil {
		panic(err)
	}
	return one(out)
}

func (c *Ctx) pickV3Attr(m modeling.Mesh) string {
	names := m.Float3Attributes()
	if len(names) == 0 || c.Rng.Intn(12) == 0 {
		return "Missing"
	}
	return names[c.Rng.Intn(len(names))]
}

func (c *Ctx) smallV3() vector3.Float64 {
	return vector3.New(float64(c.Rng.Intn(9)-4), float64(c.Rng.Intn(9)-4), float64(c.Rng.Intn(9)-4))
}

var layoutOps = []string{"repeat", "unweld", "removeunref", "flip", "topointcloud", "setindices", "setattr", "append", "filter", "split", "weld", "crop", "removenull"}
var transformOps = []string{"scan", "scanprims", "modify", "translate", "scale", "meshscale", "rotate", "applytrs", "center", "normalize", "smoothnormals", "flatnormals", "laplacian"}

// applyOp runs operation `name` of the real packages on m with generated parameters.
func (c *Ctx) applyOp(name string, m modeling.Mesh) opRun {
	ms := meshStr(m)
	switch name {
	case "unweld":
		return runOp(name, ms, false, func() []modeling.Mesh { return one(meshops.Unweld(m)) })
	case "removeunref":
		return runOp(name, ms, false, func() []modeling.Mesh { return one(meshops.RemovedUnreferencedVertices(m)) })
	case "flip":
		return runOp(name, ms, false, func() []modeling.Mesh { return tr(meshops.FlipTriangleWindingTransformer{}, m) })
	case "topointcloud":
		return runOp(name, ms, false, func() []modeling.Mesh { return one(m.ToPointCloud()) })
	case "setindices":
		n := m.AttributeLength()
		size := m.Topology().IndexSize()
		var idx []int
		if n > 0 {
			k := c.Rng.Intn(2*n+1) * size
			for i := 0; i < k; i++ {
				idx = append(idx, c.Rng.Intn(n))
			}
		}
		if idx == nil {
			idx = []int{}
		}
		parts := []string{strconv.Itoa(len(idx))}
		for _, i := range idx {
			parts = append(parts, strconv.Itoa(i))
		}
		return runOp(name, strings.Join(parts, " ")+" "+ms, false, func() []modeling.Mesh { return one(m.SetIndices(idx)) })
	case "repeat":
		// repeat.Mesh(m, transforms): fold of Append(ApplyTRS) from the empty mesh; 0..3 copies
		k := c.Rng.Intn(4)
		ts := make([]trs.TRS, k)
		parts := []string{strconv.Itoa(k)}
		for i := range ts {
			p, q, sc := c.smallV3(), c.mquat(), vector3.New(float64(1+c.Rng.Intn(3)), 1, float64(c.Rng.Intn(3)-1))
			if c.Rng.Intn(2) == 0 {
				q = quaternion.New(vector3.Zero[float64](), 1)
			}
			ts[i] = trs.New(p, q, sc)
			parts = append(parts, mvF(p), mqF(q), mvF(sc))
		}
		return runOp(name, strings.Join(parts, " ")+" "+ms, false, func() []modeling.Mesh { return one(repeat.Mesh(m, ts)) })
	case "setattr":
		// SetFloatNAttribute: an existing or a new key; data of the common length, or empty (the key is
		// deleted), or — on a mesh without attributes — of any length
		spec := attrPool[c.Rng.Intn(len(attrPool))]
		n := m.AttributeLength()
		hasAny := len(m.Float1Attributes())+len(m.Float2Attributes())+len(m.Float3Attributes())+len(m.Float4Attributes()) > 0
		if !hasAny && m.Indices().Len() == 0 {
			n = c.Rng.Intn(4)
		}
		// deleting a key (empty data) keeps the mesh well-formed when another attribute array remains, the
		// key is absent anyway, or there is no index (theorems setAttr_wf / setAttr_delete_wf); deleting the
		// only attribute array of an indexed mesh is a caller error like SetIndices with a bad index
		nAttrs := len(m.Float1Attributes()) + len(m.Float2Attributes()) + len(m.Float3Attributes()) + len(m.Float4Attributes())
		hasKey := false
		switch spec.width {
		case 1:
			hasKey = m.HasFloat1Attribute(spec.name)
		case 2:
			hasKey = m.HasFloat2Attribute(spec.name)
		case 3:
			hasKey = m.HasFloat3Attribute(spec.name)
		case 4:
			hasKey = m.HasFloat4Attribute(spec.name)
		}
		if c.Rng.Intn(4) == 0 && (nAttrs > 1 || !hasKey || m.Indices().Len() == 0) {
			if n > 0 {
				c.Note("setattr:delete")
			}
			n = 0
		}
		vals := make([]float64, n*spec.width)
		for i := range vals {
			vals[i] = float64(9000 + c.Rng.Intn(500))
		}
		args := fmt.Sprintf("%d %s %d", spec.width, spec.name, n)
		if len(vals) > 0 {
			args += " " + Fs(vals...)
		}
		return runOp(name, args+" "+ms, false, func() []modeling.Mesh {
			switch spec.width {
			case 1:
				return one(m.SetFloat1Attribute(spec.name, vals))
			case 2:
				d := make([]vector2.Float64, n)
				for i := range d {
					d[i] = vector2.New(vals[2*i], vals[2*i+1])
				}
				return one(m.SetFloat2Attribute(spec.name, d))
			case 3:
				d := make([]vector3.Float64, n)
				for i := range d {
					d[i] = vector3.New(vals[3*i], vals[3*i+1], vals[3*i+2])
				}
				return one(m.SetFloat3Attribute(spec.name, d))
			default:
				d := make([]vector4.Float64, n)
				for i := range d {
					d[i] = vector4.New(vals[4*i], vals[4*i+1], vals[4*i+2], vals[4*i+3])
				}
				return one(m.SetFloat4Attribute(spec.name, d))
			}
		})
	case "append":
		g := meshGen{topo: []modeling.Topology{m.Topology()}, maxVerts: 8, materials: true}
		if c.Rng.Intn(15) == 0 {
			g.topo = topoAll
		}
		var o modeling.Mesh
		switch c.Rng.Intn(4) {
		case 0:
			c.Note("append:self")
			o = m
		case 1:
			c.Note("append:empty")
			o = modeling.EmptyMesh(m.Topology())
		default:
			o = c.genMesh(g)
		}
		return runOp(name, ms+" "+meshStr(o), false, func() []modeling.Mesh { return one(m.Append(o)) })
	case "filter":
		// pick an attribute of any width (sometimes a missing one); keep elements whose first component < thr
		type cand struct {
			w    int
			name string
		}
		var cs []cand
		for _, a := range m.Float1Attributes() {
			cs = append(cs, cand{1, a})
		}
		for _, a := range m.Float2Attributes() {
			cs = append(cs, cand{2, a})
		}
		for _, a := range m.Float3Attributes() {
			cs = append(cs, cand{3, a})
		}
		for _, a := range m.Float4Attributes() {
			cs = append(cs, cand{4, a})
		}
		pick := cand{1 + c.Rng.Intn(4), "Missing"}
		if len(cs) > 0 && c.Rng.Intn(12) != 0 {
			pick = cs[c.Rng.Intn(len(cs))]
		}
		// threshold: some first component found in the data (so the split point is inside), or extremes
		thr := 0.0
		switch c.Rng.Intn(6) {
		case 0:
			thr = math.Inf(1)
		case 1:
			thr = math.Inf(-1)
		default:
			if pick.name != "Missing" && m.AttributeLength() > 0 {
				i := c.Rng.Intn(m.AttributeLength())
				switch pick.w {
				case 1:
					thr = m.Float1Attribute(pick.name).At(i)
				case 2:
					thr = m.Float2Attribute(pick.name).At(i).X()
				case 3:
					thr = m.Float3Attribute(pick.name).At(i).X()
				case 4:
					thr = m.Float4Attribute(pick.name).At(i).X()
				}
			}
		}
		args := fmt.Sprintf("%d %s %s %s", pick.w, pick.name, F(thr), ms)
		return runOp(name, args, false, func() []modeling.Mesh {
			switch pick.w {
			case 1:
				return one(meshops.FilterFloat1(m, pick.name, func(v float64) bool { return v < thr }))
			case 2:
				return one(meshops.FilterFloat2(m, pick.name, func(v vector2.Float64) bool { return v.X() < thr }))
			case 3:
				return one(meshops.FilterFloat3(m, pick.name, func(v vector3.Float64) bool { return v.X() < thr }))
			default:
				return one(meshops.FilterFloat4(m, pick.name, func(v vector4.Float64) bool { return v.X() < thr }))
			}
		})
	case "split":
		return runOp(name, ms, true, func() (out []modeling.Mesh) {
			// running past the last material range is an index-out-of-range panic in the split loop;
			// the model predicts exactly this case as a rejection
			defer func() {
				if r := recover(); r != nil {
					panic(fmt.Errorf("split rejected: %v", r))
				}
			}()
			return meshops.SplitOnUniqueMaterials(m)
		})
	case "weld":
		attr := c.pickV3Attr(m)
		if m.HasFloat3Attribute(modeling.PositionAttribute) && c.Rng.Intn(2) == 0 {
			attr = modeling.PositionAttribute
		}
		dec := c.Rng.Intn(4)
		return runOp(name, fmt.Sprintf("%s %d %s", attr, dec, ms), false, func() []modeling.Mesh {
			return one(m.WeldByFloat3Attribute(attr, dec))
		})
	case "crop":
		attr := c.pickV3Attr(m)
		box := geometry.NewAABB(c.smallV3().Scale(0.5), vector3.New(float64(c.Rng.Intn(7)), float64(c.Rng.Intn(7)), float64(c.Rng.Intn(7))))
		if c.Rng.Intn(4) == 0 {
			box = geometry.NewAABB(vector3.Zero[float64](), vector3.New(1e6, 1e6, 1e6))
		}
		// boundary cases: the box is closed on BOTH sides, so points exactly on a face (in particular on the maximum
		// faces) are inside. (i) the cloud's own bounding box, (ii) a zero-thickness box through a vertex, (iii) the box
		// that is exactly one vertex, (iv) a box from a vertex (minimum corner) to another vertex (maximum corner)
		if m.HasFloat3Attribute(attr) && m.AttributeLength() > 0 && c.Rng.Intn(2) == 0 {
			d := m.Float3Attribute(attr)
			pts := make([]vector3.Float64, d.Len())
			finite := true
			for i := range pts {
				pts[i] = d.At(i)
				if s := pts[i].X() + pts[i].Y() + pts[i].Z(); math.IsNaN(s) || math.IsInf(s, 0) {
					finite = false
				}
			}
			if finite {
				v := pts[c.Rng.Intn(len(pts))]
				w := pts[c.Rng.Intn(len(pts))]
				switch c.Rng.Intn(4) {
				case 0:
					c.Note("crop:own-bounding-box")
					box = geometry.NewAABBFromPoints(pts...)
				case 1:
					c.Note("crop:zero-thickness")
					size := vector3.New(float64(2*c.Rng.Intn(4)), float64(2*c.Rng.Intn(4)), float64(2*c.Rng.Intn(4)))
					switch c.Rng.Intn(3) {
					case 0:
						size = size.SetX(0)
					case 1:
						size = size.SetY(0)
					default:
						size = size.SetZ(0)
					}
					box = geometry.NewAABB(v, size)
				case 2:
					c.Note("crop:single-vertex-box")
					box = geometry.NewAABB(v, vector3.Zero[float64]())
				default:
					c.Note("crop:vertex-to-vertex")
					box = geometry.NewAABBFromPoints(v, w)
				}
			}
		}
		return runOp(name, fmt.Sprintf("%s %s %s", attr, mbbF(box), ms), false, func() []modeling.Mesh {
			return one(meshops.CropFloat3Attribute(m, attr, box))
		})
	case "removenull":
		attr := c.pickV3Attr(m)
		minArea := []float64{0, 0, 0.5, 2, 1e9}[c.Rng.Intn(5)]
		// the keep decision per triangle, by the Go predicate on the same mesh (the model takes the predicate as a parameter)
		flags := []string{}
		if m.Topology() == modeling.TriangleTopology && m.HasFloat3Attribute(attr) {
			for i := 0; i < m.PrimitiveCount(); i++ {
				a := m.Tri(i).Area3D(attr)
				if !math.IsNaN(a) && a > minArea {
					flags = append(flags, "1")
				} else {
					flags = append(flags, "0")
				}
			}
		}
		args := fmt.Sprintf("%s %d %s %s", attr, len(flags), strings.Join(flags, " "), ms)
		args = strings.Join(strings.Fields(args), " ")
		return runOp(name, args, false, func() []modeling.Mesh {
			return tr(meshops.RemoveNullFaces3DTransformer{Attribute: attr, MinArea: minArea}, m)
		})
	case "translate":
		attr := c.pickV3Attr(m)
		t := c.mv3()
		return runOp(name, fmt.Sprintf("%s %s %s", attr, mvF(t), ms), false, func() []modeling.Mesh {
			if attr == modeling.PositionAttribute && c.Rng.Intn(2) == 0 {
				return one(m.Translate(t))
			}
			return one(meshops.TranslateAttribute3D(m, attr, t))
		})
	case "scale":
		attr := c.pickV3Attr(m)
		o, a := c.mv3(), c.mv3()
		return runOp(name, fmt.Sprintf("%s %s %s %s", attr, mvF(o), mvF(a), ms), false, func() []modeling.Mesh {
			return one(meshops.ScaleAttribute3D(m, attr, o, a))
		})
	case "meshscale":
		a := c.mv3()
		return runOp(name, fmt.Sprintf("%s %s", mvF(a), ms), false, func() []modeling.Mesh { return one(m.Scale(a)) })
	case "rotate":
		attr := c.pickV3Attr(m)
		q := c.mquat()
		return runOp(name, fmt.Sprintf("%s %s %s", attr, mqF(q), ms), false, func() []modeling.Mesh {
			if attr == modeling.PositionAttribute && c.Rng.Intn(2) == 0 {
				return one(m.Rotate(q))
			}
			return one(meshops.RotateAttribute3D(m, attr, q))
		})
	case "applytrs":
		p, q, s := c.mv3(), c.mquat(), c.mv3()
		t := trs.New(p, q, s)
		return runOp(name, fmt.Sprintf("%s %s %s %s", mvF(p), mqF(q), mvF(s), ms), false, func() []modeling.Mesh {
			return one(m.ApplyTRS(t))
		})
	case "scan", "modify":
		// the callback family: width 1..4 (modify: 1..3), sequential / Parallel / ParallelWithPoolSize(k), k = 0 is rejected
		w := 1 + c.Rng.Intn(4)
		if name == "modify" {
			w = 1 + c.Rng.Intn(3)
		}
		// mostly a width the mesh has
		var have []int
		for cand, l := range map[int]int{1: len(m.Float1Attributes()), 2: len(m.Float2Attributes()), 3: len(m.Float3Attributes()), 4: len(m.Float4Attributes())} {
			if l > 0 && (cand < 4 || name == "scan") {
				have = append(have, cand)
			}
		}
		sort.Ints(have)
		if len(have) > 0 && c.Rng.Intn(8) != 0 {
			w = have[c.Rng.Intn(len(have))]
		}
		var names []string
		switch w {
		case 1:
			names = m.Float1Attributes()
		case 2:
			names = m.Float2Attributes()
		case 3:
			names = m.Float3Attributes()
		case 4:
			names = m.Float4Attributes()
		}
		attr := "Missing"
		if len(names) > 0 && c.Rng.Intn(10) != 0 {
			attr = names[c.Rng.Intn(len(names))]
		}
		pool := []string{"seq", "seq", "par", "0", "1", "2", "3", "7"}[c.Rng.Intn(8)]
		if w == 4 {
			pool = "seq" // ScanFloat4Attribute has no parallel variant
		}
		size, _ := strconv.Atoi(pool)
		args := fmt.Sprintf("%d %s %s %s", w, attr, pool, ms)
		if name == "scan" {
			return runOp(name, args, false, func() []modeling.Mesh { return one(c.scanMesh(m, w, attr, pool, size)) })
		}
		return runOp(name, args, false, func() []modeling.Mesh {
			fi := func(i int) float64 { return float64(i) }
			switch w {
			case 1:
				f := func(i int, v float64) float64 { return v + fi(i) }
				switch pool {
				case "seq":
					return one(m.ModifyFloat1Attribute(attr, f))
				case "par":
					return one(m.ModifyFloat1AttributeParallel(attr, f))
				}
				return one(m.ModifyFloat1AttributeParallelWithPoolSize(attr, size, f))
			case 2:
				f := func(i int, v vector2.Float64) vector2.Float64 { return vector2.New(v.X()+fi(i), v.Y()+fi(2*i)) }
				switch pool {
				case "seq":
					return one(m.ModifyFloat2Attribute(attr, f))
				case "par":
					return one(m.ModifyFloat2AttributeParallel(attr, f))
				}
				return one(m.ModifyFloat2AttributeParallelWithPoolSize(attr, size, f))
			default:
				f := func(i int, v vector3.Float64) vector3.Float64 { return vector3.New(v.X()+fi(i), v.Y()+fi(2*i), v.Z()) }
				switch pool {
				case "seq":
					return one(m.ModifyFloat3Attribute(attr, f))
				case "par":
					return one(m.ModifyFloat3AttributeParallel(attr, f))
				}
				return one(m.ModifyFloat3AttributeParallelWithPoolSize(attr, size, f))
			}
		})
	case "scanprims":
		pool := []string{"seq", "seq", "par", "0", "1", "2", "5"}[c.Rng.Intn(7)]
		switch m.Topology() {
		case modeling.TriangleTopology, modeling.PointTopology, modeling.LineStripTopology:
		default:
			// OBSERVATION (notes/C03.md): on a topology without a primitive scan the parallel variants with pool size >= 2
			// panic INSIDE a worker goroutine (mesh.go:505), which no caller can recover: the process dies. Only the
			// sequential method (a recoverable panic = rejection) is called on such meshes.
			if pool != "0" && pool != "1" {
				pool = "seq"
			}
		}
		size, _ := strconv.Atoi(pool)
		return runOp(name, pool+" "+ms, false, func() []modeling.Mesh {
			var mu sync.Mutex
			seen := map[int]int{}
			f := func(i int, p modeling.Primitive) { mu.Lock(); seen[i]++; mu.Unlock() }
			var out modeling.Mesh
			switch pool {
			case "seq":
				out = m.ScanPrimitives(f)
			case "par":
				out = m.ScanPrimitivesParallel(f)
			default:
				out = m.ScanPrimitivesParallelWithPoolSize(size, f)
			}
			// every primitive exactly once
			if len(seen) != m.PrimitiveCount() {
				c.Note("scanprims:visit-count-mismatch")
				panic(fmt.Sprintf("runtime error (harness): ScanPrimitives visited %d of %d primitives", len(seen), m.PrimitiveCount()))
			}
			return one(out)
		})
	case "center":
		attr := c.pickV3Attr(m)
		return runOp(name, attr+" "+ms, false, func() []modeling.Mesh {
			return tr(meshops.CenterAttribute3DTransformer{Attribute: attr}, m)
		})
	case "normalize":
		attr := c.pickV3Attr(m)
		return runOp(name, attr+" "+ms, false, func() []modeling.Mesh {
			return tr(meshops.NormalizeAttribute3DTransformer{Attribute: attr}, m)
		})
	case "smoothnormals":
		c.noteFloatOnly(name, m, modeling.PositionAttribute, 0)
		return runOp(name, ms, false, func() []modeling.Mesh { return tr(meshops.SmoothNormalsTransformer{}, m) })
	case "flatnormals":
		c.noteFloatOnly(name, m, modeling.PositionAttribute, 0)
		return runOp(name, ms, false, func() []modeling.Mesh { return tr(meshops.FlatNormalsTransformer{}, m) })
	case "laplacian":
		attr := c.pickV3Attr(m)
		iters := c.Rng.Intn(4)
		factor := []float64{0.5, 0.25, 1, 0.1, 0}[c.Rng.Intn(5)]
		// the neighbour sum runs in Go map order: the comparison is within a tolerance (2^20 ulps or 1e-6
		// absolute); keep the magnitudes where rounding differences of reordered sums stay far below it
		if m.HasFloat3Attribute(attr) {
			d := m.Float3Attribute(attr)
			for i := 0; i < d.Len(); i++ {
				v := d.At(i)
				if math.Abs(v.X()) > 1e6 || math.Abs(v.Y()) > 1e6 || math.Abs(v.Z()) > 1e6 {
					c.Note("laplacian:large-magnitude-0-iterations")
					iters = 0
					break
				}
			}
		}
		c.noteFloatOnly(name, m, attr, iters)
		return runOp(name, fmt.Sprintf("%s %d %s %s", attr, iters, F(factor), ms), false, func() []modeling.Mesh {
			return one(meshops.LaplacianSmooth(m, attr, iters, factor))
		})
	}
	panic("unknown op " + name)
}

func (c *Ctx) startMesh() modeling.Mesh {
	switch c.Rng.Intn(12) {
	case 10, 11:
		c.Note("start:holes")
		return c.genHoleMesh()
	case 7, 8, 9:
		c.Note("start:cloud")
		return c.genMesh(meshGen{topo: []modeling.Topology{modeling.PointTopology}, needPos: c.Rng.Intn(4) != 0, maxVerts: 20, materials: true})
	case 0:
		c.Note("start:sphere")
		return primitives.UVSphere(1, 2+c.Rng.Intn(3), 3+c.Rng.Intn(3))
	case 1:
		c.Note("start:cylinder")
		return primitives.Cylinder{Sides: 3 + c.Rng.Intn(3), Height: 1, Radius: 1}.ToMesh()
	case 2:
		c.Note("start:cube")
		return primitives.Cube{Height: 1, Width: 2, Depth: 1, UVs: primitives.DefaultCubeUVs()}.UnweldedQuads().
			SetMaterials(c.genMaterials(12))
	default:
		c.Note("start:generated")
		return c.genMesh(meshGen{topo: topoAll, needPos: c.Rng.Intn(3) != 0, maxVerts: 20, materials: true})
	}
}

// opsFor biases the choice towards operations the mesh's topology admits (rejections still occur)
func (c *Ctx) opsFor(m modeling.Mesh, all []string) string {
	switch m.Topology() {
	case modeling.LineTopology, modeling.LineStripTopology, modeling.LineLoopTopology:
		if c.Rng.Intn(3) == 0 {
			return "laplacian"
		}
	}
	if m.Topology() == modeling.TriangleTopology && c.Rng.Intn(4) == 0 {
		// triangle meshes: the operations that rewrite indices after dropping vertices / faces
		return []string{"weld", "weld", "removeunref", "removenull", "split", "setindices", "unweld"}[c.Rng.Intn(7)]
	}
	if m.Topology() == modeling.PointTopology && c.Rng.Intn(2) == 0 {
		// point clouds: the filter / crop family is only applicable here
		return []string{"filter", "filter", "crop"}[c.Rng.Intn(3)]
	}
	for tries := 0; tries < 4; tries++ {
		name := all[c.Rng.Intn(len(all))]
		ok := true
		switch name {
		case "flip", "weld", "removenull", "split", "smoothnormals", "flatnormals":
			ok = m.Topology() == modeling.TriangleTopology
		case "laplacian":
			// every topology with a neighbour table: triangle, line, line strip, line loop (the EMPTY line loop panics in
			// VertexNeighborTable on the clean tree: compared as "panic", notes/C03.md)
			ok = m.Topology() != modeling.PointTopology && m.Topology() != modeling.QuadTopology
		case "crop":
			ok = m.Topology() == modeling.PointTopology
		case "filter":
			ok = m.Topology() == modeling.PointTopology
		case "topointcloud":
			ok = m.Topology() != modeling.PointTopology || c.Rng.Intn(4) == 0
		}
		if ok || c.Rng.Intn(10) == 0 {
			return name
		}
	}
	return "unweld"
}

// guardSeq runs one generated sequence; a panic that escapes the per-operation guards (the harness
// itself reading a mesh the implementation returned, e.g. Tri(i).Area3D on out-of-range indices)
// is reported as an oracle line answered "panic" instead of crashing the stream.
func (c *Ctx) guardSeq(op string, f func()) {
	defer func() {
		if r := recover(); r != nil {
			c.Note("sequence-panic")
			c.Emit(op, "unreadable sequence-panic", "panic")
		}
	}()
	f()
}

// noteFloatOnly counts how often the float-only branches excluded from the value theorems over ℝ are reached:
// smooth:nan-skip (a referenced triangle with a non-finite position), flat:degenerate-last-face (the last triangle of some
// vertex has a zero / non-finite cross product), lap:neighbourless (a vertex without neighbours, iterations >= 1).
func (c *Ctx) noteFloatOnly(op string, m modeling.Mesh, attr string, iters int) {
	defer func() { recover() }()
	if !m.HasFloat3Attribute(attr) {
		return
	}
	d := m.Float3Attribute(attr)
	idx := m.Indices()
	bad := func(v vector3.Float64) bool { s := v.X() + v.Y() + v.Z(); return math.IsNaN(s) || math.IsInf(s, 0) }
	switch op {
	case "smoothnormals", "flatnormals":
		if m.Topology() != modeling.TriangleTopology {
			return
		}
		last := map[int]bool{} // vertex -> its last face is degenerate
		nanSkip := false
		for t := 0; t+2 < idx.Len(); t += 3 {
			a, b, cc := d.At(idx.At(t)), d.At(idx.At(t+1)), d.At(idx.At(t+2))
			cr := b.Sub(a).Cross(cc.Sub(a))
			if math.IsNaN(cr.X()) {
				nanSkip = true
			}
			deg := bad(cr) || (cr.X() == 0 && cr.Y() == 0 && cr.Z() == 0)
			last[idx.At(t)], last[idx.At(t+1)], last[idx.At(t+2)] = deg, deg, deg
		}
		if op == "smoothnormals" && nanSkip {
			c.Note("smooth:nan-skip")
		}
		if op == "flatnormals" {
			for _, dg := range last {
				if dg {
					c.Note("flat:degenerate-last-face")
					break
				}
			}
		}
	case "laplacian":
		if iters < 1 || m.Topology() == modeling.PointTopology || m.Topology() == modeling.QuadTopology {
			return
		}
		ref := make([]bool, d.Len())
		if m.Topology() == modeling.TriangleTopology {
			for t := 0; t+2 < idx.Len(); t += 3 {
				ref[idx.At(t)], ref[idx.At(t+1)], ref[idx.At(t+2)] = true, true, true
			}
		} else if idx.Len() >= 2 {
			k := idx.Len()
			if m.Topology() == modeling.LineTopology {
				k -= k % 2
			}
			for t := 0; t < k; t++ {
				ref[idx.At(t)] = true
			}
		} else if idx.Len() == 1 && m.Topology() == modeling.LineLoopTopology {
			ref[idx.At(0)] = true // Link(first, last) links the single vertex to itself
		}
		for _, r := range ref {
			if !r {
				c.Note("lap:neighbourless")
				break
			}
		}
	}
}

// branchCase: a BRANCHING history. `base` is built by a chain of Appends (or repeat.Mesh), so that an implementation that
// extends its receiver's slices in place would leave spare capacity behind; then TWO results are derived from the same
// base, x := base.Append(p) and y := base.Append(q), and x (and base) are read AGAIN after y exists. The snapshots taken
// at creation time are what the later reads are compared with.
type branchCase struct {
	baseS, pS, qS string // snapshots (line protocol) at creation time
	xSnap, ySnap  string
	base, p, q    modeling.Mesh
	x, y          modeling.Mesh
	viaRepeat     bool
}

func (c *Ctx) genBranchCase() branchCase {
	topo := []modeling.Topology{modeling.TriangleTopology, modeling.TriangleTopology, modeling.PointTopology, modeling.LineTopology}[c.Rng.Intn(4)]
	g := meshGen{topo: []modeling.Topology{topo}, needPos: true, maxVerts: 6, materials: true}
	small := func() modeling.Mesh {
		for {
			m := c.genMesh(g)
			if m.Indices().Len() > 0 && m.Indices().Len() <= 12 {
				return m
			}
		}
	}
	var b branchCase
	if c.Rng.Intn(3) == 0 {
		b.viaRepeat = true
		c.Note("branch:base=repeat.Mesh")
		ts := make([]trs.TRS, 1+c.Rng.Intn(4))
		for i := range ts {
			ts[i] = trs.Position(c.smallV3())
		}
		b.base = repeat.Mesh(small(), ts)
	} else {
		k := 1 + c.Rng.Intn(4)
		c.Note(fmt.Sprintf("branch:base=append-chain-%d", k))
		b.base = small()
		for i := 0; i < k; i++ {
			b.base = b.base.Append(small())
		}
	}
	b.p, b.q = small(), small()
	b.baseS, b.pS, b.qS = meshStr(b.base), meshStr(b.p), meshStr(b.q)
	b.x = b.base.Append(b.p)
	b.xSnap = meshStr(b.x)
	b.y = b.base.Append(b.q)
	b.ySnap = meshStr(b.y)
	return b
}

// filterTopologySweep: FilterFloat1..4 (plain functions) and FilterFloat1..4Transformer on a small mesh of EVERY topology
// that carries attributes of all four widths. Both entry points must reject everything but point clouds.
func (c *Ctx) filterTopologySweep(emit func(r opRun, m modeling.Mesh)) {
	for _, topo := range topoAll {
		n := 4
		idx := []int{0, 1, 2, 3}
		if topo == modeling.TriangleTopology {
			idx = []int{0, 1, 2, 2, 1, 3}
		}
		f1 := make([]float64, n)
		f2 := make([]vector2.Float64, n)
		f3 := make([]vector3.Float64, n)
		f4 := make([]vector4.Float64, n)
		for i := 0; i < n; i++ {
			x := float64(10 + i)
			f1[i], f2[i], f3[i], f4[i] = x, vector2.New(x, 1), vector3.New(x, float64(i*i%3), 2), vector4.New(x, 1, 2, 3)
		}
		m := modeling.NewMesh(topo, idx).SetFloat1Attribute("A1", f1).SetFloat2Attribute("A2", f2).SetFloat3Attribute("A3", f3).SetFloat4Attribute("A4", f4)
		ms := meshStr(m)
		thr := 12.0
		for w := 1; w <= 4; w++ {
			w := w
			name := fmt.Sprintf("A%d", w)
			args := fmt.Sprintf("%d %s %s %s", w, name, F(thr), ms)
			plain := func() []modeling.Mesh {
				switch w {
				case 1:
					return one(meshops.FilterFloat1(m, name, func(v float64) bool { return v < thr }))
				case 2:
					return one(meshops.FilterFloat2(m, name, func(v vector2.Float64) bool { return v.X() < thr }))
				case 3:
					return one(meshops.FilterFloat3(m, name, func(v vector3.Float64) bool { return v.X() < thr }))
				}
				return one(meshops.FilterFloat4(m, name, func(v vector4.Float64) bool { return v.X() < thr }))
			}
			transformer := func() []modeling.Mesh {
				switch w {
				case 1:
					return tr(meshops.FilterFloat1Transformer{Attribute: name, Filter: func(v float64) bool { return v < thr }}, m)
				case 2:
					return tr(meshops.FilterFloat2Transformer{Attribute: name, Filter: func(v vector2.Float64) bool { return v.X() < thr }}, m)
				case 3:
					return tr(meshops.FilterFloat3Transformer{Attribute: name, Filter: func(v vector3.Float64) bool { return v.X() < thr }}, m)
				}
				return tr(meshops.FilterFloat4Transformer{Attribute: name, Filter: func(v vector4.Float64) bool { return v.X() < thr }}, m)
			}
			c.Note("filter-sweep:plain")
			emit(runOp("filter", args, false, plain), m)
			c.Note("filter-sweep:transformer")
			emit(runOp("filter", args, false, transformer), m)
		}
	}
}

// emptyAppends: Append with an EMPTY receiver and / or an EMPTY argument across all topology pairs. The topology check
// must not depend on whether a side has indices: a mismatch is rejected, a match keeps the topology.
func (c *Ctx) emptyAppends(emit func(r opRun, recv modeling.Mesh)) {
	for _, t1 := range topoAll {
		for _, t2 := range topoAll {
			t1, t2 := t1, t2
			pts := 4 + c.Rng.Intn(2) // 4 or 5 vertices: fits neither 3 nor (for 5) 2 or 4
			full := func(t modeling.Topology) modeling.Mesh {
				pos := make([]vector3.Float64, pts)
				idx := make([]int, pts)
				for i := range pos {
					pos[i] = vector3.New(float64(i), float64(i*i%3), 0)
					idx[i] = i
				}
				k := pts - pts%t.IndexSize()
				if t == modeling.PointTopology || t == modeling.LineStripTopology || t == modeling.LineLoopTopology {
					k = pts
				}
				return modeling.NewMesh(t, idx[:k]).SetFloat3Attribute(modeling.PositionAttribute, pos)
			}
			noIdx := func(t modeling.Topology) modeling.Mesh { // vertices but no index
				return modeling.NewMesh(t, []int{}).SetFloat3Attribute(modeling.PositionAttribute, []vector3.Float64{vector3.New(9., 9., 9.)})
			}
			cases := []struct {
				tag        string
				recv, argm modeling.Mesh
			}{
				{"empty-recv", modeling.EmptyMesh(t1), full(t2)},
				{"noidx-recv", noIdx(t1), full(t2)},
				{"empty-arg", full(t1), modeling.EmptyMesh(t2)},
				{"both-empty", modeling.EmptyMesh(t1), modeling.EmptyMesh(t2)},
			}
			for _, cs := range cases {
				cs := cs
				c.Note("append-empty:" + cs.tag)
				r := runOp("append", meshStr(cs.recv)+" "+meshStr(cs.argm), false, func() []modeling.Mesh { return one(cs.recv.Append(cs.argm)) })
				emit(r, cs.recv)
			}
		}
	}
}

// lastVisits: the callback invocations of the most recent scanMesh call (count, then index + first component each)
var lastVisits string

// scanMesh runs ScanFloatNAttribute (variant by `pool`), records the callback invocations and keeps them for the oracle
// line emitted by the c03 stream (lastVisits).
func (c *Ctx) scanMesh(m modeling.Mesh, w int, attr, pool string, size int) modeling.Mesh {
	var mu sync.Mutex
	type visit struct {
		i int
		x float64
	}
	var vs []visit
	rec := func(i int, x float64) { mu.Lock(); vs = append(vs, visit{i, x}); mu.Unlock() }
	var out modeling.Mesh
	switch w {
	case 1:
		f := func(i int, v float64) { rec(i, v) }
		switch pool {
		case "seq":
			out = m.ScanFloat1Attribute(attr, f)
		case "par":
			out = m.ScanFloat1AttributeParallel(attr, f)
		default:
			out = m.ScanFloat1AttributeParallelWithPoolSize(attr, size, f)
		}
	case 2:
		f := func(i int, v vector2.Float64) { rec(i, v.X()) }
		switch pool {
		case "seq":
			out = m.ScanFloat2Attribute(attr, f)
		case "par":
			out = m.ScanFloat2AttributeParallel(attr, f)
		default:
			out = m.ScanFloat2AttributeParallelWithPoolSize(attr, size, f)
		}
	case 3:
		f := func(i int, v vector3.Float64) { rec(i, v.X()) }
		switch pool {
		case "seq":
			out = m.ScanFloat3Attribute(attr, f)
		case "par":
			out = m.ScanFloat3AttributeParallel(attr, f)
		default:
			out = m.ScanFloat3AttributeParallelWithPoolSize(attr, size, f)
		}
	default:
		out = m.ScanFloat4Attribute(attr, func(i int, v vector4.Float64) { rec(i, v.X()) })
	}
	if pool != "seq" {
		sort.SliceStable(vs, func(a, b int) bool { return vs[a].i < vs[b].i })
	}
	parts := []string{strconv.Itoa(len(vs))}
	for _, v := range vs {
		parts = append(parts, strconv.Itoa(v.i), fsN(v.x))
	}
	lastVisits = strings.Join(parts, " ")
	return out
}

// noteMesh records the shape class of an input for the distribution report
func (c *Ctx) noteMesh(prefix string, m modeling.Mesh) {
	c.Note(prefix + ":topo=" + strings.ReplaceAll(m.Topology().String(), " ", ""))
}

func sortedKeys(m map[string]int) []string {
	out := make([]string, 0, len(m))
	for k := range m {
		out = append(out, k)
	}
	sort.Strings(out)
	return out
}

// float helpers (own copies: the check builds each property's harness from its own files only)
func (c *Ctx) mfl() float64 {
	switch c.Rng.Intn(6) {
	case 0:
		return float64(c.Rng.Intn(9) - 4)
	case 1:
		return (c.Rng.Float64()*2 - 1) * 1000
	case 2:
		return (c.Rng.Float64()*2 - 1) * 1e-3
	default:
		return c.Rng.Float64()*20 - 10
	}
}
func (c *Ctx) mv3() vector3.Float64 { return vector3.New(c.mfl(), c.mfl(), c.mfl()) }
func (c *Ctx) mquat() quaternion.Quaternion {
	return quaternion.New(c.mv3(), c.mfl())
}
func mvF(v vector3.Float64) string       { return Fs(v.X(), v.Y(), v.Z()) }
func mqF(q quaternion.Quaternion) string { return Fs(q.Dir().X(), q.Dir().Y(), q.Dir().Z(), q.W()) }
func mbbF(b geometry.AABB) string        { return mvF(b.Center()) + " " + mvF(b.Size().Scale(0.5)) }
