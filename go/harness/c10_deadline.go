package main

// C10, stream "c10d": cases that can only go wrong by NOT RETURNING, run in child processes under a deadline —
//   manyblocks  MarchParallel vs March on a canvas with 3·NumCPU+3 blocks (a tiny shape in each block, sparse blocks are
//               cheap): more blocks than fit in any queue sized by the worker count;
//   ragged      meshes whose scanned / modified attribute is longer or shorter than the one AttributeLength() reports: every
//               attribute Scan / Modify entry point, pools 2/3/5, one child per (dimension, direction);
//   nested      race-free callbacks that call a Parallel entry point themselves (depth 2): outer default pool (NumCPU) and
//               2·NumCPU over 4096 elements, inner pool 3 over 200 elements, against the nested sequential calls.
// Children run once with the machine's CPUs and once pinned to two CPUs (`taskset -c 0,1`: runtime.NumCPU() = 2, so the
// many-block canvas has 9 blocks and is cheap; the full-size one, 3·NumCPU+3 blocks of 8 MB, runs in the thorough tier only).
// A child that does not answer in time is killed; a hang is reported on its own request line
// (`c10.holds.same_outcome CASE cpus=… - ok hang`), never as an unexplained harness failure.

import (
	"context"
	"fmt"
	"math"
	"os"
	"os/exec"
	"runtime"
	"sort"
	"strings"
	"sync"
	"sync/atomic"
	"time"

	"github.com/EliCDavis/polyform/modeling"
	"github.com/EliCDavis/polyform/modeling/marching"
	"github.com/EliCDavis/vector/vector2"
	"github.com/EliCDavis/vector/vector3"
	"github.com/EliCDavis/vector/vector4"
)

func init() {
	streams["c10d"] = runC10D
	streams["c10dchild"] = runC10DChild
}

// run f under a deadline; "hang" when it does not return
func c10Deadline(d time.Duration, f func() []string) (toks []string, outcome string) {
	type res struct {
		toks []string
		out  string
	}
	ch := make(chan res, 1)
	go func() {
		var t []string
		o := c10Outcome(func() { t = f() })
		ch <- res{t, o}
	}()
	select {
	case r := <-ch:
		return r.toks, r.out
	case <-time.After(d):
		return nil, "hang"
	}
}

func c10Report(name string, seq, par []string, seqOut, parOut string) {
	fmt.Printf("RESULT %s %s %s\n", name, seqOut, parOut)
	if seqOut == "ok" && parOut == "ok" {
		fmt.Printf("SEQ %s %s\n", name, strings.Join(seq, " "))
		fmt.Printf("PAR %s %s\n", name, strings.Join(par, " "))
	}
}

func c10ManyBlocks() {
	nb := 3*runtime.NumCPU() + 3
	cv := marching.NewMarchingCanvas(1)
	for k := 0; k < nb; k++ {
		sh := c10Shape{kind: "l1", cx: float64(100*(k-nb/2) + 50), cy: 50, cz: 50, r: 1.5, ax: 1, ay: 1, az: 1}
		cv.AddField(sh.field(&c10Sampler{}, 1))
	}
	par, po := c10Deadline(60*time.Second, func() []string { return c10Tris(cv.MarchParallel(0), false) })
	seq, so := c10Deadline(600*time.Second, func() []string { return c10Tris(cv.March(0), false) })
	c10Report(fmt.Sprintf("manyblocks/blocks=%d", nb), seq, par, so, po)
}

func c10Nested() {
	const nA, nB = 4096, 200
	ncpu := runtime.NumCPU()
	posA := make([]vector3.Float64, nA)
	f1A := make([]float64, nA)
	for i := range posA {
		posA[i] = vector3.New(float64((i*37)%211), float64((i*91)%89), float64(i%13))
		f1A[i] = float64(i % 17)
	}
	posB := make([]vector3.Float64, nB)
	uvB := make([]vector2.Float64, nB)
	for j := range posB {
		posB[j] = vector3.New(float64((j*53)%199), float64((j*29)%83), float64(j%11))
		uvB[j] = vector2.New(float64(j), 1)
	}
	idxA := make([]int, (nA/3)*3)
	for i := range idxA {
		idxA[i] = i
	}
	idxB := make([]int, (nB/3)*3)
	for i := range idxB {
		idxB[i] = i
	}
	A := modeling.NewTriangleMesh(idxA).SetFloat3Attribute(modeling.PositionAttribute, posA).SetFloat1Attribute("w", f1A)
	B := modeling.NewTriangleMesh(idxB).SetFloat3Attribute(modeling.PositionAttribute, posB).SetFloat2Attribute("uv", uvB)
	ints := func(xs []int64) []string {
		out := make([]string, len(xs))
		for i, x := range xs {
			out[i] = fmt.Sprint(x)
		}
		return out
	}
	// 1: for every vertex of A the nearest vertex of B (inner scan writes only memory owned by this callback, under its own mutex)
	nearest := func(outer func(f func(i int, v vector3.Float64)), inner func(f func(j int, w vector3.Float64))) []string {
		res := make([]int64, nA)
		outer(func(i int, v vector3.Float64) {
			var mu sync.Mutex
			best, bd := -1, math.Inf(1)
			inner(func(j int, w vector3.Float64) {
				d := v.Sub(w).LengthSquared()
				mu.Lock()
				if d < bd || (d == bd && j < best) {
					best, bd = j, d
				}
				mu.Unlock()
			})
			res[i] = int64(best)
		})
		return ints(res)
	}
	seqNearest := func() []string {
		return nearest(func(f func(int, vector3.Float64)) { A.ScanFloat3Attribute(modeling.PositionAttribute, f) },
			func(f func(int, vector3.Float64)) { B.ScanFloat3Attribute(modeling.PositionAttribute, f) })
	}
	for _, pool := range []int{0, 2 * ncpu} { // 0: the variant without pool size (NumCPU)
		name := fmt.Sprintf("nested/ScanFloat3(pool=%d)>ScanFloat3(3)", pool)
		if pool == 0 {
			name = "nested/ScanFloat3Parallel(default)>ScanFloat3(3)"
		}
		par, po := c10Deadline(20*time.Second, func() []string {
			return nearest(func(f func(int, vector3.Float64)) {
				if pool == 0 {
					A.ScanFloat3AttributeParallel(modeling.PositionAttribute, f)
				} else {
					A.ScanFloat3AttributeParallelWithPoolSize(modeling.PositionAttribute, pool, f)
				}
			}, func(f func(int, vector3.Float64)) { B.ScanFloat3AttributeParallelWithPoolSize(modeling.PositionAttribute, 3, f) })
		})
		seq, so := c10Deadline(60*time.Second, seqNearest)
		c10Report(name, seq, par, so, po)
	}
	// 2: for every triangle of A, modify B's uv in parallel and fold the result (ScanPrimitivesParallel > ModifyFloat2)
	fold := func(outer func(f func(i int, p modeling.Primitive)), inner func(f func(j int, w vector2.Float64) vector2.Float64) modeling.Mesh) []string {
		res := make([]int64, nA/3)
		outer(func(i int, p modeling.Primitive) {
			m2 := inner(func(j int, w vector2.Float64) vector2.Float64 { return vector2.New(w.X()*float64(i%7), w.Y()+float64(j%3)) })
			uv := m2.Float2Attribute("uv")
			s := 0.0
			for j := 0; j < uv.Len(); j++ {
				s += uv.At(j).X() + uv.At(j).Y()
			}
			res[i] = int64(s)
		})
		return ints(res)
	}
	{
		par, po := c10Deadline(20*time.Second, func() []string {
			return fold(func(f func(int, modeling.Primitive)) { A.ScanPrimitivesParallel(f) },
				func(f func(int, vector2.Float64) vector2.Float64) modeling.Mesh {
					return B.ModifyFloat2AttributeParallelWithPoolSize("uv", 3, f)
				})
		})
		seq, so := c10Deadline(60*time.Second, func() []string {
			return fold(func(f func(int, modeling.Primitive)) { A.ScanPrimitives(f) },
				func(f func(int, vector2.Float64) vector2.Float64) modeling.Mesh { return B.ModifyFloat2Attribute("uv", f) })
		})
		c10Report("nested/ScanPrimitivesParallel(default)>ModifyFloat2(3)", seq, par, so, po)
	}
	// 3: ModifyFloat1Parallel over A whose callback counts B's triangles with a parallel primitive scan
	count := func(outer func(f func(i int, v float64) float64) modeling.Mesh, inner func(f func(j int, p modeling.Primitive))) []string {
		m2 := outer(func(i int, v float64) float64 {
			var n int64
			inner(func(j int, p modeling.Primitive) { atomic.AddInt64(&n, int64(j%5)) })
			return v + float64(n)
		})
		w := m2.Float1Attribute("w")
		res := make([]int64, w.Len())
		for i := range res {
			res[i] = int64(w.At(i))
		}
		return ints(res)
	}
	{
		par, po := c10Deadline(20*time.Second, func() []string {
			return count(func(f func(int, float64) float64) modeling.Mesh { return A.ModifyFloat1AttributeParallel("w", f) },
				func(f func(int, modeling.Primitive)) { B.ScanPrimitivesParallelWithPoolSize(3, f) })
		})
		seq, so := c10Deadline(60*time.Second, func() []string {
			return count(func(f func(int, float64) float64) modeling.Mesh { return A.ModifyFloat1Attribute("w", f) },
				func(f func(int, modeling.Primitive)) { B.ScanPrimitives(f) })
		})
		c10Report("nested/ModifyFloat1Parallel(default)>ScanPrimitives(3)", seq, par, so, po)
	}
}

// child: -n 1 = manyblocks, -n 2 = nested
func runC10DChild(c *Ctx) {
	fmt.Printf("NUMCPU %d\n", runtime.NumCPU())
	switch c.N {
	case 1:
		c10ManyBlocks()
	case 2:
		c10Nested()
	default:
		if c.N >= 3000 {
			c10Ragged((c.N-3000)/10, (c.N-3000)%10 == 1)
		}
	}
}

// ragged meshes (the setters accept them): the attribute scanned / modified is LONGER or SHORTER than the attribute that
// Mesh.AttributeLength() reports (the first one found in float4, float3, float2, float1 order).  The parallel variants must
// partition by the length of the attribute they work on, like the sequential loops do.
func c10RaggedMesh(d int, longer bool) modeling.Mesh {
	const first = 6
	n := 4
	if longer {
		n = 9
	}
	idx := []int{0, 1, 2, 3}
	m := modeling.NewMesh(modeling.PointTopology, idx)
	vals := make([]float64, n*d)
	for i := range vals {
		vals[i] = float64(100 + i)
	}
	switch d {
	case 3: // target float3; AttributeLength() sees the float4 attribute first
		c4 := make([]vector4.Float64, first)
		m = m.SetFloat4Attribute("first", c4)
		v := make([]vector3.Float64, n)
		for i := range v {
			v[i] = vector3.New(vals[3*i], vals[3*i+1], vals[3*i+2])
		}
		m = m.SetFloat3Attribute(c10Attr, v)
	case 2:
		m = m.SetFloat3Attribute("first", make([]vector3.Float64, first))
		v := make([]vector2.Float64, n)
		for i := range v {
			v[i] = vector2.New(vals[2*i], vals[2*i+1])
		}
		m = m.SetFloat2Attribute(c10Attr, v)
	default:
		m = m.SetFloat3Attribute("first", make([]vector3.Float64, first))
		m = m.SetFloat1Attribute(c10Attr, vals)
	}
	return m
}

func c10RaggedNames(d int, longer bool) []string {
	dir := map[bool]string{true: "longer", false: "shorter"}[longer]
	var out []string
	for _, pool := range []int{2, 3, 5} {
		out = append(out, fmt.Sprintf("ragged/float%d/%s/scan/pool=%d", d, dir, pool), fmt.Sprintf("ragged/float%d/%s/modify/pool=%d", d, dir, pool))
	}
	return out
}

func c10Ragged(d int, longer bool) {
	m := c10RaggedMesh(d, longer)
	dir := map[bool]string{true: "longer", false: "shorter"}[longer]
	for _, pool := range []int{2, 3, 5} {
		seq, so := c10ScanAttr(m, d, pool, false)
		par, po := c10ScanAttr(m, d, pool, true)
		c10Report(fmt.Sprintf("ragged/float%d/%s/scan/pool=%d", d, dir, pool), seq.tokens(), par.tokens(), so, po)
		sout, so2 := c10ModifyAttr(m, d, pool, false)
		pout, po2 := c10ModifyAttr(m, d, pool, true)
		c10Report(fmt.Sprintf("ragged/float%d/%s/modify/pool=%d", d, dir, pool), sout, pout, so2, po2)
	}
}

func runC10D(c *Ctx) {
	dir, err := os.MkdirTemp("", "c10d")
	if err != nil {
		panic(err)
	}
	defer os.RemoveAll(dir)
	type child struct {
		kind   int
		pinned bool
		expect []string // case-name prefixes that must be answered
	}
	nestedCases := []string{"nested/ScanFloat3Parallel(default)", "nested/ScanFloat3(pool=", "nested/ScanPrimitivesParallel(default)", "nested/ModifyFloat1Parallel(default)"}
	children := []child{{1, true, []string{"manyblocks/"}}, {2, true, nestedCases}, {2, false, nestedCases}}
	if c.Tier == "thorough" {
		children = append(children, child{1, false, []string{"manyblocks/"}})
	}
	// ragged meshes: one child per (dimension, direction) — a panic inside a worker goroutine kills only that child
	for d := 1; d <= 3; d++ {
		for _, longer := range []bool{true, false} {
			k := 3000 + d*10
			if longer {
				k++
			}
			children = append(children, child{k, false, c10RaggedNames(d, longer)})
		}
	}
	for _, ch := range children {
		args := []string{os.Args[0], "c10dchild", "-n", fmt.Sprint(ch.kind), "-out", dir}
		cpus := "all"
		if ch.pinned {
			args = append([]string{"taskset", "-c", "0,1"}, args...)
			cpus = "2"
		}
		ctx, cancel := context.WithTimeout(context.Background(), 900*time.Second)
		cmd := exec.CommandContext(ctx, args[0], args[1:]...)
		out, err := cmd.CombinedOutput()
		cancel()
		c.Note("deadline-child cpus=" + cpus)
		seqs, pars := map[string][]string{}, map[string][]string{}
		answered := map[string]bool{}
		for _, line := range strings.Split(string(out), "\n") {
			f := strings.Fields(line)
			if len(f) < 2 {
				continue
			}
			switch f[0] {
			case "NUMCPU":
				cpus = f[1]
			case "SEQ":
				seqs[f[1]] = f[2:]
			case "PAR":
				pars[f[1]] = f[2:]
			case "RESULT":
				if len(f) == 4 {
					answered[f[1]] = true
					if f[2] != "ok" || f[3] != "ok" {
						// a hang / panic of either side: outcomes must be identical
						c.Emit("c10.holds.same_outcome", fmt.Sprintf("%s cpus=%s - %s %s", f[1], cpus, f[2], f[3]), "true")
						c.Note("deadline-outcome-" + f[3])
					}
				}
			}
		}
		names := make([]string, 0, len(seqs))
		for name := range seqs {
			names = append(names, name)
		}
		sort.Strings(names)
		for _, name := range names {
			seq, par := seqs[name], pars[name]
			if strings.HasPrefix(name, "manyblocks/") {
				c10SameTris(c, name+"/cpus="+cpus, seq, par)
			} else {
				c10SameOutput(c, seq, par)
			}
			c.Note("deadline-case-compared")
		}
		for _, want := range ch.expect {
			got := false
			for name := range answered {
				if strings.HasPrefix(name, want) {
					got = true
				}
			}
			if !got {
				// the child died or was killed before answering this case
				why := "crash"
				if err != nil && ctx.Err() != nil {
					why = "hang"
				}
				if i := strings.Index(string(out), "panic: "); i >= 0 && !strings.Contains(string(out), "fatal error: ") {
					msg := string(out)[i:]
					if j := strings.Index(msg, "\n"); j > 0 {
						msg = msg[:j]
					}
					why = "crash:" + strings.ReplaceAll(msg, " ", "_")
				}
				if i := strings.Index(string(out), "fatal error: "); i >= 0 {
					msg := string(out)[i:]
					if j := strings.Index(msg, "\n"); j > 0 {
						msg = msg[:j]
					}
					why = "crash:" + strings.ReplaceAll(msg, " ", "_")
				}
				c.Emit("c10.holds.same_outcome", fmt.Sprintf("%s cpus=%s - ok %s", want, cpus, why), "true")
				c.Note("deadline-child-died")
			}
		}
	}
}
