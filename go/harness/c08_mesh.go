package main

// C08 round 2 — the tie of `ply_reads_spec_mesh_bytes` / `ply_spec_mesh_other_size_rejected` (Props/C08Mesh.lean):
// on every run, one reference-encoded mesh file for EVERY combination of
//   format (le, be, ascii) × index-list count type (uchar, int, uint) × index type (int, uint) × unrecognised extra list
//   (none, declared first, declared last),
// name `vertex_indices` / `vertex_index`, canonical / alias spelling, triangles and quads mixed, no texcoord.  Each file
// goes through the usual lines (c08.encode: Lean refEncode = these bytes; c08.read: model reader = ply.ReadMesh;
// c08.holds.meaning: ply.ReadMesh = `meaning f`).  Then the same grammar with ONE face of another size (0, 1, 2, 5, 6, 255
// indices) after a run of triangles / quads: c08.read ties the model, c08.holds.mesh_other_size_rejected demands `err`.

import "fmt"

func (c *Ctx) plyMeshSweepVerts(s *plySpec, nv int) {
	s.vprops = []plySpecProp{{"x", "float", c.Rng.Intn(2) == 0}, {"y", "float", false}, {"z", "float", false}}
	if s.format != "ascii" && c.Rng.Intn(2) == 0 {
		// permuted position group + an unrecognised 8-bit scalar in the middle (binary only: ASCII leaves such a scalar
		// un-normalised — known finding, outside the guards)
		s.vprops = []plySpecProp{{"z", "float", false}, {"q", "uchar", c.Rng.Intn(2) == 0}, {"x", "float", false}, {"y", "float", true}}
	}
	for i := 0; i < nv; i++ {
		r := make([]float64, len(s.vprops))
		for k, p := range s.vprops {
			if p.ty == "uchar" {
				r[k] = float64(c.Rng.Intn(256))
			} else {
				r[k] = float64(i*4+k) + 0.5
			}
		}
		s.verts = append(s.verts, r)
	}
}

func (c *Ctx) plyMeshSweep() {
	for _, format := range []string{"le", "be", "ascii"} {
		for _, ct := range []string{"uchar", "int", "uint"} {
			for _, it := range []string{"int", "uint"} {
				for extra := 0; extra < 3; extra++ {
					s := plySpec{format: format, crlf: c.Rng.Intn(3) == 0}
					nv := 4 + c.Rng.Intn(5)
					c.plyMeshSweepVerts(&s, nv)
					fe := &plySpecFaceElem{short: c.Rng.Intn(2) == 0, cntTy: ct, idxTy: it, idxAlias: c.Rng.Intn(2) == 0, extra: extra,
						texCnt: "uchar", texItem: "float"}
					nf := 1 + c.Rng.Intn(4)
					for i := 0; i < nf; i++ {
						fe.faces = append(fe.faces, c.plyMeshSweepFace(nv, 3+c.Rng.Intn(2), extra))
					}
					s.face = fe
					c.Note(fmt.Sprintf("mesh-sweep:%s:count=%s:index=%s:extra=%d", format, ct, it, extra))
					c.plySpecCaseEP(s, "c08.holds.meaning", false)

					// one face of another size after a run of supported ones
					bad := s
					bfe := *fe
					k := []int{0, 1, 2, 5, 6, 255}[c.Rng.Intn(6)]
					pre := c.Rng.Intn(3)
					bfe.faces = nil
					for i := 0; i < pre; i++ {
						bfe.faces = append(bfe.faces, c.plyMeshSweepFace(nv, 3+c.Rng.Intn(2), extra))
					}
					bfe.faces = append(bfe.faces, c.plyMeshSweepFace(nv, k, extra))
					for i := c.Rng.Intn(2); i > 0; i-- {
						bfe.faces = append(bfe.faces, c.plyMeshSweepFace(nv, 3, extra))
					}
					bad.face = &bfe
					data := plyRefEncode(bad)
					st := plySpecTok(bad)
					c.Emit("c08.encode", st, plyHx(data))
					rs, _ := plyImplReadMesh(data)
					c.Emit("c08.read", plyHx(data), rs)
					c.Emit("c08.holds.mesh_other_size_rejected", st+" "+rs, "true")
					c.Note(fmt.Sprintf("mesh-sweep:other-size=%d", k))
				}
			}
		}
	}
}

// textured meshes (ply_reads_spec_mesh_tex_bytes / …_tex_ascii_bytes): every format × texcoord count type × item type once per
// run; declaration order, extra list, index-list types and names at random; per-corner coordinates tagged (distinct, exact in
// float32) so that a coordinate on the wrong corner is visible
func (c *Ctx) plyMeshTexSweep() {
	for _, format := range []string{"le", "be", "ascii"} {
		for _, tct := range []string{"uchar", "int", "uint"} {
			for _, tit := range []string{"float", "double"} {
				s := plySpec{format: format, crlf: c.Rng.Intn(3) == 0}
				nv := 4 + c.Rng.Intn(5)
				c.plyMeshSweepVerts(&s, nv)
				fe := &plySpecFaceElem{short: c.Rng.Intn(2) == 0, cntTy: []string{"uchar", "int", "uint"}[c.Rng.Intn(3)],
					idxTy: []string{"int", "uint"}[c.Rng.Intn(2)], idxAlias: c.Rng.Intn(2) == 0, extra: c.Rng.Intn(3),
					hasTex: true, texCnt: tct, texItem: tit, texFirst: c.Rng.Intn(2) == 0}
				tag := 0
				for i := 1 + c.Rng.Intn(4); i > 0; i-- {
					fc := c.plyMeshSweepFace(nv, 3+c.Rng.Intn(2), fe.extra)
					for j := 0; j < 2*len(fc.verts); j++ {
						tag++
						fc.uv = append(fc.uv, float64(tag)/64+float64(c.Rng.Intn(4)))
					}
					fe.faces = append(fe.faces, fc)
				}
				s.face = fe
				c.Note(fmt.Sprintf("mesh-sweep:tex:%s:count=%s:item=%s", format, tct, tit))
				c.plySpecCaseEP(s, "c08.holds.meaning", false)
			}
		}
	}
}

func (c *Ctx) plyMeshSweepFace(nv, k, extra int) plySpecFace {
	fc := plySpecFace{}
	for j := 0; j < k; j++ {
		fc.verts = append(fc.verts, c.Rng.Intn(nv))
	}
	if extra != 0 {
		for j := []int{0, 1, 3, 200, 255}[c.Rng.Intn(5)]; j > 0; j-- {
			fc.extra = append(fc.extra, c.Rng.Intn(2001)-1000)
		}
	}
	return fc
}
