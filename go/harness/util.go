package main

// Helpers shared by several streams (kept apart from the per-property files: /verif/check builds the
// harness for property Cxx from main.go + util*.go + cxx*.go only, so a broken file of one property
// cannot break the check of another).

import (
	"strconv"

	"github.com/EliCDavis/vector/vector3"
)

func itoa(i int) string { return strconv.Itoa(i) }

func (c *Ctx) fl() float64 {
	switch c.Rng.Intn(6) {
	case 0:
		return float64(c.Rng.Intn(9) - 4)
	case 1:
		return (c.Rng.Float64()*2 - 1) * 1000
	case 2:
		return (c.Rng.Float64()*2 - 1) * 1e-3
	default:
		return c.Rng.Float64()*20 - 10
	}
}

func (c *Ctx) v3() vector3.Float64 { return vector3.New(c.fl(), c.fl(), c.fl()) }

func (c *Ctx) unit3() vector3.Float64 {
	for {
		v := vector3.New(c.Rng.NormFloat64(), c.Rng.NormFloat64(), c.Rng.NormFloat64())
		if v.Length() > 1e-3 {
			return v.Normalized()
		}
	}
}

func vF(v vector3.Float64) string        { return Fs(v.X(), v.Y(), v.Z()) }
