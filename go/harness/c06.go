package main

// C06 — glTF/GLB output is structurally loadable and carries exactly the scene data.
//
// Stream c06: generated scenes are written with gltf.WriteBinary / gltf.WriteText; the produced file is parsed by an
// INDEPENDENT reader (own GLB framing, own structs + encoding/json, own base64 handling) into a canonical token
// summary.  The Lean driver computes the same summary from the scene description with the model
// PolyVerif/Model/Gltf.lean; oracle lines hand the implementation's parsed output to the theorem predicates.

import (
	"bytes"
	"encoding/base64"
	"encoding/binary"
	"encoding/hex"
	"encoding/json"
	"fmt"
	"hash/fnv"
	"image/color"
	"math"
	"sort"
	"strconv"
	"strings"

	"github.com/EliCDavis/polyform/formats/gltf"
	"github.com/EliCDavis/polyform/math/quaternion"
	"github.com/EliCDavis/polyform/math/trs"
	"github.com/EliCDavis/polyform/modeling"
	"github.com/EliCDavis/vector/vector2"
	"github.com/EliCDavis/vector/vector3"
	"github.com/EliCDavis/vector/vector4"
)

func init() { streams["c06"] = runC06 }

// ---------------------------------------------------------------------------------------------------------------
// scene description (what crosses the pipe) + the real gltf.PolyformScene built from it

type c6Attr struct {
	name string
	dim  int
	data []float64 // flat, dim per vertex
}

type c6Mesh struct {
	topo  int
	idx   []int
	attrs []c6Attr
	ptr   *modeling.Mesh
}

type c6Tex struct {
	uri     string
	sampler *gltf.Sampler
	xf      []float64 // nil = no KHR_texture_transform
	req     bool
	ptr     *gltf.PolyformTexture
}

type c6KeyTex struct {
	key string
	id  int
}

type c6Ext struct {
	id      string
	eqKey   int
	payload []float64
	texs    []c6KeyTex
	val     gltf.MaterialExtension
}

type c6Mat struct {
	name      string
	alphaMode *string
	cutoff    *float64
	hasPbr    bool
	baseColor []uint32
	metallic  *float64
	roughness *float64
	bct, mrt  int
	emissive  []uint32
	normal    int
	normalSc  *float64
	occl      int
	occlSt    *float64
	exts      []c6Ext
	ptr       *gltf.PolyformMaterial
}

type c6Model struct {
	name      string
	mesh, mat int
	t, r, s   []float64
	inst      [][]float64 // 10 per instance: p s r
	instOf    int         // >0: the Go slice is a sub-slice of model (instOf-1)'s backing array, starting at instOff
	instOff   int
	instBack  [][]float64 // non-nil: the backing array holds these values, the model's slice is its prefix of len(inst)
}

type c6Scene struct {
	meshes []c6Mesh
	texs   []c6Tex
	mats   []c6Mat
	models []c6Model
	lights [][]float64
}

// q-token of a string: bytes outside [A-Za-z0-9_.-/] are written ~XX. The escaping is injective and the model only
// moves and compares these strings, so the model works on the escaped form.
func q(s string) string {
	var b strings.Builder
	b.WriteByte('q')
	for i := 0; i < len(s); i++ {
		ch := s[i]
		if ch >= 'a' && ch <= 'z' || ch >= 'A' && ch <= 'Z' || ch >= '0' && ch <= '9' || ch == '_' || ch == '.' || ch == '-' || ch == '/' {
			b.WriteByte(ch)
		} else {
			fmt.Fprintf(&b, "~%02X", ch)
		}
	}
	return b.String()
}

func optF(p *float64) string {
	if p == nil {
		return "-"
	}
	return F(*p)
}

func listF(fs []float64) string {
	if fs == nil {
		return "0"
	}
	return strconv.Itoa(len(fs)) + " " + Fs(fs...)
}

func (s *c6Scene) tokens() string {
	var b strings.Builder
	w := func(format string, a ...any) { fmt.Fprintf(&b, format, a...) }
	w("S meshes %d", len(s.meshes))
	for _, m := range s.meshes {
		w(" %d %d", m.topo, len(m.idx))
		for _, i := range m.idx {
			w(" %d", i)
		}
		w(" %d", len(m.attrs))
		for _, a := range m.attrs {
			w(" %s %d %d", q(a.name), a.dim, len(a.data)/a.dim)
			for _, f := range a.data {
				b.WriteByte(' ')
				b.WriteString(F(f))
			}
		}
	}
	w(" texs %d", len(s.texs))
	for _, t := range s.texs {
		w(" %s", q(t.uri))
		if t.sampler == nil {
			w(" 0")
		} else {
			w(" 1 %d %d %d %d %s %d", int(t.sampler.MagFilter), int(t.sampler.MinFilter), int(t.sampler.WrapS), int(t.sampler.WrapT), q(t.sampler.Name), c6SamplerTag(t.sampler))
		}
		if t.xf == nil {
			w(" -1")
		} else {
			w(" %s", listF(t.xf))
		}
		w(" %d", b2i(t.req))
	}
	w(" mats %d", len(s.mats))
	for _, m := range s.mats {
		w(" %s", q(m.name))
		if m.alphaMode == nil {
			w(" -")
		} else {
			w(" %s", q(*m.alphaMode))
		}
		w(" %s %d", optF(m.cutoff), b2i(m.hasPbr))
		w(" %s", listU(m.baseColor))
		w(" %s %s %d %d", optF(m.metallic), optF(m.roughness), m.bct, m.mrt)
		w(" %s", listU(m.emissive))
		if m.normal < 0 {
			w(" -1")
		} else {
			w(" %d %s", m.normal, optF(m.normalSc))
		}
		if m.occl < 0 {
			w(" -1")
		} else {
			w(" %d %s", m.occl, optF(m.occlSt))
		}
		w(" %d", len(m.exts))
		for _, e := range m.exts {
			w(" %s %d %s %d", q(e.id), e.eqKey, listF0(e.payload), len(e.texs))
			for _, kt := range e.texs {
				w(" %s %d", q(kt.key), kt.id)
			}
		}
	}
	w(" models %d", len(s.models))
	for _, m := range s.models {
		w(" %s %d %d %s %s %s %d", q(m.name), m.mesh, m.mat, listF(m.t), listF(m.r), listF(m.s), len(m.inst))
		for _, in := range m.inst {
			w(" %s", Fs(in...))
		}
	}
	w(" lights %d", len(s.lights))
	for _, l := range s.lights {
		w(" %s %016x %016x %016x %016x %016x %016x %s %016x %s", Fs(l[:3]...), int(l[3]), int(l[4]), int(l[5]), int(l[6]), int(l[7]),
			int(l[8]), F(l[9]), int(l[10]), F(l[11]))
	}
	return b.String()
}

func listF0(fs []float64) string {
	if len(fs) == 0 {
		return "0"
	}
	return strconv.Itoa(len(fs)) + " " + Fs(fs...)
}

func listU(us []uint32) string {
	if us == nil {
		return "0"
	}
	parts := []string{strconv.Itoa(len(us))}
	for _, u := range us {
		parts = append(parts, strconv.Itoa(int(u)))
	}
	return strings.Join(parts, " ")
}

func b2i(b bool) int {
	if b {
		return 1
	}
	return 0
}

func (s *c6Scene) build() gltf.PolyformScene {
	for i := range s.meshes {
		m := &s.meshes[i]
		if m.ptr != nil {
			continue
		}
		mesh := modeling.NewMesh(modeling.Topology(m.topo), m.idx)
		for _, a := range m.attrs {
			n := len(a.data) / a.dim
			switch a.dim {
			case 1:
				mesh = mesh.SetFloat1Attribute(a.name, append([]float64{}, a.data...))
			case 2:
				d := make([]vector2.Float64, n)
				for k := range d {
					d[k] = vector2.New(a.data[2*k], a.data[2*k+1])
				}
				mesh = mesh.SetFloat2Attribute(a.name, d)
			case 3:
				d := make([]vector3.Float64, n)
				for k := range d {
					d[k] = vector3.New(a.data[3*k], a.data[3*k+1], a.data[3*k+2])
				}
				mesh = mesh.SetFloat3Attribute(a.name, d)
			case 4:
				d := make([]vector4.Float64, n)
				for k := range d {
					d[k] = vector4.New(a.data[4*k], a.data[4*k+1], a.data[4*k+2], a.data[4*k+3])
				}
				mesh = mesh.SetFloat4Attribute(a.name, d)
			}
		}
		m.ptr = &mesh
	}
	for i := range s.texs {
		t := &s.texs[i]
		if t.ptr != nil {
			continue
		}
		pt := &gltf.PolyformTexture{URI: t.uri, Sampler: t.sampler}
		if t.xf != nil {
			pt.Extensions = []gltf.TextureExtension{xfOf(t.xf, t.req)}
		}
		t.ptr = pt
	}
	tex := func(i int) *gltf.PolyformTexture {
		if i < 0 || i >= len(s.texs) {
			return nil // i = len(s.texs): the nil embedded pointer of a PolyformNormal{} / PolyformOcclusion{} literal (round 2)
		}
		return s.texs[i].ptr
	}
	for i := range s.mats {
		m := &s.mats[i]
		if m.ptr != nil {
			continue
		}
		pm := &gltf.PolyformMaterial{Name: m.name, AlphaCutoff: m.cutoff}
		if m.alphaMode != nil {
			am := gltf.MaterialAlphaMode(*m.alphaMode)
			pm.AlphaMode = &am
		}
		if m.hasPbr {
			pbr := &gltf.PolyformPbrMetallicRoughness{MetallicFactor: m.metallic, RoughnessFactor: m.roughness,
				BaseColorTexture: tex(m.bct), MetallicRoughnessTexture: tex(m.mrt)}
			if m.baseColor != nil {
				pbr.BaseColorFactor = colOf(m.baseColor)
			}
			pm.PbrMetallicRoughness = pbr
		}
		if m.emissive != nil {
			pm.EmissiveFactor = colOf(m.emissive)
		}
		if m.normal >= 0 {
			pm.NormalTexture = &gltf.PolyformNormal{PolyformTexture: tex(m.normal), Scale: m.normalSc}
		}
		if m.occl >= 0 {
			pm.OcclusionTexture = &gltf.PolyformOcclusion{PolyformTexture: tex(m.occl), Strength: m.occlSt}
		}
		for _, e := range m.exts {
			pm.Extensions = append(pm.Extensions, e.val)
		}
		m.ptr = pm
	}
	out := gltf.PolyformScene{}
	for _, md := range s.models {
		pm := gltf.PolyformModel{Name: md.name}
		if md.mesh >= 0 {
			pm.Mesh = s.meshes[md.mesh].ptr
		}
		if md.mat >= 0 {
			pm.Material = s.mats[md.mat].ptr
		}
		if md.t != nil {
			v := vector3.New(md.t[0], md.t[1], md.t[2])
			pm.Translation = &v
		}
		if md.r != nil {
			qq := quaternion.New(vector3.New(md.r[0], md.r[1], md.r[2]), md.r[3])
			pm.Rotation = &qq
		}
		if md.s != nil {
			v := vector3.New(md.s[0], md.s[1], md.s[2])
			pm.Scale = &v
		}
		mkInst := func(vals [][]float64) []trs.TRS {
			var l []trs.TRS
			for _, in := range vals {
				l = append(l, trs.New(vector3.New(in[0], in[1], in[2]),
					quaternion.New(vector3.New(in[6], in[7], in[8]), in[9]), vector3.New(in[3], in[4], in[5])))
			}
			return l
		}
		if md.instOf > 0 && md.instOf-1 < len(out.Models) && md.instOff+len(md.inst) <= cap(out.Models[md.instOf-1].GpuInstances) {
			// same backing array as an earlier model's list (prefix, longer prefix, offset window): the VALUES are md.inst
			pm.GpuInstances = out.Models[md.instOf-1].GpuInstances[md.instOff : md.instOff+len(md.inst)]
		} else if md.instBack != nil {
			pm.GpuInstances = mkInst(md.instBack)[:len(md.inst)]
		} else {
			pm.GpuInstances = mkInst(md.inst)
		}
		out.Models = append(out.Models, pm)
	}
	for _, l := range s.lights {
		kl := gltf.KHR_LightsPunctual{Position: vector3.New(l[0], l[1], l[2])}
		kl.Type = []gltf.KHR_LightsPunctualType{"", gltf.KHR_LightsPunctualType_Point, gltf.KHR_LightsPunctualType_Directional, gltf.KHR_LightsPunctualType_Spot}[int(l[3])]
		if l[4] != 0 {
			kl.Color = c6Color{uint32(l[5]), uint32(l[6]), uint32(l[7]), 0xffff}
		}
		if l[8] != 0 {
			v := l[9]
			kl.Intensity = &v
		}
		if l[10] != 0 {
			v := l[11]
			kl.Range = &v
		}
		out.Lights = append(out.Lights, kl)
	}
	return out
}

// colour whose RGBA() returns exactly the four 16-bit values
type c6Color [4]uint32

func (c c6Color) RGBA() (r, g, b, a uint32) { return c[0], c[1], c[2], c[3] }

func colOf(u []uint32) color.Color { return c6Color{u[0], u[1], u[2], u[3]} }

// texture transform: canonical payload = hasOffset ox oy hasRot rot hasScale sx sy hasTC tc (10 numbers)
func xfOf(p []float64, req bool) gltf.PolyformTextureTransform {
	t := gltf.PolyformTextureTransform{Required: req}
	if p[0] != 0 {
		v := vector2.New(p[1], p[2])
		t.Offset = &v
	}
	if p[3] != 0 {
		r := p[4]
		t.Rotation = &r
	}
	if p[5] != 0 {
		v := vector2.New(p[6], p[7])
		t.Scale = &v
	}
	if p[8] != 0 {
		tc := int(p[9])
		t.TexCoord = &tc
	}
	return t
}

// ---------------------------------------------------------------------------------------------------------------
// independent reader

type r6Acc struct {
	BufferView    *int      `json:"bufferView"`
	ByteOffset    int       `json:"byteOffset"`
	ComponentType int       `json:"componentType"`
	Normalized    bool      `json:"normalized"`
	Type          string    `json:"type"`
	Count         int       `json:"count"`
	Max           []float64 `json:"max"`
	Min           []float64 `json:"min"`
}
type r6View struct {
	Buffer     int  `json:"buffer"`
	ByteOffset int  `json:"byteOffset"`
	ByteLength int  `json:"byteLength"`
	ByteStride *int `json:"byteStride"`
	Target     int  `json:"target"`
}
type r6Buf struct {
	ByteLength int    `json:"byteLength"`
	URI        string `json:"uri"`
}
type r6Prim struct {
	Attributes map[string]int `json:"attributes"`
	Indices    *int           `json:"indices"`
	Material   *int           `json:"material"`
	Mode       *int           `json:"mode"`
	Targets    []any          `json:"targets"`
}
type r6Mesh struct {
	Name       string   `json:"name"`
	Primitives []r6Prim `json:"primitives"`
}
type r6Node struct {
	Name        string                     `json:"name"`
	Mesh        *int                       `json:"mesh"`
	Translation []float64                  `json:"translation"`
	Rotation    []float64                  `json:"rotation"`
	Scale       []float64                  `json:"scale"`
	Matrix      []float64                  `json:"matrix"`
	Children    []int                      `json:"children"`
	Skin        *int                       `json:"skin"`
	Camera      *int                       `json:"camera"`
	Extensions  map[string]json.RawMessage `json:"extensions"`
}
type r6TexInfo struct {
	Index      *int                       `json:"index"`
	TexCoord   int                        `json:"texCoord"`
	Scale      *float64                   `json:"scale"`
	Strength   *float64                   `json:"strength"`
	Extensions map[string]json.RawMessage `json:"extensions"`
}
type r6Pbr struct {
	BaseColorFactor          []float64  `json:"baseColorFactor"`
	BaseColorTexture         *r6TexInfo `json:"baseColorTexture"`
	MetallicFactor           *float64   `json:"metallicFactor"`
	RoughnessFactor          *float64   `json:"roughnessFactor"`
	MetallicRoughnessTexture *r6TexInfo `json:"metallicRoughnessTexture"`
}
type r6Mat struct {
	Name             string                     `json:"name"`
	Pbr              *r6Pbr                     `json:"pbrMetallicRoughness"`
	NormalTexture    *r6TexInfo                 `json:"normalTexture"`
	OcclusionTexture *r6TexInfo                 `json:"occlusionTexture"`
	EmissiveTexture  *r6TexInfo                 `json:"emissiveTexture"`
	EmissiveFactor   []float64                  `json:"emissiveFactor"`
	AlphaMode        *string                    `json:"alphaMode"`
	AlphaCutoff      *float64                   `json:"alphaCutoff"`
	Extensions       map[string]json.RawMessage `json:"extensions"`
}
type r6Tex struct {
	Sampler    *int                       `json:"sampler"`
	Source     *int                       `json:"source"`
	Extensions map[string]json.RawMessage `json:"extensions"`
}
type r6Img struct {
	URI string `json:"uri"`
}
type r6Samp struct {
	Extras    map[string]any `json:"extras"`
	Name      string         `json:"name"`
	MagFilter int            `json:"magFilter"`
	MinFilter int            `json:"minFilter"`
	WrapS     int            `json:"wrapS"`
	WrapT     int            `json:"wrapT"`
}
type r6Scene struct {
	Nodes []int `json:"nodes"`
}
type r6Doc struct {
	ExtensionsUsed     []string                   `json:"extensionsUsed"`
	ExtensionsRequired []string                   `json:"extensionsRequired"`
	Accessors          []r6Acc                    `json:"accessors"`
	Buffers            []r6Buf                    `json:"buffers"`
	BufferViews        []r6View                   `json:"bufferViews"`
	Meshes             []r6Mesh                   `json:"meshes"`
	Nodes              []r6Node                   `json:"nodes"`
	Scene              int                        `json:"scene"`
	Scenes             []r6Scene                  `json:"scenes"`
	Materials          []r6Mat                    `json:"materials"`
	Textures           []r6Tex                    `json:"textures"`
	Images             []r6Img                    `json:"images"`
	Samplers           []r6Samp                   `json:"samplers"`
	Skins              []any                      `json:"skins"`
	Animations         []any                      `json:"animations"`
	Extensions         map[string]json.RawMessage `json:"extensions"`
}

// GLB framing as found in the file (no interpretation beyond reading the fields)
type r6Frame struct {
	fileLen                 int
	magic, version, total   uint32
	jsonLen, jsonType       uint32
	hasBin                  bool
	binLen, binType         uint32
	json, bin               []byte // chunk payloads incl. padding
	trailing                int    // bytes after the last chunk
	jsonPadOK, binPadOK, ok bool
}

func parseGLB(b []byte) (fr r6Frame) {
	fr.fileLen = len(b)
	if len(b) < 20 {
		return
	}
	le := binary.LittleEndian
	fr.magic, fr.version, fr.total = le.Uint32(b[0:]), le.Uint32(b[4:]), le.Uint32(b[8:])
	fr.jsonLen, fr.jsonType = le.Uint32(b[12:]), le.Uint32(b[16:])
	p := 20
	if p+int(fr.jsonLen) > len(b) {
		return
	}
	fr.json = b[p : p+int(fr.jsonLen)]
	p += int(fr.jsonLen)
	if p < len(b) {
		if p+8 > len(b) {
			return
		}
		fr.hasBin = true
		fr.binLen, fr.binType = le.Uint32(b[p:]), le.Uint32(b[p+4:])
		p += 8
		if p+int(fr.binLen) > len(b) {
			return
		}
		fr.bin = b[p : p+int(fr.binLen)]
		p += int(fr.binLen)
	}
	fr.trailing = len(b) - p
	fr.ok = true
	return
}

func (fr r6Frame) tokens() string {
	return fmt.Sprintf("%d %d %d %d %d %d %d %d %d %d", fr.fileLen, fr.magic, fr.version, fr.total, fr.jsonLen, fr.jsonType,
		b2i(fr.hasBin), fr.binLen, fr.binType, fr.trailing)
}

func boundTok(comp int, v float64, isMin bool) string {
	switch comp {
	case 5126:
		if isMin && v == math.MaxFloat64 || !isMin && v == -math.MaxFloat64 {
			return "s"
		}
		if float64(float32(v)) == v {
			return strconv.FormatUint(uint64(math.Float32bits(float32(v))), 10)
		}
	case 5121:
		if v >= 0 && v <= 255 && v == math.Trunc(v) && !(v == 0 && math.Signbit(v)) {
			return strconv.Itoa(int(v))
		}
	}
	return "x" + F(v)
}

func optI(p *int) string {
	if p == nil {
		return "-1"
	}
	return strconv.Itoa(*p)
}

func dimOf(t string) int {
	switch t {
	case "SCALAR":
		return 1
	case "VEC2":
		return 2
	case "VEC3":
		return 3
	case "VEC4":
		return 4
	}
	return 99
}

// canonical payload of a KHR_texture_transform object (same 10 numbers as the scene side)
func xfTokens(raw json.RawMessage) string {
	var o struct {
		Offset   []float64 `json:"offset"`
		Rotation *float64  `json:"rotation"`
		Scale    []float64 `json:"scale"`
		TexCoord *int      `json:"texCoord"`
	}
	if err := json.Unmarshal(raw, &o); err != nil {
		return "x"
	}
	p := make([]float64, 10)
	if len(o.Offset) == 2 {
		p[0], p[1], p[2] = 1, o.Offset[0], o.Offset[1]
	} else if o.Offset != nil {
		return "x"
	}
	if o.Rotation != nil {
		p[3], p[4] = 1, *o.Rotation
	}
	if len(o.Scale) == 2 {
		p[5], p[6], p[7] = 1, o.Scale[0], o.Scale[1]
	} else if o.Scale != nil {
		return "x"
	}
	if o.TexCoord != nil {
		p[8], p[9] = 1, float64(*o.TexCoord)
	}
	return listF(p)
}

func texInfoTok(t *r6TexInfo, seen map[string]bool) string {
	if t == nil {
		return "-1"
	}
	if t.Index == nil || t.TexCoord != 0 {
		return "x"
	}
	xf := "-1"
	for k, raw := range t.Extensions {
		seen[k] = true
		if k == "KHR_texture_transform" {
			xf = xfTokens(raw)
		} else {
			return "x"
		}
	}
	return fmt.Sprintf("%d %s", *t.Index, xf)
}

// material extension object -> payload (numbers, sorted by key, arrays flattened) + texture infos (sorted by key)
func matExtTok(id string, raw json.RawMessage, seen map[string]bool) string {
	var o map[string]json.RawMessage
	if err := json.Unmarshal(raw, &o); err != nil {
		return "x"
	}
	keys := make([]string, 0, len(o))
	for k := range o {
		keys = append(keys, k)
	}
	sort.Strings(keys)
	var payload []float64
	var texs []string
	for _, k := range keys {
		v := o[k]
		var f float64
		var fa []float64
		var ti r6TexInfo
		if json.Unmarshal(v, &f) == nil {
			payload = append(payload, f)
		} else if json.Unmarshal(v, &fa) == nil {
			payload = append(payload, fa...)
		} else if json.Unmarshal(v, &ti) == nil && ti.Index != nil {
			texs = append(texs, q(k)+" "+texInfoTok(&ti, seen))
		} else {
			return "x"
		}
	}
	s := fmt.Sprintf("%s %s %d", q(id), listF0(payload), len(texs))
	if len(texs) > 0 {
		s += " " + strings.Join(texs, " ")
	}
	return s
}

// docTokens: canonical one-line summary of the parsed document. `seen` collects every extension id that occurs
// anywhere in the document.
func (d *r6Doc) tokens() (string, []string) {
	seen := map[string]bool{}
	var b strings.Builder
	w := func(format string, a ...any) { fmt.Fprintf(&b, format, a...) }
	w("D buf")
	switch len(d.Buffers) {
	case 0:
		w(" -1")
	case 1:
		w(" %d", d.Buffers[0].ByteLength)
	default:
		w(" x")
	}
	w(" views %d", len(d.BufferViews))
	for _, v := range d.BufferViews {
		if v.Buffer != 0 || v.ByteStride != nil {
			w(" x")
		}
		w(" %d %d %d", v.ByteOffset, v.ByteLength, v.Target)
	}
	w(" accs %d", len(d.Accessors))
	for _, a := range d.Accessors {
		if a.BufferView == nil || a.ByteOffset != 0 || a.Normalized {
			w(" x")
		}
		w(" %s %d %d %d %d", optI(a.BufferView), a.ComponentType, dimOf(a.Type), a.Count, len(a.Min))
		for _, v := range a.Min {
			w(" %s", boundTok(a.ComponentType, v, true))
		}
		w(" %d", len(a.Max))
		for _, v := range a.Max {
			w(" %s", boundTok(a.ComponentType, v, false))
		}
	}
	w(" meshes %d", len(d.Meshes))
	for _, m := range d.Meshes {
		w(" %s %d", q(m.Name), len(m.Primitives))
		for _, p := range m.Primitives {
			if p.Targets != nil {
				w(" x")
			}
			keys := make([]string, 0)
			for k := range p.Attributes {
				keys = append(keys, k)
			}
			sort.Strings(keys)
			w(" %d", len(keys))
			for _, k := range keys {
				w(" %s %d", q(k), p.Attributes[k])
			}
			w(" %s %s %s", optI(p.Indices), optI(p.Material), optI(p.Mode))
		}
	}
	w(" nodes %d", len(d.Nodes))
	for _, n := range d.Nodes {
		if n.Matrix != nil || n.Children != nil || n.Skin != nil || n.Camera != nil {
			w(" x")
		}
		w(" %s %s %s %s %s", q(n.Name), optI(n.Mesh), listF(n.Translation), listF(n.Rotation), listF(n.Scale))
		inst, light := "-1", "-1"
		for k, raw := range n.Extensions {
			seen[k] = true
			switch k {
			case "EXT_mesh_gpu_instancing":
				var o struct {
					Attributes map[string]int `json:"attributes"`
				}
				if json.Unmarshal(raw, &o) != nil {
					inst = "x"
					break
				}
				keys := make([]string, 0)
				for kk := range o.Attributes {
					keys = append(keys, kk)
				}
				sort.Strings(keys)
				inst = strconv.Itoa(len(keys))
				for _, kk := range keys {
					inst += fmt.Sprintf(" %s %d", q(kk), o.Attributes[kk])
				}
			case "KHR_lights_punctual":
				var o struct {
					Light *int `json:"light"`
				}
				if json.Unmarshal(raw, &o) != nil || o.Light == nil {
					light = "x"
				} else {
					light = strconv.Itoa(*o.Light)
				}
			default:
				inst = "x"
			}
		}
		w(" %s %s", inst, light)
	}
	if len(d.Scenes) != 1 || d.Scene != 0 {
		w(" x")
	}
	w(" scene")
	if len(d.Scenes) == 1 {
		w(" %d", len(d.Scenes[0].Nodes))
		for _, n := range d.Scenes[0].Nodes {
			w(" %d", n)
		}
	}
	w(" mats %d", len(d.Materials))
	for _, m := range d.Materials {
		if m.EmissiveTexture != nil {
			w(" x")
		}
		w(" %s", q(m.Name))
		if m.AlphaMode == nil {
			w(" -")
		} else {
			w(" %s", q(*m.AlphaMode))
		}
		w(" %s", optF(m.AlphaCutoff))
		if m.Pbr == nil {
			w(" x")
		} else {
			w(" %s %s %s %s %s", listF(m.Pbr.BaseColorFactor), optF(m.Pbr.MetallicFactor), optF(m.Pbr.RoughnessFactor),
				texInfoTok(m.Pbr.BaseColorTexture, seen), texInfoTok(m.Pbr.MetallicRoughnessTexture, seen))
		}
		w(" %s", listF(m.EmissiveFactor))
		if m.NormalTexture == nil {
			w(" -1")
		} else {
			w(" %s %s", texInfoTok(m.NormalTexture, seen), optF(m.NormalTexture.Scale))
		}
		if m.OcclusionTexture == nil {
			w(" -1")
		} else {
			w(" %s %s", texInfoTok(m.OcclusionTexture, seen), optF(m.OcclusionTexture.Strength))
		}
		ids := make([]string, 0)
		for k := range m.Extensions {
			ids = append(ids, k)
			seen[k] = true
		}
		sort.Strings(ids)
		w(" %d", len(ids))
		for _, id := range ids {
			w(" %s", matExtTok(id, m.Extensions[id], seen))
		}
	}
	w(" texs %d", len(d.Textures))
	for _, t := range d.Textures {
		if len(t.Extensions) > 0 {
			w(" x")
		}
		w(" %s %s", optI(t.Sampler), optI(t.Source))
	}
	w(" images %d", len(d.Images))
	for _, im := range d.Images {
		w(" %s", q(im.URI))
	}
	w(" samplers %d", len(d.Samplers))
	for _, s := range d.Samplers {
		tag := 0
		if v, ok := s.Extras["k"].(float64); ok {
			tag = int(v)
		}
		w(" %d %d %d %d %s %d", s.MagFilter, s.MinFilter, s.WrapS, s.WrapT, q(s.Name), tag)
	}
	var lightToks []string
	for k, raw := range d.Extensions {
		seen[k] = true
		if k == "KHR_lights_punctual" {
			var o struct {
				Lights []struct {
					Type      string    `json:"type"`
					Color     []float64 `json:"color"`
					Intensity *float64  `json:"intensity"`
					Range     *float64  `json:"range"`
				} `json:"lights"`
			}
			if json.Unmarshal(raw, &o) != nil {
				w(" x")
				continue
			}
			for _, l := range o.Lights {
				ty := map[string]int{"point": 1, "directional": 2, "spot": 3}[l.Type]
				t := fmt.Sprintf("%016x", ty)
				if len(l.Color) == 3 {
					t += fmt.Sprintf(" %016x %s", 1, Fs(l.Color...))
				} else if l.Color == nil {
					t += fmt.Sprintf(" %016x %016x %016x %016x", 0, 0, 0, 0)
				} else {
					t += " x"
				}
				for _, p := range []*float64{l.Intensity, l.Range} {
					if p == nil {
						t += fmt.Sprintf(" %016x %016x", 0, 0)
					} else {
						t += fmt.Sprintf(" %016x %s", 1, F(*p))
					}
				}
				lightToks = append(lightToks, t)
			}
		} else {
			w(" x")
		}
	}
	if len(d.Skins) > 0 || len(d.Animations) > 0 {
		w(" x")
	}
	w(" lights %d", len(lightToks))
	for _, t := range lightToks {
		w(" %s", t)
	}
	used := append([]string{}, d.ExtensionsUsed...)
	sort.Strings(used)
	w(" extUsed %d", len(used))
	for _, e := range used {
		w(" %s", q(e))
	}
	req := append([]string{}, d.ExtensionsRequired...)
	sort.Strings(req)
	w(" extReq %d", len(req))
	for _, e := range req {
		w(" %s", q(e))
	}
	ids := make([]string, 0)
	for k := range seen {
		ids = append(ids, k)
	}
	sort.Strings(ids)
	return b.String(), ids
}

// compact byte string: hex when small, length + FNV-1a otherwise (the driver computes the same)
func bytesTok(b []byte) string {
	if len(b) <= 4096 {
		return "h" + hex.EncodeToString(b)
	}
	h := fnv.New32a()
	h.Write(b)
	return fmt.Sprintf("L%d:%08x", len(b), h.Sum32())
}

type c6Out struct {
	err   bool
	doc   r6Doc
	dtok  string
	seen  []string
	bin   []byte
	frame r6Frame
	file  []byte
}

// write the scene with the real writer and read it back with the independent reader
func c6Write(ps gltf.PolyformScene, glb bool) (o c6Out) {
	var buf bytes.Buffer
	var err error
	if glb {
		err = gltf.WriteBinary(ps, &buf)
	} else {
		err = gltf.WriteText(ps, &buf)
	}
	if err != nil {
		o.err = true
		return
	}
	o.file = buf.Bytes()
	var js []byte
	if glb {
		o.frame = parseGLB(o.file)
		js = o.frame.json
	} else {
		js = o.file
	}
	dec := json.NewDecoder(bytes.NewReader(js))
	if err := dec.Decode(&o.doc); err != nil {
		o.err = true
		return
	}
	o.dtok, o.seen = o.doc.tokens()
	if glb {
		o.bin = o.frame.bin
		if len(o.doc.Buffers) == 1 && o.doc.Buffers[0].ByteLength <= len(o.bin) {
			o.bin = o.bin[:o.doc.Buffers[0].ByteLength] // chunk padding is not buffer content
		}
	} else if len(o.doc.Buffers) == 1 {
		const pre = "data:application/octet-stream;base64,"
		if strings.HasPrefix(o.doc.Buffers[0].URI, pre) {
			o.bin, _ = base64.StdEncoding.DecodeString(o.doc.Buffers[0].URI[len(pre):])
		}
	}
	return
}

// ---------------------------------------------------------------------------------------------------------------
// generators

var c6Names = []string{"Position", "Normal", "Color", "TexCoord", "Joint", "Weight", "Custom", "_AUX", "Zed"}

func (c *Ctx) c6Float() float64 {
	switch c.Rng.Intn(8) {
	case 0:
		return float64(c.Rng.Intn(21) - 10)
	case 1:
		return float64(c.Rng.Intn(2001)-1000) / 10 // not representable in binary32 in general
	case 2:
		return (c.Rng.Float64()*2 - 1) * 1e5
	case 3:
		return (c.Rng.Float64()*2 - 1) * 1e-4
	case 4:
		return math.Copysign(0, -1)
	default:
		return c.Rng.Float64()*2 - 1
	}
}

func (c *Ctx) c6Mesh(nv int, special int) c6Mesh {
	m := c6Mesh{}
	switch c.Rng.Intn(10) {
	case 0, 1, 2:
		m.topo = 1 // points
	case 3:
		if c.Rng.Intn(3) == 0 {
			m.topo = 2 + c.Rng.Intn(4) // quad (rejected) and line topologies (written with their mode); inside the quantifier of gltf_scene_topo_full
		}
	}
	if nv > 0 {
		var ni int
		switch m.topo {
		case 0:
			ni = 3 * c.Rng.Intn(5)
			if nv > 1000 {
				ni = 3 * (1 + c.Rng.Intn(3))
			}
			if c.Rng.Intn(12) == 0 {
				ni += 1 + c.Rng.Intn(2) // index count not a multiple of three: PrimitiveCount rounds down
			}
		case 1:
			ni = c.Rng.Intn(7)
			if c.Rng.Intn(3) == 0 {
				ni = nv
			}
			if nv > 1000 && nv != 70000 {
				ni = 1 + c.Rng.Intn(6) // many vertices, few indices: the index width must follow the vertex count
			}
		default:
			ni = c.Rng.Intn(6)
		}
		m.idx = make([]int, ni)
		for i := range m.idx {
			m.idx[i] = c.Rng.Intn(nv)
		}
		if ni > 0 && (nv > 1000 || c.Rng.Intn(2) == 0) {
			m.idx[c.Rng.Intn(ni)] = nv - 1 // largest vertex id is referenced
		}
	}
	// attribute mix: unique names, each in one dimension class
	perm := c.Rng.Perm(len(c6Names))
	na := 1 + c.Rng.Intn(4)
	if c.Rng.Intn(15) == 0 {
		na = 0
	}
	if nv > 1000 {
		na = 1
	}
	if na == 0 {
		c.Note("mesh.no-attributes") // indices but no vertex data: skipped by AddMesh since fd26630
	}
	for k := 0; k < na && nv > 0; k++ {
		name := c6Names[perm[k]]
		dim := 3
		switch name {
		case "TexCoord":
			dim = 2
		case "Joint", "Weight":
			dim = 4
		case "Color":
			dim = 3 + c.Rng.Intn(2)
		case "Custom", "_AUX", "Zed":
			dim = 1 + c.Rng.Intn(4)
		}
		if name == "Joint" && c.Rng.Intn(4) == 0 {
			dim = 2 + c.Rng.Intn(2) // byte-typed vector of 2 or 3 bytes
		}
		a := c6Attr{name: name, dim: dim, data: make([]float64, nv*dim)}
		for i := range a.data {
			if name == "Joint" {
				a.data[i] = float64(c.Rng.Intn(256))
			} else {
				a.data[i] = c.c6Float()
			}
		}
		if special == 1 && name != "Joint" && dim != 4 && dim != 1 && nv > 1 {
			a.data[c.Rng.Intn(len(a.data))] = math.NaN() // skipped by min/max, still stored
			c.Note("attr.nan-skipped")
		}
		m.attrs = append(m.attrs, a)
	}
	has := false
	for _, a := range m.attrs {
		has = has || a.dim >= 2
	}
	if !has && len(m.attrs) > 0 {
		c.Note("mesh.only-float1") // only Float1 attributes: skipped by AddMesh since fd26630
	}
	if has && nv > 0 && nv < 1000 && c.Rng.Intn(25) == 0 {
		// two vector attributes stored under one glTF name (Float3 + Float4 "Color" -> COLOR_0): rejected since fd26630
		for _, dim := range []int{3, 4} {
			dup := false
			for _, a := range m.attrs {
				dup = dup || (a.name == "Color" && a.dim == dim)
			}
			if !dup {
				a := c6Attr{name: "Color", dim: dim, data: make([]float64, nv*dim)}
				for i := range a.data {
					a.data[i] = c.c6Float()
				}
				m.attrs = append(m.attrs, a)
			}
		}
		c.Note("mesh.colliding-names")
	}
	return m
}

// plain URIs and URIs that URL-encoding / JSON escaping would touch (blank, non-ASCII, %, #, ?, &, <, >, +, quote)
var c6URIs = []string{"a.png", "b.png", "c.jpg", "tex/d.png", "my tex.png", "t\u00ebx \u6728.png", "a%20b.png", "a#b?c=1.png", "a&b<c>.png", "p+q'r.png"}

func (c *Ctx) c6Tex() c6Tex {
	t := c6Tex{uri: c6URIs[c.Rng.Intn(len(c6URIs))]}
	if c.Rng.Intn(3) > 0 {
		t.sampler = &gltf.Sampler{
			MagFilter: []gltf.SamplerMagFilter{gltf.SamplerMagFilter_NEAREST, gltf.SamplerMagFilter_LINEAR}[c.Rng.Intn(2)],
			MinFilter: []gltf.SamplerMinFilter{gltf.SamplerMinFilter_NEAREST, gltf.SamplerMinFilter_LINEAR_MIPMAP_LINEAR}[c.Rng.Intn(2)],
			WrapS:     []gltf.SamplerWrap{gltf.SamplerWrap_REPEAT, gltf.SamplerWrap_CLAMP_TO_EDGE}[c.Rng.Intn(2)],
			WrapT:     gltf.SamplerWrap_REPEAT,
		}
		if c.Rng.Intn(4) == 0 {
			t.sampler.Name = []string{"smp", "alt"}[c.Rng.Intn(2)]
		}
		if c.Rng.Intn(5) == 0 {
			c6SetSamplerTag(t.sampler, 1+c.Rng.Intn(2))
		}
	}
	if c.Rng.Intn(3) == 0 {
		t.xf = c.c6Xf()
		t.req = c.Rng.Intn(2) == 0
	}
	return t
}

// Extras of a sampler carry one integer under "k": its value is the equality class ("tag") the model sees
func c6SamplerTag(s *gltf.Sampler) int {
	if v, ok := s.Extras["k"].(int); ok {
		return v
	}
	return 0
}

func c6SetSamplerTag(s *gltf.Sampler, tag int) {
	if tag == 0 {
		s.Extras = nil
	} else {
		s.Extras = map[string]any{"k": tag}
	}
}

func (c *Ctx) c6Xf() []float64 {
	p := make([]float64, 10)
	if c.Rng.Intn(2) == 0 {
		p[0], p[1], p[2] = 1, float64(c.Rng.Intn(4))/4, float64(c.Rng.Intn(4))/4
	}
	if c.Rng.Intn(2) == 0 {
		p[3], p[4] = 1, float64(c.Rng.Intn(8))/8
	}
	if c.Rng.Intn(2) == 0 {
		p[5], p[6], p[7] = 1, float64(1+c.Rng.Intn(3)), float64(1+c.Rng.Intn(3))
	}
	if c.Rng.Intn(3) == 0 {
		p[8], p[9] = 1, float64(c.Rng.Intn(2))
	}
	return p
}

func (c *Ctx) c6OptF() *float64 {
	if c.Rng.Intn(2) == 0 {
		return nil
	}
	v := float64(c.Rng.Intn(5)) / 4
	return &v
}

func (c *Ctx) c6Col() []uint32 {
	if c.Rng.Intn(3) == 0 {
		return nil
	}
	v := []uint32{0, 0x3333, 0x8080, 0xffff, 12345}
	a := []uint32{0xffff, 0xffff, 0x8000, 0, 0x4000}[c.Rng.Intn(5)]
	if c.Rng.Intn(4) == 0 {
		return []uint32{0, 0, 0, a} // black with any alpha (RGBA() is premultiplied: only alpha distinguishes these)
	}
	return []uint32{v[c.Rng.Intn(5)], v[c.Rng.Intn(5)], v[c.Rng.Intn(5)], a}
}

// the same colour with another alpha
func (c *Ctx) c6OtherAlpha(col []uint32) []uint32 {
	o := append([]uint32{}, col...)
	for o[3] == col[3] {
		o[3] = []uint32{0xffff, 0x8000, 0x4000, 0}[c.Rng.Intn(4)]
	}
	return o
}

func (c *Ctx) c6TexRef(nt int) int {
	if nt == 0 || c.Rng.Intn(2) == 0 {
		return -1
	}
	return c.Rng.Intn(nt)
}

func (c *Ctx) c6Mat(nt int) c6Mat {
	m := c6Mat{name: []string{"", "red", "steel"}[c.Rng.Intn(3)], bct: -1, mrt: -1, normal: -1, occl: -1}
	if c.Rng.Intn(4) > 0 {
		m.hasPbr = true
		m.baseColor = c.c6Col()
		m.metallic, m.roughness = c.c6OptF(), c.c6OptF()
		m.bct, m.mrt = c.c6TexRef(nt), c.c6TexRef(nt)
	}
	m.emissive = c.c6Col()
	if c.Rng.Intn(3) == 0 {
		m.normal = c.c6TexRef(nt)
		m.normalSc = c.c6OptF()
	}
	if c.Rng.Intn(3) == 0 {
		m.occl = c.c6TexRef(nt)
		m.occlSt = c.c6OptF()
	}
	switch c.Rng.Intn(6) {
	case 0:
		s := "MASK"
		m.alphaMode = &s
		m.cutoff = c.c6OptF()
	case 1:
		s := "BLEND"
		m.alphaMode = &s
	case 2:
		s := "OPAQUE"
		m.alphaMode = &s
	}
	return m
}

// material extensions: eqKey = index of the first ==-equal value in pool (Go interface equality decides)
const c6ExtKinds = 11

func (c *Ctx) c6PF() *float64 {
	if c.Rng.Intn(3) == 0 {
		return nil
	}
	v := float64(1+c.Rng.Intn(7)) / 4
	return &v
}

// one material extension of the given kind with random parameters. payload = the numbers of the extension object in
// sorted key order; texs = (json key, texture id) in the order ToMaterialExtensionData calls AddTexture. Colour-valued
// parameters are left nil (they would go through rgbToFloatArr).
func (c *Ctx) c6MakeExt(kind int, s *c6Scene) c6Ext {
	f := func() float64 { return float64(c.Rng.Intn(8)) / 4 }
	opt := func(e *c6Ext, p *float64) {
		if p != nil {
			e.payload = append(e.payload, *p)
		}
	}
	tex := func(e *c6Ext, key string) *gltf.PolyformTexture {
		if t := c.c6TexRef(len(s.texs)); t >= 0 {
			e.texs = append(e.texs, c6KeyTex{key, t})
			return s.texs[t].ptr
		}
		return nil
	}
	var e c6Ext
	switch kind {
	case 0:
		e = c6Ext{id: "KHR_materials_unlit", val: gltf.PolyformUnlit{}}
	case 1:
		v := gltf.PolyformTransmission{Factor: f()}
		e = c6Ext{id: "KHR_materials_transmission", payload: []float64{v.Factor}}
		v.Texture = tex(&e, "transmissionTexture")
		e.val = v
	case 2:
		v := gltf.PolyformClearcoat{ClearcoatFactor: f(), ClearcoatRoughnessFactor: f()}
		e = c6Ext{id: "KHR_materials_clearcoat", payload: []float64{v.ClearcoatFactor, v.ClearcoatRoughnessFactor}}
		v.ClearcoatTexture = tex(&e, "clearcoatTexture")
		v.ClearcoatRoughnessTexture = tex(&e, "clearcoatRoughnessTexture")
		e.val = v
	case 3:
		d := f()
		e = c6Ext{id: "KHR_materials_dispersion", payload: []float64{d}, val: gltf.PolyformDispersion{Dispersion: d}}
	case 4:
		v := gltf.PolyformIndexOfRefraction{IOR: c.c6PF()}
		e = c6Ext{id: "KHR_materials_ior"}
		opt(&e, v.IOR)
		e.val = v
	case 5:
		v := gltf.PolyformEmissiveStrength{EmissiveStrength: c.c6PF()}
		e = c6Ext{id: "KHR_materials_emissive_strength"}
		opt(&e, v.EmissiveStrength)
		e.val = v
	case 6: // keys: attenuationDistance, thicknessFactor, thicknessTexture
		v := gltf.PolyformVolume{ThicknessFactor: f(), AttenuationDistance: c.c6PF()}
		e = c6Ext{id: "KHR_materials_volume"}
		opt(&e, v.AttenuationDistance)
		e.payload = append(e.payload, v.ThicknessFactor)
		v.ThicknessTexture = tex(&e, "thicknessTexture")
		e.val = v
	case 7: // keys: anisotropyRotation, anisotropyStrength, anisotropyTexture
		v := gltf.PolyformAnisotropy{AnisotropyStrength: f(), AnisotropyRotation: f()}
		e = c6Ext{id: "KHR_materials_anisotropy", payload: []float64{v.AnisotropyRotation, v.AnisotropyStrength}}
		v.AnisotropyTexture = tex(&e, "anisotropyTexture")
		e.val = v
	case 8: // keys: iridescenceFactor, iridescenceIor, iridescenceThicknessMaximum, iridescenceThicknessMinimum, textures
		v := gltf.PolyformIridescence{IridescenceFactor: f(), IridescenceIor: c.c6PF(), IridescenceThicknessMinimum: c.c6PF(), IridescenceThicknessMaximum: c.c6PF()}
		e = c6Ext{id: "KHR_materials_iridescence", payload: []float64{v.IridescenceFactor}}
		opt(&e, v.IridescenceIor)
		opt(&e, v.IridescenceThicknessMaximum)
		opt(&e, v.IridescenceThicknessMinimum)
		v.IridescenceTexture = tex(&e, "iridescenceTexture")
		v.IridescenceThicknessTexture = tex(&e, "iridescenceThicknessTexture")
		e.val = v
	case 9: // keys: sheenColorTexture, sheenRoughnessFactor, sheenRoughnessTexture
		v := gltf.PolyformSheen{SheenRoughnessFactor: f()}
		e = c6Ext{id: "KHR_materials_sheen", payload: []float64{v.SheenRoughnessFactor}}
		v.SheenColorTexture = tex(&e, "sheenColorTexture")
		v.SheenRoughnessTexture = tex(&e, "sheenRoughnessTexture")
		e.val = v
	default: // keys: specularColorTexture, specularFactor, specularTexture; AddTexture order: specularTexture, specularColorTexture
		v := gltf.PolyformSpecular{Factor: c.c6PF()}
		e = c6Ext{id: "KHR_materials_specular"}
		opt(&e, v.Factor)
		v.Texture = tex(&e, "specularTexture")
		v.ColorTexture = tex(&e, "specularColorTexture")
		e.val = v
	}
	return e
}

// eqKey = index of the first ==-equal value in pool (Go interface equality decides)
func c6KeyExt(e *c6Ext, pool *[]gltf.MaterialExtension) {
	e.eqKey = -1
	for i, p := range *pool {
		if p == e.val {
			e.eqKey = i
			break
		}
	}
	if e.eqKey < 0 {
		e.eqKey = len(*pool)
		*pool = append(*pool, e.val)
	}
}

func c6ExtKindOf(id string) int {
	for k, n := range []string{"KHR_materials_unlit", "KHR_materials_transmission", "KHR_materials_clearcoat", "KHR_materials_dispersion",
		"KHR_materials_ior", "KHR_materials_emissive_strength", "KHR_materials_volume", "KHR_materials_anisotropy",
		"KHR_materials_iridescence", "KHR_materials_sheen", "KHR_materials_specular"} {
		if n == id {
			return k
		}
	}
	return 0
}

// a value of the same kind that is NOT == to e (other parameters); unlit has no parameters
func (c *Ctx) c6OtherExt(e c6Ext, s *c6Scene) (c6Ext, bool) {
	kind := c6ExtKindOf(e.id)
	if kind == 0 {
		return e, false
	}
	for try := 0; try < 20; try++ {
		o := c.c6MakeExt(kind, s)
		if o.val != e.val {
			return o, true
		}
	}
	return e, false
}

func (c *Ctx) c6Exts(m *c6Mat, s *c6Scene, pool *[]gltf.MaterialExtension) {
	n := 0
	if c.Rng.Intn(3) == 0 {
		n = 1 + c.Rng.Intn(2)
	}
	for k := 0; k < n; k++ {
		e := c.c6MakeExt(c.Rng.Intn(c6ExtKinds), s)
		dup := false
		for _, x := range m.exts {
			dup = dup || x.id == e.id
		}
		if dup {
			continue // Go keeps extension data in a map keyed by id: one value per id and material
		}
		c6KeyExt(&e, pool)
		m.exts = append(m.exts, e)
	}
}

// material-extension dedup stress: for one extension kind, a base material and, each on its own visible model:
// same name + same kind with OTHER parameters (must not merge), other name + the same value (must not merge), an exact
// value duplicate sharing the extension value (must merge), and a copy without the extension (must not merge)
func (c *Ctx) c6ExtStress() *c6Scene {
	s := c6Witness()
	nt := 1 + c.Rng.Intn(2)
	for i := 0; i < nt; i++ {
		s.texs = append(s.texs, c.c6Tex())
	}
	s.build()
	pool := []gltf.MaterialExtension{}
	kind := 1 + c.Rng.Intn(c6ExtKinds-1)
	name := []string{"", "mat"}[c.Rng.Intn(2)]
	base := c6Mat{name: name, bct: -1, mrt: -1, normal: -1, occl: -1, hasPbr: c.Rng.Intn(2) == 0}
	e := c.c6MakeExt(kind, s)
	c6KeyExt(&e, &pool)
	base.exts = []c6Ext{e}
	if c.Rng.Intn(3) == 0 {
		e2 := c.c6MakeExt(0, s)
		c6KeyExt(&e2, &pool)
		base.exts = append(base.exts, e2)
	}
	s.mats = []c6Mat{base}
	clone := func() c6Mat {
		m := base
		m.ptr = nil
		m.exts = append([]c6Ext{}, base.exts...)
		return m
	}
	if o, ok := c.c6OtherExt(e, s); ok {
		m := clone()
		c6KeyExt(&o, &pool)
		m.exts[0] = o
		s.mats = append(s.mats, m)
		c.Note("mat.ext-parameter-differs")
	}
	m2 := clone()
	m2.name = name + "2"
	s.mats = append(s.mats, m2)
	s.mats = append(s.mats, clone()) // exact duplicate: must merge with the base
	m4 := clone()
	m4.exts = m4.exts[1:]
	s.mats = append(s.mats, m4)
	s.models = nil
	for k, mi := range c.Rng.Perm(len(s.mats)) {
		s.models = append(s.models, c6Model{name: "x" + strconv.Itoa(k), mesh: k % 2, mat: mi})
	}
	c.Note("scene.extension-stress")
	return s
}

func (c *Ctx) c6Vec(n int) []float64 {
	v := make([]float64, n)
	for i := range v {
		v[i] = c.c6Float()
	}
	return v
}

// level: 0 = meshes only, 1 = + TRS/instances/lights, 2 = + materials/textures
func (c *Ctx) c6Scene(level int, big int) *c6Scene {
	s := &c6Scene{}
	xfDiffers := level >= 2 && c.Rng.Intn(2) == 0 // value-duplicate textures that differ only in their transform (class of the defect fixed by f524c9b)
	nm := 1 + c.Rng.Intn(4)
	noPayload := big == 0 && c.Rng.Intn(25) == 0 // only empty meshes: the document has no buffer, a GLB no BIN chunk
	if noPayload {
		c.Note("scene.no-payload")
	}
	special := 0
	if c.Rng.Intn(12) == 0 {
		special = 1
	}
	for i := 0; i < nm; i++ {
		nv := []int{1, 2, 3, 3, 4, 5, 7, 12}[c.Rng.Intn(8)]
		if c.Rng.Intn(15) == 0 || noPayload {
			nv = 0
		}
		if big > 0 && i == 0 {
			nv = big
		}
		m := c.c6Mesh(nv, special)
		s.meshes = append(s.meshes, m)
		if c.Rng.Intn(5) == 0 { // equal-by-value duplicate under another pointer
			s.meshes = append(s.meshes, c6Mesh{topo: m.topo, idx: m.idx, attrs: m.attrs})
			c.Note("mesh.value-duplicate")
		}
	}
	if level >= 2 {
		nt := c.Rng.Intn(5)
		for i := 0; i < nt; i++ {
			t := c.c6Tex()
			if i > 0 && c.Rng.Intn(3) == 0 { // equal-by-value duplicate texture (own pointer)
				p := s.texs[c.Rng.Intn(i)]
				t = c6Tex{uri: p.uri, sampler: p.sampler, xf: p.xf, req: p.req}
				if xfDiffers && c.Rng.Intn(2) == 0 {
					c.Note("tex.transform-differs")
					t.xf, t.req = c.c6Xf(), false
					if c.Rng.Intn(3) == 0 {
						t.xf = nil
					}
				}
				if p.sampler != nil && c.Rng.Intn(2) == 0 {
					cp := *p.sampler
					t.sampler = &cp
				}
				c.Note("tex.value-duplicate")
			}
			if i > 0 && c.Rng.Intn(3) == 0 { // near-duplicate texture: exactly one field differs, so it must NOT be merged
				p := s.texs[c.Rng.Intn(i)]
				t = c6Tex{uri: p.uri, xf: p.xf, req: p.req}
				smp := gltf.Sampler{MagFilter: gltf.SamplerMagFilter_NEAREST, MinFilter: gltf.SamplerMinFilter_NEAREST, WrapS: gltf.SamplerWrap_REPEAT, WrapT: gltf.SamplerWrap_REPEAT}
				if p.sampler != nil {
					smp = *p.sampler
				}
				switch c.Rng.Intn(5) {
				case 0:
					if smp.WrapS == gltf.SamplerWrap_REPEAT {
						smp.WrapS = gltf.SamplerWrap_CLAMP_TO_EDGE
					} else {
						smp.WrapS = gltf.SamplerWrap_REPEAT
					}
				case 1:
					smp.WrapT = gltf.SamplerWrap_MIRRORED_REPEAT
				case 2:
					if smp.MagFilter == gltf.SamplerMagFilter_NEAREST {
						smp.MagFilter = gltf.SamplerMagFilter_LINEAR
					} else {
						smp.MagFilter = gltf.SamplerMagFilter_NEAREST
					}
				case 3:
					smp.MinFilter = gltf.SamplerMinFilter_LINEAR
				default:
					if c.Rng.Intn(2) == 0 {
						t.uri = p.uri + "2"
					} else {
						smp.Name = smp.Name + "n"
					}
				}
				t.sampler = &smp
				c.Note("tex.near-duplicate")
			}
			s.texs = append(s.texs, t)
		}
	}
	// build pointers for meshes/textures now (extension values hold texture pointers)
	s.build()
	if level >= 2 {
		pool := []gltf.MaterialExtension{}
		nmat := c.Rng.Intn(4)
		for i := 0; i < nmat; i++ {
			m := c.c6Mat(len(s.texs))
			if i > 0 && c.Rng.Intn(3) == 0 { // equal-by-value duplicate material (own pointer)
				m = s.mats[c.Rng.Intn(i)]
				m.ptr = nil
				m.exts = append([]c6Ext{}, m.exts...)
				c.Note("mat.value-duplicate")
				if c.Rng.Intn(2) == 0 { // near-duplicate: exactly one field differs, so the two must NOT be merged
					nt := len(s.texs)
					switch c.Rng.Intn(8) {
					case 0:
						if nt > 0 {
							m.occl, m.occlSt = c.Rng.Intn(nt), c.c6OptF()
						}
					case 1:
						if nt > 0 {
							m.normal, m.normalSc = c.Rng.Intn(nt), c.c6OptF()
						}
					case 2:
						m.occlSt = c.c6OptF()
					case 3:
						m.normalSc = c.c6OptF()
					case 4:
						if m.hasPbr {
							m.metallic = c.c6OptF()
						}
					case 5:
						m.emissive = c.c6Col()
					case 6:
						if m.hasPbr && nt > 0 {
							m.bct = c.Rng.Intn(nt)
						}
					default:
						m.name = "other"
					}
					if c.Rng.Intn(3) == 0 { // instead: only the ALPHA of one colour differs
						m = s.mats[c.Rng.Intn(i)]
						m.ptr = nil
						m.exts = append([]c6Ext{}, m.exts...)
						if m.hasPbr && m.baseColor != nil && c.Rng.Intn(2) == 0 {
							m.baseColor = c.c6OtherAlpha(m.baseColor)
							c.Note("mat.alpha-differs")
						} else if m.emissive != nil {
							m.emissive = c.c6OtherAlpha(m.emissive)
							c.Note("mat.alpha-differs")
						}
					} else if len(m.exts) > 0 && c.Rng.Intn(2) == 0 { // instead: only one extension PARAMETER differs
						m = s.mats[len(s.mats)-1]
						if i > 0 {
							m = s.mats[c.Rng.Intn(i)]
						}
						m.ptr = nil
						m.exts = append([]c6Ext{}, m.exts...)
						if len(m.exts) > 0 {
							k := c.Rng.Intn(len(m.exts))
							if o, ok := c.c6OtherExt(m.exts[k], s); ok {
								c6KeyExt(&o, &pool)
								m.exts[k] = o
								c.Note("mat.ext-parameter-differs")
							}
						}
					}
					c.Note("mat.near-duplicate")
				}
			} else {
				c.c6Exts(&m, s, &pool)
			}
			s.mats = append(s.mats, m)
		}
	}
	nmod := 1 + c.Rng.Intn(6)
	for i := 0; i < nmod; i++ {
		md := c6Model{name: []string{"", "a", "b", "node"}[c.Rng.Intn(4)], mesh: c.Rng.Intn(len(s.meshes)), mat: -1}
		if i > 0 && c.Rng.Intn(3) == 0 {
			md.mesh = s.models[c.Rng.Intn(i)].mesh // repeated mesh pointer
			c.Note("model.repeated-mesh")
		}
		if len(s.mats) > 0 && c.Rng.Intn(3) > 0 {
			md.mat = c.Rng.Intn(len(s.mats))
			if c.Rng.Intn(3) == 0 {
				md.mat = 0
			}
		}
		if level >= 1 {
			if c.Rng.Intn(3) == 0 {
				md.t = c.c6Vec(3)
			}
			if c.Rng.Intn(3) == 0 {
				md.r = c.c6Vec(4)
			}
			if c.Rng.Intn(3) == 0 {
				md.s = c.c6Vec(3)
			}
			if c.Rng.Intn(4) == 0 {
				ni := 1 + c.Rng.Intn(4)
				for k := 0; k < ni; k++ {
					md.inst = append(md.inst, c.c6Vec(10))
				}
				c.Note("model.gpu-instances")
			}
		}
		if big > 0 && i == 0 {
			md.mesh = 0 // the large mesh is always used
		}
		if level >= 1 && i > 0 && c.Rng.Intn(4) == 0 {
			// instance list related to an earlier model's: same backing array (whole, prefix, offset window) or equal by value
			var cand []int
			for j := 0; j < i; j++ {
				if len(s.models[j].inst) > 0 && s.models[j].instOf == 0 {
					cand = append(cand, j)
				}
			}
			if len(cand) > 0 {
				j := cand[c.Rng.Intn(len(cand))]
				src := s.models[j].inst
				off := c.Rng.Intn(len(src))
				if c.Rng.Intn(2) == 0 {
					off = 0
				}
				n := 1 + c.Rng.Intn(len(src)-off)
				md.inst = append([][]float64{}, src[off:off+n]...)
				if c.Rng.Intn(4) > 0 {
					md.instOf, md.instOff = j+1, off
					c.Note("model.instances-subslice")
				} else {
					c.Note("model.instances-equal-by-value")
				}
			}
		}
		s.models = append(s.models, md)
	}
	if level >= 1 && (c.Rng.Intn(3) == 0 || noPayload && c.Rng.Intn(2) == 0) {
		nl := 1 + c.Rng.Intn(2)
		for k := 0; k < nl; k++ {
			l := append(c.c6Vec(3), make([]float64, 9)...)
			l[3] = float64(c.Rng.Intn(4))
			if c.Rng.Intn(2) == 0 {
				v := []float64{0, 0x3333, 0x8080, 0xffff, 12345}
				l[4], l[5], l[6], l[7] = 1, v[c.Rng.Intn(5)], v[c.Rng.Intn(5)], v[c.Rng.Intn(5)]
			}
			if c.Rng.Intn(2) == 0 {
				l[8], l[9] = 1, float64(1+c.Rng.Intn(40))/4
			}
			if c.Rng.Intn(2) == 0 {
				l[10], l[11] = 1, float64(1+c.Rng.Intn(100))
			}
			s.lights = append(s.lights, l)
		}
		c.Note("scene.lights")
	}
	return s
}

// guard of gltf_alignment_partial, evaluated on the scene: no byte-typed attribute is written and every index
// block is a multiple of 4 bytes long
func (s *c6Scene) alignGuard() bool {
	for _, md := range s.models {
		if md.mesh < 0 {
			return false
		}
		m := s.meshes[md.mesh]
		nv := 0
		for _, a := range m.attrs {
			if a.dim > 1 && a.name == "Joint" {
				return false
			}
			nv = len(a.data) / a.dim
		}
		if nv <= 65535 && len(m.idx)%2 != 0 {
			return false
		}
	}
	return true
}

func (c *Ctx) c6Case(s *c6Scene, glb bool, tag string) {
	ps := s.build()
	st := s.tokens()
	kind := "text"
	if glb {
		kind = "glb"
	}
	var o c6Out
	panicked := Guard(func() string { o = c6Write(ps, glb); return "" }) == "panic"
	if panicked {
		c.Emit("c06.doc", kind+" "+st, "panic")
		c.Note("write.panic")
		return
	}
	if o.err {
		c.Emit("c06.doc", kind+" "+st, "err")
		c.Note("write.error")
		return
	}
	c.Note("container." + kind)
	c.Emit("c06.doc", kind+" "+st, o.dtok)
	c.Emit("c06.bin", st, bytesTok(o.bin))
	if tag == "sweep" {
		// element-count sweeps: exact comparison of document and buffer bytes, plus the structural oracle (a failing input)
		if len(o.bin) <= 40000 {
			c.Emit("c06.holds.valid", o.dtok+" seen "+strconv.Itoa(len(o.seen))+" "+qs(o.seen)+" B h"+hex.EncodeToString(o.bin), "true")
		}
		return
	}
	binTok := "B h" + hex.EncodeToString(o.bin)
	c.Emit("c06.holds.valid", o.dtok+" seen "+strconv.Itoa(len(o.seen))+" "+qs(o.seen)+" "+binTok, "true")
	c.Emit("c06.holds.decode", st+" "+o.dtok+" "+binTok, "true")
	if tag == "xfwitness" {
		c.Emit("c06.holds.dedup_texxform_witness", st+" "+o.dtok, "true")
	} else {
		c.Emit("c06.holds.dedup", st+" "+o.dtok, "true")
	}
	big := len(o.bin) > 100000
	if !big {
		c.c6TopoLines(s, st, &o, binTok)
	}
	if !glb && len(o.bin) <= 3000 {
		// round 2: the data URI itself (Model/Base64: encoder compared exactly, strict decoder run on the real URI)
		uri := "none"
		if len(o.doc.Buffers) == 1 {
			uri = "u" + o.doc.Buffers[0].URI
		}
		c.Emit("c06.uri", st, uri)
		if uri != "none" {
			c.Emit("c06.holds.uridecode", uri+" h"+hex.EncodeToString(o.bin), "true")
		}
	}
	if glb && !big {
		// the JSON text itself is not modelled (and not even deterministic: extensionsUsed comes out of a Go map):
		// the file's own JSON chunk, stripped of its padding, is handed over; the model frames it with ITS buffer
		c.Emit("c06.glb", "h"+hex.EncodeToString(c6JSONText(o.frame.json))+" "+st, bytesTok(o.file))
	}
	if glb && len(o.file) <= 20000 {
		// round 2: the Lean reader glbParse recovers text + blank padding and buffer + zero padding (glb_parse_write)
		c.Emit("c06.holds.glbparse", "h"+hex.EncodeToString(o.file)+" h"+hex.EncodeToString(c6JSONText(o.frame.json))+" h"+hex.EncodeToString(o.bin), "true")
	}
	if glb {
		c.Emit("c06.holds.frame", o.frame.tokens()+" "+strconv.Itoa(len(c6JSONText(o.frame.json)))+" "+strconv.Itoa(len(o.bin))+
			" "+b2s(isPad(o.frame.json, ' '))+" "+b2s(isPadBin(o.frame.bin, len(o.bin))), "true")
	}
	if tag == "witness" {
		c.Emit("c06.holds.alignment_witness", o.dtok, "true")
	} else if s.alignGuard() {
		c.Note("aligned.guard-true")
		c.Emit("c06.holds.aligned", o.dtok, "true")
	} else {
		c.Note("aligned.guard-false")
	}
	if len(o.doc.Accessors) > 0 {
		c.Note("nontrivial")
	}
	for _, a := range o.doc.Accessors {
		if a.ComponentType == 5125 {
			c.Note("index.uint32")
		} else if a.ComponentType == 5123 {
			c.Note("index.uint16")
		} else if a.ComponentType == 5121 {
			c.Note("vec.byte")
		}
	}
	if len(o.doc.Materials) > 0 {
		c.Note("doc.materials")
	}
	if len(o.doc.Textures) > 0 {
		c.Note("doc.textures")
	}
}

func qs(ss []string) string {
	out := make([]string, len(ss))
	for i, s := range ss {
		out[i] = q(s)
	}
	return strings.Join(out, " ")
}

func b2s(b bool) string { return B(b) }

// JSON chunk: everything after the last non-blank byte is the pad byte
func isPad(chunk []byte, pad byte) bool {
	// round 2: what follows the JSON document's closing brace must be fewer than four bytes, all equal to pad
	// (trimming pad bytes first accepted a chunk padded with anything else)
	t := c6JSONText(chunk)
	if len(chunk)-len(t) >= 4 {
		return false
	}
	for _, b := range chunk[len(t):] {
		if b != pad {
			return false
		}
	}
	return true
}

func isPadBin(chunk []byte, n int) bool {
	if n > len(chunk) || len(chunk)-n >= 4 {
		return false
	}
	for _, b := range chunk[n:] {
		if b != 0 {
			return false
		}
	}
	return true
}

// the two-model witness of gltf_alignment_counterexample: one triangle (6 bytes of uint16 indices) followed by a
// second mesh whose float data therefore starts at byte 42
func c6Witness() *c6Scene {
	tri := c6Mesh{topo: 0, idx: []int{0, 1, 2}, attrs: []c6Attr{{name: "Position", dim: 3, data: []float64{0, 0, 0, 0, 1, 0, 1, 0, 0}}}}
	tri2 := c6Mesh{topo: 0, idx: []int{0, 1, 2}, attrs: []c6Attr{{name: "Position", dim: 3, data: []float64{0, 0, 1, 0, 1, 1, 1, 0, 1}}}}
	return &c6Scene{meshes: []c6Mesh{tri, tri2}, models: []c6Model{{name: "a", mesh: 0, mat: -1}, {name: "b", mesh: 1, mat: -1}}}
}

// corpus witness of the defect fixed by f524c9b: two materials that differ only in the KHR_texture_transform of their
// base colour texture must be written as two materials
func c6XfWitness() *c6Scene {
	s := c6Witness()
	s.texs = []c6Tex{{uri: "a.png", xf: []float64{1, 0.5, 0, 0, 0, 0, 0, 0, 0, 0}}, {uri: "a.png", xf: []float64{1, 0, 0.25, 0, 0, 0, 0, 0, 0, 0}}}
	s.mats = []c6Mat{{name: "m", hasPbr: true, bct: 0, mrt: -1, normal: -1, occl: -1}, {name: "m", hasPbr: true, bct: 1, mrt: -1, normal: -1, occl: -1}}
	s.models[0].mat, s.models[1].mat = 0, 1
	return s
}

// texture / image / sampler dedup stress: one base texture, variants that differ from it in exactly one field (and one
// exact value duplicate), each referenced by its own material on its own visible model
func (c *Ctx) c6TexStress() *c6Scene {
	s := c6Witness()
	base := c.c6Tex()
	if base.sampler == nil {
		base.sampler = &gltf.Sampler{MagFilter: gltf.SamplerMagFilter_LINEAR, MinFilter: gltf.SamplerMinFilter_NEAREST, WrapS: gltf.SamplerWrap_REPEAT, WrapT: gltf.SamplerWrap_REPEAT}
	}
	s.texs = []c6Tex{base}
	for v := 0; v < 9; v++ {
		if c.Rng.Intn(3) == 0 {
			continue
		}
		smp := *base.sampler
		t := c6Tex{uri: base.uri, xf: base.xf, req: base.req, sampler: &smp}
		switch v {
		case 0:
			if smp.WrapS == gltf.SamplerWrap_REPEAT {
				smp.WrapS = gltf.SamplerWrap_CLAMP_TO_EDGE
			} else {
				smp.WrapS = gltf.SamplerWrap_REPEAT
			}
		case 1:
			smp.WrapT = gltf.SamplerWrap_MIRRORED_REPEAT
		case 2:
			if smp.MagFilter == gltf.SamplerMagFilter_NEAREST {
				smp.MagFilter = gltf.SamplerMagFilter_LINEAR
			} else {
				smp.MagFilter = gltf.SamplerMagFilter_NEAREST
			}
		case 3:
			if smp.MinFilter == gltf.SamplerMinFilter_NEAREST {
				smp.MinFilter = gltf.SamplerMinFilter_LINEAR_MIPMAP_LINEAR
			} else {
				smp.MinFilter = gltf.SamplerMinFilter_NEAREST
			}
		case 4:
			t.uri = base.uri + ".alt"
		case 5:
			t.sampler = nil
		case 6:
			smp.Name = base.sampler.Name + "x" // only the sampler NAME differs (defect fixed by 8f08ae3)
		case 7:
			c6SetSamplerTag(&smp, c6SamplerTag(base.sampler)+1) // only the sampler EXTRAS differ
		default: // exact value duplicate under its own pointers
		}
		s.texs = append(s.texs, t)
	}
	s.build()
	s.models = nil
	order := c.Rng.Perm(len(s.texs))
	for k, ti := range order {
		m := c6Mat{name: "m", hasPbr: true, bct: ti, mrt: -1, normal: -1, occl: -1}
		switch c.Rng.Intn(4) {
		case 0:
			m.bct, m.mrt = -1, ti
		case 1:
			m.bct, m.normal = -1, ti
		case 2:
			m.bct, m.occl = -1, ti
		}
		s.mats = append(s.mats, m)
		s.models = append(s.models, c6Model{name: "t" + strconv.Itoa(k), mesh: k % 2, mat: k})
	}
	c.Note("scene.texture-stress")
	return s
}

// corpus witness of the defect fixed by 8f08ae3: two materials whose base colour textures differ only in the sampler NAME
// must be written as two materials, two textures, two samplers
func c6SamplerNameWitness() *c6Scene {
	s := c6Witness()
	s1 := &gltf.Sampler{WrapS: gltf.SamplerWrap_REPEAT, WrapT: gltf.SamplerWrap_REPEAT}
	s1.Name = "first"
	s2 := &gltf.Sampler{WrapS: gltf.SamplerWrap_REPEAT, WrapT: gltf.SamplerWrap_REPEAT}
	s2.Name = "second"
	s.texs = []c6Tex{{uri: "a.png", sampler: s1}, {uri: "a.png", sampler: s2}}
	s.mats = []c6Mat{{name: "m", hasPbr: true, bct: 0, mrt: -1, normal: -1, occl: -1}, {name: "m", hasPbr: true, bct: 1, mrt: -1, normal: -1, occl: -1}}
	s.models[0].mat, s.models[1].mat = 0, 1
	return s
}

// element-count sweep: one point cloud with n vertices and n indices (Position VEC3 always, plus a VEC2 / VEC4 / second
// VEC3 attribute in rotation, all three when full), optionally n GPU instances: every accessor kind at every count, so
// that internal block sizes of the writer (e.g. 341 vectors = 4 KiB) are hit exactly
func (c *Ctx) c6Sweep(n int, full bool, withInst bool) *c6Scene {
	m := c6Mesh{topo: 1, idx: make([]int, n)}
	for i := range m.idx {
		m.idx[i] = (i * 7) % n
	}
	mk := func(name string, dim int) c6Attr {
		a := c6Attr{name: name, dim: dim, data: make([]float64, n*dim)}
		for i := range a.data {
			a.data[i] = float64((i*13+dim)%2001-1000) / 8
		}
		return a
	}
	m.attrs = []c6Attr{mk("Position", 3)}
	if full || n%3 == 0 {
		m.attrs = append(m.attrs, mk("TexCoord", 2))
	}
	if full || n%3 == 1 {
		m.attrs = append(m.attrs, mk("Color", 4))
	}
	if full || n%3 == 2 {
		m.attrs = append(m.attrs, mk("Normal", 3))
	}
	md := c6Model{name: "sweep", mesh: 0, mat: -1}
	if withInst {
		for k := 0; k < n; k++ {
			in := make([]float64, 10)
			for j := range in {
				in[j] = float64((k*11+j*3)%401-200) / 4
			}
			md.inst = append(md.inst, in)
		}
	}
	return &c6Scene{meshes: []c6Mesh{m}, models: []c6Model{md}}
}

// ordered texture pairs over ONE image + sampler: a plain texture and a different texture object carrying
// KHR_texture_transform (required or not), plain first or transformed first, in two materials or in two slots of one
// material — the only users of the extension in the scene (the second one is value-deduplicated by AddTexture)
func (c *Ctx) c6XfOrder() *c6Scene {
	s := c6Witness()
	base := c.c6Tex()
	base.xf, base.req = nil, false
	other := c6Tex{uri: base.uri, xf: c.c6Xf(), req: c.Rng.Intn(2) == 0}
	if base.sampler != nil {
		other.sampler = base.sampler
		if c.Rng.Intn(2) == 0 {
			cp := *base.sampler
			other.sampler = &cp
		}
	}
	s.texs = []c6Tex{base, other}
	first, second := 0, 1
	if c.Rng.Intn(2) == 0 {
		first, second = 1, 0
		c.Note("xforder.transformed-first")
	} else {
		c.Note("xforder.plain-first")
	}
	blank := func(name string) c6Mat {
		return c6Mat{name: name, hasPbr: true, bct: -1, mrt: -1, normal: -1, occl: -1}
	}
	switch c.Rng.Intn(3) {
	case 0: // two materials
		a, b := blank("first"), blank("second")
		a.bct, b.bct = first, second
		s.mats = []c6Mat{a, b}
		s.models[0].mat, s.models[1].mat = 0, 1
	case 1: // two slots of one material: base colour first, then metallic-roughness
		a := blank("slots")
		a.bct, a.mrt = first, second
		s.mats = []c6Mat{a}
		s.models[0].mat = 0
	default: // base colour, then normal texture (added after the extensions)
		a := blank("slots")
		a.bct, a.normal = first, second
		s.mats = []c6Mat{a}
		s.models[0].mat, s.models[1].mat = 0, 0
	}
	if other.req {
		c.Note("xforder.required")
	}
	return s
}

// colour dedup stress: for black, white and a random colour, materials that differ ONLY in the alpha of the base colour /
// of the emissive colour (must not merge) and exact duplicates (must merge), each on its own visible model
func (c *Ctx) c6ColorStress() *c6Scene {
	s := c6Witness()
	cols := [][]uint32{{0, 0, 0, 0xffff}, {0xffff, 0xffff, 0xffff, 0xffff}, {uint32(c.Rng.Intn(0x10000)), uint32(c.Rng.Intn(0x10000)), uint32(c.Rng.Intn(0x10000)), 0xffff}}
	name := []string{"", "col"}[c.Rng.Intn(2)]
	for _, col := range cols {
		if c.Rng.Intn(3) == 0 {
			continue
		}
		b := c6Mat{name: name, hasPbr: true, baseColor: col, bct: -1, mrt: -1, normal: -1, occl: -1}
		b2 := b
		b2.baseColor = c.c6OtherAlpha(col)
		e := c6Mat{name: name, emissive: col, bct: -1, mrt: -1, normal: -1, occl: -1}
		e2 := e
		e2.emissive = c.c6OtherAlpha(col)
		s.mats = append(s.mats, b, b2, b, e, e2, e)
	}
	s.models = nil
	for k, mi := range c.Rng.Perm(len(s.mats)) {
		s.models = append(s.models, c6Model{name: "c" + strconv.Itoa(k), mesh: k % 2, mat: mi})
	}
	c.Note("scene.colour-stress")
	return s
}

// GPU-instance lists over ONE backing array: the whole list, a prefix, an offset window, in random order, next to an
// equal-by-value list with its own backing array
func (c *Ctx) c6InstShare() *c6Scene {
	s := c6Witness()
	n := 3 + c.Rng.Intn(3)
	var all [][]float64
	for k := 0; k < n; k++ {
		all = append(all, c.c6Vec(10))
	}
	owner := c6Model{name: "all", mesh: 0, mat: -1, inst: all}
	pre := 1 + c.Rng.Intn(n-1)
	off := 1 + c.Rng.Intn(n-1)
	subs := []c6Model{
		{name: "prefix", mesh: 1, mat: -1, inst: append([][]float64{}, all[:pre]...), instOf: 1, instOff: 0},
		{name: "window", mesh: 0, mat: -1, inst: append([][]float64{}, all[off:]...), instOf: 1, instOff: off},
		{name: "whole", mesh: 1, mat: -1, inst: append([][]float64{}, all...), instOf: 1, instOff: 0},
		{name: "byvalue", mesh: 0, mat: -1, inst: append([][]float64{}, all[:pre]...)},
	}
	c.Rng.Shuffle(len(subs), func(i, j int) { subs[i], subs[j] = subs[j], subs[i] })
	if c.Rng.Intn(2) == 0 {
		// SHORTER first: model 0 uses a prefix of the backing array, a later model the whole array
		short := c6Model{name: "short", mesh: 0, mat: -1, inst: append([][]float64{}, all[:pre]...), instBack: all}
		longer := c6Model{name: "longer", mesh: 1, mat: -1, inst: append([][]float64{}, all...), instOf: 1, instOff: 0}
		s.models = []c6Model{short, longer, subs[0]}
		c.Note("instshare.shorter-first")
	} else {
		s.models = append([]c6Model{owner}, subs[:3]...)
		c.Note("instshare.whole-first")
	}
	c.Note("scene.instance-sharing")
	return s
}

func runC06(c *Ctx) {
	// fixed cases first
	c.c6Case(c6SamplerNameWitness(), true, "")
	c.c6Case(c6SamplerNameWitness(), false, "")
	c.c6Case(c6Witness(), true, "witness")
	c.c6Case(c6Witness(), false, "witness")
	c.c6Case(c6XfWitness(), true, "xfwitness")
	empty := &c6Scene{}
	c.c6Case(empty, true, "")
	c.c6Case(empty, false, "")
	// scenes without any binary payload: lights only, only empty meshes, both (GLB has no BIN chunk)
	lightsOnly := &c6Scene{lights: [][]float64{{1, 2, 3, 0, 0, 0, 0, 0, 0, 0, 0, 0}, {0, -1, 0.5, 3, 1, 0xffff, 0x8080, 0, 1, 2.5, 1, 10}}}
	c.c6Case(lightsOnly, true, "")
	c.c6Case(lightsOnly, false, "")
	emptyMesh := &c6Scene{meshes: []c6Mesh{{topo: 0}, {topo: 1, attrs: []c6Attr{{name: "Position", dim: 3, data: []float64{0, 0, 0}}}}},
		models: []c6Model{{name: "e", mesh: 0, mat: -1}, {name: "p", mesh: 1, mat: -1, t: []float64{1, 0, 0}}}}
	c.c6Case(emptyMesh, true, "")
	emptyMesh.lights = [][]float64{{4, 5, 6, 2, 0, 0, 0, 0, 1, 0.75, 0, 0}}
	c.c6Case(emptyMesh, true, "")
	c.Note("nobin.fixed")
	// one mesh pointer shared by a model without material and models with the scene's first / second material
	for _, order := range [][]int{{-1, 0}, {0, -1}, {-1, 0, 1, -1, 0}, {1, -1, 0}} {
		s := c6Witness()
		s.mats = []c6Mat{{name: "first", hasPbr: true, bct: -1, mrt: -1, normal: -1, occl: -1}, {name: "second", bct: -1, mrt: -1, normal: -1, occl: -1}}
		s.models = nil
		for i, m := range order {
			s.models = append(s.models, c6Model{name: "m" + strconv.Itoa(i), mesh: 0, mat: m})
		}
		c.c6Case(s, len(order)%2 == 0, "")
		c.Note("sharedmesh.nil-vs-first-material")
	}
	c.c6TopoFixedCases()
	c.c6HistoryFixed()
	// one payload just above 4 MiB through the text container (summaries only); more sizes in the thorough tier
	c.c6BigText(262144, 262145)
	if c.Tier == "thorough" {
		for _, p := range [][2]int{{65536, 65537}, {87382, 87382}, {196608, 196609}, {262144, 262144}, {262145, 262145}, {524288, 524289}} {
			c.c6BigText(p[0], p[1])
		}
	}
	for k := 0; k < c.N; k++ {
		level := 2
		switch k % 5 {
		case 0:
			level = 0
		case 1:
			level = 1
		}
		s := c.c6Scene(level, 0)
		if k%10 == 7 {
			s = c.c6TexStress()
		}
		if k%10 == 3 {
			s = c.c6ExtStress()
		}
		if k%10 == 5 {
			s = c.c6XfOrder()
		}
		if k%10 == 9 {
			s = c.c6ColorStress()
		}
		if k%10 == 1 && k > 1 {
			s = c.c6InstShare()
		}
		if k%10 == 8 {
			s = c.c6TopoScene()
		}
		if k%10 == 2 || k%10 == 6 {
			// history: a write rejected AFTER this scene's data was written precedes the write that is checked
			c.c6FailThenWrite(s, k/10, k%4 < 2, k%2 == 0, "")
		} else {
			c.c6Case(s, k%2 == 0, "")
		}
	}
	// element counts: every count 1..1100 (quick) / 1..2100 with all vector kinds (thorough); GPU instances at every
	// fifth count and around the multiples of 341
	top := 1100
	if c.Tier == "thorough" {
		top = 2100
	}
	for n := 1; n <= top; n++ {
		r := n % 341
		withInst := n <= 1100 && (n%5 == 0 || r <= 1 || r == 340 || n <= 40)
		c.c6Case(c.c6Sweep(n, c.Tier == "thorough", withInst), n%2 == 0, "sweep")
	}
	c.Note("sweep.counts-to-" + strconv.Itoa(top))
	// both sides of the uint16/uint32 threshold (thorough tier; one pair in the quick tier), and the 4096 neighbourhood
	bigs := []int{4095, 4096, 4097, 65535, 65536, 65538}
	if c.Tier == "thorough" {
		bigs = []int{4095, 4096, 4097, 8191, 8192, 8193, 65534, 65535, 65536, 65537, 65538, 70000, 131075}
	}
	for i, nv := range bigs {
		s := c.c6Scene(0, nv)
		c.c6Case(s, i%2 == 0, "")
		c.Note("big." + strconv.Itoa(nv))
	}
}
