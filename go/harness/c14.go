package main

// C14 — truncated model files: every cut point of generated PLY (ascii / binary LE / binary BE),
// binary STL, PTS, SPZ (cut in the COMPRESSED stream) and .splat files is fed to the real reader under a
// per-call deadline; the verdict class is compared with the model's.
//
// Ops
//   c14.<fmt>.cuts [ply header description] <hex file> <cutspec>   run-length encoded "k:class" over the cut points
//   c14.<fmt>.cut  [ply header description] <hex prefix>           one prefix (all ok/panic/timeout cuts + samples)
//   c14.holds.prefix_only <fmt> <streamed> <k> <summary full> | <summary prefix>
//        oracle: whenever the implementation returns ok, its result is a prefix-restriction of the full decode
// classes: err | panic | timeout | ok:<counts>   (.splat: ok:<records>:<ErrUnexpectedEOF flag>)

import (
	"bytes"
	"compress/gzip"
	"encoding/binary"
	"fmt"
	"hash/fnv"
	"io"
	"math"
	"os"
	"path/filepath"
	"sort"
	"strings"
	"time"

	"github.com/EliCDavis/polyform/formats/ply"
	"github.com/EliCDavis/polyform/formats/pts"
	"github.com/EliCDavis/polyform/formats/splat"
	"github.com/EliCDavis/polyform/formats/spz"
	"github.com/EliCDavis/polyform/formats/stl"
	"github.com/EliCDavis/polyform/modeling"
	"github.com/EliCDavis/vector/vector2"
	"github.com/EliCDavis/vector/vector3"
)

func init() { streams["c14"] = runC14 }

const c14deadline = 10 * time.Second // a read takes microseconds; generous so that machine load cannot fake a hang

type c14out struct{ class, sum string }

// c14guard runs one read under the deadline; a panic is the class "panic", an overrun "timeout".
func c14guard(f func() c14out) c14out {
	ch := make(chan c14out, 1)
	go func() {
		defer func() {
			if e := recover(); e != nil {
				ch <- c14out{"panic", ""}
			}
		}()
		ch <- f()
	}()
	select {
	case x := <-ch:
		return x
	case <-time.After(c14deadline):
		return c14out{"timeout", ""}
	}
}

func c14hash(fs ...float64) string {
	h := fnv.New64a()
	var b [8]byte
	for _, f := range fs {
		bits := math.Float64bits(f)
		if f != f {
			bits = 0x7ff8000000000001
		}
		binary.LittleEndian.PutUint64(b[:], bits)
		h.Write(b[:])
	}
	return fmt.Sprintf("%016x", h.Sum64())
}

// c14summary: per attribute (sorted by name) one digest per vertex, then the index buffer.
func c14summary(m modeling.Mesh) string {
	var sb strings.Builder
	n := m.AttributeLength()
	type attr struct {
		name string
		vals []string
	}
	attrs := []attr{}
	for _, a := range m.Float1Attributes() {
		d := m.Float1Attribute(a)
		v := make([]string, n)
		for i := 0; i < n; i++ {
			v[i] = c14hash(d.At(i))
		}
		attrs = append(attrs, attr{"f1." + a, v})
	}
	for _, a := range m.Float2Attributes() {
		d := m.Float2Attribute(a)
		v := make([]string, n)
		for i := 0; i < n; i++ {
			v[i] = c14hash(d.At(i).X(), d.At(i).Y())
		}
		attrs = append(attrs, attr{"f2." + a, v})
	}
	for _, a := range m.Float3Attributes() {
		d := m.Float3Attribute(a)
		v := make([]string, n)
		for i := 0; i < n; i++ {
			v[i] = c14hash(d.At(i).X(), d.At(i).Y(), d.At(i).Z())
		}
		attrs = append(attrs, attr{"f3." + a, v})
	}
	for _, a := range m.Float4Attributes() {
		d := m.Float4Attribute(a)
		v := make([]string, n)
		for i := 0; i < n; i++ {
			v[i] = c14hash(d.At(i).X(), d.At(i).Y(), d.At(i).Z(), d.At(i).W())
		}
		attrs = append(attrs, attr{"f4." + a, v})
	}
	sort.Slice(attrs, func(i, j int) bool { return attrs[i].name < attrs[j].name })
	for _, a := range attrs {
		fmt.Fprintf(&sb, "A %s %d %s ", a.name, len(a.vals), strings.Join(a.vals, " "))
	}
	idx := m.Indices()
	fmt.Fprintf(&sb, "I %d", idx.Len())
	for i := 0; i < idx.Len(); i++ {
		fmt.Fprintf(&sb, " %d", idx.At(i))
	}
	return strings.Join(strings.Fields(sb.String()), " ")
}

// ---- the readers, each returning class + summary ------------------------------------------------

type c14reader func(data []byte) c14out

// on-disk entry points: the format's Load helpers, fed the same bytes through a temp file in the run's work dir
type c14diskEntry struct {
	name string
	load func(path string) c14out
}

func c14workDir() string {
	for i, a := range os.Args {
		if a == "-out" && i+1 < len(os.Args) {
			return os.Args[i+1]
		}
	}
	return os.TempDir()
}

var c14tmpSeq int

func c14withTempFile(data []byte, ext string, f func(path string) c14out) c14out {
	c14tmpSeq++
	p := filepath.Join(c14workDir(), fmt.Sprintf("c14cut-%d-%d%s", os.Getpid(), c14tmpSeq%8, ext))
	if err := os.WriteFile(p, data, 0o644); err != nil {
		return c14out{"tempfile-error", ""}
	}
	defer os.Remove(p)
	return f(p)
}

func c14meshOut(m *modeling.Mesh, err error, cls func(*modeling.Mesh) string) c14out {
	if err != nil {
		return c14out{"err", ""}
	}
	if m == nil {
		return c14out{"ok:nil-mesh", ""} // err == nil and no mesh: a rejected file reported as success
	}
	return c14out{cls(m), c14summary(*m)}
}

func c14diskEntries(format string) []c14diskEntry {
	plyCls := func(m *modeling.Mesh) string { return fmt.Sprintf("ok:%d:%d", m.AttributeLength(), m.Indices().Len()) }
	switch format {
	case "ply":
		return []c14diskEntry{
			{"ply.Load", func(p string) c14out { m, err := ply.Load(p); return c14meshOut(m, err, plyCls) }},
			{"ply.MeshReader.Load", func(p string) c14out {
				// a custom reader configuration: every property as a scalar attribute of its own name
				mr := ply.MeshReader{AttributeElement: ply.VertexElementName, LoadUnspecifiedProperties: true}
				m, err := mr.Load(p)
				return c14meshOut(m, err, plyCls)
			}},
		}
	case "stl":
		return []c14diskEntry{{"stl.Load", func(p string) c14out {
			m, err := stl.Load(p)
			return c14meshOut(m, err, func(m *modeling.Mesh) string { return fmt.Sprintf("ok:%d", m.PrimitiveCount()) })
		}}}
	case "spz":
		return []c14diskEntry{{"spz.Load", func(p string) c14out {
			cl, err := spz.Load(p)
			if err != nil {
				return c14out{"err", ""}
			}
			if cl == nil {
				return c14out{"ok:nil-mesh", ""}
			}
			dim, _ := cl.Header.ShDimensions()
			return c14out{fmt.Sprintf("ok:%d:%d", cl.Header.NumPoints, dim), c14summary(cl.Mesh)}
		}}}
	}
	return nil
}

func c14readStl(data []byte) c14out { return c14readStlR(bytes.NewReader(data)) }

func c14readStlR(in io.Reader) c14out {
	m, err := stl.ReadMesh(in)
	if err != nil {
		return c14out{"err", ""}
	}
	return c14out{fmt.Sprintf("ok:%d", m.PrimitiveCount()), c14summary(*m)}
}

func c14readPly(data []byte) c14out { return c14readPlyR(bytes.NewReader(data)) }

func c14readPlyR(in io.Reader) c14out {
	m, err := ply.ReadMesh(in)
	if err != nil {
		return c14out{"err", ""}
	}
	return c14out{fmt.Sprintf("ok:%d:%d", m.AttributeLength(), m.Indices().Len()), c14summary(*m)}
}

func c14readPts(data []byte) c14out { return c14readPtsR(bytes.NewReader(data)) }

func c14readPtsR(in io.Reader) c14out {
	m, err := pts.ReadPointCloud(in)
	if err != nil {
		return c14out{"err", ""}
	}
	return c14out{fmt.Sprintf("ok:%d:%s:%s", m.AttributeLength(), c14b(m.HasFloat1Attribute(modeling.IntensityAttribute)),
		c14b(m.HasFloat3Attribute(modeling.ColorAttribute))), c14summary(*m)}
}

func c14readSpz(data []byte) c14out { return c14readSpzR(bytes.NewReader(data)) }

func c14readSpzR(in io.Reader) c14out {
	cl, err := spz.Read(in)
	if err != nil {
		return c14out{"err", ""}
	}
	dim, _ := cl.Header.ShDimensions()
	return c14out{fmt.Sprintf("ok:%d:%d", cl.Header.NumPoints, dim), c14summary(cl.Mesh)}
}

func c14readSplat(data []byte) c14out { return c14readSplatR(bytes.NewReader(data)) }

func c14readSplatR(in io.Reader) c14out {
	m, err := splat.Read(in)
	flag := 0
	if err != nil {
		if err != io.ErrUnexpectedEOF {
			return c14out{"err", ""}
		}
		flag = 1
	}
	return c14out{fmt.Sprintf("ok:%d:%d", m.AttributeLength(), flag), c14summary(m)}
}

func c14b(b bool) string {
	if b {
		return "1"
	}
	return "0"
}

// ---- driving one file through all its cut points --------------------------------------------------

type c14file struct {
	format   string // stl ply pts spz splat
	desc     string // ply header description (else "")
	data     []byte // the file as the reader gets it (spz: compressed)
	model    []byte // what the model sees (spz: the decompressed stream)
	ascii    bool
	streamed bool
	onePoint bool // PTS file declaring one point: a cut first line with >= 3 fields is a valid file of fewer fields
	read     c14reader
	readR    func(io.Reader) c14out
	sampled  bool  // large file: sampled cuts in both tiers, few oracle lines
	extraKs  []int // cut points that must be exercised whatever the sampling
	fewCuts  bool  // very large file: only extraKs, a few random cuts, the last 20 and the first 5
	label    string
}

func c14isSpace(b byte) bool { return b == ' ' || (b >= 9 && b <= 13) }

func c14tokenBoundary(data []byte, k int) bool {
	if k <= 0 || k >= len(data) {
		return true
	}
	return c14isSpace(data[k-1]) || c14isSpace(data[k])
}

func c14rle(ks []int, cls []string) string {
	var parts []string
	i := 0
	for i < len(ks) {
		j := i
		for j+1 < len(ks) && cls[j+1] == cls[i] {
			j++
		}
		if i == j {
			parts = append(parts, fmt.Sprintf("%d:%s", ks[i], cls[i]))
		} else {
			parts = append(parts, fmt.Sprintf("%d-%d:%s", ks[i], ks[j], cls[i]))
		}
		i = j + 1
	}
	return strings.Join(parts, " ")
}

func (c *Ctx) c14cutPoints(n int) ([]int, bool) {
	all := c.Tier == "thorough" || n <= 900
	if all {
		ks := make([]int, n+1)
		for i := range ks {
			ks[i] = i
		}
		return ks, true
	}
	return c.c14sampledCuts(n), false
}

func (c *Ctx) c14sampledCuts(n int) []int {
	set := map[int]bool{}
	for i := 0; i <= 40; i++ {
		set[i] = true
	}
	for i := n - 300; i <= n; i++ {
		set[i] = true
	}
	for i := 0; i < 250; i++ {
		set[c.Rng.Intn(n+1)] = true
	}
	ks := make([]int, 0, len(set))
	for k := range set {
		if k >= 0 && k <= n {
			ks = append(ks, k)
		}
	}
	sort.Ints(ks)
	return ks
}

// what compress/gzip delivers from a cut compressed stream before its error: -1 = the gzip header itself is rejected
func c14gunzipPrefix(comp []byte) int {
	zr, err := gzip.NewReader(bytes.NewReader(comp))
	if err != nil {
		return -1
	}
	b, _ := io.ReadAll(zr)
	return len(b)
}

func (c *Ctx) c14flushExit() {
	c.cases.Flush()
	c.impl.Flush()
	fmt.Println("{\"lines\": 0, \"ops\": {}, \"notes\": {\"c14.aborted-after-timeout\": 1}}")
	os.Exit(0)
}

func (c *Ctx) c14drive(f c14file) {
	pre := ""
	if f.desc != "" {
		pre = f.desc + " "
	}
	full := c14guard(func() c14out { return f.read(f.data) })
	c.Note("c14.file." + f.label)
	if f.format == "ply" {
		// the header description of the real ply.ReadHeader vs the one the model derives from the bytes
		// (Ply.parseHeader + PlyFile.hdrOf)
		c.Emit("c14.ply.hdr", c15hex(f.data), f.desc)
	}
	if !strings.HasPrefix(full.class, "ok") {
		// the generator produced something the reader does not accept in full: still a correspondence case, no cuts
		c.Note("c14.full-file-rejected." + f.label)
		c.Emit("c14."+f.format+".cut", pre+c15hex(f.model), full.class)
		return
	}
	if f.readR != nil {
		// the same bytes through the reader family (full file and three cuts): class and decoded data must not depend on chunking
		cutsRA := []int{len(f.data)}
		for i := 0; i < 3 && len(f.data) > 0; i++ {
			cutsRA = append(cutsRA, c.Rng.Intn(len(f.data)))
		}
		for _, k := range cutsRA {
			parts := []string{}
			for _, nr := range c15readerFamily(c.Rng.Intn(12)) {
				nr := nr
				prefix := f.data[:k]
				r := c14guard(func() c14out {
					rd := nr.mk(prefix)
					o := f.readR(rd)
					if pr, ok := rd.(*io.PipeReader); ok {
						pr.Close()
					}
					return o
				})
				parts = append(parts, nr.name, c15digest(r.class+" "+r.sum))
				if r.class == "timeout" {
					c.Emit("c14."+f.format+".cut", pre+c15hex(f.model[:0]), "timeout")
					c.c14flushExit()
				}
			}
			c.Emit("c14.holds.readers_agree", fmt.Sprintf("%s %d %s", f.format, k, strings.Join(parts, " ")), "true")
		}
	}
	ks, all := c.c14cutPoints(len(f.data))
	if f.sampled && all {
		ks, all = c.c14sampledCuts(len(f.data)), false
	}
	if f.fewCuts {
		ks, all = []int{}, false
		for i := 0; i < 5; i++ {
			ks = append(ks, i)
		}
		for i := 0; i < 25; i++ {
			ks = append(ks, c.Rng.Intn(len(f.data)+1))
		}
		for i := len(f.data) - 20; i <= len(f.data); i++ {
			if i > 5 {
				ks = append(ks, i)
			}
		}
		sort.Ints(ks)
		uniq := ks[:0]
		for i, k := range ks {
			if i == 0 || k != ks[i-1] {
				uniq = append(uniq, k)
			}
		}
		ks = uniq
	}
	if !all && len(f.extraKs) > 0 {
		set := map[int]bool{}
		for _, k := range ks {
			set[k] = true
		}
		for _, k := range f.extraKs {
			if k >= 0 && k <= len(f.data) && !set[k] {
				ks = append(ks, k)
				set[k] = true
			}
		}
		sort.Ints(ks)
	}
	cls := make([]string, len(ks))
	specParts := make([]string, len(ks))
	sampled := map[int]bool{}
	for i := 0; i < 6; i++ {
		sampled[ks[c.Rng.Intn(len(ks))]] = true
	}
	for i, k := range ks {
		prefix := f.data[:k]
		r := c14guard(func() c14out { return f.read(prefix) })
		cls[i] = r.class
		mk := k // model-side cut
		if f.format == "spz" {
			d := c14gunzipPrefix(prefix)
			if d < 0 {
				specParts[i] = fmt.Sprintf("%d=x", k)
				mk = -1
			} else {
				specParts[i] = fmt.Sprintf("%d=%d", k, d)
				mk = d
			}
		} else {
			specParts[i] = fmt.Sprintf("%d", k)
		}
		// the on-disk Load helpers must give the verdict of the in-memory reader on the same bytes
		for _, de := range c14diskEntries(f.format) {
			de := de
			dr := c14withTempFile(prefix, "."+f.format, func(p string) c14out { return c14guard(func() c14out { return de.load(p) }) })
			memCls := r.class
			if de.name == "ply.MeshReader.Load" && strings.HasPrefix(memCls, "ok:") {
				memCls = "ok" // a different reader configuration: compare the verdict, not the attribute layout
				if strings.HasPrefix(dr.class, "ok:") && dr.class != "ok:nil-mesh" {
					dr.class = "ok"
				}
			}
			if dr.class != memCls || k == len(f.data) || sampled[k] {
				c.Emit("c14.holds.disk_agrees", fmt.Sprintf("%s %s %d %s %s", f.format, de.name, k, memCls, dr.class), "true")
			}
			c.Note("c14.disk." + de.name)
			if dr.class == "timeout" {
				c.c14flushExit()
			}
		}
		isOk := strings.HasPrefix(r.class, "ok")
		bad := r.class == "panic" || r.class == "timeout"
		if k < len(f.data) {
			switch {
			case bad:
				c.Note("c14.cut." + r.class)
			case isOk:
				c.Note("c14.cut.ok." + f.format)
			default:
				c.Note("c14.cut.err")
			}
		}
		if (isOk && !f.streamed) || bad || sampled[k] {
			if mk >= 0 {
				c.Emit("c14."+f.format+".cut", pre+c15hex(f.model[:mk]), r.class)
				if f.format == "ply" {
					c.Emit("c14.plyfile.cut", c15hex(f.model[:mk]), r.class) // model from the file bytes alone
				}
			}
		}
		if isOk && f.onePoint && k < len(f.data) && c14tokenBoundary(f.data, k) {
			// one-point PTS decision: fields present = tokens present, the others absent (never zeros)
			lines := strings.Split(strings.ReplaceAll(string(prefix), "\r", ""), "\n")
			if len(lines) >= 2 {
				nt := len(strings.Fields(lines[1]))
				if full.class != r.class || nt < len(strings.Fields(strings.Split(strings.ReplaceAll(string(f.data), "\r", ""), "\n")[1])) {
					c.Note("c14.pts.one-point-partial-record")
				}
				c.Emit("c14.holds.pts_one_point", fmt.Sprintf("%d %s", nt, r.class), "true")
			}
		}
		if isOk && !f.streamed && k < len(f.data) && mk >= 0 && (!f.ascii || c14tokenBoundary(f.data, k)) {
			// ok on a strict prefix: only legitimate where the model (= the theorems) also says ok with the same counts
			c.Note("c14.cut.ok-on-strict-prefix." + f.format)
			c.Emit("c14.holds.rejects_token_losing_cut", fmt.Sprintf("%s %d %s%s %s", f.format, k, pre, c15hex(f.model[:mk]), r.class), "true")
		}
		if isOk && (!f.ascii || c14tokenBoundary(f.data, k)) && (!f.streamed || ((k%7 == 0 || k > len(f.data)-40) && (!f.sampled || k%32 < 2 || k > len(f.data)-40))) {
			mode := c14b(f.streamed) // 0 complete (every attribute of the full decode), 1 streamed
			if f.onePoint {
				mode = "2" // restricted: attributes may be missing (pts_prefix, clause 4)
			}
			c.Emit("c14.holds.prefix_only", fmt.Sprintf("%s %s %d %s | %s", f.format, mode, k, full.sum, r.sum), "true")
		}
		if r.class == "timeout" {
			c.c14flushExit()
		}
	}
	spec := strings.Join(specParts, ",")
	if all && f.format != "spz" {
		spec = "all"
	}
	c.Emit("c14."+f.format+".cuts", pre+c15hex(f.model)+" "+spec, c14rle(ks, cls))
	for i := 0; i < 3; i++ {
		c.c14malformed(f)
	}
}

// ---- malformed stream: single mutations of valid files; the class of the WHOLE mutated file is compared
// (the property speaks about rejection; this ties the model's error branches outside the prefix space) -----------

func (c *Ctx) c14mutateText(data []byte, bodyStart int) ([]byte, string) {
	body := string(data[bodyStart:])
	lines := strings.Split(strings.TrimRight(body, "\n"), "\n")
	if len(lines) == 0 || (len(lines) == 1 && lines[0] == "") {
		return nil, ""
	}
	li := c.Rng.Intn(len(lines))
	toks := strings.Fields(lines[li])
	kind := ""
	switch c.Rng.Intn(9) {
	case 0:
		kind = "blank-line-inserted"
		lines = append(lines[:li], append([]string{""}, lines[li:]...)...)
	case 1:
		kind = "whitespace-line-inserted"
		lines = append(lines[:li], append([]string{"  "}, lines[li:]...)...)
	case 2:
		kind = "line-deleted"
		lines = append(lines[:li], lines[li+1:]...)
	case 3:
		if len(toks) == 0 {
			return nil, ""
		}
		kind = "token-deleted"
		ti := c.Rng.Intn(len(toks))
		toks = append(toks[:ti], toks[ti+1:]...)
		lines[li] = strings.Join(toks, " ")
	case 4:
		if len(toks) == 0 {
			return nil, ""
		}
		kind = "token-not-a-number"
		toks[c.Rng.Intn(len(toks))] = []string{"abc", "1.2.3", "--1", "1e", "+", "."}[c.Rng.Intn(6)]
		lines[li] = strings.Join(toks, " ")
	case 5:
		if len(toks) == 0 {
			return nil, ""
		}
		kind = "first-token-changed"
		toks[0] = []string{"-1", "0", "2", "5", "9", "1.5"}[c.Rng.Intn(6)]
		lines[li] = strings.Join(toks, " ")
	case 6:
		kind = "token-appended"
		lines[li] = lines[li] + " 7"
	case 7:
		kind = "line-duplicated"
		lines = append(lines[:li], append([]string{lines[li]}, lines[li:]...)...)
	case 8:
		kind = "leading-space"
		lines[li] = " " + lines[li]
	}
	out := append([]byte{}, data[:bodyStart]...)
	out = append(out, []byte(strings.Join(lines, "\n")+"\n")...)
	return out, kind
}

func c14plyBodyStart(data []byte) int {
	i := bytes.Index(data, []byte("end_header\n"))
	if i < 0 {
		i = bytes.Index(data, []byte("end_header\r\n"))
		if i < 0 {
			return -1
		}
		return i + len("end_header\r\n")
	}
	return i + len("end_header\n")
}

func (c *Ctx) c14malformed(f c14file) {
	var mut []byte
	kind := ""
	switch {
	case f.format == "ply" && f.ascii:
		bs := c14plyBodyStart(f.data)
		if bs < 0 {
			return
		}
		if c.Rng.Intn(4) == 0 {
			// header count changed: the header description is re-derived from the real ReadHeader
			h := string(f.data[:bs])
			re := []string{"element vertex ", "element face "}[c.Rng.Intn(2)]
			i := strings.Index(h, re)
			if i < 0 {
				return
			}
			j := i + len(re)
			e := j
			for e < len(h) && h[e] >= '0' && h[e] <= '9' {
				e++
			}
			var n int
			fmt.Sscanf(h[j:e], "%d", &n)
			n2 := n + []int{-1, 1, 2}[c.Rng.Intn(3)]
			if n2 < 0 {
				n2 = 0
			}
			mut = []byte(h[:j] + fmt.Sprint(n2) + h[e:] + string(f.data[bs:]))
			kind = "header-count-changed"
		} else {
			mut, kind = c.c14mutateText(f.data, bs)
		}
	case f.format == "pts":
		if c.Rng.Intn(4) == 0 && len(f.data) > 0 {
			mut = append([]byte([]string{"", " ", "x", "+", "3 "}[c.Rng.Intn(5)]), f.data...) // no "-": a negative count panics in make() (corruption, outside C14; reported)
			kind = "count-line-garbled"
		} else {
			// point lines only: a "-1" on the count line is the negative-count panic again
			mut, kind = c.c14mutateText(f.data, bytes.IndexByte(f.data, '\n')+1)
		}
	case f.format == "ply" || f.format == "stl" || f.format == "splat":
		if len(f.data) < 2 {
			return
		}
		switch c.Rng.Intn(3) {
		case 0:
			mut, kind = append(append([]byte{}, f.data...), byte(c.Rng.Intn(256))), "byte-appended"
		case 1:
			at := len(f.data) / 2
			if f.format == "stl" {
				// not inside header/count: a corrupted count makes stl.Read allocate count*50 bytes up front
				// (observed: 1e9 triangles -> deadline overrun); corruption is outside C14, truncation is not
				if len(f.data) <= 84 {
					return
				}
				at = 84 + c.Rng.Intn(len(f.data)-84)
			}
			if f.format == "ply" {
				if !strings.HasSuffix(f.desc, " 0") {
					// a face element: shifted bytes become arbitrary vertex indices, which MeshReader.Read does not
					// range-check (the unweld step then panics): data corruption, outside C14
					return
				}
				if bs := c14plyBodyStart(f.data); bs >= 0 && bs < len(f.data) {
					at = bs + c.Rng.Intn(len(f.data)-bs)
				}
			}
			mut, kind = append(append([]byte{}, f.data[:at]...), f.data[at+1:]...), "byte-deleted"
		case 2:
			if f.format == "stl" && len(f.data) >= 84 {
				mut = append([]byte{}, f.data...)
				mut[80] += byte(1 + c.Rng.Intn(3))
				kind = "count-increased"
			}
		}
	}
	if mut == nil {
		return
	}
	g := f
	g.data, g.model = mut, mut
	if f.format == "ply" {
		desc, ok := c14plyDesc(mut)
		if !ok {
			return
		}
		g.desc = desc
	}
	pre := ""
	if g.desc != "" {
		pre = g.desc + " "
	}
	r := c14guard(func() c14out { return g.read(mut) })
	c.Note("c14.malformed." + f.format + "." + kind + "." + strings.SplitN(r.class, ":", 2)[0])
	c.Emit("c14."+g.format+".cut", pre+c15hex(mut), r.class)
	if r.class == "timeout" {
		c.c14flushExit()
	}
}

// ---- generators -----------------------------------------------------------------------------------------

// tagged, non-zero coordinates: a fabricated zero vertex cannot be mistaken for data
func c14pos(i int) vector3.Float64 {
	return vector3.New(float64(i+1)+0.25, -float64(i+1)*2, float64(i+1)*0.5+100)
}

func (c *Ctx) c14mesh(nv, ntri int, normals, colors, uvs bool) modeling.Mesh {
	pos := make([]vector3.Float64, nv)
	nrm := make([]vector3.Float64, nv)
	col := make([]vector3.Float64, nv)
	uv := make([]vector2.Float64, nv)
	for i := 0; i < nv; i++ {
		pos[i] = c14pos(i)
		nrm[i] = vector3.New(float64(i%3)+1, float64(i%5)+1, -1).Normalized()
		col[i] = vector3.New(float64(i%200+10)/255, float64(i%100+20)/255, float64(i%50+30)/255)
		uv[i] = vector2.New(float64(i+1)/256, float64(i+1)/128+0.25) // distinct per vertex, non-zero, float32-exact
	}
	var m modeling.Mesh
	if ntri < 0 {
		v3 := map[string][]vector3.Float64{modeling.PositionAttribute: pos}
		if normals {
			v3[modeling.NormalAttribute] = nrm
		}
		if colors {
			v3[modeling.ColorAttribute] = col
		}
		return modeling.NewPointCloud(nil, v3, nil, nil, nil)
	}
	idx := make([]int, 0, 3*ntri)
	for t := 0; t < ntri; t++ {
		a := c.Rng.Intn(nv)
		idx = append(idx, a, (a+1+c.Rng.Intn(nv-1))%nv, c.Rng.Intn(nv))
	}
	m = modeling.NewTriangleMesh(idx).SetFloat3Attribute(modeling.PositionAttribute, pos)
	if normals {
		m = m.SetFloat3Attribute(modeling.NormalAttribute, nrm)
	}
	if colors {
		m = m.SetFloat3Attribute(modeling.ColorAttribute, col)
	}
	if uvs {
		m = m.SetFloat2Attribute(modeling.TexCoordAttribute, uv)
	}
	return m
}

func c14fmtName(f ply.Format) string {
	switch f {
	case ply.ASCII:
		return "ascii"
	case ply.BinaryLittleEndian:
		return "le"
	default:
		return "be"
	}
}

// header description for the model, from the REAL ply.ReadHeader of the complete file
func c14plyDesc(data []byte) (string, bool) {
	h, err := ply.ReadHeader(bytes.NewReader(data))
	if err != nil {
		return "", false
	}
	var v, f *ply.Element
	for i := range h.Elements {
		if h.Elements[i].Name == "vertex" {
			v = &h.Elements[i]
		}
		if h.Elements[i].Name == "face" {
			f = &h.Elements[i]
		}
	}
	if v == nil {
		return "", false
	}
	vsize := 0
	for _, p := range v.Properties {
		sp, ok := p.(ply.ScalarProperty)
		if !ok {
			return "", false
		}
		vsize += sp.Size()
	}
	d := fmt.Sprintf("%s %d %d %d", c14fmtName(h.Format), v.Count, vsize, len(v.Properties))
	if f == nil {
		return d + " 0", true
	}
	idx, tex := -1, -1
	lists := ""
	for i, p := range f.Properties {
		lp, ok := p.(ply.ListProperty)
		if !ok {
			return "", false
		}
		if lp.Name() == "vertex_index" || lp.Name() == "vertex_indices" {
			idx = i
		}
		if lp.Name() == "texcoord" {
			tex = i
		}
		cs := 0
		switch lp.CountType {
		case ply.UChar:
			cs = 1
		case ply.UInt, ply.Int:
			cs = 4
		}
		lists += fmt.Sprintf(" %d %d", cs, lp.ListType.Size())
	}
	if idx < 0 {
		return "", false
	}
	return fmt.Sprintf("%s 1 %d %d %d %d%s", d, f.Count, idx, tex, len(f.Properties), lists), true
}

func (c *Ctx) c14plyFile(data []byte, label string) (c14file, bool) {
	desc, ok := c14plyDesc(data)
	if !ok {
		return c14file{}, false
	}
	return c14file{format: "ply", desc: desc, data: data, model: data, ascii: strings.HasPrefix(desc, "ascii"), read: c14readPly, readR: c14readPlyR, label: label}, true
}

// hand-written ASCII / binary PLY files as other tools write them: quads, int list counts, doubles, an extra
// unclaimed property, blank lines, CRLF line ends
func (c *Ctx) c14handPly(variant int) []byte {
	nl := "\n"
	if variant == 3 {
		nl = "\r\n"
	}
	var sb strings.Builder
	nv := 3 + c.Rng.Intn(4)
	nf := c.Rng.Intn(4) // 0 faces: the vertex data is kept (b4c6223)
	switch variant {
	case 0, 3: // ascii, quads and triangles, extra property, comment, obj_info
		sb.WriteString("ply" + nl + "format ascii 1.0" + nl + "comment made by hand" + nl + "obj_info x" + nl)
		fmt.Fprintf(&sb, "element vertex %d%sproperty float x%sproperty float y%sproperty float z%sproperty double quality%s", nv, nl, nl, nl, nl, nl)
		fmt.Fprintf(&sb, "element face %d%sproperty list uchar int vertex_indices%send_header%s", nf, nl, nl, nl)
		for i := 0; i < nv; i++ {
			p := c14pos(i)
			fmt.Fprintf(&sb, "%g %g %g %g%s", p.X(), p.Y(), p.Z(), float64(i)+0.5, nl)
		}
		for i := 0; i < nf; i++ {
			if i%2 == 0 {
				fmt.Fprintf(&sb, "4 %d %d %d %d%s", i%nv, (i+1)%nv, (i+2)%nv, (i+3)%nv, nl)
			} else {
				fmt.Fprintf(&sb, "3 %d %d %d%s", i%nv, (i+1)%nv, (i+2)%nv, nl)
			}
		}
	case 1: // ascii with blank lines and double spaces, a texcoord list with UVs tagged per face, >= 3 faces
		if nf < 3 {
			nf = 3 + c.Rng.Intn(3)
		}
		sb.WriteString("ply\nformat ascii 1.0\n")
		fmt.Fprintf(&sb, "element vertex %d\nproperty float x\nproperty float y\nproperty float z\n", nv)
		fmt.Fprintf(&sb, "element face %d\nproperty list uchar int vertex_index\nproperty list uchar float texcoord\nend_header\n", nf)
		for i := 0; i < nv; i++ {
			p := c14pos(i)
			fmt.Fprintf(&sb, "%g  %g %g\n", p.X(), p.Y(), p.Z())
			if i == 1 {
				sb.WriteString("\n")
			}
		}
		for i := 0; i < nf; i++ {
			// six UV values tagged by face and corner: a value carried over from another face is visible
			b := float64(i+1) / 16
			fmt.Fprintf(&sb, "3 %d %d %d 6 %g %g %g %g %g %g\n", i%nv, (i+1)%nv, (i+2)%nv,
				b+1.0/128, b+2.0/128, b+3.0/128, b+4.0/128, b+5.0/128, b+6.0/128)
			if i == 0 {
				sb.WriteString("\n")
			}
		}
	case 2: // binary little endian, int list count, double vertex property, quads
		sb.WriteString("ply\nformat binary_little_endian 1.0\n")
		fmt.Fprintf(&sb, "element vertex %d\nproperty double x\nproperty double y\nproperty double z\nproperty uchar flag\n", nv)
		fmt.Fprintf(&sb, "element face %d\nproperty list int int vertex_indices\nend_header\n", nf)
		buf := []byte(sb.String())
		for i := 0; i < nv; i++ {
			p := c14pos(i)
			for _, f := range []float64{p.X(), p.Y(), p.Z()} {
				buf = binary.LittleEndian.AppendUint64(buf, math.Float64bits(f))
			}
			buf = append(buf, byte(i+1))
		}
		for i := 0; i < nf; i++ {
			n := 3 + i%2
			buf = binary.LittleEndian.AppendUint32(buf, uint32(n))
			for j := 0; j < n; j++ {
				buf = binary.LittleEndian.AppendUint32(buf, uint32((i+j)%nv))
			}
		}
		return buf
	}
	return []byte(sb.String())
}

func (c *Ctx) c14ptsText(n int, fields int, crlf bool, trailingNL bool) []byte {
	nl := "\n"
	if crlf {
		nl = "\r\n"
	}
	var sb strings.Builder
	fmt.Fprintf(&sb, "%d%s", n, nl)
	for i := 0; i < n; i++ {
		p := c14pos(i)
		fmt.Fprintf(&sb, "%g %g %g", p.X(), p.Y(), p.Z())
		if fields >= 4 {
			fmt.Fprintf(&sb, " %d", 10+i%200)
		}
		if fields >= 7 {
			fmt.Fprintf(&sb, " %d %d %d", 1+i%250, 2+i%200, 3+i%100)
		}
		if i < n-1 || trailingNL {
			sb.WriteString(nl)
		}
	}
	return []byte(sb.String())
}

// SPZ stream built to the published layout with arbitrary bytes in every array
func (c *Ctx) c14spzStream(version uint32, n int, deg, fb uint8) []byte {
	buf := make([]byte, 0, 16+n*64)
	buf = binary.LittleEndian.AppendUint32(buf, 0x5053474e)
	buf = binary.LittleEndian.AppendUint32(buf, version)
	buf = binary.LittleEndian.AppendUint32(buf, uint32(n))
	buf = append(buf, deg, fb, byte(c.Rng.Intn(2)), 0)
	pb := 9
	if version == 1 {
		pb = 6
	}
	dim := []int{0, 3, 8, 15}[deg]
	body := make([]byte, n*(pb+10+3*dim))
	c.Rng.Read(body)
	return append(buf, body...)
}

func c14gzip(data []byte, level int) []byte {
	var b bytes.Buffer
	zw, _ := gzip.NewWriterLevel(&b, level)
	zw.Write(data)
	zw.Close()
	return b.Bytes()
}

func runC14(c *Ctx) {
	formats := []ply.Format{ply.ASCII, ply.BinaryLittleEndian, ply.BinaryBigEndian}
	for k := 0; k < c.N; k++ {
		// sizes: tiny first, then moderate
		nv := 3 + c.Rng.Intn(6)
		ntri := 1 + c.Rng.Intn(5)
		if k%5 == 4 {
			nv, ntri = 20+c.Rng.Intn(30), 10+c.Rng.Intn(30)
		}
		if c.Tier == "thorough" && k%23 == 22 {
			nv, ntri = 80+c.Rng.Intn(70), 60+c.Rng.Intn(90)
		}
		normals, colors, uvs := c.Rng.Intn(2) == 0, c.Rng.Intn(2) == 0, c.Rng.Intn(2) == 0

		// --- PLY written by the real writer, three encodings, meshes and point clouds -----------------------
		for _, pf := range formats {
			mesh := c.c14mesh(nv, ntri, normals, colors, uvs)
			label := "ply." + c14fmtName(pf) + ".mesh"
			if uvs {
				label += ".uv"
			}
			if k%3 == 1 {
				mesh = c.c14mesh(nv, -1, normals, colors, false)
				label = "ply." + c14fmtName(pf) + ".cloud"
			}
			var b bytes.Buffer
			if err := ply.Write(&b, mesh, pf); err != nil {
				continue
			}
			if f, ok := c.c14plyFile(b.Bytes(), label); ok {
				c.c14drive(f)
			}
		}
		if f, ok := c.c14plyFile(c.c14handPly(k%4), fmt.Sprintf("ply.hand.%d", k%4)); ok {
			c.c14drive(f)
		}
		// in every iteration of both tiers: ASCII files with a per-face texcoord list, >= 3 faces, distinct UVs —
		// one hand-written (tagged per face and corner), one from the real writer; every cut is exercised
		// (the hand-written one is < 900 bytes; the writer's is cut everywhere in its last 300 bytes = the face lines)
		if k%4 != 1 {
			if f, ok := c.c14plyFile(c.c14handPly(1), "ply.hand.1"); ok {
				c.c14drive(f)
			}
		}
		{
			mesh := c.c14mesh(4+c.Rng.Intn(3), 3+c.Rng.Intn(2), false, false, true)
			var b bytes.Buffer
			if err := ply.Write(&b, mesh, ply.ASCII); err == nil {
				if f, ok := c.c14plyFile(b.Bytes(), "ply.ascii.mesh.uv.small"); ok {
					c.c14drive(f)
				}
			}
		}

		// --- binary STL ----------------------------------------------------------------------------------------
		{
			nt := ntri
			if k == 0 {
				nt = 0
			}
			var b bytes.Buffer
			var mesh modeling.Mesh
			if nt == 0 {
				mesh = modeling.EmptyMesh(modeling.TriangleTopology)
			} else {
				mesh = c.c14mesh(nv, nt, normals, false, false)
			}
			if err := stl.WriteMesh(&b, mesh); err == nil {
				data := b.Bytes()
				label := "stl"
				// the 80-byte header is free text: zero (the writer's), random, and ASCII-STL-looking text
				hdrs := []string{"", "solid OpenSCAD_Model", "solid", " solid x", "COLOR=\xff\x00\x00\xff solid", "solid cube\nfacet normal 0 0 1\n outer loop\n", "random"}
				hs := hdrs[k%len(hdrs)]
				if hs != "" && len(data) >= 80 {
					hb := make([]byte, 80)
					if hs == "random" {
						c.Rng.Read(hb)
					} else {
						copy(hb, hs)
					}
					copy(data[:80], hb)
					label = "stl.header." + []string{"zero", "solid-name", "solid", "space-solid", "color", "solid-ascii-text", "random"}[k%len(hdrs)]
				}
				c.c14drive(c14file{format: "stl", data: data, model: data, read: c14readStl, readR: c14readStlR, label: label})
			}
		}

		// --- binary STL whose triangle count is a multiple of 256 (low count byte 0): 256, 512, thorough also 2048, cut around the count field ---------
		if k == 1 || k == 2 || (c.Tier == "thorough" && k == 3) {
			nt := map[int]int{1: 256, 2: 512, 3: 2048}[k] // (65536 is out of reach of the List-based model reader: quadratic)
			few := nt > 1000
			var b bytes.Buffer
			if err := stl.WriteMesh(&b, c.c14mesh(50, nt, false, false, false)); err == nil {
				extra := []int{}
				for x := 76; x <= 92; x++ {
					extra = append(extra, x)
				}
				for x := 0; x < 6; x++ { // record boundaries
					extra = append(extra, 84+50*c.Rng.Intn(nt), 84+50*c.Rng.Intn(nt)+1)
				}
				c.c14drive(c14file{format: "stl", data: b.Bytes(), model: b.Bytes(), sampled: true, fewCuts: few, extraKs: extra,
					read: c14readStl, readR: c14readStlR, label: fmt.Sprintf("stl.%dtris", nt)})
			}
		}

		// --- PTS declaring more than 65536 points, cut on line boundaries after row 65536 ---------------------------------
		if k == 0 {
			n := 65536 + 5 + c.Rng.Intn(20)
			var sb strings.Builder
			fmt.Fprintf(&sb, "%d\n", n)
			lineEnds := make([]int, 0, n)
			for i := 0; i < n; i++ {
				fmt.Fprintf(&sb, "%d %d %d\n", i+1, 2*i+1, 7)
				lineEnds = append(lineEnds, sb.Len())
			}
			data := []byte(sb.String())
			extra := []int{}
			for _, row := range []int{1, 2, 4095, 4096, 65534, 65535, 65536, 65537, 65538, n - 2, n - 1} {
				if row >= 1 && row <= n {
					e := lineEnds[row-1] // just after the line feed of row `row`
					extra = append(extra, e-1, e, e+1)
				}
			}
			c.c14drive(c14file{format: "pts", data: data, model: data, ascii: true, sampled: true, fewCuts: true, extraKs: extra,
				read: c14readPts, readR: c14readPtsR, label: "pts.65536+"})
		}

		// --- PTS -------------------------------------------------------------------------------------------------
		{
			n := []int{0, 1, 1, 2, 3, 7, 25}[c.Rng.Intn(7)]
			fields := []int{3, 4, 7}[c.Rng.Intn(3)]
			data := c.c14ptsText(n, fields, c.Rng.Intn(5) == 0, c.Rng.Intn(3) != 0)
			c.c14drive(c14file{format: "pts", data: data, model: data, ascii: true, onePoint: n == 1, read: c14readPts, readR: c14readPtsR, label: fmt.Sprintf("pts.%dfields", fields)})
		}

		// --- SPZ: cut the compressed stream ---------------------------------------------------------------------------
		{
			version := uint32(1 + c.Rng.Intn(2))
			n := []int{0, 1, 2, 5, 12, 40}[c.Rng.Intn(6)]
			deg := uint8(c.Rng.Intn(4))
			stream := c.c14spzStream(version, n, deg, uint8(c.Rng.Intn(20)))
			level := []int{gzip.NoCompression, gzip.BestSpeed, gzip.DefaultCompression}[c.Rng.Intn(3)]
			c.c14drive(c14file{format: "spz", data: c14gzip(stream, level), model: stream, read: c14readSpz, readR: c14readSpzR,
				label: fmt.Sprintf("spz.v%d.sh%d", version, deg)})
		}

		// --- .splat ------------------------------------------------------------------------------------------------------
		{
			n := []int{0, 1, 2, 3, 9, 20}[c.Rng.Intn(6)]
			recs := make([]c15splatRec, n)
			for i := range recs {
				recs[i] = c.c15splat()
			}
			var b bytes.Buffer
			if err := splat.Write(&b, c15cloud(recs, modeling.PointTopology, "")); err == nil {
				c.c14drive(c14file{format: "splat", data: b.Bytes(), model: b.Bytes(), streamed: true, read: c14readSplat, readR: c14readSplatR, label: "splat"})
			}
		}
		// a .splat file across the 32 KiB (1024 records) boundary: once per run in quick, a few sizes in thorough
		if k == 0 || (c.Tier == "thorough" && k%100 == 50) {
			n := []int{1025, 1024, 1023, 2049}[(k/100)%4]
			data := c.c15rnd(32 * n)
			c.c14drive(c14file{format: "splat", data: data, model: data, streamed: true, sampled: true, read: c14readSplat, readR: c14readSplatR, label: fmt.Sprintf("splat.%d", n)})
		}
	}
	// LARGE files (> 65536 / 100000 records) cut at batch-size / allocation-cap positions: sizes + verdict only (c14_large.go)
	c.c14large()
}
