// Stream "c13", HTTP families: the same three entry points reached the way every real client reaches
// them — through the handlers of the edit server (generator/app_server*.go):
//
//	POST /parameter/value/<node id>   body = decimal int     -> Instance.UpdateParameter      `u p v` -> ok | err (status != 200)
//	GET  /parameter/value/<node id>                          -> Instance.ParameterData        `d p`   -> v n | err
//	GET  /producer/value/<name>                              -> Instance.Artifact + Write     `a i`   -> v n | err
//
// The server is the REAL one: generator.App{Files: …}.Run(["c13","edit","-host","127.0.0.1","-port",<free>,
// "-launch-browser=false"]) in a goroutine (AppServer has only unexported fields; Run builds it and calls
// Serve()).  Node ids come from GET /schema.  Servers are never shut down (the process exits at the end).
//
//	c13.http.seq <graph> K <call>*K            model line: K requests one after the other; answer = K responses
//	                                           (no pv/mv: the HTTP layer does not expose them per node)
//	c13.holds.linearizable <graph> E <events>  the EXISTING oracle, on
//	    * deterministic schedules S1..S4 (+ S1 three times in a row): the harness-owned artifact's
//	      Write(io.Writer) can be made to BLOCK (c13Gate), so a download is held between Artifact() and the
//	      end of its serialization while updates complete, and later downloads must show the new state;
//	    * random concurrent HTTP histories (2..4 clients, nothing blocked).
//
// A server is reused for several lines; every line starts by reading the current parameter values (`Q v`
// of its graph description), struct caches are then whatever they are (responses depend on the valuation
// only).  Update values are unique per server.
//
// ENVIRONMENT failures never raise an alarm: if the loopback server cannot be used — Listen fails, Run
// returns early, the server is not up within 10 s (at most 8 ports tried), a request fails on the
// transport level (refused/reset/EOF), or a request times out AND a following `GET /schema` probe (2 s)
// fails as well — the history in progress is dropped (a line is emitted only after its whole history
// completed), `http.unavailable` + `http.unavailable.<listen|start-deadline|run-returned|transport-midrun>`
// are noted, one line goes to stderr, no further HTTP lines are produced and the stream goes on and
// exits 0.  When everything worked `http.available` = number of servers is noted.  What stays an ERROR
// (exit 3, the implementation's fault): a request that gets no response within the 60 s client timeout
// while the same server still answers the probe (a lock left held), and a parameter that cannot be read.
// An HTTP status != 200 is an observed response (`err`), not a failure.
// C13_HTTP_FORCE_UNAVAILABLE=listen|midrun simulates the two kinds of environment failure (self-test).
package main

import (
	"bytes"
	"context"
	"encoding/json"
	"errors"
	"fmt"
	"image"
	"image/color"
	"image/png"
	"io"
	"net"
	"net/http"
	"os"
	"sort"
	"strconv"
	"strings"
	"sync"
	"sync/atomic"
	"time"

	"github.com/EliCDavis/polyform/generator"
	"github.com/EliCDavis/polyform/generator/artifact"
	"github.com/EliCDavis/polyform/nodes"
)

// c13Gate makes Write of the harness artifact block: the next `armed` calls of Write announce
// themselves on `entered` and wait for one token on `release` each.  Unarmed, Write returns at once.
type c13Gate struct {
	armed   atomic.Int32
	entered chan int
	release chan struct{}
}

func c13NewGate() *c13Gate {
	return &c13Gate{entered: make(chan int, 64), release: make(chan struct{})}
}

func (g *c13Gate) pass(v int) {
	if g == nil {
		return
	}
	for {
		n := g.armed.Load()
		if n <= 0 {
			return
		}
		if g.armed.CompareAndSwap(n, n-1) {
			break
		}
	}
	g.entered <- v
	<-g.release
}

func c13Fatal(format string, a ...any) {
	fmt.Fprintf(os.Stderr, "c13 http: "+format+"\n", a...)
	os.Exit(3)
}

// environment failure: first kind wins; read by the main goroutine between requests / lines
var c13HTTPEnv atomic.Pointer[string]

func c13EnvFail(kind, format string, a ...any) {
	msg := kind + ": " + fmt.Sprintf(format, a...)
	c13HTTPEnv.CompareAndSwap(nil, &msg)
}

func c13HTTPDown() bool { return c13HTTPEnv.Load() != nil }

var c13ForceUnavailable = os.Getenv("C13_HTTP_FORCE_UNAVAILABLE")
var c13Requests atomic.Int64

type c13Server struct {
	c      *Ctx
	base   string
	g      []c13Desc
	b      *c13Built
	gate   *c13Gate
	ids    []string // node id per node ("" for interior nodes: not addressable by name)
	client *http.Client
	next   int                 // unique update values
	rel    map[int]map[int]int // producer -> parameters it depends on (path counts)

	pgate    *c13Gate // blocks Process() of a producer (S5)
	prods    []int    // the ordinary producers (p, p1, p10)
	seqProds []int    // prods + rows
	rows     int      // node of producer "rows": R rows "<k> <i>\n"
	broken   int      // node of producer "broken": Write fails after 100 rows (stimulus only, never in a history)
	R        int
	imgs     []int // nodes of the image producers "img", "img2" (basics.Image)
	side     int

	badImage200 atomic.Int64 // image downloads answered 200 with a body that is not the png of one state

	malformed200  atomic.Int64 // rows downloads answered 200 with a body that is not R rows of one k
	malformedHead atomic.Int64 // rows downloads whose response head was garbage ("malformed ...")
	dropped       atomic.Int64 // requests whose connection the (still answering) server dropped
}

const (
	c13ModeRows   = 1
	c13ModeBroken = 2
	c13ModeImage  = 3
	c13Foreign    = 999999996 // response token value for a 200 that is not one consistent artifact
	c13BadImage   = 999999995 // ... for a 200 that is not the png of ONE state
)

// c13Render: the deterministic side x side image of value k.  Pixels (0,0),(1,0) carry k itself, every
// other pixel is a function of (k,x,y) (noise-like, so the png is big and takes the encoder a while).
func c13Pixel(k, x, y int) color.NRGBA {
	switch {
	case x == 0 && y == 0:
		return color.NRGBA{uint8(k >> 24), uint8(k >> 16), uint8(k >> 8), 255}
	case x == 1 && y == 0:
		return color.NRGBA{uint8(k), 0x5a, 0xa5, 255}
	}
	h := uint32(k)*2654435761 + uint32(x)*40503 + uint32(y)*9973
	h ^= h >> 13
	h *= 0x5bd1e995
	h ^= h >> 15
	return color.NRGBA{uint8(h), uint8(h >> 8), uint8(h >> 16), 255}
}

func c13Render(k, side int) image.Image {
	img := image.NewNRGBA(image.Rect(0, 0, side, side))
	for y := 0; y < side; y++ {
		for x := 0; x < side; x++ {
			img.SetNRGBA(x, y, c13Pixel(k, x, y))
		}
	}
	return img
}

// c13ParseImage: the k of a body that is the png of exactly one state (right size, every pixel = c13Pixel(k,x,y))
func c13ParseImage(data []byte, side int) (int, bool) {
	img, err := png.Decode(bytes.NewReader(data))
	if err != nil || img.Bounds() != image.Rect(0, 0, side, side) {
		return 0, false
	}
	at := func(x, y int) color.NRGBA { return color.NRGBAModel.Convert(img.At(x, y)).(color.NRGBA) }
	p0, p1 := at(0, 0), at(1, 0)
	k := int(p0.R)<<24 | int(p0.G)<<16 | int(p0.B)<<8 | int(p1.R)
	for y := 0; y < side; y++ {
		for x := 0; x < side; x++ {
			if at(x, y) != c13Pixel(k, x, y) {
				return 0, false
			}
		}
	}
	return k, true
}

// the many-row artifact: R rows "<k> <i>\n", written row by row like the mesh writers do
type c13RowsArt struct{ k, n int }

func (a c13RowsArt) Mime() string { return "text/plain" }
func (a c13RowsArt) Write(w io.Writer) error {
	buf := make([]byte, 0, 32)
	for i := 0; i < a.n; i++ {
		buf = strconv.AppendInt(buf[:0], int64(a.k), 10)
		buf = append(buf, ' ')
		buf = strconv.AppendInt(buf, int64(i), 10)
		buf = append(buf, '\n')
		if _, err := w.Write(buf); err != nil {
			return err
		}
	}
	return nil
}

// the artifact that cannot be serialized: 100 rows, then an error (-> HTTP 500)
type c13BrokenArt struct{ k int }

func (a c13BrokenArt) Mime() string { return "text/plain" }
func (a c13BrokenArt) Write(w io.Writer) error {
	if err := (c13RowsArt{k: a.k, n: 100}).Write(w); err != nil {
		return err
	}
	return errors.New("c13: this artifact cannot be serialized")
}

// c13ParseRows: the k of a body that is exactly R rows "<k> <i>\n", i = 0,1,2,.., all with the same k
func c13ParseRows(data []byte, R int) (int, bool) {
	num := func(b []byte) (int, bool) {
		if len(b) == 0 || len(b) > 12 {
			return 0, false
		}
		n := 0
		for _, ch := range b {
			if ch < '0' || ch > '9' {
				return 0, false
			}
			n = n*10 + int(ch-'0')
		}
		return n, true
	}
	k, i, pos := -1, 0, 0
	for pos < len(data) {
		nl := bytes.IndexByte(data[pos:], '\n')
		if nl < 0 {
			return 0, false
		}
		line := data[pos : pos+nl]
		pos += nl + 1
		sp := bytes.IndexByte(line, ' ')
		if sp < 0 {
			return 0, false
		}
		kk, ok1 := num(line[:sp])
		ii, ok2 := num(line[sp+1:])
		if !ok1 || !ok2 || ii != i || (k >= 0 && kk != k) {
			return 0, false
		}
		k = kk
		i++
	}
	return k, i == R
}

// a fresh port per server (never a fixed one: concurrent checks must not collide); "" = cannot listen
func c13FreePort() string {
	if c13ForceUnavailable == "1" || c13ForceUnavailable == "listen" {
		c13EnvFail("listen", "forced by C13_HTTP_FORCE_UNAVAILABLE")
		return ""
	}
	l, err := net.Listen("tcp", "127.0.0.1:0")
	if err != nil {
		c13EnvFail("listen", "net.Listen 127.0.0.1:0: %v", err)
		return ""
	}
	defer l.Close()
	return strconv.Itoa(l.Addr().(*net.TCPAddr).Port)
}

var c13ServerSerial int

func c13StartServer(c *Ctx) *c13Server {
	c13ServerSerial++
	g := c13GenGraph(c)
	nprod := func(g []c13Desc) (n int) {
		for _, d := range g {
			if d.prod {
				n++
			}
		}
		return n
	}
	// schedules S2/S3 want two producers, S4 a producer that does not depend on some parameter
	hasPartial := func(g []c13Desc) bool {
		memo := map[int]map[int]int{}
		for i, d := range g {
			if !d.prod {
				continue
			}
			rel := c13Paths(g, i, memo)
			for q, e := range g {
				if e.param && rel[q] == 0 {
					return true
				}
			}
		}
		return false
	}
	for tries := 0; nprod(g) < 2 || (!hasPartial(g) && tries < 12); tries++ {
		g = c13GenGraph(c)
	}
	// two more producers on every server: `rows` (big multi-row body) and `broken` (Write fails);
	// for the model both are ordinary S nodes over two non-producer nodes
	var pool []int
	for i, d := range g {
		if !d.prod {
			pool = append(pool, i)
		}
	}
	R := 20000 + c.Rng.Intn(40001)
	rowsNode, brokenNode := len(g), len(g)+1
	g = append(g,
		c13Desc{salt: 1 + c.Rng.Intn(1000), sc: []int{pool[c.Rng.Intn(len(pool))], pool[c.Rng.Intn(len(pool))]}, prod: true, name: "rows", mode: c13ModeRows, rowsN: R},
		c13Desc{salt: 1 + c.Rng.Intn(1000), sc: []int{pool[c.Rng.Intn(len(pool))], pool[c.Rng.Intn(len(pool))]}, prod: true, name: "broken", mode: c13ModeBroken})
	side := 160 + 32*c.Rng.Intn(6) // 160..320
	imgNode := len(g)
	for _, name := range []string{"img", "img2"} {
		g = append(g, c13Desc{salt: 1 + c.Rng.Intn(1000), sc: []int{pool[c.Rng.Intn(len(pool))], pool[c.Rng.Intn(len(pool))]}, prod: true, name: name, mode: c13ModeImage, rowsN: side})
	}
	s := &c13Server{c: c, g: g, gate: c13NewGate(), pgate: c13NewGate(), next: 1000, rel: map[int]map[int]int{}, rows: rowsNode, broken: brokenNode, R: R, imgs: []int{imgNode, imgNode + 1}, side: side}
	files := map[string]nodes.NodeOutput[artifact.Artifact]{}
	parPrefix := fmt.Sprintf("par-%d-%d-", os.Getpid(), c13ServerSerial) // recognisable in /schema: this is OUR server
	s.b = c13BuildOpt(g, c13BuildOptions{prefixNames: true, files: files, gate: s.gate, pgate: s.pgate, parPrefix: parPrefix})
	for _, p := range s.b.prods {
		if g[p].mode == 0 {
			s.prods = append(s.prods, p)
		}
	}
	s.seqProds = append(append([]int{}, s.prods...), s.rows, s.imgs[0])
	memo := map[int]map[int]int{}
	for _, p := range s.b.prods {
		s.rel[p] = c13Paths(g, p, memo)
	}
	app := &generator.App{Name: "c13 harness", Files: files, Out: io.Discard}
	s.client = &http.Client{Timeout: 60 * time.Second, Transport: &http.Transport{MaxIdleConnsPerHost: 16, IdleConnTimeout: 5 * time.Second}}

	type schemaT struct {
		Producers map[string]struct {
			NodeID string `json:"nodeID"`
		} `json:"producers"`
		Nodes map[string]struct {
			Name string `json:"name"`
		} `json:"nodes"`
	}
	var lastErr error
	overall := time.Now().Add(10 * time.Second)
	for attempt := 0; attempt < 8 && time.Now().Before(overall); attempt++ {
		port := c13FreePort()
		if port == "" {
			return nil
		}
		s.base = "http://127.0.0.1:" + port
		errCh := make(chan error, 1)
		go func() {
			errCh <- app.Run([]string{"c13", "edit", "-host", "127.0.0.1", "-port", port, "-launch-browser=false"})
		}()
		deadline := overall
		up := false
	poll:
		for time.Now().Before(deadline) {
			select {
			case lastErr = <-errCh:
				if lastErr != nil && strings.Contains(lastErr.Error(), "address already in use") {
					break poll // the port was taken between our close and Serve: next attempt, new port
				}
				c13EnvFail("run-returned", "generator.App.Run(edit) returned before serving: %v", lastErr)
				return nil
			default:
			}
			body, status, err := s.probe(2 * time.Second)
			if err != nil || status != 200 {
				lastErr = fmt.Errorf("GET /schema: status %d err %v", status, err)
				time.Sleep(3 * time.Millisecond)
				continue
			}
			var sc schemaT
			if err := json.Unmarshal(body, &sc); err != nil {
				lastErr = fmt.Errorf("the server on port %s answers /schema with something else: %v", port, err)
				time.Sleep(20 * time.Millisecond)
				continue
			}
			s.ids = make([]string, len(g))
			byName := map[string]string{}
			for id, n := range sc.Nodes {
				byName[n.Name] = id
			}
			ok := true
			for _, p := range s.b.pars {
				s.ids[p] = byName[parPrefix+itoa(p)]
				ok = ok && s.ids[p] != ""
			}
			for _, p := range s.b.prods {
				s.ids[p] = sc.Producers[s.b.names[p]].NodeID
				ok = ok && s.ids[p] != ""
			}
			if !ok {
				// somebody else's server answers on this port
				lastErr = fmt.Errorf("the server on port %s does not show our parameters/producers", port)
				time.Sleep(20 * time.Millisecond)
				continue
			}
			up = true
			break
		}
		if up {
			go func() {
				err := <-errCh
				c13EnvFail("run-returned", "edit server on %s stopped: %v", s.base, err)
			}()
			c.Note("http.servers")
			return s
		}
	}
	c13EnvFail("start-deadline", "edit server not up within 10 s / 8 ports: %v", lastErr)
	return nil
}

// probe: GET /schema with its own short timeout (readiness, and "does the server still answer")
func (s *c13Server) probe(timeout time.Duration) ([]byte, int, error) {
	if c13ForceUnavailable == "midrun" && c13Requests.Load() > 40 {
		return nil, 0, errors.New("forced by C13_HTTP_FORCE_UNAVAILABLE")
	}
	cl := &http.Client{Timeout: timeout, Transport: &http.Transport{DisableKeepAlives: true}}
	resp, err := cl.Get(s.base + "/schema")
	if err != nil {
		return nil, 0, err
	}
	defer resp.Body.Close()
	data, err := io.ReadAll(resp.Body)
	return data, resp.StatusCode, err
}

// rawc: one request through client cl.  headErr = no (usable) response head arrived; bodyErr = the head
// arrived (status known) but the body could not be read to its end.
func (s *c13Server) rawc(cl *http.Client, method, path, body string) (data []byte, status int, headErr, bodyErr error) {
	if c13ForceUnavailable == "midrun" && c13Requests.Add(1) > 40 {
		return nil, 0, errors.New("forced by C13_HTTP_FORCE_UNAVAILABLE"), nil
	}
	var rd io.Reader
	if method == http.MethodPost {
		rd = strings.NewReader(body)
	}
	req, err := http.NewRequest(method, s.base+path, rd)
	if err != nil {
		return nil, 0, err, nil
	}
	resp, err := cl.Do(req)
	if err != nil {
		return nil, 0, err, nil
	}
	defer resp.Body.Close()
	data, err = io.ReadAll(resp.Body)
	return data, resp.StatusCode, nil, err
}

func (s *c13Server) raw(method, path, body string) ([]byte, int, error) {
	data, status, herr, berr := s.rawc(s.client, method, path, body)
	if herr != nil {
		return nil, 0, herr
	}
	return data, status, berr
}

// transport-level failure of request k: a client timeout while the server still answers the probe is the
// implementation hanging (exit 3); EOF / reset while the server still answers the probe is a connection the
// server dropped (response `err`, status 0, note http.connection-dropped-by-server); if the probe fails too
// (or nothing could be sent at all and the probe fails) it is the environment
func (s *c13Server) transportFailure(k c13Call, err error) (string, int) {
	var ne net.Error
	timedOut := errors.As(err, &ne) && ne.Timeout()
	if timedOut && !c13HTTPDown() {
		if _, st, perr := s.probe(2 * time.Second); perr == nil && st == 200 {
			// the server answers, this request does not: the implementation hangs (a lock left held)
			c13Fatal("request %s got no response within the client timeout while the server still answers GET /schema (deadlock?): %v", k.String(), err)
		}
	}
	if !timedOut && !c13HTTPDown() {
		if _, st, perr := s.probe(2 * time.Second); perr == nil && st == 200 {
			// EOF / reset for THIS request while the same server answers at once: the server dropped the
			// connection (a panic outside every recover) — an observed failure of the request, not the
			// environment.  The request counts as answered with an error; the history goes on.
			s.dropped.Add(1)
			return "err", 0
		}
	}
	c13EnvFail("transport-midrun", "request %s: %v", k.String(), err)
	return "env", -1
}

// do performs one call over HTTP; the response token and the HTTP status.  ("env", -1) = environment
// failure (recorded in c13HTTPEnv; once that is set nothing is sent any more).
func (s *c13Server) do(k c13Call) (string, int) { return s.doc(s.client, k) }

func (s *c13Server) doc(cl *http.Client, k c13Call) (string, int) {
	if c13HTTPDown() {
		return "env", -1
	}
	if k.kind == 'a' && k.p == s.rows {
		return s.doRows(cl, k)
	}
	if k.kind == 'a' && (k.p == s.imgs[0] || k.p == s.imgs[1]) {
		return s.doImage(cl, k)
	}
	id, name := "Node-"+itoa(c13Unknown), c13UnknownNames[k.v%len(c13UnknownNames)]
	if name == "" {
		name = "p100"
	}
	if k.p != c13Unknown {
		id, name = s.ids[k.p], s.b.names[k.p]
	}
	var body []byte
	var status int
	var herr, berr error
	switch k.kind {
	case 'u', 'b':
		body, status, herr, berr = s.rawc(cl, http.MethodPost, "/parameter/value/"+id, string(k.payload()))
	case 'd':
		body, status, herr, berr = s.rawc(cl, http.MethodGet, "/parameter/value/"+id, "")
	default:
		body, status, herr, berr = s.rawc(cl, http.MethodGet, "/producer/value/"+strings.ReplaceAll(name, " ", "%20"), "")
	}
	if herr != nil {
		return s.transportFailure(k, herr)
	}
	if berr != nil {
		return s.transportFailure(k, berr)
	}
	if status != 200 {
		return "err", status
	}
	if k.kind == 'u' || k.kind == 'b' {
		return "ok", status
	}
	n, perr := strconv.Atoi(strings.TrimSpace(string(body)))
	if perr != nil || n < 0 {
		return fmt.Sprintf("bad:%x", body), status
	}
	return "v " + itoa(n), status
}

// doRows: download of the many-row producer, canonicalised at return time:
//
//	200 and exactly R rows "<k> <i>", i = 0,1,2,.., one k          -> `v k`
//	200 and anything else (foreign rows, truncated, empty, body broke off / malformed chunks) -> `v 999999996`
//	a response head that is garbage ("malformed HTTP response / MIME header": bytes of another response
//	where the status line should be — only a server writing into the wrong connection produces that)    -> `v 999999996`
//	non-200                                                        -> `err`  (the model never answers err to an artifact call)
//	no response head at all (refused / reset / EOF / timeout)      -> environment (or deadlock), as for every request
func (s *c13Server) doRows(cl *http.Client, k c13Call) (string, int) {
	data, status, herr, berr := s.rawc(cl, http.MethodGet, "/producer/value/rows", "")
	if herr != nil {
		if strings.Contains(herr.Error(), "malformed") {
			s.malformedHead.Add(1)
			return "v " + itoa(c13Foreign), 200
		}
		return s.transportFailure(k, herr)
	}
	if status != 200 {
		return "err", status
	}
	if berr == nil {
		if kk, ok := c13ParseRows(data, s.R); ok {
			return "v " + itoa(kk), status
		}
	}
	s.malformed200.Add(1)
	return "v " + itoa(c13Foreign), status
}

// doImage: download of an image producer (the repo's basics.Image), canonicalised at return time like doRows:
// 200 and the png of exactly ONE state -> `v k` (k read from the first pixels, every pixel verified);
// 200 and anything else (does not decode, wrong size, mixed) / garbage response head -> `v 999999995`;
// non-200 (e.g. a recovered panic of the encoder) -> `err`.
func (s *c13Server) doImage(cl *http.Client, k c13Call) (string, int) {
	data, status, herr, berr := s.rawc(cl, http.MethodGet, "/producer/value/"+s.b.names[k.p], "")
	if herr != nil {
		if strings.Contains(herr.Error(), "malformed") {
			s.badImage200.Add(1)
			return "v " + itoa(c13BadImage), 200
		}
		return s.transportFailure(k, herr)
	}
	if status != 200 {
		return "err", status
	}
	if berr == nil {
		if kk, ok := c13ParseImage(data, s.side); ok {
			return "v " + itoa(kk), status
		}
	}
	s.badImage200.Add(1)
	return "v " + itoa(c13BadImage), status
}

// graph description with the CURRENT parameter values (read sequentially, the server is quiescent)
func (s *c13Server) snapshot() (string, map[int]int) {
	g := append([]c13Desc{}, s.g...)
	cur := map[int]int{}
	for _, p := range s.b.pars {
		r, status := s.do(c13Call{kind: 'd', p: p})
		if status == -1 {
			return "", nil // environment failure: the caller drops the line
		}
		if status != 200 || !strings.HasPrefix(r, "v ") {
			c13Fatal("cannot read parameter %d: %s (status %d)", p, r, status)
		}
		v, _ := strconv.Atoi(r[2:])
		g[p].def = v
		cur[p] = v
	}
	return c13GraphString(g), cur
}

func (s *c13Server) unique() int { s.next++; return s.next - 1 }

// ---- sequential HTTP line ------------------------------------------------------------------------------

func c13HTTPSeq(s *c13Server) {
	c := s.c
	gstr, cur := s.snapshot()
	if c13HTTPDown() {
		return
	}
	b := s.b
	sp := s.seqProds // the ordinary producers and `rows` (never `broken`: the model has no failing artifacts)
	K := 4 + c.Rng.Intn(21)
	var queue []c13Call
	var calls, resps []string
	afterRejected := func(p int) {
		queue = append(queue, c13Call{kind: 'd', p: p})
		for _, pi := range c.Rng.Perm(len(sp)) {
			if s.rel[sp[pi]][p] > 0 {
				queue = append(queue, c13Call{kind: 'a', p: sp[pi]})
			}
		}
	}
	if c.Rng.Intn(4) == 0 {
		p := b.pars[c.Rng.Intn(len(b.pars))]
		queue = append(queue, c13Call{kind: 'b', p: p, v: c.Rng.Intn(1000)})
		afterRejected(p)
	}
	lastRead := map[int]bool{}
	updated := map[int]bool{} // producers not read since the last update
	for j := 0; j < K; j++ {
		var k c13Call
		if len(queue) > 0 {
			k, queue = queue[0], queue[1:]
		} else {
			switch r := c.Rng.Intn(100); {
			case r < 35:
				k.kind, k.p = 'u', b.pars[c.Rng.Intn(len(b.pars))]
				switch q := c.Rng.Intn(100); {
				case q < 6:
					k.kind, k.v = 'b', c.Rng.Intn(1000) // a message that does not decode -> 500
					if c.Rng.Intn(2) == 0 {
						afterRejected(k.p)
					}
				case q < 20:
					k.v = cur[k.p]
					c.Note("http.seq.update-with-the-current-value")
				case q < 38:
					k.v = c.Rng.Intn(5)
				default:
					k.v = s.unique()
				}
				if k.kind == 'u' && c.Rng.Intn(3) == 0 {
					for _, pi := range c.Rng.Perm(len(sp)) {
						queue = append(queue, c13Call{kind: 'a', p: sp[pi]})
					}
					queue = append(queue, c13Call{kind: 'a', p: sp[c.Rng.Intn(len(sp))]})
				}
			case r < 47:
				k.kind, k.p = 'd', b.pars[c.Rng.Intn(len(b.pars))]
			case r < 92:
				k.kind, k.p = 'a', sp[c.Rng.Intn(len(sp))]
			case r < 94:
				k.kind, k.p, k.v = 'u', sp[c.Rng.Intn(len(sp))], s.unique() // not a parameter
			case r < 96:
				k.kind, k.p = 'd', sp[c.Rng.Intn(len(sp))]
			case r < 98:
				k.kind, k.p, k.v = 'a', c13Unknown, c.Rng.Intn(1000)
			case r < 99:
				k.kind, k.p, k.v = 'u', c13Unknown, s.unique()
			default:
				k.kind, k.p = 'd', c13Unknown
			}
		}
		resp, status := s.do(k)
		if status == -1 {
			return // environment failure: the line in progress is dropped
		}
		if status != 200 && status != 0 {
			c.Note("http.status=" + itoa(status))
		}
		if k.kind == 'b' {
			c.Note("http.seq.update-rejected")
		}
		switch {
		case k.p == c13Unknown:
			c.Note("http.seq.unknown-" + string(k.kind))
		case k.kind == 'u' && resp == "ok":
			cur[k.p] = k.v
			for _, p := range sp {
				updated[p] = true
			}
		case k.kind == 'a':
			switch {
			case lastRead[k.p] && !updated[k.p]:
				c.Note("http.seq.download-repeated-with-no-update-between")
			case updated[k.p]:
				c.Note("http.seq.download-after-an-update")
			}
			lastRead[k.p], updated[k.p] = true, false
		}
		calls = append(calls, k.String())
		resps = append(resps, resp)
	}
	c.Note("http.seq-lines")
	c.Emit("c13.http.seq", gstr+" "+itoa(K)+" "+strings.Join(calls, " "), strings.Join(resps, " "))
}

// ---- recorded histories ------------------------------------------------------------------------------------

type c13HTTPHist struct {
	s    *c13Server
	ctr  atomic.Int64
	mu   sync.Mutex
	recs []c13Rec
	stat []int
}

// call: tInv immediately before the request is sent, tResp immediately after the body has been read
func (h *c13HTTPHist) call(tid int, k c13Call) string { return h.callc(h.s.client, tid, k) }

func (h *c13HTTPHist) callc(cl *http.Client, tid int, k c13Call) string {
	tInv := h.ctr.Add(1)
	resp, status := h.s.doc(cl, k)
	tResp := h.ctr.Add(1)
	h.mu.Lock()
	h.recs = append(h.recs, c13Rec{tInv: tInv, tResp: tResp, tid: tid, call: k, resp: resp})
	if status != 200 && status > 0 {
		h.stat = append(h.stat, status)
	}
	h.mu.Unlock()
	return resp
}

func (h *c13HTTPHist) async(tid int, k c13Call) chan string {
	done := make(chan string, 1)
	go func() { done <- h.call(tid, k) }()
	return done
}

func (h *c13HTTPHist) emit(gstr string) {
	c := h.s.c
	if c13HTTPDown() {
		return // environment failure during this history: dropped as a whole
	}
	ops := append([]c13Rec{}, h.recs...)
	sort.Slice(ops, func(i, j int) bool { return ops[i].tInv < ops[j].tInv })
	type ev struct {
		t   int64
		txt string
	}
	var evs []ev
	for id, o := range ops {
		evs = append(evs, ev{o.tInv, "i " + itoa(id) + " " + itoa(o.tid) + " " + o.call.String()})
		evs = append(evs, ev{o.tResp, "r " + itoa(id) + " " + o.resp})
	}
	sort.Slice(evs, func(i, j int) bool { return evs[i].t < evs[j].t })
	parts := make([]string, len(evs))
	for i, e := range evs {
		parts[i] = e.txt
	}
	for _, st := range h.stat {
		c.Note("http.status=" + itoa(st))
	}
	c.Emit("c13.holds.linearizable", gstr+" "+itoa(len(parts))+" "+strings.Join(parts, " "), "true")
}

// blocked starts `n` downloads that are to be held inside Write; it returns when all of them are inside
// (or have completed without ever calling Write — a response served from somewhere else).
func (h *c13HTTPHist) blocked(tid0 int, prods []int) (done []chan string, held int) {
	g := h.s.gate
	g.armed.Store(int32(len(prods)))
	for i, p := range prods {
		done = append(done, h.async(tid0+i, c13Call{kind: 'a', p: p}))
	}
	finished := 0
	for held+finished < len(prods) {
		// a download that returns without entering Write is seen on its done channel; one that does
		// neither ends with its client timeout (60 s), which do() classifies (deadlock vs environment)
		progressed := false
		select {
		case <-g.entered:
			held++
			progressed = true
		default:
		}
		if progressed {
			continue
		}
		finished = 0
		for _, d := range done {
			if len(d) == 1 {
				finished++
			}
		}
		if held+finished < len(prods) {
			time.Sleep(200 * time.Microsecond)
		}
	}
	g.armed.Store(0)
	if held < len(prods) {
		h.s.c.Note("http.schedule.download-completed-without-calling-Write")
	}
	return done, held
}

func (h *c13HTTPHist) releaseAll(done []chan string, held int) {
	for i := 0; i < held; i++ {
		h.s.gate.release <- struct{}{}
	}
	for _, d := range done {
		<-d // completes at the latest with the client timeout
	}
}

// pick a producer and a parameter it depends on / does not depend on
func (s *c13Server) dependsOn(p int, want bool) (int, bool) {
	var cand []int
	for _, q := range s.b.pars {
		if (s.rel[p][q] > 0) == want {
			cand = append(cand, q)
		}
	}
	if len(cand) == 0 {
		return 0, false
	}
	return cand[s.c.Rng.Intn(len(cand))], true
}

// S1: U0; download of P held in Write; update of a parameter P depends on completes; release; downloads of P
// invoked after the update's response must show the new state; another update, another download.
func (h *c13HTTPHist) s1(p int) {
	s := h.s
	q, _ := s.dependsOn(p, true)
	h.call(1, c13Call{kind: 'u', p: q, v: s.unique()}) // the state moves before the held download (no response of an earlier round is current)
	done, held := h.blocked(0, []int{p})
	h.call(1, c13Call{kind: 'u', p: q, v: s.unique()})
	h.releaseAll(done, held)
	h.call(2, c13Call{kind: 'a', p: p})
	h.call(3, c13Call{kind: 'a', p: s.prods[s.c.Rng.Intn(len(s.prods))]})
	h.call(3, c13Call{kind: 'a', p: p})
	q2, _ := s.dependsOn(p, true)
	h.call(1, c13Call{kind: 'u', p: q2, v: s.unique()})
	h.call(2, c13Call{kind: 'a', p: p})
}

// S2: two downloads held in Write at once while two updates complete
func (h *c13HTTPHist) s2(p, p2 int) {
	s := h.s
	q, _ := s.dependsOn(p, true)
	q2, _ := s.dependsOn(p2, true)
	h.call(2, c13Call{kind: 'u', p: q, v: s.unique()})
	done, held := h.blocked(0, []int{p, p2})
	h.call(2, c13Call{kind: 'u', p: q, v: s.unique()})
	h.call(3, c13Call{kind: 'u', p: q2, v: s.unique()})
	h.releaseAll(done, held)
	h.call(4, c13Call{kind: 'a', p: p})
	h.call(5, c13Call{kind: 'a', p: p2})
	h.call(4, c13Call{kind: 'a', p: p})
}

// S3: the held download is of ANOTHER producer (p2) sharing nodes with p; the update is of a parameter p2
// depends on (both, if there is one); afterwards both are downloaded
func (h *c13HTTPHist) s3(p, p2 int) {
	s := h.s
	var both []int
	for _, q := range s.b.pars {
		if s.rel[p][q] > 0 && s.rel[p2][q] > 0 {
			both = append(both, q)
		}
	}
	q, _ := s.dependsOn(p2, true)
	if len(both) > 0 {
		q = both[s.c.Rng.Intn(len(both))]
		s.c.Note("http.schedule.S3-updated-parameter-feeds-both-producers")
	}
	h.call(1, c13Call{kind: 'u', p: q, v: s.unique()})
	done, held := h.blocked(0, []int{p2})
	h.call(1, c13Call{kind: 'u', p: q, v: s.unique()})
	h.releaseAll(done, held)
	h.call(2, c13Call{kind: 'a', p: p})
	h.call(3, c13Call{kind: 'a', p: p2})
	h.call(2, c13Call{kind: 'a', p: p2})
}

// S4: during the window a parameter the producer does NOT depend on is updated: the value does not change,
// the history must be linearizable whatever the server does with the response
func (h *c13HTTPHist) s4(p, q int) {
	s := h.s
	qd, _ := s.dependsOn(p, true)
	h.call(1, c13Call{kind: 'u', p: qd, v: s.unique()})
	done, held := h.blocked(0, []int{p})
	h.call(1, c13Call{kind: 'u', p: q, v: s.unique()})
	h.releaseAll(done, held)
	h.call(2, c13Call{kind: 'a', p: p})
	h.call(3, c13Call{kind: 'a', p: p})
	h.call(3, c13Call{kind: 'd', p: q})
}

func c13HTTPSchedules(s *c13Server) {
	c := s.c
	prods := s.prods
	pick2 := func() (int, int) {
		i := c.Rng.Intn(len(prods))
		j := (i + 1 + c.Rng.Intn(len(prods)-1)) % len(prods)
		return prods[i], prods[j]
	}
	run := func(name string, f func(h *c13HTTPHist)) {
		gstr, _ := s.snapshot()
		if c13HTTPDown() {
			return
		}
		h := &c13HTTPHist{s: s}
		f(h)
		if c13HTTPDown() {
			return
		}
		c.Note("http.schedule." + name)
		h.emit(gstr)
	}
	run("S1", func(h *c13HTTPHist) { h.s1(prods[c.Rng.Intn(len(prods))]) })
	run("S2", func(h *c13HTTPHist) { p, p2 := pick2(); h.s2(p, p2) })
	run("S3", func(h *c13HTTPHist) { p, p2 := pick2(); h.s3(p, p2) })
	// S4 needs a producer that does not depend on some parameter
	var s4p, s4q = -1, -1
	for _, pi := range c.Rng.Perm(len(prods)) {
		if q, ok := s.dependsOn(prods[pi], false); ok {
			s4p, s4q = prods[pi], q
			break
		}
	}
	if s4p >= 0 {
		run("S4", func(h *c13HTTPHist) { h.s4(s4p, s4q) })
	} else {
		c.Note("http.schedule.S4-skipped-every-producer-depends-on-every-parameter")
	}
	run("S1x3", func(h *c13HTTPHist) {
		p := prods[c.Rng.Intn(len(prods))]
		for r := 0; r < 3; r++ {
			h.s1(p)
		}
	})
	// S7: three-party overlap — a second download of the same producer sent while the first is still
	// being serialized, after an update completed in between
	run("S7", func(h *c13HTTPHist) { p, _ := pick2(); h.s7(p, []int{p}, true) })
	run("S7b", func(h *c13HTTPHist) { p, _ := pick2(); h.s7(p, []int{p, p}, true) })
	run("S7c", func(h *c13HTTPHist) { p, p2 := pick2(); h.s7(p, []int{p2, p}, true) })
	if s4p >= 0 {
		run("S7d", func(h *c13HTTPHist) { h.s7(s4p, []int{s4p}, false) })
	}
	run("S7", func(h *c13HTTPHist) { p, _ := pick2(); h.s7(p, []int{p}, true) })
}

// s7: u q v0 | download R1 of p held in Write (past Artifact()) | POST u q v1 completes | NOW, R1 still
// held, the downloads `second` (of p itself, or of other producers) are sent by other clients: invoked
// after the POST's response, they must show v1 (the gate was armed for ONE passage: they are not held).
// They are given 300 ms to answer; then R1 is released and everything is collected; R3 = one more download
// of p.  The pattern is run twice (second time with another parameter p depends on, if there is one).
// related=false: the POST updates a parameter p does NOT depend on (control: the old value is right).
func (h *c13HTTPHist) s7(p int, second []int, related bool) {
	s := h.s
	for rep := 0; rep < 2; rep++ {
		q, _ := s.dependsOn(p, true)
		h.call(1, c13Call{kind: 'u', p: q, v: s.unique()})
		r1, held := h.blocked(0, []int{p})
		qu := q
		if !related {
			qu, _ = s.dependsOn(p, false)
		}
		h.call(1, c13Call{kind: 'u', p: qu, v: s.unique()})
		var r2 []chan string
		for i, p2 := range second {
			r2 = append(r2, h.async(2+i, c13Call{kind: 'a', p: p2}))
		}
		// bounded wait for the second downloads while R1 is still held
		answered := 0
		timeout := time.After(300 * time.Millisecond)
	wait:
		for answered < len(r2) {
			select {
			case <-timeout:
				break wait
			default:
			}
			answered = 0
			for _, d := range r2 {
				answered += len(d)
			}
			if answered < len(r2) {
				time.Sleep(200 * time.Microsecond)
			}
		}
		if held > 0 {
			if answered == len(r2) {
				s.c.Note("http.S7.R2-answered-before-release")
			} else {
				s.c.Note("http.S7.R2-waited-for-R1")
			}
		}
		h.releaseAll(r1, held)
		for _, d := range r2 {
			<-d
		}
		h.call(5, c13Call{kind: 'a', p: p})
	}
}

// random concurrent HTTP history: 2..4 clients, 2..8 requests each, nothing blocked
func c13HTTPRandom(s *c13Server) {
	c := s.c
	gstr, _ := s.snapshot()
	if c13HTTPDown() {
		return
	}
	clients := 2 + c.Rng.Intn(3)
	plan := make([][]c13Call, clients)
	for t := range plan {
		for j := 0; j < 2+c.Rng.Intn(7); j++ {
			var k c13Call
			switch r := c.Rng.Intn(100); {
			case r < 40:
				k = c13Call{kind: 'u', p: s.b.pars[c.Rng.Intn(len(s.b.pars))], v: s.unique()}
			case r < 55:
				k = c13Call{kind: 'd', p: s.b.pars[c.Rng.Intn(len(s.b.pars))]}
			case r < 97:
				k = c13Call{kind: 'a', p: s.prods[c.Rng.Intn(len(s.prods))]}
			default:
				k = c13Call{kind: 'd', p: s.prods[c.Rng.Intn(len(s.prods))]} // not a parameter -> 500
			}
			plan[t] = append(plan[t], k)
		}
	}
	h := &c13HTTPHist{s: s}
	start := make(chan struct{})
	var wg sync.WaitGroup
	for t := range plan {
		wg.Add(1)
		go func(t int) {
			defer wg.Done()
			<-start
			for _, k := range plan[t] {
				h.call(t, k)
			}
		}(t)
	}
	close(start)
	wg.Wait()
	if c13HTTPDown() {
		return
	}
	c.Note("http.random-histories")
	c.Note("http.random-clients=" + itoa(clients))
	h.emit(gstr)
}

// c13HTTP: 1 + N/300 servers; per server 3 sequential lines, the schedules S1 S2 S3 S4 S1x3, 2 random histories
// ---- S5: two updates queued behind a held lock, then the loser is sent again ------------------------------
//
// Round (13 recorded requests): u q v0 (P outdated) | arm the PROCESS gate, download A of P enters
// Process() and blocks there HOLDING producerLock | client X POSTs v1 to q and queues for the lock; client
// Y POSTs v2 to q around the moment A is released (offset -40..+160 us drawn per round) | A, X, Y answered | d q -> cur | POST the OTHER value | d q and a P
// must show it | POST it once more (same as current: must stay) ; d q | two clients POST the third value
// (the one that is not current) concurrently ; d q.  Which of X, Y wins is not controlled: both orders are
// linearizable.  Three rounds per history, histories until the time budget is used up.
func (h *c13HTTPHist) s5round(p, q int) {
	s := h.s
	h.call(9, c13Call{kind: 'u', p: q, v: s.unique()})
	s.pgate.armed.Store(1)
	a := h.async(0, c13Call{kind: 'a', p: p})
	held := false
	for !held && len(a) == 0 {
		select {
		case <-s.pgate.entered:
			held = true
		default:
			time.Sleep(100 * time.Microsecond)
		}
	}
	s.pgate.armed.Store(0)
	if !held {
		select {
		case <-s.pgate.entered: // entered just before it completed? cannot be: it blocks; be safe
			held = true
		default:
			s.c.Note("http.S5.download-did-not-block-in-Process")
		}
	}
	// X is sent first and parks behind the held lock.  Y is sent so that it reaches the handler around the
	// moment the lock is released: then the parked X is being woken while Y arrives — either may get the
	// lock first (a mutex does not hand over in arrival order), whatever the order in which the two
	// handlers took the messages.  The offset between launching Y and releasing A is drawn per round.
	v1, v2 := s.unique(), s.unique()
	spin := func(d time.Duration) {
		for t0 := time.Now(); time.Since(t0) < d; {
		}
	}
	x := h.async(1, c13Call{kind: 'u', p: q, v: v1})
	time.Sleep(time.Duration(200+s.c.Rng.Intn(300)) * time.Microsecond)
	off := time.Duration(s.c.Rng.Intn(200)-40) * time.Microsecond
	var y chan string
	if off >= 0 {
		y = h.async(2, c13Call{kind: 'u', p: q, v: v2})
		spin(off)
		if held {
			s.pgate.release <- struct{}{}
		}
	} else {
		if held {
			s.pgate.release <- struct{}{}
		}
		spin(-off)
		y = h.async(2, c13Call{kind: 'u', p: q, v: v2})
	}
	<-a
	<-x
	<-y
	cur := h.call(3, c13Call{kind: 'd', p: q})
	other, third := v1, v2
	if cur == "v "+itoa(v1) {
		other, third = v2, v1
	}
	h.call(5, c13Call{kind: 'u', p: q, v: other})
	h.call(4, c13Call{kind: 'd', p: q})
	h.call(4, c13Call{kind: 'a', p: p})
	h.call(5, c13Call{kind: 'u', p: q, v: other}) // the value it already has
	h.call(4, c13Call{kind: 'd', p: q})
	z1 := h.async(6, c13Call{kind: 'u', p: q, v: third})
	z2 := h.async(7, c13Call{kind: 'u', p: q, v: third})
	<-z1
	<-z2
	h.call(4, c13Call{kind: 'd', p: q})
}

func c13HTTPS5(s *c13Server, budget time.Duration) {
	c := s.c
	deadline := time.Now().Add(budget)
	for time.Now().Before(deadline) && !c13HTTPDown() {
		gstr, _ := s.snapshot()
		if c13HTTPDown() {
			return
		}
		h := &c13HTTPHist{s: s}
		p := s.prods[c.Rng.Intn(len(s.prods))]
		q, _ := s.dependsOn(p, true)
		for r := 0; r < 3; r++ {
			h.s5round(p, q)
		}
		if c13HTTPDown() {
			return
		}
		c.Note("http.S5.histories")
		c.notes["http.S5.rounds"] += 3
		h.emit(gstr)
	}
}

// small concurrent histories with REPEATED values (<= 12 requests): a few clients POST values from a set
// of 2..3 to one parameter at the same time; at the quiescent point one client POSTs a value of the set
// and reads it back.  Twice.
func c13HTTPRepeated(s *c13Server) {
	c := s.c
	gstr, _ := s.snapshot()
	if c13HTTPDown() {
		return
	}
	h := &c13HTTPHist{s: s}
	q := s.b.pars[c.Rng.Intn(len(s.b.pars))]
	set := []int{s.unique(), s.unique()}
	if c.Rng.Intn(2) == 0 {
		set = append(set, s.unique())
	}
	phase := func(clients, maxPosts int) {
		plan := make([][]int, clients)
		for t := range plan {
			for j := 0; j < 1+c.Rng.Intn(maxPosts); j++ {
				plan[t] = append(plan[t], set[c.Rng.Intn(len(set))])
			}
		}
		start := make(chan struct{})
		var wg sync.WaitGroup
		for t := range plan {
			wg.Add(1)
			go func(t int) {
				defer wg.Done()
				<-start
				for _, v := range plan[t] {
					h.call(t, c13Call{kind: 'u', p: q, v: v})
				}
			}(t)
		}
		close(start)
		wg.Wait()
		// quiescent: a value of the set is posted and must be what is read next
		h.call(8, c13Call{kind: 'u', p: q, v: set[c.Rng.Intn(len(set))]})
		h.call(8, c13Call{kind: 'd', p: q})
	}
	phase(2+c.Rng.Intn(2), 2) // <= 6 + 2
	phase(2, 1)               // <= 2 + 2
	if c13HTTPDown() {
		return
	}
	c.Note("http.repeated-value-histories")
	h.emit(gstr)
}

// ---- S6: failing / abandoned downloads, overlapping downloads of the many-row producer -----------------
//
// Window (<= 38 recorded requests, one history): 4..6 clients (own connections) download `rows` 5 times
// each, one client POSTs 8 unique values to a parameter `rows` depends on (~1 ms apart); meanwhile a
// stimulus client keeps downloading `broken` (500) and starting downloads of `rows` that it abandons after
// 512 bytes.  The stimulus requests are NOT events of the history (the model has no failing artifacts).
// Windows start at a quiescent point (parameter values read), until the time budget is used up.
func c13HTTPS6(s *c13Server, budget time.Duration) {
	c := s.c
	deadline := time.Now().Add(budget)
	q, _ := s.dependsOn(s.rows, true)
	newClient := func() *http.Client {
		return &http.Client{Timeout: 60 * time.Second, Transport: &http.Transport{MaxIdleConnsPerHost: 2, IdleConnTimeout: 5 * time.Second}}
	}
	var dl []*http.Client
	for i := 0; i < 6; i++ {
		dl = append(dl, newClient())
	}
	stim := newClient()
	defer func() {
		for _, cl := range append(dl, stim) {
			cl.CloseIdleConnections()
		}
	}()
	var broken500, abandoned atomic.Int64
	for time.Now().Before(deadline) && !c13HTTPDown() {
		gstr, _ := s.snapshot()
		if c13HTTPDown() {
			return
		}
		h := &c13HTTPHist{s: s}
		stop := make(chan struct{})
		var sg sync.WaitGroup
		sg.Add(1)
		go func() {
			defer sg.Done()
			for {
				select {
				case <-stop:
					return
				default:
				}
				if c13HTTPDown() {
					return
				}
				// a download that fails in Write
				if resp, err := stim.Get(s.base + "/producer/value/broken"); err == nil {
					io.Copy(io.Discard, resp.Body)
					resp.Body.Close()
					if resp.StatusCode == 500 {
						broken500.Add(1)
					}
				}
				// a download the client walks away from
				ctx, cancel := context.WithCancel(context.Background())
				if req, err := http.NewRequestWithContext(ctx, http.MethodGet, s.base+"/producer/value/rows", nil); err == nil {
					if resp, err := stim.Do(req); err == nil {
						io.ReadFull(resp.Body, make([]byte, 512))
						cancel()
						resp.Body.Close()
						abandoned.Add(1)
					}
				}
				cancel()
				time.Sleep(time.Millisecond)
			}
		}()
		n := 4 + c.Rng.Intn(3)
		vals := make([]int, 8)
		for i := range vals {
			vals[i] = s.unique()
		}
		start := make(chan struct{})
		var wg sync.WaitGroup
		for t := 0; t < n; t++ {
			wg.Add(1)
			go func(t int) {
				defer wg.Done()
				<-start
				for j := 0; j < 5; j++ {
					h.callc(dl[t], t, c13Call{kind: 'a', p: s.rows})
				}
			}(t)
		}
		wg.Add(1)
		go func() {
			defer wg.Done()
			<-start
			for _, v := range vals {
				h.call(9, c13Call{kind: 'u', p: q, v: v})
				time.Sleep(time.Millisecond)
			}
		}()
		close(start)
		wg.Wait()
		close(stop)
		sg.Wait()
		if c13HTTPDown() {
			return
		}
		c.Note("http.S6.windows")
		c.notes["http.S6.rows-downloads"] += 5 * n
		h.emit(gstr)
	}
	c.notes["http.S6.broken-500"] += int(broken500.Load())
	c.notes["http.S6.abandoned"] += int(abandoned.Load())
}

// ---- S8: image producers downloaded concurrently -----------------------------------------------------
//
// Window (<= 38 recorded requests): 4..6 clients (own connections) download `img` / `img2` 5 times each,
// one client POSTs 8 unique values, alternately to a parameter img and one img2 depends on.
func c13HTTPS8(s *c13Server, budget time.Duration) {
	c := s.c
	deadline := time.Now().Add(budget)
	q0, _ := s.dependsOn(s.imgs[0], true)
	q1, _ := s.dependsOn(s.imgs[1], true)
	var dl []*http.Client
	for i := 0; i < 6; i++ {
		dl = append(dl, &http.Client{Timeout: 60 * time.Second, Transport: &http.Transport{MaxIdleConnsPerHost: 2, IdleConnTimeout: 5 * time.Second}})
	}
	defer func() {
		for _, cl := range dl {
			cl.CloseIdleConnections()
		}
	}()
	for time.Now().Before(deadline) && !c13HTTPDown() {
		gstr, _ := s.snapshot()
		if c13HTTPDown() {
			return
		}
		h := &c13HTTPHist{s: s}
		n := 4 + c.Rng.Intn(3)
		vals := make([]int, 8)
		for i := range vals {
			vals[i] = s.unique()
		}
		start := make(chan struct{})
		var wg sync.WaitGroup
		for t := 0; t < n; t++ {
			wg.Add(1)
			go func(t int) {
				defer wg.Done()
				<-start
				for j := 0; j < 5; j++ {
					h.callc(dl[t], t, c13Call{kind: 'a', p: s.imgs[(t+j)%2]})
				}
			}(t)
		}
		wg.Add(1)
		go func() {
			defer wg.Done()
			<-start
			for i, v := range vals {
				q := q0
				if i%2 == 1 {
					q = q1
				}
				h.call(9, c13Call{kind: 'u', p: q, v: v})
				time.Sleep(time.Millisecond)
			}
		}()
		close(start)
		wg.Wait()
		if c13HTTPDown() {
			return
		}
		c.Note("http.S8.windows")
		c.notes["http.S8.image-downloads"] += 5 * n
		h.emit(gstr)
	}
}

// time budgets of the time-bounded schedules, whole run (shared evenly by the servers)
func c13HTTPBudgets(c *Ctx) (s5, s6, s8 time.Duration) {
	if c.Tier == "thorough" {
		return 20 * time.Second, 30 * time.Second, 20 * time.Second
	}
	return 2 * time.Second, 3 * time.Second, 2 * time.Second
}

func c13HTTP(c *Ctx) {
	servers := 1 + c.N/300
	b5, b6, b8 := c13HTTPBudgets(c)
	b5, b6, b8 = b5/time.Duration(servers), b6/time.Duration(servers), b8/time.Duration(servers)
	s8 := func(s *c13Server) { c13HTTPS8(s, b8) }
	s5 := func(s *c13Server) { c13HTTPS5(s, b5) }
	s6 := func(s *c13Server) { c13HTTPS6(s, b6) }
	rep := func(s *c13Server) {
		for i := 0; i < 5; i++ {
			c13HTTPRepeated(s)
		}
	}
	malformed200, malformedHead, badImage := 0, 0, 0
	for i := 0; i < servers && !c13HTTPDown(); i++ {
		s := c13StartServer(c)
		if s == nil {
			break
		}
		for _, step := range []func(*c13Server){c13HTTPSeq, c13HTTPSchedules, c13HTTPSeq, c13HTTPRandom, s5, c13HTTPSeq, c13HTTPRandom, rep, s8, s6} {
			if !c13HTTPDown() {
				step(s)
			}
		}
		s.client.CloseIdleConnections()
		malformed200 += int(s.malformed200.Load())
		malformedHead += int(s.malformedHead.Load())
		badImage += int(s.badImage200.Load())
		if n := int(s.dropped.Load()); n > 0 {
			c.notes["http.connection-dropped-by-server"] += n
		}
	}
	// both must be 0 on a correct server
	c.notes["http.rows.malformed-200"] += malformed200
	c.notes["http.rows.malformed-response-head"] += malformedHead
	c.notes["http.image.bad-200"] += badImage
	c.Note("http.note.requests-to-broken-and-abandoned-downloads-are-stimuli-not-events")
	if msg := c13HTTPEnv.Load(); msg != nil {
		kind := (*msg)[:strings.Index(*msg, ":")]
		c.Note("http.unavailable")
		c.Note("http.unavailable." + kind)
		fmt.Fprintf(os.Stderr, "c13 http: loopback edit server unavailable (%s); the HTTP families stop here after %d server(s), the stream goes on (environment, not a finding)\n", *msg, c.notes["http.servers"])
		return
	}
	c.notes["http.available"] = c.notes["http.servers"]
}
