// Stream "c11": the lazily evaluated, version-stamped node graph of /repo/nodes
// (nodes.Struct, nodes.ValueNode, generator/parameter.Value) against the model
// lean/PolyVerif/Model/Nodes.lean.  One request line = one whole case: the description of the
// initial graph plus the full operation history; the answer is the concatenation of the
// per-operation observation blocks (see lean/Driver/C11.lean for the protocol).  Owner: C11.
package main

import (
	"encoding/json"
	"errors"
	"flag"
	"fmt"
	"os"
	"reflect"
	"sort"
	"strconv"
	"strings"

	"github.com/EliCDavis/jbtf"
	"github.com/EliCDavis/polyform/generator/parameter"
	"github.com/EliCDavis/polyform/nodes"
	"github.com/EliCDavis/polyform/refutil"
)

func init() { streams["c11"] = runC11 }

const c11M = 2147483647

// ---- processors ------------------------------------------------------------------------------

// execution log shared by all processors of one graph: ids in order of completed Process() calls
// errs counts the Process() calls that returned an error since the counter was last collected;
// lastErr[id] = the last Process() of node id returned an error
type c11Rec struct {
	log     []int
	errs    int
	lastErr map[int]bool
}

var errC11Process = errors.New("c11: processor failed")

type c11In = nodes.NodeOutput[int]

// c11Process is the body of every Process(): reads ALL inputs in Dependencies() order (scalar
// ports in name order, nil ports are not read; then the arrays in name order, by index) and
// returns mix(salt, shape, values).
func c11Process(id, salt int, rec *c11Rec, sc []c11In, ar [][]c11In) (int, error) {
	h := int64(salt)
	for _, p := range sc {
		if p == nil {
			h = (h*31 + 7) % c11M
		} else {
			h = (h*31 + 11 + int64(p.Value())) % c11M
		}
	}
	for _, a := range ar {
		h = (h*37 + 5 + int64(len(a))) % c11M
		for _, e := range a {
			h = (h*31 + 13 + int64(e.Value())) % c11M
		}
	}
	rec.log = append(rec.log, id)
	// "failing" processors (odd salt): the value is returned NEXT TO an error whenever it is
	// divisible by 3.  process() stores the value, bumps the version and nothing reads sn.err, so
	// the lines are the same as for a processor that never fails.
	if rec.lastErr == nil {
		rec.lastErr = map[int]bool{}
	}
	if salt%2 == 1 && h%3 == 0 {
		rec.errs++
		rec.lastErr[id] = true
		return int(h), errC11Process
	}
	rec.lastErr[id] = false
	return int(h), nil
}

// Processor structs T<scalars><arrays>.  Exported interface fields A..D are the scalar ports,
// exported slice fields Xs, Ys the array ports (sorted field name = port index); the field
// declaration order is scrambled on purpose in several of them.  The unexported bookkeeping
// fields are of kinds refutil skips (int, pointer).
type c11T00 struct {
	id, salt int
	rec      *c11Rec
}
type c11T10 struct {
	A        c11In
	id, salt int
	rec      *c11Rec
}
type c11T20 struct {
	id, salt int
	B, A     c11In
	rec      *c11Rec
}
type c11T30 struct {
	C        c11In
	rec      *c11Rec
	A, B     c11In
	id, salt int
}
type c11T40 struct {
	D, B     c11In
	id, salt int
	rec      *c11Rec
	C, A     c11In
}
type c11T01 struct {
	id, salt int
	rec      *c11Rec
	Xs       []c11In
}
type c11T11 struct {
	Xs       []c11In
	A        c11In
	id, salt int
	rec      *c11Rec
}
type c11T21 struct {
	A        c11In
	Xs       []c11In
	id, salt int
	B        c11In
	rec      *c11Rec
}
type c11T31 struct {
	rec      *c11Rec
	B, C     c11In
	Xs       []c11In
	A        c11In
	id, salt int
}
type c11T41 struct {
	A, B, C, D c11In
	Xs         []c11In
	id, salt   int
	rec        *c11Rec
}
type c11T02 struct {
	Ys, Xs   []c11In
	id, salt int
	rec      *c11Rec
}
type c11T12 struct {
	Xs       []c11In
	id, salt int
	A        c11In
	Ys       []c11In
	rec      *c11Rec
}
type c11T22 struct {
	Ys       []c11In
	B        c11In
	Xs       []c11In
	A        c11In
	id, salt int
	rec      *c11Rec
}
type c11T32 struct {
	id, salt int
	rec      *c11Rec
	Ys       []c11In
	C, A, B  c11In
	Xs       []c11In
}
type c11T42 struct {
	D, C, B, A c11In
	Ys, Xs     []c11In
	id, salt   int
	rec        *c11Rec
}

func (t c11T00) Process() (int, error) { return c11Process(t.id, t.salt, t.rec, nil, nil) }
func (t c11T10) Process() (int, error) {
	return c11Process(t.id, t.salt, t.rec, []c11In{t.A}, nil)
}
func (t c11T20) Process() (int, error) {
	return c11Process(t.id, t.salt, t.rec, []c11In{t.A, t.B}, nil)
}
func (t c11T30) Process() (int, error) {
	return c11Process(t.id, t.salt, t.rec, []c11In{t.A, t.B, t.C}, nil)
}
func (t c11T40) Process() (int, error) {
	return c11Process(t.id, t.salt, t.rec, []c11In{t.A, t.B, t.C, t.D}, nil)
}
func (t c11T01) Process() (int, error) {
	return c11Process(t.id, t.salt, t.rec, nil, [][]c11In{t.Xs})
}
func (t c11T11) Process() (int, error) {
	return c11Process(t.id, t.salt, t.rec, []c11In{t.A}, [][]c11In{t.Xs})
}
func (t c11T21) Process() (int, error) {
	return c11Process(t.id, t.salt, t.rec, []c11In{t.A, t.B}, [][]c11In{t.Xs})
}
func (t c11T31) Process() (int, error) {
	return c11Process(t.id, t.salt, t.rec, []c11In{t.A, t.B, t.C}, [][]c11In{t.Xs})
}
func (t c11T41) Process() (int, error) {
	return c11Process(t.id, t.salt, t.rec, []c11In{t.A, t.B, t.C, t.D}, [][]c11In{t.Xs})
}
func (t c11T02) Process() (int, error) {
	return c11Process(t.id, t.salt, t.rec, nil, [][]c11In{t.Xs, t.Ys})
}
func (t c11T12) Process() (int, error) {
	return c11Process(t.id, t.salt, t.rec, []c11In{t.A}, [][]c11In{t.Xs, t.Ys})
}
func (t c11T22) Process() (int, error) {
	return c11Process(t.id, t.salt, t.rec, []c11In{t.A, t.B}, [][]c11In{t.Xs, t.Ys})
}
func (t c11T32) Process() (int, error) {
	return c11Process(t.id, t.salt, t.rec, []c11In{t.A, t.B, t.C}, [][]c11In{t.Xs, t.Ys})
}
func (t c11T42) Process() (int, error) {
	return c11Process(t.id, t.salt, t.rec, []c11In{t.A, t.B, t.C, t.D}, [][]c11In{t.Xs, t.Ys})
}

// c11K: a processor that SKIPS an input.  It reads A; only when that value is > 0 does it read B.
// Used only by the c11.skip.* lines (the known finding "a processor that conditionally skips a
// struct-node input re-executes on idle reads"); never part of the ordinary histories.
type c11K struct {
	A, B     c11In
	id, salt int
	rec      *c11Rec
}

func c11MixK(salt, x, y int, read bool) int {
	h := int64(salt)
	h = (h*31 + 11 + int64(x)) % c11M
	if read {
		h = (h*31 + 11 + int64(y)) % c11M
	} else {
		h = (h*31 + 3) % c11M
	}
	return int(h)
}

// c11KValue is what c11K.Process computes, as a function of "read port k" (nil port: ok=false).
// The same function evaluates the processor on the real ports and, in skipSpec, on the harness's
// bookkeeping, so the two skip exactly alike:
//
//	A nil            -> (salt*31+2)%M, nothing is read
//	x := A; x <= 0   -> h=(salt*31+11+x)%M; h=(h*31+3)%M             (B is not read)
//	x > 0, B nil     -> h=(salt*31+11+x)%M; h=(h*31+7)%M
//	x > 0, y := B    -> h=(salt*31+11+x)%M; h=(h*31+11+y)%M          (= c11MixK)
func c11KValue(salt int, wired func(k int) bool, read func(k int) int) int {
	if !wired(0) {
		return int((int64(salt)*31 + 2) % c11M)
	}
	x := read(0)
	if x <= 0 {
		return c11MixK(salt, x, 0, false)
	}
	if !wired(1) {
		h := (int64(salt)*31 + 11 + int64(x)) % c11M
		return int((h*31 + 7) % c11M)
	}
	return c11MixK(salt, x, read(1), true)
}

func c11PortFuncs(ports ...c11In) (func(int) bool, func(int) int) {
	return func(k int) bool { return ports[k] != nil }, func(k int) int { return ports[k].Value() }
}

func (t c11K) Process() (int, error) {
	wired, read := c11PortFuncs(t.A, t.B)
	h := c11KValue(t.salt, wired, read)
	t.rec.log = append(t.rec.log, t.id)
	return h, nil
}

// c11W: screw-like, pulls a LATER dependency first and then decides about an EARLIER one
// (ports A, B, C; pull order B, C, then maybe A):
//
//	B nil                 -> (salt*31+1)%M, nothing is read (although A, C may be wired)
//	b := B                -> h=(salt*31+11+b)%M
//	C wired: c := C       -> h=(h*31+13+c)%M        C nil -> h=(h*31+5)%M
//	A wired and b odd: a := A -> h=(h*31+17+a)%M    otherwise (A not read) -> h=(h*31+3)%M
type c11W struct {
	C, A     c11In
	id, salt int
	B        c11In
	rec      *c11Rec
}

func c11WValue(salt int, wired func(k int) bool, read func(k int) int) int {
	if !wired(1) {
		return int((int64(salt)*31 + 1) % c11M)
	}
	b := read(1)
	h := (int64(salt)*31 + 11 + int64(b)) % c11M
	if wired(2) {
		h = (h*31 + 13 + int64(read(2))) % c11M
	} else {
		h = (h*31 + 5) % c11M
	}
	if wired(0) && b%2 == 1 {
		h = (h*31 + 17 + int64(read(0))) % c11M
	} else {
		h = (h*31 + 3) % c11M
	}
	return int(h)
}

func (t c11W) Process() (int, error) {
	wired, read := c11PortFuncs(t.A, t.B, t.C)
	h := c11WValue(t.salt, wired, read)
	t.rec.log = append(t.rec.log, t.id)
	return h, nil
}

// c11Nil: early return on a nil port before reading the other, wired, ports (token `N`):
//
//	A nil      -> (salt*31+2)%M, nothing is read (although B, C may be wired)
//	a := A     -> h=(salt*31+11+a)%M; then for X in (B, C): nil -> h=(h*31+7)%M, x := X -> h=(h*31+11+x)%M
type c11Nil struct {
	B        c11In
	id, salt int
	rec      *c11Rec
	A, C     c11In
}

func c11NilValue(salt int, wired func(k int) bool, read func(k int) int) int {
	if !wired(0) {
		return int((int64(salt)*31 + 2) % c11M)
	}
	h := (int64(salt)*31 + 11 + int64(read(0))) % c11M
	for k := 1; k <= 2; k++ {
		if wired(k) {
			h = (h*31 + 11 + int64(read(k))) % c11M
		} else {
			h = (h*31 + 7) % c11M
		}
	}
	return int(h)
}

func (t c11Nil) Process() (int, error) {
	wired, read := c11PortFuncs(t.A, t.B, t.C)
	h := c11NilValue(t.salt, wired, read)
	t.rec.log = append(t.rec.log, t.id)
	return h, nil
}

// ---- uniform view of a node of the real graph ------------------------------------------------

type c11Node struct {
	kind   byte // 'P' nodes.ValueNode, 'Q' parameter.Value, 'S' nodes.Struct
	node   nodes.Node
	outs   []c11In                     // handles usable in a Data literal / for reading
	refs   []nodes.NodeOutputReference // handles usable in nodes.Output{NodeOutput: ...} (same values as outs)
	hnames []string                    // how each handle was obtained (parallel to outs / refs)
	// sources (P / Q nodes): which public constructor made it, how often it was updated, and how
	// often consumers were read while it had never been updated
	srcKind                 string
	sets                    int
	consumerReads, farReads int
	cached                  func() int // stored value, read WITHOUT triggering evaluation
	vn                      *nodes.ValueNode[int]
	pv                      *parameter.Value[int]
	// message family: composite parameters ('L' []int, 'T' c11AB, 'M' map[string]int) have no int
	// output; they are read through readFn (= enc(Value())) and fed by apply (= ApplyMessage)
	readFn func() int
	apply  func([]byte) (bool, error)
	comp   any // the *parameter.Value[...] of a composite parameter
	// the harness's own bookkeeping of the current state of the node
	cl   []int          // 'L'
	cab  c11AB          // 'T'
	cm   map[string]int // 'M'
	pval int            // parameters: the (model) value; composite: enc of the value
	salt int
	sc   []int   // scalar ports, -1 = nil
	ar   [][]int // array ports
}

func c11Wrap[G nodes.StructProcesor[int]](data G, useNew bool) *c11Node {
	var s *nodes.Struct[int, G]
	if useNew {
		s = nodes.NewStruct[G, int](data)
	} else {
		s = &nodes.Struct[int, G]{Data: data}
	}
	n := &c11Node{kind: 'S', node: s, srcKind: "Struct",
		cached: func() int {
			return int(reflect.ValueOf(s).Elem().FieldByName("value").Int())
		}}
	n.setHandles(
		[]string{"Out()", "node-pointer", "Outputs()[0]", "hand-built-wrapper", "reflect-call-Out"},
		[]c11In{s.Out(), s, s.Outputs()[0].NodeOutput.(c11In), nodes.StructOutput[int, G]{Struct: s, Name: "Out"},
			refutil.CallFuncValuesOfType(s, "Out")[0].(c11In)})
	return n
}

// every handle is usable both in a Data literal (nodes.NodeOutput[int]) and in nodes.Output{}
func (n *c11Node) setHandles(names []string, outs []c11In) {
	n.hnames, n.outs, n.refs = names, outs, nil
	for _, o := range outs {
		n.refs = append(n.refs, o)
	}
}

// newSource builds a parameter-like node behind the token `P v` (nodes.ValueNode) or `Q v`
// (parameter.Value) through one of the PUBLIC ways the two packages offer, chosen at random
// (fixed: nodes.Value / the plain literal), with every public way to obtain an output handle:
//
//	P: nodes.Value(v) | nodes.FuncValue(func() int { return v }) | &nodes.ValueNode[int]{} (v = 0 only)
//	Q: &parameter.Value[int]{DefaultValue: v} | the same with a CLI config initialised on a FlagSet,
//	   flag given (DefaultValue is another number) | CLI config, flag not given | FromJSON with
//	   currentValue v (defaultValue another number) | &parameter.Value[int]{} (v = 0 only)
func c11NewSource(c *Ctx, tok byte, i, v int, fixed bool) *c11Node {
	r := c.Rng
	if tok == 'P' {
		var vn *nodes.ValueNode[int]
		kind := "Value"
		pick := 0
		if !fixed {
			pick = r.Intn(4)
		}
		switch {
		case !fixed && v == 0 && r.Intn(2) == 0:
			kind, vn = "ZeroValueNodeLiteral", &nodes.ValueNode[int]{}
		case pick >= 2:
			kind, vn = "FuncValue", nodes.FuncValue(func() int { return v })
		default:
			vn = nodes.Value(v)
		}
		n := &c11Node{kind: 'P', node: vn, vn: vn, pval: v, srcKind: kind, cached: func() int { return vn.Value() }}
		n.setHandles(
			[]string{"node-pointer", "Out()", "Outputs()[0]", "hand-built-wrapper", "reflect-call-Out"},
			[]c11In{vn, vn.Out(), vn.Outputs()[0].NodeOutput.(c11In), nodes.ValueNodeOutput[int]{Val: vn},
				refutil.CallFuncValuesOfType(vn, "Out")[0].(c11In)})
		return n
	}
	name := "p" + strconv.Itoa(i)
	var pv *parameter.Value[int]
	kind := "ParameterLiteral"
	pick := 0
	if !fixed {
		pick = r.Intn(8)
	}
	switch {
	case !fixed && v == 0 && r.Intn(5) < 2:
		kind, pv = "ZeroParameterLiteral", &parameter.Value[int]{}
	case pick >= 6:
		// what the graph loader does: FromJSON installs currentValue as the applied value
		kind, pv = "ParameterFromJSON", &parameter.Value[int]{}
		body := fmt.Sprintf("{\"name\":%q,\"description\":\"c11\",\"currentValue\":%d,\"defaultValue\":%d,\"cli\":null}", name, v, v+7)
		if err := pv.FromJSON(jbtf.Decoder{}, []byte(body)); err != nil {
			panic(err)
		}
	case pick >= 4:
		// CLI-configured, flag given: the value comes from the flag, DefaultValue is another number
		kind = "ParameterCLIFlagGiven"
		pv = &parameter.Value[int]{Name: name, DefaultValue: v + 1000, CLI: &parameter.CliConfig[int]{FlagName: name, Usage: "c11"}}
		fs := flag.NewFlagSet("c11", flag.ContinueOnError)
		pv.InitializeForCLI(fs)
		if err := fs.Parse([]string{"-" + name + "=" + strconv.Itoa(v)}); err != nil {
			panic(err)
		}
	case pick >= 2:
		// CLI-configured, flag not given: the flag's default = DefaultValue
		kind = "ParameterCLIFlagNotGiven"
		pv = &parameter.Value[int]{Name: name, DefaultValue: v, CLI: &parameter.CliConfig[int]{FlagName: name, Usage: "c11"}}
		fs := flag.NewFlagSet("c11", flag.ContinueOnError)
		pv.InitializeForCLI(fs)
		if err := fs.Parse(nil); err != nil {
			panic(err)
		}
	default:
		pv = &parameter.Value[int]{Name: name, DefaultValue: v}
	}
	if pv.Value() != v || pv.Version() != 0 {
		panic(fmt.Sprintf("c11: %s does not start with value %d, version 0 (has %d, %d)", kind, v, pv.Value(), pv.Version()))
	}
	n := &c11Node{kind: 'Q', node: pv, pv: pv, pval: v, srcKind: kind, apply: pv.ApplyMessage, cached: func() int { return pv.Value() }}
	n.setHandles(
		[]string{"node-pointer", "Out()", "Outputs()[0]", "hand-built-wrapper", "reflect-call-Out"},
		[]c11In{pv, pv.Out(), pv.Outputs()[0].NodeOutput.(c11In), parameter.ParameterNodeOutput[int]{Val: pv},
			refutil.CallFuncValuesOfType(pv, "Out")[0].(c11In)})
	return n
}

func c11NewStruct(id, salt int, rec *c11Rec, sc []c11In, ar [][]c11In, useNew bool) *c11Node {
	s := func(k int) c11In { return sc[k] }
	a := func(k int) []c11In { return ar[k] }
	switch len(sc)*10 + len(ar) {
	case 0:
		return c11Wrap(c11T00{id: id, salt: salt, rec: rec}, useNew)
	case 10:
		return c11Wrap(c11T10{id: id, salt: salt, rec: rec, A: s(0)}, useNew)
	case 20:
		return c11Wrap(c11T20{id: id, salt: salt, rec: rec, A: s(0), B: s(1)}, useNew)
	case 30:
		return c11Wrap(c11T30{id: id, salt: salt, rec: rec, A: s(0), B: s(1), C: s(2)}, useNew)
	case 40:
		return c11Wrap(c11T40{id: id, salt: salt, rec: rec, A: s(0), B: s(1), C: s(2), D: s(3)}, useNew)
	case 1:
		return c11Wrap(c11T01{id: id, salt: salt, rec: rec, Xs: a(0)}, useNew)
	case 11:
		return c11Wrap(c11T11{id: id, salt: salt, rec: rec, A: s(0), Xs: a(0)}, useNew)
	case 21:
		return c11Wrap(c11T21{id: id, salt: salt, rec: rec, A: s(0), B: s(1), Xs: a(0)}, useNew)
	case 31:
		return c11Wrap(c11T31{id: id, salt: salt, rec: rec, A: s(0), B: s(1), C: s(2), Xs: a(0)}, useNew)
	case 41:
		return c11Wrap(c11T41{id: id, salt: salt, rec: rec, A: s(0), B: s(1), C: s(2), D: s(3), Xs: a(0)}, useNew)
	case 2:
		return c11Wrap(c11T02{id: id, salt: salt, rec: rec, Xs: a(0), Ys: a(1)}, useNew)
	case 12:
		return c11Wrap(c11T12{id: id, salt: salt, rec: rec, A: s(0), Xs: a(0), Ys: a(1)}, useNew)
	case 22:
		return c11Wrap(c11T22{id: id, salt: salt, rec: rec, A: s(0), B: s(1), Xs: a(0), Ys: a(1)}, useNew)
	case 32:
		return c11Wrap(c11T32{id: id, salt: salt, rec: rec, A: s(0), B: s(1), C: s(2), Xs: a(0), Ys: a(1)}, useNew)
	case 42:
		return c11Wrap(c11T42{id: id, salt: salt, rec: rec, A: s(0), B: s(1), C: s(2), D: s(3), Xs: a(0), Ys: a(1)}, useNew)
	}
	panic("c11: no processor type for this shape")
}

var c11PortName = []string{"A", "B", "C", "D", "E", "F"}
var c11ArrName = []string{"Xs", "Ys", "Zs", "Ws"}

// ---- plans: the wiring a case is heading for --------------------------------------------------

type c11Plan struct {
	shape string
	kind  []byte
	pval  []int
	sc    [][]int
	ar    [][][]int
}

func (p *c11Plan) n() int { return len(p.kind) }

func (p *c11Plan) truncate(n int) {
	p.kind, p.pval, p.sc, p.ar = p.kind[:n], p.pval[:n], p.sc[:n], p.ar[:n]
}

func (p *c11Plan) param(c *Ctx) int {
	k := byte('P')
	if c.Rng.Intn(2) == 0 {
		k = 'Q'
	}
	p.kind = append(p.kind, k)
	p.pval = append(p.pval, 0)
	p.sc = append(p.sc, nil)
	p.ar = append(p.ar, nil)
	return p.n() - 1
}

func (p *c11Plan) strct(sc []int, ar ...[]int) int {
	p.kind = append(p.kind, 'S')
	p.pval = append(p.pval, 0)
	p.sc = append(p.sc, sc)
	p.ar = append(p.ar, ar)
	return p.n() - 1
}

// source: a parameter, or a struct node over a fresh parameter
func (p *c11Plan) source(c *Ctx) int {
	i := p.param(c)
	if c.Rng.Intn(3) == 0 {
		i = p.strct([]int{i})
	}
	return i
}

func c11Shape(c *Ctx) *c11Plan {
	p := &c11Plan{}
	r := c.Rng
	switch r.Intn(16) {
	case 0: // a single node
		p.shape = "single"
		switch r.Intn(3) {
		case 0:
			p.param(c)
		case 1:
			p.strct(nil)
		default:
			p.strct([]int{-1, -1}, []int{})
		}
	case 1: // chain
		p.shape = "chain"
		p.param(c)
		for n := 1 + r.Intn(11); p.n() <= n; {
			if r.Intn(6) == 0 && p.n() < n {
				q := p.param(c)
				p.strct([]int{q - 1, q})
			} else {
				p.strct([]int{p.n() - 1})
			}
		}
	case 2, 3: // ladder of diamonds (1 rung = a diamond)
		p.shape = "ladder"
		top := p.param(c)
		rungs := 1 + r.Intn(3)
		if rungs == 1 {
			p.shape = "diamond"
		}
		for k := 0; k < rungs; k++ {
			l := p.strct([]int{top})
			rr := p.strct([]int{top})
			if r.Intn(3) == 0 {
				top = p.strct(nil, []int{l, rr})
			} else {
				top = p.strct([]int{l, rr})
			}
		}
		if r.Intn(2) == 0 {
			p.strct([]int{top})
		}
	case 4: // fan-in into one or two arrays
		p.shape = "fanin"
		var srcs []int
		for k := 1 + r.Intn(5); k > 0; k-- {
			srcs = append(srcs, p.source(c))
		}
		xs := append([]int{}, srcs...)
		if r.Intn(2) == 0 {
			xs = append(xs, srcs[r.Intn(len(srcs))])
		}
		if r.Intn(2) == 0 {
			var ys []int
			for k := r.Intn(3); k > 0; k-- {
				ys = append(ys, srcs[r.Intn(len(srcs))])
			}
			p.strct(nil, xs, ys)
		} else {
			p.strct(nil, xs)
		}
	case 5, 6: // a shared subgraph used by several consumers that are merged again
		p.shape = "shared"
		a, b := p.param(c), p.param(c)
		hub := p.strct([]int{a, b})
		if r.Intn(2) == 0 {
			hub = p.strct([]int{hub}, []int{a})
		}
		var cons []int
		for k := 2 + r.Intn(3); k > 0; k-- {
			if r.Intn(3) == 0 {
				cons = append(cons, p.strct([]int{hub, b}))
			} else {
				cons = append(cons, p.strct([]int{hub}))
			}
		}
		if r.Intn(2) == 0 {
			p.strct([]int{hub}, cons)
		} else {
			p.strct(cons)
		}
	case 7: // the same source in several ports of one node and several times in one array
		p.shape = "multi"
		a := p.param(c)
		s := p.strct([]int{a})
		m := p.strct([]int{s, s, s}, []int{s, s, a, s})
		if r.Intn(2) == 0 {
			p.strct([]int{m, s}, []int{m, m})
		}
	case 8: // parameters feeding many nodes
		p.shape = "params-many"
		a := p.param(c)
		b := p.param(c)
		for n := 2 + r.Intn(8); n > 0; n-- {
			sc := []int{a}
			if r.Intn(2) == 0 {
				sc = append(sc, b)
			}
			if p.n() > 2 && r.Intn(2) == 0 {
				sc = append(sc, p.n()-1)
			}
			p.strct(sc)
		}
	case 9: // one long chain of 10-22 struct nodes over 1-2 parameters (N up to 24)
		p.shape = "deep-chain"
		a := p.param(c)
		b := -1
		if r.Intn(2) == 0 {
			b = p.param(c)
		}
		prev := a
		for n := 10 + r.Intn(13); n > 0; n-- {
			switch {
			case b >= 0 && r.Intn(6) == 0:
				prev = p.strct([]int{prev, b})
			case r.Intn(8) == 0:
				prev = p.strct(nil, []int{prev})
			default:
				prev = p.strct([]int{prev})
			}
		}
	case 10: // a ladder of diamonds as deep as the path cap allows
		p.shape = "deep-ladder"
		top := p.param(c)
		for rungs := 4 + r.Intn(6); rungs > 0; rungs-- {
			keep := p.n()
			l := p.strct([]int{top})
			rr := p.strct([]int{top})
			t := -1
			if r.Intn(4) == 0 {
				t = p.strct(nil, []int{l, rr})
			} else {
				t = p.strct([]int{l, rr})
			}
			if c11Paths(p.sc, p.ar) > c11PathCap*2/3 { // leave room for re-wiring ops
				p.truncate(keep)
				break
			}
			top = t
		}
	case 11, 12: // one node with an array port of 4-6 distinct sources, struct nodes at different depths among them
		p.shape = "wide-array"
		a, b := p.param(c), p.param(c)
		srcs := []int{a, b}
		prev := a
		for d := 2 + r.Intn(3); d > 0; d-- { // a chain over a: depths 1..d
			prev = p.strct([]int{prev})
			srcs = append(srcs, prev)
		}
		srcs = append(srcs, p.strct([]int{b}))
		if r.Intn(2) == 0 {
			srcs = append(srcs, p.strct([]int{a, b}))
		}
		r.Shuffle(len(srcs), func(i, j int) { srcs[i], srcs[j] = srcs[j], srcs[i] })
		k := 4 + r.Intn(3)
		if k > len(srcs) {
			k = len(srcs)
		}
		xs := append([]int{}, srcs[:k]...)
		var sc []int
		if r.Intn(3) == 0 {
			sc = []int{srcs[r.Intn(len(srcs))]}
		}
		w := -1
		if r.Intn(2) == 0 { // second array port: 3-4 elements with a repeated source
			ys := []int{srcs[r.Intn(len(srcs))], srcs[r.Intn(len(srcs))]}
			ys = append(ys, ys[0])
			if r.Intn(2) == 0 {
				ys = append(ys, srcs[r.Intn(len(srcs))])
			}
			w = p.strct(sc, xs, ys)
		} else {
			w = p.strct(sc, xs)
		}
		if r.Intn(2) == 0 {
			p.strct([]int{w})
		}
	default: // random dag
		p.shape = "random"
		n := 1 + r.Intn(12)
		for i := 0; i < n; i++ {
			if (i == 0 && r.Intn(10) < 7) || r.Intn(5) == 0 {
				p.param(c)
				continue
			}
			var sc []int
			for k := r.Intn(5); k > 0; k-- {
				if i == 0 || r.Intn(4) == 0 {
					sc = append(sc, -1)
				} else if i > 1 && r.Intn(3) == 0 {
					sc = append(sc, i-1)
				} else {
					sc = append(sc, r.Intn(i))
				}
			}
			var ar [][]int
			for k := r.Intn(3); k > 0; k-- {
				a := []int{}
				for l := r.Intn(4); l > 0 && i > 0; l-- {
					a = append(a, r.Intn(i))
				}
				ar = append(ar, a)
			}
			p.strct(sc, ar...)
		}
	}
	// pad struct nodes with additional nil scalar ports (at random positions) and empty arrays
	for i := range p.kind {
		if p.kind[i] != 'S' {
			continue
		}
		for len(p.sc[i]) < 4 && r.Intn(4) == 0 {
			at := r.Intn(len(p.sc[i]) + 1)
			sc := append([]int{}, p.sc[i][:at]...)
			sc = append(sc, -1)
			p.sc[i] = append(sc, p.sc[i][at:]...)
		}
		for len(p.ar[i]) < 2 && r.Intn(5) == 0 {
			p.ar[i] = append(p.ar[i], []int{})
		}
	}
	// distinct small initial parameter values
	used := map[int]bool{}
	for i := range p.kind {
		if p.kind[i] == 'S' {
			continue
		}
		v := 1 + r.Intn(99)
		for used[v] {
			v = 1 + r.Intn(99)
		}
		used[v] = true
		if r.Intn(5) == 0 {
			v = 0 // the zero-literal constructors can only express 0
		}
		p.pval[i] = v
	}
	return p
}

// ---- one case ---------------------------------------------------------------------------------

type c11Case struct {
	c     *Ctx
	rec   *c11Rec
	nd    []*c11Node
	fresh int // next fresh parameter value
	// fixed: no PRNG draws at all (the witness histories); handle 0 of every node is used
	fixed bool
	// results of the last `rd` (for notes and the harness's own sanity assertions)
	lastV1, lastV2 int
	lastX, lastY   []int
	lastStatus     string
	sawErr         bool
	readBelowErr   bool
	// message family: payloads of the "msg" ops (c11Op.b indexes this table)
	msgs []c11Msg
}

// number of dependency paths below every node, summed: Outdated()/State() of the real code walks
// every path (no memo), so the generator keeps this bounded
func c11Paths(sc [][]int, ar [][][]int) int {
	// order-free (the wiring need not follow the node numbering): memoised recursion over the
	// acyclic dependency relation
	cost := make([]int, len(sc))
	var rec func(i int) int
	rec = func(i int) int {
		if cost[i] > 0 {
			return cost[i]
		}
		k := 1
		for _, s := range sc[i] {
			if s >= 0 {
				k += rec(s)
			}
		}
		for _, a := range ar[i] {
			for _, s := range a {
				k += rec(s)
			}
		}
		if k > 1<<40 {
			k = 1 << 40
		}
		cost[i] = k
		return k
	}
	tot := 0
	for i := range sc {
		tot += rec(i)
	}
	return tot
}

// c11Reaches: `to` is a reflexive-transitive dependency of `from`
func c11Reaches(sc [][]int, ar [][][]int, from, to int) bool {
	seen := make([]bool, len(sc))
	var rec func(i int) bool
	rec = func(i int) bool {
		if i == to {
			return true
		}
		if seen[i] {
			return false
		}
		seen[i] = true
		for _, s := range sc[i] {
			if s >= 0 && rec(s) {
				return true
			}
		}
		for _, a := range ar[i] {
			for _, s := range a {
				if rec(s) {
					return true
				}
			}
		}
		return false
	}
	return rec(from)
}

// anySrc: a source for a new connection into node i that keeps the graph acyclic but need not have
// a smaller id (any node from which i is not reachable); -1 if there is none
func (cs *c11Case) anySrc(i int) int {
	sc, ar := cs.wiring()
	var cand []int
	for j := range cs.nd {
		if j != i && !c11Reaches(sc, ar, j, i) {
			cand = append(cand, j)
		}
	}
	if len(cand) == 0 {
		return -1
	}
	return cand[cs.c.Rng.Intn(len(cand))]
}

const c11PathCap = 1500

func (cs *c11Case) wiring() ([][]int, [][][]int) {
	sc := make([][]int, len(cs.nd))
	ar := make([][][]int, len(cs.nd))
	for i, n := range cs.nd {
		sc[i] = append([]int{}, n.sc...)
		for _, a := range n.ar {
			ar[i] = append(ar[i], append([]int{}, a...))
		}
	}
	return sc, ar
}

func c11Wiring(sb *strings.Builder, sc []int, ar [][]int) {
	fmt.Fprintf(sb, "%d", len(sc))
	for _, s := range sc {
		if s < 0 {
			sb.WriteString(" -")
		} else {
			fmt.Fprintf(sb, " %d", s)
		}
	}
	fmt.Fprintf(sb, " %d", len(ar))
	for _, a := range ar {
		fmt.Fprintf(sb, " %d", len(a))
		for _, s := range a {
			fmt.Fprintf(sb, " %d", s)
		}
	}
}

func (cs *c11Case) outOf(src int) c11In {
	n := cs.nd[src]
	if cs.fixed {
		return n.outs[0]
	}
	h := cs.c.Rng.Intn(len(n.outs))
	cs.handleNote(n, h, "wired-in-literal")
	return n.outs[h]
}

func (cs *c11Case) handleNote(n *c11Node, h int, use string) {
	if n.srcKind == "" || h >= len(n.hnames) {
		return
	}
	cs.c.Note("src.handle." + n.hnames[h])
	cs.c.Note("src.handle." + n.srcKind + "." + n.hnames[h] + "." + use)
}

func (cs *c11Case) refOf(src int) nodes.NodeOutputReference {
	n := cs.nd[src]
	if cs.fixed {
		return n.refs[0]
	}
	h := cs.c.Rng.Intn(len(n.refs))
	cs.handleNote(n, h, "wired-by-SetInput")
	return n.refs[h]
}

// observe all nodes without triggering evaluation; an observer that panics (it never does on the
// unchanged tree) is printed as 999999999 so that the case is reported instead of killing the stream
func (cs *c11Case) observe(sb *strings.Builder) {
	safe := func(f func() int) (v int) {
		defer func() {
			if r := recover(); r != nil {
				v = 999999999
			}
		}()
		return f()
	}
	sb.WriteString(" v")
	for _, n := range cs.nd {
		fmt.Fprintf(sb, " %d", safe(n.cached))
	}
	sb.WriteString(" n")
	for _, n := range cs.nd {
		fmt.Fprintf(sb, " %d", safe(n.node.Version))
	}
	sb.WriteString(" s")
	for _, n := range cs.nd {
		fmt.Fprintf(sb, " %d", safe(func() int { return int(n.node.State()) }))
	}
}

func c11Guard(f func()) (ok bool) {
	defer func() {
		if r := recover(); r != nil {
			ok = false
		}
	}()
	f()
	return true
}

func c11Ids(sb *strings.Builder, tag string, ids []int) {
	fmt.Fprintf(sb, " %s %d", tag, len(ids))
	for _, i := range ids {
		fmt.Fprintf(sb, " %d", i)
	}
}

type c11Op struct {
	kind    string
	a, b, d int // sp p v | si i k src(-1 = nil) | aa i a src | ar i a idx | rd i
}

func (o c11Op) String() string {
	switch o.kind {
	case "sp":
		return fmt.Sprintf("sp %d %d", o.a, o.b)
	case "si":
		if o.d < 0 {
			return fmt.Sprintf("si %d %d -", o.a, o.b)
		}
		return fmt.Sprintf("si %d %d %d", o.a, o.b, o.d)
	case "rd":
		return fmt.Sprintf("rd %d", o.a)
	case "msg":
		panic("c11: msg ops are printed from the payload table")
	}
	return fmt.Sprintf("%s %d %d %d", o.kind, o.a, o.b, o.d)
}

// exec performs one op on the real objects, appends its observation block to ans and keeps the
// bookkeeping in step when the call went through.  Returns (ok, number of executions of a read).
func (cs *c11Case) exec(o c11Op, ans *strings.Builder) (bool, int) {
	n := cs.nd[o.a]
	var v1, v2 int
	var x, y []int
	rejected := false
	ok := c11Guard(func() {
		switch o.kind {
		case "msg":
			_, err := n.apply([]byte(cs.msgs[o.b].json))
			rejected = err != nil
		case "sn":
			// o.d consecutive updates with the SAME value o.b, observed once after the last one
			for k := 0; k < o.d; k++ {
				if n.kind == 'P' {
					n.vn.Set(o.b)
				} else {
					changed, err := n.pv.ApplyMessage([]byte(strconv.Itoa(o.b)))
					if err != nil || !changed {
						panic("ApplyMessage refused")
					}
				}
			}
		case "sp":
			if n.kind == 'P' {
				n.vn.Set(o.b)
			} else {
				changed, err := n.pv.ApplyMessage([]byte(strconv.Itoa(o.b)))
				if err != nil || !changed {
					panic("ApplyMessage refused")
				}
			}
		case "si":
			if o.d < 0 {
				n.node.SetInput(c11PortName[o.b], nodes.Output{})
			} else {
				n.node.SetInput(c11PortName[o.b], nodes.Output{NodeOutput: cs.refOf(o.d)})
			}
		case "aa":
			cur := 0
			if o.b < len(n.ar) {
				cur = len(n.ar[o.b])
			}
			n.node.SetInput(c11ArrName[o.b]+"."+strconv.Itoa(cur), nodes.Output{NodeOutput: cs.refOf(o.d)})
		case "ar":
			n.node.SetInput(c11ArrName[o.b]+"."+strconv.Itoa(o.d), nodes.Output{})
		case "rd":
			h := 0
			read := n.readFn
			if read == nil {
				if !cs.fixed {
					h = cs.c.Rng.Intn(len(n.outs))
					cs.handleNote(n, h, "read")
				}
				read = n.outs[h].Value
				if !cs.fixed && cs.c.Rng.Intn(4) == 0 {
					out := n.outs[h]
					read = func() int { return nodes.TryGetOutputValue(out, -1) }
					cs.c.Note("src.read-through-TryGetOutputValue")
				}
			}
			cs.rec.log = nil
			v1 = read()
			x = cs.rec.log
			cs.rec.log = nil
			v2 = read()
			y = cs.rec.log
			cs.rec.log = nil
		}
	})
	cs.lastStatus = "ok"
	if ok && rejected {
		// a message the decoder refused: reported `rej`, the bookkeeping stays as it is
		cs.lastStatus = "rej"
		ans.WriteString(" rej")
	} else if ok {
		switch o.kind {
		case "msg":
			cs.msgs[o.b].accept(n)
		case "sn":
			n.pval = o.b
			n.sets += o.d
		case "sp":
			n.pval = o.b
		case "si":
			n.sc[o.b] = o.d
		case "aa":
			n.ar[o.b] = append(n.ar[o.b], o.d)
		case "ar":
			n.ar[o.b] = append(append([]int{}, n.ar[o.b][:o.d]...), n.ar[o.b][o.d+1:]...)
		}
		ans.WriteString(" ok")
	} else {
		cs.lastStatus = "panic"
		ans.WriteString(" panic")
		x, y = nil, nil
	}
	if o.kind == "rd" && ok {
		fmt.Fprintf(ans, " r %d %d", v1, v2)
	}
	cs.lastV1, cs.lastV2, cs.lastX, cs.lastY = v1, v2, x, y
	// failing processors: executions that returned an error; reads strictly downstream of a node
	// whose last Process() returned an error (the second read of the `rd` finds it in that state)
	if o.kind == "sp" && ok {
		n.sets++
	}
	if o.kind == "rd" && ok {
		// reads of consumers of sources that have never been updated
		var sc [][]int
		var ar [][][]int
		for p, m := range cs.nd {
			if (m.kind != 'P' && m.kind != 'Q') || m.sets > 0 || p == o.a {
				continue
			}
			if sc == nil {
				sc, ar = cs.wiring()
			}
			if c11Reaches(sc, ar, o.a, p) {
				m.consumerReads++
				if cs.dist(o.a, p) >= 2 {
					m.farReads++
				}
			}
		}
	}
	if cs.rec.errs > 0 {
		cs.c.notes["err.process-returned-error"] += cs.rec.errs
		cs.rec.errs = 0
		cs.sawErr = true
	}
	if o.kind == "rd" && ok && cs.sawErr {
		sc, ar := cs.wiring()
		for u, failed := range cs.rec.lastErr {
			if failed && u != o.a && c11Reaches(sc, ar, o.a, u) {
				cs.c.Note("err.second-read-below-failed-node")
				cs.readBelowErr = true
				break
			}
		}
	}
	cs.observe(ans)
	c11Ids(ans, "x", x)
	c11Ids(ans, "y", y)
	ans.WriteString(" |")
	return ok && !rejected, len(x)
}

// errNotes: per-history notes of the failing-processor family
func (cs *c11Case) errNotes() {
	if cs.sawErr {
		cs.c.Note("err.graphs-with-failing-node")
	}
	if cs.readBelowErr {
		cs.c.Note("err.graphs-with-read-below-failed-node")
	}
	// per source: how it was built and how often it was updated over the history
	for _, m := range cs.nd {
		if (m.kind != 'P' && m.kind != 'Q') || m.srcKind == "" {
			continue
		}
		tag := "src." + m.srcKind
		switch {
		case m.sets == 0:
			cs.c.Note(tag + ".never-set")
			if m.consumerReads >= 2 {
				cs.c.Note(tag + ".never-set.reads-of-consumers")
			}
			if m.farReads >= 1 {
				cs.c.Note(tag + ".never-set.reads-2+-levels-above")
			}
		case m.sets == 1:
			cs.c.Note(tag + ".set-once")
		default:
			cs.c.Note(tag + ".set-twice+")
		}
		if m.consumerReads > 0 {
			cs.c.notes[tag+".reads-of-consumers-before-first-set.total"] += m.consumerReads
		}
	}
}

func (cs *c11Case) freshVal() int {
	cs.fresh += 1 + cs.c.Rng.Intn(5)
	return cs.fresh
}

// downstream: all nodes (i included) of which i is a reflexive-transitive dependency
func (cs *c11Case) downstream(i int) []int {
	sc, ar := cs.wiring()
	var out []int
	for j := range cs.nd {
		if c11Reaches(sc, ar, j, i) {
			out = append(out, j)
		}
	}
	return out
}

// notDownstream: nodes whose evaluation does not touch i
func (cs *c11Case) notDownstream(i int) []int {
	sc, ar := cs.wiring()
	var out []int
	for j := range cs.nd {
		if !c11Reaches(sc, ar, j, i) {
			out = append(out, j)
		}
	}
	return out
}

// dist: length of the shortest dependency path from -> to, -1 if there is none
func (cs *c11Case) dist(from, to int) int {
	d := make([]int, len(cs.nd))
	for i := range d {
		d[i] = -1
	}
	d[from] = 0
	queue := []int{from}
	for len(queue) > 0 {
		i := queue[0]
		queue = queue[1:]
		if i == to {
			return d[i]
		}
		visit := func(s int) {
			if s >= 0 && d[s] < 0 {
				d[s] = d[i] + 1
				queue = append(queue, s)
			}
		}
		for _, s := range cs.nd[i].sc {
			visit(s)
		}
		for _, a := range cs.nd[i].ar {
			for _, s := range a {
				visit(s)
			}
		}
	}
	return -1
}

// scenario: a short scripted run of consecutive ops aimed at one mechanism (version bumps of the
// two parameter kinds, State() of nodes that are stale for exactly one reason).  nil = the
// current graph has no place for the drawn scenario.  watch = the node that must be observed Stale
// after every op of the scenario but the first and the last (-1: none).
func (cs *c11Case) scenario(params, strs []int) (ops []c11Op, watch int) {
	r, c := cs.c.Rng, cs.c
	rd := func(i int) c11Op { return c11Op{kind: "rd", a: i} }
	sp := func(p, v int) c11Op { return c11Op{kind: "sp", a: p, b: v} }
	pick := func(l []int) int { return l[r.Intn(len(l))] }
	fillers := func(target int) []c11Op { // 2-4 ops that leave `target` alone (it is only observed)
		cand := cs.notDownstream(target)
		var out []c11Op
		for k := 2 + r.Intn(3); k > 0 && len(cand) > 0; k-- {
			out = append(out, rd(pick(cand)))
		}
		return out
	}
	if len(params) == 0 || len(strs) == 0 {
		return nil, -1
	}
	which := r.Intn(6)
	switch which {
	case 0, 1, 2:
		p := pick(params)
		if which == 0 { // prefer a parameter that has something two levels above it
			var deep []int
			for _, q := range params {
				for _, j := range strs {
					if cs.dist(j, q) >= 2 {
						deep = append(deep, q)
						break
					}
				}
			}
			if len(deep) == 0 {
				return nil, -1
			}
			p = pick(deep)
		}
		kind := string(cs.nd[p].kind)
		var near, far []int
		for _, j := range cs.downstream(p) {
			if j == p {
				continue
			}
			near = append(near, j)
			if cs.dist(j, p) >= 2 {
				far = append(far, j)
			}
		}
		var seq []c11Op
		switch which {
		case 0: // Set, then IMMEDIATELY a read two or more levels above
			if len(far) == 0 {
				return nil, -1
			}
			j := pick(far)
			if r.Intn(2) == 0 {
				seq = append(seq, rd(j))
			}
			c.Note("sp.then-read-far." + kind)
			return append(seq, sp(p, cs.freshVal()), rd(j)), -1
		case 1: // two Sets with no read in between: the remembered version is 2 behind
			if len(near) == 0 {
				return nil, -1
			}
			j := pick(near)
			if r.Intn(10) < 7 {
				seq = append(seq, rd(j))
			}
			c.Note("sp.double-set-then-read." + kind)
			return append(seq, sp(p, cs.freshVal()), sp(p, cs.freshVal()), rd(j)), -1
		default: // Set of the value the parameter already has, then a read: only the version moved
			if len(near) == 0 {
				return nil, -1
			}
			j := pick(near)
			if r.Intn(10) < 7 {
				seq = append(seq, rd(j))
			}
			c.Note("sp.same-value-then-read." + kind)
			c.Note("sp.same-value")
			return append(seq, sp(p, cs.nd[p].pval), rd(j)), -1
		}
	case 3: // Stale only because of the flag: re-wired to what it had, nothing else changed
		var cand []int
		for _, j := range strs {
			if len(cs.nd[j].sc) > 0 {
				cand = append(cand, j)
			}
		}
		if len(cand) == 0 {
			return nil, -1
		}
		j := pick(cand)
		k := r.Intn(len(cs.nd[j].sc))
		seq := []c11Op{rd(j), {"si", j, k, cs.nd[j].sc[k]}}
		seq = append(seq, fillers(j)...)
		c.Note("state.flag-only-stale-observed")
		return append(seq, rd(j)), j
	default: // Stale only because a dependency two or more levels down is stale (versions all equal)
		var cand [][2]int
		for _, j := range strs {
			for _, d := range strs {
				if len(cs.nd[d].sc) > 0 && d != j && cs.dist(j, d) >= 2 {
					cand = append(cand, [2]int{j, d})
				}
			}
		}
		if len(cand) == 0 {
			return nil, -1
		}
		jd := cand[r.Intn(len(cand))]
		j, d := jd[0], jd[1]
		k := r.Intn(len(cs.nd[d].sc))
		seq := []c11Op{rd(j), {"si", d, k, cs.nd[d].sc[k]}}
		seq = append(seq, fillers(d)...)
		c.Note("state.deep-dependency-stale-observed")
		return append(seq, rd(j)), j
	}
}

func c11History(c *Ctx, deporder bool) {
	r := c.Rng
	var plan *c11Plan
	for {
		plan = c11Shape(c)
		if c11Paths(plan.sc, plan.ar) <= c11PathCap {
			break
		}
		c.Note("gen.plan-over-path-cap")
	}
	c.Note("shape." + plan.shape)
	N := plan.n()
	cs := &c11Case{c: c, rec: &c11Rec{}, fresh: 100}

	// which edges are given in the Data literal, which are added later by ops
	deferP := 0.35
	switch r.Intn(8) {
	case 0:
		deferP = 1
		c.Note("init.blank")
	case 1, 2:
		deferP = 0
		c.Note("init.complete")
	default:
		c.Note("init.partial")
	}
	var pending []c11Op
	var req strings.Builder
	fmt.Fprintf(&req, "%d", N)
	structs := 0
	for i := 0; i < N; i++ {
		if plan.kind[i] != 'S' {
			v := plan.pval[i]
			n := c11NewSource(c, plan.kind[i], i, v, false)
			cs.nd = append(cs.nd, n)
			fmt.Fprintf(&req, " %c %d", plan.kind[i], v)
			continue
		}
		structs++
		sc := make([]int, len(plan.sc[i]))
		lit := make([]c11In, len(sc))
		for k, s := range plan.sc[i] {
			sc[k] = -1
			if s < 0 {
				continue
			}
			if r.Float64() < deferP {
				pending = append(pending, c11Op{"si", i, k, s})
			} else {
				sc[k] = s
				lit[k] = cs.outOf(s)
			}
		}
		ar := make([][]int, len(plan.ar[i]))
		alit := make([][]c11In, len(ar))
		for k, a := range plan.ar[i] {
			ar[k] = []int{}
			if r.Intn(2) == 0 {
				alit[k] = []c11In{} // empty non-nil slice; otherwise nil slice
			}
			for _, s := range a {
				if r.Float64() < deferP {
					pending = append(pending, c11Op{"aa", i, k, s})
				} else {
					ar[k] = append(ar[k], s)
					alit[k] = append(alit[k], cs.outOf(s))
				}
			}
		}
		salt := 1 + r.Intn(100000)
		n := c11NewStruct(i, salt, cs.rec, lit, alit, r.Intn(2) == 0)
		n.salt, n.sc, n.ar = salt, sc, ar
		cs.nd = append(cs.nd, n)
		fmt.Fprintf(&req, " S %d ", salt)
		c11Wiring(&req, sc, ar)
	}
	if len(pending) > 0 {
		c.Note("init.edges-added-by-ops")
	}
	// keep the deferred edges of one node in plan order most of the time
	if r.Intn(3) == 0 {
		r.Shuffle(len(pending), func(a, b int) { pending[a], pending[b] = pending[b], pending[a] })
	}

	var params, strs []int
	for i, n := range cs.nd {
		if n.kind == 'S' {
			strs = append(strs, i)
		} else {
			params = append(params, i)
		}
	}

	M := 5 + r.Intn(36)
	if r.Intn(10) == 0 {
		M = r.Intn(4)
	}
	if M == 0 {
		c.Note("hist.empty")
	}
	var ops []string
	var ans strings.Builder
	rewired := -1 // node rewired by the previous op
	sawRewire, readAfterRewire := false, false
	var forced []c11Op // the rest of a scenario: consecutive ops, nothing in between
	watch, forcedIdx := -1, 0
	for len(ops) < M || len(forced) > 0 {
		var o c11Op
		pick := r.Intn(100)
		if len(forced) == 0 && M >= 5 && r.Intn(100) < 6 {
			forced, watch = cs.scenario(params, strs)
			forcedIdx = 0
			if len(forced) > 0 {
				c.Note("hist.scenario")
			}
		}
		isForced := len(forced) > 0
		switch {
		case isForced:
			o = forced[0]
			forced = forced[1:]
		case rewired >= 0 && r.Intn(2) == 0:
			// read at or downstream of the node that was just rewired
			ds := cs.downstream(rewired)
			o = c11Op{kind: "rd", a: ds[r.Intn(len(ds))]}
			if o.a != rewired {
				c.Note("rd.downstream-of-rewired")
			} else {
				c.Note("rd.the-rewired-node")
			}
		case pick < 3:
			o = cs.badOp(params, strs)
		case pick < 3+22 && len(pending) > 0:
			o = pending[0]
			pending = pending[1:]
		case pick < 40 && len(params) > 0:
			p := params[r.Intn(len(params))]
			v := cs.freshVal()
			if r.Intn(7) == 0 {
				v = cs.nd[p].pval
				c.Note("sp.same-value")
			}
			o = c11Op{kind: "sp", a: p, b: v}
		case pick < 48 && len(strs) > 0:
			i := strs[r.Intn(len(strs))]
			n := cs.nd[i]
			if len(n.sc) == 0 {
				continue
			}
			k := r.Intn(len(n.sc))
			src := -1
			if i > 0 && r.Intn(4) != 0 {
				src = r.Intn(i)
			}
			if r.Intn(3) == 0 {
				// any acyclic source, not only smaller ids: the topological order may change over the history
				if j := cs.anySrc(i); j >= 0 {
					src = j
					if j > i {
						c.Note("si.source-with-larger-id")
					}
				}
			}
			o = c11Op{"si", i, k, src}
		case pick < 53 && len(strs) > 0:
			i := strs[r.Intn(len(strs))]
			n := cs.nd[i]
			if len(n.ar) == 0 {
				continue
			}
			k := r.Intn(len(n.ar))
			if len(n.ar[k]) >= 6 {
				continue
			}
			src := -1
			if i > 0 {
				src = r.Intn(i)
			}
			if src < 0 || r.Intn(3) == 0 {
				if j := cs.anySrc(i); j >= 0 {
					src = j
					if j > i {
						c.Note("aa.source-with-larger-id")
					}
				}
			}
			if src < 0 {
				continue
			}
			o = c11Op{"aa", i, k, src}
		case pick < 62 && len(strs) > 0:
			// remove an array element, index uniform; mostly from an array of 3 or more elements
			var long, any [][2]int
			for _, i := range strs {
				for k, a := range cs.nd[i].ar {
					if len(a) >= 3 {
						long = append(long, [2]int{i, k})
					}
					if len(a) >= 1 {
						any = append(any, [2]int{i, k})
					}
				}
			}
			if len(long) > 0 && r.Intn(10) < 7 {
				any = long
			}
			if len(any) == 0 {
				continue
			}
			ik := any[r.Intn(len(any))]
			a := cs.nd[ik[0]].ar[ik[1]]
			o = c11Op{"ar", ik[0], ik[1], r.Intn(len(a))}
			if r.Intn(10) < 6 {
				// ... and add to the same array again later (the removed source or any other)
				src := a[o.d]
				if r.Intn(3) == 0 {
					if j := cs.anySrc(ik[0]); j >= 0 {
						src = j
					}
				}
				pending = append(pending, c11Op{"aa", ik[0], ik[1], src})
				c.Note("ar.with-aa-again-later")
			}
		default:
			o = c11Op{kind: "rd", a: r.Intn(N)}
		}
		// never a cycle, never an unbounded number of dependency paths
		if !isForced && (o.kind == "si" || o.kind == "aa") && o.d >= 0 && cs.nd[o.a].kind == 'S' {
			sc0, ar0 := cs.wiring()
			if o.d == o.a || c11Reaches(sc0, ar0, o.d, o.a) {
				// smaller id no longer implies "does not depend on me" once the order has changed
				if j := cs.anySrc(o.a); j >= 0 {
					o.d = j
				} else {
					o = c11Op{kind: "rd", a: r.Intn(N)}
				}
				c.Note("gen.cycle-avoided")
			}
		}
		if !isForced && ((o.kind == "si" && o.d >= 0 && o.b < len(cs.nd[o.a].sc)) || (o.kind == "aa" && o.b < len(cs.nd[o.a].ar))) {
			sc, ar := cs.wiring()
			if o.kind == "si" {
				sc[o.a][o.b] = o.d
			} else {
				ar[o.a][o.b] = append(ar[o.a][o.b], o.d)
			}
			if c11Paths(sc, ar) > c11PathCap {
				c.Note("gen.op-over-path-cap")
				o = c11Op{kind: "rd", a: r.Intn(N)}
			}
		}
		// notes before the call
		n := cs.nd[o.a]
		switch o.kind {
		case "si":
			if n.kind == 'S' && o.b < len(n.sc) {
				switch {
				case o.d < 0 && n.sc[o.b] < 0:
					c.Note("si.nil-on-nil")
				case o.d < 0:
					c.Note("si.disconnect")
				case n.sc[o.b] < 0:
					c.Note("si.connect")
				case n.sc[o.b] == o.d:
					c.Note("si.same-source-again")
				default:
					c.Note("si.replace")
				}
				for k, s := range n.sc {
					if k != o.b && s == o.d && o.d >= 0 {
						c.Note("si.source-in-several-ports")
						break
					}
				}
			}
		case "aa":
			if n.kind == 'S' && o.b < len(n.ar) {
				for _, s := range n.ar[o.b] {
					if s == o.d {
						c.Note("aa.source-twice-in-array")
						break
					}
				}
				c.Note("aa." + c11ArrName[o.b])
			}
		case "ar":
			if n.kind == 'S' && o.b < len(n.ar) && o.d < len(n.ar[o.b]) {
				a := n.ar[o.b]
				c.Note("ar." + c11ArrName[o.b])
				switch {
				case len(a) == 1:
					c.Note("ar.empties-array")
				case o.d == 0:
					c.Note("ar.first")
				case o.d == len(a)-1:
					c.Note("ar.last")
				default:
					c.Note("ar.middle")
				}
				if len(a) >= 3 {
					c.Note("ar.from-array-of-3+")
				}
				for k, s := range a {
					if k != o.d && s == a[o.d] {
						c.Note("ar.one-copy-of-a-repeated-source")
						break
					}
				}
				staleRemoved, staleOther := false, false
				for k, s := range a {
					if cs.nd[s].kind == 'S' && cs.nd[s].node.State() == nodes.Stale {
						if k == o.d {
							staleRemoved = true
						} else {
							staleOther = true
						}
					}
				}
				if staleRemoved {
					c.Note("ar.removed-source-is-stale-struct")
				}
				if staleOther {
					c.Note("ar.remaining-source-is-stale-struct")
				}
				if n.node.State() == nodes.Processed {
					c.Note("ar.on-processed-node")
				}
			}
		case "rd":
			if n.kind != 'S' {
				c.Note("rd.parameter")
			} else {
				used := false
				for _, m := range cs.nd[o.a+1:] {
					for _, s := range m.sc {
						used = used || s == o.a
					}
					for _, a := range m.ar {
						for _, s := range a {
							used = used || s == o.a
						}
					}
				}
				if used {
					c.Note("rd.interior")
				} else {
					c.Note("rd.sink")
				}
			}
			if sawRewire {
				readAfterRewire = true
			}
		}
		ok, execs := cs.exec(o, &ans)
		ops = append(ops, o.String())
		c.Note("op." + o.kind)
		if isForced {
			if watch >= 0 && forcedIdx >= 1 && len(forced) > 0 {
				if cs.nd[watch].node.State() == nodes.Stale {
					c.Note("state.observed-stale-while-untouched")
				} else {
					c.Note("state.SCENARIO-NODE-NOT-STALE")
				}
			}
			forcedIdx++
		}
		if !ok {
			c.Note("op.panic")
			c.Note("panic." + o.kind)
		}
		rewired = -1
		if ok && (o.kind == "si" || o.kind == "aa" || o.kind == "ar") {
			rewired = o.a
			sawRewire = true
		}
		if o.kind == "rd" && ok {
			switch {
			case execs == 0:
				c.Note("rd.exec-0")
			case execs >= 3:
				c.Note("rd.exec-1+")
				c.Note("rd.exec-3+")
			default:
				c.Note("rd.exec-1+")
			}
			if execs == structs && structs > 1 {
				c.Note("rd.exec-whole-graph")
			}
		}
	}
	if readAfterRewire {
		c.Note("hist.read-after-rewire")
	}
	fmt.Fprintf(&req, " %d", len(ops))
	if len(ops) > 0 {
		req.WriteString(" " + strings.Join(ops, " "))
	}
	cs.errNotes()
	q, a := req.String(), strings.TrimPrefix(ans.String(), " ")
	c.Emit("c11.hist", q, a)
	c.Emit("c11.holds.fresh", q+" @ "+a, "true")
	c.Emit("c11.holds.no_spurious", q+" @ "+a, "true")
	c.Emit("c11.holds.version", q+" @ "+a, "true")

	if deporder {
		// Dependencies() must enumerate the inputs in the same (model) order on every call
		const reps = 64
		for _, i := range strs {
			n := cs.nd[i]
			var rq, names strings.Builder
			c11Wiring(&rq, n.sc, n.ar)
			k := -1
			okDeps := c11Guard(func() {
				for t := 0; t < reps; t++ {
					deps := n.node.Dependencies()
					if k < 0 {
						k = len(deps)
					}
					if len(deps) != k {
						k = -2
						names.WriteString(" length-changed")
					}
					for _, d := range deps {
						names.WriteString(" " + d.Name())
					}
				}
			})
			if !okDeps {
				names.WriteString(" panic")
			}
			if k >= 2 {
				c.Note("deporder.deps-2+")
			}
			c.Emit("c11.holds.deporder", fmt.Sprintf("%s @ %d %d%s", rq.String(), reps, k, names.String()), "true")
		}
	}
}

// badOp: a call the real code rejects by panicking before it writes any state
func (cs *c11Case) badOp(params, strs []int) c11Op {
	r := cs.c.Rng
	for {
		switch r.Intn(6) {
		case 0: // SetInput on a parameter node
			if len(params) == 0 {
				continue
			}
			p := params[r.Intn(len(params))]
			src := -1
			if p > 0 && r.Intn(2) == 0 {
				src = r.Intn(p)
			}
			cs.c.Note("bad.si-on-parameter")
			return c11Op{"si", p, r.Intn(2), src}
		case 1: // array SetInput on a parameter node
			if len(params) == 0 {
				continue
			}
			p := params[r.Intn(len(params))]
			if p > 0 && r.Intn(2) == 0 {
				cs.c.Note("bad.aa-on-parameter")
				return c11Op{"aa", p, 0, r.Intn(p)}
			}
			cs.c.Note("bad.ar-on-parameter")
			return c11Op{"ar", p, 0, 0}
		case 2: // unknown scalar port
			if len(strs) == 0 {
				continue
			}
			i := strs[r.Intn(len(strs))]
			src := -1
			if i > 0 && r.Intn(3) != 0 {
				src = r.Intn(i)
			}
			cs.c.Note("bad.si-unknown-port")
			return c11Op{"si", i, len(cs.nd[i].sc) + r.Intn(5-len(cs.nd[i].sc)), src}
		case 3: // remove beyond the end of the array
			if len(strs) == 0 {
				continue
			}
			i := strs[r.Intn(len(strs))]
			n := cs.nd[i]
			if len(n.ar) == 0 {
				continue
			}
			k := r.Intn(len(n.ar))
			cs.c.Note("bad.ar-index-out-of-range")
			return c11Op{"ar", i, k, len(n.ar[k]) + r.Intn(3)}
		case 4: // unknown array port, remove
			if len(strs) == 0 {
				continue
			}
			i := strs[r.Intn(len(strs))]
			cs.c.Note("bad.ar-unknown-array")
			return c11Op{"ar", i, len(cs.nd[i].ar) + r.Intn(3-len(cs.nd[i].ar)), r.Intn(2)}
		default: // unknown array port, add
			if len(strs) == 0 {
				continue
			}
			i := strs[r.Intn(len(strs))]
			if i == 0 {
				continue
			}
			cs.c.Note("bad.aa-unknown-array")
			return c11Op{"aa", i, len(cs.nd[i].ar) + r.Intn(3-len(cs.nd[i].ar)), r.Intn(i)}
		}
	}
}

// ---- skipping processor: witness histories of the known finding, and random histories -----------

// description of a node of a skip case: kind 'P'/'Q' (v = initial value), 'S' (v = salt, scalar
// ports sc, no arrays), 'K' (v = salt, sc = [a, b]); every dependency has a smaller id
type c11SkipNode struct {
	kind byte
	v    int
	sc   []int
}

// c11SkipBuild creates the real objects (all wiring given in the Data literals) and the header
// `N <node>*N` of the request
func c11SkipBuild(c *Ctx, fixed bool, desc []c11SkipNode) (*c11Case, string) {
	cs := &c11Case{c: c, rec: &c11Rec{}, fresh: 100, fixed: fixed}
	var req strings.Builder
	fmt.Fprintf(&req, "%d", len(desc))
	for i, d := range desc {
		switch d.kind {
		case 'P', 'Q':
			cs.nd = append(cs.nd, c11NewSource(c, d.kind, i, d.v, fixed))
			fmt.Fprintf(&req, " %c %d", d.kind, d.v)
		case 'S', 'K', 'W', 'N':
			lit := make([]c11In, len(d.sc))
			for k, s := range d.sc {
				if s >= i {
					panic("c11 skip: dependency with a larger id")
				}
				if s >= 0 {
					lit[k] = cs.outOf(s)
				}
			}
			var n *c11Node
			switch d.kind {
			case 'K':
				if len(d.sc) != 2 {
					panic("c11 skip: K has two ports")
				}
				n = c11Wrap(c11K{id: i, salt: d.v, rec: cs.rec, A: lit[0], B: lit[1]}, !fixed && c.Rng.Intn(2) == 0)
				n.kind = 'K'
			case 'W':
				if len(d.sc) != 3 {
					panic("c11 skip: W has three ports")
				}
				n = c11Wrap(c11W{id: i, salt: d.v, rec: cs.rec, A: lit[0], B: lit[1], C: lit[2]}, !fixed && c.Rng.Intn(2) == 0)
				n.kind = 'W'
			case 'N':
				if len(d.sc) != 3 {
					panic("c11 skip: N has three ports")
				}
				n = c11Wrap(c11Nil{id: i, salt: d.v, rec: cs.rec, A: lit[0], B: lit[1], C: lit[2]}, !fixed && c.Rng.Intn(2) == 0)
				n.kind = 'N'
			default:
				n = c11NewStruct(i, d.v, cs.rec, lit, nil, !fixed && c.Rng.Intn(2) == 0)
			}
			n.salt, n.sc, n.ar = d.v, append([]int{}, d.sc...), [][]int{}
			cs.nd = append(cs.nd, n)
			fmt.Fprintf(&req, " %c %d ", d.kind, d.v)
			c11Wiring(&req, n.sc, n.ar)
		default:
			panic("c11 skip: node kind")
		}
	}
	return cs, req.String()
}

// skipSpec: the from-scratch value of node i under the harness's own bookkeeping (independent of
// the Lean model): sanity assertion of freshness on the Go side
func (cs *c11Case) skipSpec(i int) int {
	n := cs.nd[i]
	switch n.kind {
	case 'P', 'Q', 'L', 'T', 'M':
		return n.pval
	case 'E':
		return cs.skipSpec(n.sc[0])
	case 'K', 'W', 'N':
		// the same value functions as the processors, over the bookkeeping: skips exactly alike
		wired := func(k int) bool { return n.sc[k] >= 0 }
		read := func(k int) int { return cs.skipSpec(n.sc[k]) }
		switch n.kind {
		case 'K':
			return c11KValue(n.salt, wired, read)
		case 'W':
			return c11WValue(n.salt, wired, read)
		}
		return c11NilValue(n.salt, wired, read)
	}
	h := int64(n.salt)
	for _, s := range n.sc {
		if s < 0 {
			h = (h*31 + 7) % c11M
		} else {
			h = (h*31 + 11 + int64(cs.skipSpec(s))) % c11M
		}
	}
	for _, a := range n.ar {
		h = (h*37 + 5 + int64(len(a))) % c11M
		for _, s := range a {
			h = (h*31 + 13 + int64(cs.skipSpec(s))) % c11M
		}
	}
	return int(h)
}

// skipExec: one op, with the notes of the skip family and the Go-side freshness assertion
func (cs *c11Case) skipExec(o c11Op, ans *strings.Builder, ops *[]string) {
	c := cs.c
	ok, execs := cs.exec(o, ans)
	*ops = append(*ops, o.String())
	c.Note("skip.op." + o.kind)
	if !ok {
		c.Note("skip.op.PANIC")
		return
	}
	if o.kind != "rd" {
		return
	}
	if want := cs.skipSpec(o.a); cs.lastV1 != want || cs.lastV2 != want {
		c.Note("skip.FRESHNESS-FAILED")
		fmt.Fprintf(os.Stderr, "c11 skip: read of node %d returned %d %d, from-scratch value %d; ops so far: %s\n",
			o.a, cs.lastV1, cs.lastV2, want, strings.Join(*ops, " "))
	}
	n := cs.nd[o.a]
	has := func(l []int, j int) bool {
		for _, e := range l {
			if e == j {
				return true
			}
		}
		return false
	}
	switch n.kind {
	case 'K':
		x := cs.nd[n.sc[0]].pval
		yProcessed := cs.nd[n.sc[1]].node.State() == nodes.Processed
		tag := "skip.rd-K.x-pos"
		if x <= 0 {
			tag = "skip.rd-K.x-zero"
		}
		switch {
		case execs == 0 && len(cs.lastY) == 0:
			c.Note(tag + ".executed-nothing")
		case len(cs.lastY) > 0:
			c.Note(tag + ".second-read-executed-K") // the known finding
		default:
			c.Note(tag + ".first-read-executed-only")
		}
		if has(cs.lastX, n.sc[1]) {
			c.Note(tag + ".executed-Y")
		}
		if x <= 0 {
			if yProcessed {
				c.Note("skip.rd-K.x-zero.Y-processed")
			} else {
				c.Note("skip.rd-K.x-zero.Y-stale")
			}
		}
	case 'S':
		// a node downstream of a K node?
		down := false
		for _, s := range n.sc {
			down = down || (s >= 0 && cs.nd[s].kind == 'K')
		}
		switch {
		case down && len(cs.lastY) > 0:
			c.Note("skip.rd-downstream-of-K.second-read-executed")
		case down:
			c.Note("skip.rd-downstream-of-K.second-read-quiet")
		default:
			c.Note("skip.rd-S")
		}
	default:
		c.Note("skip.rd-parameter")
	}
}

func c11SkipEmit(c *Ctx, witness bool, header string, ops []string, ans *strings.Builder) {
	q := header + " " + strconv.Itoa(len(ops))
	if len(ops) > 0 {
		q += " " + strings.Join(ops, " ")
	}
	a := strings.TrimPrefix(ans.String(), " ")
	c.Emit("c11.skip.hist", q, a)
	if witness {
		// the driver answers false here: expected, it is the known finding
		c.Emit("c11.holds.no_spurious_skipping_processor_witness", q+" @ "+a, "true")
	}
	c.Emit("c11.holds.fresh", q+" @ "+a, "true")
	c.Emit("c11.holds.version", q+" @ "+a, "true")
}

// the three fixed witness histories (no PRNG draw)
func c11SkipWitnesses(c *Ctx) {
	rd := func(i int) c11Op { return c11Op{kind: "rd", a: i} }
	sp := func(p, v int) c11Op { return c11Op{kind: "sp", a: p, b: v} }
	small := func(x int) []c11SkipNode {
		return []c11SkipNode{{'P', x, nil}, {'P', 7, nil}, {'S', 101, []int{1}}, {'K', 202, []int{0, 2}}}
	}
	ws := []struct {
		name string
		desc []c11SkipNode
		ops  []c11Op
	}{
		{"W1", small(0), []c11Op{rd(3), rd(3), rd(3), rd(3), rd(3)}},
		{"W2", small(5), []c11Op{rd(3), rd(3), sp(0, 0), rd(3), rd(3), sp(1, 9), rd(3), sp(0, 4), rd(3), rd(3), rd(2), sp(0, 0), rd(3), rd(3)}},
		{"W3", []c11SkipNode{{'P', 0, nil}, {'P', 7, nil}, {'S', 101, []int{1}}, {'S', 303, []int{2}}, {'K', 202, []int{0, 3}}, {'S', 404, []int{4}}},
			[]c11Op{rd(5), rd(5), rd(4), sp(1, 8), rd(5), rd(5), rd(3), rd(5), rd(5)}},
	}
	for _, w := range ws {
		cs, header := c11SkipBuild(c, true, w.desc)
		var ans strings.Builder
		var ops []string
		for _, o := range w.ops {
			cs.skipExec(o, &ans, &ops)
		}
		c.Note("skip.witness." + w.name)
		cs.errNotes()
		c11SkipEmit(c, true, header, ops, &ans)
	}
}

// one random history over a small graph with 1-2 skipping nodes; ops sp / rd (and now and then an
// `si` re-wiring port 0 of a struct node upstream of Y to another parameter)
func c11SkipRandom(c *Ctx) {
	r := c.Rng
	var desc []c11SkipNode
	add := func(k byte, v int, sc ...int) int {
		desc = append(desc, c11SkipNode{k, v, sc})
		return len(desc) - 1
	}
	pk := func() byte {
		if r.Intn(2) == 0 {
			return 'Q'
		}
		return 'P'
	}
	salt := func() int { return 1 + r.Intn(100000) }
	xval := func() int { // X: <= 0 and > 0 about equally often
		if r.Intn(2) == 0 {
			return 0
		}
		return 1 + r.Intn(50)
	}
	used := map[int]bool{}
	pval := func() int {
		v := 1 + r.Intn(99)
		for used[v] {
			v = 1 + r.Intn(99)
		}
		used[v] = true
		return v
	}
	var xs, ps []int // X parameters (ports A of K nodes), other parameters
	xs = append(xs, add(pk(), xval()))
	ps = append(ps, add(pk(), pval()))
	if r.Intn(2) == 0 {
		ps = append(ps, add(pk(), pval()))
	}
	// Y: a struct node over 1-2 levels
	var upstream []int // struct nodes at or above Y whose port 0 is a parameter
	y := -1
	if len(ps) > 1 && r.Intn(2) == 0 {
		y = add('S', salt(), ps[0], ps[1])
	} else {
		y = add('S', salt(), ps[r.Intn(len(ps))])
	}
	upstream = append(upstream, y)
	levels := 1
	if r.Intn(2) == 0 {
		levels = 2
		if r.Intn(3) == 0 {
			y = add('S', salt(), ps[r.Intn(len(ps))], y) // port 0 a parameter, port 1 the lower level
			upstream = append(upstream, y)
		} else {
			y = add('S', salt(), y)
		}
	}
	c.Note(fmt.Sprintf("skip.shape.Y-levels-%d", levels))
	var ks []int
	ks = append(ks, add('K', salt(), xs[0], y))
	switch r.Intn(4) {
	case 0: // a second K sharing Y, own X
		xs = append(xs, add(pk(), xval()))
		ks = append(ks, add('K', salt(), xs[1], y))
		c.Note("skip.shape.two-K-sharing-Y")
	case 1: // a second K sharing X and Y
		ks = append(ks, add('K', salt(), xs[0], y))
		c.Note("skip.shape.two-K-sharing-X-and-Y")
	default:
		c.Note("skip.shape.one-K")
	}
	var downs []int
	if r.Intn(2) == 0 {
		k := ks[r.Intn(len(ks))]
		switch r.Intn(3) {
		case 0:
			downs = append(downs, add('S', salt(), k, y))
		case 1:
			if len(ks) > 1 {
				downs = append(downs, add('S', salt(), ks[0], ks[1]))
			} else {
				downs = append(downs, add('S', salt(), k))
			}
		default:
			downs = append(downs, add('S', salt(), k))
		}
		c.Note("skip.shape.node-downstream-of-K")
	}
	cs, header := c11SkipBuild(c, false, desc)
	N := len(desc)
	var ans strings.Builder
	var ops []string
	for M := 5 + r.Intn(21); len(ops) < M; {
		pick := r.Intn(100)
		switch {
		case pick < 30: // set an X
			p := xs[r.Intn(len(xs))]
			v := 0
			if r.Intn(2) == 0 {
				v = cs.freshVal()
				c.Note("skip.sp-X.positive")
			} else {
				c.Note("skip.sp-X.zero")
			}
			cs.skipExec(c11Op{kind: "sp", a: p, b: v}, &ans, &ops)
		case pick < 42: // set another parameter (Y's cone)
			cs.skipExec(c11Op{kind: "sp", a: ps[r.Intn(len(ps))], b: cs.freshVal()}, &ans, &ops)
		case pick < 47 && len(ps) > 1: // re-wire port 0 of a struct node upstream of Y to another parameter
			u := upstream[r.Intn(len(upstream))]
			cur := cs.nd[u].sc[0]
			p := ps[r.Intn(len(ps))]
			if p == cur {
				continue
			}
			c.Note("skip.si-upstream-of-Y")
			cs.skipExec(c11Op{"si", u, 0, p}, &ans, &ops)
		case pick < 80: // read a K node
			cs.skipExec(c11Op{kind: "rd", a: ks[r.Intn(len(ks))]}, &ans, &ops)
		case pick < 88 && len(downs) > 0:
			cs.skipExec(c11Op{kind: "rd", a: downs[r.Intn(len(downs))]}, &ans, &ops)
		case pick < 93:
			cs.skipExec(c11Op{kind: "rd", a: y}, &ans, &ops)
		default:
			cs.skipExec(c11Op{kind: "rd", a: r.Intn(N)}, &ans, &ops)
		}
	}
	cs.errNotes()
	c11SkipEmit(c, false, header, ops, &ans)
}

// ---- message family: parameter.Value[T].ApplyMessage with composite T, rejected messages -------

type c11AB struct {
	A int
	B int
}

// payload of a "msg" op: the protocol text of the op, the JSON sent, and what an ACCEPTED message
// does to the bookkeeping (nil for messages that must be rejected)
type c11Msg struct {
	txt    string
	json   string
	accept func(n *c11Node)
}

func c11EncList(l []int) int {
	h := int64(7)
	for _, e := range l {
		h = (h*31 + 17 + int64(e)) % c11M
	}
	return int((h*31 + int64(len(l))) % c11M)
}

func c11EncAB(v c11AB) int {
	h := int64(5)
	h = (h*31 + 19 + int64(v.A)) % c11M
	h = (h*31 + 23 + int64(v.B)) % c11M
	return int(h)
}

func c11EncMap(m map[string]int) int {
	h := int64(11)
	for i := 0; i < 4; i++ {
		if v, ok := m["k"+strconv.Itoa(i)]; ok {
			h = (h*31 + 29 + int64(i)) % c11M
			h = (h*31 + int64(v)) % c11M
		}
	}
	return int((h*31 + int64(len(m))) % c11M)
}

// adapter processors: one port A of the composite type, Process() = enc(A.Value())
type c11EL struct {
	A   nodes.NodeOutput[[]int]
	id  int
	rec *c11Rec
}
type c11ET struct {
	id  int
	A   nodes.NodeOutput[c11AB]
	rec *c11Rec
}
type c11EM struct {
	rec *c11Rec
	id  int
	A   nodes.NodeOutput[map[string]int]
}

func (t c11EL) Process() (int, error) {
	v := c11EncList(t.A.Value())
	t.rec.log = append(t.rec.log, t.id)
	return v, nil
}
func (t c11ET) Process() (int, error) {
	v := c11EncAB(t.A.Value())
	t.rec.log = append(t.rec.log, t.id)
	return v, nil
}
func (t c11EM) Process() (int, error) {
	v := c11EncMap(t.A.Value())
	t.rec.log = append(t.rec.log, t.id)
	return v, nil
}

func c11CompParam[T any](kind byte, i int, def T, enc func(T) int, fromJSON bool) *c11Node {
	pv := &parameter.Value[T]{Name: "p" + strconv.Itoa(i), DefaultValue: def}
	if fromJSON {
		// what the graph loader does: currentValue becomes the applied value, defaultValue stays unused
		cur, err := json.Marshal(def)
		if err != nil {
			panic(err)
		}
		pv = &parameter.Value[T]{}
		body := fmt.Sprintf("{\"name\":\"p%d\",\"description\":\"c11\",\"currentValue\":%s,\"cli\":null}", i, cur)
		if err := pv.FromJSON(jbtf.Decoder{}, []byte(body)); err != nil {
			panic(err)
		}
	}
	read := func() int { return enc(pv.Value()) }
	return &c11Node{kind: kind, node: pv, comp: pv, cached: read, readFn: read, apply: pv.ApplyMessage, pval: enc(def)}
}

func c11MapTokens(m map[string]int) string {
	var sb strings.Builder
	fmt.Fprintf(&sb, "%d", len(m))
	for i := 0; i < 4; i++ {
		if v, ok := m["k"+strconv.Itoa(i)]; ok {
			fmt.Fprintf(&sb, " %d %d", i, v)
		}
	}
	return sb.String()
}

func c11Ints(l []int) string {
	var sb strings.Builder
	fmt.Fprintf(&sb, "%d", len(l))
	for _, e := range l {
		fmt.Fprintf(&sb, " %d", e)
	}
	return sb.String()
}

// one history of the message family
func c11MsgHistory(c *Ctx) {
	r := c.Rng
	cs := &c11Case{c: c, rec: &c11Rec{}, fresh: 100}
	var req strings.Builder
	small := func() int { return 1 + r.Intn(99) }

	// ---- parameters: 1-2 int parameters and 1-3 composite ones, in random order
	kinds := []byte{'Q'}
	if r.Intn(2) == 0 {
		kinds = append(kinds, 'Q')
	}
	for k := 1 + r.Intn(3); k > 0; k-- {
		kinds = append(kinds, []byte{'L', 'T', 'M'}[r.Intn(3)])
	}
	r.Shuffle(len(kinds), func(a, b int) { kinds[a], kinds[b] = kinds[b], kinds[a] })
	var params, comps, ints []int // ints: nodes with an int output (sources of S nodes)
	compJSON := func() bool {
		if r.Intn(3) == 0 {
			c.Note("msg.composite-parameter.FromJSON")
			return true
		}
		c.Note("msg.composite-parameter.literal")
		return false
	}
	for i, k := range kinds {
		var n *c11Node
		switch k {
		case 'Q':
			v := small()
			if r.Intn(7) == 0 {
				v = 0
			}
			n = c11NewSource(c, 'Q', i, v, false)
			fmt.Fprintf(&req, " Q %d", v)
			ints = append(ints, i)
		case 'L':
			var l []int // nil default for the empty list half of the time, []int{} otherwise
			if r.Intn(5) != 0 {
				for k := 1 + r.Intn(4); k > 0; k-- {
					l = append(l, small())
				}
			} else if r.Intn(2) == 0 {
				l = []int{}
			}
			n = c11CompParam('L', i, l, c11EncList, compJSON())
			n.cl = l
			fmt.Fprintf(&req, " QL %s", c11Ints(l))
			comps = append(comps, i)
		case 'T':
			v := c11AB{small(), small()}
			if r.Intn(8) == 0 {
				v.B = 0
			}
			n = c11CompParam('T', i, v, c11EncAB, compJSON())
			n.cab = v
			fmt.Fprintf(&req, " QS %d %d", v.A, v.B)
			comps = append(comps, i)
		default:
			m := map[string]int{}
			for j := 0; j < 4; j++ {
				if r.Intn(5) < 3 {
					m["k"+strconv.Itoa(j)] = small()
				}
			}
			n = c11CompParam('M', i, m, c11EncMap, compJSON())
			n.cm = m
			fmt.Fprintf(&req, " QM %s", c11MapTokens(m))
			comps = append(comps, i)
		}
		params = append(params, i)
		cs.nd = append(cs.nd, n)
	}
	// ---- adapters: one per composite parameter, now and then a second one on the same parameter
	adapters := append([]int{}, comps...)
	if r.Intn(4) == 0 {
		adapters = append(adapters, comps[r.Intn(len(comps))])
		c.Note("msg.shape.two-adapters-on-one-parameter")
	}
	for _, p := range adapters {
		i := len(cs.nd)
		useNew := r.Intn(2) == 0
		direct := r.Intn(2) == 0 // the parameter itself, or its Out()
		var n *c11Node
		switch pv := cs.nd[p].comp.(type) {
		case *parameter.Value[[]int]:
			in := pv.Out()
			if direct {
				in = pv
			}
			n = c11Wrap(c11EL{A: in, id: i, rec: cs.rec}, useNew)
		case *parameter.Value[c11AB]:
			in := pv.Out()
			if direct {
				in = pv
			}
			n = c11Wrap(c11ET{A: in, id: i, rec: cs.rec}, useNew)
		case *parameter.Value[map[string]int]:
			in := pv.Out()
			if direct {
				in = pv
			}
			n = c11Wrap(c11EM{A: in, id: i, rec: cs.rec}, useNew)
		default:
			panic("c11 msg: composite parameter type")
		}
		n.kind, n.sc, n.ar = 'E', []int{p}, [][]int{}
		cs.nd = append(cs.nd, n)
		fmt.Fprintf(&req, " E 0 1 %d 0", p)
		ints = append(ints, i)
	}
	// ---- ordinary S nodes over the adapters, the int parameters and each other
	var strs []int
	for k, ns := 0, 1+r.Intn(4); k < ns; k++ {
		i := len(cs.nd)
		var sc []int
		var ar [][]int
		if k == 0 {
			// the first one consumes everything: up to 4 scalar ports, the rest in an array
			src := append([]int{}, ints...)
			r.Shuffle(len(src), func(a, b int) { src[a], src[b] = src[b], src[a] })
			cut := 1 + r.Intn(4)
			if cut > len(src) {
				cut = len(src)
			}
			sc = src[:cut]
			if len(src) > cut || r.Intn(3) == 0 {
				ar = append(ar, append([]int{}, src[cut:]...))
			}
		} else {
			for q := 1 + r.Intn(3); q > 0; q-- {
				if r.Intn(6) == 0 {
					sc = append(sc, -1)
				} else {
					sc = append(sc, ints[r.Intn(len(ints))])
				}
			}
			for q := r.Intn(3); q > 0; q-- {
				a := []int{}
				for l := r.Intn(4); l > 0; l-- {
					a = append(a, ints[r.Intn(len(ints))])
				}
				ar = append(ar, a)
			}
		}
		lit := make([]c11In, len(sc))
		for q, s := range sc {
			if s >= 0 {
				lit[q] = cs.outOf(s)
			}
		}
		alit := make([][]c11In, len(ar))
		for q, a := range ar {
			alit[q] = []c11In{}
			for _, s := range a {
				alit[q] = append(alit[q], cs.outOf(s))
			}
		}
		salt := 1 + r.Intn(100000)
		n := c11NewStruct(i, salt, cs.rec, lit, alit, r.Intn(2) == 0)
		if ar == nil {
			ar = [][]int{}
		}
		n.salt, n.sc, n.ar = salt, append([]int{}, sc...), ar
		cs.nd = append(cs.nd, n)
		fmt.Fprintf(&req, " S %d ", salt)
		c11Wiring(&req, n.sc, n.ar)
		ints = append(ints, i)
		strs = append(strs, i)
	}
	N := len(cs.nd)
	header := strconv.Itoa(N) + req.String()

	// ---- messages
	got := map[int]bool{} // the parameter has received a message (accepted or not) before
	newMsg := func(m c11Msg) int {
		cs.msgs = append(cs.msgs, m)
		return len(cs.msgs) - 1
	}
	shuffled := func(parts []string) string {
		r.Shuffle(len(parts), func(a, b int) { parts[a], parts[b] = parts[b], parts[a] })
		return strings.Join(parts, ",")
	}
	accepted := func(p int) c11Op {
		n := cs.nd[p]
		switch n.kind {
		case 'Q':
			v := cs.freshVal()
			if r.Intn(7) == 0 {
				v = n.pval
				c.Note("msg.sp.same-value")
			}
			return c11Op{kind: "sp", a: p, b: v}
		case 'L':
			k := r.Intn(6)
			if len(n.cl) > 0 && r.Intn(20) < 7 {
				k = r.Intn(len(n.cl))
				c.Note("msg.sl.shorter-than-current")
			}
			if k == 0 {
				c.Note("msg.sl.empty")
			}
			l := make([]int, k)
			parts := make([]string, k)
			for j := range l {
				l[j] = cs.freshVal()
				parts[j] = strconv.Itoa(l[j])
			}
			return c11Op{kind: "msg", a: p, b: newMsg(c11Msg{fmt.Sprintf("sl %d %s", p, c11Ints(l)), "[" + strings.Join(parts, ",") + "]",
				func(n *c11Node) { n.cl, n.pval = l, c11EncList(l) }})}
		case 'T':
			fa, fb := r.Intn(5) < 3, r.Intn(5) < 3
			var v c11AB
			var parts []string
			if fa {
				v.A = cs.freshVal()
				parts = append(parts, fmt.Sprintf("%q:%d", "A", v.A))
			}
			if fb {
				v.B = cs.freshVal()
				parts = append(parts, fmt.Sprintf("%q:%d", "B", v.B))
			}
			switch {
			case fa && fb:
				c.Note("msg.so.both-fields")
			case !fa && !fb:
				c.Note("msg.so.empty-object")
			default:
				c.Note("msg.so.one-field")
			}
			if (!fa && n.cab.A != 0) || (!fb && n.cab.B != 0) {
				c.Note("msg.so.absent-field-was-nonzero")
			}
			b2i := map[bool]int{false: 0, true: 1}
			return c11Op{kind: "msg", a: p, b: newMsg(c11Msg{fmt.Sprintf("so %d %d %d %d %d", p, b2i[fa], v.A, b2i[fb], v.B), "{" + shuffled(parts) + "}",
				func(n *c11Node) { n.cab, n.pval = v, c11EncAB(v) }})}
		default:
			m := map[string]int{}
			var cur []int
			for j := 0; j < 4; j++ {
				if _, ok := n.cm["k"+strconv.Itoa(j)]; ok {
					cur = append(cur, j)
				}
			}
			if len(cur) >= 2 && r.Intn(5) < 2 {
				// a strict, non-empty subset of the keys the map has now
				r.Shuffle(len(cur), func(a, b int) { cur[a], cur[b] = cur[b], cur[a] })
				for _, j := range cur[:1+r.Intn(len(cur)-1)] {
					m["k"+strconv.Itoa(j)] = cs.freshVal()
				}
				c.Note("msg.sm.strict-subset-of-current-keys")
			} else {
				for j := 0; j < 4; j++ {
					if r.Intn(2) == 0 {
						m["k"+strconv.Itoa(j)] = cs.freshVal()
					}
				}
			}
			dropped := false
			for _, j := range cur {
				if _, ok := m["k"+strconv.Itoa(j)]; !ok {
					dropped = true
				}
			}
			if dropped {
				c.Note("msg.sm.drops-a-current-key")
			}
			if len(m) == 0 {
				c.Note("msg.sm.empty")
			}
			var parts []string
			for k, v := range m {
				parts = append(parts, fmt.Sprintf("%q:%d", k, v))
			}
			sort.Strings(parts) // map order must not leak into the PRNG-driven shuffle below
			return c11Op{kind: "msg", a: p, b: newMsg(c11Msg{fmt.Sprintf("sm %d %s", p, c11MapTokens(m)), "{" + shuffled(parts) + "}",
				func(n *c11Node) { n.cm, n.pval = m, c11EncMap(m) }})}
		}
	}
	bad := func(p int) c11Op {
		n := cs.nd[p]
		kind := r.Intn(3)
		if n.kind == 'Q' {
			kind = r.Intn(2)
		}
		var js string
		switch kind {
		case 0:
			js = []string{"{\"A\":", "[1,2", "{", "[", "12x", "{\"k0\":1,}", "[7,]"}[r.Intn(7)]
		case 1:
			if n.kind == 'Q' {
				js = []string{"\"x\"", "[1]", "{\"A\":1}", "1.5", "true"}[r.Intn(5)]
			} else if n.kind == 'L' {
				js = []string{"5", "\"x\"", "{\"A\":1}"}[r.Intn(3)]
			} else {
				js = []string{"5", "\"x\"", "[1,2]"}[r.Intn(3)]
			}
		default:
			a, b := cs.freshVal(), cs.freshVal()
			switch n.kind {
			case 'L':
				js = []string{fmt.Sprintf("[%d,\"x\",%d]", a, b), fmt.Sprintf("[%d,%d,\"x\"]", a, b), fmt.Sprintf("[%d,{},%d,%d]", a, b, a)}[r.Intn(3)]
			case 'T':
				js = []string{fmt.Sprintf("{\"A\":%d,\"B\":\"x\"}", a), fmt.Sprintf("{\"B\":%d,\"A\":[1]}", b), fmt.Sprintf("{\"A\":%d,\"B\":1.5}", a)}[r.Intn(3)]
			default:
				js = []string{fmt.Sprintf("{\"k0\":%d,\"k1\":\"x\"}", a), fmt.Sprintf("{\"k3\":%d,\"k2\":%d,\"k0\":[1]}", a, b), fmt.Sprintf("{\"k1\":%d,\"k2\":null,\"k3\":{}}", a)}[r.Intn(3)]
			}
		}
		c.Note(fmt.Sprintf("msg.sb.kind-%d.%c", kind, n.kind))
		if !got[p] {
			c.Note("msg.sb.first-message-ever")
			if n.pval != map[byte]int{'Q': 0, 'L': 217, 'T': c11EncAB(c11AB{}), 'M': c11EncMap(nil)}[n.kind] {
				c.Note("msg.sb.first-message-ever.default-not-zero-value")
			}
		}
		return c11Op{kind: "msg", a: p, b: newMsg(c11Msg{fmt.Sprintf("sb %d %d", p, kind), js, nil})}
	}
	dependant := func(p int) int { // a node strictly downstream of p, -1 if none
		var ds []int
		for _, j := range cs.downstream(p) {
			if j != p {
				ds = append(ds, j)
			}
		}
		if len(ds) == 0 {
			return -1
		}
		return ds[r.Intn(len(ds))]
	}

	var ops []string
	var ans strings.Builder
	var forced []c11Op
	afterBad, afterAccept := false, false // the forced read follows a rejected / an accepted message
	for M := 6 + r.Intn(25); len(ops) < M || len(forced) > 0; {
		var o c11Op
		pick := r.Intn(100)
		switch {
		case len(forced) > 0:
			o = forced[0]
			forced = forced[1:]
		case pick < 45:
			p := params[r.Intn(len(params))]
			if r.Intn(3) != 0 { // composite parameters more often than int ones
				p = comps[r.Intn(len(comps))]
			}
			isBad := r.Intn(100) < 25
			if !got[p] {
				isBad = r.Intn(2) == 0
			}
			if isBad {
				o = bad(p)
			} else {
				o = accepted(p)
			}
		case pick < 48 && len(strs) > 0:
			i := strs[r.Intn(len(strs))]
			n := cs.nd[i]
			var cand []int
			for _, s := range ints {
				if s < i {
					cand = append(cand, s)
				}
			}
			src := -1
			if r.Intn(5) != 0 {
				src = cand[r.Intn(len(cand))]
			}
			o = c11Op{"si", i, r.Intn(len(n.sc)), src}
		case pick < 51 && len(strs) > 0:
			i := strs[r.Intn(len(strs))]
			n := cs.nd[i]
			if len(n.ar) == 0 {
				continue
			}
			k := r.Intn(len(n.ar))
			if len(n.ar[k]) > 0 && r.Intn(2) == 0 {
				o = c11Op{"ar", i, k, r.Intn(len(n.ar[k]))}
			} else if len(n.ar[k]) < 6 {
				var cand []int
				for _, s := range ints {
					if s < i {
						cand = append(cand, s)
					}
				}
				o = c11Op{"aa", i, k, cand[r.Intn(len(cand))]}
			} else {
				continue
			}
		default:
			o = c11Op{kind: "rd", a: r.Intn(N)}
			if r.Intn(4) != 0 {
				o.a = ints[r.Intn(len(ints))]
			}
		}
		// state before a message, for the harness's own assertion on rejected messages
		n := cs.nd[o.a]
		var before strings.Builder
		isMsg := o.kind == "msg" || (o.kind == "sp")
		if isMsg {
			cs.observe(&before)
		}
		txt := ""
		if o.kind == "msg" {
			txt = cs.msgs[o.b].txt
		} else {
			txt = o.String()
		}
		wasBad := o.kind == "msg" && cs.msgs[o.b].accept == nil
		ok, _ := cs.exec(o, &ans)
		ops = append(ops, txt)
		c.Note("msg.op." + strings.Fields(txt)[0])
		c.Note("msg.status." + cs.lastStatus)
		switch {
		case wasBad:
			var after strings.Builder
			cs.observe(&after)
			if cs.lastStatus != "rej" {
				c.Note("msg.BAD-MESSAGE-NOT-REJECTED")
			}
			if after.String() != before.String() {
				c.Note("msg.REJECTED-MESSAGE-CHANGED-STATE")
			}
			if got[o.a] && afterAccept {
				c.Note("msg.sb.right-after-accepted-message")
			}
			got[o.a] = true
			afterBad, afterAccept = true, false
			if d := dependant(o.a); d >= 0 && r.Intn(100) < 80 {
				forced = append(forced, c11Op{kind: "rd", a: d})
				if r.Intn(3) == 0 {
					forced = append(forced, c11Op{kind: "rd", a: dependant(o.a)})
				}
			}
		case isMsg && ok:
			if n.cached() != n.pval {
				c.Note("msg.ACCEPTED-MESSAGE-VALUE-NOT-AS-DECODED")
			}
			if !got[o.a] {
				c.Note("msg.accepted.first-message-ever")
			}
			got[o.a] = true
			afterBad, afterAccept = false, true
			switch d := dependant(o.a); {
			case d < 0:
			case r.Intn(100) < 35:
				forced = append(forced, bad(o.a))
			case r.Intn(100) < 60:
				forced = append(forced, c11Op{kind: "rd", a: d})
			}
		case isMsg:
			c.Note("msg.GOOD-MESSAGE-NOT-ACCEPTED")
		case o.kind == "rd" && ok:
			if want := cs.skipSpec(o.a); cs.lastV1 != want || cs.lastV2 != want {
				c.Note("msg.FRESHNESS-FAILED")
			}
			sc, ar := cs.wiring()
			below := false
			for _, p := range params {
				below = below || (p != o.a && c11Reaches(sc, ar, o.a, p))
			}
			switch {
			case afterBad && below:
				c.Note("msg.rd-dependant-after-rejected-message")
			case afterAccept && below:
				c.Note("msg.rd-dependant-after-accepted-message")
			}
			switch cs.nd[o.a].kind {
			case 'E':
				c.Note("msg.rd-adapter")
			case 'S':
				c.Note("msg.rd-S")
			case 'Q':
				c.Note("msg.rd-int-parameter")
			default:
				c.Note("msg.rd-composite-parameter")
			}
			if len(cs.lastX) > 0 {
				c.Note("msg.rd.exec-1+")
			} else {
				c.Note("msg.rd.exec-0")
			}
			afterBad, afterAccept = false, false
		default:
			afterBad, afterAccept = false, false
		}
	}
	cs.errNotes()
	q := header + " " + strconv.Itoa(len(ops)) + " " + strings.Join(ops, " ")
	a := strings.TrimPrefix(ans.String(), " ")
	c.Emit("c11.msg.hist", q, a)
	c.Emit("c11.holds.fresh", q+" @ "+a, "true")
	c.Emit("c11.holds.no_spurious", q+" @ "+a, "true")
	c.Emit("c11.holds.version", q+" @ "+a, "true")
}

// skipExec2: one op of the general skipper histories (K / W / N with any wiring), with the Go-side
// freshness assertion and the notes of that family
func (cs *c11Case) skipExec2(o c11Op, ans *strings.Builder, ops *[]string) bool {
	c := cs.c
	n := cs.nd[o.a]
	isSkipper := func(j int) bool { k := cs.nd[j].kind; return k == 'K' || k == 'W' || k == 'N' }
	// notes that need the state BEFORE the call
	switch o.kind {
	case "si":
		if isSkipper(o.a) {
			tag := fmt.Sprintf("skip.%c.rewired-skipper-port.", n.kind)
			switch {
			case o.d < 0 && n.sc[o.b] < 0:
				c.Note(tag + "nil-on-nil")
			case o.d < 0:
				c.Note(tag + "disconnect-" + c11PortName[o.b])
			case n.sc[o.b] < 0:
				c.Note(tag + "connect-" + c11PortName[o.b])
			default:
				c.Note(tag + "replace-" + c11PortName[o.b])
			}
			if o.d >= 0 && isSkipper(o.d) {
				c.Note("skip.si.skipper-wired-to-skipper")
			}
		} else {
			c.Note("skip.si.S-port")
		}
		if o.d > o.a {
			c.Note("skip.si.source-with-larger-id")
		}
	case "sp":
		for _, m := range cs.nd {
			if m.kind == 'W' && m.sc[1] == o.a && (n.pval%2) != (o.b%2) {
				c.Note("skip.sp.flips-parity-of-a-W-B")
				break
			}
		}
		for _, m := range cs.nd {
			if m.kind == 'K' && m.sc[0] == o.a && (n.pval > 0) != (o.b > 0) {
				c.Note("skip.sp.flips-sign-of-a-K-A")
				break
			}
		}
	}
	ok, _ := cs.exec(o, ans)
	*ops = append(*ops, o.String())
	c.Note("skip2.op." + o.kind)
	if !ok {
		c.Note("skip.op.PANIC")
		return false
	}
	if o.kind != "rd" {
		return true
	}
	if want := cs.skipSpec(o.a); cs.lastV1 != want || cs.lastV2 != want {
		c.Note("skip.FRESHNESS-FAILED")
		fmt.Fprintf(os.Stderr, "c11 skip: read of node %d returned %d %d, from-scratch value %d; ops so far: %s\n",
			o.a, cs.lastV1, cs.lastV2, want, strings.Join(*ops, " "))
	}
	pos := func(l []int, j int) int {
		for k, e := range l {
			if e == j {
				return k
			}
		}
		return -1
	}
	// what every skipper executed by the FIRST read did (the bookkeeping is the wiring it saw)
	for _, j := range cs.lastX {
		m := cs.nd[j]
		if !isSkipper(j) {
			continue
		}
		wiredCount := 0
		over := false
		for _, s := range m.sc {
			if s >= 0 {
				wiredCount++
				over = over || isSkipper(s)
			}
		}
		if over {
			c.Note("skip.exec.skipper-over-skipper")
		}
		val := func(k int) int { return cs.skipSpec(m.sc[k]) }
		switch m.kind {
		case 'W':
			switch {
			case m.sc[1] < 0 && wiredCount > 0:
				c.Note("skip.W.read-nothing.other-ports-wired")
			case m.sc[1] < 0:
				c.Note("skip.W.read-nothing.all-nil")
			case m.sc[0] >= 0 && val(1)%2 == 1:
				c.Note("skip.W.pulled-A-after-B")
				a, b := pos(cs.lastX, m.sc[0]), pos(cs.lastX, m.sc[1])
				if a >= 0 && b >= 0 && b < a {
					c.Note("skip.W.log-shows-B-executed-before-A")
				}
			case m.sc[0] >= 0:
				c.Note("skip.W.skipped-wired-A.b-even")
			default:
				c.Note("skip.W.A-nil")
			}
			if m.sc[1] >= 0 && m.sc[2] < 0 {
				c.Note("skip.W.C-nil")
			}
		case 'N':
			switch {
			case m.sc[0] < 0 && wiredCount > 0:
				c.Note("skip.N.early-return-with-wired-B-or-C")
			case m.sc[0] < 0:
				c.Note("skip.N.early-return.all-nil")
			case wiredCount == 3:
				c.Note("skip.N.read-all-three")
			default:
				c.Note("skip.N.read-A-and-some-nil")
			}
		case 'K':
			switch {
			case m.sc[0] < 0 && m.sc[1] >= 0:
				c.Note("skip.K.A-nil.read-nothing.B-wired")
			case m.sc[0] < 0:
				c.Note("skip.K.A-nil.read-nothing.all-nil")
			case val(0) <= 0 && m.sc[1] >= 0:
				c.Note("skip.K.skipped-wired-B")
			case val(0) <= 0:
				c.Note("skip.K.x-nonpositive.B-nil")
			case m.sc[1] < 0:
				c.Note("skip.K.x-positive.B-nil")
			default:
				c.Note("skip.K.read-both")
			}
			if m.sc[0] >= 0 && cs.nd[m.sc[0]].kind != 'P' && cs.nd[m.sc[0]].kind != 'Q' {
				c.Note("skip.K.A-is-a-struct-node")
			}
		}
	}
	kind := string(n.kind)
	switch {
	case n.kind == 'P' || n.kind == 'Q':
		c.Note("skip2.rd-parameter")
	case len(cs.lastY) > 0:
		c.Note("skip2.rd-" + kind + ".second-read-executed") // the known finding (or downstream of it)
	case len(cs.lastX) > 0:
		c.Note("skip2.rd-" + kind + ".first-read-executed-only")
	default:
		c.Note("skip2.rd-" + kind + ".executed-nothing")
	}
	return true
}

// one random history over a graph of K / W / N skippers with ANY wiring (nil ports, parameters,
// S nodes, other skippers, 2-3 levels), S nodes downstream, and re-wiring of the skippers' own ports
func c11SkipRandom2(c *Ctx) bool {
	r := c.Rng
	var desc []c11SkipNode
	salt := func() int { return 1 + r.Intn(100000) }
	np := 2 + r.Intn(2)
	for i := 0; i < np; i++ {
		k := byte('P')
		if r.Intn(2) == 0 {
			k = 'Q'
		}
		v := r.Intn(40) // 0, odd and even values all common
		if r.Intn(5) == 0 {
			v = 0
		}
		desc = append(desc, c11SkipNode{k, v, nil})
	}
	var skippers []int
	src := func(i int, preferSkipper bool) int {
		if r.Intn(5) == 0 {
			return -1
		}
		if preferSkipper && len(skippers) > 0 && r.Intn(2) == 0 {
			return skippers[r.Intn(len(skippers))]
		}
		return r.Intn(i)
	}
	stacked := r.Intn(10) < 6 // skipper over skipper on purpose
	for n := 3 + r.Intn(6); n > 0; n-- {
		i := len(desc)
		switch pick := r.Intn(100); {
		case pick < 30:
			sc := make([]int, 1+r.Intn(3))
			for k := range sc {
				sc[k] = src(i, true)
			}
			desc = append(desc, c11SkipNode{'S', salt(), sc})
		case pick < 50:
			desc = append(desc, c11SkipNode{'K', salt(), []int{src(i, stacked), src(i, stacked)}})
			skippers = append(skippers, i)
		case pick < 78:
			desc = append(desc, c11SkipNode{'W', salt(), []int{src(i, stacked), src(i, stacked), src(i, stacked)}})
			skippers = append(skippers, i)
		default:
			desc = append(desc, c11SkipNode{'N', salt(), []int{src(i, stacked), src(i, stacked), src(i, stacked)}})
			skippers = append(skippers, i)
		}
	}
	if len(skippers) == 0 {
		i := len(desc)
		desc = append(desc, c11SkipNode{'W', salt(), []int{src(i, false), r.Intn(i), src(i, false)}})
		skippers = append(skippers, i)
	}
	if r.Intn(2) == 0 { // an ordinary node downstream of a skipper
		desc = append(desc, c11SkipNode{'S', salt(), []int{skippers[r.Intn(len(skippers))]}})
	}
	{
		sc := make([][]int, len(desc))
		for i, d := range desc {
			sc[i] = d.sc
		}
		if c11Paths(sc, make([][][]int, len(desc))) > c11PathCap/2 {
			c.Note("gen.plan-over-path-cap")
			return false
		}
	}
	cs, header := c11SkipBuild(c, false, desc)
	N := len(desc)
	var params, structs []int
	for i, n := range cs.nd {
		if n.kind == 'P' || n.kind == 'Q' {
			params = append(params, i)
		} else {
			structs = append(structs, i)
		}
	}
	// levels of skippers stacked directly on each other
	depth := make([]int, N)
	maxDepth := 0
	for _, i := range skippers {
		depth[i] = 1
		for _, s := range cs.nd[i].sc {
			if s >= 0 && depth[s]+1 > depth[i] {
				depth[i] = depth[s] + 1
			}
		}
		if depth[i] > maxDepth {
			maxDepth = depth[i]
		}
	}
	switch {
	case maxDepth >= 3:
		c.Note("skip.shape.skipper-over-skipper.3+-levels")
	case maxDepth == 2:
		c.Note("skip.shape.skipper-over-skipper.2-levels")
	default:
		c.Note("skip.shape.no-stacked-skippers")
	}
	c.Note("skip.shape.general")
	var ans strings.Builder
	var ops []string
	follow := -1 // node whose wiring / input was just changed: read at or downstream of it next
	for M := 8 + r.Intn(23); len(ops) < M; {
		pick := r.Intn(100)
		switch {
		case follow >= 0 && r.Intn(10) < 7:
			ds := cs.downstream(follow)
			follow = -1
			cs.skipExec2(c11Op{kind: "rd", a: ds[r.Intn(len(ds))]}, &ans, &ops)
		case pick < 22: // Set; parities and signs flip often
			p := params[r.Intn(len(params))]
			v := cs.freshVal()
			switch r.Intn(4) {
			case 0:
				v = 0
			case 1:
				if v%2 == cs.nd[p].pval%2 { // flip the parity
					v++
					cs.fresh = v
				}
			}
			if cs.skipExec2(c11Op{kind: "sp", a: p, b: v}, &ans, &ops) && r.Intn(2) == 0 {
				follow = p
			}
		case pick < 47: // re-wire a port: mostly of a skipper, mostly changing its nil-ness
			i := structs[r.Intn(len(structs))]
			if r.Intn(4) != 0 {
				i = skippers[r.Intn(len(skippers))]
			}
			n := cs.nd[i]
			if len(n.sc) == 0 {
				continue
			}
			k := r.Intn(len(n.sc))
			d := -1
			if n.sc[k] < 0 || r.Intn(10) < 6 {
				if i > 0 && r.Intn(3) != 0 {
					d = r.Intn(i)
				} else {
					d = cs.anySrc(i)
				}
				if d >= 0 {
					sc0, ar0 := cs.wiring()
					if d == i || c11Reaches(sc0, ar0, d, i) {
						c.Note("gen.cycle-avoided")
						d = cs.anySrc(i)
					}
				}
				if d >= 0 {
					sc1, ar1 := cs.wiring()
					sc1[i][k] = d
					if c11Paths(sc1, ar1) > c11PathCap {
						c.Note("gen.op-over-path-cap")
						continue
					}
				}
			}
			if cs.skipExec2(c11Op{"si", i, k, d}, &ans, &ops) {
				follow = i
			}
		case pick < 85:
			cs.skipExec2(c11Op{kind: "rd", a: skippers[r.Intn(len(skippers))]}, &ans, &ops)
		default:
			cs.skipExec2(c11Op{kind: "rd", a: r.Intn(N)}, &ans, &ops)
		}
	}
	cs.errNotes()
	c11SkipEmit(c, false, header, ops, &ans)
	return true
}

// ---- scripted graphs of the ordinary kind (P / Q / S with arrays), used by the wide, sn and deep
// families: all wiring in the Data literals, every dependency has a smaller id

type c11GNode struct {
	kind byte // 'P', 'Q', 'S'
	v    int  // initial value / salt
	sc   []int
	ar   [][]int
}

func c11BuildGraph(c *Ctx, fixed bool, desc []c11GNode) (*c11Case, string) {
	cs := &c11Case{c: c, rec: &c11Rec{}, fresh: 100, fixed: fixed}
	var req strings.Builder
	fmt.Fprintf(&req, "%d", len(desc))
	for i, d := range desc {
		if d.kind != 'S' {
			cs.nd = append(cs.nd, c11NewSource(c, d.kind, i, d.v, fixed))
			fmt.Fprintf(&req, " %c %d", d.kind, d.v)
			continue
		}
		lit := make([]c11In, len(d.sc))
		for k, s := range d.sc {
			if s >= i {
				panic("c11: scripted graph with a dependency of larger id")
			}
			if s >= 0 {
				lit[k] = cs.outOf(s)
			}
		}
		alit := make([][]c11In, len(d.ar))
		ar := make([][]int, len(d.ar))
		for k, a := range d.ar {
			alit[k] = []c11In{}
			ar[k] = append([]int{}, a...)
			for _, s := range a {
				if s >= i {
					panic("c11: scripted graph with a dependency of larger id")
				}
				alit[k] = append(alit[k], cs.outOf(s))
			}
		}
		n := c11NewStruct(i, d.v, cs.rec, lit, alit, !fixed && c.Rng.Intn(2) == 0)
		n.salt, n.sc, n.ar = d.v, append([]int{}, d.sc...), ar
		cs.nd = append(cs.nd, n)
		fmt.Fprintf(&req, " S %d ", d.v)
		c11Wiring(&req, n.sc, n.ar)
	}
	return cs, req.String()
}

// emitDepOrder: 64 calls of Dependencies() of struct node i against the harness's bookkeeping
func (cs *c11Case) emitDepOrder(i int) {
	const reps = 64
	n := cs.nd[i]
	var rq, names strings.Builder
	c11Wiring(&rq, n.sc, n.ar)
	k := -1
	okDeps := c11Guard(func() {
		for t := 0; t < reps; t++ {
			deps := n.node.Dependencies()
			if k < 0 {
				k = len(deps)
			}
			if len(deps) != k {
				k = -2
				names.WriteString(" length-changed")
			}
			for _, d := range deps {
				names.WriteString(" " + d.Name())
			}
		}
	})
	if !okDeps {
		names.WriteString(" panic")
	}
	cs.c.Emit("c11.holds.deporder", fmt.Sprintf("%s @ %d %d%s", rq.String(), reps, k, names.String()), "true")
}

// emitOrdinary: the four lines of an ordinary history
func c11EmitOrdinary(c *Ctx, header string, ops []string, ans *strings.Builder) {
	q := header + " " + strconv.Itoa(len(ops))
	if len(ops) > 0 {
		q += " " + strings.Join(ops, " ")
	}
	a := strings.TrimPrefix(ans.String(), " ")
	c.Emit("c11.hist", q, a)
	c.Emit("c11.holds.fresh", q+" @ "+a, "true")
	c.Emit("c11.holds.no_spurious", q+" @ "+a, "true")
	c.Emit("c11.holds.version", q+" @ "+a, "true")
}

// ---- wide family: a node with 13-40 dependencies on three or more ports incl. both array ports,
// sources at different versions, long runs of idle reads, changes in the middle of a long array

func c11WideHistory(c *Ctx) {
	r := c.Rng
	var desc []c11GNode
	small := func() int { return 1 + r.Intn(99) }
	pk := func() byte {
		if r.Intn(2) == 0 {
			return 'Q'
		}
		return 'P'
	}
	var params, srcs []int
	for k := 4 + r.Intn(5); k > 0; k-- {
		params = append(params, len(desc))
		desc = append(desc, c11GNode{kind: pk(), v: small()})
	}
	srcs = append(srcs, params...)
	// shallow struct sources (over parameters; one of them maybe over another one)
	var shallow []int
	for k := 2 + r.Intn(3); k > 0; k-- {
		i := len(desc)
		sc := []int{params[r.Intn(len(params))]}
		if r.Intn(2) == 0 {
			sc = append(sc, params[r.Intn(len(params))])
		}
		if len(shallow) > 0 && r.Intn(4) == 0 {
			sc[0] = shallow[r.Intn(len(shallow))]
		}
		desc = append(desc, c11GNode{kind: 'S', v: 1 + r.Intn(100000), sc: sc})
		shallow = append(shallow, i)
		srcs = append(srcs, i)
	}
	// the wide node
	wide := len(desc)
	ns := 1 + r.Intn(4)
	sc := make([]int, ns)
	for k := range sc {
		sc[k] = srcs[r.Intn(len(srcs))]
	}
	if ns >= 2 && r.Intn(3) == 0 {
		sc[r.Intn(ns)] = -1
	}
	hot := srcs[r.Intn(len(srcs))] // a source that occurs several times in one array and in both
	mk := func(n int, hotCount int) []int {
		a := make([]int, n)
		for k := range a {
			a[k] = srcs[r.Intn(len(srcs))]
		}
		for ; hotCount > 0; hotCount-- {
			a[r.Intn(n)] = hot
		}
		return a
	}
	xs := mk(5+r.Intn(14), 2+r.Intn(3))
	ys := mk(5+r.Intn(14), 1+r.Intn(3))
	for len(xs)+len(ys)+ns < 14 { // at least 13 dependencies even with one nil scalar port
		xs = append(xs, srcs[r.Intn(len(srcs))])
	}
	desc = append(desc, c11GNode{kind: 'S', v: 1 + r.Intn(100000), sc: sc, ar: [][]int{xs, ys}})
	down := -1
	if r.Intn(10) < 7 {
		down = len(desc)
		if r.Intn(2) == 0 {
			desc = append(desc, c11GNode{kind: 'S', v: 1 + r.Intn(100000), sc: []int{wide}})
		} else {
			desc = append(desc, c11GNode{kind: 'S', v: 1 + r.Intn(100000), sc: []int{params[0]}, ar: [][]int{{wide, params[r.Intn(len(params))]}}})
		}
	}
	cs, header := c11BuildGraph(c, false, desc)
	ndeps := func() int {
		n := cs.nd[wide]
		k := len(n.ar[0]) + len(n.ar[1])
		for _, s := range n.sc {
			if s >= 0 {
				k++
			}
		}
		return k
	}
	switch d := ndeps(); {
	case d < 13:
		c.Note("wide.deps=11-12")
	case d <= 16:
		c.Note("wide.deps=13-16")
	case d <= 24:
		c.Note("wide.deps=17-24")
	case d <= 32:
		c.Note("wide.deps=25-32")
	default:
		c.Note("wide.deps=33-40")
	}
	c.Note("wide.histories")
	var ans strings.Builder
	var ops []string
	do := func(o c11Op) (bool, int) {
		ok, execs := cs.exec(o, &ans)
		ops = append(ops, o.String())
		c.Note("wide.op." + o.kind)
		if !ok {
			c.Note("wide.op.PANIC")
		}
		return ok, execs
	}
	// phase 1: the sources get to DIFFERENT versions before the first read
	var sets []int
	for _, p := range params {
		for k := r.Intn(5); k > 0; k-- {
			sets = append(sets, p)
		}
	}
	r.Shuffle(len(sets), func(a, b int) { sets[a], sets[b] = sets[b], sets[a] })
	for k, p := range sets {
		do(c11Op{kind: "sp", a: p, b: cs.freshVal()})
		if k%4 == 3 && r.Intn(2) == 0 { // struct sources move too: read one in between
			do(c11Op{kind: "rd", a: shallow[r.Intn(len(shallow))]})
		}
	}
	distinct := map[int]bool{}
	for _, a := range cs.nd[wide].ar {
		for _, s := range a {
			distinct[cs.nd[s].node.Version()] = true
		}
	}
	if len(distinct) >= 3 {
		c.Note("wide.array-sources-at-3+-distinct-versions")
	} else if len(distinct) == 2 {
		c.Note("wide.array-sources-at-2-distinct-versions")
	} else {
		c.Note("wide.array-sources-all-at-one-version")
	}
	inBoth := false
	for _, s := range cs.nd[wide].ar[0] {
		for _, t := range cs.nd[wide].ar[1] {
			inBoth = inBoth || s == t
		}
	}
	if inBoth {
		c.Note("wide.same-source-in-both-arrays")
	}
	// phase 2..: runs of idle reads, separated by ONE change
	targets := []int{wide}
	if down >= 0 {
		targets = append(targets, down, down)
	}
	for round, rounds := 0, 2+r.Intn(3); round <= rounds; round++ {
		for k := 5 + r.Intn(6); k > 0; k-- {
			_, execs := do(c11Op{kind: "rd", a: targets[r.Intn(len(targets))]})
			if execs == 0 && len(cs.lastY) == 0 {
				c.Note("wide.idle-reads")
			} else {
				c.Note("wide.reads-that-executed")
			}
			if len(cs.lastY) > 0 {
				c.Note("wide.SECOND-READ-EXECUTED")
			}
		}
		if round == rounds {
			break
		}
		n := cs.nd[wide]
		switch r.Intn(4) {
		case 0, 1: // a Set of ONE source of the wide node
			var cand []int
			for _, a := range n.ar {
				for _, s := range a {
					if cs.nd[s].kind != 'S' {
						cand = append(cand, s)
					}
				}
			}
			p := params[r.Intn(len(params))]
			if len(cand) > 0 {
				p = cand[r.Intn(len(cand))]
			}
			do(c11Op{kind: "sp", a: p, b: cs.freshVal()})
			c.Note("wide.change.set-one-source")
		case 2: // remove from the middle of a long array
			k := r.Intn(2)
			if len(n.ar[k]) < 4 {
				k = 1 - k
			}
			if len(n.ar[k]) >= 3 {
				do(c11Op{"ar", wide, k, 1 + r.Intn(len(n.ar[k])-2)})
				c.Note("wide.change.ar-in-the-middle")
			}
		default: // append to an array
			do(c11Op{"aa", wide, r.Intn(2), srcs[r.Intn(len(srcs))]})
			c.Note("wide.change.aa")
		}
	}
	cs.errNotes()
	c11EmitOrdinary(c, header, ops, &ans)
	for i, n := range cs.nd {
		if n.kind == 'S' {
			cs.emitDepOrder(i)
		}
	}
}

// ---- sn family: a dependency advancing by an exact multiple of 65536 versions between two
// executions of its consumer (`sn p v k` = k consecutive updates of p with the same value v)

func c11SnHistories(c *Ctx) {
	r := c.Rng
	type variant struct {
		name string
		ops  func(p, q, cons int, v func() int) []c11Op
	}
	rd := func(i int) c11Op { return c11Op{kind: "rd", a: i} }
	sn := func(p, v, k int) c11Op { return c11Op{"sn", p, v, k} }
	one := func(k int) variant {
		return variant{fmt.Sprintf("k=%d", k), func(p, q, cons int, v func() int) []c11Op {
			return []c11Op{rd(cons), sn(p, v(), k), rd(cons), rd(cons)}
		}}
	}
	variants := []variant{
		one(65536), one(65536), one(65536), one(65536), // P / Q x one / two levels, see below
		one(65535), one(65537), one(131072), one(1), one(2),
		{"k=65535+sp", func(p, q, cons int, v func() int) []c11Op {
			return []c11Op{rd(cons), sn(p, v(), 65535), {kind: "sp", a: p, b: v()}, rd(cons), rd(cons)}
		}},
		{"k=65536.two-sources", func(p, q, cons int, v func() int) []c11Op {
			return []c11Op{rd(cons), sn(p, v(), 65536), sn(q, v(), 65536), rd(cons), rd(cons)}
		}},
		{"k=65536.twice", func(p, q, cons int, v func() int) []c11Op {
			return []c11Op{rd(cons), sn(p, v(), 65536), rd(cons), sn(p, v(), 65536), rd(cons), sn(p, v(), 196608), rd(cons)}
		}},
	}
	for vi, va := range variants {
		// graph: 0 = p, 1 = q, 2 = near (over p, q), 3 = a second node fed by p, 4 = far (over near)
		kind := byte('P')
		if vi%2 == 1 {
			kind = 'Q'
		}
		if vi >= 4 && r.Intn(2) == 0 {
			kind = 'P' + 'Q' - kind
		}
		deep := (vi/2)%2 == 1
		if vi >= 4 {
			deep = r.Intn(2) == 0
		}
		qk := byte('P')
		if r.Intn(2) == 0 {
			qk = 'Q'
		}
		desc := []c11GNode{{kind: kind, v: 1 + r.Intn(99)}, {kind: qk, v: 1 + r.Intn(99)},
			{kind: 'S', v: 1 + r.Intn(100000), sc: []int{0, 1}},
			{kind: 'S', v: 1 + r.Intn(100000), sc: []int{0}},
			{kind: 'S', v: 1 + r.Intn(100000), sc: []int{2}, ar: [][]int{{1}}}}
		cons := 2
		if deep {
			cons = 4
		}
		cs, header := c11BuildGraph(c, false, desc)
		var ans strings.Builder
		var ops []string
		for _, o := range va.ops(0, 1, cons, cs.freshVal) {
			ok, _ := cs.exec(o, &ans)
			ops = append(ops, o.String())
			if !ok {
				c.Note("sn.op.PANIC")
			}
			if o.kind == "sn" {
				c.Note(fmt.Sprintf("sn.k=%d", o.d))
			}
			if o.kind == "rd" && ok {
				if want := cs.skipSpec(o.a); cs.lastV1 != want || cs.lastV2 != want {
					c.Note("sn.FRESHNESS-FAILED")
				}
			}
		}
		// and a read of the other consumer of p, and of everything, at the end
		for _, i := range []int{3, 4} {
			cs.exec(rd(i), &ans)
			ops = append(ops, rd(i).String())
		}
		c.Note("sn.variant." + va.name)
		c.Note(fmt.Sprintf("sn.source-kind-%c", kind))
		if deep {
			c.Note("sn.consumer-two-levels-up")
		} else {
			c.Note("sn.consumer-one-level-up")
		}
		cs.errNotes()
		c11EmitOrdinary(c, header, ops, &ans)
	}
}

// ---- deep family: one chain of `length` struct nodes over one parameter (far outside the path
// cap; a tiny op list keeps the all-node observation after every op affordable)

func c11DeepChain(c *Ctx, length int, full bool) {
	r := c.Rng
	kind := byte('P')
	if r.Intn(2) == 0 {
		kind = 'Q'
	}
	desc := []c11GNode{{kind: kind, v: 1 + r.Intn(99)}}
	for i := 1; i <= length; i++ {
		if i%2 == 0 {
			desc = append(desc, c11GNode{kind: 'S', v: 1 + r.Intn(100000), ar: [][]int{{i - 1}}}) // T01
		} else {
			desc = append(desc, c11GNode{kind: 'S', v: 1 + r.Intn(100000), sc: []int{i - 1}}) // T10
		}
	}
	cs, header := c11BuildGraph(c, false, desc)
	rd := func(i int) c11Op { return c11Op{kind: "rd", a: i} }
	ops := []c11Op{rd(length), {kind: "sp", a: 0, b: cs.freshVal()}, rd(length)}
	if full {
		ops = append(ops, rd(length/2), c11Op{kind: "sp", a: 0, b: cs.freshVal()}, rd(length))
	}
	var ans strings.Builder
	var txt []string
	for _, o := range ops {
		ok, execs := cs.exec(o, &ans)
		txt = append(txt, o.String())
		if !ok {
			c.Note("deep.op.PANIC")
		}
		if o.kind == "rd" && ok {
			if want := cs.skipSpec(o.a); cs.lastV1 != want || cs.lastV2 != want {
				c.Note("deep.FRESHNESS-FAILED")
			}
			if execs == length {
				c.Note("deep.rd-executed-the-whole-chain")
			}
		}
	}
	c.Note(fmt.Sprintf("deep.chain-of-%d", length))
	c11EmitOrdinary(c, header, txt, &ans)
}

const c11SkipRandomN = 300
const c11SkipRandom2N = 200

func runC11(c *Ctx) {
	// skipping-processor family first, independent of -n
	c11SkipWitnesses(c)
	for k := 0; k < c11SkipRandomN; k++ {
		c11SkipRandom(c)
	}
	for k := 0; k < c11SkipRandom2N; {
		if c11SkipRandom2(c) {
			k++
		}
	}
	// message family: ~400 histories in the quick tier (n = 6000), scaled with n
	nm := c.N / 15
	if nm < 40 {
		nm = 40
	}
	for k := 0; k < nm; k++ {
		c11MsgHistory(c)
	}
	// deep family: a chain of 1100 struct nodes, controls of 1001 and 999
	c11DeepChain(c, 1100, true)
	c11DeepChain(c, 1001, false)
	c11DeepChain(c, 999, false)
	// sn family: 12 fixed-shape histories
	c11SnHistories(c)
	// wide family: ~150 histories in the quick tier
	nw := c.N / 40
	if nw < 20 {
		nw = 20
	}
	for k := 0; k < nw; k++ {
		c11WideHistory(c)
	}
	for k := 0; k < c.N; k++ {
		c11History(c, k%2 == 0)
	}
	// multi-port family (c11_ports.go): a consumer re-wired between two ports of one node
	c11PortsHistories(c)
}
